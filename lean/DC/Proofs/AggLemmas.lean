/- helper lemmas for the aggregate operations of FanoutCache (C13_Agg) -/
import DC.Proofs.LayerLemmas

namespace DC

namespace Cache

theorem agg_fremove_depth (s : Cache) (f : Nat) : (s.fremove f).depth = s.depth := rfl

theorem agg_fremoveAll_depth (fs : List (Option Nat)) : ∀ s : Cache, (s.fremoveAll fs).depth = s.depth := by
  induction fs with
  | nil => intro s; rfl
  | cons x t ih =>
    intro s
    unfold fremoveAll
    rw [List.foldl_cons]
    cases x with
    | none => exact ih s
    | some f => exact (ih (s.fremove f)).trans (agg_fremove_depth s f)

theorem agg_tbegin_depth (s : Cache) : s.tbegin.depth = s.depth + 1 := by
  unfold tbegin
  split
  · next h =>
    have : s.depth = 0 := by simpa using h
    rw [this]
  · rfl

theorem agg_tend_depth (s : Cache) (h : s.depth = 1) : s.tend.depth = 0 := by
  unfold tend
  rw [if_pos (by rw [h]; rfl)]
  exact agg_fremoveAll_depth _ _

end Cache

namespace Fanout

/-- the state a shard is in when its call of an aggregate runs -/
def aggPrep (s : Cache) (env : List Nat) : Cache := { s with env := env, envMiss := false, trace := [] }

theorem agg_onShard_length (f : Fanout) (i : Nat) (op : Cache → Cache × Out) :
    (f.onShard i op).1.shards.length = f.shards.length := by
  unfold onShard
  split
  · rfl
  · simp

/-- the general shape of `each`: every shard exactly once, in order -/
theorem agg_each_shape (f : Fanout) (op : Cache → Cache × Out) :
    (f.each op).2.length = f.shards.length ∧ (f.each op).1.shards.length = f.shards.length ∧
    ∀ i (hi : i < f.shards.length), ∃ env : List Nat,
      (f.each op).2[i]? = some (op (aggPrep f.shards[i] env)).2 ∧
      (f.each op).1.shards[i]? = some (op (aggPrep f.shards[i] env)).1 := by
  have hI := each_induct f op
    (fun k acc => acc.2.length = k ∧ acc.1.shards.length = f.shards.length ∧
      (∀ j : Nat, k ≤ j → acc.1.shards[j]? = f.shards[j]?) ∧
      ∀ i (hi : i < f.shards.length), i < k → ∃ env : List Nat,
        acc.2[i]? = some (op (aggPrep f.shards[i] env)).2 ∧
        acc.1.shards[i]? = some (op (aggPrep f.shards[i] env)).1)
    ⟨rfl, rfl, fun _ _ => rfl, fun i _ h => absurd h (Nat.not_lt_zero _)⟩ ?_
  · exact ⟨hI.1, hI.2.1, fun i hi => hI.2.2.2 i hi hi⟩
  · intro k acc hk ⟨hl, hn, hrest, hdone⟩
    have hk2 := hrest k (Nat.le_refl _)
    rw [List.getElem?_eq_getElem hk] at hk2
    obtain ⟨ho, hsh⟩ := onShard_some acc.1 k op _ hk2
    refine ⟨?_, ?_, ?_, ?_⟩
    · show (acc.2 ++ [_]).length = k + 1
      rw [List.length_append, hl]; rfl
    · show (acc.1.onShard k op).1.shards.length = _
      rw [agg_onShard_length, hn]
    · intro j hj
      show (acc.1.onShard k op).1.shards[j]? = _
      rw [onShard_getElem_ne _ _ _ _ (by omega)]
      exact hrest j (by omega)
    · intro i hi hik
      by_cases hik' : i = k
      · subst hik'
        refine ⟨acc.1.env, ?_, ?_⟩
        · show (acc.2 ++ [(acc.1.onShard i op).2])[i]? = _
          rw [List.getElem?_append_right (by omega), hl, Nat.sub_self, ho]
          rfl
        · show (acc.1.onShard i op).1.shards[i]? = _
          rw [hsh]; rfl
      · obtain ⟨env, h1, h2⟩ := hdone i hi (by omega)
        refine ⟨env, ?_, ?_⟩
        · show (acc.2 ++ [(acc.1.onShard k op).2])[i]? = _
          rw [List.getElem?_append_left (by omega)]
          exact h1
        · show (acc.1.onShard k op).1.shards[i]? = _
          rw [onShard_getElem_ne _ _ _ _ hik']
          exact h2

/-- a projection of the shards after `each` that does not depend on the observations -/
theorem agg_each_map_state {β : Type} (f : Fanout) (op : Cache → Cache × Out) (g : Cache → β) (g' : Cache → β)
    (h : ∀ s ∈ f.shards, ∀ env, g (op (aggPrep s env)).1 = g' s) :
    (f.each op).1.shards.map g = f.shards.map g' := by
  obtain ⟨-, hn, hp⟩ := agg_each_shape f op
  apply List.ext_getElem?
  intro i
  rw [List.getElem?_map, List.getElem?_map]
  by_cases hi : i < f.shards.length
  · obtain ⟨env, -, h2⟩ := hp i hi
    rw [h2, List.getElem?_eq_getElem hi]
    simp only [Option.map_some]
    rw [h _ (List.getElem_mem hi) env]
  · rw [List.getElem?_eq_none (by omega), List.getElem?_eq_none (by omega)]
    rfl

/-- results of `each` that do not depend on the observations -/
theorem agg_each_map_out (f : Fanout) (op : Cache → Cache × Out) (g' : Cache → Out)
    (h : ∀ s ∈ f.shards, ∀ env, (op (aggPrep s env)).2 = g' s) :
    (f.each op).2 = f.shards.map g' := by
  obtain ⟨hl, -, hp⟩ := agg_each_shape f op
  apply List.ext_getElem?
  intro i
  rw [List.getElem?_map]
  by_cases hi : i < f.shards.length
  · obtain ⟨env, h1, -⟩ := hp i hi
    rw [h1, List.getElem?_eq_getElem hi]
    simp only [Option.map_some]
    rw [h _ (List.getElem_mem hi) env]
  · rw [List.getElem?_eq_none (by omega), List.getElem?_eq_none (by omega)]
    rfl

theorem agg_hits_aux (l : List Cache) (a : Int) :
    (l.map (fun s => Out.tup [.int s.hits, .int s.misses])).foldl
      (fun a o => match o with | .tup [.int h, _] => a + h | _ => a) a = a + (l.map (·.hits)).sum := by
  induction l generalizing a with
  | nil => simp
  | cons x t ih => simp only [List.map_cons, List.foldl_cons, List.sum_cons, ih]; omega

theorem agg_misses_aux (l : List Cache) (a : Int) :
    (l.map (fun s => Out.tup [.int s.hits, .int s.misses])).foldl
      (fun a o => match o with | .tup [_, .int m] => a + m | _ => a) a = a + (l.map (·.misses)).sum := by
  induction l generalizing a with
  | nil => simp
  | cons x t ih => simp only [List.map_cons, List.foldl_cons, List.sum_cons, ih]; omega

end Fanout

end DC
