/- helper lemmas for the queues (C10) -/
import DC.Proofs.Inv

namespace DC.Cache

/-! ### fixed-width decimal digits -/

/-- the low `k` decimal digits of `n`, most significant first, as code points -/
def dig : Nat → Nat → Str
  | 0, _ => []
  | k + 1, n => (48 + n / 10 ^ k % 10) :: dig k n

@[simp] theorem dig_length (k n : Nat) : (dig k n).length = k := by
  induction k with
  | zero => rfl
  | succ k ih => simp [dig, ih]

theorem dig_range (k n : Nat) : ∀ c ∈ dig k n, 48 ≤ c ∧ c ≤ 57 := by
  induction k with
  | zero => intro c hc; cases hc
  | succ k ih =>
    intro c hc
    rcases List.mem_cons.1 hc with rfl | hc
    · omega
    · exact ih c hc

theorem dig_snoc (k : Nat) : ∀ n, dig (k + 1) n = dig k (n / 10) ++ [48 + n % 10] := by
  induction k with
  | zero => intro n; simp [dig]
  | succ k ih =>
    intro n
    have h1 : dig (k + 2) n = (48 + n / 10 ^ (k + 1) % 10) :: dig (k + 1) n := rfl
    have h2 : dig (k + 1) (n / 10) = (48 + n / 10 / 10 ^ k % 10) :: dig k (n / 10) := rfl
    rw [h1, h2, ih n, Nat.div_div_eq_div_mul, Nat.pow_succ, Nat.mul_comm 10]
    rfl

theorem natDigits15_go (k : Nat) : ∀ n acc, natDigits15.go k n acc = dig k n ++ acc := by
  induction k with
  | zero => intro n acc; rfl
  | succ k ih =>
    intro n acc
    rw [natDigits15.go, ih, dig_snoc]
    simp

theorem natDigits15_eq (n : Nat) (h : n < 10 ^ 15) : natDigits15 n = dig 15 n := by
  unfold natDigits15
  simp only [h, if_true, natDigits15_go, List.append_nil]

/-! ### parsing the digits back -/

def parseStep (acc : Option Nat) (c : Nat) : Option Nat :=
  match acc with
  | none => none
  | some n => if 48 ≤ c && c ≤ 57 then some (n * 10 + (c - 48)) else none

theorem parseNum_eq (cs : Str) : parseNum cs = if cs.isEmpty then none else cs.foldl parseStep (some 0) := rfl

theorem foldl_parse_dig (k : Nat) : ∀ n a, (dig k n).foldl parseStep (some a) = some (a * 10 ^ k + n % 10 ^ k) := by
  induction k with
  | zero => intro n a; simp [dig, Nat.mod_one]
  | succ k ih =>
    intro n a
    have hd : 48 ≤ 48 + n / 10 ^ k % 10 ∧ 48 + n / 10 ^ k % 10 ≤ 57 := by omega
    simp only [dig, List.foldl_cons, parseStep, hd.1, hd.2, decide_true, Bool.and_self, if_true]
    rw [ih]
    congr 1
    have : n % 10 ^ (k + 1) = n % 10 ^ k + 10 ^ k * (n / 10 ^ k % 10) := by
      rw [Nat.pow_succ, Nat.mod_mul]
    rw [this, Nat.pow_succ]
    generalize 10 ^ k = K
    generalize n / K % 10 = d
    rw [Nat.add_sub_cancel_left, Nat.add_mul, Nat.mul_assoc, Nat.mul_comm 10 K, Nat.mul_comm d K]
    omega

theorem parseNum_dig (k n : Nat) (hk : 0 < k) : parseNum (dig k n) = some (n % 10 ^ k) := by
  rw [parseNum_eq]
  have : (dig k n).isEmpty = false := by
    cases k with
    | zero => omega
    | succ k => rfl
  simp [this, foldl_parse_dig]

/-! ### `afterLastDash` -/

theorem afterLastDash_go_nodash : ∀ (cs acc : Str), (∀ c ∈ cs, c ≠ 45) →
    afterLastDash.go cs acc = acc ++ cs
  | [], acc, _ => by simp [afterLastDash.go]
  | c :: cs, acc, h => by
    have hc : c ≠ 45 := h c List.mem_cons_self
    rw [afterLastDash.go]
    simp only [beq_iff_eq, hc, if_false]
    rw [afterLastDash_go_nodash cs _ (fun x hx => h x (List.mem_cons_of_mem _ hx))]
    simp

theorem afterLastDash_go_dash : ∀ (pre ds acc : Str),
    afterLastDash.go (pre ++ 45 :: ds) acc = afterLastDash.go ds []
  | [], ds, acc => by simp [afterLastDash.go]
  | c :: pre, ds, acc => by
    rw [List.cons_append, afterLastDash.go]
    split
    · exact afterLastDash_go_dash pre ds _
    · exact afterLastDash_go_dash pre ds _

theorem afterLastDash_dash (pre ds : Str) (h : ∀ c ∈ ds, c ≠ 45) :
    afterLastDash (pre ++ 45 :: ds) = ds := by
  unfold afterLastDash
  rw [afterLastDash_go_dash, afterLastDash_go_nodash _ _ h]
  rfl

/-! ### the queue key of a number -/

/-- numbers that fit the 15-digit field -/
def Fits (n : Int) : Prop := 0 ≤ n ∧ n < 10 ^ 15

theorem queueKey_text (p : Str) (n : Int) (h : Fits n) :
    queueKey (some p) n = .text (p ++ 45 :: dig 15 n.toNat) := by
  unfold queueKey
  have h0 : ¬ n < 0 := by have := h.1; omega
  have h1 : n.toNat < 10 ^ 15 := by have := h.1; have := h.2; omega
  simp only [h0, if_false, natDigits15_eq _ h1]

theorem queueNum_queueKey (p : Option Str) (n : Int) (h : Fits n) :
    queueNum (queueKey p n) = some n := by
  cases p with
  | none => rfl
  | some p =>
    rw [queueKey_text p n h]
    have h1 : n.toNat < 10 ^ 15 := by have := h.1; have := h.2; omega
    simp only [queueNum]
    rw [afterLastDash_dash _ _ (fun c hc => by have := dig_range _ _ c hc; omega),
      parseNum_dig _ _ (by decide), Nat.mod_eq_of_lt h1]
    have := h.1
    simp
    omega

/-! ### order of queue keys -/

theorem lexLt_cons_same (c : Nat) (a b : List Nat) : lexLt (c :: a) (c :: b) = lexLt a b := by
  simp [lexLt]

theorem lexLt_append_left : ∀ (p a b : List Nat), lexLt (p ++ a) (p ++ b) = lexLt a b
  | [], _, _ => rfl
  | c :: p, a, b => by
    rw [List.cons_append, List.cons_append, lexLt_cons_same, lexLt_append_left p]

theorem digit_cmp_lt (K lm ln dm dn : Nat) (hm : lm < K) (h : dm < dn) :
    lm + K * dm < ln + K * dn := by
  have := Nat.mul_le_mul_left K (show dm + 1 ≤ dn from h)
  rw [Nat.mul_succ] at this
  omega

theorem lexLt_dig (k : Nat) : ∀ m n, lexLt (dig k m) (dig k n) = decide (m % 10 ^ k < n % 10 ^ k) := by
  induction k with
  | zero => intro m n; simp [dig, lexLt, Nat.mod_one]
  | succ k ih =>
    intro m n
    have e : ∀ x, x % 10 ^ (k + 1) = x % 10 ^ k + 10 ^ k * (x / 10 ^ k % 10) := by
      intro x; rw [Nat.pow_succ, Nat.mod_mul]
    have hpos : 0 < 10 ^ k := Nat.pow_pos (by decide)
    have bm := Nat.mod_lt m hpos
    have bn := Nat.mod_lt n hpos
    simp only [dig, lexLt, ih, e]
    generalize 10 ^ k = K at *
    generalize m / K % 10 = dm
    generalize n / K % 10 = dn
    generalize m % K = lm at *
    generalize n % K = ln at *
    by_cases h1 : dm < dn
    · have := digit_cmp_lt K lm ln dm dn bm h1
      simp [h1, this]
    · by_cases h2 : dn < dm
      · have := digit_cmp_lt K ln lm dn dm bn h2
        have h3 : ¬ (lm + K * dm < ln + K * dn) := by omega
        simp [h1, h2, h3]
      · have : dm = dn := by omega
        subst this
        simp

theorem SqlVal.lt_text (a b : Str) : SqlVal.lt (.text a) (.text b) = lexLt a b := rfl

theorem SqlVal.lt_int (m n : Int) : SqlVal.lt (.int m) (.int n) = decide (m < n) := by
  have hpos : (0 : Int) < 2 ^ 1074 := Int.pow_pos (by decide)
  show (if (1 : Nat) < 1 then true else if (1 : Nat) < 1 then false else
    (Num.fin (m * 2 ^ 1074)).lt (Num.fin (n * 2 ^ 1074))) = decide (m < n)
  simp only [Nat.lt_irrefl, if_false, Num.lt]
  generalize (2 : Int) ^ 1074 = c at hpos
  rw [decide_eq_decide]
  exact Int.mul_lt_mul_right hpos

theorem queueKey_lt (p : Option Str) (m n : Int) (hm : Fits m) (hn : Fits n) :
    (queueKey p m).lt (queueKey p n) = decide (m < n) := by
  cases p with
  | none => exact SqlVal.lt_int m n
  | some p =>
    rw [queueKey_text p m hm, queueKey_text p n hn, SqlVal.lt_text, lexLt_append_left,
      lexLt_cons_same, lexLt_dig]
    have := hm.1; have := hm.2; have := hn.1; have := hn.2
    rw [Nat.mod_eq_of_lt (by omega), Nat.mod_eq_of_lt (by omega), decide_eq_decide]
    omega

theorem dig15_zero : dig 15 0 = List.replicate 15 48 := by decide
theorem dig15_max : dig 15 999999999999999 = List.replicate 15 57 := by decide

theorem fits_zero : Fits 0 := by unfold Fits; omega
theorem fits_max : Fits 999999999999999 := by unfold Fits; omega

theorem queueRange_fst (p : Option Str) : (queueRange p).1 = queueKey p 0 := by
  cases p with
  | none => rfl
  | some p =>
    rw [queueKey_text p 0 fits_zero]
    show SqlVal.text (p ++ 45 :: List.replicate 15 48) = _
    rw [← dig15_zero]; rfl

theorem queueRange_snd (p : Option Str) : (queueRange p).2 = queueKey p 999999999999999 := by
  cases p with
  | none => rfl
  | some p =>
    rw [queueKey_text p _ fits_max]
    show SqlVal.text (p ++ 45 :: List.replicate 15 57) = _
    rw [← dig15_max]; rfl

theorem sameLength_queueKey (p : Option Str) (n : Int) (h : Fits n) :
    sameLength p (queueKey p n) = true := by
  cases p with
  | none => rfl
  | some p => rw [queueKey_text p n h]; simp [sameLength]

/-! ### the queue as a sorted list determined by its members -/

/-- the WHERE clause of the queue queries -/
def qfilter (p : Option Str) (r : Row) : Bool :=
  inRange (queueRange p).1 (queueRange p).2 r && r.raw && sameLength p r.key

def klt (a b : Row) : Bool := a.key.lt b.key

def qrows (rows : List Row) (p : Option Str) : List Row := isort klt (rows.filter (qfilter p))

theorem queueRows_eq (s : Cache) (p : Option Str) : s.queueRows p = qrows s.rows p := rfl

theorem klt_irrefl (a : Row) : klt a a = false := SqlVal.lt_irrefl _
theorem klt_trans (a b c : Row) : klt a b = true → klt b c = true → klt a c = true :=
  SqlVal.lt_trans _ _ _

theorem mem_qrows {rows : List Row} {p : Option Str} {x : Row} :
    x ∈ qrows rows p ↔ x ∈ rows ∧ qfilter p x = true := by
  unfold qrows; rw [mem_isort, List.mem_filter]

theorem qfilter_raw {p : Option Str} {x : Row} (h : qfilter p x = true) : x.raw = true := by
  unfold qfilter at h
  simp only [Bool.and_eq_true] at h
  exact h.1.2

theorem qcomparable {rows : List Row} (hu : KeysUnique rows) (hn : ∀ r ∈ rows, r.key ≠ .null)
    (p : Option Str) :
    (rows.filter (qfilter p)).Pairwise (fun a b => klt a b = true ∨ klt b a = true) := by
  have hu' : KeysUnique (rows.filter (qfilter p)) := List.Pairwise.filter _ hu
  refine List.Pairwise.imp_of_mem ?_ hu'
  intro a b ha hb hne
  obtain ⟨ha1, ha2⟩ := List.mem_filter.1 ha
  obtain ⟨hb1, hb2⟩ := List.mem_filter.1 hb
  rcases SqlVal.lt_total a.key b.key (hn a ha1) (hn b hb1) with h | h | h
  · exact Or.inl h
  · exact Or.inr h
  · exact absurd ⟨h, (qfilter_raw ha2).trans (qfilter_raw hb2).symm⟩ hne

theorem qrows_sorted {rows : List Row} (hu : KeysUnique rows) (hn : ∀ r ∈ rows, r.key ≠ .null)
    (p : Option Str) : (qrows rows p).Pairwise (fun a b => klt a b = true) :=
  isort_sorted_strict klt klt_trans _ (qcomparable hu hn p)

/-- a strictly sorted list with the right members is the queue -/
theorem qrows_eq_of_mem {rows : List Row} (hu : KeysUnique rows) (hn : ∀ r ∈ rows, r.key ≠ .null)
    (p : Option Str) (l : List Row) (hl : l.Pairwise (fun a b => klt a b = true))
    (hm : ∀ x, x ∈ l ↔ x ∈ rows ∧ qfilter p x = true) : qrows rows p = l :=
  sorted_ext klt klt_irrefl klt_trans _ _ (qrows_sorted hu hn p) hl
    (fun x => by rw [mem_qrows, hm])

/-- the queue of a filtered table is the filtered queue -/
theorem qrows_filter {rows : List Row} (hu : KeysUnique rows) (hn : ∀ r ∈ rows, r.key ≠ .null)
    (p : Option Str) (f : Row → Bool) : qrows (rows.filter f) p = (qrows rows p).filter f := by
  apply qrows_eq_of_mem (List.Pairwise.filter _ hu) (fun r hr => hn r (List.mem_filter.1 hr).1)
  · exact List.Pairwise.filter _ (qrows_sorted hu hn p)
  · intro x
    rw [List.mem_filter, mem_qrows, List.mem_filter]
    constructor
    · rintro ⟨⟨a, b⟩, c⟩; exact ⟨⟨a, c⟩, b⟩
    · rintro ⟨⟨a, c⟩, b⟩; exact ⟨⟨a, b⟩, c⟩

theorem qrows_filter_id {rows : List Row} (hu : KeysUnique rows) (hn : ∀ r ∈ rows, r.key ≠ .null)
    (p : Option Str) (f : Row → Bool) (hf : ∀ x ∈ qrows rows p, f x = true) :
    qrows (rows.filter f) p = qrows rows p := by
  rw [qrows_filter hu hn, List.filter_eq_self]
  exact hf

/-! ### queues of different prefixes are disjoint -/

theorem lexLt_between_prefix : ∀ (p a b k : List Nat), lexLt (p ++ a) k = true →
    lexLt k (p ++ b) = true → ∃ rest, k = p ++ rest
  | [], _, _, k, _, _ => ⟨k, rfl⟩
  | x :: p, a, b, [], h1, _ => by simp [lexLt] at h1
  | x :: p, a, b, y :: k, h1, h2 => by
    simp only [List.cons_append, lexLt] at h1 h2
    by_cases hxy : x < y
    · have : ¬ y < x := by omega
      simp [hxy, this] at h2
    · by_cases hyx : y < x
      · simp [hxy, hyx] at h1
      · have : x = y := by omega
        subst this
        simp only [hxy, if_false] at h1 h2
        obtain ⟨rest, hr⟩ := lexLt_between_prefix p a b k h1 h2
        exact ⟨rest, by rw [hr]; rfl⟩

theorem SqlVal.lt_cls {a b : SqlVal} (h : a.lt b = true) : a.cls ≤ b.cls := by
  unfold SqlVal.lt at h
  split at h
  · omega
  · split at h
    · cases h
    · omega

/-- a key in the queue of a text prefix is that prefix followed by 16 code points -/
theorem qfilter_text {p : Str} {x : Row} (h : qfilter (some p) x = true) :
    ∃ rest, x.key = .text (p ++ rest) ∧ rest.length = 16 := by
  unfold qfilter inRange at h
  simp only [Bool.and_eq_true] at h
  obtain ⟨⟨⟨h1, h2⟩, -⟩, h3⟩ := h
  cases hk : x.key with
  | text cs =>
    rw [hk] at h1 h2 h3
    simp only [sameLength, beq_iff_eq] at h3
    obtain ⟨rest, hr⟩ := lexLt_between_prefix p _ _ cs h1 h2
    refine ⟨rest, by rw [hr], ?_⟩
    rw [hr, List.length_append] at h3
    omega
  | _ => rw [hk] at h3; simp [sameLength] at h3

theorem qfilter_none {x : Row} (h : qfilter none x = true) : x.key.cls = 1 := by
  unfold qfilter inRange at h
  simp only [Bool.and_eq_true] at h
  obtain ⟨⟨⟨h1, h2⟩, -⟩, -⟩ := h
  have a := SqlVal.lt_cls h1
  have b := SqlVal.lt_cls h2
  have e1 : (queueRange none).1.cls = 1 := rfl
  have e2 : (queueRange none).2.cls = 1 := rfl
  omega

theorem qfilter_disjoint {p q : Option Str} (hpq : p ≠ q) {x : Row} (hp : qfilter p x = true)
    (hq : qfilter q x = true) : False := by
  cases p with
  | none =>
    cases q with
    | none => exact hpq rfl
    | some q =>
      obtain ⟨rest, hr, -⟩ := qfilter_text hq
      have := qfilter_none hp
      rw [hr] at this
      cases this
  | some p =>
    cases q with
    | none =>
      obtain ⟨rest, hr, -⟩ := qfilter_text hp
      have := qfilter_none hq
      rw [hr] at this
      cases this
    | some q =>
      obtain ⟨r1, h1, l1⟩ := qfilter_text hp
      obtain ⟨r2, h2, l2⟩ := qfilter_text hq
      rw [h1] at h2
      injection h2 with h2
      have hl : p.length = q.length := by
        have := congrArg List.length h2
        simp only [List.length_append] at this
        omega
      exact hpq (by rw [(List.append_inj h2 hl).1])

theorem qrows_disjoint {rows : List Row} {p q : Option Str} (hpq : p ≠ q) {x : Row}
    (hp : x ∈ qrows rows p) (hq : x ∈ qrows rows q) : False :=
  qfilter_disjoint hpq (mem_qrows.1 hp).2 (mem_qrows.1 hq).2

/-! ### transactions, with the configuration and the files -/

theorem fremoveAll_nil (s : Cache) : s.fremoveAll [] = s := rfl

/-- a transaction whose body cannot raise -/
theorem transact_ok (s : Cache) (body : Cache → Body) (fresh : Option Nat)
    (hok : ∀ t, (body t).ok = true) :
    ∃ t, t.rows = s.rows ∧ t.cfg = s.cfg ∧ t.files = s.files ∧ t.depth = s.depth ∧
      (s.transact body fresh).1.rows = (body t).s.rows ∧
      (s.transact body fresh).1.cfg = (body t).s.cfg ∧
      (s.transact body fresh).2 = (body t).out ∧
      ((body t).cleanup = [] → (s.transact body fresh).1.files = (body t).s.files) := by
  unfold transact
  split
  · cases fresh with
    | none =>
      refine ⟨s, rfl, rfl, rfl, rfl, ?_⟩
      simp [hok]
    | some f =>
      refine ⟨{ s with created := s.created ++ [f] }, rfl, rfl, rfl, rfl, ?_⟩
      simp [hok]
  · refine ⟨s.log .begin, rfl, rfl, rfl, rfl, ?_⟩
    simp only [hok, if_true]
    refine ⟨by rw [fremoveAll_rows]; rfl, by rw [fremoveAll_cfg]; rfl, trivial, fun h => ?_⟩
    rw [h, fremoveAll_nil]; rfl

/-- a transaction in general: the body runs on a state with the same table, configuration and
files; if it raises, the table is the body's (nested) or the one before (rolled back) -/
theorem transact_cases (s : Cache) (body : Cache → Body) (fresh : Option Nat) :
    ∃ t, t.rows = s.rows ∧ t.cfg = s.cfg ∧ t.depth = s.depth ∧
      (((body t).ok = true ∧ (s.transact body fresh).1.rows = (body t).s.rows ∧
        (s.transact body fresh).2 = (body t).out) ∨
       ((body t).ok = false ∧ ((s.transact body fresh).1.rows = (body t).s.rows ∨
          (s.transact body fresh).1.rows = s.rows))) := by
  unfold transact
  split
  · cases fresh with
    | none =>
      refine ⟨s, rfl, rfl, rfl, ?_⟩
      cases h : (body s).ok
      · right; simp [h]
      · left; simp [h]
    | some f =>
      refine ⟨{ s with created := s.created ++ [f] }, rfl, rfl, rfl, ?_⟩
      simp only
      cases h : (body { s with created := s.created ++ [f] }).ok
      · right; simp
      · left; simp
  · refine ⟨s.log .begin, rfl, rfl, rfl, ?_⟩
    simp only
    cases h : (body (s.log .begin)).ok
    · right
      refine ⟨rfl, Or.inr ?_⟩
      cases fresh <;> simp [restore, takeSnap]
    · left; simp

theorem fetchRow_snd_congr_q (a b : Cache) (E : Externals) (r : Row) (rd : Bool)
    (h1 : a.files = b.files) (h2 : a.cfg = b.cfg) :
    (a.fetchRow E r rd).2 = (b.fetchRow E r rd).2 := by
  unfold fetchRow
  cases r.file with
  | none => simp only [h2]
  | some f =>
    simp only
    split <;> simp [fileGet, h1, h2]

@[simp] theorem fetchRow_files (s : Cache) (E : Externals) (r : Row) (read : Bool) :
    (s.fetchRow E r read).1.files = s.files := by
  unfold fetchRow
  split
  · simp only; split <;> rfl
  · rfl

@[simp] theorem fetchRow_cfg (s : Cache) (E : Externals) (r : Row) (read : Bool) :
    (s.fetchRow E r read).1.cfg = s.cfg := by
  unfold fetchRow
  split
  · simp only; split <;> rfl
  · rfl

/-! ### one round of `pull` / `peek` -/

def selBody : Cache → Body := fun s => { s := s.logSql "selQueueHead", out := .none }

def delBody (r : Row) (cl : List (Option Nat)) : Cache → Body := fun s =>
  { s := (s.logSql "selQueueHead").delRow r.rowid, out := .none, cleanup := cl }

def pullSel (s : Cache) : Cache := (s.transact selBody).1
def pullDel (s : Cache) (r : Row) (cl : List (Option Nat)) : Cache := (s.transact (delBody r cl)).1
def pullTake (s : Cache) (E : Externals) (r : Row) : Cache :=
  ((pullDel s r []).fetchRow E r false).1.removeCommitted r.file

def qhead (s : Cache) (p : Option Str) (front : Bool) : Option Row :=
  if front then (s.queueRows p).head? else lastRow? (s.queueRows p)

theorem pullLoop_succ (E : Externals) (now : Int) (p : Option Str) (front et tg : Bool) (fuel : Nat)
    (s : Cache) : pullLoop E now p front et tg (fuel + 1) s =
      match qhead s p front with
      | none => (pullSel s, defaultFlags et tg)
      | some r =>
        if expired now r then pullLoop E now p front et tg fuel (pullDel s r [r.file])
        else match ((pullDel s r []).fetchRow E r false).2 with
          | .ioerror => pullLoop E now p front et tg fuel (pullTake s E r)
          | f => (pullTake s E r, withFlags (.tup [.val (column r.key), fetchedOut f]) et tg r.expT r.tag) := rfl

theorem peekLoop_succ (E : Externals) (now : Int) (p : Option Str) (front et tg : Bool) (fuel : Nat)
    (s : Cache) : peekLoop E now p front et tg (fuel + 1) s =
      match qhead s p front with
      | none => (pullSel s, defaultFlags et tg)
      | some r =>
        if expired now r then peekLoop E now p front et tg fuel (pullDel s r [r.file])
        else match ((pullSel s).fetchRow E r false).2 with
          | .ioerror => peekLoop E now p front et tg fuel ((pullSel s).fetchRow E r false).1
          | f => (((pullSel s).fetchRow E r false).1,
              withFlags (.tup [.val (column r.key), fetchedOut f]) et tg r.expT r.tag) := rfl

theorem pullSel_spec (s : Cache) :
    (pullSel s).rows = s.rows ∧ (pullSel s).cfg = s.cfg ∧ (pullSel s).files = s.files := by
  obtain ⟨t, h1, h2, h3, -, h5, h6, -, h8⟩ := transact_ok s selBody none (fun _ => rfl)
  exact ⟨h5.trans h1, h6.trans h2, (h8 rfl).trans h3⟩

theorem pullDel_rows (s : Cache) (r : Row) (cl : List (Option Nat)) :
    (pullDel s r cl).rows = s.rows.filter (·.rowid != r.rowid) := by
  obtain ⟨t, h1, -, -, -, h5, -⟩ := transact_ok s (delBody r cl) none (fun _ => rfl)
  refine h5.trans ?_
  show ((t.logSql "selQueueHead").delRowQuiet r.rowid).rows = _
  rw [delRowQuiet_rows, logSql_rows, h1]

theorem pullDel_nil_spec (s : Cache) (r : Row) :
    (pullDel s r []).cfg = s.cfg ∧ (pullDel s r []).files = s.files := by
  obtain ⟨t, -, h2, h3, -, -, h6, -, h8⟩ := transact_ok s (delBody r []) none (fun _ => rfl)
  refine ⟨h6.trans ?_, (h8 rfl).trans ?_⟩
  · show ((t.logSql "selQueueHead").delRowQuiet r.rowid).cfg = _
    rw [delRowQuiet_cfg, logSql_cfg, h2]
  · show ((t.logSql "selQueueHead").delRowQuiet r.rowid).files = _
    rw [delRowQuiet_files, logSql_files, h3]

theorem pullTake_rows (s : Cache) (E : Externals) (r : Row) :
    (pullTake s E r).rows = s.rows.filter (·.rowid != r.rowid) := by
  unfold pullTake
  rw [removeCommitted_rows, fetchRow_rows, pullDel_rows]

theorem pullDel_fetch (s : Cache) (E : Externals) (r : Row) :
    ((pullDel s r []).fetchRow E r false).2 = (s.fetchRow E r false).2 :=
  fetchRow_snd_congr_q _ _ E r false (pullDel_nil_spec s r).2 (pullDel_nil_spec s r).1

theorem pullSel_fetch (s : Cache) (E : Externals) (r : Row) :
    ((pullSel s).fetchRow E r false).2 = (s.fetchRow E r false).2 :=
  fetchRow_snd_congr_q _ _ E r false (pullSel_spec s).2.2 (pullSel_spec s).2.1

theorem qhead_mem {s : Cache} {p : Option Str} {front : Bool} {r : Row}
    (h : qhead s p front = some r) : r ∈ s.queueRows p := by
  unfold qhead at h
  cases front with
  | true => exact List.mem_of_head? h
  | false => exact lastRow?_mem h

theorem filter_true' {α} (l : List α) : l.filter (fun _ => true) = l := by
  rw [List.filter_eq_self]; intro _ _; rfl

/-- `pull` only ever deletes members of the queue it is pulling from -/
theorem pullLoop_rows (E : Externals) (now : Int) (p : Option Str) (front et tg : Bool) :
    ∀ (fuel : Nat) (s : Cache), RowidsAsc s.rows →
      ∃ f : Row → Bool, (pullLoop E now p front et tg fuel s).1.rows = s.rows.filter f ∧
        ∀ x ∈ s.rows, x ∉ s.queueRows p → f x = true := by
  intro fuel
  induction fuel with
  | zero =>
    intro s _
    exact ⟨fun _ => true, by simp [pullLoop, filter_true'], fun _ _ _ => rfl⟩
  | succ n ih =>
    intro s hasc
    -- deleting the head `r` and going on
    have step : ∀ (r : Row) (s' : Cache), r ∈ s.queueRows p →
        s'.rows = s.rows.filter (·.rowid != r.rowid) →
        ∃ f : Row → Bool, (pullLoop E now p front et tg n s').1.rows = s.rows.filter f ∧
          ∀ x ∈ s.rows, x ∉ s.queueRows p → f x = true := by
      intro r s' hr hs'
      have hasc' : RowidsAsc s'.rows := by rw [hs']; exact hasc.filter _
      obtain ⟨f, hf1, hf2⟩ := ih s' hasc'
      refine ⟨fun x => (x.rowid != r.rowid) && f x, ?_, ?_⟩
      · rw [hf1, hs', List.filter_filter]
        apply List.filter_congr; intro x _; exact Bool.and_comm _ _
      · intro x hx hnq
        have hrr : r ∈ s.rows := (mem_qrows.1 hr).1
        have hne : (x.rowid != r.rowid) = true := by
          simp only [bne_iff_ne, ne_eq]
          intro e
          exact hnq (hasc.inj x hx r hrr e ▸ hr)
        have hx' : x ∈ s'.rows := by rw [hs']; exact List.mem_filter.2 ⟨hx, hne⟩
        have hnq' : x ∉ s'.queueRows p := by
          intro h
          apply hnq
          rw [queueRows_eq] at h ⊢
          exact mem_qrows.2 ⟨hx, (mem_qrows.1 h).2⟩
        simp only [hne, Bool.true_and]
        exact hf2 x hx' hnq'
    have one : ∀ (r : Row), r ∈ s.queueRows p →
        ∃ f : Row → Bool, s.rows.filter (·.rowid != r.rowid) = s.rows.filter f ∧
          ∀ x ∈ s.rows, x ∉ s.queueRows p → f x = true := by
      intro r hr
      refine ⟨fun x => x.rowid != r.rowid, rfl, ?_⟩
      intro x hx hnq
      have hrr : r ∈ s.rows := (mem_qrows.1 hr).1
      simp only [bne_iff_ne, ne_eq]
      intro e
      exact hnq (hasc.inj x hx r hrr e ▸ hr)
    rw [pullLoop_succ]
    split
    · exact ⟨fun _ => true, by simp [(pullSel_spec s).1, filter_true'], fun _ _ _ => rfl⟩
    · rename_i r hh
      have hr := qhead_mem hh
      split
      · exact step r _ hr (pullDel_rows s r _)
      · split
        · exact step r _ hr (pullTake_rows s E r)
        · simp only [pullTake_rows]
          exact one r hr

/-! ### deleting one end of the queue -/

theorem filter_rowid_notin {rows l : List Row} (hasc : RowidsAsc rows) (hsub : ∀ x ∈ l, x ∈ rows)
    {r : Row} (hr : r ∈ rows) (hn : r ∉ l) : l.filter (·.rowid != r.rowid) = l := by
  rw [List.filter_eq_self]
  intro x hx
  simp only [bne_iff_ne, ne_eq]
  intro e
  exact hn (hasc.inj x (hsub x hx) r hr e ▸ hx)

theorem queue_del_head {s s' : Cache} (hinv : TableInv s) {p : Option Str} {r : Row} {rest : List Row}
    (hq : s.queueRows p = r :: rest) (hs' : s'.rows = s.rows.filter (·.rowid != r.rowid)) :
    s'.queueRows p = rest := by
  have hsorted := qrows_sorted hinv.tbl.uniq hinv.tbl.nonnull p
  rw [← queueRows_eq, hq] at hsorted
  have hsub : ∀ x ∈ r :: rest, x ∈ s.rows := by
    intro x hx; rw [← hq, queueRows_eq] at hx; exact (mem_qrows.1 hx).1
  have hnot : r ∉ rest := by
    intro h
    have := (List.pairwise_cons.1 hsorted).1 r h
    rw [klt_irrefl] at this; cases this
  rw [queueRows_eq, hs', qrows_filter hinv.tbl.uniq hinv.tbl.nonnull, ← queueRows_eq, hq]
  rw [List.filter_cons]
  simp only [bne_self_eq_false, Bool.false_eq_true, if_false]
  exact filter_rowid_notin hinv.tbl.asc (fun x hx => hsub x (List.mem_cons_of_mem _ hx))
    (hsub r List.mem_cons_self) hnot

theorem queue_del_last {s s' : Cache} (hinv : TableInv s) {p : Option Str} {r : Row} {front : List Row}
    (hq : s.queueRows p = front ++ [r]) (hs' : s'.rows = s.rows.filter (·.rowid != r.rowid)) :
    s'.queueRows p = front := by
  have hsorted := qrows_sorted hinv.tbl.uniq hinv.tbl.nonnull p
  rw [← queueRows_eq, hq] at hsorted
  have hsub : ∀ x ∈ front ++ [r], x ∈ s.rows := by
    intro x hx; rw [← hq, queueRows_eq] at hx; exact (mem_qrows.1 hx).1
  have hnot : r ∉ front := by
    intro h
    have := (List.pairwise_append.1 hsorted).2.2 r h r (by simp)
    rw [klt_irrefl] at this; cases this
  rw [queueRows_eq, hs', qrows_filter hinv.tbl.uniq hinv.tbl.nonnull, ← queueRows_eq, hq]
  rw [List.filter_append, filter_rowid_notin hinv.tbl.asc
    (fun x hx => hsub x (List.mem_append_left _ hx)) (hsub r (by simp)) hnot]
  simp

/-! ### membership of a key in the queue range -/

def kfilter (p : Option Str) (k : SqlVal) : Bool :=
  (queueRange p).1.lt k && k.lt (queueRange p).2 && sameLength p k

theorem qfilter_iff {p : Option Str} {r : Row} :
    qfilter p r = true ↔ kfilter p r.key = true ∧ r.raw = true := by
  unfold qfilter kfilter inRange
  simp only [Bool.and_eq_true]
  constructor
  · rintro ⟨⟨⟨a, b⟩, c⟩, d⟩; exact ⟨⟨⟨a, b⟩, d⟩, c⟩
  · rintro ⟨⟨⟨a, b⟩, d⟩, c⟩; exact ⟨⟨⟨a, b⟩, c⟩, d⟩

theorem kfilter_queueKey (p : Option Str) (n : Int) (h1 : 1 ≤ n) (h2 : n ≤ 999999999999998) :
    kfilter p (queueKey p n) = true := by
  have hf : Fits n := by unfold Fits; omega
  unfold kfilter
  rw [queueRange_fst, queueRange_snd, queueKey_lt p 0 n fits_zero hf,
    queueKey_lt p n _ hf fits_max, sameLength_queueKey p n hf]
  simp only [Bool.and_eq_true, decide_eq_true_eq, and_true]
  omega

theorem eqv_text {k : SqlVal} {cs : Str} (h : k.eqv (.text cs) = true) : k = .text cs := by
  cases k <;> simp [SqlVal.eqv] at h
  rw [h]

theorem kfilter_eqv {p : Option Str} {k k' : SqlVal} (he : k'.eqv k = true) (h : kfilter p k = true) :
    kfilter p k' = true := by
  unfold kfilter at h ⊢
  simp only [Bool.and_eq_true] at h ⊢
  obtain ⟨⟨h1, h2⟩, h3⟩ := h
  refine ⟨⟨SqlVal.lt_eqv _ _ _ h1 (SqlVal.eqv_symm _ _ he), SqlVal.eqv_lt _ _ _ he h2⟩, ?_⟩
  cases p with
  | none => rfl
  | some p =>
    cases k with
    | text cs => rw [eqv_text he]; exact h3
    | _ => simp [sameLength] at h3

/-! ### binding the new key -/

theorem utf8enc_cons_isSome (c : Nat) (cs : Str) :
    (utf8enc (c :: cs)).isSome = (!(isSurrogate c || decide (c ≥ 0x110000)) && (utf8enc cs).isSome) := by
  rw [utf8enc]
  split
  · rename_i h; simp [h]
  · rename_i h
    cases utf8enc cs <;> simp [h]

theorem utf8enc_append_isSome : ∀ (a b : Str),
    (utf8enc (a ++ b)).isSome = ((utf8enc a).isSome && (utf8enc b).isSome)
  | [], b => by simp [utf8enc]
  | c :: a, b => by
    rw [List.cons_append, utf8enc_cons_isSome, utf8enc_cons_isSome, utf8enc_append_isSome a b,
      Bool.and_assoc]

theorem utf8enc_ascii : ∀ (l : Str), (∀ c ∈ l, c < 128) → (utf8enc l).isSome = true
  | [], _ => rfl
  | c :: l, h => by
    have hc := h c List.mem_cons_self
    rw [utf8enc_cons_isSome, utf8enc_ascii l (fun x hx => h x (List.mem_cons_of_mem _ hx))]
    have h1 : isSurrogate c = false := by
      unfold isSurrogate
      simp only [Bool.and_eq_false_iff, decide_eq_false_iff_not]
      left; omega
    have h2 : ¬ c ≥ 0x110000 := by omega
    simp [h1, h2]

theorem bindable_queueKey (p : Option Str) (n : Int) (hf : Fits n)
    (hp : ∀ q, p = some q → (utf8enc q).isSome = true) : bindable (queueKey p n) = true := by
  cases p with
  | none =>
    have := hf.1; have := hf.2
    show inI64 n = true
    unfold inI64
    simp only [Bool.and_eq_true, decide_eq_true_eq]
    omega
  | some q =>
    rw [queueKey_text q n hf]
    show (utf8enc (q ++ 45 :: dig 15 n.toNat)).isSome = true
    rw [utf8enc_append_isSome, hp q rfl, utf8enc_ascii]
    · rfl
    · intro c hc
      rcases List.mem_cons.1 hc with rfl | hc
      · omega
      · have := dig_range _ _ c hc; omega

/-! ### `push` -/

def pushNum (s : Cache) (p : Option Str) (back : Bool) : Option Int :=
  match (if back then lastRow? (s.queueRows p) else (s.queueRows p).head?) with
  | none => some (s.cfg.qorigin : Int)
  | some r => (queueNum r.key).map (fun n => if back then n + 1 else n - 1)

theorem pushNum_congr {s t : Cache} (hr : t.rows = s.rows) (hc : t.cfg = s.cfg) (p : Option Str)
    (back : Bool) : pushNum t p back = pushNum s p back := by
  unfold pushNum
  rw [queueRows_eq, queueRows_eq, hr, hc]

def pushBody (now : Int) (p : Option Str) (back : Bool) (c : Cols) : Cache → Body := fun s =>
  match pushNum s p back with
  | none => { s := s.logSql "selQueueEnd", out := .exc "ValueError", ok := false }
  | some num =>
    let s := s.logSql "selQueueEnd"
    let dbk := queueKey p num
    if (s.selKey dbk true).isSome then
      { s := s.log (.sqlFail "insRow"), out := .exc "IntegrityError", ok := false }
    else if !c.bindable || !bindable dbk then
      { s := s.log (.sqlFail "insRow"), out := .exc "UnicodeEncodeError", ok := false }
    else
    let s := s.insRow dbk true now c
    { s := (s.cullW now).1, out := .val (column dbk), cleanup := (s.cullW now).2 }

theorem push_eq (s : Cache) (E : Externals) (now : Int) (v : PyVal) (p : Option Str) (back : Bool)
    (ttl : Option Int) (read : Bool) (tag : SqlVal) :
    s.push E now v p back ttl read tag =
      match s.store E v read with
      | .error _ => (s, .exc "UnicodeEncodeError")
      | .ok (s1, c) =>
        s1.transact (fresh := c.file)
          (pushBody now p back { c with expT := ttl.map (now + ·), tag := tag }) := rfl

theorem pushBody_some {now : Int} {p : Option Str} {back : Bool} {c : Cols} {t : Cache} {num : Int}
    (hn : pushNum t p back = some num) (hsel : t.selKey (queueKey p num) true = none)
    (hb : c.bindable = true) (hbk : bindable (queueKey p num) = true) :
    pushBody now p back c t =
      { s := (((t.logSql "selQueueEnd").insRow (queueKey p num) true now c).cullW now).1,
        out := .val (column (queueKey p num)),
        cleanup := (((t.logSql "selQueueEnd").insRow (queueKey p num) true now c).cullW now).2 } := by
  unfold pushBody
  rw [hn]
  have hsel' : ((t.logSql "selQueueEnd").selKey (queueKey p num) true) = none := hsel
  simp only [hsel', Option.isSome_none, Bool.false_eq_true, if_false, hb, hbk, Bool.not_true,
    Bool.or_self]

theorem pushBody_cases (now : Int) (p : Option Str) (back : Bool) (c : Cols) (t : Cache) :
    ((pushBody now p back c t).ok = false ∧ (pushBody now p back c t).s.rows = t.rows) ∨
    ∃ num, pushNum t p back = some num ∧ t.selKey (queueKey p num) true = none ∧
      pushBody now p back c t =
        { s := (((t.logSql "selQueueEnd").insRow (queueKey p num) true now c).cullW now).1,
          out := .val (column (queueKey p num)),
          cleanup := (((t.logSql "selQueueEnd").insRow (queueKey p num) true now c).cullW now).2 } := by
  cases hn : pushNum t p back with
  | none => left; unfold pushBody; rw [hn]; exact ⟨rfl, rfl⟩
  | some num =>
    cases hsel : t.selKey (queueKey p num) true with
    | some r =>
      left; unfold pushBody; rw [hn]
      have hsel' : ((t.logSql "selQueueEnd").selKey (queueKey p num) true) = some r := hsel
      simp only [hsel', Option.isSome_some, if_true]
      exact ⟨trivial, rfl⟩
    | none =>
      by_cases hb : c.bindable = true ∧ bindable (queueKey p num) = true
      · right; exact ⟨num, rfl, hsel, pushBody_some hn hsel hb.1 hb.2⟩
      · left; unfold pushBody; rw [hn]
        have hsel' : ((t.logSql "selQueueEnd").selKey (queueKey p num) true) = none := hsel
        have : (!c.bindable || !bindable (queueKey p num)) = true := by
          cases h1 : c.bindable <;> cases h2 : bindable (queueKey p num) <;> simp_all
        simp only [hsel', Option.isSome_none, Bool.false_eq_true, if_false, this, if_true]
        exact ⟨trivial, rfl⟩

theorem store_spec {s s1 : Cache} {E : Externals} {v : PyVal} {rd : Bool} {c : Cols}
    (hst : s.store E v rd = .ok (s1, c)) : s1.rows = s.rows ∧ s1.cfg = s.cfg ∧ s1.depth = s.depth := by
  unfold store at hst
  split at hst
  · cases hst
  · cases hst; exact ⟨rfl, rfl, rfl⟩
  · cases hst; exact ⟨rfl, rfl, rfl⟩

/-- the row `insRow` appends -/
def mkRow (rows : List Row) (k : SqlVal) (now : Int) (c : Cols) : Row :=
  { rowid := maxRowid rows + 1, key := k, raw := true, storeT := now, expT := c.expT, accT := now,
    accN := 0, tag := c.tag, size := c.size, mode := c.mode, file := c.file, val := c.val }

theorem insRow_rows (t : Cache) (k : SqlVal) (now : Int) (c : Cols) :
    (t.insRow k true now c).rows = t.rows ++ [mkRow t.rows k now c] := rfl

/-- every way `push` can end, as far as the table is concerned -/
theorem push_cases (s : Cache) (E : Externals) (now : Int) (v : PyVal) (p : Option Str) (back : Bool)
    (ttl : Option Int) (tag : SqlVal) :
    (s.push E now v p back ttl false tag).1.rows = s.rows ∨
    ∃ (s1 : Cache) (c : Cols) (num : Int) (t : Cache), s.store E v false = .ok (s1, c) ∧ pushNum s p back = some num ∧
      s.selKey (queueKey p num) true = none ∧ t.rows = s.rows ∧ t.cfg = s.cfg ∧
      (s.push E now v p back ttl false tag).1.rows =
        ((t.insRow (queueKey p num) true now { c with expT := ttl.map (now + ·), tag := tag }).cullW now).1.rows ∧
      (s.push E now v p back ttl false tag).2 = .val (column (queueKey p num)) := by
  rw [push_eq]
  cases hst : s.store E v false with
  | error e => left; rfl
  | ok sc =>
    obtain ⟨s1, c⟩ := sc
    obtain ⟨h1, h2, -⟩ := store_spec hst
    simp only
    obtain ⟨t, ht1, ht2, -, hcase⟩ := transact_cases s1
      (pushBody now p back { c with expT := ttl.map (now + ·), tag := tag }) c.file
    rcases pushBody_cases now p back { c with expT := ttl.map (now + ·), tag := tag } t with
      ⟨hok, hrows⟩ | ⟨num, hn, hsel, hbody⟩
    · left
      rcases hcase with ⟨hok', -⟩ | ⟨-, h | h⟩
      · rw [hok] at hok'; cases hok'
      · rw [h, hrows, ht1, h1]
      · rw [h, h1]
    · right
      refine ⟨s1, c, num, t.logSql "selQueueEnd", rfl, ?_, ?_, ht1.trans h1, ht2.trans h2, ?_⟩
      · rw [← hn]; exact (pushNum_congr (ht1.trans h1) (ht2.trans h2) p back).symm
      · rw [← hsel]; exact (selKey_congr (ht1.trans h1) _ _).symm
      · rcases hcase with ⟨-, hr, ho⟩ | ⟨hok, -⟩
        · rw [hr, ho, hbody]; exact ⟨rfl, rfl⟩
        · rw [hbody] at hok; cases hok

/-- `push` when nothing stands in the way of the insert -/
theorem push_ok (s : Cache) (E : Externals) (now : Int) (v : PyVal) (p : Option Str) (back : Bool)
    (ttl : Option Int) (tag : SqlVal) {s1 : Cache} {c : Cols} {num : Int}
    (hst : s.store E v false = .ok (s1, c)) (hn : pushNum s p back = some num)
    (hsel : s.selKey (queueKey p num) true = none)
    (hb : ({ c with expT := ttl.map (now + ·), tag := tag } : Cols).bindable = true)
    (hbk : bindable (queueKey p num) = true) :
    ∃ t : Cache, t.rows = s.rows ∧ t.cfg = s.cfg ∧
      (s.push E now v p back ttl false tag).1.rows =
        ((t.insRow (queueKey p num) true now { c with expT := ttl.map (now + ·), tag := tag }).cullW now).1.rows ∧
      (s.push E now v p back ttl false tag).2 = .val (column (queueKey p num)) := by
  rw [push_eq, hst]
  obtain ⟨h1, h2, -⟩ := store_spec hst
  simp only
  obtain ⟨t, ht1, ht2, -, hcase⟩ := transact_cases s1
    (pushBody now p back { c with expT := ttl.map (now + ·), tag := tag }) c.file
  have hn' : pushNum t p back = some num := by
    rw [pushNum_congr (ht1.trans h1) (ht2.trans h2)]; exact hn
  have hsel' : t.selKey (queueKey p num) true = none := by
    rw [selKey_congr (ht1.trans h1)]; exact hsel
  have hbody := pushBody_some (now := now) hn' hsel' hb hbk
  refine ⟨t.logSql "selQueueEnd", ht1.trans h1, ht2.trans h2, ?_⟩
  rcases hcase with ⟨-, hr, ho⟩ | ⟨hok, -⟩
  · rw [hr, ho, hbody]; exact ⟨rfl, rfl⟩
  · rw [hbody] at hok; cases hok

/-- the lazy cull of a write removes nothing when cull_limit is 0, or the policy is 'none' and
nothing is expired -/
theorem cullW_quiet (t : Cache) (now : Int)
    (h : t.cfg.cullLimit = 0 ∨ (t.cfg.policy = .none ∧ ∀ r ∈ t.rows, expired now r = false)) :
    (t.cullW now).1.rows = t.rows := by
  by_cases h0 : t.cfg.cullLimit = 0
  · unfold cullW; simp [h0]
  · rcases h with h | ⟨hp, he⟩
    · exact absurd h h0
    · have hE : t.selExpired now t.cfg.cullLimit = [] := by
        unfold selExpired
        have : t.rows.filter (expired now) = [] :=
          List.filter_eq_nil_iff.2 (fun r hr => by simp [he r hr])
        rw [this]; simp [isort]
      rw [cullW_eq t now h0, hE]
      simp only [List.isEmpty_nil, if_true]
      unfold cullTail
      simp [h0, hp]

theorem insRow_cullW_quiet {s t : Cache} (ht1 : t.rows = s.rows) (ht2 : t.cfg = s.cfg) (now : Int)
    (k : SqlVal) (c : Cols)
    (hq : s.cfg.cullLimit = 0 ∨ (s.cfg.policy = .none ∧ ∀ r ∈ s.rows, expired now r = false))
    (hc : ∀ e, c.expT = some e → ¬ e < now) :
    ((t.insRow k true now c).cullW now).1.rows = s.rows ++ [mkRow s.rows k now c] := by
  have hcfg : (t.insRow k true now c).cfg = s.cfg := ht2
  rw [cullW_quiet, insRow_rows, ht1]
  rw [hcfg, insRow_rows, ht1]
  rcases hq with h | ⟨h1, h2⟩
  · exact Or.inl h
  · refine Or.inr ⟨h1, ?_⟩
    intro r hr
    rcases List.mem_append.1 hr with hr | hr
    · exact h2 r hr
    · simp only [List.mem_singleton] at hr
      subst hr
      unfold expired
      show (match c.expT with | none => false | some t => decide (t < now)) = false
      cases he : c.expT with
      | none => rfl
      | some e => simpa using hc e he

/-- the number `push` picks, under the well-formedness of the queue -/
theorem pushNum_spec (s : Cache) (p : Option Str) (back : Bool) (hinv : TableInv s)
    (hq : ∀ r ∈ s.queueRows p, ∃ n : Int, queueNum r.key = some n ∧ queueKey p n = r.key ∧
      1 ≤ n ∧ n ≤ 999999999999998)
    (hor : 1 ≤ s.cfg.qorigin ∧ s.cfg.qorigin ≤ 999999999999998) :
    ∃ num, pushNum s p back = some num ∧ Fits num ∧
      ((∀ r ∈ s.queueRows p, ∀ n, queueNum r.key = some n → 2 ≤ n ∧ n ≤ 999999999999997) →
        1 ≤ num ∧ num ≤ 999999999999998) ∧
      (∀ x ∈ s.queueRows p, if back then x.key.lt (queueKey p num) = true
        else (queueKey p num).lt x.key = true) := by
  have hsorted := qrows_sorted hinv.tbl.uniq hinv.tbl.nonnull p
  rw [← queueRows_eq] at hsorted
  cases back with
  | false =>
    cases hql : s.queueRows p with
    | nil =>
      refine ⟨(s.cfg.qorigin : Int), by unfold pushNum; rw [hql]; rfl, ?_, fun _ => ?_, ?_⟩
      · unfold Fits; omega
      · omega
      · intro x hx; cases hx
    | cons r rest =>
      rw [hql] at hsorted hq
      obtain ⟨n, hn1, hn2, hn3, hn4⟩ := hq r List.mem_cons_self
      have hfn : Fits n := by unfold Fits; omega
      have hfm : Fits (n - 1) := by unfold Fits; omega
      refine ⟨n - 1, by unfold pushNum; rw [hql]; simp [hn1], hfm, fun hroom => ?_, ?_⟩
      · have := hroom r List.mem_cons_self n hn1; omega
      · intro x hx
        simp only [Bool.false_eq_true, if_false]
        have hr : (queueKey p (n - 1)).lt r.key = true := by
          rw [← hn2, queueKey_lt p _ _ hfm hfn]; simp; omega
        rcases List.mem_cons.1 hx with rfl | hx
        · exact hr
        · exact SqlVal.lt_trans _ _ _ hr ((List.pairwise_cons.1 hsorted).1 x hx)
  | true =>
    rcases List.eq_nil_or_concat (s.queueRows p) with hql | ⟨front, r, hql⟩
    · refine ⟨(s.cfg.qorigin : Int), by unfold pushNum; rw [hql]; rfl, ?_, fun _ => ?_, ?_⟩
      · unfold Fits; omega
      · omega
      · intro x hx; rw [hql] at hx; cases hx
    · rw [List.concat_eq_append] at hql
      rw [hql] at hsorted hq
      obtain ⟨n, hn1, hn2, hn3, hn4⟩ := hq r (by simp)
      have hfn : Fits n := by unfold Fits; omega
      have hfm : Fits (n + 1) := by unfold Fits; omega
      refine ⟨n + 1, by unfold pushNum lastRow?; rw [hql]; simp [hn1], hfm, fun hroom => ?_, ?_⟩
      · have := hroom r (by rw [hql]; simp) n hn1; omega
      · intro x hx
        rw [hql] at hx
        simp only [if_true]
        have hr : r.key.lt (queueKey p (n + 1)) = true := by
          rw [← hn2, queueKey_lt p _ _ hfn hfm]; simp; omega
        rcases List.mem_append.1 hx with hx | hx
        · exact SqlVal.lt_trans _ _ _ ((List.pairwise_append.1 hsorted).2.2 x hx r (by simp)) hr
        · simp only [List.mem_singleton] at hx; subst hx; exact hr

/-- no row already carries the new key: it would be a queue member at or beyond the end -/
theorem selKey_new_none (s : Cache) (p : Option Str) (num : Int) (h1 : 1 ≤ num)
    (h2 : num ≤ 999999999999998) (back : Bool)
    (hord : ∀ x ∈ s.queueRows p, if back then x.key.lt (queueKey p num) = true
      else (queueKey p num).lt x.key = true) :
    s.selKey (queueKey p num) true = none := by
  unfold selKey
  apply List.find?_eq_none.2
  intro x hx hkm
  simp only [keyMatch, Bool.and_eq_true, beq_iff_eq] at hkm
  obtain ⟨he, hraw⟩ := hkm
  have hxq : x ∈ s.queueRows p := by
    rw [queueRows_eq]
    exact mem_qrows.2 ⟨hx, qfilter_iff.2 ⟨kfilter_eqv he (kfilter_queueKey p num h1 h2), hraw⟩⟩
  have := hord x hxq
  cases back with
  | true =>
    simp only [if_true] at this
    rw [SqlVal.eqv_not_lt _ _ he] at this; cases this
  | false =>
    simp only [Bool.false_eq_true, if_false] at this
    rw [SqlVal.eqv_not_lt _ _ (SqlVal.eqv_symm _ _ he)] at this; cases this

/-! ### the queue after an insert -/

theorem insRow_asc (t : Cache) (k : SqlVal) (raw : Bool) (now : Int) (c : Cols)
    (h : RowidsAsc t.rows) : RowidsAsc (t.insRow k raw now c).rows := by
  show RowidsAsc (t.rows ++ [_])
  unfold RowidsAsc
  rw [List.pairwise_append]
  refine ⟨h, by simp, ?_⟩
  intro a ha b hb
  simp only [List.mem_singleton] at hb
  subst hb
  have := le_maxRowid t.rows a ha
  show a.rowid < maxRowid t.rows + 1
  omega

/-- a key of queue `p` is not in the range of any other queue `q` — whatever its number -/
theorem qfilter_other {p q : Option Str} (hpq : p ≠ q) (num : Int) (hf : Fits num) (r : Row)
    (hk : r.key = queueKey p num) : qfilter q r = false := by
  cases h : qfilter q r with
  | false => rfl
  | true =>
    exfalso
    cases q with
    | none =>
      have hc := qfilter_none h
      cases p with
      | none => exact hpq rfl
      | some p' =>
        rw [hk, queueKey_text p' num hf] at hc
        cases hc
    | some q' =>
      obtain ⟨rest, hr, hl⟩ := qfilter_text h
      cases p with
      | none =>
        rw [hk] at hr
        cases hr
      | some p' =>
        rw [hk, queueKey_text p' num hf] at hr
        injection hr with hr
        have := (List.append_inj' hr (by simp [hl])).1
        exact hpq (by rw [this])

theorem qrows_append_notin (rows : List Row) (r : Row) (p : Option Str) (hr : qfilter p r = false) :
    qrows (rows ++ [r]) p = qrows rows p := by
  unfold qrows
  rw [List.filter_append]
  simp [hr]

theorem qrows_append_back {rows : List Row} (r : Row) (hu : KeysUnique (rows ++ [r]))
    (hn : ∀ x ∈ rows ++ [r], x.key ≠ .null) (p : Option Str) (hr : qfilter p r = true)
    (hgt : ∀ x ∈ qrows rows p, klt x r = true) : qrows (rows ++ [r]) p = qrows rows p ++ [r] := by
  have hu0 : KeysUnique rows := (List.pairwise_append.1 hu).1
  have hn0 : ∀ x ∈ rows, x.key ≠ .null := fun x hx => hn x (List.mem_append_left _ hx)
  apply qrows_eq_of_mem hu hn
  · rw [List.pairwise_append]
    refine ⟨qrows_sorted hu0 hn0 p, by simp, ?_⟩
    intro a ha b hb
    simp only [List.mem_singleton] at hb; subst hb
    exact hgt a ha
  · intro x
    simp only [List.mem_append, List.mem_singleton, mem_qrows]
    constructor
    · rintro (⟨a, b⟩ | rfl)
      · exact ⟨Or.inl a, b⟩
      · exact ⟨Or.inr rfl, hr⟩
    · rintro ⟨a | rfl, b⟩
      · exact Or.inl ⟨a, b⟩
      · exact Or.inr rfl

theorem qrows_append_front {rows : List Row} (r : Row) (hu : KeysUnique (rows ++ [r]))
    (hn : ∀ x ∈ rows ++ [r], x.key ≠ .null) (p : Option Str) (hr : qfilter p r = true)
    (hlt : ∀ x ∈ qrows rows p, klt r x = true) : qrows (rows ++ [r]) p = r :: qrows rows p := by
  have hu0 : KeysUnique rows := (List.pairwise_append.1 hu).1
  have hn0 : ∀ x ∈ rows, x.key ≠ .null := fun x hx => hn x (List.mem_append_left _ hx)
  apply qrows_eq_of_mem hu hn
  · rw [List.pairwise_cons]
    exact ⟨hlt, qrows_sorted hu0 hn0 p⟩
  · intro x
    rw [List.mem_cons, mem_qrows, List.mem_append, List.mem_singleton]
    constructor
    · rintro (rfl | ⟨a, b⟩)
      · exact ⟨Or.inr rfl, hr⟩
      · exact ⟨Or.inl a, b⟩
    · rintro ⟨a | rfl, b⟩
      · exact Or.inr ⟨a, b⟩
      · exact Or.inl rfl

end DC.Cache
