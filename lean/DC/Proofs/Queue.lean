/- helper lemmas for the queues (C10) -/
import DC.Proofs.Inv

namespace DC.Cache

end DC.Cache
