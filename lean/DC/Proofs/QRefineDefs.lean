/-
Definitions used in the statements of C10_Refine (the Cache model refines the
family of queues next to a dictionary of DC/Model/QSpec.lean): the item a queue
row denotes, the refinement relation `QRefines`, the budgeted invariant `QOk`.
Only the two equivalences with the vocabulary of DC/Proofs/RefineLemmas.lean are
proved here.
-/
import DC.Model.QSpec
import DC.Properties.C10
import DC.Properties.C03_Refine
import DC.Proofs.DRefineLemmas

namespace DC.Cache
open DC.Spec DC.QSpec

/-- the item a queue row denotes in state `c`: the number its key decodes to, and its entry -/
def itemOfRow (c : Cache) (r : Row) : Item := ⟨(queueNum r.key).getD 0, entryOfRow c r⟩

/-- the queue of prefix `p` that state `c` holds: its rows in key order, as items -/
def absQueue (c : Cache) (p : Option Str) : List Item := (c.queueRows p).map (itemOfRow c)

/-- `c` holds for key `k` what the dictionary holds (`d`), at clock `clock`: the same entry, or
nothing if the dictionary's entry expired strictly before `clock` (the cache may have removed
it physically) — the clause of `Refines` (DC/Properties/C03_Refine.lean) for one key -/
def HoldsKey (c : Cache) (k : Spec.Key) (d : Option Spec.Entry) (clock : Int) : Prop :=
  match d with
  | some e => (∃ r, c.selKey k.1 k.2 = some r ∧ entryOfRow c r = e) ∨
              (c.selKey k.1 k.2 = none ∧ e.expired clock = true)
  | none => c.selKey k.1 k.2 = none

/-- `c` represents the specification state `q` at clock `clock`:
 * for EVERY prefix, the rows of the queue of that prefix denote, in key order, the items of the
   specification's queue (exactly: no item is missing, expired or not);
 * the dictionary part is related as in `Refines`, on the keys that are not queue keys;
 * the dictionary binds every key at most once and binds no queue key. -/
structure QRefines (c : Cache) (q : QSpec.State) (clock : Int) : Prop where
  queues : ∀ p, absQueue c p = q.queues.get p
  wf : q.dict.WF
  ord : ∀ b ∈ q.dict, isQueueKey b.1 = false
  dict : ∀ k : Spec.Key, isQueueKey k = false → HoldsKey c k (q.dict.get k) clock

/-- the budgeted invariant of the history theorem.  `n` bounds the number of further `push`
calls (on any prefix, at either end): every push moves one step away from the origin and the
queue keys have 15 digits (usable numbers 1 … 999999999999998), so every queue key must leave
room for `n` more steps on both sides, and so must the origin (for the queues still empty).
The rest does not change along a history:
 * `good`: table and file invariants, no open transaction block;
 * `pol`: no size-based eviction (`policy = none`; the size-limit regime is C09);
 * `page`: the page size of the bulk-removal loops is positive (100 in core.py);
 * `qok`: every key in a queue range is a well-formed queue key (a number of 15 digits behind
   the prefix; an integer for `prefix=None`) — false as soon as a row with a key such as
   `7`, `7.0` or `"p-5xxxxxxxxxxxxxx"` is stored by `set`;
 * `readable`: every stored item can be read back (true of everything `Disk.store` writes);
 * `quiet`: the lazy cull of a write (`_cull`, up to `cull_limit` expired rows) never removes a
   queue row: `cull_limit = 0`, or no queue row has an expiry time. -/
structure QOk (c : Cache) (n : Nat) : Prop where
  good : Good c
  pol : c.cfg.policy = .none
  page : 0 < c.cfg.page
  qok : ∀ p, QueueOk c p
  room : ∀ p, ∀ r ∈ c.queueRows p, ∀ k, queueNum r.key = some k →
    1 + (n : Int) ≤ k ∧ k + (n : Int) ≤ 999999999999998
  origin : OriginOk c
  originN : n ≤ c.cfg.qorigin ∧ c.cfg.qorigin + n ≤ 999999999999999
  readable : ∀ p, ∀ r ∈ c.queueRows p, drf_Readable (entryOfRow c r)
  quiet : c.cfg.cullLimit = 0 ∨ ∀ p, ∀ r ∈ c.queueRows p, r.expT = none

/-- `QOk` without `quiet`: the invariant of the regime where the lazy cull may remove expired
queue rows (`cull_limit > 0` with expiry times on pushed items), DC/Properties/C10_LooseRefine.lean -/
structure QOkL (c : Cache) (n : Nat) : Prop where
  good : Good c
  pol : c.cfg.policy = .none
  page : 0 < c.cfg.page
  qok : ∀ p, QueueOk c p
  room : ∀ p, ∀ r ∈ c.queueRows p, ∀ k, queueNum r.key = some k →
    1 + (n : Int) ≤ k ∧ k + (n : Int) ≤ 999999999999998
  origin : OriginOk c
  originN : n ≤ c.cfg.qorigin ∧ c.cfg.qorigin + n ≤ 999999999999999
  readable : ∀ p, ∀ r ∈ c.queueRows p, drf_Readable (entryOfRow c r)

theorem QOk.toL {c : Cache} {n : Nat} (h : QOk c n) : QOkL c n :=
  ⟨h.good, h.pol, h.page, h.qok, h.room, h.origin, h.originN, h.readable⟩

theorem holdsKey_iff (c : Cache) (k : Spec.Key) (d : Option Spec.Entry) (clock : Int) :
    HoldsKey c k d clock ↔ rf_VRel (rf_view c k) d clock := by
  have hv : rf_view c k = (c.selKey k.1 k.2).map (entryOfRow c) := rfl
  rw [hv]
  unfold HoldsKey rf_VRel
  cases d with
  | none => cases c.selKey k.1 k.2 <;> simp
  | some e => cases c.selKey k.1 k.2 <;> simp

theorem entryOfRow_eq (c : Cache) (r : Row) : entryOfRow c r = rf_ent c r := rfl

end DC.Cache
