/-
Helper lemmas for C10_Refine, part 3: from the loops of `pull` / `peek`
(DC/Proofs/QRefinePull.lean) to one step of the refinement.
-/
import DC.Proofs.QRefinePull

namespace DC.Cache
open DC.Spec DC.QSpec

/-- the specification trims the items as the model trims the rows -/
theorem trim_abs (c : Cache) (p : Option Str) (now : Int) (front : Bool) :
    trim now front (absQueue c p) = (trimBy (expired now) front (c.queueRows p)).map (itemOfRow c) := by
  unfold trim absQueue
  rw [trimBy_map]
  rfl

/-- what the specification returns for the item of a queue row -/
theorem result_item {c : Cache} {n : Nat} (hok : QOkL c n) {p : Option Str} {r : Row}
    (hr : r ∈ c.queueRows p) (E : Externals) (et tg : Bool) :
    QSpec.result E c.cfg p et tg (itemOfRow c r) = rowResult c E et tg r := by
  obtain ⟨m, h1, h2, -, -⟩ := hok.qok p r hr
  unfold QSpec.result rowResult itemOfRow
  simp only [h1, Option.getD_some, h2]
  rfl

/-- the items of a queue of the smaller state, read in the larger one -/
theorem absQueue_shrunk {c c' : Cache} {f : Row → Bool} (hg : Good c) (h : Shrunk c c' f) (p : Option Str) :
    absQueue c' p = (c'.queueRows p).map (itemOfRow c) := by
  unfold absQueue
  apply List.map_congr_left
  intro r hr
  rw [queueRows_eq] at hr
  exact h.item hg (mem_qrows.1 hr).1

/-- rows are removed from queue `p` only, the specification's queue `p` is set to what is left:
the states correspond -/
theorem qrefines_shrunk_put {c c' : Cache} {f : Row → Bool} {q : QSpec.State} {clock now : Int}
    {n : Nat} {p : Option Str} (hok : QOk c n) (hr : QRefines c q clock) (hn : clock ≤ now)
    (hsh : Shrunk c c' f) (hf : ∀ x ∈ c.rows, x ∉ c.queueRows p → f x = true)
    (l : List Item) (hl : absQueue c' p = l) :
    QRefines c' { q with queues := q.queues.put p l } now := by
  have hg := hok.good
  refine ⟨?_, hr.wf, hr.ord, ?_⟩
  · intro p'
    show _ = (q.queues.put p l).get p'
    rw [get_put]
    by_cases hp : p = p'
    · subst hp; rw [if_pos rfl]; exact hl
    · rw [if_neg hp, ← hr.queues p']
      apply hsh.absQ_same hg
      intro r hr'
      have hrr : r ∈ c.rows := by rw [queueRows_eq] at hr'; exact (mem_qrows.1 hr').1
      apply hf r hrr
      intro hc
      rw [queueRows_eq] at hc hr'
      exact qrows_disjoint hp hc hr'
  · exact QRefines.shrunk_dict (q := q) hg hr hn hsh (fun r hr' h => hf r hr' (h p))

/-- no row is removed: the states correspond as before -/
theorem qrefines_shrunk_id {c c' : Cache} {f : Row → Bool} {q : QSpec.State} {clock now : Int}
    (hg : Good c) (hr : QRefines c q clock) (hn : clock ≤ now)
    (hsh : Shrunk c c' f) (hf : ∀ x ∈ c.rows, f x = true) : QRefines c' q now := by
  refine ⟨?_, hr.wf, hr.ord, QRefines.shrunk_dict (q := q) hg hr hn hsh (fun r hr' _ => hf r hr')⟩
  intro p'
  rw [← hr.queues p']
  apply hsh.absQ_same hg
  intro r hr'
  rw [queueRows_eq] at hr'
  exact hf r (mem_qrows.1 hr').1

theorem queueRows_length_le (c : Cache) (p : Option Str) : (c.queueRows p).length ≤ c.rows.length := by
  rw [queueRows_eq]
  unfold qrows
  rw [length_isort]
  exact List.length_filter_le _ _

/-- one `pull` -/
theorem qr_pull_step (c : Cache) (q : QSpec.State) (n : Nat) (clock now : Int) (E : Externals)
    (p : Option Str) (front et tg : Bool)
    (hok : QOk c n) (hr : QRefines c q clock) (hn : clock ≤ now) :
    (c.pull E now p front et tg).2 = (QSpec.pull q E c.cfg now p front et tg).2 ∧
    QRefines (c.pull E now p front et tg).1 (QSpec.pull q E c.cfg now p front et tg).1 now ∧
    QOk (c.pull E now p front et tg).1 n ∧ (c.pull E now p front et tg).1.cfg = c.cfg := by
  obtain ⟨f, hsh, hf, hq, ho⟩ := qr_pullLoop E now p front et tg n _ c (c.rows.length + 1) rfl
    (by have := queueRows_length_le c p; omega) hok.toL
  have hg := hok.good
  have habs := absQueue_shrunk hg hsh p
  unfold pull
  unfold QSpec.pull
  simp only
  rw [← hr.queues p, trim_abs, endOf_map]
  rw [ho]
  rw [hq] at habs
  cases he : endOf front (trimBy (expired now) front (c.queueRows p)) with
  | none =>
    rw [he] at habs
    simp only at habs
    simp only [Option.map_none]
    exact ⟨trivial, qrefines_shrunk_put hok hr hn hsh hf _ habs, hok.shrunk hsh, hsh.cfg⟩
  | some r =>
    rw [he] at habs
    simp only at habs
    simp only [Option.map_some]
    have hrq : r ∈ c.queueRows p := trimBy_sub _ _ _ _ (endOf_mem he)
    refine ⟨(result_item hok.toL hrq E et tg).symm, ?_, hok.shrunk hsh, hsh.cfg⟩
    apply qrefines_shrunk_put hok hr hn hsh hf
    rw [habs, dropEnd_map]

/-- one `peek` -/
theorem qr_peek_step (c : Cache) (q : QSpec.State) (n : Nat) (clock now : Int) (E : Externals)
    (p : Option Str) (front et tg : Bool)
    (hok : QOk c n) (hr : QRefines c q clock) (hn : clock ≤ now) :
    (c.peek E now p front et tg).2 = (QSpec.peek q E c.cfg now p front et tg).2 ∧
    QRefines (c.peek E now p front et tg).1 (QSpec.peek q E c.cfg now p front et tg).1 now ∧
    QOk (c.peek E now p front et tg).1 n ∧ (c.peek E now p front et tg).1.cfg = c.cfg := by
  obtain ⟨f, hsh, hf, hq, ho⟩ := qr_peekLoop E now p front et tg n _ c (c.rows.length + 1) rfl
    (by have := queueRows_length_le c p; omega) hok.toL
  have hg := hok.good
  have habs := absQueue_shrunk hg hsh p
  unfold peek
  unfold QSpec.peek
  simp only
  rw [← hr.queues p, trim_abs, endOf_map]
  rw [ho]
  rw [hq] at habs
  cases he : endOf front (trimBy (expired now) front (c.queueRows p)) with
  | none =>
    simp only [Option.map_none]
    exact ⟨trivial, qrefines_shrunk_put hok hr hn hsh hf _ habs, hok.shrunk hsh, hsh.cfg⟩
  | some r =>
    simp only [Option.map_some]
    have hrq : r ∈ c.queueRows p := trimBy_sub _ _ _ _ (endOf_mem he)
    exact ⟨(result_item hok.toL hrq E et tg).symm, qrefines_shrunk_put hok hr hn hsh hf _ habs,
      hok.shrunk hsh, hsh.cfg⟩

end DC.Cache
