/- helper lemmas for Index (C12) -/
import DC.Proofs.LayerLemmas
import DC.Proofs.Block
import DC.Properties.C10
import DC.Properties.C03_Inv
import DC.Properties.C04

namespace DC.Cache

/-! ### tables without expiry -/

/-- no row carries an expiry time -/
def NoExp (rows : List Row) : Prop := ∀ r ∈ rows, r.expT = none

theorem live_of_noexp {r : Row} (h : r.expT = none) (now : Int) : live now r = true := by
  simp [live, h]

theorem expired_of_noexp {r : Row} (h : r.expT = none) (now : Int) : expired now r = false := by
  simp [expired, h]

/-- without expiry the look-up with the liveness clause is the plain look-up -/
theorem selLive_eq_selKey {s : Cache} (h : NoExp s.rows) (k : SqlVal) (raw : Bool) (now : Int) :
    s.selLive k raw now = s.selKey k raw := by
  unfold selLive selKey
  generalize s.rows = rows at h
  induction rows with
  | nil => rfl
  | cons a t ih =>
    have ha : live now a = true := live_of_noexp (h a (List.mem_cons_self ..)) now
    simp only [List.find?_cons, ha, Bool.and_true]
    split
    · rfl
    · exact ih (fun r hr => h r (List.mem_cons_of_mem _ hr))

theorem selKey_none_iff {s : Cache} {k : SqlVal} {raw : Bool} :
    s.selKey k raw = none ↔ s.rows.any (keyMatch k raw) = false := by
  unfold selKey
  rw [List.find?_eq_none, List.any_eq_false]

theorem selKey_some_of_any {s : Cache} {k : SqlVal} {raw : Bool}
    (h : s.rows.any (keyMatch k raw) = true) :
    ∃ r, s.selKey k raw = some r ∧ r ∈ s.rows ∧ keyMatch k raw r = true := by
  cases hs : s.selKey k raw with
  | none => rw [selKey_none_iff.1 hs] at h; cases h
  | some r => exact ⟨r, rfl, List.mem_of_find?_eq_some hs, List.find?_some hs⟩

/-- the row found by key is the only one matching it -/
theorem selKey_eq_of_mem {s : Cache} (hu : KeysUnique s.rows) {k : SqlVal} {raw : Bool} {r : Row}
    (hr : r ∈ s.rows) (hk : keyMatch k raw r = true) : s.selKey k raw = some r := by
  obtain ⟨r', h1, h2, h3⟩ := selKey_some_of_any (List.any_eq_true.2 ⟨r, hr, hk⟩)
  rw [h1, keysUnique_eq hu h2 hr h3 hk]

/-- policy 'none' and no expiry: the lazy cull removes nothing, touches neither cfg nor depth -/
theorem cullW_noexp (t : Cache) (now : Int) (hp : t.cfg.policy = .none) (h : NoExp t.rows) :
    (t.cullW now).1.rows = t.rows :=
  cullW_quiet t now (Or.inr ⟨hp, fun r hr => expired_of_noexp (h r hr) now⟩)

theorem cullW_cfg (t : Cache) (now : Int) : (t.cullW now).1.cfg = t.cfg :=
  congrArg Core.cfg (cullW_core t now).1

theorem cullW_depth (t : Cache) (now : Int) : (t.cullW now).1.depth = t.depth :=
  congrArg Core.depth (cullW_core t now).1

/-! ### a transaction outside a block -/

/-- outside a block a transaction keeps depth and configuration of the body's end state -/
theorem transact_zero_fields (s : Cache) (body : Cache → Body) (fresh : Option Nat) (hd : s.depth = 0) :
    (s.transact body fresh).1.depth = (body (s.log .begin)).s.depth ∧
    (s.transact body fresh).1.cfg = (body (s.log .begin)).s.cfg := by
  unfold transact
  simp only [hd, Nat.lt_irrefl, if_false]
  split
  · exact ⟨by rw [fremoveAll_depth]; rfl, by rw [fremoveAll_cfg]; rfl⟩
  · cases fresh <;> exact ⟨rfl, rfl⟩

/-- outside a block: the committed table of a body that succeeds -/
theorem transact_zero_rows (s : Cache) (body : Cache → Body) (fresh : Option Nat) (hd : s.depth = 0)
    (hok : (body (s.log .begin)).ok = true) :
    (s.transact body fresh).1.rows = (body (s.log .begin)).s.rows ∧
    (s.transact body fresh).2 = (body (s.log .begin)).out := by
  unfold transact
  simp only [hd, Nat.lt_irrefl, if_false, hok, if_true]
  exact ⟨by rw [fremoveAll_rows]; rfl, trivial⟩

/-- outside a block: a body that raises is rolled back -/
theorem transact_zero_fail (s : Cache) (body : Cache → Body) (fresh : Option Nat) (hd : s.depth = 0)
    (hok : (body (s.log .begin)).ok = false) :
    (s.transact body fresh).1.rows = s.rows ∧
    (s.transact body fresh).2 = (body (s.log .begin)).out := by
  unfold transact
  simp only [hd, Nat.lt_irrefl, if_false, hok, Bool.false_eq_true]
  cases fresh <;> exact ⟨rfl, trivial⟩


/-! ### `set` on a table without expiry -/

theorem setRows_congr {s t : Cache} (h : t.rows = s.rows) (dbk : SqlVal) (raw : Bool) (now : Int)
    (c : Cols) : setRows dbk raw now c t = setRows dbk raw now c s := by
  unfold setRows selKey newRow
  rw [h]

theorem setBody_fields (dbk : SqlVal) (raw : Bool) (now : Int) (c : Cols) (t : Cache) :
    (setBody dbk raw now c t).s.depth = t.depth ∧ (setBody dbk raw now c t).s.cfg = t.cfg := by
  unfold setBody
  split
  · exact ⟨rfl, rfl⟩
  simp only
  split
  · exact ⟨rfl, rfl⟩
  cases t.selKey dbk raw with
  | none => simp only; rw [cullW_depth, cullW_cfg]; exact ⟨rfl, rfl⟩
  | some r => simp only; rw [cullW_depth, cullW_cfg]; exact ⟨rfl, rfl⟩

theorem noExp_insRow {t : Cache} (h : NoExp t.rows) (k : SqlVal) (raw : Bool) (now : Int) (c : Cols)
    (hc : c.expT = none) : NoExp (t.insRow k raw now c).rows := by
  intro r hr
  have hr' : r ∈ t.rows ++ [newRow t k raw now c] := hr
  rcases List.mem_append.1 hr' with h1 | h1
  · exact h r h1
  · rw [List.mem_singleton] at h1; subst h1; exact hc

theorem noExp_updRow {t : Cache} (h : NoExp t.rows) (rowid : Nat) (now : Int) (c : Cols)
    (hc : c.expT = none) : NoExp (t.updRow rowid now c).rows := by
  intro r hr
  have hr' : r ∈ t.rows.map (updF rowid now c) := hr
  obtain ⟨x, hx, rfl⟩ := List.mem_map.1 hr'
  unfold updF
  split
  · exact hc
  · exact h x hx

theorem setBody_noexp (dbk : SqlVal) (raw : Bool) (now : Int) (c : Cols) (t : Cache)
    (hc : c.expT = none) (h : NoExp t.rows) : NoExp (setBody dbk raw now c t).s.rows := by
  unfold setBody
  split
  · exact h
  simp only
  split
  · exact h
  cases t.selKey dbk raw with
  | none =>
    simp only
    intro r hr
    exact noExp_insRow (t := t.logSql "selKey") h dbk raw now c hc r ((cullW_core _ now).2 r hr)
  | some r0 =>
    simp only
    intro r hr
    exact noExp_updRow (t := t.logSql "selKey") h r0.rowid now c hc r ((cullW_core _ now).2 r hr)

/-- `set` without ttl keeps an Index an Index: depth, configuration, absence of expiry -/
theorem set_keeps (s : Cache) (E : Externals) (now : Int) (k v : PyVal) (tag : SqlVal)
    (hd : s.depth = 0) (h : NoExp s.rows) :
    (s.set E now k v none false tag).1.depth = 0 ∧
    (s.set E now k v none false tag).1.cfg = s.cfg ∧
    NoExp (s.set E now k v none false tag).1.rows := by
  rw [set_eq]
  cases hst : s.store E v false with
  | error e => exact ⟨hd, rfl, h⟩
  | ok p =>
    obtain ⟨s1, c⟩ := p
    obtain ⟨hr1, hc1, hd1⟩ := store_spec hst
    simp only
    have hd1' : s1.depth = 0 := hd1.trans hd
    obtain ⟨hF1, hF2⟩ := transact_zero_fields s1
      (setBody (DC.put E s.cfg.disk k).1 (DC.put E s.cfg.disk k).2 now
        { c with expT := Option.map (fun x => now + x) none, tag := tag }) c.file hd1'
    obtain ⟨hB1, hB2⟩ := setBody_fields (DC.put E s.cfg.disk k).1 (DC.put E s.cfg.disk k).2 now
        { c with expT := Option.map (fun x => now + x) none, tag := tag } (s1.log .begin)
    refine ⟨by rw [hF1, hB1]; exact hd1', by rw [hF2, hB2]; exact hc1, ?_⟩
    refine transact_rows_of _ _ NoExp ?_
    intro t ht _ _ _
    refine ⟨setBody_noexp _ _ _ _ _ rfl (by rw [ht, hr1]; exact h), fun _ => by rw [hr1]; exact h⟩

/-- the table after a successful `set` without ttl under policy 'none' -/
theorem set_rows_noexp (s : Cache) (E : Externals) (now : Int) (k v : PyVal) (tag : SqlVal)
    (hd : s.depth = 0) (hp : s.cfg.policy = .none) (h : NoExp s.rows)
    (s1 : Cache) (c : Cols) (hst : s.store E v false = .ok (s1, c))
    (hb : bindable (DC.put E s.cfg.disk k).1 = true)
    (hcb : Cols.bindable { c with expT := none, tag := tag } = true) :
    (s.set E now k v none false tag).1.rows =
      setRows (DC.put E s.cfg.disk k).1 (DC.put E s.cfg.disk k).2 now { c with expT := none, tag := tag } s := by
  rw [set_eq, hst]
  obtain ⟨hr1, hc1, hd1⟩ := store_spec hst
  simp only [Option.map_none]
  have hd1' : s1.depth = 0 := hd1.trans hd
  generalize (DC.put E s.cfg.disk k).1 = dbk at hb ⊢
  generalize (DC.put E s.cfg.disk k).2 = raw
  have hbody : (setBody dbk raw now { c with expT := none, tag := tag } (s1.log .begin)).ok = true ∧
      (setBody dbk raw now { c with expT := none, tag := tag } (s1.log .begin)).s.rows =
        setRows dbk raw now { c with expT := none, tag := tag } s := by
    rw [← setRows_congr (t := s1.log .begin) (s := s) hr1]
    unfold setBody setRows
    simp only [hb, hcb, Bool.not_true, Bool.false_eq_true, if_false, selKey_log]
    cases hsel : s1.selKey dbk raw with
    | none =>
      simp only
      refine ⟨trivial, ?_⟩
      rw [cullW_noexp]
      · rfl
      · show s1.cfg.policy = .none
        rw [hc1]; exact hp
      · exact noExp_insRow (t := (s1.log .begin).logSql "selKey") (by rw [show ((s1.log .begin).logSql "selKey").rows = s1.rows from rfl, hr1]; exact h) _ _ _ _ rfl
    | some r0 =>
      simp only
      refine ⟨trivial, ?_⟩
      rw [cullW_noexp]
      · rfl
      · show s1.cfg.policy = .none
        rw [hc1]; exact hp
      · exact noExp_updRow (t := (s1.log .begin).logSql "selKey") (by rw [show ((s1.log .begin).logSql "selKey").rows = s1.rows from rfl, hr1]; exact h) _ _ _ rfl
  rw [(transact_zero_rows s1 _ c.file hd1' hbody.1).1, hbody.2]


/-! ### `__delitem__` -/

theorem delRow_rows (s : Cache) (id : Nat) : (s.delRow id).rows = s.rows.filter (·.rowid != id) :=
  delRowQuiet_rows s id

/-- `del cache[key]` of a key the look-up finds, in or outside a block -/
theorem delitem_some (s : Cache) (E : Externals) (now : Int) (k : PyVal) (r : Row)
    (hsel : s.selLive (DC.put E s.cfg.disk k).1 (DC.put E s.cfg.disk k).2 now = some r) :
    (s.delitem E now k).2 = .bool true ∧
    (s.delitem E now k).1.rows = s.rows.filter (fun x => x.rowid != r.rowid) ∧
    (s.delitem E now k).1.cfg = s.cfg ∧ (s.delitem E now k).1.depth = s.depth ∧
    (s.delitem E now k).1.snap = s.snap := by
  unfold delitem
  generalize DC.put E s.cfg.disk k = p at hsel
  rcases p with ⟨dbk, raw⟩
  simp only at hsel ⊢
  unfold transact
  by_cases hd : s.depth > 0
  · simp only [hd, if_true, hsel]
    refine ⟨trivial, ?_, ?_, ?_, ?_⟩
    · show ((s.logSql "selLive").delRow r.rowid).rows = _
      rw [delRow_rows]; rfl
    · show ((s.logSql "selLive").delRowQuiet r.rowid).cfg = _
      rw [delRowQuiet_cfg]; rfl
    · show ((s.logSql "selLive").delRowQuiet r.rowid).depth = _
      rw [delRowQuiet_depth]; rfl
    · show ((s.logSql "selLive").delRowQuiet r.rowid).snap = _
      unfold delRowQuiet; split <;> rfl
  · simp only [hd, if_false, selLive_log, hsel, if_true]
    refine ⟨trivial, ?_, ?_, ?_, ?_⟩
    · rw [fremoveAll_rows]
      show (((s.log .begin).logSql "selLive").delRow r.rowid).rows = _
      rw [delRow_rows]; rfl
    · rw [fremoveAll_cfg]
      show (((s.log .begin).logSql "selLive").delRowQuiet r.rowid).cfg = _
      rw [delRowQuiet_cfg]; rfl
    · rw [fremoveAll_depth]
      show (((s.log .begin).logSql "selLive").delRowQuiet r.rowid).depth = _
      rw [delRowQuiet_depth]; rfl
    · rw [fremoveAll_snap]
      show (((s.log .begin).logSql "selLive").delRowQuiet r.rowid).snap = _
      unfold delRowQuiet; split <;> rfl

/-- `del cache[key]` of a key the look-up does not find raises KeyError and changes nothing -/
theorem delitem_none (s : Cache) (E : Externals) (now : Int) (k : PyVal)
    (hsel : s.selLive (DC.put E s.cfg.disk k).1 (DC.put E s.cfg.disk k).2 now = none) :
    (s.delitem E now k).2 = .exc "KeyError" ∧
    (s.delitem E now k).1.rows = s.rows ∧
    (s.delitem E now k).1.cfg = s.cfg ∧ (s.delitem E now k).1.depth = s.depth := by
  unfold delitem
  generalize DC.put E s.cfg.disk k = p at hsel
  rcases p with ⟨dbk, raw⟩
  simp only at hsel ⊢
  unfold transact
  by_cases hd : s.depth > 0
  · simp only [hd, if_true, hsel]
    exact ⟨rfl, rfl, rfl, rfl⟩
  · simp only [hd, if_false, selLive_log, hsel]
    exact ⟨rfl, rfl, rfl, rfl⟩

/-- with unique rowids and keys, removing the row of a key by rowid removes the rows matching the key -/
theorem filter_rowid_eq_filter_key {rows : List Row} (hasc : RowidsAsc rows) (hu : KeysUnique rows)
    {k : SqlVal} {raw : Bool} {r : Row} (hr : r ∈ rows) (hk : keyMatch k raw r = true) :
    rows.filter (fun x => x.rowid != r.rowid) = rows.filter (fun x => !keyMatch k raw x) := by
  apply List.filter_congr
  intro x hx
  by_cases hxr : x.rowid = r.rowid
  · have := rowidsAsc_eq_of_rowid hasc hx hr hxr
    subst this
    simp [hk]
  · have hkx : keyMatch k raw x = false := by
      cases hkx : keyMatch k raw x
      · rfl
      · exact absurd (congrArg Row.rowid (keysUnique_eq hu hx hr hkx hk)) hxr
    simp [hxr, hkx]


/-! ### look-up on the lock-free path -/

theorem get_fast (s : Cache) (E : Externals) (now : Int) (k : PyVal)
    (hst : s.statistics = false) (hp : s.cfg.policy = .none) :
    (s.get E now k false false false).2 =
      match s.selLive (DC.put E s.cfg.disk k).1 (DC.put E s.cfg.disk k).2 now with
      | none => .default
      | some r =>
        match (s.fetchRow E r false).2 with
        | .ioerror => .default
        | f => fetchedOut f := by
  unfold get
  generalize DC.put E s.cfg.disk k = p
  rcases p with ⟨dbk, raw⟩
  simp only [hst, hp, policyUpdates, Bool.not_false, Bool.and_self, if_true, Bool.or_self,
    show (Policy.none == Policy.lru) = false from rfl, show (Policy.none == Policy.lfu) = false from rfl]
  cases hsel : s.selLive dbk raw now with
  | none => rfl
  | some r =>
    simp only
    have hf : ((s.logSql "selLive").fetchRow E r false).2 = (s.fetchRow E r false).2 :=
      fetchRow_snd_congr_q _ _ E r false rfl rfl
    rw [← hf]
    cases ((s.logSql "selLive").fetchRow E r false).2 <;> rfl


/-! ### `peekitem` inside a block, and the block itself -/

theorem transact_pos_sel (s : Cache) (id : String) (o : Out) (hd : s.depth > 0) :
    (s.transact (fun s => ({ s := s.logSql id, out := o } : Body))).1.rows = s.rows ∧
    (s.transact (fun s => ({ s := s.logSql id, out := o } : Body))).1.cfg = s.cfg ∧
    (s.transact (fun s => ({ s := s.logSql id, out := o } : Body))).1.depth = s.depth ∧
    (s.transact (fun s => ({ s := s.logSql id, out := o } : Body))).1.snap = s.snap ∧
    (s.transact (fun s => ({ s := s.logSql id, out := o } : Body))).1.files = s.files := by
  unfold transact
  simp only [hd, if_true]
  exact ⟨rfl, rfl, rfl, rfl, rfl⟩

theorem fetchRow_keep (s : Cache) (E : Externals) (r : Row) (read : Bool) :
    (s.fetchRow E r read).1.rows = s.rows ∧ (s.fetchRow E r read).1.cfg = s.cfg ∧
    (s.fetchRow E r read).1.depth = s.depth ∧ (s.fetchRow E r read).1.snap = s.snap := by
  unfold fetchRow
  split
  · simp only; split <;> exact ⟨rfl, rfl, rfl, rfl⟩
  · exact ⟨rfl, rfl, rfl, rfl⟩

theorem peekitem_block_edge (s : Cache) (E : Externals) (now : Int) (last : Bool) (hd : s.depth > 0)
    (r : Row) (hedge : (if last then s.rows.getLast? else s.rows.head?) = some r)
    (hne : r.expT = none) (hf : (s.fetchRow E r false).2 ≠ .ioerror) :
    ∃ c, s.peekitem E now last false false =
        (c, .tup [keyOut E s.cfg.disk r.key r.raw, fetchedOut (s.fetchRow E r false).2]) ∧
      c.rows = s.rows ∧ c.cfg = s.cfg ∧ c.depth = s.depth ∧ c.snap = s.snap := by
  unfold peekitem
  rw [peekitemLoop]
  simp only [lastRow?, hedge, expired_of_noexp hne now, Bool.false_eq_true, if_false]
  obtain ⟨h1, h2, h3, h4, h5⟩ := transact_pos_sel s "selEdge" .none hd
  generalize (s.transact (fun s => ({ s := s.logSql "selEdge", out := .none } : Body))).1 = t at h1 h2 h3 h4 h5 ⊢
  have hft : (t.fetchRow E r false).2 = (s.fetchRow E r false).2 :=
    fetchRow_snd_congr_q _ _ _ _ _ h5 h2
  obtain ⟨k1, k2, k3, k4⟩ := fetchRow_keep t E r false
  rw [← hft] at hf ⊢
  refine ⟨(t.fetchRow E r false).1, ?_, k1.trans h1, k2.trans h2, k3.trans h3, k4.trans h4⟩
  rw [← h2, ← k2]
  cases hc : (t.fetchRow E r false).2 with
  | ioerror => exact absurd hc hf
  | val v => rfl
  | handle b => rfl

theorem peekitem_block_empty (s : Cache) (E : Externals) (now : Int) (last : Bool) (hd : s.depth > 0)
    (hrows : s.rows = []) :
    s.peekitem E now last false false = (s.logSql "selEdge", .exc "KeyError") := by
  unfold peekitem
  rw [peekitemLoop]
  have : (if last = true then lastRow? s.rows else s.rows.head?) = none := by
    rw [hrows]; cases last <;> rfl
  simp only [this]
  unfold transact
  simp only [hd, if_true]
  rfl

theorem tbegin_zero (s : Cache) (hd : s.depth = 0) :
    s.tbegin.rows = s.rows ∧ s.tbegin.cfg = s.cfg ∧ s.tbegin.depth = 1 ∧
    s.tbegin.snap = some s.takeSnap ∧ s.tbegin.files = s.files := by
  unfold tbegin
  simp only [hd, beq_self_eq_true, if_true]
  exact ⟨rfl, rfl, trivial, trivial, rfl⟩

theorem tend_rows (s : Cache) : s.tend.rows = s.rows := by
  unfold tend
  split
  · show (({ (s.log .commit) with depth := 0, snap := none } : Cache).fremoveAll _).rows = _
    rw [fremoveAll_rows]; rfl
  · rfl

theorem traise_one_rows (s : Cache) (p : Snap) (hd : s.depth = 1) (hs : s.snap = some p) :
    (s.traise 1).rows = p.rows := by
  rw [traise_outer s 1 p (by omega) (by omega) hs]
  show (({ ((s.restore p).log .rollback) with depth := 0, snap := none } : Cache).fremoveAll _).rows = _
  rw [fremoveAll_rows]; rfl


/-! ### the key codec round trip (hypothesis `hcodec` of `Index.popitem_end`) -/

/-- under lawful codecs a stored pickle-disk key decodes to a Python key that encodes back to it -/
theorem put_get_put (E : Externals) (hE : Lawful E) (k : PyVal) :
    DC.put E .pickle (DC.get E .pickle (DC.put E .pickle k).1 (DC.put E .pickle k).2) =
      DC.put E .pickle k := by
  cases k with
  | int i =>
    by_cases hi : inI64 i = true <;>
      simp [DC.put, DC.get, Disk.put, Disk.get, column, hE.loads_dumpsK, hi]
  | _ => simp [DC.put, DC.get, Disk.put, Disk.get, column, hE.loads_dumpsK]

end DC.Cache

namespace DC.Index

end DC.Index
