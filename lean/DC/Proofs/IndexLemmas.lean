/- helper lemmas for Index (C12) -/
import DC.Proofs.LayerLemmas
import DC.Properties.C10

namespace DC.Index

end DC.Index
