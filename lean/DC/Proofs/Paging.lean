/- helper lemmas for the paging loops (clear / evict / expire / iter / iterkeys) -/
import DC.Proofs.Defs

namespace DC.Cache

/-! ### list facts -/

/-- filtering `T ++ D` with a predicate false on `T` and true on `D` leaves `D` -/
theorem filter_append_cut {α} (q : α → Bool) (T D : List α)
    (hT : ∀ t ∈ T, q t = false) (hD : ∀ d ∈ D, q d = true) :
    (T ++ D).filter q = D := by
  rw [List.filter_append]
  have h1 : T.filter q = [] := by
    rw [List.filter_eq_nil_iff]; intro a ha; simp [hT a ha]
  have h2 : D.filter q = D := by
    rw [List.filter_eq_self]; exact hD
  rw [h1, h2]; rfl

theorem take_nil_of_pos {α} (l : List α) (p : Nat) (hp : 0 < p) (h : l.take p = []) : l = [] := by
  cases l with
  | nil => rfl
  | cons a t =>
    cases p with
    | zero => omega
    | succ k => simp at h

theorem rowidsAsc_filter {rows : List Row} (q : Row → Bool) (h : RowidsAsc rows) :
    RowidsAsc (rows.filter q) := List.Pairwise.filter q h

theorem rowidsAsc_eq_of_rowid {rows : List Row} (h : RowidsAsc rows) {a b : Row}
    (ha : a ∈ rows) (hb : b ∈ rows) (hab : a.rowid = b.rowid) : a = b := by
  induction rows with
  | nil => cases ha
  | cons x xs ih =>
    have hx := List.pairwise_cons.mp h
    rcases List.mem_cons.mp ha with rfl | ha' <;> rcases List.mem_cons.mp hb with rfl | hb'
    · rfl
    · have := hx.1 b hb'; omega
    · have := hx.1 a ha'; omega
    · exact ih hx.2 ha' hb'

theorem sumSizes_nil : sumSizes [] = 0 := rfl
theorem sumSizes_cons (r : Row) (l : List Row) : sumSizes (r :: l) = r.size + sumSizes l := by
  simp [sumSizes]
theorem sumSizes_append (a b : List Row) : sumSizes (a ++ b) = sumSizes a + sumSizes b := by
  simp [sumSizes]

/-! ### ghost logging -/

@[simp] theorem log_rows (s : Cache) (a : Act) : (s.log a).rows = s.rows := rfl
@[simp] theorem log_count (s : Cache) (a : Act) : (s.log a).count = s.count := rfl
@[simp] theorem log_size (s : Cache) (a : Act) : (s.log a).size = s.size := rfl
@[simp] theorem log_cfg (s : Cache) (a : Act) : (s.log a).cfg = s.cfg := rfl
@[simp] theorem log_files (s : Cache) (a : Act) : (s.log a).files = s.files := rfl
@[simp] theorem log_depth (s : Cache) (a : Act) : (s.log a).depth = s.depth := rfl
@[simp] theorem logSql_rows (s : Cache) (a : String) : (s.logSql a).rows = s.rows := rfl
@[simp] theorem logSql_count (s : Cache) (a : String) : (s.logSql a).count = s.count := rfl
@[simp] theorem logSql_size (s : Cache) (a : String) : (s.logSql a).size = s.size := rfl
@[simp] theorem logSql_cfg (s : Cache) (a : String) : (s.logSql a).cfg = s.cfg := rfl
@[simp] theorem logSql_files (s : Cache) (a : String) : (s.logSql a).files = s.files := rfl
@[simp] theorem logSql_depth (s : Cache) (a : String) : (s.logSql a).depth = s.depth := rfl
@[simp] theorem log_fileGet (s : Cache) (a : Act) (f : Nat) : (s.log a).fileGet f = s.fileGet f := rfl
@[simp] theorem logSql_fileGet (s : Cache) (a : String) (f : Nat) :
    (s.logSql a).fileGet f = s.fileGet f := rfl

/-! ### file removal -/

theorem fileGet_none_iff (s : Cache) (f : Nat) : s.fileGet f = none ↔ ∀ p ∈ s.files, p.1 ≠ f := by
  simp [fileGet, List.find?_eq_none]

@[simp] theorem fremove_rows (s : Cache) (f : Nat) : (s.fremove f).rows = s.rows := rfl
@[simp] theorem fremove_count (s : Cache) (f : Nat) : (s.fremove f).count = s.count := rfl
@[simp] theorem fremove_size (s : Cache) (f : Nat) : (s.fremove f).size = s.size := rfl
@[simp] theorem fremove_cfg (s : Cache) (f : Nat) : (s.fremove f).cfg = s.cfg := rfl
@[simp] theorem fremove_depth (s : Cache) (f : Nat) : (s.fremove f).depth = s.depth := rfl
@[simp] theorem fremove_files (s : Cache) (f : Nat) :
    (s.fremove f).files = s.files.filter (·.1 != f) := rfl

theorem fremove_fileGet_self (s : Cache) (f : Nat) : (s.fremove f).fileGet f = none := by
  rw [fileGet_none_iff]; intro p hp
  simp at hp; exact hp.2

theorem fremove_fileGet_mono (s : Cache) (f g : Nat) (h : s.fileGet g = none) :
    (s.fremove f).fileGet g = none := by
  rw [fileGet_none_iff] at *; intro p hp
  simp at hp; exact h p hp.1

theorem fremoveAll_keep (fs : List (Option Nat)) : ∀ s : Cache,
    (s.fremoveAll fs).rows = s.rows ∧ (s.fremoveAll fs).count = s.count ∧
    (s.fremoveAll fs).size = s.size ∧ (s.fremoveAll fs).cfg = s.cfg ∧
    (s.fremoveAll fs).depth = s.depth := by
  induction fs with
  | nil => intro s; simp [fremoveAll]
  | cons a t ih =>
    intro s
    cases a with
    | none => simpa [fremoveAll] using ih s
    | some f => simpa [fremoveAll] using ih (s.fremove f)

theorem fremoveAll_fileGet_mono (fs : List (Option Nat)) (g : Nat) : ∀ s : Cache,
    s.fileGet g = none → (s.fremoveAll fs).fileGet g = none := by
  induction fs with
  | nil => intro s h; simpa [fremoveAll] using h
  | cons a t ih =>
    intro s h
    cases a with
    | none => simpa [fremoveAll] using ih s h
    | some f => simpa [fremoveAll] using ih (s.fremove f) (fremove_fileGet_mono s f g h)

theorem fremoveAll_fileGet_mem (fs : List (Option Nat)) (g : Nat) : ∀ s : Cache,
    some g ∈ fs → (s.fremoveAll fs).fileGet g = none := by
  induction fs with
  | nil => intro s h; cases h
  | cons a t ih =>
    intro s h
    rcases List.mem_cons.mp h with rfl | h'
    · simpa [fremoveAll] using fremoveAll_fileGet_mono t g (s.fremove g) (fremove_fileGet_self s g)
    · cases a with
      | none => simpa [fremoveAll] using ih s h'
      | some f => simpa [fremoveAll] using ih (s.fremove f) h'

/-! ### DELETE … WHERE rowid IN (…) -/

theorem delRowQuiet_rows (s : Cache) (id : Nat) :
    (s.delRowQuiet id).rows = s.rows.filter (·.rowid != id) := by
  unfold delRowQuiet
  split
  · rfl
  · rename_i h
    symm; rw [List.filter_eq_self]
    intro a ha
    have := List.find?_eq_none.mp h a ha
    simpa using this

@[simp] theorem delRowQuiet_cfg (s : Cache) (id : Nat) : (s.delRowQuiet id).cfg = s.cfg := by
  unfold delRowQuiet; split <;> rfl
@[simp] theorem delRowQuiet_files (s : Cache) (id : Nat) : (s.delRowQuiet id).files = s.files := by
  unfold delRowQuiet; split <;> rfl
@[simp] theorem delRowQuiet_depth (s : Cache) (id : Nat) : (s.delRowQuiet id).depth = s.depth := by
  unfold delRowQuiet; split <;> rfl

theorem delRowQuiet_counters (s : Cache) (hasc : RowidsAsc s.rows) (r : Row) (hr : r ∈ s.rows) :
    (s.delRowQuiet r.rowid).count = s.count - 1 ∧ (s.delRowQuiet r.rowid).size = s.size - r.size := by
  unfold delRowQuiet
  split
  · rename_i r' h
    have hm := List.mem_of_find?_eq_some h
    have hp := List.find?_some h
    have : r' = r := rowidsAsc_eq_of_rowid hasc hm hr (by simpa using hp)
    subst this
    exact ⟨rfl, rfl⟩
  · rename_i h
    have := List.find?_eq_none.mp h r hr
    simp at this

theorem delIn_keep (ids : List Nat) : ∀ s : Cache,
    (s.delIn ids).cfg = s.cfg ∧ (s.delIn ids).files = s.files ∧ (s.delIn ids).depth = s.depth := by
  induction ids with
  | nil => intro s; simp [delIn]
  | cons a t ih =>
    intro s
    have := ih (s.delRowQuiet a)
    simpa [delIn] using this

theorem delIn_rows (ids : List Nat) : ∀ s : Cache,
    (s.delIn ids).rows = s.rows.filter (fun r => !ids.contains r.rowid) := by
  induction ids with
  | nil =>
    intro s
    show s.rows = _
    symm; rw [List.filter_eq_self]; intro a _; rfl
  | cons a t ih =>
    intro s
    have := ih (s.delRowQuiet a)
    simp only [delIn, List.foldl_cons] at this ⊢
    rw [this, delRowQuiet_rows, List.filter_filter]
    apply List.filter_congr
    intro r _
    simp [Bool.and_comm]
    grind

/-- on a table with distinct rowids, deleting the rowids of some of its rows removes exactly
those rows -/
theorem delIn_rows_mem (s : Cache) (hasc : RowidsAsc s.rows) (page : List Row)
    (hsub : ∀ r ∈ page, r ∈ s.rows) :
    (s.delIn (page.map (·.rowid))).rows = s.rows.filter (fun r => !page.contains r) := by
  rw [delIn_rows]
  apply List.filter_congr
  intro r hr
  congr 1
  rw [Bool.eq_iff_iff]
  simp only [List.contains_iff_mem, List.mem_map]
  constructor
  · rintro ⟨a, ha, hab⟩
    have := rowidsAsc_eq_of_rowid hasc (hsub a ha) hr hab
    subst this; exact ha
  · intro h; exact ⟨r, h, rfl⟩

theorem delIn_counters (page : List Row) : ∀ s : Cache, RowidsAsc s.rows → RowidsAsc page →
    (∀ r ∈ page, r ∈ s.rows) →
    (s.delIn (page.map (·.rowid))).count = s.count - page.length ∧
    (s.delIn (page.map (·.rowid))).size = s.size - sumSizes page := by
  induction page with
  | nil => intro s _ _ _; simp [delIn, sumSizes]
  | cons a t ih =>
    intro s hasc hp hsub
    have hpc := List.pairwise_cons.mp hp
    have ha : a ∈ s.rows := hsub a (by simp)
    have hc := delRowQuiet_counters s hasc a ha
    have hasc' : RowidsAsc (s.delRowQuiet a.rowid).rows := by
      rw [delRowQuiet_rows]; exact rowidsAsc_filter _ hasc
    have hsub' : ∀ r ∈ t, r ∈ (s.delRowQuiet a.rowid).rows := by
      intro r hr
      rw [delRowQuiet_rows, List.mem_filter]
      refine ⟨hsub r (by simp [hr]), ?_⟩
      have := hpc.1 r hr
      simp; omega
    have := ih (s.delRowQuiet a.rowid) hasc' hpc.2 hsub'
    simp only [delIn, List.map_cons, List.foldl_cons] at this ⊢
    rw [this.1, this.2, hc.1, hc.2, sumSizes_cons]
    simp only [List.length_cons]
    constructor <;> omega

/-! ### one page of `_select_delete` -/

theorem delRowQuiet_congr (a b : Cache) (id : Nat)
    (h : a.rows = b.rows ∧ a.count = b.count ∧ a.size = b.size) :
    (a.delRowQuiet id).rows = (b.delRowQuiet id).rows ∧
    (a.delRowQuiet id).count = (b.delRowQuiet id).count ∧
    (a.delRowQuiet id).size = (b.delRowQuiet id).size := by
  unfold delRowQuiet
  rw [h.1]
  split <;> simp [h.1, h.2.1, h.2.2]

theorem delIn_congr (ids : List Nat) : ∀ a b : Cache,
    (a.rows = b.rows ∧ a.count = b.count ∧ a.size = b.size) →
    (a.delIn ids).rows = (b.delIn ids).rows ∧
    (a.delIn ids).count = (b.delIn ids).count ∧
    (a.delIn ids).size = (b.delIn ids).size := by
  induction ids with
  | nil => intro a b h; exact h
  | cons x t ih =>
    intro a b h
    exact ih _ _ (delRowQuiet_congr a b x h)

/-- the transaction body of `deletePage` -/
def pageBody (page : List Row) (sel : String) (s : Cache) : Body :=
  let s := s.logSql sel
  if page.isEmpty then { s := s, out := .none }
  else { s := (s.delIn (page.map (·.rowid))).logSql "delList", out := .none,
         cleanup := page.map (·.file) }

theorem deletePage_eq (s : Cache) (page : List Row) (sel : String) :
    s.deletePage page sel = (s.transact (pageBody page sel)).1 := rfl

theorem pageBody_ok (page : List Row) (sel : String) (s : Cache) :
    (pageBody page sel s).ok = true := by
  unfold pageBody; split <;> rfl

theorem pageBody_cleanup (page : List Row) (sel : String) (s : Cache) :
    (pageBody page sel s).cleanup = page.map (·.file) := by
  unfold pageBody
  cases page <;> rfl

theorem pageBody_keep (page : List Row) (sel : String) (s : Cache) :
    (pageBody page sel s).s.rows = (s.delIn (page.map (·.rowid))).rows ∧
    (pageBody page sel s).s.count = (s.delIn (page.map (·.rowid))).count ∧
    (pageBody page sel s).s.size = (s.delIn (page.map (·.rowid))).size ∧
    (pageBody page sel s).s.cfg = s.cfg ∧
    (pageBody page sel s).s.depth = s.depth ∧
    (pageBody page sel s).s.files = s.files := by
  unfold pageBody
  cases page with
  | nil => simp [delIn]
  | cons a t =>
    have hk := delIn_keep ((a :: t).map (·.rowid)) (s.logSql sel)
    have hc := delIn_congr ((a :: t).map (·.rowid)) (s.logSql sel) s ⟨rfl, rfl, rfl⟩
    simp only [List.isEmpty_cons, Bool.false_eq_true, if_false, logSql_rows, logSql_count,
      logSql_size, logSql_cfg, logSql_depth, logSql_files]
    exact ⟨hc.1, hc.2.1, hc.2.2, hk.1, hk.2.2, hk.2.1⟩

theorem transact_pos (s : Cache) (body : Cache → Body) (hd : s.depth > 0) :
    (s.transact body).1.rows = (body s).s.rows ∧
    (s.transact body).1.count = (body s).s.count ∧
    (s.transact body).1.size = (body s).s.size ∧
    (s.transact body).1.cfg = (body s).s.cfg ∧
    (s.transact body).1.depth = (body s).s.depth ∧
    (s.transact body).1.files = (body s).s.files := by
  unfold transact
  simp only [hd, if_true]
  split <;> simp

theorem transact_zero (s : Cache) (body : Cache → Body) (hd : s.depth = 0)
    (hok : (body (s.log .begin)).ok = true) :
    (s.transact body).1 =
      ((body (s.log .begin)).s.log .commit).fremoveAll (body (s.log .begin)).cleanup := by
  unfold transact
  simp [hd, hok]

theorem deletePage_keep (s : Cache) (page : List Row) (sel : String) :
    (s.deletePage page sel).rows = (s.delIn (page.map (·.rowid))).rows ∧
    (s.deletePage page sel).count = (s.delIn (page.map (·.rowid))).count ∧
    (s.deletePage page sel).size = (s.delIn (page.map (·.rowid))).size ∧
    (s.deletePage page sel).cfg = s.cfg ∧
    (s.deletePage page sel).depth = s.depth := by
  rw [deletePage_eq]
  by_cases hd : s.depth > 0
  · have ht := transact_pos s (pageBody page sel) hd
    have hb := pageBody_keep page sel s
    rw [ht.1, ht.2.1, ht.2.2.1, ht.2.2.2.1, ht.2.2.2.2.1]
    exact ⟨hb.1, hb.2.1, hb.2.2.1, hb.2.2.2.1, hb.2.2.2.2.1⟩
  · have hd0 : s.depth = 0 := by omega
    rw [transact_zero s _ hd0 (pageBody_ok _ _ _)]
    have hf := fremoveAll_keep (pageBody page sel (s.log .begin)).cleanup
      ((pageBody page sel (s.log .begin)).s.log .commit)
    have hb := pageBody_keep page sel (s.log .begin)
    have hc := delIn_congr (page.map (·.rowid)) (s.log .begin) s ⟨rfl, rfl, rfl⟩
    rw [hf.1, hf.2.1, hf.2.2.1, hf.2.2.2.1, hf.2.2.2.2]
    simp only [log_rows, log_count, log_size, log_cfg, log_depth]
    rw [hb.1, hb.2.1, hb.2.2.1, hb.2.2.2.1, hb.2.2.2.2.1]
    exact ⟨hc.1, hc.2.1, hc.2.2, rfl, rfl⟩

theorem fileGet_congr (a b : Cache) (g : Nat) (h : a.files = b.files) :
    a.fileGet g = b.fileGet g := by
  simp [fileGet, h]

theorem deletePage_fileGet_mono (s : Cache) (page : List Row) (sel : String) (g : Nat)
    (h : s.fileGet g = none) : (s.deletePage page sel).fileGet g = none := by
  rw [deletePage_eq]
  by_cases hd : s.depth > 0
  · have ht := transact_pos s (pageBody page sel) hd
    have hb := pageBody_keep page sel s
    rw [fileGet_congr _ s g (ht.2.2.2.2.2.trans hb.2.2.2.2.2)]
    exact h
  · have hd0 : s.depth = 0 := by omega
    rw [transact_zero s _ hd0 (pageBody_ok _ _ _)]
    apply fremoveAll_fileGet_mono
    have hb := pageBody_keep page sel (s.log .begin)
    rw [log_fileGet, fileGet_congr _ s g (hb.2.2.2.2.2.trans rfl)]
    exact h

theorem deletePage_fileGet_mem (s : Cache) (page : List Row) (sel : String) (g : Nat)
    (hd : s.depth = 0) (r : Row) (hr : r ∈ page) (hf : r.file = some g) :
    (s.deletePage page sel).fileGet g = none := by
  rw [deletePage_eq, transact_zero s _ hd (pageBody_ok _ _ _), pageBody_cleanup]
  apply fremoveAll_fileGet_mem
  simp only [List.mem_map]
  exact ⟨r, hr, hf⟩

/-! ### the generic cursor-paged removal loop -/

/-- `clearLoop` / `evictLoop` with the row predicate abstracted -/
def pageLoop (m : Row → Bool) (sel : String) : Nat → Cache → Nat → Nat → Cache × Nat
  | 0, s, _, n => (s, n)
  | fuel + 1, s, cur, n =>
    let page := (s.rows.filter (fun r => m r && decide (r.rowid > cur))).take s.cfg.page
    let s := s.deletePage page sel
    match lastRow? page with
    | none => (s, n)
    | some r => pageLoop m sel fuel s r.rowid (n + page.length)

theorem clearLoop_eq : ∀ (fuel : Nat) (s : Cache) (cur n : Nat),
    clearLoop fuel s cur n = pageLoop (fun _ => true) "pageRowid" fuel s cur n := by
  intro fuel
  induction fuel with
  | zero => intro s cur n; rfl
  | succ k ih =>
    intro s cur n
    simp only [clearLoop, pageLoop, Bool.true_and, ih]
    rfl

theorem evictLoop_eq (tag : SqlVal) : ∀ (fuel : Nat) (s : Cache) (cur n : Nat),
    evictLoop tag fuel s cur n = pageLoop (fun r => r.tag.eqv tag) "pageTag" fuel s cur n := by
  intro fuel
  induction fuel with
  | zero => intro s cur n; rfl
  | succ k ih =>
    intro s cur n
    simp only [evictLoop, pageLoop, ih]
    rfl

theorem lastRow?_mem {l : List Row} {r : Row} (h : lastRow? l = some r) : r ∈ l :=
  List.mem_of_getLast? h

theorem lastRow?_none {l : List Row} (h : lastRow? l = none) : l = [] :=
  List.getLast?_eq_none_iff.mp h

/-- everything one round of the loop does, in terms of `M = rows.filter m` -/
theorem page_step (m : Row → Bool) (sel : String) (s : Cache) (cur : Nat)
    (hasc : RowidsAsc s.rows) (hinv : ∀ r ∈ s.rows, m r = true → cur < r.rowid) :
    let M := s.rows.filter m
    let T := M.take s.cfg.page
    let s' := s.deletePage T sel
    s.rows.filter (fun r => m r && decide (r.rowid > cur)) = M ∧
    s'.rows.filter m = M.drop s.cfg.page ∧
    s'.rows.filter (fun r => !m r) = s.rows.filter (fun r => !m r) ∧
    s'.count = s.count - T.length ∧
    s'.size = s.size - sumSizes T ∧
    RowidsAsc s'.rows ∧
    (∀ r, r ∈ T → ∀ x ∈ s'.rows, m x = true → r.rowid < x.rowid) := by
  intro M T s'
  have hMasc : RowidsAsc M := rowidsAsc_filter m hasc
  have hTD : T ++ M.drop s.cfg.page = M := List.take_append_drop _ _
  have hTasc : RowidsAsc T := List.Pairwise.sublist (List.take_sublist _ _) hMasc
  have hTM : ∀ r ∈ T, r ∈ M := fun r hr => List.mem_of_mem_take hr
  have hsub : ∀ r ∈ T, r ∈ s.rows := fun r hr => (List.mem_filter.mp (hTM r hr)).1
  have hTm : ∀ r ∈ T, m r = true := fun r hr => (List.mem_filter.mp (hTM r hr)).2
  have hcross : ∀ t ∈ T, ∀ d ∈ M.drop s.cfg.page, t.rowid < d.rowid := by
    have := hMasc
    unfold RowidsAsc at this
    rw [← hTD, List.pairwise_append] at this
    exact this.2.2
  have hk := deletePage_keep s T sel
  have hrows : s'.rows = s.rows.filter (fun r => !T.contains r) := by
    show (s.deletePage T sel).rows = _
    rw [hk.1, delIn_rows_mem s hasc T hsub]
  have hcnt := delIn_counters T s hasc hTasc hsub
  have hfm : s'.rows.filter m = M.drop s.cfg.page := by
    rw [hrows, List.filter_filter]
    have : (s.rows.filter (fun a => m a && !T.contains a))
        = (s.rows.filter m).filter (fun a => !T.contains a) := by
      rw [List.filter_filter]; apply List.filter_congr; intro x _; exact Bool.and_comm _ _
    rw [this]
    show M.filter _ = _
    conv => lhs; rw [← hTD]
    apply filter_append_cut
    · intro t ht; simp [ht]
    · intro d hd
      have : d ∉ T := by
        intro hdt
        have := hcross d hdt d hd
        omega
      simp [this]
  refine ⟨?_, hfm, ?_, ?_, ?_, ?_, ?_⟩
  · apply List.filter_congr
    intro r hr
    cases hm : m r with
    | false => rfl
    | true => simp [hinv r hr hm]
  · rw [hrows, List.filter_filter]
    apply List.filter_congr
    intro x _
    cases hm : m x with
    | true => rfl
    | false =>
      have : x ∉ T := fun hx => by have := hTm x hx; simp [hm] at this
      simp [this]
  · show (s.deletePage T sel).count = _
    rw [hk.2.1]; exact hcnt.1
  · show (s.deletePage T sel).size = _
    rw [hk.2.2.1]; exact hcnt.2
  · rw [hrows]; exact rowidsAsc_filter _ hasc
  · intro r hr x hx hmx
    have hxD : x ∈ M.drop s.cfg.page := by
      rw [← hfm]; exact List.mem_filter.mpr ⟨hx, hmx⟩
    exact hcross r hr x hxD

theorem pageLoop_spec (m : Row → Bool) (sel : String) : ∀ (fuel : Nat) (s : Cache) (cur n : Nat),
    RowidsAsc s.rows → (∀ r ∈ s.rows, m r = true → cur < r.rowid) → 0 < s.cfg.page →
    (s.rows.filter m).length + 1 ≤ fuel →
    (pageLoop m sel fuel s cur n).1.rows = s.rows.filter (fun r => !m r) ∧
    (pageLoop m sel fuel s cur n).2 = n + (s.rows.filter m).length ∧
    (pageLoop m sel fuel s cur n).1.count = s.count - ((s.rows.filter m).length : Nat) ∧
    (pageLoop m sel fuel s cur n).1.size = s.size - sumSizes (s.rows.filter m) ∧
    (pageLoop m sel fuel s cur n).1.cfg = s.cfg := by
  intro fuel
  induction fuel with
  | zero => intro s cur n _ _ _ hf; omega
  | succ k ih =>
    intro s cur n hasc hinv hp hf
    obtain ⟨h1, h2, h3, h4, h5, h6, h7⟩ := page_step m sel s cur hasc hinv
    have hk := deletePage_keep s ((s.rows.filter m).take s.cfg.page) sel
    simp only [pageLoop, h1]
    split
    · rename_i hl
      have hT := lastRow?_none hl
      have hM : s.rows.filter m = [] := take_nil_of_pos _ _ hp hT
      have h2' : (s.deletePage ((s.rows.filter m).take s.cfg.page) sel).rows.filter m = [] := by
        rw [h2, hM]; simp
      refine ⟨?_, ?_, ?_, ?_, hk.2.2.2.1⟩
      · show (s.deletePage ((s.rows.filter m).take s.cfg.page) sel).rows = _
        rw [← h3]; symm; rw [List.filter_eq_self]
        intro a ha
        have := List.filter_eq_nil_iff.mp h2' a ha
        simpa using this
      · simp [hM]
      · show (s.deletePage ((s.rows.filter m).take s.cfg.page) sel).count = _
        rw [h4, hT, hM]
      · show (s.deletePage ((s.rows.filter m).take s.cfg.page) sel).size = _
        rw [h5, hT, hM]
    · rename_i r hl
      have hr := lastRow?_mem hl
      have hlen : ((s.rows.filter m).take s.cfg.page).length ≥ 1 :=
        List.length_pos_of_mem hr
      have hsplit : (s.rows.filter m).length
          = ((s.rows.filter m).take s.cfg.page).length + ((s.rows.filter m).drop s.cfg.page).length := by
        conv => lhs; rw [← List.take_append_drop s.cfg.page (s.rows.filter m)]
        rw [List.length_append]
      have hsum : sumSizes (s.rows.filter m)
          = sumSizes ((s.rows.filter m).take s.cfg.page) + sumSizes ((s.rows.filter m).drop s.cfg.page) := by
        conv => lhs; rw [← List.take_append_drop s.cfg.page (s.rows.filter m)]
        rw [sumSizes_append]
      have := ih (s.deletePage ((s.rows.filter m).take s.cfg.page) sel) r.rowid
        (n + ((s.rows.filter m).take s.cfg.page).length) h6 (h7 r hr)
        (by rw [hk.2.2.2.1]; exact hp) (by rw [h2]; omega)
      obtain ⟨i1, i2, i3, i4, i5⟩ := this
      rw [h2] at i2 i3 i4
      refine ⟨by rw [i1, h3], ?_, ?_, ?_, by rw [i5, hk.2.2.2.1]⟩
      · rw [i2]; omega
      · rw [i3, h4]; omega
      · rw [i4, h5, hsum]; omega

theorem pageLoop_files (m : Row → Bool) (sel : String) (f : Nat) :
    ∀ (fuel : Nat) (s : Cache) (cur n : Nat),
    RowidsAsc s.rows → (∀ r ∈ s.rows, m r = true → cur < r.rowid) → 0 < s.cfg.page →
    (s.rows.filter m).length + 1 ≤ fuel → s.depth = 0 →
    ((∃ r ∈ s.rows, m r = true ∧ r.file = some f) ∨ s.fileGet f = none) →
    (pageLoop m sel fuel s cur n).1.fileGet f = none := by
  intro fuel
  induction fuel with
  | zero => intro s cur n _ _ _ hf; omega
  | succ k ih =>
    intro s cur n hasc hinv hp hf hd hor
    obtain ⟨h1, h2, h3, h4, h5, h6, h7⟩ := page_step m sel s cur hasc hinv
    have hk := deletePage_keep s ((s.rows.filter m).take s.cfg.page) sel
    have hor' : (∃ r ∈ (s.deletePage ((s.rows.filter m).take s.cfg.page) sel).rows,
          m r = true ∧ r.file = some f) ∨
        (s.deletePage ((s.rows.filter m).take s.cfg.page) sel).fileGet f = none := by
      rcases hor with ⟨r, hr, hm, hfile⟩ | hnone
      · have hrM : r ∈ s.rows.filter m := List.mem_filter.mpr ⟨hr, hm⟩
        rw [← List.take_append_drop s.cfg.page (s.rows.filter m), List.mem_append] at hrM
        rcases hrM with hT | hD
        · right; exact deletePage_fileGet_mem s _ sel f hd r hT hfile
        · left
          rw [← h2] at hD
          exact ⟨r, (List.mem_filter.mp hD).1, hm, hfile⟩
      · right; exact deletePage_fileGet_mono s _ sel f hnone
    simp only [pageLoop, h1]
    split
    · rename_i hl
      have hT := lastRow?_none hl
      have hM : s.rows.filter m = [] := take_nil_of_pos _ _ hp hT
      rcases hor' with ⟨r, hr, hm, _⟩ | hnone
      · have h2' : (s.deletePage ((s.rows.filter m).take s.cfg.page) sel).rows.filter m = [] := by
          rw [h2, hM]; simp
        have := List.filter_eq_nil_iff.mp h2' r hr
        simp [hm] at this
      · exact hnone
    · rename_i r hl
      have hr := lastRow?_mem hl
      have hlen : ((s.rows.filter m).take s.cfg.page).length ≥ 1 :=
        List.length_pos_of_mem hr
      have hsplit : (s.rows.filter m).length
          = ((s.rows.filter m).take s.cfg.page).length + ((s.rows.filter m).drop s.cfg.page).length := by
        conv => lhs; rw [← List.take_append_drop s.cfg.page (s.rows.filter m)]
        rw [List.length_append]
      exact ih (s.deletePage ((s.rows.filter m).take s.cfg.page) sel) r.rowid
        (n + ((s.rows.filter m).take s.cfg.page).length) h6 (h7 r hr)
        (by rw [hk.2.2.2.1]; exact hp) (by rw [h2]; omega) (by rw [hk.2.2.2.2]; exact hd) hor'

/-! ### iteration -/

/-- the cursor of a page cuts an ordered list exactly at the page boundary -/
theorem cursor_cut (L : List Row) (lt : Row → Row → Prop) (hpw : L.Pairwise lt) (p : Nat) (r : Row)
    (hl : lastRow? (L.take p) = some r) (q : Row → Bool)
    (hq1 : ∀ x, lt x r → q x = false) (hqr : q r = false) (hq2 : ∀ x, lt r x → q x = true) :
    L.filter q = L.drop p := by
  obtain ⟨ys, hys⟩ := List.getLast?_eq_some_iff.mp hl
  have hTD : L.take p ++ L.drop p = L := List.take_append_drop _ _
  rw [← hTD] at hpw
  obtain ⟨hT, _, hcross⟩ := List.pairwise_append.mp hpw
  rw [hys] at hT
  obtain ⟨_, _, hys'⟩ := List.pairwise_append.mp hT
  conv => lhs; rw [← hTD]
  apply filter_append_cut
  · intro t ht
    rw [hys] at ht
    rcases List.mem_append.mp ht with h | h
    · exact hq1 t (hys' t h r (by simp))
    · simp at h; subst h; exact hqr
  · intro d hd
    exact hq2 d (hcross r (by rw [hys]; simp) d hd)

theorem iterLoop_keep (asc : Bool) (bound : Nat) : ∀ (fuel : Nat) (s : Cache) (cur : Nat) (acc : List Row),
    (iterLoop asc bound fuel s cur acc).1.rows = s.rows ∧
    (iterLoop asc bound fuel s cur acc).1.files = s.files ∧
    (iterLoop asc bound fuel s cur acc).1.cfg = s.cfg := by
  intro fuel
  induction fuel with
  | zero => intro s cur acc; exact ⟨rfl, rfl, rfl⟩
  | succ k ih =>
    intro s cur acc
    simp only [iterLoop]
    split
    · exact ⟨rfl, rfl, rfl⟩
    · exact ih (s.logSql "pageIter") _ _

theorem iterLoop_asc (bound : Nat) : ∀ (fuel : Nat) (s : Cache) (cur : Nat) (acc : List Row),
    RowidsAsc s.rows → (∀ r ∈ s.rows, r.rowid < bound) → 0 < s.cfg.page →
    (s.rows.filter (fun r => decide (cur < r.rowid))).length + 1 ≤ fuel →
    (iterLoop true bound fuel s cur acc).2 = acc ++ s.rows.filter (fun r => decide (cur < r.rowid)) := by
  intro fuel
  induction fuel with
  | zero => intro s cur acc _ _ _ hf; omega
  | succ k ih =>
    intro s cur acc hasc hb hp hf
    have h1 : s.rows.filter (fun r => decide (cur < r.rowid) && decide (r.rowid < bound))
        = s.rows.filter (fun r => decide (cur < r.rowid)) := by
      apply List.filter_congr; intro r hr; simp [hb r hr]
    simp only [iterLoop, if_true, h1]
    split
    · rename_i hl
      have hM := take_nil_of_pos _ _ hp (lastRow?_none hl)
      rw [hM]; simp
    · rename_i r hl
      have hr := lastRow?_mem hl
      have hrM := List.mem_filter.mp (List.mem_of_mem_take hr)
      have hcur : cur < r.rowid := by simpa using hrM.2
      have hMasc : RowidsAsc (s.rows.filter (fun r => decide (cur < r.rowid))) :=
        rowidsAsc_filter _ hasc
      have hcut : s.rows.filter (fun x => decide (r.rowid < x.rowid))
          = (s.rows.filter (fun r => decide (cur < r.rowid))).drop s.cfg.page := by
        rw [← cursor_cut _ _ hMasc s.cfg.page r hl (fun x => decide (r.rowid < x.rowid))
          (by intro x hx; simp; omega) (by simp) (by intro x hx; simpa using hx)]
        rw [List.filter_filter]
        apply List.filter_congr; intro x _
        by_cases h : r.rowid < x.rowid
        · have : cur < x.rowid := by omega
          simp [h, this]
        · simp [h]
      have hlen : ((s.rows.filter (fun r => decide (cur < r.rowid))).take s.cfg.page).length ≥ 1 :=
        List.length_pos_of_mem hr
      have hsplit := congrArg List.length
        (List.take_append_drop s.cfg.page (s.rows.filter (fun r => decide (cur < r.rowid))))
      rw [List.length_append] at hsplit
      have := ih (s.logSql "pageIter") r.rowid
        (acc ++ (s.rows.filter (fun r => decide (cur < r.rowid))).take s.cfg.page) hasc hb hp
        (by rw [logSql_rows, hcut]; omega)
      rw [this, logSql_rows, hcut, List.append_assoc, List.take_append_drop]

theorem iterLoop_desc (bound : Nat) : ∀ (fuel : Nat) (s : Cache) (cur : Nat) (acc : List Row),
    RowidsAsc s.rows → (∀ r ∈ s.rows, 0 < r.rowid) → 0 < s.cfg.page →
    (s.rows.filter (fun r => decide (r.rowid < cur))).length + 1 ≤ fuel →
    (iterLoop false bound fuel s cur acc).2
      = acc ++ (s.rows.filter (fun r => decide (r.rowid < cur))).reverse := by
  intro fuel
  induction fuel with
  | zero => intro s cur acc _ _ _ hf; omega
  | succ k ih =>
    intro s cur acc hasc hpos hp hf
    have h1 : s.rows.filter (fun r => decide (0 < r.rowid) && decide (r.rowid < cur))
        = s.rows.filter (fun r => decide (r.rowid < cur)) := by
      apply List.filter_congr; intro r hr; simp [hpos r hr]
    simp only [iterLoop, Bool.false_eq_true, if_false, h1]
    split
    · rename_i hl
      have hM := take_nil_of_pos _ _ hp (lastRow?_none hl)
      rw [hM]; simp
    · rename_i r hl
      have hr := lastRow?_mem hl
      have hrM := List.mem_filter.mp (List.mem_reverse.mp (List.mem_of_mem_take hr))
      have hcur : r.rowid < cur := by simpa using hrM.2
      have hMasc : (s.rows.filter (fun r => decide (r.rowid < cur))).reverse.Pairwise
          (fun a b => b.rowid < a.rowid) :=
        List.pairwise_reverse.mpr (rowidsAsc_filter _ hasc)
      have hcut : (s.rows.filter (fun x => decide (x.rowid < r.rowid))).reverse
          = (s.rows.filter (fun r => decide (r.rowid < cur))).reverse.drop s.cfg.page := by
        rw [← cursor_cut _ _ hMasc s.cfg.page r hl (fun x => decide (x.rowid < r.rowid))
          (by intro x hx; simp; omega) (by simp) (by intro x hx; simpa using hx)]
        rw [List.filter_reverse, List.filter_filter]
        congr 1
        apply List.filter_congr; intro x _
        by_cases h : x.rowid < r.rowid
        · have : x.rowid < cur := by omega
          simp [h, this]
        · simp [h]
      have hlen : ((s.rows.filter (fun r => decide (r.rowid < cur))).reverse.take s.cfg.page).length ≥ 1 :=
        List.length_pos_of_mem hr
      have hsplit := congrArg List.length
        (List.take_append_drop s.cfg.page (s.rows.filter (fun r => decide (r.rowid < cur))).reverse)
      rw [List.length_append, List.length_reverse] at hsplit
      have hlen2 := congrArg List.length hcut
      rw [List.length_reverse] at hlen2
      have := ih (s.logSql "pageIter") r.rowid
        (acc ++ (s.rows.filter (fun r => decide (r.rowid < cur))).reverse.take s.cfg.page) hasc hpos hp
        (by rw [logSql_rows, hlen2]; omega)
      rw [this, logSql_rows, hcut, List.append_assoc, List.take_append_drop]

theorem le_maxRowid (rows : List Row) : ∀ r ∈ rows, r.rowid ≤ maxRowid rows := by
  have key : ∀ (l : List Row) (init : Nat),
      init ≤ l.foldl (fun m r => max m r.rowid) init ∧
      ∀ r ∈ l, r.rowid ≤ l.foldl (fun m r => max m r.rowid) init := by
    intro l
    induction l with
    | nil => intro init; simp
    | cons a t ih =>
      intro init
      have := ih (max init a.rowid)
      simp only [List.foldl_cons, List.mem_cons]
      refine ⟨by omega, ?_⟩
      rintro r (rfl | hr)
      · omega
      · exact this.2 r hr
  exact (key rows 0).2

end DC.Cache
