/- helper lemmas for the paging loops (clear / evict / expire / iter / iterkeys) -/
import DC.Proofs.Defs

namespace DC.Cache

end DC.Cache
