/- helper lemmas: results and directory depend on the directory alone (C18) -/
import DC.Properties.C06

namespace DC.Cache

end DC.Cache
