/- helper lemmas: results and directory depend on the directory alone (C18) -/
import DC.Properties.C06

namespace DC.Cache

/-- two idle handles on the same directory with the same pending observations -/
structure Sim (s t : Cache) : Prop where
  rows : s.rows = t.rows
  count : s.count = t.count
  size : s.size = t.size
  hits : s.hits = t.hits
  misses : s.misses = t.misses
  statistics : s.statistics = t.statistics
  files : s.files = t.files
  nfile : s.nfile = t.nfile
  cfg : s.cfg = t.cfg
  env : s.env = t.env
  ds : s.depth = 0
  dt : t.depth = 0

/-- related states and equal auxiliary results -/
@[reducible] def SimP {α : Type} (p q : Cache × α) : Prop := Sim p.1 q.1 ∧ p.2 = q.2

/-- related transaction bodies -/
@[reducible] def SimB (a b : Body) : Prop := Sim a.s b.s ∧ a.out = b.out ∧ a.ok = b.ok ∧ a.cleanup = b.cleanup

theorem SimP.ex {α : Type} {p q : Cache × α} (h : SimP p q) :
    ∃ s' t' a, p = (s', a) ∧ q = (t', a) ∧ Sim s' t' :=
  ⟨p.1, q.1, p.2, rfl, by rw [h.2], h.1⟩

theorem Sim.rfl' {s : Cache} (hd : s.depth = 0) : Sim s s :=
  ⟨rfl, rfl, rfl, rfl, rfl, rfl, rfl, rfl, rfl, rfl, hd, hd⟩

theorem Sim.symm {s t : Cache} (h : Sim s t) : Sim t s :=
  ⟨h.rows.symm, h.count.symm, h.size.symm, h.hits.symm, h.misses.symm, h.statistics.symm,
   h.files.symm, h.nfile.symm, h.cfg.symm, h.env.symm, h.dt, h.ds⟩

theorem Sim.trans {s t u : Cache} (h : Sim s t) (h2 : Sim t u) : Sim s u :=
  ⟨h.rows.trans h2.rows, h.count.trans h2.count, h.size.trans h2.size, h.hits.trans h2.hits,
   h.misses.trans h2.misses, h.statistics.trans h2.statistics, h.files.trans h2.files,
   h.nfile.trans h2.nfile, h.cfg.trans h2.cfg, h.env.trans h2.env, h.ds, h2.dt⟩

/-- prove `Sim (f s) (f t)` for a function that is a plain record update -/
macro "sim_fields" h:ident "[" ls:Lean.Parser.Tactic.simpLemma,* "]" : tactic => `(tactic| (
  obtain ⟨h1, h2, h3, h4, h5, h6, h7, h8, h9, h10, h11, h12⟩ := $h
  constructor <;> simp only [$ls,*, h1, h2, h3, h4, h5, h6, h7, h8, h9, h10, h11, h12]))

macro "sim_fields0" h:ident : tactic => `(tactic| (
  obtain ⟨h1, h2, h3, h4, h5, h6, h7, h8, h9, h10, h11, h12⟩ := $h
  constructor <;> simp only [h1, h2, h3, h4, h5, h6, h7, h8, h9, h10, h11, h12]))

/-! ### statement functions -/

theorem Sim.log {s t : Cache} (h : Sim s t) (a b : Act) : Sim (s.log a) (t.log b) :=
  ⟨h.rows, h.count, h.size, h.hits, h.misses, h.statistics, h.files, h.nfile, h.cfg, h.env, h.ds, h.dt⟩

theorem Sim.logSql {s t : Cache} (h : Sim s t) (a b : String) : Sim (s.logSql a) (t.logSql b) :=
  h.log _ _

theorem Sim.fwrite {s t : Cache} (h : Sim s t) (c : Content) : SimP (s.fwrite c) (t.fwrite c) := by
  refine ⟨?_, h.nfile⟩
  sim_fields h [Cache.fwrite, Cache.log]

theorem Sim.fremove {s t : Cache} (h : Sim s t) (f : Nat) : Sim (s.fremove f) (t.fremove f) := by
  sim_fields h [Cache.fremove, Cache.log]

theorem Sim.fremoveAll {s t : Cache} (h : Sim s t) (fs : List (Option Nat)) :
    Sim (s.fremoveAll fs) (t.fremoveAll fs) := by
  induction fs generalizing s t with
  | nil => exact h
  | cons a fs ih =>
    cases a with
    | none => exact ih h
    | some f => exact ih (h.fremove f)

theorem Sim.insRow {s t : Cache} (h : Sim s t) (k : SqlVal) (raw : Bool) (now : Int) (c : Cols) :
    Sim (s.insRow k raw now c) (t.insRow k raw now c) := by
  sim_fields h [Cache.insRow, Cache.logSql, Cache.log]

theorem Sim.updRow {s t : Cache} (h : Sim s t) (rowid : Nat) (now : Int) (c : Cols) :
    Sim (s.updRow rowid now c) (t.updRow rowid now c) := by
  sim_fields h [Cache.updRow, Cache.logSql, Cache.log]

theorem Sim.updExp {s t : Cache} (h : Sim s t) (rowid : Nat) (e : Option Int) :
    Sim (s.updExp rowid e) (t.updExp rowid e) := by
  sim_fields h [Cache.updExp, Cache.logSql, Cache.log]

theorem Sim.updGet {s t : Cache} (h : Sim s t) (rowid : Nat) (now : Int) :
    Sim (s.updGet rowid now) (t.updGet rowid now) := by
  sim_fields h [Cache.updGet, Cache.logSql, Cache.log]

theorem Sim.updIncr {s t : Cache} (h : Sim s t) (rowid : Nat) (now : Int) (v : SqlVal) :
    Sim (s.updIncr rowid now v) (t.updIncr rowid now v) := by
  sim_fields h [Cache.updIncr, Cache.logSql, Cache.log]

theorem Sim.delRowQuiet {s t : Cache} (h : Sim s t) (rowid : Nat) :
    Sim (s.delRowQuiet rowid) (t.delRowQuiet rowid) := by
  unfold Cache.delRowQuiet
  rw [← h.rows]
  split
  · sim_fields0 h
  · exact h

theorem Sim.delRow {s t : Cache} (h : Sim s t) (rowid : Nat) : Sim (s.delRow rowid) (t.delRow rowid) :=
  (h.delRowQuiet rowid).logSql _ _

theorem Sim.delIn {s t : Cache} (h : Sim s t) (ids : List Nat) : Sim (s.delIn ids) (t.delIn ids) := by
  unfold Cache.delIn
  induction ids generalizing s t with
  | nil => exact h
  | cons a ids ih => exact ih (h.delRowQuiet a)

theorem Sim.incMisses {s t : Cache} (h : Sim s t) :
    Sim { s with misses := s.misses + 1 } { t with misses := t.misses + 1 } := by
  sim_fields0 h

theorem Sim.incHits {s t : Cache} (h : Sim s t) :
    Sim { s with hits := s.hits + 1 } { t with hits := t.hits + 1 } := by
  sim_fields0 h

theorem Sim.takeSnap {s t : Cache} (h : Sim s t) : s.takeSnap = t.takeSnap := by
  simp only [Cache.takeSnap, h.rows, h.count, h.size, h.hits, h.misses]

theorem Sim.restore {s t : Cache} (h : Sim s t) (p : Snap) : Sim (s.restore p) (t.restore p) := by
  sim_fields h [Cache.restore]

/-! ### selections: functions of the rows and settings -/

theorem Sim.selKey {s t : Cache} (h : Sim s t) (k : SqlVal) (raw : Bool) : s.selKey k raw = t.selKey k raw := by
  unfold Cache.selKey; rw [h.rows]

theorem Sim.selLive {s t : Cache} (h : Sim s t) (k : SqlVal) (raw : Bool) (now : Int) :
    s.selLive k raw now = t.selLive k raw now := by
  unfold Cache.selLive; rw [h.rows]

theorem Sim.selExpired {s t : Cache} (h : Sim s t) (now : Int) (n : Nat) :
    s.selExpired now n = t.selExpired now n := by
  unfold Cache.selExpired; rw [h.rows]

theorem Sim.selPolicy {s t : Cache} (h : Sim s t) (n : Nat) : s.selPolicy n = t.selPolicy n := by
  unfold Cache.selPolicy; rw [h.rows, h.cfg]

theorem Sim.queueRows {s t : Cache} (h : Sim s t) (pfx : Option Str) : s.queueRows pfx = t.queueRows pfx := by
  unfold Cache.queueRows; rw [h.rows]

theorem Sim.fileGet {s t : Cache} (h : Sim s t) (f : Nat) : s.fileGet f = t.fileGet f := by
  unfold Cache.fileGet; rw [h.files]

/-! ### compound statement functions -/

theorem Sim.volume {s t : Cache} (h : Sim s t) : SimP s.volume t.volume := by
  unfold Cache.volume
  have h2 := (h.logSql "pageCount" "pageCount").logSql "getSize" "getSize"
  revert h2
  generalize (s.logSql "pageCount").logSql "getSize" = s'
  generalize (t.logSql "pageCount").logSql "getSize" = t'
  intro h2
  simp only [← h2.env]
  split
  · refine ⟨?_, by simp only [h2.size]⟩
    rename_i pb rest he
    have he' := h2.env
    rw [he] at he'
    obtain ⟨h1, h2, h3, h4, h5, h6, h7, h8, h9, h10, h11, h12⟩ := h2
    constructor <;> simp only [*]
  · refine ⟨?_, h2.size⟩
    sim_fields0 h2

theorem Sim.fetchRow {s t : Cache} (h : Sim s t) (E : Externals) (r : Row) (read : Bool) :
    SimP (s.fetchRow E r read) (t.fetchRow E r read) := by
  unfold Cache.fetchRow
  split
  · rename_i f hf
    split
    · exact ⟨h, by simp only [h.cfg, h.fileGet]⟩
    · exact ⟨h.log _ _, by simp only [h.cfg, Cache.fileGet, Cache.log, h.files]⟩
  · exact ⟨h, by simp only [h.cfg]⟩

theorem Sim.store {s t : Cache} (h : Sim s t) (E : Externals) (v : PyVal) (read : Bool) :
    (∃ e, s.store E v read = .error e ∧ t.store E v read = .error e) ∨
    (∃ s' t' c, s.store E v read = .ok (s', c) ∧ t.store E v read = .ok (t', c) ∧ Sim s' t') := by
  unfold Cache.store
  rw [← h.cfg]
  split
  · exact .inl ⟨_, rfl, rfl⟩
  · exact .inr ⟨_, _, _, rfl, rfl, h⟩
  · rename_i mode c _
    refine .inr ⟨(s.fwrite c).1, (t.fwrite c).1, _, rfl, ?_, (h.fwrite c).1⟩
    show Except.ok ((t.fwrite c).1, _) = _
    rw [h.nfile]

theorem Sim.removeCommitted {s t : Cache} (h : Sim s t) (f : Option Nat) :
    Sim (s.removeCommitted f) (t.removeCommitted f) := by
  rw [removeCommitted_zero s f h.ds, removeCommitted_zero t f h.dt]
  cases f with
  | none => exact h
  | some f => exact h.fremove f

theorem Sim.transact {s t : Cache} (h : Sim s t) (b1 b2 : Cache → Body) (fresh : Option Nat)
    (hb : ∀ u v, Sim u v → SimB (b1 u) (b2 v)) :
    SimP (s.transact b1 fresh) (t.transact b2 fresh) := by
  unfold Cache.transact
  have hs : ¬ (s.depth > 0) := by rw [h.ds]; exact Nat.lt_irrefl 0
  have ht : ¬ (t.depth > 0) := by rw [h.dt]; exact Nat.lt_irrefl 0
  rw [if_neg hs, if_neg ht]
  obtain ⟨h1, h2, h3, h4⟩ := hb _ _ (h.log .begin .begin)
  simp only [← h3]
  split
  · exact ⟨by rw [h4]; exact (h1.log _ _).fremoveAll _, h2⟩
  · refine ⟨?_, h2⟩
    have h5 := ((h1.restore s.takeSnap).log .rollback .rollback)
    rw [← h.takeSnap]
    cases fresh with
    | none => exact h5
    | some f => exact h5.fremove f

theorem Sim.cullTail {s t : Cache} (h : Sim s t) (cl : List (Option Nat)) (n : Nat) :
    SimP (DC.Cache.cullTail s cl n) (DC.Cache.cullTail t cl n) := by
  unfold DC.Cache.cullTail
  split
  · exact ⟨h, rfl⟩
  · rw [← h.cfg]
    split
    · exact ⟨h, rfl⟩
    · obtain ⟨s', t', vol, e1, e2, h'⟩ := h.volume.ex
      rw [e1, e2]
      simp only
      rw [← h'.cfg, ← h'.selPolicy]
      split
      · exact ⟨h', rfl⟩
      · split
        · exact ⟨h'.logSql _ _, rfl⟩
        · exact ⟨((h'.logSql _ _).delIn _).logSql _ _, rfl⟩

theorem Sim.cullW {s t : Cache} (h : Sim s t) (now : Int) : SimP (s.cullW now) (t.cullW now) := by
  by_cases hc : s.cfg.cullLimit = 0
  · have hc' : t.cfg.cullLimit = 0 := by rw [← h.cfg]; exact hc
    unfold Cache.cullW
    simp only [Option.getD_none, hc, hc', beq_self_eq_true, if_true]
    exact ⟨h, rfl⟩
  · have hc' : t.cfg.cullLimit ≠ 0 := by rw [← h.cfg]; exact hc
    rw [cullW_eq s now hc, cullW_eq t now hc']
    rw [← h.cfg, ← h.selExpired]
    split
    · exact (h.logSql _ _).cullTail _ _
    · exact (((h.logSql _ _).delIn _).logSql _ _).cullTail _ _

theorem Sim.cullW₁ {s t : Cache} (h : Sim s t) (now : Int) : Sim (s.cullW now).1 (t.cullW now).1 :=
  (h.cullW now).1
theorem Sim.cullW₂ {s t : Cache} (h : Sim s t) (now : Int) : (s.cullW now).2 = (t.cullW now).2 :=
  (h.cullW now).2
theorem Sim.fetchRow₁ {s t : Cache} (h : Sim s t) (E : Externals) (r : Row) (read : Bool) :
    Sim (s.fetchRow E r read).1 (t.fetchRow E r read).1 := (h.fetchRow E r read).1
theorem Sim.fetchRow₂ {s t : Cache} (h : Sim s t) (E : Externals) (r : Row) (read : Bool) :
    (s.fetchRow E r read).2 = (t.fetchRow E r read).2 := (h.fetchRow E r read).2
theorem Sim.volume₁ {s t : Cache} (h : Sim s t) : Sim s.volume.1 t.volume.1 := h.volume.1
theorem Sim.volume₂ {s t : Cache} (h : Sim s t) : s.volume.2 = t.volume.2 := h.volume.2
theorem Sim.transact₁ {s t : Cache} (h : Sim s t) (b1 b2 : Cache → Body) (fresh : Option Nat)
    (hb : ∀ u v, Sim u v → SimB (b1 u) (b2 v)) :
    Sim (s.transact b1 fresh).1 (t.transact b2 fresh).1 := (h.transact b1 b2 fresh hb).1

@[simp] theorem logSql_statistics (s : Cache) (a : String) : (s.logSql a).statistics = s.statistics := rfl
@[simp] theorem logSql_selKey (s : Cache) (a : String) : (s.logSql a).selKey = s.selKey := rfl
@[simp] theorem fetchRow_statistics (s : Cache) (E : Externals) (r : Row) (read : Bool) :
    (s.fetchRow E r read).1.statistics = s.statistics := by
  unfold Cache.fetchRow; split
  · split <;> rfl
  · rfl
@[simp] theorem fetchRow_cfg (s : Cache) (E : Externals) (r : Row) (read : Bool) :
    (s.fetchRow E r read).1.cfg = s.cfg := by
  unfold Cache.fetchRow; split
  · split <;> rfl
  · rfl

theorem Sim.ite_stat {x y a1 a2 b1 b2 : Cache} (h : Sim x y) (h1 : Sim a1 a2) (h2 : Sim b1 b2) :
    Sim (if x.statistics then a1 else b1) (if y.statistics then a2 else b2) := by
  rw [← h.statistics]
  split
  · exact h1
  · exact h2

theorem Sim.ite_pol {x y a1 a2 b1 b2 : Cache} (h : Sim x y) (h1 : Sim a1 a2) (h2 : Sim b1 b2) :
    Sim (if policyUpdates x.cfg.policy then a1 else b1) (if policyUpdates y.cfg.policy then a2 else b2) := by
  rw [← h.cfg]
  split
  · exact h1
  · exact h2

/-- close goals `Sim (f (g (… u))) (f (g (… v)))` for compositions of statement functions -/
macro "sim_auto" : tactic => `(tactic| repeat' first
    | assumption
    | with_reducible apply Sim.logSql
    | with_reducible apply Sim.log
    | with_reducible apply Sim.delIn
    | with_reducible apply Sim.insRow
    | with_reducible apply Sim.updRow
    | with_reducible apply Sim.updExp
    | with_reducible apply Sim.updGet
    | with_reducible apply Sim.updIncr
    | with_reducible apply Sim.delRow
    | with_reducible apply Sim.delRowQuiet
    | with_reducible apply Sim.removeCommitted
    | with_reducible apply Sim.incMisses
    | with_reducible apply Sim.incHits
    | with_reducible apply Sim.cullW₁
    | with_reducible apply Sim.fetchRow₁
    | with_reducible apply Sim.volume₁
    | with_reducible apply Sim.ite_stat
    | with_reducible apply Sim.ite_pol
    | (with_reducible refine Sim.transact₁ ?_ _ _ _ (fun _ _ _ => ⟨?_, rfl, rfl, rfl⟩)))

/-- equal auxiliary results -/
macro "sim_eq" : tactic => `(tactic| first
    | rfl
    | (with_reducible apply Sim.cullW₂; sim_auto; done)
    | (with_reducible apply Sim.volume₂; sim_auto; done)
    | (with_reducible apply Sim.fetchRow₂; sim_auto; done)
    | (congr 1; with_reducible apply Sim.cullW₂; sim_auto; done))

/-- related bodies -/
macro "sim_body" : tactic => `(tactic| (refine ⟨?_, ?_, ?_, ?_⟩ <;> (try dsimp only) <;>
    first | sim_eq | (sim_auto; done)))

/-! ### public methods -/

theorem set_sim {s t : Cache} (h : Sim s t) (E : Externals) (now : Int) (k v : PyVal) (ttl : Option Int)
    (read : Bool) (tag : SqlVal) : SimP (s.set E now k v ttl read tag) (t.set E now k v ttl read tag) := by
  unfold Cache.set
  rw [← h.cfg]
  rcases DC.put E s.cfg.disk k with ⟨dbk, raw⟩
  simp only
  rcases h.store E v read with ⟨e, e1, e2⟩ | ⟨s', t', c, e1, e2, h'⟩
  · rw [e1, e2]; exact ⟨h, rfl⟩
  · rw [e1, e2]
    simp only
    apply h'.transact
    intro u v hu
    split
    · sim_body
    · rw [← hu.selKey]
      split
      · sim_body
      · split
        · sim_body
        · sim_body

theorem touch_sim {s t : Cache} (h : Sim s t) (E : Externals) (now : Int) (k : PyVal) (ttl : Option Int) :
    SimP (s.touch E now k ttl) (t.touch E now k ttl) := by
  unfold Cache.touch
  rw [← h.cfg]
  rcases DC.put E s.cfg.disk k with ⟨dbk, raw⟩
  simp only
  apply h.transact
  intro u v hu
  rw [← hu.selKey]
  split
  · split
    · sim_body
    · sim_body
  · sim_body

theorem add_sim {s t : Cache} (h : Sim s t) (E : Externals) (now : Int) (k v : PyVal) (ttl : Option Int)
    (read : Bool) (tag : SqlVal) : SimP (s.add E now k v ttl read tag) (t.add E now k v ttl read tag) := by
  unfold Cache.add
  rw [← h.cfg]
  rcases DC.put E s.cfg.disk k with ⟨dbk, raw⟩
  simp only
  rcases h.store E v read with ⟨e, e1, e2⟩ | ⟨s', t', c, e1, e2, h'⟩
  · rw [e1, e2]; exact ⟨h, rfl⟩
  · rw [e1, e2]
    simp only
    apply h'.transact
    intro u v hu
    split
    · sim_body
    · rw [← hu.selKey]
      split
      · split
        · sim_body
        · split
          · sim_body
          · sim_body
      · split
        · sim_body
        · sim_body

theorem incr_sim {s t : Cache} (h : Sim s t) (E : Externals) (now : Int) (k : PyVal) (delta : Int)
    (dflt : Option Int) : SimP (s.incr E now k delta dflt) (t.incr E now k delta dflt) := by
  unfold Cache.incr
  rw [← h.cfg]
  rcases DC.put E s.cfg.disk k with ⟨dbk, raw⟩
  simp only
  apply h.transact
  intro u v hu
  rw [← hu.selKey]
  cases hold : u.selKey dbk raw with
  | none =>
    simp only
    split
    · sim_body
    · rename_i d
      rcases (hu.logSql "selKey" "selKey").store E (.int (d + delta)) false with
        ⟨e, e1, e2⟩ | ⟨s', t', c, e1, e2, h'⟩
      · rw [e1, e2]; sim_body
      · rw [e1, e2]
        simp only [regCreated_zero s' c.file h'.ds, regCreated_zero t' c.file h'.dt]
        sim_body
  | some r =>
    simp only
    split
    · split
      · sim_body
      · rename_i d
        rcases (hu.logSql "selKey" "selKey").store E (.int (d + delta)) false with
          ⟨e, e1, e2⟩ | ⟨s', t', c, e1, e2, h'⟩
        · rw [e1, e2]; sim_body
        · rw [e1, e2]
          simp only [regCreated_zero s' c.file h'.ds, regCreated_zero t' c.file h'.dt]
          sim_body
    · split
      · split
        · sim_body
        · sim_body
      · sim_body

theorem get_sim {s t : Cache} (h : Sim s t) (E : Externals) (now : Int) (k : PyVal) (read et tg : Bool) :
    SimP (s.get E now k read et tg) (t.get E now k read et tg) := by
  unfold Cache.get
  rw [← h.cfg, ← h.statistics]
  rcases DC.put E s.cfg.disk k with ⟨dbk, raw⟩
  simp only
  split
  · rw [← h.selLive]
    split
    · exact ⟨h.logSql _ _, rfl⟩
    · rename_i r _
      have hf := (h.logSql "selLive" "selLive").fetchRow E r read
      rw [← hf.2]
      split
      · exact ⟨hf.1, rfl⟩
      · exact ⟨hf.1, rfl⟩
  · apply h.transact
    intro u v hu
    rw [← hu.selLive]
    split
    · sim_body
    · rename_i r _
      have hf := (hu.logSql "selLive" "selLive").fetchRow E r read
      rw [← hf.2]
      split
      · sim_body
      · sim_body

theorem contains_sim {s t : Cache} (h : Sim s t) (E : Externals) (now : Int) (k : PyVal) :
    SimP (s.contains E now k) (t.contains E now k) := by
  unfold Cache.contains
  rw [← h.cfg]
  exact ⟨h.logSql _ _, by simp only [h.selLive]⟩

theorem Sim.tx_sel {s t : Cache} (h : Sim s t) (sel : String) :
    Sim (s.transact fun s => { s := s.logSql sel, out := .none }).1
        (t.transact fun s => { s := s.logSql sel, out := .none }).1 := by
  sim_auto

theorem Sim.tx_del {s t : Cache} (h : Sim s t) (sel : String) (rowid : Nat) (cl : List (Option Nat)) :
    Sim (s.transact fun s => { s := (s.logSql sel).delRow rowid, out := .none, cleanup := cl }).1
        (t.transact fun s => { s := (s.logSql sel).delRow rowid, out := .none, cleanup := cl }).1 := by
  sim_auto

theorem pop_sim {s t : Cache} (h : Sim s t) (E : Externals) (now : Int) (k : PyVal) (et tg : Bool) :
    SimP (s.pop E now k et tg) (t.pop E now k et tg) := by
  unfold Cache.pop
  rw [← h.cfg]
  rcases DC.put E s.cfg.disk k with ⟨dbk, raw⟩
  simp only
  rw [← h.selLive]
  cases hhit : s.selLive dbk raw now with
  | none =>
    simp only
    exact ⟨h.tx_sel _, rfl⟩
  | some r =>
    simp only
    have hf := (h.tx_del "selLive" r.rowid []).fetchRow E r false
    rw [← hf.2]
    split
    · exact ⟨hf.1.removeCommitted _, rfl⟩
    · exact ⟨hf.1.removeCommitted _, rfl⟩

theorem delitem_sim {s t : Cache} (h : Sim s t) (E : Externals) (now : Int) (k : PyVal) :
    SimP (s.delitem E now k) (t.delitem E now k) := by
  unfold Cache.delitem
  rw [← h.cfg]
  rcases DC.put E s.cfg.disk k with ⟨dbk, raw⟩
  simp only
  apply h.transact
  intro u v hu
  rw [← hu.selLive]
  split
  · sim_body
  · sim_body

/-- the result conversion of `delete` -/
def delOut : Out → Out
  | .exc "KeyError" => .bool false
  | o => o

theorem delete_eq' (s : Cache) (E : Externals) (now : Int) (k : PyVal) :
    s.delete E now k = ((s.delitem E now k).1, delOut (s.delitem E now k).2) := by
  unfold Cache.delete
  generalize s.delitem E now k = p
  rcases p with ⟨s', o⟩
  unfold delOut
  split <;> split <;> simp_all

theorem delete_sim {s t : Cache} (h : Sim s t) (E : Externals) (now : Int) (k : PyVal) :
    SimP (s.delete E now k) (t.delete E now k) := by
  have hd := delitem_sim h E now k
  rw [delete_eq', delete_eq']
  exact ⟨hd.1, by rw [hd.2]⟩

theorem push_sim {s t : Cache} (h : Sim s t) (E : Externals) (now : Int) (v : PyVal) (pfx : Option Str)
    (back : Bool) (ttl : Option Int) (read : Bool) (tag : SqlVal) :
    SimP (s.push E now v pfx back ttl read tag) (t.push E now v pfx back ttl read tag) := by
  unfold Cache.push
  rcases h.store E v read with ⟨e, e1, e2⟩ | ⟨s', t', c, e1, e2, h'⟩
  · rw [e1, e2]; exact ⟨h, rfl⟩
  · rw [e1, e2]
    simp only
    apply h'.transact
    intro u v hu
    have hl := hu.logSql "selQueueEnd" "selQueueEnd"
    rw [← hu.queueRows, ← hl.cfg]
    split
    · sim_body
    · rw [← hl.selKey]
      split
      · sim_body
      · split
        · sim_body
        · sim_body

/-! ### loops -/

theorem pullLoop_sim (E : Externals) (now : Int) (pfx : Option Str) (front et tg : Bool) :
    ∀ (fuel : Nat) {s t : Cache}, Sim s t →
      SimP (pullLoop E now pfx front et tg fuel s) (pullLoop E now pfx front et tg fuel t) := by
  intro fuel
  induction fuel with
  | zero => intro s t h; exact ⟨h, rfl⟩
  | succ n ih =>
    intro s t h
    simp only [pullLoop]
    rw [← h.queueRows]
    split
    · exact ⟨h.tx_sel _, rfl⟩
    · rename_i r _
      split
      · exact ih (h.tx_del _ _ _)
      · have hf := (h.tx_del "selQueueHead" r.rowid []).fetchRow E r false
        rw [← hf.2]
        split
        · exact ih (hf.1.removeCommitted _)
        · exact ⟨hf.1.removeCommitted _, rfl⟩

theorem peekLoop_sim (E : Externals) (now : Int) (pfx : Option Str) (front et tg : Bool) :
    ∀ (fuel : Nat) {s t : Cache}, Sim s t →
      SimP (peekLoop E now pfx front et tg fuel s) (peekLoop E now pfx front et tg fuel t) := by
  intro fuel
  induction fuel with
  | zero => intro s t h; exact ⟨h, rfl⟩
  | succ n ih =>
    intro s t h
    simp only [peekLoop]
    rw [← h.queueRows]
    split
    · exact ⟨h.tx_sel _, rfl⟩
    · rename_i r _
      split
      · exact ih (h.tx_del _ _ _)
      · have hf := (h.tx_sel "selQueueHead").fetchRow E r false
        rw [← hf.2]
        split
        · exact ih hf.1
        · exact ⟨hf.1, rfl⟩

theorem peekitemLoop_sim (E : Externals) (now : Int) (last et tg : Bool) :
    ∀ (fuel : Nat) {s t : Cache}, Sim s t →
      SimP (peekitemLoop E now last et tg fuel s) (peekitemLoop E now last et tg fuel t) := by
  intro fuel
  induction fuel with
  | zero => intro s t h; exact ⟨h, rfl⟩
  | succ n ih =>
    intro s t h
    simp only [peekitemLoop]
    rw [← h.rows]
    split
    · apply h.transact
      intro u v hu
      sim_body
    · rename_i r _
      split
      · exact ih (h.tx_del _ _ _)
      · have hf := (h.tx_sel "selEdge").fetchRow E r false
        rw [← hf.2]
        split
        · exact ih hf.1
        · refine ⟨hf.1, ?_⟩
          simp only [fetchRow_cfg, ← (h.tx_sel "selEdge").cfg]

theorem Sim.deletePage {s t : Cache} (h : Sim s t) (page : List Row) (sel : String) :
    Sim (s.deletePage page sel) (t.deletePage page sel) := by
  rw [deletePage_eq, deletePage_eq]
  apply h.transact₁
  intro u v hu
  unfold pageBody
  simp only
  split
  · sim_body
  · sim_body

theorem clearLoop_sim : ∀ (fuel : Nat) {s t : Cache} (cur n : Nat), Sim s t →
    SimP (clearLoop fuel s cur n) (clearLoop fuel t cur n) := by
  intro fuel
  induction fuel with
  | zero => intro s t cur n h; exact ⟨h, rfl⟩
  | succ k ih =>
    intro s t cur n h
    simp only [clearLoop]
    rw [← h.rows, ← h.cfg]
    split
    · exact ⟨h.deletePage _ _, rfl⟩
    · exact ih _ _ (h.deletePage _ _)

theorem evictLoop_sim (tag : SqlVal) : ∀ (fuel : Nat) {s t : Cache} (cur n : Nat), Sim s t →
    SimP (evictLoop tag fuel s cur n) (evictLoop tag fuel t cur n) := by
  intro fuel
  induction fuel with
  | zero => intro s t cur n h; exact ⟨h, rfl⟩
  | succ k ih =>
    intro s t cur n h
    simp only [evictLoop]
    rw [← h.rows, ← h.cfg]
    split
    · exact ⟨h.deletePage _ _, rfl⟩
    · exact ih _ _ (h.deletePage _ _)

theorem expireLoop_sim (now : Int) : ∀ (fuel : Nat) {s t : Cache} (lo : Option Int) (n : Nat), Sim s t →
    SimP (expireLoop now fuel s lo n) (expireLoop now fuel t lo n) := by
  intro fuel
  induction fuel with
  | zero => intro s t lo n h; exact ⟨h, rfl⟩
  | succ k ih =>
    intro s t lo n h
    simp only [expireLoop]
    rw [← h.rows, ← h.cfg]
    split
    · exact ⟨h.deletePage _ _, rfl⟩
    · exact ih _ _ (h.deletePage _ _)

theorem cullLoop_sim : ∀ (fuel : Nat) {s t : Cache} (n : Nat), Sim s t →
    SimP (cullLoop fuel s n) (cullLoop fuel t n) := by
  intro fuel
  induction fuel with
  | zero => intro s t n h; exact ⟨h, rfl⟩
  | succ k ih =>
    intro s t n h
    rw [cullLoop_succ, cullLoop_succ]
    have hv := h.volume
    rw [← hv.2, ← hv.1.cfg, ← hv.1.selPolicy]
    split
    · exact ⟨hv.1, rfl⟩
    · split
      · unfold cullEmpty
        exact ⟨hv.1.tx_sel _, rfl⟩
      · apply ih
        unfold cullStep
        sim_auto

theorem iterLoop_sim (asc : Bool) (bound : Nat) :
    ∀ (fuel : Nat) {s t : Cache} (cur : Nat) (acc : List Row), Sim s t →
    SimP (iterLoop asc bound fuel s cur acc) (iterLoop asc bound fuel t cur acc) := by
  intro fuel
  induction fuel with
  | zero => intro s t cur acc h; exact ⟨h, rfl⟩
  | succ k ih =>
    intro s t cur acc h
    simp only [iterLoop]
    rw [← h.rows, ← h.cfg]
    split
    · exact ⟨h.logSql _ _, rfl⟩
    · exact ih _ _ (h.logSql _ _)

theorem iterkeysLoop_sim (rev : Bool) :
    ∀ (fuel : Nat) {s t : Cache} (cur : Row) (acc : List Row), Sim s t →
    SimP (iterkeysLoop rev fuel s cur acc) (iterkeysLoop rev fuel t cur acc) := by
  intro fuel
  induction fuel with
  | zero => intro s t cur acc h; exact ⟨h, rfl⟩
  | succ k ih =>
    intro s t cur acc h
    simp only [iterkeysLoop]
    rw [← h.rows, ← h.cfg]
    split
    · exact ⟨h.logSql _ _, rfl⟩
    · exact ih _ _ (h.logSql _ _)

/-! ### methods built on the loops, counters -/

theorem cull_sim {s t : Cache} (h : Sim s t) (now : Int) : SimP (s.cull now) (t.cull now) := by
  rw [cull_eq, cull_eq, ← h.rows]
  have he := expireLoop_sim now (s.rows.length + 1) none 0 h
  rw [← he.1.cfg, ← he.1.rows, ← he.2]
  split
  · exact ⟨he.1, rfl⟩
  · have hc := cullLoop_sim ((expireLoop now (s.rows.length + 1) s none 0).1.rows.length + 1)
      (expireLoop now (s.rows.length + 1) s none 0).2 he.1
    exact ⟨hc.1, by rw [hc.2]⟩

theorem iter_sim {s t : Cache} (h : Sim s t) (E : Externals) (asc : Bool) :
    SimP (s.iter E asc) (t.iter E asc) := by
  unfold Cache.iter
  have h0 := h.logSql "maxRowid" "maxRowid"
  dsimp only
  rw [← h0.rows]
  split
  · exact ⟨h0, rfl⟩
  · have hl := iterLoop_sim asc (maxRowid (s.logSql "maxRowid").rows + 1) ((s.logSql "maxRowid").rows.length + 1)
      (if asc then 0 else maxRowid (s.logSql "maxRowid").rows + 1) [] h0
    exact ⟨hl.1, by rw [← hl.2, ← hl.1.cfg]⟩

theorem iterkeys_sim {s t : Cache} (h : Sim s t) (E : Externals) (rev : Bool) :
    SimP (s.iterkeys E rev) (t.iterkeys E rev) := by
  unfold Cache.iterkeys
  have h0 := h.logSql "firstKey" "firstKey"
  dsimp only
  rw [← h.rows]
  split
  · exact ⟨h0, rfl⟩
  · rename_i r0 _
    have hl := iterkeysLoop_sim rev ((s.logSql "firstKey").rows.length + 1) r0 [r0] h0
    rw [← h0.rows]
    exact ⟨hl.1, by rw [← hl.2, ← hl.1.cfg]⟩

theorem stats_sim {s t : Cache} (h : Sim s t) (enable reset : Bool) :
    SimP (s.stats enable reset) (t.stats enable reset) := by
  unfold Cache.stats
  refine ⟨?_, by simp only [h.hits, h.misses]⟩
  simp only
  split
  · sim_fields h [Cache.logSql, Cache.log]
  · sim_fields h [Cache.logSql, Cache.log]

/-- `handle_independent` in terms of `Sim` -/
theorem step_sim {s t : Cache} (h : Sim s t) (op : Op) (hf : op.flat = true) :
    SimP (s.step op) (t.step op) := by
  cases op with
  | set E now k v ttl read tag => exact set_sim h E now k v ttl read tag
  | add E now k v ttl read tag => exact add_sim h E now k v ttl read tag
  | touch E now k ttl => exact touch_sim h E now k ttl
  | incr E now k delta dflt => exact incr_sim h E now k delta dflt
  | get E now k read et tg => exact get_sim h E now k read et tg
  | contains E now k => exact contains_sim h E now k
  | pop E now k et tg => exact pop_sim h E now k et tg
  | delitem E now k => exact delitem_sim h E now k
  | delete E now k => exact delete_sim h E now k
  | push E now v pfx back ttl read tag => exact push_sim h E now v pfx back ttl read tag
  | pull E now pfx front et tg =>
    show SimP (pullLoop E now pfx front et tg (s.rows.length + 1) s)
      (pullLoop E now pfx front et tg (t.rows.length + 1) t)
    rw [← h.rows]
    exact pullLoop_sim E now pfx front et tg _ h
  | peek E now pfx front et tg =>
    show SimP (peekLoop E now pfx front et tg (s.rows.length + 1) s)
      (peekLoop E now pfx front et tg (t.rows.length + 1) t)
    rw [← h.rows]
    exact peekLoop_sim E now pfx front et tg _ h
  | peekitem E now last et tg =>
    show SimP (peekitemLoop E now last et tg (s.rows.length + 1) s)
      (peekitemLoop E now last et tg (t.rows.length + 1) t)
    rw [← h.rows]
    exact peekitemLoop_sim E now last et tg _ h
  | clear =>
    have hl := clearLoop_sim (s.rows.length + 1) 0 0 h
    show SimP ((clearLoop (s.rows.length + 1) s 0 0).1, Out.int (clearLoop (s.rows.length + 1) s 0 0).2)
      ((clearLoop (t.rows.length + 1) t 0 0).1, Out.int (clearLoop (t.rows.length + 1) t 0 0).2)
    rw [← h.rows]
    exact ⟨hl.1, by rw [hl.2]⟩
  | evict tag =>
    have hl := evictLoop_sim tag (s.rows.length + 1) 0 0 h
    show SimP ((evictLoop tag (s.rows.length + 1) s 0 0).1, Out.int (evictLoop tag (s.rows.length + 1) s 0 0).2)
      ((evictLoop tag (t.rows.length + 1) t 0 0).1, Out.int (evictLoop tag (t.rows.length + 1) t 0 0).2)
    rw [← h.rows]
    exact ⟨hl.1, by rw [hl.2]⟩
  | expire now =>
    have hl := expireLoop_sim now (s.rows.length + 1) none 0 h
    show SimP ((expireLoop now (s.rows.length + 1) s none 0).1,
        Out.int (expireLoop now (s.rows.length + 1) s none 0).2)
      ((expireLoop now (t.rows.length + 1) t none 0).1, Out.int (expireLoop now (t.rows.length + 1) t none 0).2)
    rw [← h.rows]
    exact ⟨hl.1, by rw [hl.2]⟩
  | cull now => exact cull_sim h now
  | iter E asc => exact iter_sim h E asc
  | iterkeys E rev => exact iterkeys_sim h E rev
  | len => exact ⟨h.logSql _ _, by show Out.int s.count = Out.int t.count; rw [h.count]⟩
  | stats enable reset => exact stats_sim h enable reset
  | tbegin => cases hf
  | tend => cases hf
  | traise n => cases hf
  | observe env =>
    refine ⟨?_, rfl⟩
    show Sim { s with env := env, envMiss := false } { t with env := env, envMiss := false }
    sim_fields0 h

end DC.Cache
