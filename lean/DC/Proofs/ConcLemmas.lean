/- helper lemmas for the locking protocol (C05, C06, C07, C08, C14) -/
import DC.Model.Conc

namespace DC.Conc

end DC.Conc
