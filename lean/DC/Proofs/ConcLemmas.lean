/- helper lemmas for the locking protocol (C05, C06, C07, C08, C14) -/
import DC.Model.Conc

namespace DC.Conc

variable {DB Res : Type}

/-! ### replay -/

theorem replay_cons (db0 : DB) (e : Entry DB Res) (l : List (Entry DB Res)) :
    replay db0 (e :: l) = replay (applyEntry db0 e).1 l := by
  simp [replay]

theorem replay_append (db0 : DB) (l : List (Entry DB Res)) (e : Entry DB Res) :
    replay db0 (l ++ [e]) = (applyEntry (replay db0 l) e).1 := by
  simp [replay, List.foldl_append]

theorem replayRes_append (db0 : DB) (l : List (Entry DB Res)) (e : Entry DB Res) :
    replayRes db0 (l ++ [e]) = replayRes db0 l ++ [(applyEntry (replay db0 l) e).2] := by
  induction l generalizing db0 with
  | nil => simp [replayRes, replay]
  | cons a l ih => simp [replayRes, replay_cons, ih]

theorem applyEntry_read (db : DB) (cid : Nat) (g : DB → Res) (f : Option FName) (r : Res) :
    applyEntry db (⟨cid, .read g, f, r⟩ : Entry DB Res) = (db, g db) := rfl

theorem applyEntry_txn (db : DB) (cid : Nat) (fr rt : Bool) (b : Body DB Res) (f : Option FName)
    (r0 : Res) (w : DB) (r : Res) (ok : Bool) (cl : List FName) (hb : b.run db f = (w, r, ok, cl)) :
    applyEntry db (⟨cid, .txn fr rt b, f, r0⟩ : Entry DB Res) = (if ok then w else db, r) := by
  simp [applyEntry, hb]

/-! ### the protocol invariant -/

/-- result already logged but not yet appended to `results` -/
def pending : Pc DB Res → List Res
  | .cleaning r _ => [r]
  | .undo (some r) _ => [r]
  | _ => []

def InvLog (db0 : DB) (s : Sys DB Res) : Prop :=
  s.db = replay db0 s.log ∧ s.log.map (·.res) = replayRes db0 s.log

def InvBegun (s : Sys DB Res) : Prop :=
  ∀ (i : Nat) (c : Client DB Res) (f : Option FName) (w : DB),
    s.clients[i]? = some c → c.pc = .begun f w →
      s.lock = some i ∧ w = s.db ∧ ∃ fr rt b rest, c.prog = Op.txn fr rt b :: rest

def InvRan (s : Sys DB Res) : Prop :=
  ∀ (i : Nat) (c : Client DB Res) (f : Option FName) (w : DB) (r : Res) (ok : Bool)
    (cl : List FName), s.clients[i]? = some c → c.pc = .ran f w r ok cl →
      s.lock = some i ∧ ∃ fr rt b rest, c.prog = Op.txn fr rt b :: rest ∧
        b.run s.db f = (w, r, ok, cl)

def InvHeld (s : Sys DB Res) : Prop :=
  ∀ (i : Nat), s.lock = some i → ∃ c, s.clients[i]? = some c ∧
    ((∃ f w, c.pc = Pc.begun f w) ∨ (∃ f w r ok cl, c.pc = Pc.ran f w r ok cl))

structure Inv (db0 : DB) (s : Sys DB Res) : Prop where
  hlog : InvLog db0 s
  begun : InvBegun s
  ran : InvRan s
  held : InvHeld s

theorem Inv.hdb {db0 : DB} {s : Sys DB Res} (h : Inv db0 s) : s.db = replay db0 s.log := h.hlog.1

theorem Inv.hres {db0 : DB} {s : Sys DB Res} (h : Inv db0 s) :
    s.log.map (·.res) = replayRes db0 s.log := h.hlog.2

/-! ### a case view of `step` -/

theorem getElem?_set_cases {α : Type} {l : List α} {i j : Nat} {a b : α}
    (h : (l.set i a)[j]? = some b) : (j = i ∧ b = a) ∨ (j ≠ i ∧ l[j]? = some b) := by
  by_cases hji : j = i
  · left
    subst hji
    refine ⟨rfl, ?_⟩
    rw [List.getElem?_set] at h
    simp at h
    exact h.2.symm
  · right
    refine ⟨hji, ?_⟩
    rw [List.getElem?_set_ne (by omega)] at h
    exact h

/-- the effective micro-steps of client `cid`, currently `c` -/
inductive Step (s : Sys DB Res) (cid : Nat) (c : Client DB Res) : Sys DB Res → Prop
  | read (g : DB → Res) (rest : List (Op DB Res)) :
      c.pc = .idle → c.prog = .read g :: rest →
      Step s cid c { s with clients := s.clients.set cid (finish c (some (g s.db))),
                            log := s.log ++ [⟨cid, .read g, none, g s.db⟩] }
  | write (rt : Bool) (b : Body DB Res) (rest : List (Op DB Res)) :
      c.pc = .idle → c.prog = .txn true rt b :: rest →
      Step s cid c { s with clients := s.clients.set cid { c with pc := .wrote s.nextFile },
                            files := s.nextFile :: s.files, nextFile := s.nextFile + 1 }
  | begin0 (rt : Bool) (b : Body DB Res) (rest : List (Op DB Res)) :
      c.pc = .idle → c.prog = .txn false rt b :: rest → s.lock = none →
      Step s cid c { s with clients := s.clients.set cid { c with pc := .begun none s.db },
                            lock := some cid }
  | begin1 (f : FName) (fr rt : Bool) (b : Body DB Res) (rest : List (Op DB Res)) :
      c.pc = .wrote f → c.prog = .txn fr rt b :: rest → s.lock = none →
      Step s cid c { s with clients := s.clients.set cid { c with pc := .begun (some f) s.db },
                            lock := some cid }
  | timeout0 (b : Body DB Res) (rest : List (Op DB Res)) (other : Nat) :
      c.pc = .idle → c.prog = .txn false false b :: rest → s.lock = some other →
      Step s cid c { s with clients := s.clients.set cid (finish c none) }
  | timeout1 (f : FName) (fr : Bool) (b : Body DB Res) (rest : List (Op DB Res)) (other : Nat) :
      c.pc = .wrote f → c.prog = .txn fr false b :: rest → s.lock = some other →
      Step s cid c { s with clients := s.clients.set cid { c with pc := .undo none (some f) } }
  | body (f : Option FName) (w : DB) (fr rt : Bool) (b : Body DB Res) (rest : List (Op DB Res))
      (w' : DB) (r : Res) (ok : Bool) (cl : List FName) :
      c.pc = .begun f w → c.prog = .txn fr rt b :: rest → b.run w f = (w', r, ok, cl) →
      Step s cid c { s with clients := s.clients.set cid { c with pc := .ran f w' r ok cl } }
  | commit (f : Option FName) (w : DB) (r : Res) (cl : List FName) (op : Op DB Res)
      (rest : List (Op DB Res)) :
      c.pc = .ran f w r true cl → c.prog = op :: rest →
      Step s cid c { s with clients := s.clients.set cid { c with pc := .cleaning r cl },
                            db := w, lock := none, log := s.log ++ [⟨cid, op, f, r⟩] }
  | rollback (f : Option FName) (w : DB) (r : Res) (cl : List FName) (op : Op DB Res)
      (rest : List (Op DB Res)) :
      c.pc = .ran f w r false cl → c.prog = op :: rest →
      Step s cid c { s with clients := s.clients.set cid { c with pc := .undo (some r) f },
                            lock := none, log := s.log ++ [⟨cid, op, f, r⟩] }
  | clean (r : Res) (x : FName) (cl : List FName) :
      c.pc = .cleaning r (x :: cl) →
      Step s cid c { s with clients := s.clients.set cid { c with pc := .cleaning r cl },
                            files := s.files.filter (· != x) }
  | cleaned (r : Res) :
      c.pc = .cleaning r [] →
      Step s cid c { s with clients := s.clients.set cid (finish c (some r)) }
  | unlink (r : Option Res) (f : FName) :
      c.pc = .undo r (some f) →
      Step s cid c { s with clients := s.clients.set cid { c with pc := .undo r none },
                            files := s.files.filter (· != f) }
  | undone (r : Option Res) :
      c.pc = .undo r none →
      Step s cid c { s with clients := s.clients.set cid (finish c r) }

theorem step_unlink {s : Sys DB Res} {cid : Nat} {c : Client DB Res} {r : Option Res} {f : FName}
    (hc : s.clients[cid]? = some c) (hpc : c.pc = .undo r (some f)) :
    step s cid = { (setClient s cid { c with pc := .undo r none }) with
      files := s.files.filter (· != f) } := by
  simp [step, hc, hpc]

theorem step_undone {s : Sys DB Res} {cid : Nat} {c : Client DB Res} {r : Option Res}
    (hc : s.clients[cid]? = some c) (hpc : c.pc = .undo r none) :
    step s cid = setClient s cid (finish c r) := by
  simp [step, hc, hpc]

/-- every property that survives a stutter and every effective micro-step survives `step` -/
theorem step_cases {P : Sys DB Res → Prop} (s : Sys DB Res) (cid : Nat) (h0 : P s)
    (h1 : ∀ c s', s.clients[cid]? = some c → Step s cid c s' → P s') : P (step s cid) := by
  unfold step
  split
  · exact h0
  · rename_i c hc
    split
    · exact h0
    · rename_i g rest hpc hprog
      exact h1 c _ hc (.read g rest hpc hprog)
    · rename_i rt b rest hpc hprog
      exact h1 c _ hc (.write rt b rest hpc hprog)
    · rename_i rt b rest hpc hprog
      split
      · rename_i hl
        exact h1 c _ hc (.begin0 rt b rest hpc hprog hl)
      · rename_i other hl
        split
        · exact h0
        · rename_i hrt
          simp at hrt; subst hrt
          exact h1 c _ hc (.timeout0 b rest other hpc hprog hl)
    · rename_i f fr rt b rest hpc hprog
      split
      · rename_i hl
        exact h1 c _ hc (.begin1 f fr rt b rest hpc hprog hl)
      · rename_i other hl
        split
        · exact h0
        · rename_i hrt
          simp at hrt; subst hrt
          exact h1 c _ hc (.timeout1 f fr b rest other hpc hprog hl)
    · rename_i f w fr rt b rest hpc hprog
      rcases hb : b.run w f with ⟨w', r, ok, cl⟩
      exact h1 c _ hc (.body f w fr rt b rest w' r ok cl hpc hprog hb)
    · rename_i f w r cl op rest hpc hprog
      exact h1 c _ hc (.commit f w r cl op rest hpc hprog)
    · rename_i f w r cl op rest hpc hprog
      exact h1 c _ hc (.rollback f w r cl op rest hpc hprog)
    · rename_i r x cl hpc
      exact h1 c _ hc (.clean r x cl hpc)
    · rename_i r hpc
      exact h1 c _ hc (.cleaned r hpc)
    · rename_i r f hpc
      exact h1 c _ hc (.unlink r f hpc)
    · rename_i r hpc
      exact h1 c _ hc (.undone r hpc)
    · exact h0

theorem Inv_step_log {db0 : DB} {s : Sys DB Res} (h : Inv db0 s) (cid : Nat) :
    InvLog db0 (step s cid) := by
  apply step_cases s cid ⟨h.hdb, h.hres⟩
  intro c s' hc hs
  have hRc := h.ran cid c
  cases hs
  case read g rest hpc hprog =>
    simp [InvLog, replay_append, replayRes_append, ← h.hdb, h.hres, applyEntry_read]
  case commit f w r cl op rest hpc hprog =>
    obtain ⟨hl, fr, rt, b, rest', hp', hb⟩ := hRc f w r _ cl hc hpc
    rw [hprog] at hp'
    obtain ⟨rfl, rfl⟩ := List.cons.inj hp'
    simp [InvLog, replay_append, replayRes_append, ← h.hdb, h.hres,
      applyEntry_txn _ _ _ _ _ _ _ _ _ _ _ hb]
  case rollback f w r cl op rest hpc hprog =>
    obtain ⟨hl, fr, rt, b, rest', hp', hb⟩ := hRc f w r _ cl hc hpc
    rw [hprog] at hp'
    obtain ⟨rfl, rfl⟩ := List.cons.inj hp'
    simp [InvLog, replay_append, replayRes_append, ← h.hdb, h.hres,
      applyEntry_txn _ _ _ _ _ _ _ _ _ _ _ hb]
  all_goals exact ⟨h.hdb, h.hres⟩

theorem Inv_step_begun {db0 : DB} {s : Sys DB Res} (h : Inv db0 s) (cid : Nat) :
    InvBegun (step s cid) := by
  apply step_cases s cid h.begun
  intro c s' hc hs
  have hB := h.begun
  have hR := h.ran
  have hBc := h.begun cid c
  have hRc := h.ran cid c
  simp only [InvBegun, InvRan] at hB hR ⊢
  cases hs
  all_goals (simp only []; grind [getElem?_set_cases, finish])

theorem Inv_step_ran {db0 : DB} {s : Sys DB Res} (h : Inv db0 s) (cid : Nat) :
    InvRan (step s cid) := by
  apply step_cases s cid h.ran
  intro c s' hc hs
  have hB := h.begun
  have hR := h.ran
  have hBc := h.begun cid c
  have hRc := h.ran cid c
  simp only [InvBegun, InvRan] at hB hR ⊢
  cases hs
  all_goals (simp only []; grind [getElem?_set_cases, finish])

theorem Inv_step_held {db0 : DB} {s : Sys DB Res} (h : Inv db0 s) (cid : Nat) :
    InvHeld (step s cid) := by
  apply step_cases s cid h.held
  intro c s' hc hs
  have hH := h.held
  have hlen : cid < s.clients.length := (List.getElem?_eq_some_iff.1 hc).1
  simp only [InvHeld] at hH ⊢
  cases hs
  case begin0 =>
    intro i hi
    simp only [Option.some.injEq] at hi
    subst hi
    refine ⟨_, List.getElem?_set_self hlen, Or.inl ⟨_, _, rfl⟩⟩
  case begin1 =>
    intro i hi
    simp only [Option.some.injEq] at hi
    subst hi
    refine ⟨_, List.getElem?_set_self hlen, Or.inl ⟨_, _, rfl⟩⟩
  all_goals (simp only []; grind [finish])

theorem Inv_step {db0 : DB} {s : Sys DB Res} (h : Inv db0 s) (cid : Nat) :
    Inv db0 (step s cid) :=
  ⟨Inv_step_log h cid, Inv_step_begun h cid, Inv_step_ran h cid,
    Inv_step_held h cid⟩

theorem Inv_init {s : Sys DB Res} (hl : s.lock = none) (hlog : s.log = [])
    (hidle : ∀ c ∈ s.clients, c.pc = Pc.idle ∧ c.results = []) : Inv s.db s := by
  refine ⟨by simp [InvLog, hlog, replay, replayRes], ?_, ?_, by simp [InvHeld, hl]⟩
  · intro i c f w hi hpc
    have := (hidle c (List.mem_of_getElem? hi)).1
    simp [this] at hpc
  · intro i c f w r ok cl hi hpc
    have := (hidle c (List.mem_of_getElem? hi)).1
    simp [this] at hpc

theorem Inv_run {db0 : DB} {s : Sys DB Res} (h : Inv db0 s) (sched : List Nat) :
    Inv db0 (run s sched) := by
  induction sched generalizing s with
  | nil => exact h
  | cons a l ih => exact ih (Inv_step h a)

theorem Inv_crash {db0 : DB} {s : Sys DB Res} (h : Inv db0 s) (victim : Nat) :
    Inv db0 (crash s victim) := by
  have hB := h.begun
  have hR := h.ran
  have hH := h.held
  unfold crash
  split
  · exact h
  · rename_i c hc
    have hlen : victim < s.clients.length := (List.getElem?_eq_some_iff.1 hc).1
    simp only [InvBegun, InvRan, InvHeld] at hB hR hH
    refine ⟨h.hlog, ?_, ?_, ?_⟩
    all_goals (simp only [setClient, InvBegun, InvRan, InvHeld]; grind [getElem?_set_cases])

theorem crash_lock {db0 : DB} {s : Sys DB Res} (h : Inv db0 s) (victim : Nat) :
    (crash s victim).lock ≠ some victim := by
  unfold crash
  split
  · rename_i hc
    intro hl
    obtain ⟨c, hc', _⟩ := h.held victim hl
    simp [hc'] at hc
  · simp only []
    split <;> simp_all

/-! ### results -/

def ResInv (s : Sys DB Res) : Prop :=
  ∀ (i : Nat) (c : Client DB Res), s.clients[i]? = some c →
    c.results.filterMap id ++ pending c.pc = (s.log.filter (fun e => e.cid == i)).map (·.res)

theorem ResInv_step {s : Sys DB Res} (h : ResInv s) (cid : Nat) : ResInv (step s cid) := by
  apply step_cases s cid h
  intro c s' hc hs
  have hcid := h cid c hc
  cases hs
  case unlink r f hpc =>
    intro i ci hi
    rcases getElem?_set_cases hi with ⟨rfl, rfl⟩ | ⟨hne, hi'⟩
    · cases r <;> simp_all [pending]
    · exact h i ci hi'
  case undone r hpc =>
    intro i ci hi
    rcases getElem?_set_cases hi with ⟨rfl, rfl⟩ | ⟨hne, hi'⟩
    · cases r <;> simp_all [pending, finish, List.filterMap_append]
    · exact h i ci hi'
  all_goals
    intro i ci hi
    rcases getElem?_set_cases hi with ⟨rfl, rfl⟩ | ⟨hne, hi'⟩
    · simp_all [pending, finish, List.filter_append, List.filterMap_append]
    · have := h i ci hi'
      have hne' : ¬ cid = i := fun e => hne e.symm
      simp_all [pending, finish, List.filter_append]

theorem ResInv_run {s : Sys DB Res} (h : ResInv s) (sched : List Nat) : ResInv (run s sched) := by
  induction sched generalizing s with
  | nil => exact h
  | cons a l ih => exact ih (ResInv_step h a)

theorem ResInv_init {s : Sys DB Res} (hlog : s.log = [])
    (hidle : ∀ c ∈ s.clients, c.pc = Pc.idle ∧ c.results = []) : ResInv s := by
  intro i c hi
  have := hidle c (List.mem_of_getElem? hi)
  simp [this, hlog, pending]

/-! ### value files -/

/-- copy of `BodyOk` of C05 (which is defined downstream) -/
def BodySafe (refs : DB → List FName) (b : Body DB Res) : Prop :=
  ∀ db f w r ok cl, b.run db f = (w, r, ok, cl) → ok = true →
    (∀ x ∈ refs w, x ∈ refs db ∨ some x = f) ∧ (∀ x ∈ cl, x ∉ refs w) ∧
    (∀ x ∈ cl, x ∈ refs db ∨ some x = f)

def ProgsSafe (refs : DB → List FName) (s : Sys DB Res) : Prop :=
  ∀ c ∈ s.clients, ∀ fr rt b, Op.txn fr rt b ∈ c.prog → BodySafe refs b

/-- the fresh value file a client has written and not yet published or removed -/
def freshOf : Pc DB Res → Option FName
  | .wrote f => some f
  | .begun f _ => f
  | .ran f _ _ _ _ => f
  | .undo _ f => f
  | _ => none

/-- the files a client is still going to remove after its COMMIT -/
def cleanOf : Pc DB Res → List FName
  | .cleaning _ cl => cl
  | _ => []

def FLt (s : Sys DB Res) : Prop := ∀ x ∈ s.files, x < s.nextFile

def FRefd (refs : DB → List FName) (s : Sys DB Res) : Prop := ∀ x ∈ refs s.db, x ∈ s.files

def FFresh (refs : DB → List FName) (s : Sys DB Res) : Prop :=
  ∀ (i : Nat) (c : Client DB Res) (f : FName), s.clients[i]? = some c → freshOf c.pc = some f →
    f ∈ s.files ∧ f ∉ refs s.db

def FDistinct (s : Sys DB Res) : Prop :=
  ∀ (i j : Nat) (ci cj : Client DB Res) (f : FName), s.clients[i]? = some ci →
    s.clients[j]? = some cj → i ≠ j → freshOf ci.pc = some f →
      freshOf cj.pc ≠ some f ∧ f ∉ cleanOf cj.pc

def FClean (refs : DB → List FName) (s : Sys DB Res) : Prop :=
  ∀ (i : Nat) (c : Client DB Res) (x : FName), s.clients[i]? = some c → x ∈ cleanOf c.pc →
    x ∉ refs s.db ∧ x < s.nextFile

structure FInv (refs : DB → List FName) (s : Sys DB Res) : Prop where
  progs : ProgsSafe refs s
  lt : FLt s
  refd : FRefd refs s
  fresh : FFresh refs s
  distinct : FDistinct s
  clean : FClean refs s

theorem commit_facts {refs : DB → List FName} {db0 : DB} {s : Sys DB Res} (hI : Inv db0 s)
    (hp : ProgsSafe refs s) {cid : Nat} {c : Client DB Res} {f : Option FName} {w : DB} {r : Res}
    {cl : List FName} (hc : s.clients[cid]? = some c) (hpc : c.pc = .ran f w r true cl) :
    (∀ x ∈ refs w, x ∈ refs s.db ∨ some x = f) ∧ (∀ x ∈ cl, x ∉ refs w) ∧
    (∀ x ∈ cl, x ∈ refs s.db ∨ some x = f) := by
  obtain ⟨_, fr, rt, b, rest', hp', hb⟩ := hI.ran cid c f w r true cl hc hpc
  have hbs : BodySafe refs b :=
    hp c (List.mem_of_getElem? hc) fr rt b (by rw [hp']; exact List.mem_cons_self)
  exact hbs _ _ _ _ _ _ hb rfl

theorem ProgsSafe_step {refs : DB → List FName} {s : Sys DB Res} (h : ProgsSafe refs s)
    (cid : Nat) : ProgsSafe refs (step s cid) := by
  apply step_cases s cid h
  intro c s' hc hs
  have hcm := h c (List.mem_of_getElem? hc)
  have key : ∀ c' : Client DB Res, (∀ op ∈ c'.prog, op ∈ c.prog) →
      ∀ cs db lk fl nf lg, cs = s.clients.set cid c' →
      ProgsSafe refs ({ db := db, lock := lk, clients := cs, files := fl, nextFile := nf, log := lg } : Sys DB Res) := by
    intro c' hsub cs db lk fl nf lg hcs ci hci fr rt b hm
    subst hcs
    rcases List.mem_iff_getElem?.1 hci with ⟨i, hi⟩
    rcases getElem?_set_cases hi with ⟨_, rfl⟩ | ⟨_, hi'⟩
    · exact hcm fr rt b (hsub _ hm)
    · exact h ci (List.mem_of_getElem? hi') fr rt b hm
  cases hs
  all_goals
    apply key _ _ _ _ _ _ _ _ rfl
    intro op hop
    first
      | exact hop
      | exact List.mem_of_mem_tail hop

theorem FLt_step {refs : DB → List FName} {s : Sys DB Res} (h : FInv refs s) (cid : Nat) :
    FLt (step s cid) := by
  apply step_cases s cid h.lt
  intro c s' hc hs
  have hlt := h.lt
  simp only [FLt] at hlt ⊢
  cases hs
  all_goals (simp only []; grind)

theorem FRefd_step {refs : DB → List FName} {db0 : DB} {s : Sys DB Res} (hI : Inv db0 s)
    (h : FInv refs s) (cid : Nat) : FRefd refs (step s cid) := by
  apply step_cases s cid h.refd
  intro c s' hc hs
  have hlt := h.lt
  have hrefd := h.refd
  have hfresh := h.fresh cid c
  have hclean := h.clean cid c
  simp only [FLt, FRefd] at hlt hrefd ⊢
  cases hs
  case commit f w r cl op rest hpc hprog =>
    obtain ⟨hA, hB, hC⟩ := commit_facts hI h.progs hc hpc
    simp only [hpc, freshOf, cleanOf] at hfresh hclean
    simp only []
    grind
  all_goals (simp only []; simp_all only [freshOf, cleanOf]; grind)

theorem set_proj {l : List (Client DB Res)} {cid i : Nat} {c c' ci : Client DB Res}
    (hc : l[cid]? = some c) (hi : (l.set cid c')[i]? = some ci) :
    ∃ ci0, l[i]? = some ci0 ∧ ((i = cid ∧ ci0 = c ∧ ci = c') ∨ (i ≠ cid ∧ ci0 = ci)) := by
  rcases getElem?_set_cases hi with ⟨rfl, rfl⟩ | ⟨hne, hi'⟩
  · exact ⟨c, hc, Or.inl ⟨rfl, rfl, rfl⟩⟩
  · exact ⟨ci, hi', Or.inr ⟨hne, rfl⟩⟩

/-- a step that changes neither the database nor the files, and does not extend the client's
fresh / cleanup names -/
theorem F_frame {refs : DB → List FName} {s : Sys DB Res} {cid : Nat} {c c' : Client DB Res}
    (hc : s.clients[cid]? = some c) (hf : ∀ f, freshOf c'.pc = some f → freshOf c.pc = some f)
    (hcl : ∀ x, x ∈ cleanOf c'.pc → x ∈ cleanOf c.pc) (lk : Option Nat)
    (lg : List (Entry DB Res)) :
    (FFresh refs s → FFresh refs { s with clients := s.clients.set cid c', lock := lk, log := lg }) ∧
    (FDistinct s → FDistinct { s with clients := s.clients.set cid c', lock := lk, log := lg }) ∧
    (FClean refs s → FClean refs { s with clients := s.clients.set cid c', lock := lk, log := lg }) := by
  have key : ∀ (i : Nat) (ci : Client DB Res), (s.clients.set cid c')[i]? = some ci →
      ∃ ci0 : Client DB Res, s.clients[i]? = some ci0 ∧
      (∀ f, freshOf ci.pc = some f → freshOf ci0.pc = some f) ∧
      (∀ x, x ∈ cleanOf ci.pc → x ∈ cleanOf ci0.pc) := by
    intro i ci hi
    obtain ⟨ci0, hi0, ⟨_, rfl, rfl⟩ | ⟨_, rfl⟩⟩ := set_proj hc hi
    · exact ⟨_, hi0, hf, hcl⟩
    · exact ⟨_, hi0, fun _ h => h, fun _ h => h⟩
  refine ⟨?_, ?_, ?_⟩
  · intro h i ci f hi hfi
    obtain ⟨ci0, hi0, e1, e2⟩ := key i ci hi
    exact h i ci0 f hi0 (e1 f hfi)
  · intro h i j ci cj f hi hj hne hfi
    obtain ⟨ci0, hi0, e1, e2⟩ := key i ci hi
    obtain ⟨cj0, hj0, e3, e4⟩ := key j cj hj
    have := h i j ci0 cj0 f hi0 hj0 hne (e1 f hfi)
    exact ⟨fun e => this.1 (e3 f e), fun e => this.2 (e4 f e)⟩
  · intro h i ci x hi hx
    obtain ⟨ci0, hi0, e1, e2⟩ := key i ci hi
    exact h i ci0 x hi0 (e2 x hx)

theorem FFresh_step {refs : DB → List FName} {db0 : DB} {s : Sys DB Res} (hI : Inv db0 s)
    (h : FInv refs s) (cid : Nat) : FFresh refs (step s cid) := by
  apply step_cases s cid h.fresh
  intro c s' hc hs
  have hlt := h.lt
  have hrefd := h.refd
  simp only [FLt, FRefd] at hlt hrefd
  cases hs
  case write rt b rest hpc hprog =>
    intro i ci f hi hfi
    simp only [] at hi ⊢
    rcases getElem?_set_cases hi with ⟨rfl, rfl⟩ | ⟨hne, hi'⟩
    · simp only [freshOf, Option.some.injEq] at hfi
      subst hfi
      refine ⟨List.mem_cons_self, fun hm => ?_⟩
      exact Nat.lt_irrefl _ (hlt _ (hrefd _ hm))
    · have := h.fresh i ci f hi' hfi
      exact ⟨List.mem_cons_of_mem _ this.1, this.2⟩
  case commit f w r cl op rest hpc hprog =>
    obtain ⟨hA, hB, hC⟩ := commit_facts hI h.progs hc hpc
    intro i ci fi hi hfi
    simp only [] at hi ⊢
    rcases getElem?_set_cases hi with ⟨rfl, rfl⟩ | ⟨hne, hi'⟩
    · simp [freshOf] at hfi
    · have ⟨h1, h2⟩ := h.fresh i ci fi hi' hfi
      refine ⟨h1, fun hw => ?_⟩
      rcases hA fi hw with h3 | h3
      · exact h2 h3
      · have := (h.distinct i cid ci c fi hi' hc hne hfi).1
        simp only [hpc, freshOf] at this
        exact this h3.symm
  case clean r x cl hpc =>
    intro i ci fi hi hfi
    simp only [] at hi ⊢
    rcases getElem?_set_cases hi with ⟨rfl, rfl⟩ | ⟨hne, hi'⟩
    · simp [freshOf] at hfi
    · have ⟨h1, h2⟩ := h.fresh i ci fi hi' hfi
      have := (h.distinct i cid ci c fi hi' hc hne hfi).2
      simp only [hpc, cleanOf] at this
      refine ⟨?_, h2⟩
      rw [List.mem_filter]
      refine ⟨h1, ?_⟩
      simp only [bne_iff_ne, ne_eq]
      intro e; subst e
      exact this List.mem_cons_self
  case unlink r f hpc =>
    intro i ci fi hi hfi
    simp only [] at hi ⊢
    rcases getElem?_set_cases hi with ⟨rfl, rfl⟩ | ⟨hne, hi'⟩
    · simp [freshOf] at hfi
    · have ⟨h1, h2⟩ := h.fresh i ci fi hi' hfi
      have := (h.distinct i cid ci c fi hi' hc hne hfi).1
      simp only [hpc, freshOf] at this
      refine ⟨?_, h2⟩
      rw [List.mem_filter]
      refine ⟨h1, ?_⟩
      simp only [bne_iff_ne, ne_eq]
      intro e; subst e
      exact this rfl
  all_goals
    exact (F_frame hc (by rw [‹c.pc = _›]; exact fun _ h => h) (by rw [‹c.pc = _›]; exact fun _ h => h) _ _).1 h.fresh

theorem FDistinct_step {refs : DB → List FName} {db0 : DB} {s : Sys DB Res} (hI : Inv db0 s)
    (h : FInv refs s) (cid : Nat) : FDistinct (step s cid) := by
  apply step_cases s cid h.distinct
  intro c s' hc hs
  have hlt := h.lt
  have hrefd := h.refd
  simp only [FLt, FRefd] at hlt hrefd
  cases hs
  case write rt b rest hpc hprog =>
    intro i j ci cj f hi hj hij hfi
    simp only [] at hi hj ⊢
    rcases getElem?_set_cases hi with ⟨rfl, rfl⟩ | ⟨hne, hi'⟩
    · rcases getElem?_set_cases hj with ⟨rfl, rfl⟩ | ⟨hne', hj'⟩
      · exact absurd rfl hij
      · simp only [freshOf, Option.some.injEq] at hfi
        subst hfi
        refine ⟨fun e => ?_, fun e => ?_⟩
        · exact Nat.lt_irrefl _ (hlt _ (h.fresh j cj _ hj' e).1)
        · exact Nat.lt_irrefl _ (h.clean j cj _ hj' e).2
    · rcases getElem?_set_cases hj with ⟨rfl, rfl⟩ | ⟨hne', hj'⟩
      · have := hlt _ (h.fresh i ci f hi' hfi).1
        simp only [freshOf, cleanOf]
        exact ⟨fun e => by injection e with e; exact Nat.ne_of_gt this e, List.not_mem_nil⟩
      · exact h.distinct i j ci cj f hi' hj' hij hfi
  case commit f0 w r cl op rest hpc hprog =>
    obtain ⟨hA, hB, hC⟩ := commit_facts hI h.progs hc hpc
    intro i j ci cj f hi hj hij hfi
    simp only [] at hi hj ⊢
    rcases getElem?_set_cases hi with ⟨rfl, rfl⟩ | ⟨hne, hi'⟩
    · simp [freshOf] at hfi
    · rcases getElem?_set_cases hj with ⟨rfl, rfl⟩ | ⟨hne', hj'⟩
      · simp only [freshOf, cleanOf]
        refine ⟨by simp, fun hm => ?_⟩
        rcases hC f hm with h3 | h3
        · exact (h.fresh i ci f hi' hfi).2 h3
        · have := (h.distinct i j ci c f hi' hc hne hfi).1
          simp only [hpc, freshOf] at this
          exact this h3.symm
      · exact h.distinct i j ci cj f hi' hj' hij hfi
  case clean r x cl hpc =>
    intro i j ci cj f hi hj hij hfi
    simp only [] at hi hj ⊢
    rcases getElem?_set_cases hi with ⟨rfl, rfl⟩ | ⟨hne, hi'⟩
    · simp [freshOf] at hfi
    · rcases getElem?_set_cases hj with ⟨rfl, rfl⟩ | ⟨hne', hj'⟩
      · have := (h.distinct i j ci c f hi' hc hne hfi).2
        simp only [hpc, cleanOf] at this
        simp only [freshOf, cleanOf]
        exact ⟨by simp, fun hm => this (List.mem_cons_of_mem _ hm)⟩
      · exact h.distinct i j ci cj f hi' hj' hij hfi
  case unlink r f0 hpc =>
    intro i j ci cj f hi hj hij hfi
    simp only [] at hi hj ⊢
    rcases getElem?_set_cases hi with ⟨rfl, rfl⟩ | ⟨hne, hi'⟩
    · simp [freshOf] at hfi
    · rcases getElem?_set_cases hj with ⟨rfl, rfl⟩ | ⟨hne', hj'⟩
      · simp [freshOf, cleanOf]
      · exact h.distinct i j ci cj f hi' hj' hij hfi
  all_goals
    exact (F_frame (refs := refs) hc (by rw [‹c.pc = _›]; exact fun _ h => h) (by rw [‹c.pc = _›]; exact fun _ h => h) _ _).2.1
      h.distinct

theorem FClean_step {refs : DB → List FName} {db0 : DB} {s : Sys DB Res} (hI : Inv db0 s)
    (h : FInv refs s) (cid : Nat) : FClean refs (step s cid) := by
  apply step_cases s cid h.clean
  intro c s' hc hs
  have hlt := h.lt
  have hrefd := h.refd
  simp only [FLt, FRefd] at hlt hrefd
  cases hs
  case write rt b rest hpc hprog =>
    intro i ci x hi hx
    simp only [] at hi ⊢
    rcases getElem?_set_cases hi with ⟨rfl, rfl⟩ | ⟨hne, hi'⟩
    · simp [cleanOf] at hx
    · have := h.clean i ci x hi' hx
      exact ⟨this.1, Nat.lt_succ_of_lt this.2⟩
  case commit f0 w r cl op rest hpc hprog =>
    obtain ⟨hA, hB, hC⟩ := commit_facts hI h.progs hc hpc
    intro i ci x hi hx
    simp only [] at hi ⊢
    rcases getElem?_set_cases hi with ⟨rfl, rfl⟩ | ⟨hne, hi'⟩
    · simp only [cleanOf] at hx
      refine ⟨hB x hx, ?_⟩
      rcases hC x hx with h3 | h3
      · exact hlt _ (hrefd _ h3)
      · exact hlt _ (h.fresh i c x hc (by rw [hpc]; exact h3.symm)).1
    · have ⟨h1, h2⟩ := h.clean i ci x hi' hx
      refine ⟨fun hw => ?_, h2⟩
      rcases hA x hw with h3 | h3
      · exact h1 h3
      · exact (h.distinct cid i c ci x hc hi' (Ne.symm hne) (by rw [hpc]; exact h3.symm)).2 hx
  case clean r x0 cl hpc =>
    intro i ci x hi hx
    simp only [] at hi ⊢
    rcases getElem?_set_cases hi with ⟨rfl, rfl⟩ | ⟨hne, hi'⟩
    · simp only [cleanOf] at hx
      exact h.clean i c x hc (by rw [hpc]; exact List.mem_cons_of_mem _ hx)
    · exact h.clean i ci x hi' hx
  case unlink r f0 hpc =>
    intro i ci x hi hx
    simp only [] at hi ⊢
    rcases getElem?_set_cases hi with ⟨rfl, rfl⟩ | ⟨hne, hi'⟩
    · simp [cleanOf] at hx
    · exact h.clean i ci x hi' hx
  all_goals
    exact (F_frame hc (by rw [‹c.pc = _›]; exact fun _ h => h) (by rw [‹c.pc = _›]; exact fun _ h => h) _ _).2.2 h.clean

theorem FInv_step {refs : DB → List FName} {db0 : DB} {s : Sys DB Res} (hI : Inv db0 s)
    (h : FInv refs s) (cid : Nat) : FInv refs (step s cid) :=
  ⟨ProgsSafe_step h.progs cid, FLt_step h cid, FRefd_step hI h cid, FFresh_step hI h cid,
    FDistinct_step hI h cid, FClean_step hI h cid⟩

theorem FInv_run {refs : DB → List FName} {db0 : DB} {s : Sys DB Res} (hI : Inv db0 s)
    (h : FInv refs s) (sched : List Nat) : FInv refs (run s sched) := by
  induction sched generalizing s with
  | nil => exact h
  | cons a l ih => exact ih (Inv_step hI a) (FInv_step hI h a)

theorem FInv_init {refs : DB → List FName} {s : Sys DB Res} (hp : ProgsSafe refs s)
    (hidle : ∀ c ∈ s.clients, c.pc = Pc.idle ∧ c.results = [])
    (hfresh : ∀ f ∈ s.files, f < s.nextFile) (h0 : ∀ x ∈ refs s.db, x ∈ s.files) :
    FInv refs s := by
  have key : ∀ (i : Nat) (c : Client DB Res), s.clients[i]? = some c → c.pc = Pc.idle :=
    fun i c hi => (hidle c (List.mem_of_getElem? hi)).1
  refine ⟨hp, hfresh, h0, ?_, ?_, ?_⟩
  · intro i c f hi hf
    rw [key i c hi] at hf
    simp [freshOf] at hf
  · intro i j ci cj f hi hj hne hf
    rw [key i ci hi] at hf
    simp [freshOf] at hf
  · intro i c x hi hx
    rw [key i c hi] at hx
    simp [cleanOf] at hx

theorem FInv_crash {refs : DB → List FName} {s : Sys DB Res} (h : FInv refs s) (victim : Nat) :
    FInv refs (crash s victim) := by
  unfold crash
  split
  · exact h
  · rename_i c hc
    have hF := F_frame (refs := refs) (c' := { c with prog := [], pc := .idle }) hc
      (by intro f hf; simp [freshOf] at hf) (by intro x hx; simp [cleanOf] at hx)
      (if s.lock = some victim then none else s.lock) s.log
    refine ⟨?_, h.lt, h.refd, hF.1 h.fresh, hF.2.1 h.distinct, hF.2.2 h.clean⟩
    intro ci hci fr rt b hm
    rcases List.mem_iff_getElem?.1 hci with ⟨i, hi⟩
    rcases getElem?_set_cases hi with ⟨_, rfl⟩ | ⟨_, hi'⟩
    · simp at hm
    · exact h.progs ci (List.mem_of_getElem? hi') fr rt b hm

end DC.Conc
