/-
Pure facts about the reference of C10 (DC/Model/QSpec.lean), used by the user-level
corollaries of DC/Properties/C10_History.lean: what a run of pushes at the back
builds, what a run of pulls returns, which calls touch the queue of a prefix.
Nothing here mentions the Cache model.
-/
import DC.Proofs.QRefineLemmas
import DC.Model.DSpec

namespace DC.QSpec
open DC.Cache

/-- items numbered consecutively from `a` -/
def mkItems (a : Int) : List Spec.Entry → List Item
  | [] => []
  | e :: es => ⟨a, e⟩ :: mkItems (a + 1) es

/-- no item of the list has an expiry time -/
def NoExp (l : List Item) : Prop := ∀ it ∈ l, it.ent.expT = none

/-- the entry a storable value is stored as (`DSpec.entryFor`) -/
def storedAs (E : Externals) (cfg : Cfg) (v : PyVal) : Spec.Entry := (DSpec.entryFor E cfg v).getD default

/-- the call touches the queue of prefix `p`: push / pull / peek on `p`, and the bulk removals -/
def touches (p : Option Str) : Cache.Op → Bool
  | .push _ _ _ p' _ _ _ _ => p' == p
  | .pull _ _ p' _ _ _ => p' == p
  | .peek _ _ p' _ _ _ => p' == p
  | .clear | .evict _ | .expire _ | .cull _ => true
  | _ => false

/-- the results, out of `os` (the results of the history `ops`), of the calls that touch `p` -/
def pick (p : Option Str) (ops : List Cache.Op) (os : List Out) : List Out :=
  ((ops.zip os).filter (fun x => touches p x.1)).map (·.2)

/-! ### histories -/

theorem run_append (q : State) (cfg : Cfg) (a b : List Cache.Op) :
    run q cfg (a ++ b) = run (run q cfg a) cfg b := by
  unfold run; rw [List.foldl_append]

theorem outs_append (q : State) (cfg : Cfg) (a b : List Cache.Op) :
    outs q cfg (a ++ b) = outs q cfg a ++ outs (run q cfg a) cfg b := by
  induction a generalizing q with
  | nil => rfl
  | cons op a ih =>
    show _ :: outs _ cfg (a ++ b) = _ :: _ ++ _
    rw [ih]; rfl

theorem run_cons (q : State) (cfg : Cfg) (op : Cache.Op) (ops : List Cache.Op) :
    run q cfg (op :: ops) = run (step q cfg op).1 cfg ops := rfl

theorem outs_cons (q : State) (cfg : Cfg) (op : Cache.Op) (ops : List Cache.Op) :
    outs q cfg (op :: ops) = (step q cfg op).2 :: outs (step q cfg op).1 cfg ops := rfl

/-! ### items -/

theorem mkItems_append (a : Int) (es : List Spec.Entry) (e : Spec.Entry) :
    mkItems a (es ++ [e]) = mkItems a es ++ [⟨a + es.length, e⟩] := by
  induction es generalizing a with
  | nil => simp [mkItems]
  | cons x t ih =>
    simp only [List.cons_append, mkItems, ih, List.length_cons]
    have : a + 1 + (t.length : Int) = a + ((t.length + 1 : Nat) : Int) := by push_cast; omega
    rw [this]

theorem mkItems_length (a : Int) (es : List Spec.Entry) : (mkItems a es).length = es.length := by
  induction es generalizing a with
  | nil => rfl
  | cons x t ih => simp [mkItems, ih]

theorem mkItems_noExp (a : Int) (es : List Spec.Entry) (h : ∀ e ∈ es, e.expT = none) :
    NoExp (mkItems a es) := by
  induction es generalizing a with
  | nil => intro _ h; cases h
  | cons x t ih =>
    intro it hit
    rcases List.mem_cons.1 hit with rfl | hit
    · exact h x List.mem_cons_self
    · exact ih (a + 1) (fun e he => h e (List.mem_cons_of_mem _ he)) it hit

theorem mkItems_last (a : Int) (es : List Spec.Entry) :
    (mkItems a es).getLast? = es.getLast?.map (fun e => ⟨a + es.length - 1, e⟩) := by
  rcases List.eq_nil_or_concat es with rfl | ⟨t, x, rfl⟩
  · rfl
  · rw [List.concat_eq_append, mkItems_append]
    simp only [List.getLast?_append, List.getLast?_singleton, Option.some_or, List.length_append,
      List.length_cons, List.length_nil, Option.map_some]
    congr 2
    push_cast
    omega

/-- the number a push at the back gets on a queue numbered from the origin -/
theorem nextNum_mkItems (cfg : Cfg) (es : List Spec.Entry) :
    nextNum cfg true (mkItems cfg.qorigin es) = cfg.qorigin + es.length := by
  unfold nextNum endOf
  simp only [Bool.not_true, Bool.false_eq_true, if_false, mkItems_last]
  rcases List.eq_nil_or_concat es with rfl | ⟨t, x, rfl⟩
  · simp
  · simp only [List.concat_eq_append, List.getLast?_append, List.getLast?_singleton, Option.some_or,
      Option.map_some, if_true, List.length_append, List.length_cons, List.length_nil]
    push_cast
    omega

theorem storedAs_spec {E : Externals} {cfg : Cfg} {v : PyVal} (h : DSpec.storable E cfg v = true) :
    DSpec.entryFor E cfg v = some (storedAs E cfg v) := by
  unfold DSpec.storable at h
  unfold storedAs
  cases he : DSpec.entryFor E cfg v with
  | none => rw [he] at h; cases h
  | some e => rfl

theorem entryFor_expT {E : Externals} {cfg : Cfg} {v : PyVal} {e : Spec.Entry}
    (h : DSpec.entryFor E cfg v = some e) : e.expT = none := by
  unfold DSpec.entryFor at h
  split at h
  · cases h
  · split at h
    · cases h
      rename_i pl _ _
      cases pl <;> rfl
    · cases h

/-! ### one push at the back, one pull -/

theorem push_back_spec (q : State) (E : Externals) (cfg : Cfg) (now : Int) (v : PyVal) (p : Option Str)
    {e : Spec.Entry} (h : DSpec.entryFor E cfg v = some e)
    (hb : bindable (queueKey p (nextNum cfg true (q.queues.get p))) = true) :
    push q E cfg now v p true none false .null =
      ({ q with queues := q.queues.put p (q.queues.get p ++ [⟨nextNum cfg true (q.queues.get p), e⟩]) },
       .val (column (queueKey p (nextNum cfg true (q.queues.get p))))) := by
  unfold DSpec.entryFor at h
  unfold push
  cases hpl : place E cfg.disk cfg.minFileSize v false with
  | error x => rw [hpl] at h; cases h
  | ok pl =>
    rw [hpl] at h
    simp only at h ⊢
    split at h
    · rename_i hv
      cases h
      have ht : bindable (Spec.entryOf pl (Option.map (fun x => now + x) none) SqlVal.null).tag = true := by
        cases pl <;> rfl
      have hv' : bindable (Spec.entryOf pl (Option.map (fun x => now + x) none) SqlVal.null).val = true := hv
      simp only [ht, hv', hb, Bool.and_self, if_true]
      rfl
    · cases h

theorem trimBy_none {α} (dead : α → Bool) (front : Bool) (l : List α) (h : ∀ a ∈ l, dead a = false) :
    trimBy dead front l = l := by
  cases he : endOf front l with
  | none => rw [endOf_none he, trimBy_nil]
  | some a => rw [trimBy_step dead he, h a (endOf_mem he)]; rfl

theorem trim_noExp (now : Int) (front : Bool) {l : List Item} (h : NoExp l) : trim now front l = l := by
  unfold trim
  apply trimBy_none
  intro it hit
  unfold Spec.Entry.expired
  rw [h it hit]

theorem pull_spec (q : State) (E : Externals) (cfg : Cfg) (now : Int) (p : Option Str) (front et tg : Bool)
    (h : NoExp (q.queues.get p)) :
    pull q E cfg now p front et tg =
      match endOf front (q.queues.get p) with
      | none => ({ q with queues := q.queues.put p (q.queues.get p) }, defaultFlags et tg)
      | some it => ({ q with queues := q.queues.put p (dropEnd front (q.queues.get p)) },
          result E cfg p et tg it) := by
  unfold pull
  simp only [trim_noExp now front h]
  cases endOf front (q.queues.get p) <;> rfl

/-! ### a run of pushes at the back of one prefix -/

theorem pushes_spec (E : Externals) (cfg : Cfg) (now : Int) (p : Option Str) :
    ∀ (vs : List PyVal) (es0 : List Spec.Entry) (q : State),
      (∀ k : Nat, k < es0.length + vs.length → bindable (queueKey p (cfg.qorigin + k)) = true) →
      (∀ v ∈ vs, DSpec.storable E cfg v = true) → q.queues.get p = mkItems cfg.qorigin es0 →
      (run q cfg (vs.map (fun v => Cache.Op.push E now v p true none false .null))).queues.get p =
        mkItems cfg.qorigin (es0 ++ vs.map (storedAs E cfg)) ∧
      outs q cfg (vs.map (fun v => Cache.Op.push E now v p true none false .null)) =
        (mkItems (cfg.qorigin + es0.length) (vs.map (storedAs E cfg))).map
          (fun it => .val (column (queueKey p it.num))) := by
  intro vs
  induction vs with
  | nil => intro es0 q _ _ hq; simp [run, outs, mkItems, hq]
  | cons v vs ih =>
    intro es0 q hp hs hq
    have hv := storedAs_spec (hs v List.mem_cons_self)
    have hstep : step q cfg (.push E now v p true none false .null) = _ :=
      push_back_spec q E cfg now v p hv (by
        rw [hq, nextNum_mkItems]
        exact hp es0.length (by simp))
    rw [hq, nextNum_mkItems] at hstep
    simp only [List.map_cons, run_cons, outs_cons, hstep]
    obtain ⟨h1, h2⟩ := ih (es0 ++ [storedAs E cfg v])
      { q with queues := (q.queues.put p (mkItems cfg.qorigin es0 ++ [⟨cfg.qorigin + es0.length, storedAs E cfg v⟩])) }
      (fun k hk => hp k (by simp only [List.length_append, List.length_cons, List.length_nil] at hk ⊢; omega))
      (fun w hw => hs w (List.mem_cons_of_mem _ hw))
      (by
        show (q.queues.put p _).get p = _
        rw [get_put, if_pos rfl, mkItems_append])
    refine ⟨by rw [h1]; simp, ?_⟩
    rw [h2]
    simp only [mkItems, List.map_cons, List.length_append, List.length_cons, List.length_nil]
    congr 3

/-! ### a run of pulls on one prefix -/

/-- `k` pulls (sides `fs`) on a queue of `l.length ≤ k` never-expiring items return every item
exactly once — `picked` is a permutation of the queue —, then the default; from the front only,
in queue order; from the back only, in reverse order -/
theorem pulls_spec (E : Externals) (cfg : Cfg) (now : Int) (p : Option Str) (et tg : Bool) :
    ∀ (fs : List Bool) (l : List Item) (q : State), q.queues.get p = l → NoExp l → l.length ≤ fs.length →
      ∃ picked : List Item, picked.Perm l ∧
        outs q cfg (fs.map (fun f => Cache.Op.pull E now p f et tg)) =
          picked.map (result E cfg p et tg) ++ List.replicate (fs.length - l.length) (defaultFlags et tg) ∧
        ((∀ f ∈ fs, f = true) → picked = l) ∧ ((∀ f ∈ fs, f = false) → picked = l.reverse) ∧
        (run q cfg (fs.map (fun f => Cache.Op.pull E now p f et tg))).queues.get p = [] := by
  intro fs
  induction fs with
  | nil =>
    intro l q hq _ hl
    have : l = [] := List.length_eq_zero_iff.1 (by simpa using hl)
    subst this
    exact ⟨[], List.Perm.refl _, rfl, fun _ => rfl, fun _ => rfl, hq⟩
  | cons f fs ih =>
    intro l q hq hne hl
    have hstep : step q cfg (.pull E now p f et tg) = _ := pull_spec q E cfg now p f et tg (by rw [hq]; exact hne)
    rw [hq] at hstep
    simp only [List.map_cons, outs_cons, run_cons, List.length_cons]
    cases he : endOf f l with
    | none =>
      have hnil := endOf_none he
      subst hnil
      rw [he] at hstep
      simp only at hstep
      rw [hstep]
      obtain ⟨pk, h1, h2, h3, h4, h5⟩ := ih [] { q with queues := q.queues.put p [] }
        (by show (q.queues.put p []).get p = []; rw [get_put, if_pos rfl])
        (fun _ h => by cases h) (Nat.zero_le _)
      have : pk = [] := List.Perm.eq_nil h1
      subst this
      refine ⟨[], List.Perm.refl _, ?_, fun _ => rfl, fun _ => rfl, h5⟩
      rw [h2]
      simp only [List.map_nil, List.nil_append, List.length_nil, Nat.sub_zero]
      rfl
    | some it =>
      rw [he] at hstep
      simp only at hstep
      rw [hstep]
      have hsh := end_shape he
      have hlen := dropEnd_length he
      have hne' : NoExp (dropEnd f l) := fun x hx => hne x (dropEnd_sub f l x hx)
      obtain ⟨pk, h1, h2, h3, h4, h5⟩ := ih (dropEnd f l) { q with queues := q.queues.put p (dropEnd f l) }
        (by show (q.queues.put p (dropEnd f l)).get p = _; rw [get_put, if_pos rfl]) hne'
        (by simp only [List.length_cons] at hl; omega)
      refine ⟨it :: pk, ?_, ?_, ?_, ?_, h5⟩
      · cases f with
        | true =>
          simp only [if_true] at hsh
          rw [hsh]; exact List.Perm.cons _ h1
        | false =>
          simp only [Bool.false_eq_true, if_false] at hsh
          rw [hsh]
          exact (List.Perm.cons _ h1).trans (List.perm_append_singleton _ _).symm
      · rw [h2]
        simp only [List.map_cons, List.cons_append]
        simp only [List.length_cons] at hl
        have : fs.length - (dropEnd f l).length = fs.length + 1 - l.length := by omega
        rw [this]
      · intro hall
        have hf : f = true := hall f List.mem_cons_self
        subst hf
        simp only [if_true] at hsh
        rw [h3 (fun g hg => hall g (List.mem_cons_of_mem _ hg))]
        exact hsh.symm
      · intro hall
        have hf : f = false := hall f List.mem_cons_self
        subst hf
        simp only [Bool.false_eq_true, if_false] at hsh
        rw [h4 (fun g hg => hall g (List.mem_cons_of_mem _ hg))]
        conv => rhs; rw [hsh]
        simp

/-! ### which calls touch the queue of a prefix -/

theorem beq_false_ne {p' p : Option Str} (h : (p' == p) = false) : p' ≠ p := by
  intro e; subst e; simp at h

/-- a call that does not touch `p` leaves its queue alone -/
theorem step_untouched (q : State) (cfg : Cfg) (p : Option Str) (op : Cache.Op) (h : touches p op = false) :
    (step q cfg op).1.queues.get p = q.queues.get p := by
  cases op <;> simp only [touches, Bool.true_eq_false] at h <;> try rfl
  · -- push
    rename_i E now v p' back ttl read tag
    have hne := beq_false_ne h
    simp only [step, push]
    split
    · rfl
    · split
      · show (q.queues.put p' _).get p = _
        rw [get_put, if_neg hne]
      · rfl
  · rename_i E now p' front et tg
    have hne := beq_false_ne h
    simp only [step, pull]
    split
    · show (q.queues.put p' _).get p = _
      rw [get_put, if_neg hne]
    · show (q.queues.put p' _).get p = _
      rw [get_put, if_neg hne]
  · rename_i E now p' front et tg
    have hne := beq_false_ne h
    simp only [step, peek]
    split
    · show (q.queues.put p' _).get p = _
      rw [get_put, if_neg hne]
    · show (q.queues.put p' _).get p = _
      rw [get_put, if_neg hne]

/-- a call that touches `p` depends, for its result and for the queue of `p` afterwards, on the
queue of `p` only -/
theorem step_touched (q q' : State) (cfg : Cfg) (p : Option Str) (op : Cache.Op) (h : touches p op = true)
    (hq : q.queues.get p = q'.queues.get p) :
    (step q cfg op).2 = (step q' cfg op).2 ∧
    (step q cfg op).1.queues.get p = (step q' cfg op).1.queues.get p := by
  cases op <;> simp only [touches, Bool.false_eq_true] at h
  · rename_i E now v p' back ttl read tag
    have hp : p' = p := by simpa using h
    subst hp
    simp only [step, push, hq]
    split
    · exact ⟨rfl, hq⟩
    · split
      · refine ⟨rfl, ?_⟩
        show (q.queues.put p' _).get p' = (q'.queues.put p' _).get p'
        rw [get_put, get_put, if_pos rfl, if_pos rfl]
      · exact ⟨rfl, hq⟩
  · rename_i E now p' front et tg
    have hp : p' = p := by simpa using h
    subst hp
    simp only [step, pull, hq]
    split
    · refine ⟨rfl, ?_⟩
      show (q.queues.put p' _).get p' = (q'.queues.put p' _).get p'
      rw [get_put, get_put, if_pos rfl, if_pos rfl]
    · refine ⟨rfl, ?_⟩
      show (q.queues.put p' _).get p' = (q'.queues.put p' _).get p'
      rw [get_put, get_put, if_pos rfl, if_pos rfl]
  · rename_i E now p' front et tg
    have hp : p' = p := by simpa using h
    subst hp
    simp only [step, peek, hq]
    split
    · refine ⟨rfl, ?_⟩
      show (q.queues.put p' _).get p' = (q'.queues.put p' _).get p'
      rw [get_put, get_put, if_pos rfl, if_pos rfl]
    · refine ⟨rfl, ?_⟩
      show (q.queues.put p' _).get p' = (q'.queues.put p' _).get p'
      rw [get_put, get_put, if_pos rfl, if_pos rfl]
  · exact ⟨rfl, rfl⟩
  · refine ⟨rfl, ?_⟩
    simp only [step]
    rw [get_keep, get_keep, hq]
  · refine ⟨rfl, ?_⟩
    simp only [step]
    rw [get_keep, get_keep, hq]
  · refine ⟨rfl, ?_⟩
    simp only [step]
    rw [get_keep, get_keep, hq]

/-- a history none of whose calls touches `p` leaves the queue of `p` alone -/
theorem run_untouched (cfg : Cfg) (p : Option Str) (ops : List Cache.Op) (q : State)
    (h : ∀ op ∈ ops, touches p op = false) : (run q cfg ops).queues.get p = q.queues.get p := by
  induction ops generalizing q with
  | nil => rfl
  | cons op ops ih =>
    rw [run_cons, ih _ (fun o ho => h o (List.mem_cons_of_mem _ ho)),
      step_untouched q cfg p op (h op List.mem_cons_self)]

/-- **projection**: the results of the calls that touch `p` are their results in the history
projected to those calls — from any state with the same queue of `p` -/
theorem outs_project (cfg : Cfg) (p : Option Str) (ops : List Cache.Op) (q q' : State)
    (hq : q.queues.get p = q'.queues.get p) :
    pick p ops (outs q cfg ops) = outs q' cfg (ops.filter (touches p)) := by
  induction ops generalizing q q' with
  | nil => rfl
  | cons op ops ih =>
    unfold pick
    rw [outs_cons]
    simp only [List.zip_cons_cons, List.filter_cons]
    cases ht : touches p op with
    | true =>
      simp only [if_true, List.map_cons, outs_cons]
      obtain ⟨h1, h2⟩ := step_touched q q' cfg p op ht hq
      rw [h1]
      congr 1
      exact ih _ _ h2
    | false =>
      simp only [Bool.false_eq_true, if_false]
      exact ih _ _ (by rw [step_untouched q cfg p op ht]; exact hq)

end DC.QSpec
