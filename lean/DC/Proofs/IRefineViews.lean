/-
C12_Refine, model side, the views and equality of an Index: `items`, `values`,
`eqTo`, `neTo` (and `rehandle`).  `Index.items` walks the rows and looks every
key up again through the Python key it decoded from the row; under the key-codec
round trip (`hcodec`, the hypothesis of `popitem`) every look-up finds the row it
came from, so the loop yields `OSpec.pairs` of the abstraction.
-/
import DC.Proofs.IRefineBlock
import DC.Proofs.IRefineSetdefault

namespace DC.Cache
open DC.Spec

/-! ### what a look-up of an entry can return -/

/-- a plain look-up (`read = False`, no flags) returns a value or `default` (value not readable) -/
theorem irf_out_shape (e : Entry) (E : Externals) (cfg : Cfg) :
    e.out E cfg false false false = .default ∨ ∃ v, e.out E cfg false false false = .val v := by
  have hD : ∀ (mode : Nat) (file : Option Content) (hasFile : Bool) (v : SqlVal),
      Disk.fetch E mode file hasFile v false = .ioerror ∨
        ∃ w, Disk.fetch E mode file hasFile v false = .val w := by
    intro mode file hasFile v
    unfold Disk.fetch
    split
    · exact .inr ⟨_, rfl⟩
    · split
      · cases file with
        | none => exact .inl rfl
        | some c => exact .inr ⟨_, rfl⟩
      · split
        · split
          · exact .inr ⟨_, rfl⟩
          · exact .inl rfl
          · exact .inl rfl
        · split
          · split
            · cases file with
              | none => exact .inl rfl
              | some c => exact .inr ⟨_, rfl⟩
            · split
              · exact .inr ⟨_, rfl⟩
              · exact .inl rfl
          · exact .inr ⟨_, rfl⟩
  have hF : fetch E cfg.disk e.mode e.content e.content.isSome e.val false = .ioerror ∨
      ∃ w, fetch E cfg.disk e.mode e.content e.content.isSome e.val false = .val w := by
    unfold fetch
    cases cfg.disk with
    | pickle => exact hD _ _ _ _
    | json =>
      simp only
      rcases hD e.mode e.content e.content.isSome e.val with h | ⟨w, h⟩
      · rw [h]; exact .inl rfl
      · rw [h]
        cases w <;> first | exact .inr ⟨_, rfl⟩
  unfold Entry.out
  rcases hF with h | ⟨w, h⟩
  · rw [h]; exact .inl rfl
  · rw [h]; exact .inr ⟨w, rfl⟩

/-- the item a binding shows, in terms of `Entry.out` -/
theorem irf_valueOf_cases (e : Entry) (E : Externals) (cfg : Cfg) :
    (e.out E cfg false false false = .default ∧ OSpec.valueOf E cfg e = none) ∨
    (∃ v, e.out E cfg false false false = .val v ∧ OSpec.valueOf E cfg e = some v) := by
  unfold OSpec.valueOf
  rcases irf_out_shape e E cfg with h | ⟨v, h⟩
  · rw [h]; exact .inl ⟨rfl, rfl⟩
  · rw [h]; exact .inr ⟨v, rfl, rfl⟩

/-! ### a row is found again by its own key -/

theorem irf_get_self (s : Cache) (h : irf_Inv s) (r : Row) (hr : r ∈ s.rows) :
    (irf_abs s).get (irf_key r) = some (rf_ent s r) := by
  rw [irf_abs_get]
  unfold rf_view rf_look
  have h1 := live_visible_partial s h.good.tinv.tbl.uniq r hr (h.good.tinv.tbl.nonnull r hr) 0
    (live_of_noexp (h.noexp r hr) 0)
  rw [selLive_eq_selKey h.noexp] at h1
  have h2 : s.rows.find? (keyMatch (irf_key r).1 (irf_key r).2) = some r := h1
  rw [h2]; rfl

theorem irf_look_self (s : Cache) (E : Externals) (h : irf_Inv s) (r : Row) (hr : r ∈ s.rows) :
    OSpec.look (irf_abs s) E s.cfg (irf_key r) = (rf_ent s r).out E s.cfg false false false := by
  unfold OSpec.look
  rw [irf_get_self s h r hr]

/-! ### the walk of `Index.items` -/

/-- the tuple the item view shows for a pair -/
def irf_tup (kv : PyVal × PyVal) : Out := .tup [.val kv.1, .val kv.2]

/-- the bindings a list of rows denotes in `s` -/
def irf_absRows (s : Cache) (rows : List Row) : ODict := rows.map (fun r => (irf_key r, rf_ent s r))

theorem irf_itemsWalk (s : Cache) (E : Externals) (now : Int) (h : irf_Inv s) :
    ∀ (rows : List Row) (c : Cache) (acc : List Out),
      core c = core s → irf_Inv c →
      (∀ r ∈ rows, r ∈ s.rows ∧
        DC.put E s.cfg.disk (DC.get E s.cfg.disk r.key r.raw) = (r.key, r.raw)) →
      core (Index.itemsWalk E now rows c acc).1 = core s ∧
      irf_Inv (Index.itemsWalk E now rows c acc).1 ∧
      (Index.itemsWalk E now rows c acc).2.1 =
        acc ++ (OSpec.walk E s.cfg (irf_absRows s rows)).1.map irf_tup ∧
      (Index.itemsWalk E now rows c acc).2.2 = (OSpec.walk E s.cfg (irf_absRows s rows)).2 := by
  intro rows
  induction rows with
  | nil => intro c acc hc hi _; exact ⟨hc, hi, by simp [Index.itemsWalk, irf_absRows, OSpec.walk], rfl⟩
  | cons r rows ih =>
    intro c acc hc hi hrows
    obtain ⟨hrm, hcod⟩ := hrows r (List.mem_cons_self ..)
    have hcfg : c.cfg = s.cfg := congrArg Core.cfg hc
    obtain ⟨g1, g2, g3⟩ := irf_get c E now (DC.get E c.cfg.disk r.key r.raw) hi
    have hk : keyOf E c.cfg (DC.get E c.cfg.disk r.key r.raw) = irf_key r := by
      rw [hcfg]; exact hcod
    have g1' : (c.get E now (DC.get E c.cfg.disk r.key r.raw) false false false).2 =
        (rf_ent s r).out E s.cfg false false false := by
      rw [g1, hk, irf_abs_core hc, hcfg, irf_look_self s E h r hrm]
    have hw : OSpec.walk E s.cfg (irf_absRows s (r :: rows)) =
        match OSpec.valueOf E s.cfg (rf_ent s r) with
        | none => ([], true)
        | some v => ((OSpec.pyKey E s.cfg (irf_key r), v) :: (OSpec.walk E s.cfg (irf_absRows s rows)).1,
            (OSpec.walk E s.cfg (irf_absRows s rows)).2) := rfl
    have hstep : Index.itemsWalk E now (r :: rows) c acc =
        match (c.get E now (DC.get E c.cfg.disk r.key r.raw) false false false).2 with
        | .default => ((c.get E now (DC.get E c.cfg.disk r.key r.raw) false false false).1, acc, true)
        | o => Index.itemsWalk E now rows (c.get E now (DC.get E c.cfg.disk r.key r.raw) false false false).1
            (acc ++ [.tup [.val (DC.get E c.cfg.disk r.key r.raw), o]]) := by
      rw [Index.itemsWalk]
      generalize c.get E now (DC.get E c.cfg.disk r.key r.raw) false false false = q
      obtain ⟨c1, o⟩ := q
      cases o <;> rfl
    rw [hstep, g1', hw]
    rcases irf_valueOf_cases (rf_ent s r) E s.cfg with ⟨e1, e2⟩ | ⟨v, e1, e2⟩
    · rw [e1, e2]
      exact ⟨g2.trans hc, g3, by simp, rfl⟩
    · rw [e1, e2]
      obtain ⟨i1, i2, i3, i4⟩ := ih (c.get E now (DC.get E c.cfg.disk r.key r.raw) false false false).1
        (acc ++ [.tup [.val (DC.get E c.cfg.disk r.key r.raw), .val v]])
        (g2.trans hc) g3 (fun r' hr' => hrows r' (List.mem_cons_of_mem _ hr'))
      refine ⟨i1, i2, ?_, i4⟩
      rw [i3, hcfg]
      simp only [List.map_cons, List.append_assoc, List.singleton_append]
      rfl

/-- the walk of `Index.items` from the state itself -/
theorem irf_walk (x : Index) (E : Externals) (now : Int) (h : irf_Inv x.cache)
    (hcodec : ∀ r ∈ x.cache.rows,
      DC.put E x.cache.cfg.disk (DC.get E x.cache.cfg.disk r.key r.raw) = (r.key, r.raw)) :
    core (Index.itemsWalk E now x.cache.rows x.cache []).1 = core x.cache ∧
    irf_Inv (Index.itemsWalk E now x.cache.rows x.cache []).1 ∧
    (Index.itemsWalk E now x.cache.rows x.cache []).2.1 =
      (OSpec.pairs (irf_abs x.cache) E x.cache.cfg).map irf_tup ∧
    (Index.itemsWalk E now x.cache.rows x.cache []).2.2 = OSpec.missing (irf_abs x.cache) E x.cache.cfg := by
  obtain ⟨i1, i2, i3, i4⟩ := irf_itemsWalk x.cache E now h x.cache.rows x.cache [] rfl h
    (fun r hr => ⟨hr, hcodec r hr⟩)
  exact ⟨i1, i2, by rw [i3, List.nil_append]; rfl, i4⟩

theorem irf_items_eq (x : Index) (E : Externals) (now : Int) :
    x.items E now =
      ({ cache := (Index.itemsWalk E now x.cache.rows x.cache []).1 },
        if (Index.itemsWalk E now x.cache.rows x.cache []).2.2 then .exc "KeyError"
        else .list (Index.itemsWalk E now x.cache.rows x.cache []).2.1) := rfl

/-- `Index.items`: the pairs of the abstraction, or KeyError at an unreadable entry; only the log
of the cache changes -/
theorem irf_items (x : Index) (E : Externals) (now : Int) (h : irf_Inv x.cache)
    (hcodec : ∀ r ∈ x.cache.rows,
      DC.put E x.cache.cfg.disk (DC.get E x.cache.cfg.disk r.key r.raw) = (r.key, r.raw)) :
    (x.items E now).2 = (OSpec.items (irf_abs x.cache) E x.cache.cfg).2 ∧
    core (x.items E now).1.cache = core x.cache ∧ irf_Inv (x.items E now).1.cache := by
  obtain ⟨i1, i2, i3, i4⟩ := irf_walk x E now h hcodec
  rw [irf_items_eq]
  refine ⟨?_, i1, i2⟩
  simp only
  rw [i3, i4]
  rfl

/-! ### `values`, `eqTo`, `neTo` -/

theorem irf_values_of_pairs (ps : List (PyVal × PyVal)) :
    (ps.map irf_tup).filterMap
        (fun t => match t with | .tup [_, v] => some v | _ => none) =
      ps.map (fun kv => Out.val kv.2) := by
  induction ps with
  | nil => rfl
  | cons p ps ih => simp only [List.map_cons, List.filterMap_cons, irf_tup, ih]

theorem irf_pairsOf_of_pairs (ps : List (PyVal × PyVal)) :
    Index.pairsOf (ps.map irf_tup) = ps := by
  unfold Index.pairsOf
  induction ps with
  | nil => rfl
  | cons p ps ih => simp only [List.map_cons, List.filterMap_cons, irf_tup, ih]

theorem irf_values (x : Index) (E : Externals) (now : Int) (h : irf_Inv x.cache)
    (hcodec : ∀ r ∈ x.cache.rows,
      DC.put E x.cache.cfg.disk (DC.get E x.cache.cfg.disk r.key r.raw) = (r.key, r.raw)) :
    (x.values E now).2 = (OSpec.values (irf_abs x.cache) E x.cache.cfg).2 ∧
    core (x.values E now).1.cache = core x.cache ∧ irf_Inv (x.values E now).1.cache := by
  obtain ⟨i1, i2, i3, i4⟩ := irf_walk x E now h hcodec
  unfold Index.values
  rw [irf_items_eq]
  simp only
  rw [i3, i4]
  unfold OSpec.values
  cases OSpec.missing (irf_abs x.cache) E x.cache.cfg with
  | true => exact ⟨rfl, i1, i2⟩
  | false =>
    refine ⟨?_, i1, i2⟩
    simp only [Bool.false_eq_true, if_false, Fanout.outList]
    exact congrArg Out.list (irf_values_of_pairs _)

theorem irf_zip_any_all (xs ys : List (PyVal × PyVal)) :
    (!(xs.zip ys).any (fun p => !pyEq p.1.1 p.2.1 || !pyEq p.1.2 p.2.2)) =
      (xs.zip ys).all (fun p => pyEq p.1.1 p.2.1 && pyEq p.1.2 p.2.2) := by
  induction xs.zip ys with
  | nil => rfl
  | cons a t ih =>
    simp only [List.any_cons, List.all_cons, Bool.not_or, Bool.not_not, ih]

theorem irf_eqTo_eq (x : Index) (E : Externals) (now : Int) (ordered : Bool) (other : List (PyVal × PyVal)) :
    x.eqTo E now ordered other =
      if x.cache.count != (other.length : Int) then (x, .bool false)
      else
        ({ cache := (Index.itemsWalk E now x.cache.rows x.cache []).1 },
          if (Index.itemsWalk E now x.cache.rows x.cache []).2.2 &&
              (if ordered then
                !((Index.pairsOf (Index.itemsWalk E now x.cache.rows x.cache []).2.1).zip other).any
                  (fun p => !pyEq p.1.1 p.2.1 || !pyEq p.1.2 p.2.2)
               else (Index.pairsOf (Index.itemsWalk E now x.cache.rows x.cache []).2.1).all
                  (fun kv => match other.find? (fun p => pyEq kv.1 p.1) with
                    | some p => pyEq kv.2 p.2
                    | none => false))
          then .exc "KeyError"
          else .bool (if ordered then
                !((Index.pairsOf (Index.itemsWalk E now x.cache.rows x.cache []).2.1).zip other).any
                  (fun p => !pyEq p.1.1 p.2.1 || !pyEq p.1.2 p.2.2)
               else (Index.pairsOf (Index.itemsWalk E now x.cache.rows x.cache []).2.1).all
                  (fun kv => match other.find? (fun p => pyEq kv.1 p.1) with
                    | some p => pyEq kv.2 p.2
                    | none => false))) := rfl

theorem irf_eqTo (x : Index) (E : Externals) (now : Int) (ordered : Bool) (other : List (PyVal × PyVal))
    (h : irf_Inv x.cache)
    (hcodec : ∀ r ∈ x.cache.rows,
      DC.put E x.cache.cfg.disk (DC.get E x.cache.cfg.disk r.key r.raw) = (r.key, r.raw)) :
    (x.eqTo E now ordered other).2 = (OSpec.eqTo (irf_abs x.cache) E x.cache.cfg ordered other).2 ∧
    core (x.eqTo E now ordered other).1.cache = core x.cache ∧
    irf_Inv (x.eqTo E now ordered other).1.cache := by
  obtain ⟨i1, i2, i3, i4⟩ := irf_walk x E now h hcodec
  have hcount : x.cache.count = ((irf_abs x.cache).length : Int) := by
    rw [irf_abs_length, h.good.tinv.tbl.count]
  rw [irf_eqTo_eq]
  by_cases hlen : (irf_abs x.cache).length = other.length
  · have hne : (x.cache.count != (other.length : Int)) = false := by
      rw [hcount, hlen]; simp
    rw [hne]
    simp only [Bool.false_eq_true, if_false]
    refine ⟨?_, i1, i2⟩
    rw [i3, i4, irf_pairsOf_of_pairs]
    show _ = OSpec.eqOut _ _ _ _ _
    unfold OSpec.eqOut OSpec.eqB
    rw [hlen]
    cases ordered with
    | true =>
      simp only [if_true, irf_zip_any_all, beq_self_eq_true, Bool.true_and]
    | false =>
      simp only [Bool.false_eq_true, if_false, beq_self_eq_true, Bool.true_and]
      rfl
  · have hne : (x.cache.count != (other.length : Int)) = true := by
      rw [hcount]
      simp only [bne_iff_ne, ne_eq]
      intro hc
      exact hlen (Int.ofNat.inj hc)
    rw [hne]
    simp only [if_true]
    refine ⟨?_, trivial, h⟩
    show Out.bool false = OSpec.eqOut _ _ _ _ _
    unfold OSpec.eqOut OSpec.eqB
    have : ((irf_abs x.cache).length == other.length) = false := by simpa using hlen
    rw [this]
    simp

theorem irf_neTo (x : Index) (E : Externals) (now : Int) (ordered : Bool) (other : List (PyVal × PyVal))
    (h : irf_Inv x.cache)
    (hcodec : ∀ r ∈ x.cache.rows,
      DC.put E x.cache.cfg.disk (DC.get E x.cache.cfg.disk r.key r.raw) = (r.key, r.raw)) :
    (x.neTo E now ordered other).2 = (OSpec.neTo (irf_abs x.cache) E x.cache.cfg ordered other).2 ∧
    core (x.neTo E now ordered other).1.cache = core x.cache ∧
    irf_Inv (x.neTo E now ordered other).1.cache := by
  obtain ⟨i1, i2, i3⟩ := irf_eqTo x E now ordered other h hcodec
  unfold Index.neTo
  cases hq : x.eqTo E now ordered other with
  | mk x1 o =>
    rw [hq] at i1 i2 i3
    simp only at i1 i2 i3
    have ho : o = OSpec.eqOut (irf_abs x.cache) E x.cache.cfg ordered other := i1
    subst ho
    unfold OSpec.neTo
    cases OSpec.eqOut (irf_abs x.cache) E x.cache.cfg ordered other <;> exact ⟨rfl, i2, i3⟩

end DC.Cache

/-! ### which entries a call of the ordered dictionary can bind -/

namespace DC.OSpec
open DC.Spec DC.Cache

theorem set_mem (m : ODict) (k : Key) (e : Entry) : ∀ q ∈ m.set k e, q ∈ m ∨ q.2 = e := by
  intro q hq
  unfold ODict.set at hq
  split at hq
  · obtain ⟨p, hp, rfl⟩ := List.mem_map.1 hq
    split
    · exact .inr rfl
    · exact .inl hp
  · rcases List.mem_append.1 hq with h | h
    · exact .inl h
    · rw [List.mem_singleton.1 h]; exact .inr rfl

theorem del_mem (m : ODict) (k : Key) : ∀ q ∈ m.del k, q ∈ m :=
  fun _ hq => (List.mem_filter.1 hq).1

/-- the entry a successful assignment binds is the stored form of a value -/
def Stored (cfg : Cfg) (e : Entry) : Prop :=
  ∃ (E : Externals) (v : PyVal) (p : Placement),
    place E cfg.disk cfg.minFileSize v false = .ok p ∧ e = entryOf p none .null

theorem setitem_mem (m : ODict) (E : Externals) (cfg : Cfg) (k v : PyVal) :
    ∀ q ∈ (setitem m E cfg k v).1, q ∈ m ∨ Stored cfg q.2 := by
  intro q hq
  unfold setitem at hq
  split at hq
  · exact .inl hq
  · rename_i p hp
    simp only at hq
    split at hq
    · rcases set_mem _ _ _ q hq with h | h
      · exact .inl h
      · exact .inr ⟨E, v, p, hp, h⟩
    · exact .inl hq

theorem update_mem (m : ODict) (E : Externals) (cfg : Cfg) (kvs : List (PyVal × PyVal)) :
    ∀ q ∈ (update m E cfg kvs).1, q ∈ m ∨ Stored cfg q.2 := by
  induction kvs generalizing m with
  | nil => intro q hq; exact .inl hq
  | cons kv kvs ih =>
    intro q hq
    rw [update] at hq
    have hs := setitem_mem m E cfg kv.1 kv.2
    cases hm : setitem m E cfg kv.1 kv.2 with
    | mk m1 o =>
      rw [hm] at hq hs
      cases o with
      | exc e => exact hs q hq
      | _ =>
        simp only at hq
        rcases ih m1 q hq with h | h
        · exact hs q h
        · exact .inr h

/-- every binding after a call is a binding from before, or binds the stored form of a value -/
theorem step_mem (m : ODict) (cfg : Cfg) (op : IOp) :
    ∀ q ∈ (step m cfg op).1, q ∈ m ∨ Stored cfg q.2 := by
  intro q hq
  cases op with
  | getitem E now k => exact .inl hq
  | setitem E now k v => exact setitem_mem m E cfg k v q hq
  | delitem E now k =>
    simp only [step, delitem] at hq
    split at hq
    · exact .inl (del_mem m _ q hq)
    · exact .inl hq
  | setdefault E now k v =>
    simp only [step] at hq
    rw [irf_spec_setdefault_eq] at hq
    split at hq
    · split at hq
      · exact .inl hq
      · split at hq
        · exact .inl hq
        · split at hq
          · exact .inl hq
          · exact setitem_mem m E cfg k v q hq
    · exact .inl hq
  | pop E now k d => exact .inl (del_mem m _ q hq)
  | popitem E now last =>
    simp only [step, popitem] at hq
    split at hq
    · exact .inl hq
    · split at hq
      · exact .inl hq
      · exact .inl (del_mem m _ q hq)
  | peekitem E now last =>
    simp only [step, peekitem] at hq
    split at hq
    · exact .inl hq
    · split at hq <;> exact .inl hq
  | len => exact .inl hq
  | iter E asc => exact .inl hq
  | clear => exact nomatch hq
  | update E now kvs => exact update_mem m E cfg kvs q hq
  | items E now => exact .inl hq
  | values E now => exact .inl hq
  | eqTo E now ordered other => exact .inl hq
  | neTo E now ordered other => exact .inl hq
  | rehandle => exact .inl hq

/-- the value of a stored entry can be read back, under any codec and configuration -/
theorem stored_readable {cfg : Cfg} {e : Entry} (h : Stored cfg e) (E' : Externals) (cfg' : Cfg) :
    e.out E' cfg' false false false ≠ .default := by
  obtain ⟨E, v, p, hp, rfl⟩ := h
  have hD : ∀ (w : PyVal) (p : Placement), Disk.place E cfg.minFileSize w false = .ok p →
      (entryOf p none .null).out E' cfg' false false false ≠ .default := by
    intro w p hp
    have hshape : (∃ sv, p = .inline MODE_RAW sv) ∨ (∃ b, p = .inline MODE_PICKLE (.blob b)) ∨
        (∃ s, p = .file MODE_TEXT (.text s)) ∨ (∃ b, p = .file MODE_BINARY (.bin b)) ∨
        (∃ b, p = .file MODE_PICKLE (.bin b)) := by
      unfold Disk.place at hp
      simp only [Bool.false_eq_true, if_false] at hp
      split at hp
      · split at hp
        · cases hp; exact .inl ⟨_, rfl⟩
        · split at hp
          · cases hp; exact .inr (.inr (.inl ⟨_, rfl⟩))
          · cases hp
      · split at hp
        · cases hp; exact .inl ⟨_, rfl⟩
        · split at hp
          · cases hp; exact .inr (.inl ⟨_, rfl⟩)
          · cases hp; exact .inr (.inr (.inr (.inr ⟨_, rfl⟩)))
      · split at hp
        · split at hp
          · cases hp; exact .inr (.inl ⟨_, rfl⟩)
          · cases hp; exact .inr (.inr (.inr (.inr ⟨_, rfl⟩)))
        · cases hp; exact .inl ⟨_, rfl⟩
      · split at hp
        · cases hp; exact .inl ⟨_, rfl⟩
        · cases hp; exact .inr (.inr (.inr (.inl ⟨_, rfl⟩)))
      · split at hp
        · cases hp; exact .inr (.inl ⟨_, rfl⟩)
        · cases hp; exact .inr (.inr (.inr (.inr ⟨_, rfl⟩)))
    have hDF : ∃ x, Disk.fetch E' (entryOf p none .null).mode (entryOf p none .null).content
        (entryOf p none .null).content.isSome (entryOf p none .null).val false = .val x := by
      rcases hshape with ⟨sv, rfl⟩ | ⟨b, rfl⟩ | ⟨s, rfl⟩ | ⟨b, rfl⟩ | ⟨b, rfl⟩ <;>
        simp [entryOf, Disk.fetch, MODE_RAW, MODE_PICKLE, MODE_TEXT, MODE_BINARY]
    have hF : ∃ x, fetch E' cfg'.disk (entryOf p none .null).mode (entryOf p none .null).content
        (entryOf p none .null).content.isSome (entryOf p none .null).val false = .val x := by
      unfold fetch
      cases cfg'.disk with
      | pickle => exact hDF
      | json =>
        obtain ⟨x, hx⟩ := hDF
        simp only
        rw [hx]
        cases x <;> exact ⟨_, rfl⟩
    obtain ⟨x, hx⟩ := hF
    unfold Entry.out
    rw [hx]
    intro hcontra
    cases hcontra
  unfold place at hp
  cases hdk : cfg.disk with
  | pickle => rw [hdk] at hp; exact hD v p hp
  | json =>
    rw [hdk] at hp
    simp only [Bool.false_eq_true, if_false] at hp
    exact hD _ p hp

end DC.OSpec
