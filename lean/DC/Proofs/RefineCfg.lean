/-
C03_Refine: no key-addressed call changes the configuration (`cfg`), so the
eviction policy stays `none` and the page size stays positive along a history.
-/
import DC.Proofs.RefineIncr
import DC.Proofs.RefineDel
import DC.Proofs.RefineBulk

namespace DC.Cache
open DC.Spec

theorem rf_transact_cfg (s : Cache) (body : Cache → Body) (fresh : Option Nat)
    (hb : ∀ t, t.cfg = s.cfg → (body t).s.cfg = s.cfg) : (s.transact body fresh).1.cfg = s.cfg := by
  unfold transact
  split
  · cases fresh with
    | none =>
      simp only
      have := hb s rfl
      split <;> exact this
    | some f =>
      simp only
      have := hb { s with created := s.created ++ [f] } rfl
      split <;> exact this
  · have := hb (s.log .begin) rfl
    simp only
    split
    · rw [fremoveAll_cfg]; exact this
    · cases fresh <;> exact this

theorem rf_cullW_cfg (t : Cache) (now : Int) : (t.cullW now).1.cfg = t.cfg :=
  congrArg Core.cfg (cullW_core t now).1

theorem rf_delRow_cfg (t : Cache) (id : Nat) : (t.delRow id).cfg = t.cfg := by
  show ((t.delRowQuiet id).logSql "delRow").cfg = _
  rw [logSql_cfg, delRowQuiet_cfg]

theorem rf_fetchRow_cfg (t : Cache) (E : Externals) (r : Row) (read : Bool) :
    (t.fetchRow E r read).1.cfg = t.cfg := congrArg Core.cfg (core_fetchRow t E r read)

theorem rf_removeCommitted_cfg (t : Cache) (f : Option Nat) : (t.removeCommitted f).cfg = t.cfg := by
  unfold removeCommitted
  cases f with
  | none => rfl
  | some f => simp only; split <;> rfl

theorem rf_setBody_cfg (dbk : SqlVal) (raw : Bool) (now : Int) (c : Cols) (t : Cache) :
    (setBody dbk raw now c t).s.cfg = t.cfg := by
  unfold setBody
  split
  · rfl
  simp only
  split
  · rfl
  split <;> (simp only; rw [rf_cullW_cfg]; rfl)

theorem rf_set_cfg (s : Cache) (E : Externals) (now : Int) (k v : PyVal) (ttl : Option Int) (read : Bool)
    (tag : SqlVal) : (s.set E now k v ttl read tag).1.cfg = s.cfg := by
  rw [set_eq]
  cases hst : s.store E v read with
  | error e => rfl
  | ok p =>
    obtain ⟨s1, c⟩ := p
    simp only
    rw [rf_transact_cfg, (store_keep hst).2.1]
    intro t ht
    rw [rf_setBody_cfg, ht]

theorem rf_addBody_cfg (dbk : SqlVal) (raw : Bool) (now : Int) (c : Cols) (t : Cache) :
    (rf_addBody dbk raw now c t).s.cfg = t.cfg := by
  unfold rf_addBody
  split
  · rfl
  simp only
  split
  · split
    · rfl
    split
    · rfl
    · simp only; rw [rf_cullW_cfg]; rfl
  · split
    · rfl
    · simp only; rw [rf_cullW_cfg]; rfl

theorem rf_add_cfg (s : Cache) (E : Externals) (now : Int) (k v : PyVal) (ttl : Option Int) (read : Bool)
    (tag : SqlVal) : (s.add E now k v ttl read tag).1.cfg = s.cfg := by
  rw [rf_add_eq]
  cases hst : s.store E v read with
  | error e => rfl
  | ok p =>
    obtain ⟨s1, c⟩ := p
    simp only
    rw [rf_transact_cfg, (store_keep hst).2.1]
    intro t ht
    rw [rf_addBody_cfg, ht]

theorem rf_touch_cfg (s : Cache) (E : Externals) (now : Int) (k : PyVal) (ttl : Option Int) :
    (s.touch E now k ttl).1.cfg = s.cfg := by
  rw [rf_touch_eq, rf_transact_cfg]
  intro t ht
  unfold rf_touchBody
  simp only
  split
  · split <;> exact ht
  · exact ht

theorem rf_incrFresh_cfg (E : Externals) (dbk : SqlVal) (raw : Bool) (now delta : Int)
    (dflt : Option Int) (t : Cache) (upd : Option Row) :
    (rf_incrFresh E dbk raw now delta dflt t upd).s.cfg = t.cfg := by
  unfold rf_incrFresh
  split
  · rfl
  simp only
  split
  · rfl
  · rename_i t1 c hst
    have := (store_keep hst).2.1
    split <;> (simp only; rw [rf_cullW_cfg]; first | exact this | (show (t1.regCreated c.file).cfg = t.cfg; rw [regCreated_cfg]; exact this))

theorem rf_incr_cfg (s : Cache) (E : Externals) (now : Int) (k : PyVal) (delta : Int) (dflt : Option Int) :
    (s.incr E now k delta dflt).1.cfg = s.cfg := by
  rw [rf_incr_eq, rf_transact_cfg]
  intro t ht
  unfold rf_incrBody
  simp only
  split
  · rw [rf_incrFresh_cfg]; exact ht
  · split
    · rw [rf_incrFresh_cfg]; exact ht
    · split
      · split <;> exact ht
      · exact ht

theorem rf_get_cfg (s : Cache) (E : Externals) (now : Int) (k : PyVal) (read et tg : Bool) :
    (s.get E now k read et tg).1.cfg = s.cfg := by
  unfold get
  rcases DC.put E s.cfg.disk k with ⟨dbk, raw⟩
  simp only
  split
  · split
    · rfl
    · split <;> (simp only; rw [rf_fetchRow_cfg]; rfl)
  · rw [rf_transact_cfg]
    intro t ht
    split
    · split <;> exact ht
    · rename_i r _
      have h1 : ((t.logSql "selLive").fetchRow E r read).1.cfg = s.cfg := by
        rw [rf_fetchRow_cfg]; exact ht
      split
      · split <;> exact h1
      · simp only
        split <;> split <;> first | exact h1 | (show (Cache.updGet _ _ _).cfg = _; exact h1)

theorem rf_contains_cfg (s : Cache) (E : Externals) (now : Int) (k : PyVal) :
    (s.contains E now k).1.cfg = s.cfg := rfl

theorem rf_delitem_cfg (s : Cache) (E : Externals) (now : Int) (k : PyVal) :
    (s.delitem E now k).1.cfg = s.cfg := by
  rw [rf_delitem_eq, rf_transact_cfg]
  intro t ht
  unfold rf_delBody
  simp only
  split
  · exact ht
  · rw [rf_delRow_cfg]; exact ht

theorem rf_delete_cfg (s : Cache) (E : Externals) (now : Int) (k : PyVal) :
    (s.delete E now k).1.cfg = s.cfg := by
  rw [delete_fst_fl]; exact rf_delitem_cfg s E now k

theorem rf_pop_cfg (s : Cache) (E : Externals) (now : Int) (k : PyVal) (et tg : Bool) :
    (s.pop E now k et tg).1.cfg = s.cfg := by
  cases hsel : s.selLive (DC.put E s.cfg.disk k).1 (DC.put E s.cfg.disk k).2 now with
  | some r =>
    rw [rf_pop_some hsel]
    simp only
    rw [rf_removeCommitted_cfg, rf_fetchRow_cfg, rf_transact_cfg]
    intro t ht
    simp only
    rw [rf_delRow_cfg]; exact ht
  | none =>
    rw [rf_pop_none hsel]
    simp only
    rw [rf_transact_cfg]
    intro t ht
    exact ht

theorem rf_clearLoop_cfg : ∀ (fuel : Nat) (s : Cache) (cur n : Nat),
    (clearLoop fuel s cur n).1.cfg = s.cfg := by
  intro fuel
  induction fuel with
  | zero => intro s cur n; rfl
  | succ f ih =>
    intro s cur n
    unfold clearLoop
    simp only
    split
    · exact (deletePage_keep _ _ _).2.2.2.1
    · rw [ih]; exact (deletePage_keep _ _ _).2.2.2.1

theorem rf_evictLoop_cfg (tag : SqlVal) : ∀ (fuel : Nat) (s : Cache) (cur n : Nat),
    (evictLoop tag fuel s cur n).1.cfg = s.cfg := by
  intro fuel
  induction fuel with
  | zero => intro s cur n; rfl
  | succ f ih =>
    intro s cur n
    unfold evictLoop
    simp only
    split
    · exact (deletePage_keep _ _ _).2.2.2.1
    · rw [ih]; exact (deletePage_keep _ _ _).2.2.2.1

theorem rf_expireLoop_cfg (now : Int) : ∀ (fuel : Nat) (s : Cache) (lo : Option Int) (n : Nat),
    (expireLoop now fuel s lo n).1.cfg = s.cfg := by
  intro fuel
  induction fuel with
  | zero => intro s lo n; rfl
  | succ f ih =>
    intro s lo n
    unfold expireLoop
    simp only
    split
    · exact (deletePage_keep _ _ _).2.2.2.1
    · rw [ih]; exact (deletePage_keep _ _ _).2.2.2.1

theorem rf_clear_cfg (s : Cache) : (s.clear).1.cfg = s.cfg := by
  unfold clear
  have := rf_clearLoop_cfg (s.rows.length + 1) s 0 0
  generalize clearLoop (s.rows.length + 1) s 0 0 = r at this
  rcases r with ⟨s1, n1⟩
  exact this

theorem rf_evict_cfg (s : Cache) (tag : SqlVal) : (s.evict tag).1.cfg = s.cfg := by
  unfold evict
  have := rf_evictLoop_cfg tag (s.rows.length + 1) s 0 0
  generalize evictLoop tag (s.rows.length + 1) s 0 0 = r at this
  rcases r with ⟨s1, n1⟩
  exact this

theorem rf_expire_cfg (s : Cache) (now : Int) : (s.expire now).1.cfg = s.cfg := by
  unfold expire
  have := rf_expireLoop_cfg now (s.rows.length + 1) s none 0
  generalize expireLoop now (s.rows.length + 1) s none 0 = r at this
  rcases r with ⟨s1, n1⟩
  exact this

theorem rf_cull_cfg (s : Cache) (now : Int) (hp : s.cfg.policy = .none) : (s.cull now).1.cfg = s.cfg := by
  rw [cull_eq]
  have := rf_expireLoop_cfg now (s.rows.length + 1) s none 0
  generalize expireLoop now (s.rows.length + 1) s none 0 = r at this
  rcases r with ⟨s1, n1⟩
  simp only at this ⊢
  rw [this, hp]
  exact this

/-- no call of the specification changes the configuration -/
theorem rf_step_cfg (c : Cache) (op : Op) (hk : Keyed op = true) (hp : c.cfg.policy = .none) :
    (c.step op).1.cfg = c.cfg := by
  cases op <;> simp only [Keyed, Bool.false_eq_true] at hk <;> simp only [step]
  · exact rf_set_cfg ..
  · exact rf_add_cfg ..
  · exact rf_touch_cfg ..
  · exact rf_incr_cfg ..
  · exact rf_get_cfg ..
  · exact rf_contains_cfg ..
  · exact rf_pop_cfg ..
  · exact rf_delitem_cfg ..
  · exact rf_delete_cfg ..
  · exact rf_clear_cfg ..
  · exact rf_evict_cfg ..
  · exact rf_expire_cfg ..
  · exact rf_cull_cfg _ _ hp

end DC.Cache
