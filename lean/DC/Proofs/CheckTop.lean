/- helper lemmas for C17_Top: order of the warnings, idempotence of the repair, stray files -/
import DC.Proofs.CheckLemmas

namespace DC.Check

theorem filter_sublist_filter {α} (l : List α) {p q : α → Bool} (h : ∀ a ∈ l, p a = true → q a = true) :
    (l.filter p).Sublist (l.filter q) := by
  induction l with
  | nil => simp
  | cons a l ih =>
    simp only [List.mem_cons, forall_eq_or_imp] at h
    have ih := ih h.2
    by_cases hp : p a = true
    · simp only [List.filter_cons, hp, h.1 hp, if_true]; exact ih.cons_cons a
    · by_cases hq : q a = true
      · simp only [List.filter_cons, hp, hq, if_true]; exact ih.cons a
      · simp only [List.filter_cons, hp, hq]; exact ih

theorem filterMap_eq_self {α} (l : List α) (f : α → Option α) (h : ∀ a ∈ l, f a = some a) :
    l.filterMap f = l := by
  induction l with
  | nil => rfl
  | cons a l ih =>
    simp only [List.mem_cons, forall_eq_or_imp] at h
    rw [List.filterMap_cons, h.1, ih h.2]

theorem filter_eq_self' {α} (l : List α) (p : α → Bool) (h : ∀ a ∈ l, p a = true) : l.filter p = l :=
  List.filter_eq_self.2 h

/-- the directory warnings of plain check are, in order, among those of the fixing walk after
unknown files have been removed -/
theorem dirPass_sublist (s : St) (fs : List FsFile) (hsub : ∀ f ∈ fs, f ∈ s.files) :
    (dirPass false s).2.Sublist (dirPass true { s with files := fs }).2 := by
  rw [dirPass_snd_false, dirPass_snd_true]
  refine List.Sublist.append (List.Sublist.map _ ?_) (List.Sublist.map _ ?_)
  · apply filter_sublist_filter
    intro d _ he
    simp only [dir2Empty, Bool.not_eq_true', List.any_eq_false] at he ⊢
    exact fun f hf => he f (hsub f hf)
  · apply filter_sublist_filter
    intro d _ he
    simp only [Bool.and_eq_true, Bool.not_eq_true', List.any_eq_false, List.mem_filter, and_imp] at he ⊢
    exact ⟨fun d2 hd2 _ => he.1 d2 hd2, fun f hf => he.2 f (hsub f hf)⟩

/-- a directory walk that reports nothing removes nothing and reports nothing when fixing -/
theorem dirPass_true_of_false_nil (s : St) (h : (dirPass false s).2 = []) :
    (dirPass true s).2 = [] ∧ (dirPass true s).1 = s := by
  rw [dirPass_snd_false] at h
  simp only [List.append_eq_nil_iff, List.map_eq_nil_iff] at h
  have k2 : s.dirs2.filter (fun d => !dir2Empty s d) = s.dirs2 := by
    apply filter_eq_self'
    intro d hd
    have := List.filter_eq_nil_iff.1 h.1 d hd
    simpa using this
  constructor
  · rw [dirPass_snd_true, k2, h.1, h.2]; rfl
  · rw [dirPass_fst_true, k2]
    have k1 : s.dirs1.filter (fun d => s.dirs2.any (·.1 == d) || s.files.any (·.under d)) = s.dirs1 := by
      apply filter_eq_self'
      intro d hd
      have := List.filter_eq_nil_iff.1 h.2 d hd
      simp only [Bool.and_eq_true, Bool.not_eq_true', not_and, Bool.not_eq_false] at this
      cases h1 : s.dirs2.any (·.1 == d) with
      | true => simp
      | false => simpa using this h1
    rw [k1]

/-- `check_true_snd` with the exact counter discrepancies: the row repairs keep
`Settings.count - COUNT(*)` and `Settings.size - SUM(size)` as they were -/
theorem check_true_snd_exact (s : St) (hnd : (s.rows.map (·.rowid)).Nodup) :
    ∃ c z : Int, c - ((rows' s).length : Int) = s.count - (s.rows.length : Int) ∧
      z - sumSizes (rows' s) = s.size - sumSizes s.rows ∧
      (check true s).2 = rowWarns s.files s.rows ++
        (filePass false (s.rows.filterMap (·.file)) s).2 ++
        (dirPass true { s with files := files' s }).2 ++ counterWarns c z (rows' s) := by
  have h1 := rowPass_fix s.rows s [] rfl hnd (by simp)
  have h2 := rowPass_frame true s.rows s
  simp only [List.nil_append] at h1
  refine ⟨(rowPass true s s.rows).1.count, (rowPass true s s.rows).1.size, ?_, ?_, ?_⟩
  · rw [rows', ← h1.1]; exact h1.2.1
  · rw [rows', ← h1.1]; exact h1.2.2
  · rw [check_eq]
    simp only [rowPass_warns, counterPass_snd']
    congr 1
    · congr 1
      · congr 1
        exact filePass_snd_congr _ _ _ _ _ h2.1
      · apply dirPass_snd_congr
        · rw [filePass_fst_true, h2.1]; rfl
        · rw [filePass_fst_true]; exact h2.2.1
        · rw [filePass_fst_true]; exact h2.2.2
    · rw [dirPass_fst_true, filePass_fst_true, rows', ← h1.1]

/-- the warnings of `check fix`, whatever `fix`, as four blocks: rows, unknown files, directories
(block `D`), counters (block `C`) -/
theorem check_snd_blocks (fix : Bool) (s : St) (hnd : (s.rows.map (·.rowid)).Nodup) :
    ∃ D C, (check fix s).2 = rowWarns s.files s.rows ++
        (filePass false (s.rows.filterMap (·.file)) s).2 ++ D ++ C ∧
      (∀ w ∈ D, w.kind = 2) ∧ (∀ w ∈ C, 3 ≤ w.kind) := by
  cases fix
  · exact ⟨_, _, check_false_snd' s, dirPass_kind false s, counterWarns_kind⟩
  · obtain ⟨c, z, _, _, e⟩ := check_true_snd_exact s hnd
    exact ⟨_, _, e, dirPass_kind true _, counterWarns_kind⟩

theorem unknown_mem_filePass (fix : Bool) (s : St) (i : Nat) :
    Warn.unknown i ∈ (filePass fix (s.rows.filterMap (·.file)) s).2 ↔
      ∃ f ∈ s.files, f.id = i ∧ f.db = false ∧ ∀ r ∈ s.rows, r.file ≠ some i := by
  rw [filePass_snd]
  simp only [List.mem_map, List.mem_filter, Warn.unknown.injEq]
  constructor
  · rintro ⟨f, ⟨hf, hp⟩, rfl⟩
    simp only [Bool.and_eq_true, Bool.not_eq_true'] at hp
    refine ⟨f, hf, rfl, hp.2, ?_⟩
    simpa [List.mem_filterMap] using hp.1
  · rintro ⟨f, hf, rfl, hdb, hn⟩
    refine ⟨f, ⟨hf, ?_⟩, rfl⟩
    simp only [Bool.and_eq_true, Bool.not_eq_true', hdb, and_true]
    simpa [List.mem_filterMap] using hn

theorem unknown_nodup (fix : Bool) (named : List Nat) (s : St) (nd : (s.files.map (·.id)).Nodup) :
    (filePass fix named s).2.Nodup := by
  rw [filePass_snd]
  have : ((s.files.filter (fun f => !named.contains f.id && !f.db)).map (·.id)).Nodup :=
    nd.sublist ((List.filter_sublist).map _)
  have e : (s.files.filter (fun f => !named.contains f.id && !f.db)).map (fun f => Warn.unknown f.id) =
      ((s.files.filter (fun f => !named.contains f.id && !f.db)).map (·.id)).map Warn.unknown := by
    simp
  rw [e]
  exact List.Pairwise.map Warn.unknown (fun a b h e => h (by cases e; rfl)) this

theorem eq_of_mem_nodup_map {α β} (k : α → β) {l : List α} (nd : (l.map k).Nodup) {a b : α}
    (ha : a ∈ l) (hb : b ∈ l) (e : k a = k b) : a = b := by
  induction l with
  | nil => cases ha
  | cons x l ih =>
    simp only [List.map_cons, List.nodup_cons, List.mem_map, not_exists, not_and] at nd
    rcases List.mem_cons.1 ha with ea | ha' <;> rcases List.mem_cons.1 hb with eb | hb'
    · rw [ea, eb]
    · exact absurd (ea ▸ e.symm) (nd.1 b hb')
    · exact absurd (eb ▸ e) (nd.1 a ha')
    · exact ih nd.2 ha' hb'

/-- the warning (if any) one row gives -/
def rowWarn1 (files : List FsFile) (r : CRow) : List Warn :=
  match r.file with
  | none => []
  | some f =>
    match files.find? (·.id == f) with
    | some ff => if ff.size != r.size then [.wrongSize r.rowid ff.size r.size] else []
    | none => [.notFound r.rowid]

theorem rowWarns_eq_flatMap (files : List FsFile) (rows : List CRow) :
    rowWarns files rows = rows.flatMap (rowWarn1 files) := by
  induction rows with
  | nil => rfl
  | cons r rest ih =>
    rw [rowWarns, List.flatMap_cons, ← ih, rowWarn1]
    cases hf : r.file with
    | none => rfl
    | some f =>
      cases hff : files.find? (·.id == f) with
      | none => simp only [hff]; rfl
      | some ff => by_cases hsz : ff.size = r.size <;> simp [hsz, hff]

theorem rowWarn1_none {files : List FsFile} {r : CRow} (h : r.file = none) : rowWarn1 files r = [] := by
  simp [rowWarn1, h]

theorem rowWarn1_missing {files : List FsFile} {r : CRow} {f : Nat} (h : r.file = some f)
    (h2 : files.find? (·.id == f) = none) : rowWarn1 files r = [.notFound r.rowid] := by
  simp only [rowWarn1, h, h2]

theorem rowWarn1_found {files : List FsFile} {r : CRow} {f : Nat} {ff : FsFile} (h : r.file = some f)
    (h2 : files.find? (·.id == f) = some ff) :
    rowWarn1 files r = if ff.size = r.size then [] else [.wrongSize r.rowid ff.size r.size] := by
  simp only [rowWarn1, h, h2]
  by_cases hsz : ff.size = r.size <;> simp [hsz]

theorem notFound_mem_rowWarns (files : List FsFile) (rows : List CRow) (k : Nat) :
    Warn.notFound k ∈ rowWarns files rows ↔
      ∃ r ∈ rows, r.rowid = k ∧ ∃ f, r.file = some f ∧ files.find? (·.id == f) = none := by
  rw [rowWarns_eq_flatMap, List.mem_flatMap]
  refine exists_congr (fun r => and_congr_right (fun _ => ?_))
  cases hf : r.file with
  | none => rw [rowWarn1_none hf]; simp
  | some f =>
    cases hff : files.find? (·.id == f) with
    | none =>
      rw [rowWarn1_missing hf hff]
      simp only [List.mem_singleton, Warn.notFound.injEq, Option.some.injEq]
      constructor
      · rintro rfl; exact ⟨rfl, f, rfl, hff⟩
      · rintro ⟨h, _⟩; exact h.symm
    | some ff =>
      rw [rowWarn1_found hf hff]
      constructor
      · intro h; split at h <;> simp at h
      · rintro ⟨_, f', e1, e2⟩
        cases e1; rw [hff] at e2; cases e2

theorem wrongSize_mem_rowWarns (files : List FsFile) (rows : List CRow) (k a b : Nat) :
    Warn.wrongSize k a b ∈ rowWarns files rows ↔
      ∃ r ∈ rows, r.rowid = k ∧ r.size = b ∧ ∃ f ff, r.file = some f ∧
        files.find? (·.id == f) = some ff ∧ ff.size = a ∧ a ≠ b := by
  rw [rowWarns_eq_flatMap, List.mem_flatMap]
  refine exists_congr (fun r => and_congr_right (fun _ => ?_))
  cases hf : r.file with
  | none => rw [rowWarn1_none hf]; simp
  | some f =>
    cases hff : files.find? (·.id == f) with
    | none =>
      rw [rowWarn1_missing hf hff]
      constructor
      · intro h; simp at h
      · rintro ⟨_, _, f', ff', e1, e2, _⟩
        cases e1; rw [hff] at e2; cases e2
    | some ff =>
      rw [rowWarn1_found hf hff]
      by_cases hsz : ff.size = r.size
      · rw [if_pos hsz]
        constructor
        · intro h; cases h
        · rintro ⟨_, hb, f', ff', e1, e2, ha, hne⟩
          cases e1; rw [hff] at e2; cases e2
          omega
      · rw [if_neg hsz]
        simp only [List.mem_singleton, Warn.wrongSize.injEq]
        constructor
        · rintro ⟨rfl, rfl, rfl⟩
          exact ⟨rfl, rfl, f, ff, rfl, hff, rfl, hsz⟩
        · rintro ⟨h1, h2, f', ff', e1, e2, ha, _⟩
          cases e1; rw [hff] at e2; cases e2
          exact ⟨h1.symm, ha.symm, h2.symm⟩

end DC.Check
