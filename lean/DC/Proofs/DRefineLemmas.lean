/-
C11_Refine, helper lemmas: `Disk.store` in terms of `place` (without the quiescence
that `rf_store` needs), readability of stored representations, one round of
`pull` / `peek` outside a block, Python indexing on lists.
-/
import DC.Proofs.DRefineBlock
import DC.Proofs.RefineCfg
import DC.Model.DSpec

namespace DC.Cache
open DC.Spec

/-! ### `Disk.store` and `place` -/

theorem drf_fileGet_append_new (x : Cache) (ct : Content) (l : List (Nat × Content))
    (hl : l = x.files ++ [(x.nfile, ct)]) (hfresh : ∀ p ∈ x.files, p.1 < x.nfile) :
    (l.find? (·.1 == x.nfile)).map (·.2) = some ct := by
  rw [hl, List.find?_append]
  have : x.files.find? (·.1 == x.nfile) = none := by
    rw [List.find?_eq_none]
    intro p hp
    have := hfresh p hp
    simp only [beq_iff_eq]
    omega
  rw [this]
  simp

/-- `Disk.store` in terms of `place`, for any state whose file ids are below the allocation
counter: on success the new columns denote `entryOf` of the placement -/
theorem drf_store_place (x : Cache) (E : Externals) (v : PyVal)
    (hfresh : ∀ p ∈ x.files, p.1 < x.nfile) :
    match place E x.cfg.disk x.cfg.minFileSize v false with
    | .error e => x.store E v false = .error e
    | .ok p => ∃ x1 c, x.store E v false = .ok (x1, c) ∧ c.expT = none ∧ c.tag = .null ∧
        c.val = (entryOf p none .null).val ∧ (c.file ≠ none → c.val = .null) ∧
        (∀ r : Row, r.mode = c.mode → r.val = c.val → r.file = c.file →
          rf_ent x1 r = entryOf p r.expT r.tag) := by
  unfold store
  cases hpl : place E x.cfg.disk x.cfg.minFileSize v false with
  | error e => rfl
  | ok p =>
    cases p with
    | inline mode sv =>
      refine ⟨x, _, rfl, rfl, rfl, rfl, fun h => absurd rfl h, ?_⟩
      intro r h1 h2 h3
      simp only at h1 h2 h3
      unfold rf_ent entryOf
      simp [h1, h2, h3]
    | file mode ct =>
      refine ⟨(x.fwrite ct).1, _, rfl, rfl, rfl, rfl, fun _ => rfl, ?_⟩
      intro r h1 h2 h3
      simp only at h1 h2 h3
      have hget : (x.fwrite ct).1.fileGet x.nfile = some ct :=
        drf_fileGet_append_new x ct _ rfl hfresh
      unfold rf_ent entryOf
      have h3' : r.file = some x.nfile := h3
      simp [h1, h2, h3', hget]

/-! ### readable stored representations -/

/-- the stored representation can be read back: `Disk.fetch` does not fail on it -/
def drf_Readable (e : Entry) : Prop :=
  ∀ (E : Externals) (dk : DiskKind), fetch E dk e.mode e.content e.content.isSome e.val false ≠ .ioerror

theorem drf_Disk_place_readable (E : Externals) (mfs : Nat) (v : PyVal) (p : Placement)
    (h : Disk.place E mfs v false = .ok p) (eT : Option Int) (tg : SqlVal) (E' : Externals) :
    Disk.fetch E' (entryOf p eT tg).mode (entryOf p eT tg).content (entryOf p eT tg).content.isSome
      (entryOf p eT tg).val false ≠ .ioerror := by
  unfold Disk.place at h
  simp only [Bool.false_eq_true, if_false] at h
  cases v <;> simp only at h <;> (repeat' split at h) <;> cases h <;>
    simp [entryOf, Disk.fetch, MODE_RAW, MODE_BINARY, MODE_TEXT, MODE_PICKLE]

theorem drf_fetch_ioerror (E : Externals) (dk : DiskKind) (mode : Nat) (file : Option Content) (hf : Bool)
    (v : SqlVal) (rd : Bool) (h : Disk.fetch E mode file hf v rd ≠ .ioerror) :
    fetch E dk mode file hf v rd ≠ .ioerror := by
  cases dk with
  | pickle => exact h
  | json =>
    unfold fetch
    simp only
    split
    · split <;> simp
    · exact h

theorem drf_place_readable (E : Externals) (dk : DiskKind) (mfs : Nat) (v : PyVal) (p : Placement)
    (h : place E dk mfs v false = .ok p) (eT : Option Int) (tg : SqlVal) :
    drf_Readable (entryOf p eT tg) := by
  intro E' dk'
  apply drf_fetch_ioerror
  cases dk with
  | pickle => exact drf_Disk_place_readable E mfs v p h eT tg E'
  | json =>
    unfold place at h
    simp only [Bool.false_eq_true, if_false] at h
    exact drf_Disk_place_readable E mfs _ p h eT tg E'

/-! ### one round of `pull` / `peek` outside a block -/

theorem drf_pullSel_core (s : Cache) (hd : s.depth = 0) : core (pullSel s) = core s :=
  rf_transact_core_same s selBody none hd ⟨rfl, rfl, rfl⟩

theorem drf_filter_nil_cl (l : List (Nat × Content)) :
    l.filter (fun p => !([] : List (Option Nat)).contains (some p.1)) = l := by
  rw [List.filter_eq_self]; intros; rfl

theorem drf_pullTake_zero (s : Cache) (E : Externals) (r : Row) (hd : s.depth = 0) :
    core (pullTake s E r) =
      { core s with rows := s.rows.filter (fun a => ![r.rowid].contains a.rowid),
                    files := s.files.filter (fun p => ![r.file].contains (some p.1)) } := by
  have h1 : core (pullDel s r []) =
      { core s with rows := s.rows.filter (fun a => ![r.rowid].contains a.rowid) } := by
    unfold pullDel
    rw [transact_ok_core s (delBody r []) none hd rfl]
    unfold delBody
    simp only [core_delRow, core_logSql, core_log, core_files, drf_filter_nil_cl]
    rfl
  have hd2 : ((pullDel s r []).fetchRow E r false).1.depth = 0 := by
    have := congrArg Core.depth ((core_fetchRow (pullDel s r []) E r false).trans h1)
    simp only [core_depth] at this
    rw [this]; exact hd
  unfold pullTake
  rw [removeCommitted_zero _ _ hd2, core_fremoveAll, core_fetchRow, h1]
  rfl

theorem drf_pull_none (s : Cache) (E : Externals) (now : Int) (front : Bool)
    (hh : qhead s none front = none) :
    (s.pull E now none front false false).1 = pullSel s := by
  unfold pull
  rw [pullLoop_succ]
  simp only [hh]

theorem drf_peek_none (s : Cache) (E : Externals) (now : Int) (front : Bool)
    (hh : qhead s none front = none) :
    (s.peek E now none front false false).1 = pullSel s := by
  unfold peek
  rw [peekLoop_succ]
  simp only [hh]

theorem drf_peek_one (s : Cache) (E : Externals) (now : Int) (front : Bool) (r : Row)
    (hh : qhead s none front = some r) (hlive : expired now r = false)
    (hf : (s.fetchRow E r false).2 ≠ .ioerror) :
    (s.peek E now none front false false).1 = ((pullSel s).fetchRow E r false).1 := by
  unfold peek
  rw [peekLoop_succ]
  simp only [hh, hlive, Bool.false_eq_true, if_false]
  rw [pullSel_fetch s E r]
  split
  · contradiction
  · rfl

theorem drf_peek_core (s : Cache) (E : Externals) (now : Int) (front : Bool) (hd : s.depth = 0)
    (hlive : ∀ r ∈ s.queueRows none, expired now r = false)
    (hf : ∀ r ∈ s.queueRows none, (s.fetchRow E r false).2 ≠ .ioerror) :
    core (s.peek E now none front false false).1 = core s := by
  cases hh : qhead s none front with
  | none => rw [drf_peek_none s E now front hh, drf_pullSel_core s hd]
  | some r =>
    have hr := qhead_mem hh
    rw [drf_peek_one s E now front r hh (hlive r hr) (hf r hr), core_fetchRow, drf_pullSel_core s hd]

/-! ### what reading a readable item returns -/

theorem drf_valueOf (c : Cache) (E : Externals) (r : Row)
    (href : ∀ f, r.file = some f → ∃ ct, c.fileGet f = some ct) (hrd : drf_Readable (rf_ent c r)) :
    (c.fetchRow E r false).2 ≠ .ioerror ∧
    DSpec.valueOf (rf_ent c r) E c.cfg = fetchedOut (c.fetchRow E r false).2 := by
  have hfr := rf_fetchRow c E r false href
  have hne : (c.fetchRow E r false).2 ≠ .ioerror := by rw [hfr]; exact hrd E c.cfg.disk
  refine ⟨hne, ?_⟩
  unfold DSpec.valueOf Entry.out
  rw [← hfr]
  generalize (c.fetchRow E r false).2 = f at hne
  cases f <;> simp [withFlags] at hne ⊢

/-! ### the stages of a block, in terms of rows, files and entries -/

theorem drf_BI_nodup {x : Cache} (h : drf_BI x) : (x.files.map (·.1)).Nodup := h.pi.nodup

theorem drf_BI_href {x : Cache} (h : drf_BI x) {a : Row} (ha : a ∈ x.rows) :
    ∀ f, a.file = some f → ∃ ct, x.fileGet f = some ct := by
  intro f hf
  obtain ⟨-, ct, h1, -⟩ := h.pi.ref a ha f hf
  exact ⟨ct, fileGet_of_mem (drf_BI_nodup h) h1⟩

theorem drf_ent_files {a b : Cache} (h : a.files = b.files) (r : Row) : rf_ent a r = rf_ent b r := by
  unfold rf_ent fileGet
  rw [h]

/-- leaving the block: a quiescent state with the same table; the surviving rows denote the same
entries -/
theorem drf_stage_tend (x : Cache) (h : drf_BI x) :
    Good x.tend ∧ x.tend.rows = x.rows ∧ x.tend.cfg = x.cfg ∧ x.tend.statistics = x.statistics ∧
    x.tend.queueRows none = x.queueRows none ∧
    (x.pending = [] → x.tend.files = x.files) ∧
    (∀ a ∈ x.tend.rows, rf_ent x.tend a = rf_ent x a) := by
  obtain ⟨hg, hc⟩ := drf_BI_tend x h
  have hfiles : x.tend.files = x.files.filter (fun p => !x.pending.contains (some p.1)) :=
    congrArg Core.files hc
  refine ⟨hg, congrArg Core.rows hc, congrArg Core.cfg hc, congrArg Core.statistics hc,
    tend_queueRows x none, ?_, ?_⟩
  · intro hp
    rw [hfiles, hp, drf_filter_nil_cl]
  · intro a ha
    exact rf_ent_mono (a := x.tend) (b := x)
      (by intro p hp; rw [hfiles] at hp; exact (List.mem_filter.1 hp).1) (drf_BI_nodup h)
      (rf_good_ref hg ha)

/-- one round of `pull` inside the block -/
theorem drf_stage_pull (x : Cache) (E : Externals) (now : Int) (front : Bool) (r : Row)
    (h : drf_BI x) (hh : qhead x none front = some r) (hlive : expired now r = false)
    (hf : (x.fetchRow E r false).2 ≠ .ioerror) :
    drf_BI (x.pull E now none front false false).1 ∧
    (x.pull E now none front false false).1.rows = x.rows.filter (fun a => ![r.rowid].contains a.rowid) ∧
    (x.pull E now none front false false).1.cfg = x.cfg ∧
    (x.pull E now none front false false).1.statistics = x.statistics ∧
    (x.pull E now none front false false).1.files = x.files := by
  obtain ⟨hb, hc⟩ := drf_BI_pull x E now front r h hh hlive hf
  exact ⟨hb, congrArg Core.rows hc, congrArg Core.cfg hc, congrArg Core.statistics hc,
    congrArg Core.files hc⟩

/-- the number `push` picks keeps the budget: one step beyond the end item, or the origin -/
theorem drf_pushNum_bounds (s : Cache) (back : Bool) (n : Nat) {num : Int}
    (hroom : ∀ r ∈ s.queueRows none, ∀ k, queueNum r.key = some k →
      1 + ((n + 1 : Nat) : Int) ≤ k ∧ k + ((n + 1 : Nat) : Int) ≤ 999999999999998)
    (hor : n + 1 ≤ s.cfg.qorigin ∧ s.cfg.qorigin + (n + 1) ≤ 999999999999999)
    (hn : pushNum s none back = some num) :
    1 + (n : Int) ≤ num ∧ num + (n : Int) ≤ 999999999999998 := by
  unfold pushNum at hn
  split at hn
  · simp only [Option.some.injEq] at hn
    subst hn
    constructor <;> omega
  · rename_i r hr
    have hmem : r ∈ s.queueRows none := by
      cases back with
      | true => exact lastRow?_mem hr
      | false => exact List.mem_of_head? hr
    cases hk : queueNum r.key with
    | none => rw [hk] at hn; cases hn
    | some k =>
      rw [hk] at hn
      simp only [Option.map_some, Option.some.injEq] at hn
      have := hroom r hmem k hk
      subst hn
      cases back <;> simp <;> omega

/-- the first stage of `append` / `appendleft` when the value can be stored: inside the block one
row is added at the chosen end; it denotes the entry of the placement; nothing else changes -/
theorem drf_stage_push (s : Cache) (E : Externals) (now : Int) (v : PyVal) (left : Bool) (n : Nat)
    (hg : Good s) (hpol : s.cfg.policy = .none) (hnoexp : ∀ r ∈ s.rows, r.expT = none)
    (hqok : QueueOk s none) (hor : OriginOk s)
    (hroom : ∀ r ∈ s.queueRows none, ∀ k, queueNum r.key = some k →
      1 + ((n + 1 : Nat) : Int) ≤ k ∧ k + ((n + 1 : Nat) : Int) ≤ 999999999999998)
    (horN : n + 1 ≤ s.cfg.qorigin ∧ s.cfg.qorigin + (n + 1) ≤ 999999999999999)
    {p : Placement} (hpl : place E s.cfg.disk s.cfg.minFileSize v false = .ok p)
    (hbind : bindable (entryOf p none .null).val = true) :
    ∃ (r : Row) (num : Int),
      drf_BI (s.tbegin.push E now v none (!left) none false .null).1 ∧
      (s.tbegin.push E now v none (!left) none false .null).1.pending = [] ∧
      (s.tbegin.push E now v none (!left) none false .null).1.rows = s.rows ++ [r] ∧
      (s.tbegin.push E now v none (!left) none false .null).1.queueRows none =
        (if left then r :: s.queueRows none else s.queueRows none ++ [r]) ∧
      (s.tbegin.push E now v none (!left) none false .null).1.cfg = s.cfg ∧
      (s.tbegin.push E now v none (!left) none false .null).1.statistics = s.statistics ∧
      r.expT = none ∧ r.key = .int num ∧ 1 + (n : Int) ≤ num ∧ num + (n : Int) ≤ 999999999999998 ∧
      (∀ q ∈ s.files, q ∈ (s.tbegin.push E now v none (!left) none false .null).1.files) ∧
      rf_ent (s.tbegin.push E now v none (!left) none false .null).1 r = entryOf p none .null ∧
      (s.tbegin.push E now v none (!left) none false .null).2 = .val (.int num) := by
  obtain ⟨hb0, hp0⟩ := drf_BI_tbegin s hg
  have hfresh : ∀ q ∈ s.tbegin.files, q.1 < s.tbegin.nfile := hb0.pi.fresh
  have hsp := drf_store_place s.tbegin E v hfresh
  rw [tbegin_cfg, hpl] at hsp
  obtain ⟨x1, c, hst, he, ht, hval, -, hent⟩ := hsp
  have hb : (colsOf c none now .null).bindable = true := by
    show (DC.Cache.bindable .null && DC.Cache.bindable c.val) = true
    rw [hval, hbind]; rfl
  have hinv : TableInv s.tbegin := tbegin_inv _ hg.tinv
  have hq : QueueOk s.tbegin none := by unfold QueueOk; rw [tbegin_queueRows]; exact hqok
  have hor' : OriginOk s.tbegin := by unfold OriginOk; rw [tbegin_cfg]; exact hor
  have hroom' : ∀ r ∈ s.tbegin.queueRows none, ∀ k, queueNum r.key = some k →
      1 + ((n + 1 : Nat) : Int) ≤ k ∧ k + ((n + 1 : Nat) : Int) ≤ 999999999999998 := by
    rw [tbegin_queueRows]; exact hroom
  have hroomtb : ∀ r ∈ s.tbegin.queueRows none, ∀ k, queueNum r.key = some k →
      2 ≤ k ∧ k ≤ 999999999999997 := by
    intro r hr k hk
    have := hroom' r hr k hk
    constructor <;> omega
  obtain ⟨num, hnum, hfit, hrm, hord⟩ := pushNum_spec s.tbegin none (!left) hinv hq hor'
  obtain ⟨hn1, hn2⟩ := hrm hroomtb
  have hsel := selKey_new_none s.tbegin none num hn1 hn2 (!left) hord
  have hbk := bindable_queueKey none num hfit (by intro q hq; cases hq)
  have hquiet : Quiet s.tbegin now := by
    refine Or.inr ⟨by rw [tbegin_cfg]; exact hpol, fun r hr => ?_⟩
    rw [tbegin_rows] at hr
    unfold expired; rw [hnoexp r hr]
  obtain ⟨hBI, hpend, hcore⟩ := drf_BI_push_ok s.tbegin E now v (!left) hb0 hp0 hst hnum hsel hb hbk hquiet
  obtain ⟨hs1, hs2, -⟩ := store_spec hst
  obtain ⟨-, -, hf3, hf4⟩ := drf_store_flat hst
  obtain ⟨-, -, hm3, hm4, hm5, -⟩ := drf_mark_core_fields x1 c.file
  have hbounds := drf_pushNum_bounds s.tbegin (!left) n hroom' (by rw [tbegin_cfg]; exact horN) hnum
  rw [tbegin_rows] at hcore
  have hR : (s.tbegin.push E now v none (!left) none false .null).1.rows =
      s.rows ++ [mkRow s.rows (queueKey none num) now (colsOf c none now .null)] := congrArg Core.rows hcore
  have hfiles : (s.tbegin.push E now v none (!left) none false .null).1.files = x1.files :=
    (congrArg Core.files hcore).trans hm3
  obtain ⟨-, -, -, -, hout⟩ := push_ok s.tbegin E now v none (!left) none .null hst hnum hsel hb hbk
  refine ⟨mkRow s.rows (queueKey none num) now (colsOf c none now .null), num, hBI, hpend, hR, ?_, ?_, ?_,
    rfl, rfl, hbounds.1, hbounds.2, ?_, ?_, hout⟩
  · have hinv' := hBI.tinv
    rw [queueRows_eq, hR, queueRows_eq]
    have hu : KeysUnique (s.rows ++ [mkRow s.rows (queueKey none num) now (colsOf c none now .null)]) := by
      rw [← hR]; exact hinv'.tbl.uniq
    have hnn : ∀ a ∈ s.rows ++ [mkRow s.rows (queueKey none num) now (colsOf c none now .null)],
        a.key ≠ .null := by rw [← hR]; exact hinv'.tbl.nonnull
    have hqf : qfilter none (mkRow s.rows (queueKey none num) now (colsOf c none now .null)) = true :=
      qfilter_iff.2 ⟨kfilter_queueKey none num hn1 hn2, rfl⟩
    cases left with
    | false =>
      simp only [Bool.false_eq_true, if_false]
      apply qrows_append_back _ hu hnn none hqf
      intro a ha
      rw [← queueRows_eq, ← tbegin_queueRows] at ha
      have := hord a ha
      simp only [Bool.not_false, if_true] at this
      exact this
    | true =>
      simp only [if_true]
      apply qrows_append_front _ hu hnn none hqf
      intro a ha
      rw [← queueRows_eq, ← tbegin_queueRows] at ha
      have := hord a ha
      simp only [Bool.not_true, Bool.false_eq_true, if_false] at this
      exact this
  · refine (congrArg Core.cfg hcore).trans ?_
    show (drf_mark x1 c.file).cfg = s.cfg
    rw [hm4, hs2, tbegin_cfg]
  · refine (congrArg Core.statistics hcore).trans ?_
    show (drf_mark x1 c.file).statistics = s.statistics
    rw [hm5, hf3]
    unfold tbegin; split <;> rfl
  · intro q hq
    rw [hfiles]
    exact hf4 q (by rw [tbegin_files]; exact hq)
  · rw [drf_ent_files hfiles]
    exact hent _ rfl rfl rfl

/-- the first stage of `append` / `appendleft` when the value cannot be stored: the `push` raises
UnicodeEncodeError and nothing changes -/
theorem drf_stage_fail (s : Cache) (E : Externals) (now : Int) (v : PyVal) (left : Bool) (hg : Good s)
    (hqok : QueueOk s none) (hor : OriginOk s)
    (hroom : ∀ r ∈ s.queueRows none, ∀ k, queueNum r.key = some k → 2 ≤ k ∧ k ≤ 999999999999997)
    (hfail : match place E s.cfg.disk s.cfg.minFileSize v false with
      | .error _ => True
      | .ok p => bindable (entryOf p none .null).val = false) :
    drf_BI (s.tbegin.push E now v none (!left) none false .null).1 ∧
    core (s.tbegin.push E now v none (!left) none false .null).1 = core s.tbegin ∧
    (s.tbegin.push E now v none (!left) none false .null).2 = .exc "UnicodeEncodeError" := by
  obtain ⟨hb0, hp0⟩ := drf_BI_tbegin s hg
  have hfresh : ∀ q ∈ s.tbegin.files, q.1 < s.tbegin.nfile := hb0.pi.fresh
  have hsp := drf_store_place s.tbegin E v hfresh
  rw [tbegin_cfg] at hsp
  cases hpl : place E s.cfg.disk s.cfg.minFileSize v false with
  | error e =>
    rw [hpl] at hsp
    simp only at hsp
    rw [push_eq, hsp]
    exact ⟨hb0, rfl, rfl⟩
  | ok p =>
    rw [hpl] at hsp hfail
    simp only at hsp hfail
    obtain ⟨x1, c, hst, -, -, hval, hfv, -⟩ := hsp
    have hb : (colsOf c none now .null).bindable = false := by
      show (DC.Cache.bindable .null && DC.Cache.bindable c.val) = false
      rw [hval, hfail]; rfl
    have hfile : c.file = none := by
      cases hcf : c.file with
      | none => rfl
      | some f =>
        have := hfv (by rw [hcf]; simp)
        rw [hval] at this
        rw [this] at hfail
        cases hfail
    have hinv : TableInv s.tbegin := tbegin_inv _ hg.tinv
    have hq : QueueOk s.tbegin none := by unfold QueueOk; rw [tbegin_queueRows]; exact hqok
    have hor' : OriginOk s.tbegin := by unfold OriginOk; rw [tbegin_cfg]; exact hor
    obtain ⟨num, hnum, -, hrm, hord⟩ := pushNum_spec s.tbegin none (!left) hinv hq hor'
    obtain ⟨hn1, hn2⟩ := hrm (by rw [tbegin_queueRows]; exact hroom)
    have hsel := selKey_new_none s.tbegin none num hn1 hn2 (!left) hord
    obtain ⟨h1, h2⟩ := drf_BI_push_unbindable s.tbegin E now v (!left) hb0 hst hfile hb
    exact ⟨h1, h2, drf_push_block_unbindable_out s.tbegin E now v (!left) (tbegin_depth_pos _) hst hnum hsel hb⟩

/-- … the exception leaves the block, which is rolled back: the state is as before -/
theorem drf_append_fail (s : Cache) (E : Externals) (now : Int) (v : PyVal) (left : Bool) (hg : Good s)
    (hqok : QueueOk s none) (hor : OriginOk s)
    (hroom : ∀ r ∈ s.queueRows none, ∀ k, queueNum r.key = some k → 2 ≤ k ∧ k ≤ 999999999999997)
    (hfail : match place E s.cfg.disk s.cfg.minFileSize v false with
      | .error _ => True
      | .ok p => bindable (entryOf p none .null).val = false) :
    Good ((s.tbegin.push E now v none (!left) none false .null).1.traise 1) ∧
    core ((s.tbegin.push E now v none (!left) none false .null).1.traise 1) = core s ∧
    (s.tbegin.push E now v none (!left) none false .null).2 = .exc "UnicodeEncodeError" := by
  obtain ⟨hBI, hc, hout⟩ := drf_stage_fail s E now v left hg hqok hor hroom hfail
  obtain ⟨h1, -, -⟩ := drf_tbegin_core s hg
  have htb : s.tbegin = { (s.log .begin) with depth := 1, snap := some s.takeSnap, pending := [], created := [] } := by
    unfold tbegin
    rw [if_pos (by simp [hg.depth])]
  have hsnap : (s.tbegin.push E now v none (!left) none false .null).1.snap = some s.takeSnap := by
    have := congrArg Core.snap hc
    simp only [core_snap] at this
    rw [this, htb]
  have hcr : (s.tbegin.push E now v none (!left) none false .null).1.created = [] := by
    have := congrArg Core.created hc
    simp only [core_created] at this
    rw [this, htb]
  have hcore := drf_traise_core _ s.takeSnap hBI.depth hsnap
  have hfin : core ((s.tbegin.push E now v none (!left) none false .null).1.traise 1) = core s := by
    rw [hcore, hcr, hc, h1]
    simp only [List.map_nil, drf_filter_nil_cl]
    have : (core s.tbegin).files = (core s).files := by simp only [core_files, tbegin_files]
    rw [this]
    rfl
  refine ⟨good_of_pi (traise_inv _ _ hBI.tinv) ?_, hfin, hout⟩
  rw [hfin]
  exact hg.pi

/-- the rest of the block after the push: an optional pull from one end, then the commit -/
theorem drf_stage_finish (X : Cache) (E : Externals) (now : Int) (trim front : Bool)
    (hBI : drf_BI X)
    (hrd : ∀ a ∈ X.rows, drf_Readable (rf_ent X a)) (hexp : ∀ a ∈ X.rows, a.expT = none)
    (hne : trim = true → X.queueRows none ≠ []) :
    Good (if trim then (X.pull E now none front false false).1 else X).tend ∧
    (if trim then (X.pull E now none front false false).1 else X).tend.cfg = X.cfg ∧
    (if trim then (X.pull E now none front false false).1 else X).tend.statistics = X.statistics ∧
    (if trim then (X.pull E now none front false false).1 else X).tend.queueRows none =
      (if trim then (if front then (X.queueRows none).tail else (X.queueRows none).dropLast)
       else X.queueRows none) ∧
    (∀ a ∈ (if trim then (X.pull E now none front false false).1 else X).tend.rows,
      a ∈ X.rows ∧ rf_ent (if trim then (X.pull E now none front false false).1 else X).tend a = rf_ent X a) := by
  cases trim with
  | false =>
    simp only [Bool.false_eq_true, if_false]
    obtain ⟨hg', hr', hc', hs', hq', -, he'⟩ := drf_stage_tend X hBI
    exact ⟨hg', hc', hs', hq', fun a ha => ⟨by rw [← hr']; exact ha, he' a ha⟩⟩
  | true =>
    simp only [if_true]
    have hLne := hne rfl
    obtain ⟨r0, hh⟩ : ∃ r0, (if front then (X.queueRows none).head?
        else (X.queueRows none).getLast?) = some r0 := by
      cases front with
      | false =>
        simp only [Bool.false_eq_true, if_false]
        exact ⟨_, List.getLast?_eq_some_getLast hLne⟩
      | true =>
        simp only [if_true]
        exact ⟨_, List.head?_eq_some_head hLne⟩
    have hqh : qhead X none front = some r0 := by unfold qhead lastRow?; exact hh
    have hr0 : r0 ∈ X.rows := (mem_qrows.1 (qhead_mem hqh)).1
    have hlive : expired now r0 = false := by unfold expired; rw [hexp r0 hr0]
    have hf : (X.fetchRow E r0 false).2 ≠ .ioerror :=
      (drf_valueOf X E r0 (drf_BI_href hBI hr0) (hrd r0 hr0)).1
    obtain ⟨hBI2, hr2, hc2, hs2, hf2⟩ := drf_stage_pull X E now front r0 hBI hqh hlive hf
    have hp2 := (pull_end X E now none front hBI.tinv r0 hh hlive hf).2
    generalize (X.pull E now none front false false).1 = Y at hBI2 hr2 hc2 hs2 hf2 hp2 ⊢
    obtain ⟨hg', hr', hc', hs', hq', -, he'⟩ := drf_stage_tend Y hBI2
    refine ⟨hg', hc'.trans hc2, hs'.trans hs2, hq'.trans hp2, ?_⟩
    intro a ha
    have hay : a ∈ Y.rows := by rw [← hr']; exact ha
    have hax : a ∈ X.rows := by rw [hr2] at hay; exact (List.mem_filter.1 hay).1
    exact ⟨hax, (he' a ha).trans (drf_ent_files hf2 a)⟩

/-! ### `clear` keeps the statistics switch -/

theorem drf_pageBody_stats (page : List Row) (sel : String) (t : Cache) :
    (pageBody page sel t).s.statistics = t.statistics := by
  unfold pageBody
  simp only
  split
  · rfl
  · have := congrArg Core.statistics (core_delIn (page.map (·.rowid)) (t.logSql sel))
    simp only [core_statistics] at this
    exact this

theorem drf_deletePage_stats (s : Cache) (page : List Row) (sel : String) :
    (s.deletePage page sel).statistics = s.statistics := by
  rw [deletePage_eq]
  by_cases hd : 0 < s.depth
  · rw [drf_transact_pos _ _ _ hd, if_pos (pageBody_ok _ _ _)]
    exact drf_pageBody_stats page sel _
  · have hd0 : s.depth = 0 := by omega
    rw [transact_zero s _ hd0 (pageBody_ok _ _ _)]
    have := congrArg Core.statistics (core_fremoveAll (pageBody page sel (s.log .begin)).cleanup
      ((pageBody page sel (s.log .begin)).s.log .commit))
    simp only [core_statistics] at this
    rw [this]
    exact drf_pageBody_stats page sel _

theorem drf_clearLoop_stats : ∀ (fuel : Nat) (s : Cache) (cur n : Nat),
    (clearLoop fuel s cur n).1.statistics = s.statistics := by
  intro fuel
  induction fuel with
  | zero => intro s cur n; rfl
  | succ f ih =>
    intro s cur n
    unfold clearLoop
    simp only
    split
    · exact drf_deletePage_stats _ _ _
    · rw [ih]; exact drf_deletePage_stats _ _ _

theorem drf_clear_stats (s : Cache) : (s.clear).1.statistics = s.statistics := by
  unfold clear
  have := drf_clearLoop_stats (s.rows.length + 1) s 0 0
  generalize clearLoop (s.rows.length + 1) s 0 0 = r at this
  rcases r with ⟨s1, n1⟩
  exact this

/-- with page size 0 the removal loop of `clear` removes nothing -/
theorem drf_clear_page0 (s : Cache) (hd : s.depth = 0) (hp : s.cfg.page = 0) :
    core (s.clear).1 = core s := by
  unfold clear
  show core (clearLoop (s.rows.length + 1) s 0 0).1 = core s
  unfold clearLoop
  simp only [hp, List.take_zero]
  show core (s.deletePage [] "pageRowid") = core s
  rw [deletePage_eq]
  exact rf_transact_core_same s (pageBody [] "pageRowid") none hd ⟨rfl, rfl, rfl⟩

end DC.Cache
