/-
C03_Refine, model side: `incr`.
-/
import DC.Proofs.RefineWrite

namespace DC.Cache
open DC.Spec

/-- the (re)creation branch of `incr` -/
def rf_incrFresh (E : Externals) (dbk : SqlVal) (raw : Bool) (now : Int) (delta : Int)
    (dflt : Option Int) (s : Cache) (upd : Option Row) : Body :=
  match dflt with
  | none => { s := s, out := .exc "KeyError", ok := false }
  | some d =>
    let value := d + delta
    match s.store E (.int value) false with
    | .error _ => { s := s, out := .exc "UnicodeEncodeError", ok := false }
    | .ok (s, c) =>
      let s := s.regCreated c.file
      match upd with
      | none =>
        let s := s.insRow dbk raw now c
        let (s, cl) := s.cullW now
        { s := s, out := .int value, cleanup := cl }
      | some r =>
        let s := s.updRow r.rowid now c
        let (s, cl) := s.cullW now
        { s := s, out := .int value, cleanup := cl ++ [r.file] }

/-- the transaction body of `incr` -/
def rf_incrBody (E : Externals) (dbk : SqlVal) (raw : Bool) (now : Int) (delta : Int)
    (dflt : Option Int) (s : Cache) : Body :=
  let old := s.selKey dbk raw
  let s := s.logSql "selKey"
  match old with
  | none => rf_incrFresh E dbk raw now delta dflt s none
  | some r =>
    if expired now r then rf_incrFresh E dbk raw now delta dflt s (some r)
    else
      match r.val with
      | .int i =>
        if inI64 (i + delta) then
          { s := s.updIncr r.rowid now (.int (i + delta)), out := .int (i + delta) }
        else { s := s.log (.sqlFail "updIncr"), out := .exc "OverflowError", ok := false }
      | _ => { s := s, out := .exc "TypeError", ok := false }

theorem rf_incr_eq (s : Cache) (E : Externals) (now : Int) (k : PyVal) (delta : Int) (dflt : Option Int) :
    s.incr E now k delta dflt =
      s.transact (rf_incrBody E (keyOf E s.cfg k).1 (keyOf E s.cfg k).2 now delta dflt) := rfl

theorem rf_incrFresh_store_gen {E : Externals} {dbk : SqlVal} {raw : Bool} {now delta d : Int}
    {t' t1 : Cache} {c : Cols} {upd : Option Row}
    (hst : t'.store E (.int (d + delta)) false = .ok (t1, c)) (hupd : t1.selKey dbk raw = upd)
    (hi : TableInv t1) (hnn : dbk ≠ .null) :
    (rf_incrFresh E dbk raw now delta (some d) t' upd).ok = true ∧
    (rf_incrFresh E dbk raw now delta (some d) t' upd).out = .int (d + delta) ∧
    CullFacts t1.cfg t1.env now (setRows dbk raw now c t1)
      (rf_incrFresh E dbk raw now delta (some d) t' upd).s ∧
    (rf_incrFresh E dbk raw now delta (some d) t' upd).s.files = t1.files := by
  unfold rf_incrFresh
  simp only [hst]
  unfold setRows
  rw [hupd]
  cases upd with
  | none =>
    simp only
    rcases regCreated_cases t1 c.file with e | ⟨g, -, -, e⟩ <;> rw [e]
    · obtain ⟨h1, h3, -⟩ := rf_cull_tail_gen (t1.insRow dbk raw now c) now (insRow_inv dbk raw now c hi hupd hnn)
      exact ⟨trivial, trivial, h1, h3⟩
    · obtain ⟨h1, h3, -⟩ := rf_cull_tail_gen (({ t1 with created := t1.created ++ [g] } : Cache).insRow dbk raw now c) now
        (insRow_inv dbk raw now c (hi.same rfl rfl rfl rfl) hupd hnn)
      exact ⟨trivial, trivial, h1, h3⟩
  | some r0 =>
    simp only
    rcases regCreated_cases t1 c.file with e | ⟨g, -, -, e⟩ <;> rw [e]
    · obtain ⟨h1, h3, -⟩ := rf_cull_tail_gen (t1.updRow r0.rowid now c) now (updRow_inv r0.rowid now c hi)
      exact ⟨trivial, trivial, h1, h3⟩
    · obtain ⟨h1, h3, -⟩ := rf_cull_tail_gen (({ t1 with created := t1.created ++ [g] } : Cache).updRow r0.rowid now c) now
        (updRow_inv r0.rowid now c (hi.same rfl rfl rfl rfl))
      exact ⟨trivial, trivial, h1, h3⟩

/-- what the (re)creation branch of `incr` does to the view -/
def rf_IncrFresh (s c' : Cache) (o : Out) (E : Externals) (K : Key) (now delta : Int)
    (dflt : Option Int) : Prop :=
  match dflt with
  | none => o = .exc "KeyError" ∧ ∀ k', rf_view c' k' = rf_view s k'
  | some d =>
    match place E s.cfg.disk s.cfg.minFileSize (.int (d + delta)) false with
    | .error _ => o = .exc "UnicodeEncodeError" ∧ ∀ k', rf_view c' k' = rf_view s k'
    | .ok p => o = .int (d + delta) ∧
        rf_Culled now (rf_at K (some (entryOf p none .null)) (rf_view s)) (rf_view c')

/-- what the (re)creation branch of `incr` does to the view, under any eviction policy -/
def rf_IncrFreshG (s c' : Cache) (o : Out) (E : Externals) (K : Key) (now delta : Int)
    (dflt : Option Int) : Prop :=
  match dflt with
  | none => o = .exc "KeyError" ∧ ∀ k', rf_view c' k' = rf_view s k'
  | some d =>
    match place E s.cfg.disk s.cfg.minFileSize (.int (d + delta)) false with
    | .error _ => o = .exc "UnicodeEncodeError" ∧ ∀ k', rf_view c' k' = rf_view s k'
    | .ok p => o = .int (d + delta) ∧ rf_Wrote s c' K now (entryOf p none .null)

theorem rf_IncrFreshG_none {s c' : Cache} {o : Out} {E : Externals} {K : Key} {now delta : Int}
    {dflt : Option Int} (h : rf_IncrFreshG s c' o E K now delta dflt) (hp : s.cfg.policy = .none) :
    rf_IncrFresh s c' o E K now delta dflt := by
  unfold rf_IncrFreshG at h
  unfold rf_IncrFresh
  cases dflt with
  | none => exact h
  | some d =>
    simp only at h ⊢
    cases hpl : place E s.cfg.disk s.cfg.minFileSize (.int (d + delta)) false with
    | error e => rw [hpl] at h; exact h
    | ok p => rw [hpl] at h; exact ⟨h.1, rf_Wrote_none h.2 hp⟩

theorem rf_incr_fresh_view (s : Cache) (E : Externals) (now : Int) (k : PyVal) (delta : Int)
    (dflt : Option Int) (hg : Good s) (upd : Option Row)
    (hupd : s.selKey (keyOf E s.cfg k).1 (keyOf E s.cfg k).2 = upd)
    (hB : rf_incrBody E (keyOf E s.cfg k).1 (keyOf E s.cfg k).2 now delta dflt (s.log .begin) =
      rf_incrFresh E (keyOf E s.cfg k).1 (keyOf E s.cfg k).2 now delta dflt
        ((s.log .begin).logSql "selKey") upd) :
    rf_IncrFreshG s (s.incr E now k delta dflt).1 (s.incr E now k delta dflt).2 E (keyOf E s.cfg k)
      now delta dflt := by
  have hg' := incr_good s E now k delta dflt hg
  rw [rf_incr_eq] at hg' ⊢
  obtain ⟨hR, hF, -, hO⟩ := rf_transact s
    (rf_incrBody E (keyOf E s.cfg k).1 (keyOf E s.cfg k).2 now delta dflt) none hg.depth
  rw [hB] at hR hF hO
  have hnn : (keyOf E s.cfg k).1 ≠ .null := put_ne_null_fl E s.cfg.disk k
  unfold rf_IncrFreshG
  cases dflt with
  | none =>
    have hb : rf_incrFresh E (keyOf E s.cfg k).1 (keyOf E s.cfg k).2 now delta none
        ((s.log .begin).logSql "selKey") upd =
        { s := (s.log .begin).logSql "selKey", out := .exc "KeyError", ok := false } := rfl
    rw [hb] at hR hF hO
    simp only [Bool.false_eq_true, if_false] at hR
    refine ⟨hO, fun k' => ?_⟩
    rw [rf_same hg' (b := s) hF hg.finv.nodup, hR]; rfl
  | some d =>
    simp only
    have hP' : PI (core ((s.log .begin).logSql "selKey")) [] := by core_simp; exact hg.pi
    have hst : (match place E s.cfg.disk s.cfg.minFileSize (.int (d + delta)) false with
        | .error e => ((s.log .begin).logSql "selKey").store E (.int (d + delta)) false = .error e
        | .ok p => ∃ s1 c, ((s.log .begin).logSql "selKey").store E (.int (d + delta)) false = .ok (s1, c) ∧
            s1.rows = ((s.log .begin).logSql "selKey").rows ∧ s1.cfg = ((s.log .begin).logSql "selKey").cfg ∧
            PI (core s1) [c.file] ∧ (∀ q ∈ ((s.log .begin).logSql "selKey").files, q ∈ s1.files) ∧
            c.expT = none ∧ c.tag = .null ∧
            c.val = (entryOf p none .null).val ∧
            (∀ r : Row, r.mode = c.mode → r.val = c.val → r.file = c.file →
              rf_ent s1 r = entryOf p r.expT r.tag)) :=
      rf_store ((s.log .begin).logSql "selKey") E (.int (d + delta)) false hP'
    cases hpl : place E s.cfg.disk s.cfg.minFileSize (.int (d + delta)) false with
    | error e =>
      rw [hpl] at hst
      simp only at hst ⊢
      have hb : rf_incrFresh E (keyOf E s.cfg k).1 (keyOf E s.cfg k).2 now delta (some d)
          ((s.log .begin).logSql "selKey") upd =
          { s := (s.log .begin).logSql "selKey", out := .exc "UnicodeEncodeError", ok := false } := by
        unfold rf_incrFresh; simp only [hst]
      rw [hb] at hR hF hO
      simp only [Bool.false_eq_true, if_false] at hR
      refine ⟨hO, fun k' => ?_⟩
      rw [rf_same hg' (b := s) hF hg.finv.nodup, hR]; rfl
    | ok p =>
      rw [hpl] at hst
      obtain ⟨t1, c, hst, hrows, hcfg, hP1, hfsub, hexp, htag, -, hent1⟩ := hst
      simp only
      have hrows' : t1.rows = s.rows := hrows
      have hi1 : TableInv t1 := (store_inv hst (logSql_inv _ (log_inv _ hg.tinv))).1
      have hsel1 : t1.selKey (keyOf E s.cfg k).1 (keyOf E s.cfg k).2 = upd :=
        (selKey_congr hrows' _ _).trans hupd
      obtain ⟨hu, -⟩ := rf_setRows_unique hi1 (keyOf E s.cfg k).1 (keyOf E s.cfg k).2 now c hnn
      obtain ⟨hok, hout, hfacts, hfiles⟩ := rf_incrFresh_store_gen (now := now) hst hsel1 hi1 hnn
      have hsz := rf_transact_size s
        (rf_incrBody E (keyOf E s.cfg k).1 (keyOf E s.cfg k).2 now delta (some d)) none hg.depth
        (by rw [hB]; exact hok)
      rw [hB] at hsz
      rw [hok] at hR
      simp only [if_true] at hR
      refine ⟨hO.trans hout, ?_⟩
      have hentS : ∀ r ∈ s.rows, rf_ent t1 r = rf_ent s r :=
        fun r hr => (rf_ent_mono (a := s) (b := t1) hfsub hP1.nodup (rf_good_ref hg hr)).symm
      have hfacts' := hfacts
      rw [show t1.cfg = s.cfg from hcfg, show t1.env = s.env from (store_env hst : t1.env = ((s.log .begin).logSql "selKey").env)] at hfacts'
      exact rf_lossy_finish (b := t1) hg hg' hfacts' hR hsz hu
        (rf_setRows_nonnull hi1 _ _ _ _ hnn)
        (by intro q hq; have := hF q hq; rw [hfiles] at this; exact this) hP1.nodup
        (rf_look_setRows (s := s) (s1 := t1) (t := t1) hg.tinv hrows' hentS
          (keyOf E s.cfg k) now c (entryOf p none .null)
          (by
            intro r h1 h2 h3 h4 h5
            rw [hent1 r h1 h2 h3, h4, h5, hexp, htag]))
        (by
          have := rf_setRows_keep hi1 (keyOf E s.cfg k) now c
          rw [hrows'] at this
          exact this)
        (by
          have h := rf_setRows_size_le hi1 (keyOf E s.cfg k).1 (keyOf E s.cfg k).2 now c hnn
          rw [show t1.size = s.size from (store_keep hst).2.2.2.1] at h
          rw [← rf_store_size hst hpl none .null]
          exact h)

theorem rf_incr_view_gen (s : Cache) (E : Externals) (now : Int) (k : PyVal) (delta : Int)
    (dflt : Option Int) (hg : Good s) :
    match rf_view s (keyOf E s.cfg k) with
    | none => rf_IncrFreshG s (s.incr E now k delta dflt).1 (s.incr E now k delta dflt).2 E
        (keyOf E s.cfg k) now delta dflt
    | some e =>
      if e.expired now then
        rf_IncrFreshG s (s.incr E now k delta dflt).1 (s.incr E now k delta dflt).2 E
          (keyOf E s.cfg k) now delta dflt
      else
        match e.val with
        | .int i =>
          if inI64 (i + delta) then
            (s.incr E now k delta dflt).2 = .int (i + delta) ∧
            ∀ k', rf_view (s.incr E now k delta dflt).1 k' =
              rf_at (keyOf E s.cfg k) (some { e with val := .int (i + delta) }) (rf_view s) k'
          else
            (s.incr E now k delta dflt).2 = .exc "OverflowError" ∧
            ∀ k', rf_view (s.incr E now k delta dflt).1 k' = rf_view s k'
        | _ =>
          (s.incr E now k delta dflt).2 = .exc "TypeError" ∧
          ∀ k', rf_view (s.incr E now k delta dflt).1 k' = rf_view s k' := by
  rcases rf_selKey_cases hg.tinv (keyOf E s.cfg k) with ⟨r, hsel, hr, hk, hv⟩ | ⟨hsel, hv⟩
  · have hsel' : (s.log .begin).selKey (keyOf E s.cfg k).1 (keyOf E s.cfg k).2 = some r := hsel
    rw [hv]
    simp only
    by_cases hx : (rf_ent s r).expired now = true
    · rw [if_pos hx]
      rw [rf_ent_expired] at hx
      apply rf_incr_fresh_view s E now k delta dflt hg (some r) hsel
      unfold rf_incrBody
      simp only [hsel', hx, if_true]
    · rw [if_neg hx]
      rw [rf_ent_expired] at hx
      have hx : expired now r = false := by simpa using hx
      have hg' := incr_good s E now k delta dflt hg
      rw [rf_incr_eq] at hg' ⊢
      obtain ⟨hR, hF, -, hO⟩ := rf_transact s
        (rf_incrBody E (keyOf E s.cfg k).1 (keyOf E s.cfg k).2 now delta dflt) none hg.depth
      have hev : (rf_ent s r).val = r.val := rfl
      have hfail : ∀ (o : Out) (t2 : Cache), t2.files = s.files →
          rf_incrBody E (keyOf E s.cfg k).1 (keyOf E s.cfg k).2 now delta dflt (s.log .begin) =
            { s := t2, out := o, ok := false } →
          (s.transact (rf_incrBody E (keyOf E s.cfg k).1 (keyOf E s.cfg k).2 now delta dflt)).2 = o ∧
          ∀ k', rf_view (s.transact (rf_incrBody E (keyOf E s.cfg k).1 (keyOf E s.cfg k).2 now delta dflt)).1 k' =
            rf_view s k' := by
        intro o t2 hfl hb
        rw [hb] at hR hF hO
        simp only [Bool.false_eq_true, if_false] at hR
        refine ⟨hO, fun k' => ?_⟩
        rw [rf_same hg' (b := s) (by intro q hq; have := hF q hq; rw [hfl] at this; exact this)
          hg.finv.nodup, hR]; rfl
      rw [hev]
      cases hval : r.val with
      | int i =>
        simp only
        cases hin : inI64 (i + delta) with
        | true =>
          simp only [if_true]
          have hb : rf_incrBody E (keyOf E s.cfg k).1 (keyOf E s.cfg k).2 now delta dflt (s.log .begin) =
              { s := ((s.log .begin).logSql "selKey").updIncr r.rowid now (.int (i + delta)),
                out := .int (i + delta) } := by
            unfold rf_incrBody
            simp only [hsel', hx, Bool.false_eq_true, if_false, hval, hin, if_true]
          rw [hb] at hR hF hO
          simp only [if_true] at hR
          refine ⟨hO, fun k' => ?_⟩
          rw [rf_same hg' (b := s) hF hg.finv.nodup, hR]
          show rf_look (s.rows.map (fun (x : Row) => if x.rowid == r.rowid then
              touchPolicy s.cfg.policy now { x with storeT := now, val := .int (i + delta) } else x)) s k' = _
          rw [rf_look_upd hg.tinv s hr hk
            (fun x => touchPolicy s.cfg.policy now { x with storeT := now, val := .int (i + delta) })
            (fun x => by simp)]
          cases s.cfg.policy <;> rfl
        | false =>
          simp only [Bool.false_eq_true, if_false]
          apply hfail _ (((s.log .begin).logSql "selKey").log (.sqlFail "updIncr")) rfl
          unfold rf_incrBody
          simp only [hsel', hx, Bool.false_eq_true, if_false, hval, hin]
      | null =>
        simp only
        apply hfail _ ((s.log .begin).logSql "selKey") rfl
        unfold rf_incrBody
        simp only [hsel', hx, Bool.false_eq_true, if_false, hval]
      | real b =>
        simp only
        apply hfail _ ((s.log .begin).logSql "selKey") rfl
        unfold rf_incrBody
        simp only [hsel', hx, Bool.false_eq_true, if_false, hval]
      | text b =>
        simp only
        apply hfail _ ((s.log .begin).logSql "selKey") rfl
        unfold rf_incrBody
        simp only [hsel', hx, Bool.false_eq_true, if_false, hval]
      | blob b =>
        simp only
        apply hfail _ ((s.log .begin).logSql "selKey") rfl
        unfold rf_incrBody
        simp only [hsel', hx, Bool.false_eq_true, if_false, hval]
  · have hsel' : (s.log .begin).selKey (keyOf E s.cfg k).1 (keyOf E s.cfg k).2 = none := hsel
    rw [hv]
    simp only
    apply rf_incr_fresh_view s E now k delta dflt hg none hsel
    unfold rf_incrBody
    simp only [hsel']

theorem rf_incr_view (s : Cache) (E : Externals) (now : Int) (k : PyVal) (delta : Int)
    (dflt : Option Int) (hg : Good s) (hp : s.cfg.policy = .none) :
    match rf_view s (keyOf E s.cfg k) with
    | none => rf_IncrFresh s (s.incr E now k delta dflt).1 (s.incr E now k delta dflt).2 E
        (keyOf E s.cfg k) now delta dflt
    | some e =>
      if e.expired now then
        rf_IncrFresh s (s.incr E now k delta dflt).1 (s.incr E now k delta dflt).2 E
          (keyOf E s.cfg k) now delta dflt
      else
        match e.val with
        | .int i =>
          if inI64 (i + delta) then
            (s.incr E now k delta dflt).2 = .int (i + delta) ∧
            ∀ k', rf_view (s.incr E now k delta dflt).1 k' =
              rf_at (keyOf E s.cfg k) (some { e with val := .int (i + delta) }) (rf_view s) k'
          else
            (s.incr E now k delta dflt).2 = .exc "OverflowError" ∧
            ∀ k', rf_view (s.incr E now k delta dflt).1 k' = rf_view s k'
        | _ =>
          (s.incr E now k delta dflt).2 = .exc "TypeError" ∧
          ∀ k', rf_view (s.incr E now k delta dflt).1 k' = rf_view s k' := by
  have h := rf_incr_view_gen s E now k delta dflt hg
  cases hv : rf_view s (keyOf E s.cfg k) with
  | none => rw [hv] at h; exact rf_IncrFreshG_none h hp
  | some e =>
    rw [hv] at h
    simp only at h ⊢
    by_cases hx : e.expired now = true
    · rw [if_pos hx] at h ⊢
      exact rf_IncrFreshG_none h hp
    · rw [if_neg hx] at h ⊢
      exact h

end DC.Cache
