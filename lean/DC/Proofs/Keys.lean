/- helper lemmas for keys: SQLite comparison, exact numerics, sort order (C02) -/
import DC.Proofs.Paging

namespace DC

/-! ### `lexLt` is a strict total order on `List Nat` -/

theorem lexLt_irrefl : ∀ a : List Nat, lexLt a a = false
  | [] => rfl
  | a :: as => by simp [lexLt, lexLt_irrefl as]

theorem lexLt_trans : ∀ a b c : List Nat, lexLt a b = true → lexLt b c = true → lexLt a c = true
  | [], [], _ => by simp [lexLt]
  | [], _ :: _, [] => by simp [lexLt]
  | [], _ :: _, _ :: _ => by simp [lexLt]
  | _ :: _, [], _ => by simp [lexLt]
  | _ :: _, _ :: _, [] => by simp [lexLt]
  | a :: as, b :: bs, c :: cs => by
    have ih := lexLt_trans as bs cs
    simp only [lexLt]
    intro h1 h2
    split at h1
    · split at h2
      · have : a < c := by omega
        simp [this]
      · split at h2
        · simp at h2
        · have : a < c := by omega
          simp [this]
    · split at h1
      · simp at h1
      · split at h2
        · have : a < c := by omega
          simp [this]
        · split at h2
          · simp at h2
          · have h3 : ¬ a < c := by omega
            have h4 : ¬ c < a := by omega
            simp [h3, h4, ih h1 h2]

theorem lexLt_total : ∀ a b : List Nat, lexLt a b = true ∨ lexLt b a = true ∨ a = b
  | [], [] => by simp
  | [], _ :: _ => by simp [lexLt]
  | _ :: _, [] => by simp [lexLt]
  | a :: as, b :: bs => by
    simp only [lexLt]
    by_cases h1 : a < b
    · simp [h1]
    · by_cases h2 : b < a
      · simp [h2]
      · have : a = b := by omega
        subst this
        simp only [h1, if_false]
        rcases lexLt_total as bs with h | h | h
        · exact Or.inl h
        · exact Or.inr (Or.inl h)
        · exact Or.inr (Or.inr (by rw [h]))

/-! ### `Num.lt` is a strict total order -/

theorem Num.lt_irrefl (a : Num) : a.lt a = false := by
  cases a <;> simp [Num.lt, Num.rank]

theorem Num.lt_trans (a b c : Num) : a.lt b = true → b.lt c = true → a.lt c = true := by
  cases a <;> cases b <;> cases c <;> simp [Num.lt, Num.rank] <;> omega

theorem Num.lt_total (a b : Num) : a.lt b = true ∨ b.lt a = true ∨ a = b := by
  cases a <;> cases b <;> simp [Num.lt, Num.rank] <;> omega

/-! ### `SqlVal.lt` / `SqlVal.eqv` -/

theorem SqlVal.lt_irrefl (a : SqlVal) : a.lt a = false := by
  cases a <;> simp [SqlVal.lt, SqlVal.cls, Num.lt_irrefl, lexLt_irrefl]

theorem SqlVal.lt_trans (a b c : SqlVal) : a.lt b = true → b.lt c = true → a.lt c = true := by
  cases a <;> cases b <;> cases c <;> simp [SqlVal.lt, SqlVal.cls] <;>
    first
      | exact Num.lt_trans _ _ _
      | exact lexLt_trans _ _ _

theorem SqlVal.eqv_symm (a b : SqlVal) : a.eqv b = true → b.eqv a = true := by
  cases a <;> cases b <;> simp [SqlVal.eqv] <;> intro h <;> exact h.symm

theorem SqlVal.eqv_trans (a b c : SqlVal) : a.eqv b = true → b.eqv c = true → a.eqv c = true := by
  cases a <;> cases b <;> cases c <;> simp [SqlVal.eqv] <;> intro h1 h2 <;> exact h1.trans h2

theorem SqlVal.eqv_lt (a b c : SqlVal) : a.eqv b = true → b.lt c = true → a.lt c = true := by
  cases a <;> cases b <;> cases c <;> simp [SqlVal.eqv, SqlVal.lt, SqlVal.cls] <;>
    intro h <;> simp [h]

theorem SqlVal.lt_eqv (a b c : SqlVal) : a.lt b = true → b.eqv c = true → a.lt c = true := by
  cases a <;> cases b <;> cases c <;> simp [SqlVal.eqv, SqlVal.lt, SqlVal.cls] <;>
    intro h1 h2 <;> simp [← h2, h1]

theorem SqlVal.eqv_not_lt (a b : SqlVal) : a.eqv b = true → a.lt b = false := by
  cases a <;> cases b <;> simp [SqlVal.eqv, SqlVal.lt, SqlVal.cls] <;>
    intro h <;> simp [h, Num.lt_irrefl, lexLt_irrefl]

theorem SqlVal.lt_total (a b : SqlVal) (ha : a ≠ .null) (hb : b ≠ .null) :
    a.lt b = true ∨ b.lt a = true ∨ a.eqv b = true := by
  cases a <;> cases b <;> simp [SqlVal.eqv, SqlVal.lt, SqlVal.cls] at ha hb ⊢ <;>
    first
      | exact Num.lt_total _ _
      | exact lexLt_total _ _

/-! ### exact numerics -/

theorem two_pow_1074_ne_zero : (2 : Int) ^ 1074 ≠ 0 := Int.pow_ne_zero (by decide)

theorem intNum_inj' (i j : Int) : intNum i = intNum j ↔ i = j := by
  simp only [intNum, Num.fin.injEq]
  exact Int.mul_eq_mul_right_iff two_pow_1074_ne_zero

/-- magnitudes of normal doubles with different exponents are ordered by the exponent -/
theorem mag_lt_gen (K a a' m m' : Nat) (hm : m < K) (h : a < a') :
    (K + m) * 2^a < (K + m') * 2^a' := by
  have h1 : (K + m) * 2^a < (K * 2) * 2^a :=
    Nat.mul_lt_mul_of_pos_right (by omega) (Nat.pow_pos (by decide))
  have h2 : K * 2 * 2^a = K * 2^(a+1) := by
    rw [Nat.pow_succ, Nat.mul_assoc, Nat.mul_comm 2]
  have h3 : 2^(a+1) ≤ 2^a' := Nat.pow_le_pow_right (by decide) h
  have h4 : K * 2^(a+1) ≤ (K + m') * 2^a' := Nat.mul_le_mul (Nat.le_add_right _ _) h3
  exact Nat.lt_of_lt_of_le (h2 ▸ h1) h4

theorem mag_lt (a a' m m' : Nat) (hm : m < 2^52) (h : a < a') :
    (2^52 + m) * 2^a < (2^52 + m') * 2^a' := mag_lt_gen (2^52) a a' m m' hm h

def magOf (e m : Nat) : Nat := if e == 0 then m else (2^52 + m) * 2^(e - 1)

theorem floatMag_eq (f : Nat) : floatMag f = magOf (floatExp f) (floatFrac f) := rfl

theorem magOf_normal_ge (e m : Nat) (he : e ≠ 0) : 2^52 ≤ magOf e m := by
  simp only [magOf, beq_iff_eq, he, if_false]
  calc 2^52 ≤ 2^52 + m := Nat.le_add_right _ _
    _ = (2^52 + m) * 1 := (Nat.mul_one _).symm
    _ ≤ (2^52 + m) * 2^(e-1) := Nat.mul_le_mul_left _ (Nat.pow_pos (by decide))

theorem magOf_inj (e e' m m' : Nat) (hm : m < 2^52) (hm' : m' < 2^52)
    (h : magOf e m = magOf e' m') : e = e' ∧ m = m' := by
  by_cases he : e = 0 <;> by_cases he' : e' = 0
  · subst he he'; simpa [magOf] using h
  · have := magOf_normal_ge e' m' he'
    subst he; simp only [magOf, beq_self_eq_true, if_true] at h this; omega
  · have := magOf_normal_ge e m he
    subst he'; simp only [magOf, beq_self_eq_true, if_true] at h this; omega
  · simp only [magOf, beq_iff_eq, he, he', if_false] at h
    rcases Nat.lt_trichotomy (e - 1) (e' - 1) with hlt | heq | hgt
    · have := mag_lt (e-1) (e'-1) m m' hm hlt; omega
    · rw [heq] at h
      have := Nat.eq_of_mul_eq_mul_right (Nat.pow_pos (by decide)) h
      omega
    · have := mag_lt (e'-1) (e-1) m' m hm' hgt; omega

theorem magOf_eq_zero (e m : Nat) : magOf e m = 0 ↔ e = 0 ∧ m = 0 := by
  by_cases he : e = 0
  · subst he; simp [magOf]
  · have := magOf_normal_ge e m he
    constructor
    · intro h; omega
    · intro h; exact absurd h.1 he

theorem floatFrac_lt (f : Nat) : floatFrac f < 2^52 := Nat.mod_lt _ (by decide)

theorem bits_eq_iff (f g : Nat) (hf : f < 2^64) (hg : g < 2^64) :
    f = g ↔ (floatSign f = floatSign g ∧ floatExp f = floatExp g ∧ floatFrac f = floatFrac g) := by
  constructor
  · intro h; subst h; simp
  · rintro ⟨h1, h2, h3⟩
    unfold floatSign floatExp floatFrac at *
    by_cases hs : f / 2^63 % 2 = 1 <;> by_cases hs' : g / 2^63 % 2 = 1 <;>
      simp [hs, hs'] at h1 <;> omega

theorem intNum_eq_floatNum' (i : Int) (f : Nat) :
    intNum i = floatNum f ↔
      (floatExp f ≠ 2047 ∧ i * 2^1074 = (if floatSign f then -(floatMag f : Int) else floatMag f)) := by
  unfold intNum floatNum
  generalize (2 : Int) ^ 1074 = K
  by_cases he : floatExp f = 2047 <;> cases hs : floatSign f <;> simp [he]

theorem floatNum_eq_iff' (f g : Nat) (hf : f < 2^64) (hg : g < 2^64)
    (hnf : floatIsNaN f = false) (hng : floatIsNaN g = false) :
    floatNum f = floatNum g ↔
      (f = g ∨ (floatMag f = 0 ∧ floatMag g = 0 ∧ floatExp f ≠ 2047 ∧ floatExp g ≠ 2047)) := by
  rw [bits_eq_iff f g hf hg]
  have inj := magOf_inj (floatExp f) (floatExp g) (floatFrac f) (floatFrac g)
    (floatFrac_lt f) (floatFrac_lt g)
  rw [← floatMag_eq, ← floatMag_eq] at inj
  simp only [floatIsNaN, Bool.and_eq_false_imp, beq_iff_eq, bne_eq_false_iff_eq] at hnf hng
  unfold floatNum
  by_cases ef : floatExp f = 2047 <;> by_cases eg : floatExp g = 2047 <;>
    cases sf : floatSign f <;> cases sg : floatSign g <;>
    simp [ef, eg] <;>
    first
      | (rw [hnf ef, hng eg]; done)
      | (intro h; exact absurd h.symm eg)
      | (constructor
         · intro h; omega
         · intro h; omega)
      | (constructor
         · intro h; exact Or.inl (inj (by omega))
         · rintro (⟨h1, h2⟩ | ⟨h1, h2⟩)
           · rw [floatMag_eq, floatMag_eq, h1, h2]
           · omega)

/-! ### insertion sort -/

section SortLemmas
variable {α : Type _} (lt : α → α → Bool)

theorem insertBy_perm (x : α) : ∀ l : List α, (insertBy lt x l).Perm (x :: l)
  | [] => List.Perm.refl _
  | y :: ys => by
    simp only [insertBy]
    split
    · exact ((insertBy_perm x ys).cons y).trans (List.Perm.swap x y ys)
    · exact List.Perm.refl _

theorem isort_perm' : ∀ l : List α, (isort lt l).Perm l
  | [] => List.Perm.refl _
  | x :: xs => (insertBy_perm lt x (isort lt xs)).trans ((isort_perm' xs).cons x)

theorem mem_insertBy {x y : α} {l : List α} : y ∈ insertBy lt x l ↔ y = x ∨ y ∈ l := by
  rw [(insertBy_perm lt x l).mem_iff, List.mem_cons]

theorem mem_isort {y : α} {l : List α} : y ∈ isort lt l ↔ y ∈ l := (isort_perm' lt l).mem_iff

theorem length_isort (l : List α) : (isort lt l).length = l.length := (isort_perm' lt l).length_eq

/-- weak sortedness, for an order that is asymmetric and negatively transitive on `P` -/
theorem insertBy_sorted_weak (P : α → Prop)
    (hasym : ∀ a b, lt a b = true → lt b a = false)
    (hneg : ∀ a b c, P a → P b → P c → lt a b = false → lt b c = false → lt a c = false)
    (x : α) (hx : P x) : ∀ l : List α, (∀ y ∈ l, P y) →
      l.Pairwise (fun a b => lt b a = false) → (insertBy lt x l).Pairwise (fun a b => lt b a = false)
  | [], _, _ => by simp [insertBy]
  | y :: ys, hP, hs => by
    have hs' := List.pairwise_cons.1 hs
    simp only [insertBy]
    split
    · next hyx =>
      refine List.pairwise_cons.2 ⟨?_, insertBy_sorted_weak P hasym hneg x hx ys
        (fun z hz => hP z (List.mem_cons_of_mem _ hz)) hs'.2⟩
      intro z hz
      rcases (mem_insertBy lt).1 hz with rfl | hz
      · exact hasym _ _ hyx
      · exact hs'.1 z hz
    · next hyx =>
      have hyx : lt y x = false := by simpa using hyx
      refine List.pairwise_cons.2 ⟨?_, hs⟩
      intro z hz
      rcases List.mem_cons.1 hz with rfl | hz
      · exact hyx
      · exact hneg z y x (hP z (List.mem_cons_of_mem _ hz)) (hP y List.mem_cons_self) hx
          (hs'.1 z hz) hyx

theorem isort_sorted_weak (P : α → Prop)
    (hasym : ∀ a b, lt a b = true → lt b a = false)
    (hneg : ∀ a b c, P a → P b → P c → lt a b = false → lt b c = false → lt a c = false) :
    ∀ l : List α, (∀ y ∈ l, P y) → (isort lt l).Pairwise (fun a b => lt b a = false)
  | [], _ => List.Pairwise.nil
  | x :: xs, hP =>
    insertBy_sorted_weak lt P hasym hneg x (hP x List.mem_cons_self) (isort lt xs)
      (fun y hy => hP y (List.mem_cons_of_mem _ ((mem_isort lt).1 hy)))
      (isort_sorted_weak P hasym hneg xs (fun y hy => hP y (List.mem_cons_of_mem _ hy)))

/-- strict sortedness, when the inserted element is comparable with every element -/
theorem insertBy_sorted_strict
    (htr : ∀ a b c, lt a b = true → lt b c = true → lt a c = true) (x : α) :
    ∀ l : List α, (∀ y ∈ l, lt x y = true ∨ lt y x = true) →
      l.Pairwise (fun a b => lt a b = true) → (insertBy lt x l).Pairwise (fun a b => lt a b = true)
  | [], _, _ => by simp [insertBy]
  | y :: ys, hc, hs => by
    have hs' := List.pairwise_cons.1 hs
    simp only [insertBy]
    split
    · next hyx =>
      refine List.pairwise_cons.2 ⟨?_, insertBy_sorted_strict htr x ys
        (fun z hz => hc z (List.mem_cons_of_mem _ hz)) hs'.2⟩
      intro z hz
      rcases (mem_insertBy lt).1 hz with rfl | hz
      · exact hyx
      · exact hs'.1 z hz
    · next hyx =>
      have hxy : lt x y = true := by
        rcases hc y List.mem_cons_self with h | h
        · exact h
        · exact absurd h hyx
      refine List.pairwise_cons.2 ⟨?_, hs⟩
      intro z hz
      rcases List.mem_cons.1 hz with rfl | hz
      · exact hxy
      · exact htr _ _ _ hxy (hs'.1 z hz)

theorem isort_sorted_strict
    (htr : ∀ a b c, lt a b = true → lt b c = true → lt a c = true) :
    ∀ l : List α, l.Pairwise (fun a b => lt a b = true ∨ lt b a = true) →
      (isort lt l).Pairwise (fun a b => lt a b = true)
  | [], _ => List.Pairwise.nil
  | x :: xs, hc => by
    have hc' := List.pairwise_cons.1 hc
    exact insertBy_sorted_strict lt htr x (isort lt xs)
      (fun y hy => hc'.1 y ((mem_isort lt).1 hy)) (isort_sorted_strict htr xs hc'.2)

/-- a strictly sorted list is determined by its elements -/
theorem sorted_ext (hirr : ∀ a, lt a a = false)
    (htr : ∀ a b c, lt a b = true → lt b c = true → lt a c = true) :
    ∀ l1 l2 : List α, l1.Pairwise (fun a b => lt a b = true) → l2.Pairwise (fun a b => lt a b = true) →
      (∀ x, x ∈ l1 ↔ x ∈ l2) → l1 = l2
  | [], [], _, _, _ => rfl
  | [], b :: l2, _, _, h => absurd ((h b).2 List.mem_cons_self) (by simp)
  | a :: l1, [], _, _, h => absurd ((h a).1 List.mem_cons_self) (by simp)
  | a :: l1, b :: l2, h1, h2, h => by
    have h1' := List.pairwise_cons.1 h1
    have h2' := List.pairwise_cons.1 h2
    have hne : ∀ u v, lt u v = true → lt v u = true → False := fun u v huv hvu => by
      have := htr _ _ _ huv hvu
      rw [hirr] at this
      exact Bool.noConfusion this
    have hab : a = b := by
      rcases List.mem_cons.1 ((h a).1 List.mem_cons_self) with e | ha
      · exact e
      · rcases List.mem_cons.1 ((h b).2 List.mem_cons_self) with e | hb
        · exact e.symm
        · exact (hne _ _ (h2'.1 a ha) (h1'.1 b hb)).elim
    subst hab
    have ht : l1 = l2 := by
      apply sorted_ext hirr htr l1 l2 h1'.2 h2'.2
      intro x
      constructor
      · intro hx
        rcases List.mem_cons.1 ((h x).1 (List.mem_cons_of_mem _ hx)) with e | hx'
        · subst e
          have := h1'.1 x hx
          rw [hirr] at this
          exact Bool.noConfusion this
        · exact hx'
      · intro hx
        rcases List.mem_cons.1 ((h x).2 (List.mem_cons_of_mem _ hx)) with e | hx'
        · subst e
          have := h2'.1 x hx
          rw [hirr] at this
          exact Bool.noConfusion this
        · exact hx'
    rw [ht]

/-- selecting the rows beyond the cursor and sorting them gives the suffix of the
sorted table after the cursor -/
theorem isort_filter_suffix (hirr : ∀ a, lt a a = false)
    (htr : ∀ a b c, lt a b = true → lt b c = true → lt a c = true)
    (rows : List α) (hc : rows.Pairwise (fun a b => lt a b = true ∨ lt b a = true))
    (pre : List α) (cur : α) (suf : List α) (hL : isort lt rows = pre ++ cur :: suf) :
    isort lt (rows.filter (fun r => lt cur r)) = suf := by
  have hS := isort_sorted_strict lt htr rows hc
  rw [hL] at hS
  have hS' := List.pairwise_append.1 hS
  have hS'' := List.pairwise_cons.1 hS'.2.1
  apply sorted_ext lt hirr htr
  · exact isort_sorted_strict lt htr _ (hc.filter _)
  · exact hS''.2
  · intro x
    rw [mem_isort, List.mem_filter]
    constructor
    · rintro ⟨hx, hlt⟩
      have : x ∈ pre ++ cur :: suf := by rw [← hL]; exact (mem_isort lt).2 hx
      rcases List.mem_append.1 this with hp | hp
      · have h1 := hS'.2.2 x hp cur List.mem_cons_self
        have := htr _ _ _ h1 hlt
        rw [hirr] at this
        exact Bool.noConfusion this
      · rcases List.mem_cons.1 hp with e | hp
        · subst e
          rw [hirr] at hlt
          exact Bool.noConfusion hlt
        · exact hp
    · intro hx
      refine ⟨(mem_isort lt).1 ?_, hS''.1 x hx⟩
      rw [hL]
      exact List.mem_append_right _ (List.mem_cons_of_mem _ hx)

/-- the paging loop of `iterkeys`, over an arbitrary order -/
def sortPageLoop (rows : List α) (page : Nat) : Nat → α → List α → List α
  | 0, _, acc => acc
  | fuel + 1, cur, acc =>
    match ((isort lt (rows.filter (fun r => lt cur r))).take page).getLast? with
    | none => acc
    | some r => sortPageLoop rows page fuel r (acc ++ (isort lt (rows.filter (fun r => lt cur r))).take page)

theorem sortPageLoop_eq (hirr : ∀ a, lt a a = false)
    (htr : ∀ a b c, lt a b = true → lt b c = true → lt a c = true)
    (rows : List α) (hc : rows.Pairwise (fun a b => lt a b = true ∨ lt b a = true))
    (page : Nat) (hp : 0 < page) :
    ∀ (fuel : Nat) (pre : List α) (cur : α) (suf acc : List α),
      isort lt rows = pre ++ cur :: suf → suf.length < fuel →
      sortPageLoop lt rows page fuel cur acc = acc ++ suf
  | 0, _, _, _, _, _, hf => absurd hf (Nat.not_lt_zero _)
  | fuel + 1, pre, cur, suf, acc, hL, hf => by
    simp only [sortPageLoop]
    rw [isort_filter_suffix lt hirr htr rows hc pre cur suf hL]
    split
    · next hnone =>
      have := List.getLast?_eq_none_iff.1 hnone
      rcases List.take_eq_nil_iff.1 this with h | h
      · omega
      · simp [h]
    · next r hsome =>
      obtain ⟨ys, hys⟩ := List.getLast?_eq_some_iff.1 hsome
      have hsuf : suf = ys ++ r :: suf.drop page := by
        conv => lhs; rw [← List.take_append_drop page suf, hys]
        simp
      have hL' : isort lt rows = (pre ++ cur :: ys) ++ r :: suf.drop page := by
        rw [hL]; conv => lhs; rw [hsuf]
        simp
      have hlen : (suf.drop page).length < fuel := by
        have : 0 < suf.length := by
          cases suf with
          | nil => simp at hys
          | cons _ _ => simp
        rw [List.length_drop]; omega
      rw [sortPageLoop_eq hirr htr rows hc page hp fuel _ r _ _ hL' hlen, List.append_assoc,
        List.take_append_drop]

/-- first row, then pages -/
def sortPageAll (rows : List α) (page : Nat) : List α :=
  match (isort lt rows).head? with
  | none => []
  | some r0 => sortPageLoop lt rows page (rows.length + 1) r0 [r0]

/-- first row, then pages: the whole sorted table -/
theorem sortPageAll_eq (hirr : ∀ a, lt a a = false)
    (htr : ∀ a b c, lt a b = true → lt b c = true → lt a c = true)
    (rows : List α) (hc : rows.Pairwise (fun a b => lt a b = true ∨ lt b a = true))
    (page : Nat) (hp : 0 < page) :
    sortPageAll lt rows page = isort lt rows := by
  unfold sortPageAll
  cases h : isort lt rows with
  | nil => rfl
  | cons r0 suf =>
    simp only [List.head?_cons]
    have hlen : suf.length < rows.length + 1 := by
      have := length_isort lt rows
      rw [h] at this
      simp at this
      omega
    rw [sortPageLoop_eq lt hirr htr rows hc page hp _ [] r0 suf [r0] (by simpa using h) hlen]
    rfl

end SortLemmas

/-! ### the `(key, raw)` order -/

theorem keyRawLt_irrefl' (a : SqlVal × Bool) : keyRawLt a a = false := by
  simp [keyRawLt, SqlVal.lt_irrefl]

theorem keyRawLt_trans' (a b c : SqlVal × Bool) (hab : keyRawLt a b = true)
    (hbc : keyRawLt b c = true) : keyRawLt a c = true := by
  obtain ⟨a1, a2⟩ := a
  obtain ⟨b1, b2⟩ := b
  obtain ⟨c1, c2⟩ := c
  simp only [keyRawLt, Bool.or_eq_true, Bool.and_eq_true] at *
  rcases hab with h1 | ⟨h1, h1'⟩ <;> rcases hbc with h2 | ⟨h2, h2'⟩
  · exact Or.inl (SqlVal.lt_trans _ _ _ h1 h2)
  · exact Or.inl (SqlVal.lt_eqv _ _ _ h1 h2)
  · exact Or.inl (SqlVal.eqv_lt _ _ _ h1 h2)
  · cases a2 <;> cases b2 <;> cases c2 <;> simp at h1' h2'

theorem keyRawLt_total' (a b : SqlVal × Bool) (ha : a.1 ≠ .null) (hb : b.1 ≠ .null) :
    keyRawLt a b = true ∨ keyRawLt b a = true ∨ (a.1.eqv b.1 = true ∧ a.2 = b.2) := by
  obtain ⟨a1, a2⟩ := a
  obtain ⟨b1, b2⟩ := b
  simp only [keyRawLt, Bool.or_eq_true, Bool.and_eq_true] at *
  rcases SqlVal.lt_total a1 b1 ha hb with h | h | h
  · exact Or.inl (Or.inl h)
  · exact Or.inr (Or.inl (Or.inl h))
  · have h' := SqlVal.eqv_symm _ _ h
    cases a2 <;> cases b2 <;> simp [h, h']

theorem keyRawLt_asymm (a b : SqlVal × Bool) (h : keyRawLt a b = true) : keyRawLt b a = false := by
  cases h' : keyRawLt b a
  · rfl
  · have := keyRawLt_trans' a b a h h'
    rw [keyRawLt_irrefl'] at this
    exact Bool.noConfusion this

/-- database-equal keys are interchangeable on the left of the order -/
theorem keyRawLt_congr_left (a b c : SqlVal × Bool) (he : a.1.eqv b.1 = true) (hr : a.2 = b.2)
    (h : keyRawLt b c = true) : keyRawLt a c = true := by
  obtain ⟨a1, a2⟩ := a
  obtain ⟨b1, b2⟩ := b
  obtain ⟨c1, c2⟩ := c
  simp only [keyRawLt, Bool.or_eq_true, Bool.and_eq_true] at *
  subst hr
  rcases h with h | ⟨h, h'⟩
  · exact Or.inl (SqlVal.eqv_lt _ _ _ he h)
  · exact Or.inr ⟨SqlVal.eqv_trans _ _ _ he h, h'⟩

theorem keyRawLt_congr_right (a b c : SqlVal × Bool) (he : a.1.eqv b.1 = true) (hr : a.2 = b.2)
    (h : keyRawLt c a = true) : keyRawLt c b = true := by
  obtain ⟨a1, a2⟩ := a
  obtain ⟨b1, b2⟩ := b
  obtain ⟨c1, c2⟩ := c
  simp only [keyRawLt, Bool.or_eq_true, Bool.and_eq_true] at *
  subst hr
  rcases h with h | ⟨h, h'⟩
  · exact Or.inl (SqlVal.lt_eqv _ _ _ h he)
  · exact Or.inr ⟨SqlVal.eqv_trans _ _ _ h he, h'⟩

/-- negative transitivity on non-NULL keys (the order is a strict weak order) -/
theorem keyRawLt_negtrans (a b c : SqlVal × Bool) (ha : a.1 ≠ .null) (hb : b.1 ≠ .null)
    (_hc : c.1 ≠ .null) (hab : keyRawLt a b = false) (hbc : keyRawLt b c = false) :
    keyRawLt a c = false := by
  cases hac : keyRawLt a c
  · rfl
  · rcases keyRawLt_total' a b ha hb with h | h | ⟨he, hr⟩
    · rw [hab] at h; exact Bool.noConfusion h
    · have := keyRawLt_trans' b a c h hac
      rw [hbc] at this; exact Bool.noConfusion this
    · have := keyRawLt_congr_left b a c (SqlVal.eqv_symm _ _ he) hr.symm hac
      rw [hbc] at this; exact Bool.noConfusion this

namespace Cache

theorem keyRawLtRow_irrefl (a : Row) : keyRawLtRow a a = false := keyRawLt_irrefl' _

theorem keyRawLtRow_trans (a b c : Row) : keyRawLtRow a b = true → keyRawLtRow b c = true →
    keyRawLtRow a c = true := keyRawLt_trans' _ _ _

theorem keysUnique_comparable (rows : List Row) (hu : KeysUnique rows)
    (hn : ∀ r ∈ rows, r.key ≠ .null) :
    rows.Pairwise (fun a b => keyRawLtRow a b = true ∨ keyRawLtRow b a = true) := by
  refine List.Pairwise.imp_of_mem ?_ hu
  intro a b ha hb hne
  rcases keyRawLt_total' (a.key, a.raw) (b.key, b.raw) (hn a ha) (hn b hb) with h | h | h
  · exact Or.inl h
  · exact Or.inr h
  · exact absurd h hne

theorem isort_sorted_keys' (rows : List Row) (hn : ∀ r ∈ rows, r.key ≠ .null) :
    (isort keyRawLtRow rows).Pairwise (fun a b => keyRawLtRow b a = false) :=
  isort_sorted_weak keyRawLtRow (fun r => r.key ≠ .null)
    (fun _ _ h => keyRawLt_asymm _ _ h)
    (fun _ _ _ ha hb hc h1 h2 => keyRawLt_negtrans _ _ _ ha hb hc h1 h2) rows hn

/-- the order `iterkeys` pages in -/
def iterLt (rev : Bool) (a b : Row) : Bool := if rev then keyRawLtRow b a else keyRawLtRow a b

theorem iterLt_irrefl (rev : Bool) (a : Row) : iterLt rev a a = false := by
  cases rev <;> simp [iterLt, keyRawLtRow_irrefl]

theorem iterLt_trans (rev : Bool) (a b c : Row) : iterLt rev a b = true → iterLt rev b c = true →
    iterLt rev a c = true := by
  cases rev <;> simp only [iterLt, if_true, if_false, Bool.false_eq_true]
  · exact keyRawLtRow_trans a b c
  · exact fun h1 h2 => keyRawLtRow_trans c b a h2 h1

theorem iterLt_comparable (rev : Bool) (rows : List Row) (hu : KeysUnique rows)
    (hn : ∀ r ∈ rows, r.key ≠ .null) :
    rows.Pairwise (fun a b => iterLt rev a b = true ∨ iterLt rev b a = true) := by
  refine (keysUnique_comparable rows hu hn).imp ?_
  intro a b h
  cases rev <;> simp only [iterLt, if_true, if_false, Bool.false_eq_true]
  · exact h
  · exact h.symm

theorem iterkeysLoop_spec (rev : Bool) : ∀ (fuel : Nat) (s : Cache) (cur : Row) (acc : List Row),
    (iterkeysLoop rev fuel s cur acc).2 = sortPageLoop (iterLt rev) s.rows s.cfg.page fuel cur acc ∧
    (iterkeysLoop rev fuel s cur acc).1.cfg = s.cfg
  | 0, _, _, _ => ⟨rfl, rfl⟩
  | fuel + 1, s, cur, acc => by
    simp only [iterkeysLoop, sortPageLoop, lastRow?]
    split
    · next h =>
      have h' : ((isort (iterLt rev) (s.rows.filter (fun r => iterLt rev cur r))).take s.cfg.page).getLast?
          = none := h
      rw [h']
      exact ⟨rfl, rfl⟩
    · next r h =>
      have h' : ((isort (iterLt rev) (s.rows.filter (fun r => iterLt rev cur r))).take s.cfg.page).getLast?
          = some r := h
      rw [h']
      exact iterkeysLoop_spec rev fuel (s.logSql "pageKey") r _

theorem iterkeys_spec (s : Cache) (E : Externals) (rev : Bool) :
    (s.iterkeys E rev).2 =
      .list ((sortPageAll (iterLt rev) s.rows s.cfg.page).map
          (fun (r : Row) => keyOut E s.cfg.disk r.key r.raw)) := by
  simp only [iterkeys, sortPageAll]
  have hs : isort (fun a b => if rev = true then keyRawLtRow b a else keyRawLtRow a b) s.rows
      = isort (iterLt rev) s.rows := rfl
  rw [hs]
  cases h : (isort (iterLt rev) s.rows).head? with
  | none => rfl
  | some r0 =>
    simp only []
    have := iterkeysLoop_spec rev ((s.logSql "firstKey").rows.length + 1) (s.logSql "firstKey") r0 [r0]
    rw [this.1, this.2]
    rfl

theorem iterkeys_all' (s : Cache) (E : Externals) (rev : Bool) (hu : KeysUnique s.rows)
    (hn : ∀ r ∈ s.rows, r.key ≠ .null) (hp : 0 < s.cfg.page) :
    (s.iterkeys E rev).2 =
      .list ((isort (iterLt rev) s.rows).map (fun r => keyOut E s.cfg.disk r.key r.raw)) := by
  rw [iterkeys_spec, sortPageAll_eq (iterLt rev) (iterLt_irrefl rev) (iterLt_trans rev) s.rows
    (iterLt_comparable rev s.rows hu hn) s.cfg.page hp]

end Cache

end DC
