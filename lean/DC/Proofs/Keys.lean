/- helper lemmas for keys: SQLite comparison, exact numerics, sort order (C02) -/
import DC.Proofs.Paging

namespace DC

end DC
