/-
Predicates used in the statements of the property theorems: invariants of the
cache state, the laws assumed of the external codecs, and small observers.
Nothing here is proved; nothing here is used by the executable model.
-/
import DC.Model.Cache

namespace DC

/-- Laws of the external codecs (pickle, json+zlib).  Hypotheses of theorems,
never axioms; `Externals.toy` (Proofs/Toy.lean) satisfies them. -/
structure Lawful (E : Externals) : Prop where
  loads_dumpsV : ∀ v, E.loads (E.dumpsV v) = v
  loads_dumpsK : ∀ k, E.loads (E.dumpsK k) = k
  unjsonz_jsonz : ∀ v, E.unjsonz (E.jsonz v) = v

namespace Cache

/-- rowids strictly ascending along the row list (SQLite's rowid order) -/
def RowidsAsc (rows : List Row) : Prop := rows.Pairwise (fun a b => a.rowid < b.rowid)

/-- no two rows with equal (key, raw) — the UNIQUE index Cache_key_raw -/
def KeysUnique (rows : List Row) : Prop :=
  rows.Pairwise (fun a b => ¬ (a.key.eqv b.key = true ∧ a.raw = b.raw))

def sumSizes (rows : List Row) : Int := (rows.map (fun r => (r.size : Int))).sum

/-- well-formedness of a table with its two trigger-maintained counters -/
structure TableOk (rows : List Row) (count size : Int) : Prop where
  asc : RowidsAsc rows
  pos : ∀ r ∈ rows, 0 < r.rowid
  uniq : KeysUnique rows
  nonnull : ∀ r ∈ rows, r.key ≠ .null
  count : count = rows.length
  size : size = sumSizes rows

/-- Table well-formedness kept by every operation: the working table, and the
snapshot a ROLLBACK of the open block would restore. -/
structure TableInv (s : Cache) : Prop where
  tbl : TableOk s.rows s.count s.size
  snap : ∀ p, s.snap = some p → TableOk p.rows p.count p.size

/-- Every file-backed row refers to an existing file of the recorded size,
two rows never share a file, and file ids are below the allocation counter. -/
structure FileInv (s : Cache) : Prop where
  ref : ∀ r ∈ s.rows, ∀ f, r.file = some f → ∃ c, s.fileGet f = some c ∧ c.size = r.size
  inj : s.rows.Pairwise (fun a b => ∀ f, a.file = some f → b.file ≠ some f)
  fresh : ∀ p ∈ s.files, p.1 < s.nfile
  nodup : (s.files.map (·.1)).Nodup

/-- no value file that no row refers to (checked at quiescence: no open block) -/
def NoOrphan (s : Cache) : Prop := ∀ p ∈ s.files, ∃ r ∈ s.rows, r.file = some p.1

/-- C08's "bookkeeping matches content". -/
structure Consistent (s : Cache) : Prop where
  count : s.count = s.rows.length
  size : s.size = sumSizes s.rows
  ref : ∀ r ∈ s.rows, ∀ f, r.file = some f → ∃ c, s.fileGet f = some c ∧ c.size = r.size
  noOrphan : NoOrphan s

/-- the stored key of a Python key -/
def dbKey (s : Cache) (E : Externals) (k : PyVal) : SqlVal × Bool := DC.put E s.cfg.disk k

end Cache
end DC
