/- helper lemmas for expiry (C04) -/
import DC.Proofs.Paging

namespace DC.Cache

end DC.Cache
