/- helper lemmas for expiry (C04) -/
import DC.Proofs.Paging

namespace DC

/-! ### generic: the stable insertion sort -/

theorem insertBy_perm_ec {α} (lt : α → α → Bool) (x : α) (l : List α) :
    (insertBy lt x l).Perm (x :: l) := by
  induction l with
  | nil => exact .refl _
  | cons y ys ih =>
    simp only [insertBy]; split
    · exact (List.Perm.cons y ih).trans (List.Perm.swap x y ys)
    · exact .refl _

theorem isort_perm {α} (lt : α → α → Bool) (l : List α) : (isort lt l).Perm l := by
  induction l with
  | nil => exact .refl _
  | cons x xs ih => exact (insertBy_perm_ec lt x _).trans (ih.cons x)

theorem mem_isort_ec {α} {lt : α → α → Bool} {l : List α} {a : α} : a ∈ isort lt l ↔ a ∈ l :=
  (isort_perm lt l).mem_iff

theorem length_isort_ec {α} (lt : α → α → Bool) (l : List α) : (isort lt l).length = l.length :=
  (isort_perm lt l).length_eq

theorem nodup_isort {α} {lt : α → α → Bool} {l : List α} (h : l.Nodup) : (isort lt l).Nodup :=
  (isort_perm lt l).nodup_iff.2 h

/-- `lt` is the strict part of a total preorder -/
structure StrictWeak {α} (lt : α → α → Bool) : Prop where
  asym : ∀ a b, lt a b = true → lt b a = false
  trans : ∀ a b c, lt b a = false → lt c b = false → lt c a = false

theorem insertBy_sorted {α} {lt : α → α → Bool} (hlt : StrictWeak lt) (x : α) (l : List α)
    (h : l.Pairwise (fun a b => lt b a = false)) :
    (insertBy lt x l).Pairwise (fun a b => lt b a = false) := by
  induction l with
  | nil => simp [insertBy]
  | cons y ys ih =>
    rw [List.pairwise_cons] at h
    simp only [insertBy]; split
    · rename_i hyx
      rw [List.pairwise_cons]
      refine ⟨?_, ih h.2⟩
      intro z hz
      rcases List.mem_cons.1 ((insertBy_perm_ec lt x ys).mem_iff.1 hz) with rfl | hz
      · exact hlt.asym _ _ hyx
      · exact h.1 z hz
    · rename_i hyx
      have hyx : lt y x = false := by simpa using hyx
      rw [List.pairwise_cons]
      refine ⟨?_, List.pairwise_cons.2 h⟩
      intro z hz
      rcases List.mem_cons.1 hz with rfl | hz
      · exact hyx
      · exact hlt.trans x y z hyx (h.1 z hz)

theorem isort_sorted {α} {lt : α → α → Bool} (hlt : StrictWeak lt) (l : List α) :
    (isort lt l).Pairwise (fun a b => lt b a = false) := by
  induction l with
  | nil => simp [isort]
  | cons x xs ih => exact insertBy_sorted hlt x _ ih

theorem take_le_drop {α} {R : α → α → Prop} {l : List α} (h : l.Pairwise R) (n : Nat) {a b : α}
    (ha : a ∈ l.take n) (hb : b ∈ l.drop n) : R a b := by
  rw [← List.take_append_drop n l, List.pairwise_append] at h
  exact h.2.2 a ha b hb

theorem mem_take_or_drop {α} {l : List α} (n : Nat) {a : α} (h : a ∈ l) :
    a ∈ l.take n ∨ a ∈ l.drop n := by
  rw [← List.take_append_drop n l] at h
  exact List.mem_append.1 h

/-- the first `n` of a sorted list are `≤` everything that is in the list but not among them -/
theorem isort_take_le {α} {lt : α → α → Bool} (hlt : StrictWeak lt) (l : List α) (n : Nat) {a b : α}
    (ha : a ∈ (isort lt l).take n) (hb : b ∈ l) (hnb : b ∉ (isort lt l).take n) :
    lt b a = false := by
  rcases mem_take_or_drop n (mem_isort_ec.2 hb) with h | h
  · exact absurd h hnb
  · exact take_le_drop (isort_sorted hlt l) n ha h

theorem nodup_take_isort {α} {lt : α → α → Bool} {l : List α} (h : l.Nodup) (n : Nat) :
    ((isort lt l).take n).Nodup :=
  (nodup_isort h).sublist (List.take_sublist _ _)

theorem mem_of_mem_take_isort {α} {lt : α → α → Bool} {l : List α} {n : Nat} {a : α}
    (h : a ∈ (isort lt l).take n) : a ∈ l :=
  mem_isort_ec.1 (List.mem_of_mem_take h)

/-- removing a duplicate-free sub-multiset `P` from a duplicate-free list removes `|P|` elements -/
theorem length_filter_not_mem {α} [DecidableEq α] {l P : List α} (hl : l.Nodup) (hP : P.Nodup)
    (hsub : ∀ x ∈ P, x ∈ l) :
    (l.filter (fun r => decide (r ∉ P))).length + P.length = l.length := by
  have hperm : (l.filter (fun r => decide (r ∈ P))).Perm P := by
    refine (List.perm_ext_iff_of_nodup (hl.sublist List.filter_sublist) hP).2 ?_
    intro a
    simp only [List.mem_filter, decide_eq_true_eq]
    exact ⟨fun h => h.2, fun h => ⟨hsub a h, h⟩⟩
  have h1 := List.length_eq_countP_add_countP (fun r => decide (r ∈ P)) (l := l)
  rw [List.countP_eq_length_filter, List.countP_eq_length_filter, hperm.length_eq] at h1
  have h2 : l.filter (fun r => decide (r ∉ P)) =
      l.filter (fun a => decide ¬(decide (a ∈ P)) = true) := by
    apply List.filter_congr; intro x _; simp
  rw [h2]; omega

theorem ltOptInt_strictWeak : StrictWeak (fun a b : Option Int => Cache.ltOptInt a b) := by
  constructor
  · intro a b; cases a <;> cases b <;> simp [Cache.ltOptInt] <;> omega
  · intro a b c; cases a <;> cases b <;> cases c <;> simp [Cache.ltOptInt] <;> omega

theorem StrictWeak.comap {α β} {lt : β → β → Bool} (h : StrictWeak lt) (f : α → β) :
    StrictWeak (fun a b => lt (f a) (f b)) :=
  ⟨fun a b => h.asym (f a) (f b), fun a b c => h.trans (f a) (f b) (f c)⟩

namespace Cache

/-! ### ascending rowids -/

theorem RowidsAsc.inj {rows : List Row} (h : RowidsAsc rows) :
    ∀ a ∈ rows, ∀ b ∈ rows, a.rowid = b.rowid → a = b := by
  induction rows with
  | nil => intro a ha; cases ha
  | cons x t ih =>
    rw [RowidsAsc, List.pairwise_cons] at h
    intro a ha b hb hab
    rcases List.mem_cons.1 ha with ha' | ha' <;> rcases List.mem_cons.1 hb with hb' | hb'
    · rw [ha', hb']
    · have := h.1 b hb'; rw [ha'] at hab; omega
    · have := h.1 a ha'; rw [hb'] at hab; omega
    · exact ih h.2 a ha' b hb' hab

theorem RowidsAsc.nodup {rows : List Row} (h : RowidsAsc rows) : rows.Nodup :=
  List.Pairwise.imp (R := fun a b : Row => a.rowid < b.rowid) (fun {a b} hab => by
    intro e; subst e; exact Nat.lt_irrefl _ hab) h

theorem RowidsAsc.filter {rows : List Row} (h : RowidsAsc rows) (p : Row → Bool) :
    RowidsAsc (rows.filter p) :=
  List.Pairwise.filter p h

/-- with distinct rowids, deleting by the rowids of some of the rows deletes exactly those rows -/
theorem filter_rowids_eq {rows P : List Row} (hasc : RowidsAsc rows) (hsub : ∀ x ∈ P, x ∈ rows) :
    rows.filter (fun r => !(P.map (·.rowid)).contains r.rowid) =
    rows.filter (fun r => decide (r ∉ P)) := by
  apply List.filter_congr
  intro r hr
  have : r.rowid ∈ P.map (·.rowid) ↔ r ∈ P := by
    constructor
    · intro h
      obtain ⟨a, ha, hra⟩ := List.mem_map.1 h
      have := hasc.inj a (hsub a ha) r hr hra
      exact this ▸ ha
    · intro h; exact List.mem_map.2 ⟨r, h, rfl⟩
  by_cases hP : r ∈ P <;> simp [hP, this]

/-! ### the trace is a ghost field -/

@[simp] theorem log_rows_ec (s : Cache) (a : Act) : (s.log a).rows = s.rows := rfl
@[simp] theorem log_cfg_ec (s : Cache) (a : Act) : (s.log a).cfg = s.cfg := rfl
@[simp] theorem log_env (s : Cache) (a : Act) : (s.log a).env = s.env := rfl
@[simp] theorem log_size_ec (s : Cache) (a : Act) : (s.log a).size = s.size := rfl
@[simp] theorem log_count_ec (s : Cache) (a : Act) : (s.log a).count = s.count := rfl
@[simp] theorem log_depth_ec (s : Cache) (a : Act) : (s.log a).depth = s.depth := rfl
@[simp] theorem logSql_rows_ec (s : Cache) (a : String) : (s.logSql a).rows = s.rows := rfl
@[simp] theorem logSql_cfg_ec (s : Cache) (a : String) : (s.logSql a).cfg = s.cfg := rfl
@[simp] theorem logSql_env (s : Cache) (a : String) : (s.logSql a).env = s.env := rfl
@[simp] theorem logSql_size_ec (s : Cache) (a : String) : (s.logSql a).size = s.size := rfl
@[simp] theorem logSql_count_ec (s : Cache) (a : String) : (s.logSql a).count = s.count := rfl
@[simp] theorem logSql_depth_ec (s : Cache) (a : String) : (s.logSql a).depth = s.depth := rfl

@[simp] theorem fremove_rows_ec (s : Cache) (f : Nat) : (s.fremove f).rows = s.rows := rfl
@[simp] theorem fremove_cfg_ec (s : Cache) (f : Nat) : (s.fremove f).cfg = s.cfg := rfl

@[simp] theorem fremoveAll_rows (s : Cache) (fs : List (Option Nat)) : (s.fremoveAll fs).rows = s.rows := by
  unfold fremoveAll
  induction fs generalizing s with
  | nil => rfl
  | cons f fs ih => cases f <;> simp [List.foldl_cons, ih]

@[simp] theorem fremoveAll_cfg (s : Cache) (fs : List (Option Nat)) : (s.fremoveAll fs).cfg = s.cfg := by
  unfold fremoveAll
  induction fs generalizing s with
  | nil => rfl
  | cons f fs ih => cases f <;> simp [List.foldl_cons, ih]

/-! ### DELETE … WHERE rowid IN (…) -/

theorem delRowQuiet_rows_ec (s : Cache) (id : Nat) :
    (s.delRowQuiet id).rows = s.rows.filter (·.rowid != id) := by
  unfold delRowQuiet
  split
  · rfl
  · rename_i h
    symm
    rw [List.filter_eq_self]
    intro a ha
    have := List.find?_eq_none.1 h a ha
    simpa using this

@[simp] theorem delRowQuiet_cfg_ec (s : Cache) (id : Nat) : (s.delRowQuiet id).cfg = s.cfg := by
  unfold delRowQuiet; split <;> rfl

@[simp] theorem delRowQuiet_env (s : Cache) (id : Nat) : (s.delRowQuiet id).env = s.env := by
  unfold delRowQuiet; split <;> rfl

@[simp] theorem delRowQuiet_depth_ec (s : Cache) (id : Nat) : (s.delRowQuiet id).depth = s.depth := by
  unfold delRowQuiet; split <;> rfl

theorem delRowQuiet_log (s : Cache) (a : Act) (id : Nat) :
    (s.log a).delRowQuiet id = (s.delRowQuiet id).log a := by
  unfold delRowQuiet
  simp only [log_rows_ec]
  split <;> rfl

theorem delIn_nil (s : Cache) : s.delIn [] = s := rfl

theorem delIn_cons (s : Cache) (i : Nat) (ids : List Nat) :
    s.delIn (i :: ids) = (s.delRowQuiet i).delIn ids := rfl

theorem delIn_rows_ec (s : Cache) (ids : List Nat) :
    (s.delIn ids).rows = s.rows.filter (fun r => !ids.contains r.rowid) := by
  induction ids generalizing s with
  | nil =>
    rw [delIn_nil]; symm; rw [List.filter_eq_self]; intro a _; rfl
  | cons i ids ih =>
    rw [delIn_cons, ih, delRowQuiet_rows_ec, List.filter_filter]
    apply List.filter_congr
    intro r _
    by_cases h : r.rowid = i <;> simp [h]

@[simp] theorem delIn_cfg (s : Cache) (ids : List Nat) : (s.delIn ids).cfg = s.cfg := by
  induction ids generalizing s with
  | nil => rfl
  | cons i ids ih => rw [delIn_cons, ih, delRowQuiet_cfg_ec]

@[simp] theorem delIn_env (s : Cache) (ids : List Nat) : (s.delIn ids).env = s.env := by
  induction ids generalizing s with
  | nil => rfl
  | cons i ids ih => rw [delIn_cons, ih, delRowQuiet_env]

@[simp] theorem delIn_depth (s : Cache) (ids : List Nat) : (s.delIn ids).depth = s.depth := by
  induction ids generalizing s with
  | nil => rfl
  | cons i ids ih => rw [delIn_cons, ih, delRowQuiet_depth_ec]

theorem delIn_log (s : Cache) (a : Act) (ids : List Nat) :
    (s.log a).delIn ids = (s.delIn ids).log a := by
  induction ids generalizing s with
  | nil => rfl
  | cons i ids ih => rw [delIn_cons, delRowQuiet_log, ih, ← delIn_cons]

theorem delIn_logSql (s : Cache) (a : String) (ids : List Nat) :
    (s.logSql a).delIn ids = (s.delIn ids).logSql a := delIn_log s _ ids


/-! ### one page of `_select_delete` -/

theorem deletePage_rows (s : Cache) (page : List Row) (sel : String) :
    (s.deletePage page sel).rows = (s.delIn (page.map (·.rowid))).rows := by
  unfold deletePage transact
  by_cases hd : s.depth > 0
  · cases page with
    | nil => simp [hd, delIn_nil]
    | cons a t => simp [hd, delIn_logSql]
  · cases page with
    | nil => simp [hd, delIn_nil]
    | cons a t => simp [hd, delIn_logSql, delIn_log]

theorem deletePage_cfg (s : Cache) (page : List Row) (sel : String) :
    (s.deletePage page sel).cfg = s.cfg := by
  unfold deletePage transact
  by_cases hd : s.depth > 0
  · cases page with
    | nil => simp [hd]
    | cons a t => simp [hd]
  · cases page with
    | nil => simp [hd]
    | cons a t => simp [hd]

/-- deleting a page that consists of rows of the table -/
theorem deletePage_rows_sub (s : Cache) (page : List Row) (sel : String) (hasc : RowidsAsc s.rows)
    (hsub : ∀ x ∈ page, x ∈ s.rows) :
    (s.deletePage page sel).rows = s.rows.filter (fun r => decide (r ∉ page)) := by
  rw [deletePage_rows, delIn_rows_ec, filter_rowids_eq hasc hsub]

/-! ### the `expire` loop -/

theorem expired_expT {now : Int} {r : Row} (h : expired now r = true) : ∃ t, r.expT = some t ∧ t < now := by
  unfold expired at h
  cases he : r.expT with
  | none => simp [he] at h
  | some t => exact ⟨t, rfl, by simpa [he] using h⟩

/-- the lower-bound clause `? <= expire_time` of the page query -/
def loOk (lo : Option Int) (r : Row) : Bool :=
  match lo, r.expT with | some l, some t => l ≤ t | none, _ => true | _, none => false

theorem expireLoop_succ (now : Int) (fuel : Nat) (s : Cache) (lo : Option Int) (n : Nat)
    (page : List Row)
    (hpage : page = (isort (fun a b => ltOptInt a.expT b.expT) (s.rows.filter (fun r => expired now r &&
      loOk lo r))).take s.cfg.page) :
    expireLoop now (fuel + 1) s lo n =
      match lastRow? page with
      | none => (s.deletePage page "pageExpire", n)
      | some r => expireLoop now fuel (s.deletePage page "pageExpire") r.expT (n + page.length) := by
  subst hpage; rfl

theorem rowLt_strictWeak : StrictWeak (fun a b : Row => ltOptInt a.expT b.expT) :=
  ltOptInt_strictWeak.comap (fun r : Row => r.expT)

theorem expireLoop_spec (now : Int) (fuel : Nat) : ∀ (s : Cache) (lo : Option Int) (n : Nat),
    RowidsAsc s.rows → 0 < s.cfg.page → s.rows.length < fuel →
    (∀ r ∈ s.rows, expired now r = true → ∀ l, lo = some l → ∀ t, r.expT = some t → l ≤ t) →
    (expireLoop now fuel s lo n).1.rows = s.rows.filter (fun r => !(expired now r)) ∧
    (expireLoop now fuel s lo n).2 = n + (s.rows.filter (expired now)).length ∧
    (expireLoop now fuel s lo n).1.cfg = s.cfg := by
  induction fuel with
  | zero => intro s lo n _ _ h; omega
  | succ fuel ih =>
    intro s lo n hasc hp hfuel hlo
    have hsel : s.rows.filter (fun r => expired now r && loOk lo r) =
        s.rows.filter (expired now) := by
      apply List.filter_congr
      intro r hr
      cases hex : expired now r with
      | false => rfl
      | true =>
        obtain ⟨t, ht, _⟩ := expired_expT hex
        cases lo with
        | none => simp [loOk]
        | some l => simpa [loOk, ht] using hlo r hr hex l rfl t ht
    rw [expireLoop_succ now fuel s lo n _ rfl, hsel]
    generalize hpg : (isort (fun a b : Row => ltOptInt a.expT b.expT) (s.rows.filter (expired now))).take s.cfg.page = page
    have hsubE : ∀ x ∈ page, x ∈ s.rows.filter (expired now) := by
      intro x hx; rw [← hpg] at hx; exact mem_of_mem_take_isort hx
    have hsub : ∀ x ∈ page, x ∈ s.rows := fun x hx => (List.mem_filter.1 (hsubE x hx)).1
    have hpexp : ∀ x ∈ page, expired now x = true := fun x hx => (List.mem_filter.1 (hsubE x hx)).2
    cases hlast : lastRow? page with
    | none =>
      have hnil : page = [] := List.getLast?_eq_none_iff.1 hlast
      have hE : s.rows.filter (expired now) = [] := by
        rw [hnil, List.take_eq_nil_iff] at hpg
        rcases hpg with h | h
        · omega
        · have := length_isort_ec (fun a b : Row => ltOptInt a.expT b.expT) (s.rows.filter (expired now))
          rw [h] at this
          exact List.eq_nil_of_length_eq_zero this.symm
      simp only [deletePage_cfg, and_true]
      rw [deletePage_rows_sub s page _ hasc hsub, hnil, hE]
      refine ⟨?_, rfl⟩
      apply List.filter_congr
      intro r hr
      have : expired now r = false := by
        cases hex : expired now r with
        | false => rfl
        | true =>
          have : r ∈ s.rows.filter (expired now) := List.mem_filter.2 ⟨hr, hex⟩
          rw [hE] at this; cases this
      simp [this]
    | some r =>
      have hrp : r ∈ page := List.mem_of_getLast? hlast
      have hrows := deletePage_rows_sub s page "pageExpire" hasc hsub
      have hcfg := deletePage_cfg s page "pageExpire"
      have hnd : s.rows.Nodup := hasc.nodup
      have hpnd : page.Nodup := by
        rw [← hpg]; exact nodup_take_isort (hnd.sublist List.filter_sublist) _
      have hlen := length_filter_not_mem hnd hpnd hsub
      have hpos : 0 < page.length := List.length_pos_of_mem hrp
      simp only []
      have hasc' : RowidsAsc (s.deletePage page "pageExpire").rows := by
        rw [hrows]; exact hasc.filter _
      have := ih (s.deletePage page "pageExpire") r.expT (n + page.length) hasc'
        (by rw [hcfg]; exact hp) (by rw [hrows]; omega)
        (by
          intro x hx hex l hl t ht
          rw [hrows] at hx
          obtain ⟨hxs, hxp⟩ := List.mem_filter.1 hx
          have hxp : x ∉ page := by simpa using hxp
          have hxE : x ∈ s.rows.filter (expired now) := List.mem_filter.2 ⟨hxs, hex⟩
          have hle := isort_take_le rowLt_strictWeak (s.rows.filter (expired now)) s.cfg.page
            (a := r) (b := x) (by rw [hpg]; exact hrp) hxE (by rw [hpg]; exact hxp)
          simp only [ht, hl, ltOptInt] at hle
          simpa using hle)
      obtain ⟨h1, h2, h3⟩ := this
      refine ⟨?_, ?_, ?_⟩
      · rw [h1, hrows, List.filter_filter]
        apply List.filter_congr
        intro x hx
        by_cases hxp : x ∈ page
        · simp [hxp, hpexp x hxp]
        · simp [hxp]
      · rw [h2, hrows, List.filter_filter]
        have hE := length_filter_not_mem (hnd.sublist (List.filter_sublist (p := expired now))) hpnd hsubE
        rw [List.filter_filter] at hE
        have : List.filter (fun a => expired now a && decide (a ∉ page)) s.rows =
            List.filter (fun a => decide (a ∉ page) && expired now a) s.rows := by
          apply List.filter_congr; intro x _; exact Bool.and_comm _ _
        rw [this]; omega
      · rw [h3, hcfg]

theorem expire_spec (s : Cache) (now : Int) (hasc : RowidsAsc s.rows) (hp : 0 < s.cfg.page) :
    (expireLoop now (s.rows.length + 1) s none 0).1.rows = s.rows.filter (fun r => !(expired now r)) ∧
    (expireLoop now (s.rows.length + 1) s none 0).2 = (s.rows.filter (expired now)).length ∧
    (expireLoop now (s.rows.length + 1) s none 0).1.cfg = s.cfg := by
  have := expireLoop_spec now (s.rows.length + 1) s none 0 hasc hp (by omega)
    (by intro r _ _ l hl; cases hl)
  simpa using this


/-! ### look-ups -/

theorem eqv_self {k : SqlVal} (h : k ≠ .null) : k.eqv k = true := by
  cases k <;> simp_all [SqlVal.eqv]

@[simp] theorem selLive_log (s : Cache) (a : Act) : (s.log a).selLive = s.selLive := rfl
@[simp] theorem selKey_log (s : Cache) (a : Act) : (s.log a).selKey = s.selKey := rfl

/-- a key all of whose rows are dead is not found by the `selLive` query -/
theorem selLive_none_of_dead {s : Cache} {k : SqlVal} {raw : Bool} {now : Int}
    (h : ∀ r ∈ s.rows, keyMatch k raw r = true → live now r = false) : s.selLive k raw now = none := by
  unfold selLive
  rw [List.find?_eq_none]
  intro r hr hc
  rw [Bool.and_eq_true] at hc
  rw [h r hr hc.1] at hc
  exact Bool.false_ne_true hc.2

/-- `__delitem__` of a dead key raises KeyError and rolls back to the same table -/
theorem delitem_dead (s : Cache) (E : Externals) (now : Int) (k : PyVal)
    (h : ∀ r ∈ s.rows, keyMatch (DC.put E s.cfg.disk k).1 (DC.put E s.cfg.disk k).2 r = true → live now r = false) :
    ∃ t, s.delitem E now k = (t, .exc "KeyError") ∧ t.rows = s.rows := by
  have hn := selLive_none_of_dead h
  unfold delitem
  rcases hput : DC.put E s.cfg.disk k with ⟨dbk, raw⟩
  rw [hput] at hn
  simp only at hn ⊢
  unfold transact
  by_cases hd : s.depth > 0
  · simp only [hd, if_true, hn]
    exact ⟨_, rfl, rfl⟩
  · simp only [hd, if_false, hn, selLive_log]
    exact ⟨_, rfl, rfl⟩

end Cache
end DC
