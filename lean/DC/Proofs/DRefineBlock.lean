/-
C11_Refine, model side: what `Deque.append` does inside its transaction block
(`tbegin; push; [pull]; tend`) to the part of the state the file invariants talk
about (`core`, DC/Proofs/Files.lean).

`PI (core s) cl` ("files consistent once the files in `cl` are removed") is stated for a
quiescent state (depth 0, no snapshot, nothing pending).  Inside a block the removals are
deferred (`pending`) and the nesting depth is 1, so the invariant of an in-block state `x` is
`PI (drf_flatC (core x)) x.pending`: the same statement about the state with the block
bookkeeping blanked out, with the deferred removals as the cleanup list.
-/
import DC.Proofs.DequeLemmas
import DC.Proofs.RefineOps
import DC.Properties.C08_Seq

namespace DC.Cache

/-- the `core` of a state with the block bookkeeping blanked out -/
def drf_flatC (c : Core) : Core := { c with depth := 0, snap := none, pending := [], created := [] }

@[simp] theorem drf_flatC_rows (c : Core) : (drf_flatC c).rows = c.rows := rfl
@[simp] theorem drf_flatC_files (c : Core) : (drf_flatC c).files = c.files := rfl
@[simp] theorem drf_flatC_nfile (c : Core) : (drf_flatC c).nfile = c.nfile := rfl
@[simp] theorem drf_flatC_cfg (c : Core) : (drf_flatC c).cfg = c.cfg := rfl
@[simp] theorem drf_flatC_statistics (c : Core) : (drf_flatC c).statistics = c.statistics := rfl

theorem drf_flatC_setRows (c : Core) (R : List Row) :
    drf_flatC { c with rows := R } = { drf_flatC c with rows := R } := rfl

/-- entering the outermost block of a quiescent state -/
theorem drf_tbegin_core (s : Cache) (h : Good s) :
    drf_flatC (core s.tbegin) = core s ∧ s.tbegin.depth = 1 ∧ s.tbegin.pending = [] := by
  unfold tbegin
  rw [if_pos (by simp [h.depth])]
  refine ⟨?_, rfl, rfl⟩
  simp only [drf_flatC, core, log]
  rw [h.depth, h.snap, h.pending, h.created]

/-- leaving the outermost block: COMMIT, then the deferred removals -/
theorem drf_tend_core (x : Cache) (hd : x.depth = 1) :
    core x.tend = { drf_flatC (core x) with
      files := (core x).files.filter (fun p => !x.pending.contains (some p.1)) } := by
  rw [tend_one x hd]
  have := core_fremoveAll x.pending { (x.log .commit) with depth := 0, snap := none }
  simp only [core, drf_flatC, Core.mk.injEq] at this ⊢
  obtain ⟨h1, h2, h3, h4, h5, h6, h7, h8, h9⟩ := this
  exact ⟨h1, h2, h3, h4, h5, trivial, trivial, h8, h9⟩

/-- leaving the outermost block through an exception: ROLLBACK to the snapshot, then the files
written inside the block are removed -/
theorem drf_traise_core (x : Cache) (p : Snap) (hd : x.depth = 1) (hs : x.snap = some p) :
    core (x.traise 1) = { drf_flatC (core x) with
      rows := p.rows,
      files := (core x).files.filter (fun q => !(x.created.map some).contains (some q.1)) } := by
  rw [traise_outer x 1 p (by omega) (by omega) hs]
  have := core_fremoveAll (x.created.map some) { ((x.restore p).log .rollback) with depth := 0, snap := none }
  simp only [core, drf_flatC, Core.mk.injEq] at this ⊢
  obtain ⟨h1, h2, h3, h4, h5, h6, h7, h8, h9⟩ := this
  exact ⟨h1, h2, h3, h4, h5, trivial, trivial, h8, h9⟩

/-- the state a transaction body runs on inside a block: the file written for it is registered -/
def drf_mark (x : Cache) (fresh : Option Nat) : Cache :=
  match fresh with
  | some f => { x with created := x.created ++ [f] }
  | none => x

theorem drf_core_mark (x : Cache) (fresh : Option Nat) : drf_flatC (core (drf_mark x fresh)) = drf_flatC (core x) := by
  cases fresh <;> rfl

/-- a transaction inside a block is its body; the cleanup list is deferred -/
theorem drf_transact_pos (x : Cache) (body : Cache → Body) (fresh : Option Nat) (hd : 0 < x.depth) :
    x.transact body fresh =
      (if (body (drf_mark x fresh)).ok then
        ({ (body (drf_mark x fresh)).s with
            pending := (body (drf_mark x fresh)).s.pending ++ (body (drf_mark x fresh)).cleanup },
          (body (drf_mark x fresh)).out)
       else ((body (drf_mark x fresh)).s, (body (drf_mark x fresh)).out)) := by
  unfold transact
  rw [if_pos hd]
  rfl

/-! ### `_cull` when there is nothing to cull -/

theorem drf_cullW_quiet (t : Cache) (now : Int) (h : Quiet t now) :
    core (t.cullW now).1 = core t ∧ (t.cullW now).2 = [] := by
  by_cases h0 : t.cfg.cullLimit = 0
  · have h1 : t.cullW now = (t, []) := by unfold cullW; simp [h0]
    rw [h1]; exact ⟨rfl, rfl⟩
  · rcases h with h | ⟨hp, he⟩
    · exact absurd h h0
    · have hE : t.selExpired now t.cfg.cullLimit = [] := by
        unfold selExpired
        have : t.rows.filter (expired now) = [] :=
          List.filter_eq_nil_iff.2 (fun r hr => by simp [he r hr])
        rw [this]; simp [isort]
      rw [cullW_eq t now h0, hE]
      simp only [List.isEmpty_nil, if_true]
      unfold cullTail
      simp [h0, hp]

/-! ### `Disk.store` -/

theorem drf_store_core {x x1 : Cache} {E : Externals} {v : PyVal} {rd : Bool} {c : Cols}
    (hst : x.store E v rd = .ok (x1, c)) :
    (c.file = none ∧ core x1 = core x) ∨
    (∃ ct, c.file = some x.nfile ∧ c.size = ct.size ∧
      core x1 = { core x with files := x.files ++ [(x.nfile, ct)], nfile := x.nfile + 1 }) := by
  unfold store at hst
  split at hst
  · cases hst
  · cases hst; exact .inl ⟨rfl, rfl⟩
  · rename_i mode ct _
    cases hst
    exact .inr ⟨ct, rfl, rfl, rfl⟩

/-- the file invariant after `Disk.store` inside a block -/
theorem drf_store_PI {x x1 : Cache} {E : Externals} {v : PyVal} {rd : Bool} {c : Cols}
    (hst : x.store E v rd = .ok (x1, c)) (h : PI (drf_flatC (core x)) []) :
    PI (drf_flatC (core x1)) [c.file] ∧
    (∀ g, c.file = some g → ∃ ct, (g, ct) ∈ x1.files ∧ ct.size = c.size) := by
  rcases drf_store_core hst with ⟨hf, hc⟩ | ⟨ct, hf, hsz, hc⟩
  · rw [hc, hf]
    exact ⟨h.cl_congr (by simp), by simp⟩
  · rw [hc, hf]
    refine ⟨h.fwrite ct, ?_⟩
    intro g hg
    simp only [Option.some.injEq] at hg
    subst hg
    have : x1.files = x.files ++ [(x.nfile, ct)] := congrArg Core.files hc
    exact ⟨ct, by rw [this]; simp, hsz.symm⟩

/-! ### `push` inside a block -/

theorem drf_mkRow_newRow (s : Cache) (k : SqlVal) (now : Int) (c : Cols) :
    newRow s k true now c = mkRow s.rows k now c := rfl

/-- a `push` that succeeds inside a block, on a table the lazy cull leaves alone: one row is
appended, nothing else in `core` changes (the value file was written by `store`) -/
theorem drf_push_block (x : Cache) (E : Externals) (now : Int) (v : PyVal) (back : Bool)
    (hd : 0 < x.depth) {x1 : Cache} {c : Cols} (hst : x.store E v false = .ok (x1, c)) {num : Int}
    (hn : pushNum x none back = some num) (hsel : x.selKey (queueKey none num) true = none)
    (hb : (colsOf c none now .null).bindable = true) (hbk : bindable (queueKey none num) = true)
    (hq : Quiet x now) :
    core (x.push E now v none back none false .null).1 =
      { core (drf_mark x1 c.file) with
        rows := x.rows ++ [mkRow x.rows (queueKey none num) now (colsOf c none now .null)] } := by
  obtain ⟨h1, h2, h3⟩ := store_spec hst
  rw [push_eq, hst]
  simp only
  rw [drf_transact_pos _ _ _ (by rw [h3]; exact hd)]
  have hy1 : (drf_mark x1 c.file).rows = x.rows := by cases c.file <;> exact h1
  have hy2 : (drf_mark x1 c.file).cfg = x.cfg := by cases c.file <;> exact h2
  have hn' : pushNum (drf_mark x1 c.file) none back = some num := by
    rw [pushNum_congr hy1 hy2]; exact hn
  have hsel' : (drf_mark x1 c.file).selKey (queueKey none num) true = none := by
    rw [selKey_congr hy1]; exact hsel
  have hbody := pushBody_some (now := now) (c := colsOf c none now .null) hn' hsel' hb hbk
  have hbody' : pushBody now none back { c with expT := (none : Option Int).map (now + ·), tag := .null }
      (drf_mark x1 c.file) = _ := hbody
  rw [hbody']
  simp only [if_true]
  have hQ : Quiet (((drf_mark x1 c.file).logSql "selQueueEnd").insRow (queueKey none num) true now
      (colsOf c none now .null)) now := by
    rcases hq with h | ⟨hp, he⟩
    · exact .inl (by show (drf_mark x1 c.file).cfg.cullLimit = 0; rw [hy2]; exact h)
    · refine .inr ⟨by show (drf_mark x1 c.file).cfg.policy = .none; rw [hy2]; exact hp, ?_⟩
      intro r hr
      rw [insRow_rows, logSql_rows, hy1] at hr
      rcases List.mem_append.1 hr with hr | hr
      · exact he r hr
      · simp only [List.mem_singleton] at hr
        subst hr
        rfl
  obtain ⟨hc1, hc2⟩ := drf_cullW_quiet _ now hQ
  rw [hc2]
  simp only [List.append_nil]
  have : ∀ t : Cache, core { t with pending := t.pending } = core t := fun _ => rfl
  rw [this, hc1, core_insRow, drf_mkRow_newRow]
  simp only [core_logSql, core_rows, logSql_rows, hy1]

/-! ### one round of `pull` inside a block -/

/-- the deferred removal of a pulled row's value file -/
def drf_fileCl (r : Row) : List (Option Nat) :=
  match r.file with
  | some f => [some f]
  | none => []

theorem drf_pullTake_block (x : Cache) (E : Externals) (r : Row) (hd : 0 < x.depth) :
    core (pullTake x E r) =
      { core x with rows := x.rows.filter (fun a => ![r.rowid].contains a.rowid),
                    pending := x.pending ++ drf_fileCl r } := by
  have h1 : core (pullDel x r []) =
      { core x with rows := x.rows.filter (fun a => ![r.rowid].contains a.rowid) } := by
    unfold pullDel
    rw [drf_transact_pos _ _ _ hd]
    unfold delBody drf_mark
    simp only [if_true, List.append_nil]
    have : ∀ t : Cache, core { t with pending := t.pending } = core t := fun _ => rfl
    rw [this, core_delRow, core_logSql]
    rfl
  have hd2 : 0 < ((pullDel x r []).fetchRow E r false).1.depth := by
    have := congrArg Core.depth ((core_fetchRow (pullDel x r []) E r false).trans h1)
    simp only [core_depth] at this
    rw [this]; exact hd
  unfold pullTake removeCommitted drf_fileCl
  cases hf : r.file with
  | none =>
    simp only [List.append_nil]
    rw [core_fetchRow, h1]
    rfl
  | some f =>
    simp only [hd2, if_true]
    have : ∀ t : Cache, core { t with pending := t.pending ++ [some f] } =
        { core t with pending := (core t).pending ++ [some f] } := fun _ => rfl
    rw [this, core_fetchRow, h1]
    rfl

/-- `pull` from a queue whose end item is alive and readable is one round -/
theorem drf_pull_one (x : Cache) (E : Externals) (now : Int) (front : Bool) (r : Row)
    (hh : qhead x none front = some r) (hlive : expired now r = false)
    (hf : (x.fetchRow E r false).2 ≠ .ioerror) :
    (x.pull E now none front false false).1 = pullTake x E r := by
  unfold pull
  rw [pullLoop_succ]
  simp only [hh, hlive, Bool.false_eq_true, if_false]
  rw [pullDel_fetch x E r]
  split
  · contradiction
  · rfl

/-! ### a `push` that fails at the bind -/

theorem drf_pushBody_unbindable (now : Int) (p : Option Str) (back : Bool) (c : Cols) (t : Cache)
    (hb : c.bindable = false) :
    (pushBody now p back c t).ok = false ∧ core (pushBody now p back c t).s = core t := by
  unfold pushBody
  split
  · exact ⟨rfl, rfl⟩
  · simp only
    split
    · exact ⟨rfl, rfl⟩
    · simp only [hb, Bool.not_false, Bool.true_or, if_true]
      exact ⟨trivial, rfl⟩

theorem drf_push_block_unbindable (x : Cache) (E : Externals) (now : Int) (v : PyVal) (back : Bool)
    (hd : 0 < x.depth) {x1 : Cache} {c : Cols} (hst : x.store E v false = .ok (x1, c))
    (hb : (colsOf c none now .null).bindable = false) :
    core (x.push E now v none back none false .null).1 = core (drf_mark x1 c.file) := by
  obtain ⟨-, -, h3⟩ := store_spec hst
  rw [push_eq, hst]
  simp only
  rw [drf_transact_pos _ _ _ (by rw [h3]; exact hd)]
  obtain ⟨h1, h2⟩ := drf_pushBody_unbindable now none back (colsOf c none now .null) (drf_mark x1 c.file) hb
  have h1' : (pushBody now none back { c with expT := (none : Option Int).map (now + ·), tag := .null }
      (drf_mark x1 c.file)).ok = false := h1
  rw [if_neg (by rw [h1']; simp)]
  exact h2

theorem drf_pushBody_unbindable_out (now : Int) (p : Option Str) (back : Bool) (c : Cols) (t : Cache)
    {num : Int} (hn : pushNum t p back = some num) (hsel : t.selKey (queueKey p num) true = none)
    (hb : c.bindable = false) :
    (pushBody now p back c t).out = .exc "UnicodeEncodeError" := by
  unfold pushBody
  rw [hn]
  have hsel' : ((t.logSql "selQueueEnd").selKey (queueKey p num) true) = none := hsel
  simp only [hsel', Option.isSome_none, Bool.false_eq_true, if_false, hb, Bool.not_false, Bool.true_or,
    if_true]

/-- … and the result is the UnicodeEncodeError of the bind, when the insert was otherwise possible -/
theorem drf_push_block_unbindable_out (x : Cache) (E : Externals) (now : Int) (v : PyVal) (back : Bool)
    (hd : 0 < x.depth) {x1 : Cache} {c : Cols} (hst : x.store E v false = .ok (x1, c)) {num : Int}
    (hn : pushNum x none back = some num) (hsel : x.selKey (queueKey none num) true = none)
    (hb : (colsOf c none now .null).bindable = false) :
    (x.push E now v none back none false .null).2 = .exc "UnicodeEncodeError" := by
  obtain ⟨h1, h2, h3⟩ := store_spec hst
  rw [push_eq, hst]
  simp only
  rw [drf_transact_pos _ _ _ (by rw [h3]; exact hd)]
  have hy1 : (drf_mark x1 c.file).rows = x.rows := by cases c.file <;> exact h1
  have hy2 : (drf_mark x1 c.file).cfg = x.cfg := by cases c.file <;> exact h2
  have hn' : pushNum (drf_mark x1 c.file) none back = some num := by
    rw [pushNum_congr hy1 hy2]; exact hn
  have hsel' : (drf_mark x1 c.file).selKey (queueKey none num) true = none := by
    rw [selKey_congr hy1]; exact hsel
  have ho := drf_pushBody_unbindable_out now none back (colsOf c none now .null) (drf_mark x1 c.file) hn' hsel' hb
  have hok := (drf_pushBody_unbindable now none back (colsOf c none now .null) (drf_mark x1 c.file) hb).1
  have ho' : (pushBody now none back { c with expT := (none : Option Int).map (now + ·), tag := .null }
      (drf_mark x1 c.file)).out = .exc "UnicodeEncodeError" := ho
  have hok' : (pushBody now none back { c with expT := (none : Option Int).map (now + ·), tag := .null }
      (drf_mark x1 c.file)).ok = false := hok
  rw [if_neg (by rw [hok']; simp)]
  exact ho'

/-! ### the invariant of a state inside the outermost block -/

/-- inside the outermost block: depth 1, the table invariant, and the files are consistent once
the deferred removals are done -/
structure drf_BI (x : Cache) : Prop where
  depth : x.depth = 1
  pi : PI (drf_flatC (core x)) x.pending
  tinv : TableInv x

theorem drf_BI_tbegin (s : Cache) (h : Good s) : drf_BI s.tbegin ∧ s.tbegin.pending = [] := by
  obtain ⟨h1, h2, h3⟩ := drf_tbegin_core s h
  refine ⟨⟨h2, ?_, tbegin_inv _ h.tinv⟩, h3⟩
  rw [h1, h3]
  exact h.pi

theorem drf_BI_tend (x : Cache) (h : drf_BI x) :
    Good x.tend ∧ core x.tend = { drf_flatC (core x) with
      files := (core x).files.filter (fun p => !x.pending.contains (some p.1)) } := by
  have hc := drf_tend_core x h.depth
  refine ⟨good_of_pi (tend_inv _ h.tinv) ?_, hc⟩
  rw [hc]
  exact PI.finish (cl := x.pending) (extra := []) (by simpa using h.pi)

theorem drf_store_flat {x x1 : Cache} {E : Externals} {v : PyVal} {rd : Bool} {c : Cols}
    (hst : x.store E v rd = .ok (x1, c)) :
    x1.pending = x.pending ∧ x1.depth = x.depth ∧ x1.statistics = x.statistics ∧
    (∀ q ∈ x.files, q ∈ x1.files) := by
  rcases drf_store_core hst with ⟨-, hc⟩ | ⟨ct, -, -, hc⟩
  · exact ⟨congrArg Core.pending hc, congrArg Core.depth hc, congrArg Core.statistics hc,
      fun q hq => by rw [show x1.files = x.files from congrArg Core.files hc]; exact hq⟩
  · exact ⟨congrArg Core.pending hc, congrArg Core.depth hc, congrArg Core.statistics hc,
      fun q hq => by
        rw [show x1.files = x.files ++ [(x.nfile, ct)] from congrArg Core.files hc]
        exact List.mem_append_left _ hq⟩

theorem drf_mark_core_fields (x : Cache) (fresh : Option Nat) :
    (drf_mark x fresh).pending = x.pending ∧ (drf_mark x fresh).depth = x.depth ∧
    (drf_mark x fresh).files = x.files ∧ (drf_mark x fresh).cfg = x.cfg ∧
    (drf_mark x fresh).statistics = x.statistics ∧ (drf_mark x fresh).rows = x.rows := by
  cases fresh <;> exact ⟨rfl, rfl, rfl, rfl, rfl, rfl⟩

/-- a successful `push` keeps the in-block invariant -/
theorem drf_BI_push_ok (x : Cache) (E : Externals) (now : Int) (v : PyVal) (back : Bool)
    (h : drf_BI x) (hp : x.pending = [])
    {x1 : Cache} {c : Cols} (hst : x.store E v false = .ok (x1, c)) {num : Int}
    (hn : pushNum x none back = some num) (hsel : x.selKey (queueKey none num) true = none)
    (hb : (colsOf c none now .null).bindable = true) (hbk : bindable (queueKey none num) = true)
    (hq : Quiet x now) :
    drf_BI (x.push E now v none back none false .null).1 ∧
    (x.push E now v none back none false .null).1.pending = [] ∧
    core (x.push E now v none back none false .null).1 =
      { core (drf_mark x1 c.file) with
        rows := x.rows ++ [mkRow x.rows (queueKey none num) now (colsOf c none now .null)] } := by
  have hd : 0 < x.depth := by rw [h.depth]; exact Nat.one_pos
  have hcore := drf_push_block x E now v back hd hst hn hsel hb hbk hq
  obtain ⟨hs1, hs2, hs3⟩ := store_spec hst
  obtain ⟨hf1, hf2, -, -⟩ := drf_store_flat hst
  obtain ⟨hm1, hm2, -⟩ := drf_mark_core_fields x1 c.file
  have hpend : (x.push E now v none back none false .null).1.pending = [] := by
    have := congrArg Core.pending hcore
    simp only [core_pending] at this
    rw [this, hm1, hf1, hp]
  have hdep : (x.push E now v none back none false .null).1.depth = 1 := by
    have := congrArg Core.depth hcore
    simp only [core_depth] at this
    rw [this, hm2, hf2, h.depth]
  refine ⟨⟨hdep, ?_, push_inv _ _ _ _ _ _ _ _ _ h.tinv⟩, hpend, hcore⟩
  rw [hpend, hcore, drf_flatC_setRows, drf_core_mark]
  obtain ⟨hP1, hfile⟩ := drf_store_PI hst (by rw [← hp]; exact h.pi)
  have hrows1 : (drf_flatC (core x1)).rows = x.rows := hs1
  have key : ({ drf_flatC (core x1) with
        rows := x.rows ++ [mkRow x.rows (queueKey none num) now (colsOf c none now .null)] } : Core) =
      { drf_flatC (core x1) with
        rows := (drf_flatC (core x1)).rows ++ [mkRow x.rows (queueKey none num) now (colsOf c none now .null)] } := by
    rw [hrows1]
  rw [key]
  refine hP1.ins (cl2 := []) _ ?_ ?_ ?_
  · intro a ha
    rw [hrows1] at ha
    have := le_maxRowid x.rows a ha
    show a.rowid ≠ maxRowid x.rows + 1
    omega
  · intro g hg
    have hg' : c.file = some g := hg
    refine ⟨by rw [hg']; exact List.mem_singleton.2 rfl, ?_⟩
    obtain ⟨ct, h1, h2⟩ := hfile g hg'
    exact ⟨ct, h1, h2⟩
  · intro f
    have hrf : (mkRow x.rows (queueKey none num) now (colsOf c none now .null)).file = c.file := rfl
    rw [hrf]
    exact ⟨fun h => absurd h List.not_mem_nil,
      fun ⟨h1, h2⟩ => absurd (List.mem_singleton.1 h1).symm h2⟩

/-- a `push` that fails at the bind keeps the in-block invariant (nothing was written) -/
theorem drf_BI_push_unbindable (x : Cache) (E : Externals) (now : Int) (v : PyVal) (back : Bool)
    (h : drf_BI x) {x1 : Cache} {c : Cols} (hst : x.store E v false = .ok (x1, c))
    (hfile : c.file = none) (hb : (colsOf c none now .null).bindable = false) :
    drf_BI (x.push E now v none back none false .null).1 ∧
    core (x.push E now v none back none false .null).1 = core x := by
  have hd : 0 < x.depth := by rw [h.depth]; exact Nat.one_pos
  have hcore := drf_push_block_unbindable x E now v back hd hst hb
  rw [hfile] at hcore
  have hx1 : core x1 = core x := by
    rcases drf_store_core hst with ⟨-, hc⟩ | ⟨ct, hf, -⟩
    · exact hc
    · rw [hfile] at hf; cases hf
  have hc2 : core (x.push E now v none back none false .null).1 = core x := hcore.trans hx1
  refine ⟨⟨?_, ?_, push_inv _ _ _ _ _ _ _ _ _ h.tinv⟩, hc2⟩
  · have := congrArg Core.depth hc2
    simp only [core_depth] at this
    rw [this]; exact h.depth
  · have hp := congrArg Core.pending hc2
    simp only [core_pending] at hp
    rw [hp, hc2]; exact h.pi

/-- one round of `pull` keeps the in-block invariant: the row goes, its file is queued for removal -/
theorem drf_BI_pull (x : Cache) (E : Externals) (now : Int) (front : Bool) (r : Row)
    (h : drf_BI x) (hh : qhead x none front = some r) (hlive : expired now r = false)
    (hf : (x.fetchRow E r false).2 ≠ .ioerror) :
    drf_BI (x.pull E now none front false false).1 ∧
    core (x.pull E now none front false false).1 =
      { core x with rows := x.rows.filter (fun a => ![r.rowid].contains a.rowid),
                    pending := x.pending ++ drf_fileCl r } := by
  have hd : 0 < x.depth := by rw [h.depth]; exact Nat.one_pos
  have hcore := drf_pullTake_block x E r hd
  rw [← drf_pull_one x E now front r hh hlive hf] at hcore
  refine ⟨⟨?_, ?_, pull_inv _ _ _ _ _ _ _ h.tinv⟩, hcore⟩
  · have := congrArg Core.depth hcore
    simp only [core_depth] at this
    rw [this]; exact h.depth
  · have hp := congrArg Core.pending hcore
    simp only [core_pending] at hp
    rw [hp, hcore]
    have hr : r ∈ x.rows := (mem_qrows.1 (qhead_mem hh)).1
    have := h.pi.delIn [r] (by intro a ha; simp only [List.mem_singleton] at ha; subst ha; exact hr)
    refine PI.cl_congr (c := _) this ?_
    intro f
    unfold drf_fileCl
    cases hrf : r.file <;> simp [hrf]

end DC.Cache
