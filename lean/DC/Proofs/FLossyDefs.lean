/-
Definitions used in the statements of C13_Lossy / C19_Lossy (FanoutCache and DjangoCache
refine the *lossy* reference dictionary under every eviction policy).  Nothing here is
proved except that the old invariant implies the new one.

 * `FGoodAny`: the invariant `FGood` of C13_Refine without `policy = none`;
 * `FPlacedOn V`: every stored row sits in the shard its key is routed to;
 * `FEvicted f op LL`: `LL` lists, SHARD BY SHARD, the rows one call evicted — every entry is an
   `Cache.Evicted` fact about THAT shard (its volume, its limit, its policy order);
 * `fdrops LL`: the keys the lossy dictionary drops after the call;
 * `DjSpec.runLossy` / `DjSpec.outsLossy`: the Django-level specification run lossily.
-/
import DC.Properties.C03_Lossy
import DC.Properties.C13_Refine
import DC.Model.DjSpec

namespace DC.Fanout
open DC.Cache DC.Spec

/-- the invariant of C13_Refine for EVERY eviction policy: at least one shard; every shard
quiescent and consistent; one configuration (that of `Fanout.init`: the size limit divided by
the number of shards) with a positive page size -/
structure FGoodAny (f : Fanout) : Prop where
  nonempty : f.shards ≠ []
  good : ∀ s ∈ f.shards, Cache.Good s
  cfg : ∀ s ∈ f.shards, s.cfg = fcfg f
  page : 0 < (fcfg f).page

/-- the old invariant is the special case -/
theorem FGood.toAny {f : Fanout} (h : FGood f) : FGoodAny f := ⟨h.nonempty, h.good, h.cfg, h.page⟩

/-- **every stored row sits in the shard its key is routed to** — more precisely, in the shard
of every key of `V` that the table treats as equal to its key (D11: `1` and `1.0` are one key
for the table and two for the router).  True of `Fanout.init`, kept by every call of a history
that satisfies the routing hypothesis.  Under eviction it matters: a row sitting in a foreign
shard can be evicted there while the shard of its key still holds the item. -/
def FPlacedOn (V : Spec.Key → Prop) (f : Fanout) : Prop :=
  ∀ i s, f.shards[i]? = some s → ∀ r ∈ s.rows, ∀ k, V k → sameKey (rowKey r) k = true → routeK f k = i

/-- on all keys -/
def FPlaced (f : Fanout) : Prop := FPlacedOn (fun _ => True) f

/-- the shards a call runs on: the shard of its key, or all of them (clear / evict / expire / cull) -/
def touches (f : Fanout) (op : Cache.Op) (i : Nat) : Prop :=
  match frf_opKey op with
  | some (E, k) => i = f.route E k
  | none => True

/-- **what one call of the sharded cache may evict**: `LL` has one list of rows per shard, and the
`i`-th list is what the Cache call evicted on shard `i` in the sense of `Cache.Evicted`
(C03_Lossy / C09) — so everything is PER SHARD:
 * a shard the call does not run on evicts nothing (a key-addressed call runs on one shard);
 * shard `i` evicts only in a write (or `cull`), only when ITS volume reached ITS limit
   (`size_limit / shards`), at most `cull_limit` rows, unexpired, in the policy's order AMONG THE
   ROWS OF THAT SHARD.
`prep s env` is shard `s` with the database-size observations `env` the call makes there: those of
the fanout for a key-addressed call, those left by the earlier shards for a bulk removal; the
shard afterwards is the state of the Cache call on it.  (`FEvicted` mentions `Fanout.step`, hence
the position of this definition after it.) -/
def FEvicted (f : Fanout) (op : Cache.Op) (LL : List (List Row)) : Prop :=
  LL.length = f.shards.length ∧
  ∀ i s, f.shards[i]? = some s →
    (touches f op i → ∃ env, (frf_isBulk op = false → env = f.env) ∧
      (f.step op).1.shards[i]? = some ((prep s env).step op).1 ∧
      Evicted (prep s env) op (LL.getD i [])) ∧
    (¬ touches f op i → LL.getD i [] = [])

/-- the keys the lossy dictionary drops after a call that evicted `LL` -/
def fdrops (LL : List (List Row)) : List Spec.Key := LL.flatten.map rowKey

/-- the rows evicted along a history: one list of per-shard lists per call -/
def FEvictedRun (f : Fanout) : List Cache.Op → List (List (List Row)) → Prop
  | [], LLs => LLs = []
  | op :: ops, LL :: LLs => FEvicted f op LL ∧ FEvictedRun (f.step op).1 ops LLs
  | _ :: _, [] => False

/-- after the call the sharded cache represents (on `V`) the dictionary `m'` without the keys of
the evicted rows; every evicted row held an entry of `m'` that was not expired at `now` -/
structure FLossyOn (V : Spec.Key → Prop) (f' : Fanout) (m' : Spec.Dict) (now : Int)
    (LL : List (List Row)) : Prop where
  refines : FRefinesOn V f' (dropKeys m' (fdrops LL)) now
  was : ∀ L ∈ LL, ∀ r ∈ L, V (rowKey r) →
    ∃ e, m'.get (rowKey r) = some e ∧ EntOf r e ∧ e.expired now = false

end DC.Fanout

namespace DC.DjSpec
open DC.Cache

/-- the Django-level specification run lossily: after each call the keys of the corresponding
element of `drops` are dropped from the dictionary (no drops left: nothing is dropped) -/
def runLossy (m : Spec.Dict) (C : Conf) (cfg : Cfg) : List DOp → List (List Spec.Key) → Spec.Dict
  | [], _ => m
  | op :: ops, drops =>
    runLossy (Spec.dropKeys (step m C cfg op).1 (drops.headD [])) C cfg ops drops.tail

/-- the results of a history on the lossy Django-level specification -/
def outsLossy (m : Spec.Dict) (C : Conf) (cfg : Cfg) : List DOp → List (List Spec.Key) → List Out
  | [], _ => []
  | op :: ops, drops =>
    (step m C cfg op).2 ::
      outsLossy (Spec.dropKeys (step m C cfg op).1 (drops.headD [])) C cfg ops drops.tail

end DC.DjSpec
