/- helper lemmas for the model of Cache.check (C17) -/
import DC.Model.Check

namespace DC.Check

end DC.Check
