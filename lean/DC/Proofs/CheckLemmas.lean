/- helper lemmas for the model of Cache.check (C17) -/
import DC.Model.Check

namespace DC.Check

/-- what the fixing row pass does to one row (given the files on disk) -/
def fixRow (files : List FsFile) (r : CRow) : Option CRow :=
  match r.file with
  | none => some r
  | some f =>
    match files.find? (·.id == f) with
    | some ff => some { r with size := ff.size }
    | none => none

/-- the warnings of the row pass, as a function of the files and the row list only -/
def rowWarns (files : List FsFile) : List CRow → List Warn
  | [] => []
  | r :: rest =>
    match r.file with
    | none => rowWarns files rest
    | some f =>
      match files.find? (·.id == f) with
      | some ff =>
        if ff.size != r.size then .wrongSize r.rowid ff.size r.size :: rowWarns files rest
        else rowWarns files rest
      | none => .notFound r.rowid :: rowWarns files rest

theorem check_eq (fix : Bool) (s : St) : check fix s =
    (let named := s.rows.filterMap (·.file)
     let r1 := rowPass fix s s.rows
     let r2 := filePass fix named r1.1
     let r3 := dirPass fix r2.1
     let r4 := counterPass fix r3.1
     (r4.1, r1.2 ++ r2.2 ++ r3.2 ++ r4.2)) := rfl

theorem rowPass_cons (fix : Bool) (t : St) (r : CRow) (rest : List CRow) :
    rowPass fix t (r :: rest) =
    match r.file with
    | none => rowPass fix t rest
    | some f =>
      match fileOf t f with
      | some ff =>
        if ff.size != r.size then
          let t' := if fix then
            { t with rows := t.rows.map (fun x => if x.rowid == r.rowid then { x with size := ff.size } else x), size := t.size + ff.size - r.size } else t
          ((rowPass fix t' rest).1, .wrongSize r.rowid ff.size r.size :: (rowPass fix t' rest).2)
        else rowPass fix t rest
      | none =>
        let t' := if fix then
          { t with rows := t.rows.filter (·.rowid != r.rowid), count := t.count - 1, size := t.size - r.size }
          else t
        ((rowPass fix t' rest).1, .notFound r.rowid :: (rowPass fix t' rest).2) := rfl


theorem rowPass_frame (fix : Bool) (rows : List CRow) : ∀ t : St,
    (rowPass fix t rows).1.files = t.files ∧ (rowPass fix t rows).1.dirs1 = t.dirs1 ∧
    (rowPass fix t rows).1.dirs2 = t.dirs2 := by
  induction rows with
  | nil => intro t; simp [rowPass]
  | cons r rest ih =>
    intro t
    rw [rowPass_cons]
    split
    · exact ih t
    · split
      · split
        · cases fix <;> simp [ih]
        · exact ih t
      · cases fix <;> simp [ih]

theorem rowPass_nofix (rows : List CRow) (t : St) : (rowPass false t rows).1 = t := by
  induction rows with
  | nil => simp [rowPass]
  | cons r rest ih =>
    rw [rowPass_cons]
    split
    · exact ih
    · split
      · split
        · simpa using ih
        · exact ih
      · simpa using ih

theorem rowPass_warns (fix : Bool) (rows : List CRow) : ∀ t : St,
    (rowPass fix t rows).2 = rowWarns t.files rows := by
  induction rows with
  | nil => intro t; simp [rowPass, rowWarns]
  | cons r rest ih =>
    intro t
    rw [rowPass_cons, rowWarns]
    unfold fileOf
    split
    · exact ih t
    · split
      · split
        · cases fix <;> simp [ih]
        · exact ih t
      · cases fix <;> simp [ih]


theorem map_upd_of_ne (l : List CRow) (k z : Nat) (h : ∀ x ∈ l, x.rowid ≠ k) :
    l.map (fun x => if x.rowid == k then { x with size := z } else x) = l := by
  induction l with
  | nil => rfl
  | cons a l ih =>
    simp only [List.mem_cons, forall_eq_or_imp] at h
    rw [List.map_cons, ih h.2]; simp [h.1]

theorem filter_of_ne (l : List CRow) (k : Nat) (h : ∀ x ∈ l, x.rowid ≠ k) :
    l.filter (·.rowid != k) = l := by
  induction l with
  | nil => rfl
  | cons a l ih =>
    simp only [List.mem_cons, forall_eq_or_imp] at h
    simp [h.1, ih h.2]

@[simp] theorem sumSizes_nil : sumSizes [] = 0 := rfl
@[simp] theorem sumSizes_cons (r : CRow) (l : List CRow) : sumSizes (r :: l) = r.size + sumSizes l := by
  simp [sumSizes]
@[simp] theorem sumSizes_append (a b : List CRow) : sumSizes (a ++ b) = sumSizes a + sumSizes b := by
  simp [sumSizes]

theorem fixRow_none {files : List FsFile} {r : CRow} (h : r.file = none) : fixRow files r = some r := by
  simp [fixRow, h]

theorem fixRow_found {files : List FsFile} {r : CRow} {f : Nat} {ff : FsFile} (h : r.file = some f)
    (h2 : files.find? (·.id == f) = some ff) : fixRow files r = some { r with size := ff.size } := by
  simp [fixRow, h, h2]

theorem fixRow_missing {files : List FsFile} {r : CRow} {f : Nat} (h : r.file = some f)
    (h2 : files.find? (·.id == f) = none) : fixRow files r = none := by
  simp only [fixRow, h, h2]

theorem rowPass_none {fix : Bool} {t : St} {r : CRow} {rest : List CRow} (h : r.file = none) :
    rowPass fix t (r :: rest) = rowPass fix t rest := by
  rw [rowPass_cons]; simp only [h]

theorem rowPass_ok {fix : Bool} {t : St} {r : CRow} {rest : List CRow} {f : Nat} {ff : FsFile}
    (h : r.file = some f) (h2 : t.files.find? (·.id == f) = some ff) (h3 : ff.size = r.size) :
    rowPass fix t (r :: rest) = rowPass fix t rest := by
  rw [rowPass_cons]; simp only [h, fileOf, h2, h3]; simp

theorem rowPass_wrong {t : St} {r : CRow} {rest : List CRow} {f : Nat} {ff : FsFile}
    (h : r.file = some f) (h2 : t.files.find? (·.id == f) = some ff) (h3 : ff.size ≠ r.size) :
    rowPass true t (r :: rest) =
      ((rowPass true { t with rows := t.rows.map (fun x => if x.rowid == r.rowid then { x with size := ff.size } else x), size := t.size + ff.size - r.size } rest).1,
       .wrongSize r.rowid ff.size r.size ::
       (rowPass true { t with rows := t.rows.map (fun x => if x.rowid == r.rowid then { x with size := ff.size } else x), size := t.size + ff.size - r.size } rest).2) := by
  rw [rowPass_cons]; simp only [h, fileOf, h2]; simp [h3]

theorem rowPass_missing {t : St} {r : CRow} {rest : List CRow} {f : Nat}
    (h : r.file = some f) (h2 : t.files.find? (·.id == f) = none) :
    rowPass true t (r :: rest) =
      ((rowPass true { t with rows := t.rows.filter (·.rowid != r.rowid), count := t.count - 1, size := t.size - r.size } rest).1,
       .notFound r.rowid ::
       (rowPass true { t with rows := t.rows.filter (·.rowid != r.rowid), count := t.count - 1, size := t.size - r.size } rest).2) := by
  rw [rowPass_cons]; simp only [h, fileOf, h2]; simp

theorem rowPass_fix (rows : List CRow) : ∀ (t : St) (done : List CRow),
    t.rows = done ++ rows → (rows.map (·.rowid)).Nodup →
    (∀ x ∈ done, ∀ y ∈ rows, x.rowid ≠ y.rowid) →
    (rowPass true t rows).1.rows = done ++ rows.filterMap (fixRow t.files) ∧
    (rowPass true t rows).1.count - ((rowPass true t rows).1.rows.length : Int)
      = t.count - (t.rows.length : Int) ∧
    (rowPass true t rows).1.size - sumSizes (rowPass true t rows).1.rows
      = t.size - sumSizes t.rows := by
  induction rows with
  | nil => intro t done h _ _; simp [rowPass, h]
  | cons r rest ih =>
    intro t done h nd dis
    simp only [List.map_cons, List.nodup_cons, List.mem_map, not_exists, not_and] at nd
    have hr : ∀ y ∈ rest, r.rowid ≠ y.rowid := fun y hy e => nd.1 y hy e.symm
    have hr' : ∀ y ∈ rest, y.rowid ≠ r.rowid := fun y hy e => nd.1 y hy e
    have hd : ∀ x ∈ done, x.rowid ≠ r.rowid := fun x hx => dis x hx r (by simp)
    have dis0 : ∀ x ∈ done, ∀ y ∈ rest, x.rowid ≠ y.rowid :=
      fun x hx y hy => dis x hx y (by simp [hy])
    have dis' : ∀ r' : CRow, r'.rowid = r.rowid → ∀ x ∈ done ++ [r'], ∀ y ∈ rest, x.rowid ≠ y.rowid := by
      intro r' e x hx y hy
      rcases List.mem_append.1 hx with hx | hx
      · exact dis0 x hx y hy
      · simp only [List.mem_singleton] at hx; subst hx; rw [e]; exact hr y hy
    have keep := ih t (done ++ [r]) (by simp [h]) nd.2 (dis' r rfl)
    cases hf : r.file with
    | none =>
      rw [rowPass_none hf, List.filterMap_cons, fixRow_none hf]
      simpa using keep
    | some f =>
      cases hff : t.files.find? (·.id == f) with
      | some ff =>
        by_cases hsz : ff.size = r.size
        · rw [rowPass_ok hf hff hsz, List.filterMap_cons, fixRow_found hf hff]
          have e : ({ r with size := ff.size } : CRow) = r := by rw [hsz]
          rw [e]
          simpa using keep
        · rw [rowPass_wrong hf hff hsz, List.filterMap_cons, fixRow_found hf hff]
          have hrows : t.rows.map (fun x => if x.rowid == r.rowid then { x with size := ff.size } else x)
              = (done ++ [{ r with size := ff.size }]) ++ rest := by
            simp only [h, List.map_append, List.map_cons, beq_self_eq_true, if_true]
            rw [map_upd_of_ne done _ _ hd, map_upd_of_ne rest _ _ hr']
            simp
          have := ih { t with rows := t.rows.map (fun x => if x.rowid == r.rowid then { x with size := ff.size } else x), size := t.size + ff.size - r.size } (done ++ [{ r with size := ff.size }])
            hrows nd.2 (dis' _ rfl)
          obtain ⟨h1, h2, h3⟩ := this
          simp only [] at h1 h2 h3 ⊢
          refine ⟨by simpa using h1, ?_, ?_⟩
          · rw [h2]; simp
          · rw [h3, hrows, h]; simp; omega
      | none =>
        rw [rowPass_missing hf hff, List.filterMap_cons, fixRow_missing hf hff]
        have hrows : t.rows.filter (·.rowid != r.rowid) = done ++ rest := by
          simp only [h, List.filter_append, List.filter_cons]
          rw [filter_of_ne done _ hd, filter_of_ne rest _ hr']
          simp
        have := ih { t with rows := t.rows.filter (·.rowid != r.rowid), count := t.count - 1, size := t.size - r.size } done
          hrows nd.2 dis0
        obtain ⟨h1, h2, h3⟩ := this
        simp only [] at h1 h2 h3 ⊢
        refine ⟨by simpa using h1, ?_, ?_⟩
        · rw [h2, hrows, h]; simp; omega
        · rw [h3, hrows, h]; simp; omega


/-! ### the other passes -/

theorem filePass_fst_false (named : List Nat) (s : St) : (filePass false named s).1 = s := rfl

theorem filePass_fst_true (named : List Nat) (s : St) :
    (filePass true named s).1 = { s with files := s.files.filter (fun f => named.contains f.id || f.db) } := rfl

theorem filePass_snd (fix : Bool) (named : List Nat) (s : St) :
    (filePass fix named s).2 = (s.files.filter (fun f => !named.contains f.id && !f.db)).map (fun f => .unknown f.id) := rfl

theorem dirPass_fst_false (s : St) : (dirPass false s).1 = s := rfl

theorem dirPass_fst_true (s : St) :
    (dirPass true s).1 = { s with
      dirs2 := s.dirs2.filter (fun d => !dir2Empty s d),
      dirs1 := s.dirs1.filter (fun d =>
        (s.dirs2.filter (fun d => !dir2Empty s d)).any (·.1 == d) || s.files.any (·.under d)) } := by
  simp only [dirPass, if_true]
  congr 1
  apply List.filter_congr
  intro d hd
  simp [hd]
  grind

theorem dirPass_snd_false (s : St) :
    (dirPass false s).2 = (s.dirs2.filter (dir2Empty s)).map (fun d => .emptyDir2 d.1 d.2) ++
      (s.dirs1.filter (fun d => !s.dirs2.any (·.1 == d) && !s.files.any (·.under d))).map .emptyDir1 := rfl

theorem dirPass_snd_true (s : St) :
    (dirPass true s).2 = (s.dirs2.filter (dir2Empty s)).map (fun d => .emptyDir2 d.1 d.2) ++
      (s.dirs1.filter (fun d => !(s.dirs2.filter (fun d => !dir2Empty s d)).any (·.1 == d) &&
          !s.files.any (·.under d))).map .emptyDir1 := rfl

theorem counterPass_fst_false (s : St) : (counterPass false s).1 = s := by
  unfold counterPass
  by_cases h1 : s.count = s.rows.length <;> by_cases h2 : s.size = sumSizes s.rows <;> simp [h1, h2]

theorem counterPass_fst_true (s : St) :
    (counterPass true s).1 = { s with count := s.rows.length, size := sumSizes s.rows } := by
  unfold counterPass
  by_cases h1 : s.count = s.rows.length <;> by_cases h2 : s.size = sumSizes s.rows <;> simp [h1, h2]
  all_goals (cases s; simp_all)

theorem counterPass_snd (fix : Bool) (s : St) :
    (counterPass fix s).2 =
      (if s.count = s.rows.length then [] else [Warn.count s.count s.rows.length]) ++
      (if s.size = sumSizes s.rows then [] else [Warn.size s.size (sumSizes s.rows)]) := by
  unfold counterPass
  by_cases h1 : s.count = s.rows.length <;> by_cases h2 : s.size = sumSizes s.rows <;>
    cases fix <;> simp [h1, h2]


/-! ### lookups by file id -/

theorem find_id_some {files : List FsFile} {f : Nat} {ff : FsFile}
    (h : files.find? (·.id == f) = some ff) : ff ∈ files ∧ ff.id = f :=
  ⟨List.mem_of_find?_eq_some h, by simpa using List.find?_some h⟩

theorem find_id_of_mem {files : List FsFile} (nd : (files.map (·.id)).Nodup) {ff : FsFile}
    (hm : ff ∈ files) : files.find? (·.id == ff.id) = some ff := by
  induction files with
  | nil => cases hm
  | cons a l ih =>
    simp only [List.map_cons, List.nodup_cons, List.mem_map, not_exists, not_and] at nd
    rcases List.mem_cons.1 hm with rfl | hm
    · simp
    · have : a.id ≠ ff.id := fun e => nd.1 ff hm e.symm
      simp [this, ih nd.2 hm]

theorem find_id_isSome_of_mem {files : List FsFile} {ff : FsFile} (hm : ff ∈ files) :
    ∃ ff', files.find? (·.id == ff.id) = some ff' := by
  cases h : files.find? (·.id == ff.id) with
  | some x => exact ⟨x, rfl⟩
  | none =>
    rw [List.find?_eq_none] at h
    exact absurd (h ff hm) (by simp)

/-! ### the state after `check true` -/

theorem check_true_fst (s : St) (hnd : (s.rows.map (·.rowid)).Nodup) :
    (check true s).1 =
      { rows := s.rows.filterMap (fixRow s.files),
        count := (s.rows.filterMap (fixRow s.files)).length,
        size := sumSizes (s.rows.filterMap (fixRow s.files)),
        files := s.files.filter (fun f => (s.rows.filterMap (·.file)).contains f.id || f.db),
        dirs2 := s.dirs2.filter (fun d =>
          (s.files.filter (fun f => (s.rows.filterMap (·.file)).contains f.id || f.db)).any (·.inDir2 d)),
        dirs1 := s.dirs1.filter (fun d =>
          (s.dirs2.filter (fun d =>
            (s.files.filter (fun f => (s.rows.filterMap (·.file)).contains f.id || f.db)).any
              (·.inDir2 d))).any (·.1 == d) ||
          (s.files.filter (fun f => (s.rows.filterMap (·.file)).contains f.id || f.db)).any (·.under d)) } := by
  rw [check_eq]
  simp only [counterPass_fst_true, dirPass_fst_true, filePass_fst_true]
  have h1 := rowPass_fix s.rows s [] rfl hnd (by simp)
  have h2 := rowPass_frame true s.rows s
  generalize (rowPass true s s.rows).1 = t at *
  obtain ⟨rows, count, size, files, dirs1, dirs2⟩ := t
  simp only [List.nil_append] at h1 h2
  obtain ⟨e1, _, _⟩ := h1
  obtain ⟨e2, e3, e4⟩ := h2
  subst e1 e2 e3 e4
  simp [dir2Empty]

theorem check_false_snd (s : St) :
    (check false s).2 = rowWarns s.files s.rows ++
      (filePass false (s.rows.filterMap (·.file)) s).2 ++ (dirPass false s).2 ++ (counterPass false s).2 := by
  rw [check_eq]
  simp only [rowPass_nofix, filePass_fst_false, dirPass_fst_false, rowPass_warns]


theorem fixRow_some {files : List FsFile} {r r' : CRow} (h : fixRow files r = some r') :
    r'.rowid = r.rowid ∧ r'.file = r.file ∧
    ∀ f, r.file = some f → ∃ ff, files.find? (·.id == f) = some ff ∧ r'.size = ff.size := by
  cases hf : r.file with
  | none =>
    rw [fixRow_none hf] at h
    cases h; simp [hf]
  | some f =>
    cases hff : files.find? (·.id == f) with
    | none => rw [fixRow_missing hf hff] at h; cases h
    | some ff =>
      rw [fixRow_found hf hff] at h
      cases h
      refine ⟨rfl, hf.symm ▸ rfl, ?_⟩
      intro f' e; cases e; exact ⟨ff, hff, rfl⟩

theorem map_rowid_filterMap_sublist (files : List FsFile) (rows : List CRow) :
    ((rows.filterMap (fixRow files)).map (·.rowid)).Sublist (rows.map (·.rowid)) := by
  induction rows with
  | nil => simp
  | cons r rest ih =>
    rw [List.filterMap_cons]
    cases h : fixRow files r with
    | none => simpa using ih.cons _
    | some r' =>
      have := (fixRow_some h).1
      simp only [List.map_cons, this]
      exact ih.cons_cons _


/-! ### the repaired state, field by field -/

def rows' (s : St) : List CRow := s.rows.filterMap (fixRow s.files)
def files' (s : St) : List FsFile :=
  s.files.filter (fun f => (s.rows.filterMap (·.file)).contains f.id || f.db)
def dirs2' (s : St) : List (Nat × Nat) :=
  s.dirs2.filter (fun d => (files' s).any (·.inDir2 d))
def dirs1' (s : St) : List Nat :=
  s.dirs1.filter (fun d => (dirs2' s).any (·.1 == d) || (files' s).any (·.under d))

theorem check_true_fst' (s : St) (hnd : (s.rows.map (·.rowid)).Nodup) :
    (check true s).1 = ⟨rows' s, (rows' s).length, sumSizes (rows' s), files' s, dirs1' s, dirs2' s⟩ :=
  check_true_fst s hnd

theorem check_true_rows (s : St) (hnd : (s.rows.map (·.rowid)).Nodup) : (check true s).1.rows = rows' s := by
  rw [check_true_fst' s hnd]
theorem check_true_files (s : St) (hnd : (s.rows.map (·.rowid)).Nodup) : (check true s).1.files = files' s := by
  rw [check_true_fst' s hnd]
theorem check_true_dirs1 (s : St) (hnd : (s.rows.map (·.rowid)).Nodup) : (check true s).1.dirs1 = dirs1' s := by
  rw [check_true_fst' s hnd]
theorem check_true_dirs2 (s : St) (hnd : (s.rows.map (·.rowid)).Nodup) : (check true s).1.dirs2 = dirs2' s := by
  rw [check_true_fst' s hnd]
theorem check_true_count (s : St) (hnd : (s.rows.map (·.rowid)).Nodup) :
    (check true s).1.count = (rows' s).length := by
  rw [check_true_fst' s hnd]
theorem check_true_size (s : St) (hnd : (s.rows.map (·.rowid)).Nodup) :
    (check true s).1.size = sumSizes (rows' s) := by
  rw [check_true_fst' s hnd]

theorem mem_rows' {s : St} {r' : CRow} : r' ∈ rows' s ↔ ∃ r ∈ s.rows, fixRow s.files r = some r' := by
  simp [rows', List.mem_filterMap]

theorem mem_files' {s : St} {ff : FsFile} :
    ff ∈ files' s ↔ ff ∈ s.files ∧ ((∃ r ∈ s.rows, r.file = some ff.id) ∨ ff.db = true) := by
  simp [files', List.mem_filter, List.mem_filterMap]

theorem mem_dirs2' {s : St} {d : Nat × Nat} :
    d ∈ dirs2' s ↔ d ∈ s.dirs2 ∧ ∃ ff ∈ files' s, ff.level = .leaf ∧ ff.d1 = d.1 ∧ ff.d2 = d.2 := by
  simp [dirs2', List.mem_filter, FsFile.inDir2]

theorem mem_dirs1' {s : St} {d : Nat} :
    d ∈ dirs1' s ↔ d ∈ s.dirs1 ∧
      ((∃ d2 ∈ dirs2' s, d2.1 = d) ∨ ∃ ff ∈ files' s, ff.level ≠ .top ∧ ff.d1 = d) := by
  simp [dirs1', List.mem_filter, FsFile.under]


/-! ### the warnings -/

/-- which pass a warning comes from -/
def Warn.kind : Warn → Nat
  | .wrongSize .. => 0
  | .notFound _ => 0
  | .unknown _ => 1
  | .emptyDir2 .. => 2
  | .emptyDir1 _ => 2
  | .count .. => 3
  | .size .. => 4

theorem kind_lt3 {w : Warn} (h : ∀ a b, w ≠ .count a b ∧ w ≠ .size a b) : w.kind < 3 := by
  cases w <;> simp_all [Warn.kind]

theorem kind_ne2 {w : Warn} (h : ∀ a b, w ≠ .emptyDir2 a b) (h' : ∀ a, w ≠ .emptyDir1 a) : w.kind ≠ 2 := by
  cases w <;> simp_all [Warn.kind]

theorem rowWarns_kind (files : List FsFile) (rows : List CRow) : ∀ w ∈ rowWarns files rows, w.kind = 0 := by
  induction rows with
  | nil => simp [rowWarns]
  | cons r rest ih =>
    intro w hw
    rw [rowWarns] at hw
    split at hw
    · exact ih w hw
    · split at hw
      · split at hw
        · rcases List.mem_cons.1 hw with rfl | hw
          · rfl
          · exact ih w hw
        · exact ih w hw
      · rcases List.mem_cons.1 hw with rfl | hw
        · rfl
        · exact ih w hw

theorem rowWarns_nil_iff (files : List FsFile) (rows : List CRow) :
    rowWarns files rows = [] ↔
      ∀ r ∈ rows, ∀ f, r.file = some f → ∃ ff, files.find? (·.id == f) = some ff ∧ ff.size = r.size := by
  induction rows with
  | nil => simp [rowWarns]
  | cons r rest ih =>
    rw [rowWarns]
    simp only [List.mem_cons, forall_eq_or_imp]
    cases hf : r.file with
    | none => simp [ih]
    | some f =>
      cases hff : files.find? (·.id == f) with
      | none => simp [hff]
      | some ff =>
        by_cases hsz : ff.size = r.size
        · simp [hsz, ih, hff]
        · simp [hsz, hff]

theorem filePass_kind (fix : Bool) (named : List Nat) (s : St) : ∀ w ∈ (filePass fix named s).2, w.kind = 1 := by
  intro w hw
  rw [filePass_snd] at hw
  obtain ⟨f, _, rfl⟩ := List.mem_map.1 hw
  rfl

theorem filePass_snd_congr (fix fix' : Bool) (named : List Nat) (s t : St) (h : s.files = t.files) :
    (filePass fix named s).2 = (filePass fix' named t).2 := by
  rw [filePass_snd, filePass_snd, h]

theorem filePass_nil_iff (fix : Bool) (s : St) :
    (filePass fix (s.rows.filterMap (·.file)) s).2 = [] ↔
      ∀ ff ∈ s.files, ff.db = false → ∃ r ∈ s.rows, r.file = some ff.id := by
  rw [filePass_snd]
  simp only [List.map_eq_nil_iff, List.filter_eq_nil_iff]
  constructor
  · intro h ff hff hdb
    have := h ff hff
    simpa [hdb, List.mem_filterMap] using this
  · intro h ff hff
    cases hdb : ff.db with
    | true => simp
    | false => simpa [List.mem_filterMap] using h ff hff hdb

theorem dirPass_kind (fix : Bool) (s : St) : ∀ w ∈ (dirPass fix s).2, w.kind = 2 := by
  intro w hw
  simp only [dirPass] at hw
  rcases List.mem_append.1 hw with hw | hw
  · obtain ⟨d, _, rfl⟩ := List.mem_map.1 hw; rfl
  · obtain ⟨d, _, rfl⟩ := List.mem_map.1 hw; rfl

theorem dirPass_snd_congr (fix : Bool) (s t : St) (h1 : s.files = t.files) (h2 : s.dirs1 = t.dirs1)
    (h3 : s.dirs2 = t.dirs2) : (dirPass fix s).2 = (dirPass fix t).2 := by
  have e : dir2Empty s = dir2Empty t := by funext d; simp only [dir2Empty, h1]
  cases fix
  · rw [dirPass_snd_false, dirPass_snd_false]; simp only [e, h1, h2, h3]
  · rw [dirPass_snd_true, dirPass_snd_true]; simp only [e, h1, h2, h3]

theorem dirPass_false_nil_iff (s : St) :
    (dirPass false s).2 = [] ↔
      (∀ d ∈ s.dirs2, ∃ ff ∈ s.files, ff.level = .leaf ∧ ff.d1 = d.1 ∧ ff.d2 = d.2) ∧
      (∀ d ∈ s.dirs1, (∃ d2 ∈ s.dirs2, d2.1 = d) ∨ ∃ ff ∈ s.files, ff.level ≠ .top ∧ ff.d1 = d) := by
  rw [dirPass_snd_false]
  simp only [List.append_eq_nil_iff, List.map_eq_nil_iff, List.filter_eq_nil_iff, dir2Empty,
    FsFile.inDir2, FsFile.under]
  simp
  intro _
  constructor
  · intro h d hd
    by_cases h' : ∃ x, (d, x) ∈ s.dirs2
    · exact Or.inl h'
    · refine Or.inr (h d hd ?_)
      intro a b hab e
      subst e
      exact h' ⟨b, hab⟩
  · intro h d hd hno
    rcases h d hd with ⟨x, hx⟩ | h
    · exact absurd rfl (hno d x hx)
    · exact h

/-- directory warnings only grow when unknown files are removed first -/
theorem dirPass_mono (s : St) (fs : List FsFile) (hsub : ∀ f ∈ fs, f ∈ s.files) :
    ∀ w ∈ (dirPass false s).2, w ∈ (dirPass true { s with files := fs }).2 := by
  intro w hw
  rw [dirPass_snd_false] at hw
  rw [dirPass_snd_true]
  simp only [List.mem_append, List.mem_map, List.mem_filter, dir2Empty] at hw ⊢
  rcases hw with ⟨d, ⟨hd, he⟩, rfl⟩ | ⟨d, ⟨hd, he⟩, rfl⟩
  · refine Or.inl ⟨d, ⟨hd, ?_⟩, rfl⟩
    simp only [Bool.not_eq_true', List.any_eq_false] at he ⊢
    exact fun f hf => he f (hsub f hf)
  · refine Or.inr ⟨d, ⟨hd, ?_⟩, rfl⟩
    simp only [Bool.and_eq_true, Bool.not_eq_true', List.any_eq_false, beq_iff_eq, List.mem_filter,
      and_imp] at he ⊢
    exact ⟨fun d2 hd2 _ => he.1 d2 hd2, fun f hf => he.2 f (hsub f hf)⟩

def counterWarns (c z : Int) (rows : List CRow) : List Warn :=
  (if c = rows.length then [] else [Warn.count c rows.length]) ++
  (if z = sumSizes rows then [] else [Warn.size z (sumSizes rows)])

theorem counterPass_snd' (fix : Bool) (s : St) : (counterPass fix s).2 = counterWarns s.count s.size s.rows :=
  counterPass_snd fix s

theorem counterWarns_kind {c z : Int} {rows : List CRow} : ∀ w ∈ counterWarns c z rows, 3 ≤ w.kind := by
  intro w hw
  unfold counterWarns at hw
  rcases List.mem_append.1 hw with hw | hw <;> split at hw <;> simp at hw <;> subst hw <;> simp [Warn.kind]

theorem counterWarns_nil_iff {c z : Int} {rows : List CRow} :
    counterWarns c z rows = [] ↔ c = rows.length ∧ z = sumSizes rows := by
  unfold counterWarns
  by_cases h1 : c = rows.length <;> by_cases h2 : z = sumSizes rows <;> simp [h1, h2]

theorem count_mem_counterWarns {c z : Int} {rows : List CRow} :
    (∃ a b, Warn.count a b ∈ counterWarns c z rows) ↔ c ≠ rows.length := by
  unfold counterWarns
  by_cases h1 : c = rows.length <;> by_cases h2 : z = sumSizes rows <;> simp [h1, h2]

theorem size_mem_counterWarns {c z : Int} {rows : List CRow} :
    (∃ a b, Warn.size a b ∈ counterWarns c z rows) ↔ z ≠ sumSizes rows := by
  unfold counterWarns
  by_cases h1 : c = rows.length <;> by_cases h2 : z = sumSizes rows <;> simp [h1, h2]

theorem check_false_snd' (s : St) :
    (check false s).2 = rowWarns s.files s.rows ++
      (filePass false (s.rows.filterMap (·.file)) s).2 ++ (dirPass false s).2 ++
      counterWarns s.count s.size s.rows := by
  rw [check_false_snd, counterPass_snd']

theorem check_true_snd (s : St) (hnd : (s.rows.map (·.rowid)).Nodup) :
    ∃ c z : Int, (c = (rows' s).length ↔ s.count = s.rows.length) ∧
      (z = sumSizes (rows' s) ↔ s.size = sumSizes s.rows) ∧
      (check true s).2 = rowWarns s.files s.rows ++
        (filePass false (s.rows.filterMap (·.file)) s).2 ++
        (dirPass true { s with files := files' s }).2 ++ counterWarns c z (rows' s) := by
  have h1 := rowPass_fix s.rows s [] rfl hnd (by simp)
  have h2 := rowPass_frame true s.rows s
  simp only [List.nil_append] at h1
  refine ⟨(rowPass true s s.rows).1.count, (rowPass true s s.rows).1.size, ?_, ?_, ?_⟩
  · rw [rows', ← h1.1]; omega
  · rw [rows', ← h1.1]; omega
  · rw [check_eq]
    simp only [rowPass_warns, counterPass_snd']
    congr 1
    · congr 1
      · congr 1
        exact filePass_snd_congr _ _ _ _ _ h2.1
      · apply dirPass_snd_congr
        · rw [filePass_fst_true, h2.1]; rfl
        · rw [filePass_fst_true]; exact h2.2.1
        · rw [filePass_fst_true]; exact h2.2.2
    · rw [dirPass_fst_true, filePass_fst_true, rows', ← h1.1]

end DC.Check
