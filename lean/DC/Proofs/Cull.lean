/- helper lemmas for `_cull` / `cull` (C09, C04) -/
import DC.Proofs.Expiry

namespace DC.Cache

/-! ### `volume()` -/

@[simp] theorem volume_rows (s : Cache) : s.volume.1.rows = s.rows := by
  unfold volume; simp only [logSql_env]; split <;> rfl

@[simp] theorem volume_cfg (s : Cache) : s.volume.1.cfg = s.cfg := by
  unfold volume; simp only [logSql_env]; split <;> rfl

@[simp] theorem volume_size (s : Cache) : s.volume.1.size = s.size := by
  unfold volume; simp only [logSql_env]; split <;> rfl

@[simp] theorem volume_depth (s : Cache) : s.volume.1.depth = s.depth := by
  unfold volume; simp only [logSql_env]; split <;> rfl

theorem volume_snd_cons (s : Cache) (pb : Nat) (rest : List Nat) (h : s.env = pb :: rest) :
    s.volume.2 = (pb : Int) + s.size := by
  unfold volume; simp only [logSql_env, h]; rfl

/-! ### the policy order -/

theorem policyLt_strictWeak (p : Policy) : StrictWeak (policyLt p) := by
  cases p <;> constructor <;> intros <;> simp_all [policyLt] <;> omega

/-! ### `Cache._cull` -/

/-- the part of `_cull` after the expired rows are gone -/
def cullTail (s : Cache) (cl : List (Option Nat)) (cullLimit : Nat) : Cache × List (Option Nat) :=
  if cullLimit == 0 then (s, cl)
  else if s.cfg.policy == .none then (s, cl)
  else
    let (s, vol) := s.volume
    if belowLimit s.cfg vol then (s, cl)
    else
      let rows := s.selPolicy cullLimit
      let s := s.logSql "selPolicy"
      if rows.isEmpty then (s, cl)
      else ((s.delIn (rows.map (·.rowid))).logSql "delPolicy", cl ++ rows.map (·.file))

theorem cullW_eq (s : Cache) (now : Int) (h : s.cfg.cullLimit ≠ 0) :
    s.cullW now =
      if (s.selExpired now s.cfg.cullLimit).isEmpty then
        cullTail (s.logSql "selExpired") [] s.cfg.cullLimit
      else
        cullTail (((s.logSql "selExpired").delIn ((s.selExpired now s.cfg.cullLimit).map (·.rowid))).logSql "delExpired")
          ((s.selExpired now s.cfg.cullLimit).map (·.file))
          (s.cfg.cullLimit - (s.selExpired now s.cfg.cullLimit).length) := by
  unfold cullW cullTail
  simp only [Option.getD_none, beq_iff_eq, h, if_false]
  split <;> simp

theorem cullTail_rows (t : Cache) (cl : List (Option Nat)) (c : Nat) :
    (cullTail t cl c).1.rows = t.rows ∨
    (t.cfg.policy ≠ .none ∧
     (∀ pb rest, t.env = pb :: rest → belowLimit t.cfg ((pb : Int) + t.size) = false) ∧
     (cullTail t cl c).1.rows = t.rows.filter (fun r =>
        !(((isort (policyLt t.cfg.policy) t.rows).take c).map (·.rowid)).contains r.rowid)) := by
  unfold cullTail
  by_cases hc : c = 0
  · left; simp [hc]
  by_cases hp : t.cfg.policy = .none
  · left; simp [hp]
  have hc' : (c == 0) = false := by simpa using hc
  have hp' : (t.cfg.policy == Policy.none) = false := by simpa using hp
  simp only [hc', hp', Bool.false_eq_true, if_false]
  have hr := volume_rows t
  have hcfg := volume_cfg t
  have hsnd := volume_snd_cons t
  generalize t.volume = v at hr hcfg hsnd ⊢
  rcases v with ⟨t', vol⟩
  simp only at hr hcfg hsnd ⊢
  by_cases hb : belowLimit t'.cfg vol = true
  · left; simp [hb, hr]
  · simp only [hb]
    right
    refine ⟨hp, ?_, ?_⟩
    · intro pb rest henv
      rw [hsnd pb rest henv, hcfg] at hb
      simpa using hb
    · have hsel : t'.selPolicy c = (isort (policyLt t.cfg.policy) t.rows).take c := by
        unfold selPolicy; rw [hr, hcfg]
      rw [hsel]
      by_cases he : ((isort (policyLt t.cfg.policy) t.rows).take c).isEmpty = true
      · simp only [he, if_true, Bool.false_eq_true, if_false, logSql_rows_ec, hr]
        rw [List.isEmpty_iff.1 he]
        symm; rw [List.filter_eq_self]; intro a _; rfl
      · simp only [he, Bool.false_eq_true, if_false, logSql_rows_ec, delIn_rows_ec, hr]

/-! ### the rows picked by the expired-rows query -/

theorem selExpired_mem {s : Cache} {now : Int} {n : Nat} {x : Row} (h : x ∈ s.selExpired now n) :
    x ∈ s.rows ∧ expired now x = true :=
  List.mem_filter.1 (mem_of_mem_take_isort h)

theorem selExpired_length_le (s : Cache) (now : Int) (n : Nat) : (s.selExpired now n).length ≤ n :=
  List.length_take_le _ _

theorem selExpired_nodup {s : Cache} (hasc : RowidsAsc s.rows) (now : Int) (n : Nat) :
    (s.selExpired now n).Nodup :=
  nodup_take_isort (hasc.nodup.sublist List.filter_sublist) n

/-- if at most `n` rows are expired the query returns all of them -/
theorem selExpired_all {s : Cache} {now : Int} {n : Nat}
    (h : (s.rows.filter (expired now)).length ≤ n) {x : Row} (hx : x ∈ s.rows) (he : expired now x = true) :
    x ∈ s.selExpired now n := by
  unfold selExpired
  rw [List.take_of_length_le (by rw [length_isort_ec]; exact h)]
  exact mem_isort_ec.2 (List.mem_filter.2 ⟨hx, he⟩)

theorem filter_not_mem_nil {α} [DecidableEq α] (l : List α) :
    l.filter (fun r => decide (r ∉ ([] : List α))) = l := by
  rw [List.filter_eq_self]; intro a _; simp

/-- Shape of the table after `_cull`: the expired page `E` is gone, and — only if a policy is
set and the observed volume is not below the limit — so is the policy page `P`. -/
theorem cullW_spec (s : Cache) (now : Int) (hasc : RowidsAsc s.rows) :
    ∃ R1 P : List Row,
      R1 = s.rows.filter (fun r => decide (r ∉ s.selExpired now s.cfg.cullLimit)) ∧
      P = (isort (policyLt s.cfg.policy) R1).take
            (s.cfg.cullLimit - (s.selExpired now s.cfg.cullLimit).length) ∧
      ((s.cullW now).1.rows = R1 ∨
       (s.cfg.policy ≠ .none ∧
        (∀ pb rest, s.env = pb :: rest → belowLimit s.cfg ((pb : Int) +
          (s.delIn ((s.selExpired now s.cfg.cullLimit).map (·.rowid))).size) = false) ∧
        (s.cullW now).1.rows = R1.filter (fun r => decide (r ∉ P)))) := by
  refine ⟨_, _, rfl, rfl, ?_⟩
  by_cases h0 : s.cfg.cullLimit = 0
  · left
    have h1 : s.cullW now = (s, []) := by unfold cullW; simp [h0]
    have h2 : s.selExpired now s.cfg.cullLimit = [] := by unfold selExpired; simp [h0]
    rw [h1, h2, filter_not_mem_nil]
  · have hR1 : (s.delIn ((s.selExpired now s.cfg.cullLimit).map (·.rowid))).rows =
        s.rows.filter (fun r => decide (r ∉ s.selExpired now s.cfg.cullLimit)) := by
      rw [delIn_rows_ec, filter_rowids_eq hasc (fun x hx => (selExpired_mem hx).1)]
    have key : ∀ (t : Cache) (cl : List (Option Nat)),
        t.rows = (s.delIn ((s.selExpired now s.cfg.cullLimit).map (·.rowid))).rows →
        t.cfg = s.cfg → t.env = s.env →
        t.size = (s.delIn ((s.selExpired now s.cfg.cullLimit).map (·.rowid))).size →
        ((cullTail t cl (s.cfg.cullLimit - (s.selExpired now s.cfg.cullLimit).length)).1.rows =
            s.rows.filter (fun r => decide (r ∉ s.selExpired now s.cfg.cullLimit)) ∨
         (s.cfg.policy ≠ .none ∧
          (∀ pb rest, s.env = pb :: rest → belowLimit s.cfg ((pb : Int) +
            (s.delIn ((s.selExpired now s.cfg.cullLimit).map (·.rowid))).size) = false) ∧
          (cullTail t cl (s.cfg.cullLimit - (s.selExpired now s.cfg.cullLimit).length)).1.rows =
            (s.rows.filter (fun r => decide (r ∉ s.selExpired now s.cfg.cullLimit))).filter
              (fun r => decide (r ∉ (isort (policyLt s.cfg.policy)
                (s.rows.filter (fun r => decide (r ∉ s.selExpired now s.cfg.cullLimit)))).take
                  (s.cfg.cullLimit - (s.selExpired now s.cfg.cullLimit).length))))) := by
      intro t cl hrows hcfg henv hsize
      rw [hR1] at hrows
      rcases cullTail_rows t cl (s.cfg.cullLimit - (s.selExpired now s.cfg.cullLimit).length) with h | ⟨hp, hv, h⟩
      · left; rw [h, hrows]
      · right
        rw [hcfg] at hp hv
        rw [henv, hsize] at hv
        refine ⟨hp, hv, ?_⟩
        rw [h, hcfg, hrows]
        exact filter_rowids_eq (hasc.filter _) (fun x hx => mem_of_mem_take_isort hx)
    rw [cullW_eq s now h0]
    split
    · rename_i he
      have hE : s.selExpired now s.cfg.cullLimit = [] := List.isEmpty_iff.1 he
      have := key (s.logSql "selExpired") [] (by rw [hE]; rfl) rfl rfl (by rw [hE]; rfl)
      rw [hE] at this ⊢
      simpa using this
    · exact key _ _ (by rw [logSql_rows_ec, delIn_logSql, logSql_rows_ec]) (by simp) (by simp)
        (by rw [logSql_size_ec, delIn_logSql, logSql_size_ec])

/-! ### consequences used by C04 / C09 -/

theorem cullW_sublist (s : Cache) (now : Int) (hasc : RowidsAsc s.rows) :
    (s.cullW now).1.rows.Sublist s.rows := by
  obtain ⟨R1, P, hR1, -, h | ⟨-, -, h⟩⟩ := cullW_spec s now hasc
  · rw [h, hR1]; exact List.filter_sublist
  · rw [h, hR1]; exact List.filter_sublist.trans List.filter_sublist

theorem cullW_length (s : Cache) (now : Int) (hasc : RowidsAsc s.rows) :
    s.rows.length ≤ (s.cullW now).1.rows.length + s.cfg.cullLimit := by
  obtain ⟨R1, P, hR1, hP, h⟩ := cullW_spec s now hasc
  have hE := length_filter_not_mem hasc.nodup (selExpired_nodup hasc now s.cfg.cullLimit)
    (fun x hx => (selExpired_mem hx).1)
  rw [← hR1] at hE
  have hEl := selExpired_length_le s now s.cfg.cullLimit
  rcases h with h | ⟨-, -, h⟩
  · rw [h]; omega
  · have hasc1 : RowidsAsc R1 := by rw [hR1]; exact hasc.filter _
    have hPl : P.length ≤ s.cfg.cullLimit - (s.selExpired now s.cfg.cullLimit).length := by
      rw [hP]; exact List.length_take_le _ _
    have hPn : P.Nodup := by rw [hP]; exact nodup_take_isort hasc1.nodup _
    have hPs : ∀ x ∈ P, x ∈ R1 := by intro x hx; rw [hP] at hx; exact mem_of_mem_take_isort hx
    have := length_filter_not_mem hasc1.nodup hPn hPs
    rw [h]; omega

/-- a removed row that is not expired was removed by the policy part, which ran -/
theorem cullW_removed (s : Cache) (now : Int) (hasc : RowidsAsc s.rows) (r : Row) (hr : r ∈ s.rows)
    (hnot : r ∉ (s.cullW now).1.rows) (hne : expired now r = false) :
    s.cfg.policy ≠ .none ∧
    (∀ pb rest, s.env = pb :: rest → belowLimit s.cfg ((pb : Int) +
      (s.delIn ((s.selExpired now s.cfg.cullLimit).map (·.rowid))).size) = false) ∧
    ∀ w ∈ (s.cullW now).1.rows, policyLt s.cfg.policy w r = false := by
  obtain ⟨R1, P, hR1, hP, h⟩ := cullW_spec s now hasc
  have hrE : r ∉ s.selExpired now s.cfg.cullLimit := by
    intro hx; have := (selExpired_mem hx).2; rw [hne] at this; cases this
  have hrR1 : r ∈ R1 := by rw [hR1]; exact List.mem_filter.2 ⟨hr, by simpa using hrE⟩
  rcases h with h | ⟨hp, hv, h⟩
  · rw [h] at hnot; exact absurd hrR1 hnot
  · refine ⟨hp, hv, ?_⟩
    rw [h] at hnot ⊢
    have hrP : r ∈ P := by
      apply Classical.byContradiction; intro hc
      exact hnot (List.mem_filter.2 ⟨hrR1, by simpa using hc⟩)
    intro w hw
    obtain ⟨hw1, hw2⟩ := List.mem_filter.1 hw
    have hw2 : w ∉ P := by simpa using hw2
    rw [hP] at hrP hw2
    exact isort_take_le (policyLt_strictWeak _) R1 _ hrP hw1 hw2

/-- no row of the expired page survives -/
theorem cullW_not_selExpired (s : Cache) (now : Int) (hasc : RowidsAsc s.rows) :
    ∀ r ∈ (s.cullW now).1.rows, r ∉ s.selExpired now s.cfg.cullLimit := by
  obtain ⟨R1, P, hR1, -, h⟩ := cullW_spec s now hasc
  intro r hr
  have hr1 : r ∈ R1 := by
    rcases h with h | ⟨-, -, h⟩
    · rw [h] at hr; exact hr
    · rw [h] at hr; exact (List.mem_filter.1 hr).1
  rw [hR1] at hr1
  simpa using (List.mem_filter.1 hr1).2

/-! ### the policy loop of `cull()` -/

/-- one non-empty round: the transaction that deletes the batch -/
def cullStep (s : Cache) (rows : List Row) : Cache :=
  (s.transact fun s =>
    { s := ((s.logSql "selPolicy").delIn (rows.map (·.rowid))).logSql "delPolicy", out := .none,
      cleanup := rows.map (·.file) }).1

/-- the last round when the table is empty -/
def cullEmpty (s : Cache) : Cache :=
  (s.transact fun s => { s := s.logSql "selPolicy", out := .none }).1

theorem cullLoop_succ (fuel : Nat) (s : Cache) (n : Nat) :
    cullLoop (fuel + 1) s n =
      if !aboveLimit s.volume.1.cfg s.volume.2 then (s.volume.1, n)
      else if (s.volume.1.selPolicy s.volume.1.cfg.batch).isEmpty then (cullEmpty s.volume.1, n)
      else cullLoop fuel (cullStep s.volume.1 (s.volume.1.selPolicy s.volume.1.cfg.batch))
        (n + (s.volume.1.selPolicy s.volume.1.cfg.batch).length) := rfl

theorem cullStep_rows (s : Cache) (rows : List Row) :
    (cullStep s rows).rows = (s.delIn (rows.map (·.rowid))).rows := by
  unfold cullStep transact
  by_cases hd : s.depth > 0
  · simp [hd, delIn_logSql]
  · simp [hd, delIn_logSql, delIn_log]

theorem cullStep_cfg (s : Cache) (rows : List Row) : (cullStep s rows).cfg = s.cfg := by
  unfold cullStep transact
  by_cases hd : s.depth > 0
  · simp [hd]
  · simp [hd]

theorem cullEmpty_rows (s : Cache) : (cullEmpty s).rows = s.rows := by
  unfold cullEmpty transact
  by_cases hd : s.depth > 0
  · simp [hd]
  · simp [hd]

theorem selPolicy_mem {s : Cache} {n : Nat} {x : Row} (h : x ∈ s.selPolicy n) : x ∈ s.rows :=
  mem_of_mem_take_isort h

theorem selPolicy_nodup {s : Cache} (hasc : RowidsAsc s.rows) (n : Nat) : (s.selPolicy n).Nodup :=
  nodup_take_isort hasc.nodup n

theorem cullStep_rows_sub (s : Cache) (hasc : RowidsAsc s.rows) (n : Nat) :
    (cullStep s (s.selPolicy n)).rows = s.rows.filter (fun r => decide (r ∉ s.selPolicy n)) := by
  rw [cullStep_rows, delIn_rows_ec, filter_rowids_eq hasc (fun x hx => selPolicy_mem hx)]

/-- the loop only removes rows and counts exactly the rows it removes -/
theorem cullLoop_inv (fuel : Nat) : ∀ (s : Cache) (n : Nat), RowidsAsc s.rows →
    (cullLoop fuel s n).1.rows.Sublist s.rows ∧
    (cullLoop fuel s n).2 + (cullLoop fuel s n).1.rows.length = n + s.rows.length := by
  induction fuel with
  | zero => intro s n _; exact ⟨List.Sublist.refl _, rfl⟩
  | succ fuel ih =>
    intro s n hasc
    rw [cullLoop_succ]
    split
    · simp
    · split
      · simp [cullEmpty_rows]
      · have hasc0 : RowidsAsc s.volume.1.rows := by rw [volume_rows]; exact hasc
        have hrows := cullStep_rows_sub s.volume.1 hasc0 s.volume.1.cfg.batch
        have hlen := length_filter_not_mem hasc0.nodup (selPolicy_nodup hasc0 s.volume.1.cfg.batch)
          (fun x hx => selPolicy_mem hx)
        have := ih (cullStep s.volume.1 (s.volume.1.selPolicy s.volume.1.cfg.batch))
          (n + (s.volume.1.selPolicy s.volume.1.cfg.batch).length)
          (by rw [hrows]; exact hasc0.filter _)
        rw [hrows] at this
        rw [volume_rows] at this hlen
        refine ⟨this.1.trans List.filter_sublist, ?_⟩
        omega

/-- fuel above the number of rows is never used up -/
theorem cullLoop_fuel_irrel (f1 : Nat) : ∀ (f2 : Nat) (s : Cache) (n : Nat), 0 < s.cfg.batch →
    RowidsAsc s.rows → s.rows.length < f1 → s.rows.length < f2 → cullLoop f1 s n = cullLoop f2 s n := by
  induction f1 with
  | zero => intro f2 s n _ _ h; omega
  | succ f1 ih =>
    intro f2 s n hb hasc h1 h2
    cases f2 with
    | zero => omega
    | succ f2 =>
      rw [cullLoop_succ, cullLoop_succ]
      split
      · rfl
      · split
        · rfl
        · rename_i hne
          have hasc0 : RowidsAsc s.volume.1.rows := by rw [volume_rows]; exact hasc
          have hrows := cullStep_rows_sub s.volume.1 hasc0 s.volume.1.cfg.batch
          have hlen := length_filter_not_mem hasc0.nodup (selPolicy_nodup hasc0 s.volume.1.cfg.batch)
            (fun x hx => selPolicy_mem hx)
          have hpos : 0 < (s.volume.1.selPolicy s.volume.1.cfg.batch).length := by
            cases hsel : s.volume.1.selPolicy s.volume.1.cfg.batch with
            | nil => rw [hsel] at hne; simp at hne
            | cons a t => simp
          rw [volume_rows] at hlen hrows
          apply ih
          · rw [cullStep_cfg, volume_cfg]; exact hb
          · rw [hrows]; exact hasc.filter _
          · rw [hrows]; omega
          · rw [hrows]; omega

/-! ### explicit `cull()` -/

theorem length_filter_add_not {α} (p : α → Bool) (l : List α) :
    (l.filter p).length + (l.filter (fun r => !p r)).length = l.length := by
  induction l with
  | nil => rfl
  | cons a t ih => cases h : p a <;> simp [h] <;> omega

theorem cull_eq (s : Cache) (now : Int) :
    s.cull now =
      if (expireLoop now (s.rows.length + 1) s none 0).1.cfg.policy == .none then
        ((expireLoop now (s.rows.length + 1) s none 0).1, .int (expireLoop now (s.rows.length + 1) s none 0).2)
      else
        ((cullLoop ((expireLoop now (s.rows.length + 1) s none 0).1.rows.length + 1)
            (expireLoop now (s.rows.length + 1) s none 0).1 (expireLoop now (s.rows.length + 1) s none 0).2).1,
         .int (cullLoop ((expireLoop now (s.rows.length + 1) s none 0).1.rows.length + 1)
            (expireLoop now (s.rows.length + 1) s none 0).1 (expireLoop now (s.rows.length + 1) s none 0).2).2) := rfl

theorem cull_spec (s : Cache) (now : Int) (hasc : RowidsAsc s.rows) (hp : 0 < s.cfg.page) :
    (s.cull now).1.rows.Sublist (s.rows.filter (fun r => !(expired now r))) ∧
    (∃ k : Nat, (s.cull now).2 = .int k ∧ k + (s.cull now).1.rows.length = s.rows.length) ∧
    (s.cfg.policy = .none → (s.cull now).1.rows = s.rows.filter (fun r => !(expired now r)) ∧
      (s.cull now).2 = .int (s.rows.filter (expired now)).length) := by
  obtain ⟨h1, h2, h3⟩ := expire_spec s now hasc hp
  have hlen := length_filter_add_not (expired now) s.rows
  rw [cull_eq]
  generalize expireLoop now (s.rows.length + 1) s none 0 = r at h1 h2 h3 ⊢
  rcases r with ⟨s1, n1⟩
  simp only at h1 h2 h3 ⊢
  have hl1 : s1.rows.length = (s.rows.filter (fun r => !(expired now r))).length := by rw [h1]
  rw [h3]
  by_cases hpol : s.cfg.policy = .none
  · simp only [hpol, beq_self_eq_true, if_true]
    rw [h1, h2]
    exact ⟨List.Sublist.refl _, ⟨_, rfl, hlen⟩, fun _ => ⟨rfl, rfl⟩⟩
  · have : (s.cfg.policy == Policy.none) = false := by simpa using hpol
    simp only [this, Bool.false_eq_true, if_false]
    have hasc1 : RowidsAsc s1.rows := by rw [h1]; exact hasc.filter _
    obtain ⟨c1, c2⟩ := cullLoop_inv (s1.rows.length + 1) s1 n1 hasc1
    refine ⟨?_, ⟨_, rfl, ?_⟩, fun h => absurd h hpol⟩
    · rw [← h1]; exact c1
    · omega

end DC.Cache
