/- helper lemmas for `_cull` / `cull` (C09, C04) -/
import DC.Proofs.Expiry

namespace DC.Cache

end DC.Cache
