/- helper lemmas: every statement function preserves TableOk (C03, C08) -/
import DC.Proofs.Cull
import DC.Proofs.Keys

namespace DC.Cache

/-! ### list-level facts about `TableOk` -/

theorem TableOk.nil : TableOk [] 0 0 :=
  ⟨List.Pairwise.nil, by simp, List.Pairwise.nil, by simp, rfl, rfl⟩

/-- mapping the rows with a function that keeps rowid, key and raw -/
theorem tableOk_map {rows : List Row} {c z z' : Int} (f : Row → Row)
    (hid : ∀ r, (f r).rowid = r.rowid) (hk : ∀ r, (f r).key = r.key) (hraw : ∀ r, (f r).raw = r.raw)
    (h : TableOk rows c z) (hz : z' = sumSizes (rows.map f)) : TableOk (rows.map f) c z' := by
  constructor
  · unfold RowidsAsc; rw [List.pairwise_map]; simpa [RowidsAsc, hid] using h.asc
  · intro r hr; obtain ⟨a, ha, rfl⟩ := List.mem_map.1 hr; rw [hid]; exact h.pos a ha
  · unfold KeysUnique; rw [List.pairwise_map]; simpa [KeysUnique, hk, hraw] using h.uniq
  · intro r hr; obtain ⟨a, ha, rfl⟩ := List.mem_map.1 hr; rw [hk]; exact h.nonnull a ha
  · simp [h.count]
  · exact hz

theorem sumSizes_map_keep (rows : List Row) (f : Row → Row) (hsz : ∀ r, (f r).size = r.size) :
    sumSizes (rows.map f) = sumSizes rows := by
  unfold sumSizes; rw [List.map_map]; congr 1
  apply List.map_congr_left; intro r _; simp [hsz]

/-- mapping with a function that keeps rowid, key, raw and size -/
theorem tableOk_map_keep {rows : List Row} {c z : Int} (f : Row → Row)
    (hid : ∀ r, (f r).rowid = r.rowid) (hk : ∀ r, (f r).key = r.key) (hraw : ∀ r, (f r).raw = r.raw)
    (hsz : ∀ r, (f r).size = r.size) (h : TableOk rows c z) : TableOk (rows.map f) c z :=
  tableOk_map f hid hk hraw h (by rw [sumSizes_map_keep rows f hsz]; exact h.size)

theorem filter_rowid_counts {rows : List Row} (hasc : RowidsAsc rows) (r : Row) (hr : r ∈ rows) :
    ((rows.filter (·.rowid != r.rowid)).length : Int) = rows.length - 1 ∧
    sumSizes (rows.filter (·.rowid != r.rowid)) = sumSizes rows - r.size := by
  induction rows with
  | nil => cases hr
  | cons x xs ih =>
    have hx := List.pairwise_cons.mp hasc
    rcases List.mem_cons.mp hr with rfl | hr'
    · have hxs : xs.filter (·.rowid != r.rowid) = xs := by
        rw [List.filter_eq_self]; intro a ha
        have := hx.1 a ha
        simp; omega
      simp only [List.filter_cons, bne_self_eq_false, Bool.false_eq_true, if_false, hxs,
        List.length_cons, sumSizes_cons]
      constructor <;> omega
    · have hlt := hx.1 r hr'
      have hne : (x.rowid != r.rowid) = true := by simp; omega
      obtain ⟨i1, i2⟩ := ih hx.2 hr'
      simp only [List.filter_cons, hne, if_true, List.length_cons, sumSizes_cons]
      constructor
      · push_cast; omega
      · omega

theorem tableOk_sublist_core {rows sub : List Row} {c z c' z' : Int} (h : TableOk rows c z)
    (hs : sub.Sublist rows) (hc : c' = sub.length) (hz : z' = sumSizes sub) : TableOk sub c' z' :=
  ⟨h.asc.sublist hs, fun r hr => h.pos r (hs.subset hr), h.uniq.sublist hs,
   fun r hr => h.nonnull r (hs.subset hr), hc, hz⟩

theorem tableOk_filter_rowid {rows : List Row} {c z : Int} (h : TableOk rows c z) (r : Row)
    (hr : r ∈ rows) : TableOk (rows.filter (·.rowid != r.rowid)) (c - 1) (z - r.size) := by
  obtain ⟨i1, i2⟩ := filter_rowid_counts h.asc r hr
  exact tableOk_sublist_core h List.filter_sublist (by rw [i1, h.count]) (by rw [i2, h.size])

theorem tableOk_append {rows : List Row} {c z : Int} (h : TableOk rows c z) (r : Row)
    (hid : ∀ x ∈ rows, x.rowid < r.rowid) (hpos : 0 < r.rowid)
    (hk : ∀ x ∈ rows, ¬ (x.key.eqv r.key = true ∧ x.raw = r.raw)) (hnn : r.key ≠ .null) :
    TableOk (rows ++ [r]) (c + 1) (z + r.size) := by
  constructor
  · unfold RowidsAsc; rw [List.pairwise_append]
    exact ⟨h.asc, by simp, fun a ha b hb => by simp at hb; subst hb; exact hid a ha⟩
  · intro x hx; rcases List.mem_append.1 hx with hx | hx
    · exact h.pos x hx
    · simp at hx; subst hx; exact hpos
  · unfold KeysUnique; rw [List.pairwise_append]
    exact ⟨h.uniq, by simp, fun a ha b hb => by simp at hb; subst hb; exact hk a ha⟩
  · intro x hx; rcases List.mem_append.1 hx with hx | hx
    · exact h.nonnull x hx
    · simp at hx; subst hx; exact hnn
  · simp [h.count]
  · rw [sumSizes_append, h.size]; simp [sumSizes]

theorem any_false_of_lt {xs : List Row} {n : Nat} (h : ∀ a ∈ xs, n < a.rowid) :
    xs.any (·.rowid == n) = false := by
  rw [List.any_eq_false]; intro a ha; have := h a ha; simp; omega

theorem sumSizes_updRow (rows : List Row) (hasc : RowidsAsc rows) (rowid : Nat) (f : Row → Row)
    (n : Nat) (hf : ∀ r, (f r).size = n) :
    sumSizes (rows.map (fun r => if r.rowid == rowid then f r else r)) =
      if rows.any (·.rowid == rowid) then sumSizes rows + n - rowSize rows rowid
      else sumSizes rows := by
  induction rows with
  | nil => simp [sumSizes]
  | cons x xs ih =>
    have hx := List.pairwise_cons.mp hasc
    have ih := ih hx.2
    by_cases hxr : x.rowid = rowid
    · have hany : xs.any (·.rowid == rowid) = false :=
        any_false_of_lt (fun a ha => by have := hx.1 a ha; omega)
      rw [hany] at ih
      simp only [Bool.false_eq_true, if_false] at ih
      simp only [List.map_cons, sumSizes_cons, ih, List.any_cons, rowSize, List.find?_cons, hxr,
        beq_self_eq_true, if_true, Bool.true_or, hf]
      omega
    · have hb : (x.rowid == rowid) = false := by simpa using hxr
      simp only [List.map_cons, sumSizes_cons, ih, List.any_cons, rowSize, List.find?_cons, hb,
        Bool.false_eq_true, if_false, Bool.false_or]
      split <;> omega

/-! ### `TableInv` is about four fields only -/

theorem TableInv.same {s t : Cache} (h : TableInv s) (hr : t.rows = s.rows) (hc : t.count = s.count)
    (hz : t.size = s.size) (hs : t.snap = s.snap) : TableInv t := by
  constructor
  · rw [hr, hc, hz]; exact h.tbl
  · rw [hs]; exact h.snap

theorem TableInv.of_tbl {s t : Cache} (h : TableInv s) (ht : TableOk t.rows t.count t.size)
    (hs : t.snap = s.snap) : TableInv t := by
  constructor
  · exact ht
  · rw [hs]; exact h.snap

theorem log_inv {s : Cache} (a : Act) (h : TableInv s) : TableInv (s.log a) := h.same rfl rfl rfl rfl
theorem logSql_inv {s : Cache} (a : String) (h : TableInv s) : TableInv (s.logSql a) :=
  h.same rfl rfl rfl rfl
theorem fwrite_inv {s : Cache} (c : Content) (h : TableInv s) : TableInv (s.fwrite c).1 :=
  h.same rfl rfl rfl rfl
theorem fremove_inv {s : Cache} (f : Nat) (h : TableInv s) : TableInv (s.fremove f) :=
  h.same rfl rfl rfl rfl

@[simp] theorem log_snap (s : Cache) (a : Act) : (s.log a).snap = s.snap := rfl
@[simp] theorem logSql_snap (s : Cache) (a : String) : (s.logSql a).snap = s.snap := rfl
@[simp] theorem fremove_snap (s : Cache) (f : Nat) : (s.fremove f).snap = s.snap := rfl

theorem fremoveAll_inv (fs : List (Option Nat)) : ∀ {s : Cache}, TableInv s → TableInv (s.fremoveAll fs) := by
  induction fs with
  | nil => intro s h; exact h
  | cons a t ih =>
    intro s h
    cases a with
    | none => exact ih h
    | some f => exact ih (fremove_inv f h)

theorem removeCommitted_inv {s : Cache} (f : Option Nat) (h : TableInv s) :
    TableInv (s.removeCommitted f) := by
  unfold removeCommitted
  cases f with
  | none => exact h
  | some f =>
    simp only
    split
    · exact h.same rfl rfl rfl rfl
    · exact fremove_inv f h

@[simp] theorem removeCommitted_rows (s : Cache) (f : Option Nat) : (s.removeCommitted f).rows = s.rows := by
  unfold removeCommitted
  cases f with
  | none => rfl
  | some f => simp only; split <;> rfl

/-! `regCreated` (the Python-side record of a file written inside `incr`'s transaction) touches
only the `created` list -/
theorem regCreated_zero (s : Cache) (f : Option Nat) (hd : s.depth = 0) : s.regCreated f = s := by
  unfold regCreated; cases f <;> simp [hd]

theorem regCreated_cases (s : Cache) (f : Option Nat) :
    s.regCreated f = s ∨ ∃ g, f = some g ∧ 0 < s.depth ∧ s.regCreated f = { s with created := s.created ++ [g] } := by
  unfold regCreated
  cases f with
  | none => exact .inl rfl
  | some g =>
    by_cases hd : s.depth > 0
    · exact .inr ⟨g, rfl, hd, by simp [hd]⟩
    · exact .inl (by simp [hd])

@[simp] theorem regCreated_rows (s : Cache) (f : Option Nat) : (s.regCreated f).rows = s.rows := by
  rcases regCreated_cases s f with h | ⟨g, -, -, h⟩ <;> rw [h]
@[simp] theorem regCreated_count (s : Cache) (f : Option Nat) : (s.regCreated f).count = s.count := by
  rcases regCreated_cases s f with h | ⟨g, -, -, h⟩ <;> rw [h]
@[simp] theorem regCreated_size (s : Cache) (f : Option Nat) : (s.regCreated f).size = s.size := by
  rcases regCreated_cases s f with h | ⟨g, -, -, h⟩ <;> rw [h]
@[simp] theorem regCreated_snap (s : Cache) (f : Option Nat) : (s.regCreated f).snap = s.snap := by
  rcases regCreated_cases s f with h | ⟨g, -, -, h⟩ <;> rw [h]
@[simp] theorem regCreated_files (s : Cache) (f : Option Nat) : (s.regCreated f).files = s.files := by
  rcases regCreated_cases s f with h | ⟨g, -, -, h⟩ <;> rw [h]
@[simp] theorem regCreated_nfile (s : Cache) (f : Option Nat) : (s.regCreated f).nfile = s.nfile := by
  rcases regCreated_cases s f with h | ⟨g, -, -, h⟩ <;> rw [h]
@[simp] theorem regCreated_cfg (s : Cache) (f : Option Nat) : (s.regCreated f).cfg = s.cfg := by
  rcases regCreated_cases s f with h | ⟨g, -, -, h⟩ <;> rw [h]
@[simp] theorem regCreated_depth (s : Cache) (f : Option Nat) : (s.regCreated f).depth = s.depth := by
  rcases regCreated_cases s f with h | ⟨g, -, -, h⟩ <;> rw [h]
@[simp] theorem regCreated_pending (s : Cache) (f : Option Nat) : (s.regCreated f).pending = s.pending := by
  rcases regCreated_cases s f with h | ⟨g, -, -, h⟩ <;> rw [h]
@[simp] theorem regCreated_trace (s : Cache) (f : Option Nat) : (s.regCreated f).trace = s.trace := by
  rcases regCreated_cases s f with h | ⟨g, -, -, h⟩ <;> rw [h]
@[simp] theorem regCreated_env (s : Cache) (f : Option Nat) : (s.regCreated f).env = s.env := by
  rcases regCreated_cases s f with h | ⟨g, -, -, h⟩ <;> rw [h]
@[simp] theorem regCreated_statistics (s : Cache) (f : Option Nat) :
    (s.regCreated f).statistics = s.statistics := by
  rcases regCreated_cases s f with h | ⟨g, -, -, h⟩ <;> rw [h]
@[simp] theorem regCreated_hits (s : Cache) (f : Option Nat) : (s.regCreated f).hits = s.hits := by
  rcases regCreated_cases s f with h | ⟨g, -, -, h⟩ <;> rw [h]
@[simp] theorem regCreated_misses (s : Cache) (f : Option Nat) : (s.regCreated f).misses = s.misses := by
  rcases regCreated_cases s f with h | ⟨g, -, -, h⟩ <;> rw [h]

theorem regCreated_inv {s : Cache} (f : Option Nat) (h : TableInv s) : TableInv (s.regCreated f) :=
  h.same (by simp) (by simp) (by simp) (by simp)

theorem store_inv {s s' : Cache} {E : Externals} {v : PyVal} {read : Bool} {c : Cols}
    (hst : s.store E v read = .ok (s', c)) (h : TableInv s) : TableInv s' ∧ s'.rows = s.rows := by
  unfold store at hst
  split at hst
  · cases hst
  · cases hst; exact ⟨h, rfl⟩
  · cases hst; exact ⟨fwrite_inv _ h, rfl⟩

theorem fetchRow_inv {s : Cache} (E : Externals) (r : Row) (read : Bool) (h : TableInv s) :
    TableInv (s.fetchRow E r read).1 := by
  unfold fetchRow
  split
  · simp only; split
    · exact h
    · exact log_inv _ h
  · exact h

@[simp] theorem fetchRow_rows (s : Cache) (E : Externals) (r : Row) (read : Bool) :
    (s.fetchRow E r read).1.rows = s.rows := by
  unfold fetchRow
  split
  · simp only; split <;> rfl
  · rfl

theorem volume_inv {s : Cache} (h : TableInv s) : TableInv s.volume.1 := by
  unfold volume
  simp only
  split <;> exact h.same rfl rfl rfl rfl

/-! ### UPDATE statements -/

theorem touchPolicy_keep (p : Policy) (now : Int) (r : Row) :
    (touchPolicy p now r).rowid = r.rowid ∧ (touchPolicy p now r).key = r.key ∧
    (touchPolicy p now r).raw = r.raw ∧ (touchPolicy p now r).size = r.size ∧
    (touchPolicy p now r).val = r.val ∧ (touchPolicy p now r).file = r.file ∧
    (touchPolicy p now r).expT = r.expT ∧ (touchPolicy p now r).tag = r.tag := by
  cases p <;> simp [touchPolicy]

@[simp] theorem touchPolicy_rowid (p : Policy) (now : Int) (r : Row) :
    (touchPolicy p now r).rowid = r.rowid := (touchPolicy_keep p now r).1
@[simp] theorem touchPolicy_key (p : Policy) (now : Int) (r : Row) :
    (touchPolicy p now r).key = r.key := (touchPolicy_keep p now r).2.1
@[simp] theorem touchPolicy_raw (p : Policy) (now : Int) (r : Row) :
    (touchPolicy p now r).raw = r.raw := (touchPolicy_keep p now r).2.2.1
@[simp] theorem touchPolicy_size (p : Policy) (now : Int) (r : Row) :
    (touchPolicy p now r).size = r.size := (touchPolicy_keep p now r).2.2.2.1
@[simp] theorem touchPolicy_val (p : Policy) (now : Int) (r : Row) :
    (touchPolicy p now r).val = r.val := (touchPolicy_keep p now r).2.2.2.2.1
@[simp] theorem touchPolicy_file (p : Policy) (now : Int) (r : Row) :
    (touchPolicy p now r).file = r.file := (touchPolicy_keep p now r).2.2.2.2.2.1
@[simp] theorem touchPolicy_expT (p : Policy) (now : Int) (r : Row) :
    (touchPolicy p now r).expT = r.expT := (touchPolicy_keep p now r).2.2.2.2.2.2.1
@[simp] theorem touchPolicy_tag (p : Policy) (now : Int) (r : Row) :
    (touchPolicy p now r).tag = r.tag := (touchPolicy_keep p now r).2.2.2.2.2.2.2

theorem updExp_inv {s : Cache} (rowid : Nat) (e : Option Int) (h : TableInv s) :
    TableInv (s.updExp rowid e) := by
  refine h.of_tbl ?_ rfl
  exact tableOk_map_keep _ (by intro r; by_cases hc : r.rowid = rowid <;> simp [hc]) (by intro r; by_cases hc : r.rowid = rowid <;> simp [hc])
    (by intro r; by_cases hc : r.rowid = rowid <;> simp [hc]) (by intro r; by_cases hc : r.rowid = rowid <;> simp [hc]) h.tbl

theorem updGet_inv {s : Cache} (rowid : Nat) (now : Int) (h : TableInv s) :
    TableInv (s.updGet rowid now) := by
  refine h.of_tbl ?_ rfl
  exact tableOk_map_keep _
    (by intro r; by_cases hc : r.rowid = rowid <;> simp [hc])
    (by intro r; by_cases hc : r.rowid = rowid <;> simp [hc])
    (by intro r; by_cases hc : r.rowid = rowid <;> simp [hc])
    (by intro r; by_cases hc : r.rowid = rowid <;> simp [hc]) h.tbl

theorem updIncr_inv {s : Cache} (rowid : Nat) (now : Int) (v : SqlVal) (h : TableInv s) :
    TableInv (s.updIncr rowid now v) := by
  refine h.of_tbl ?_ rfl
  exact tableOk_map_keep _
    (by intro r; by_cases hc : r.rowid = rowid <;> simp [hc])
    (by intro r; by_cases hc : r.rowid = rowid <;> simp [hc])
    (by intro r; by_cases hc : r.rowid = rowid <;> simp [hc])
    (by intro r; by_cases hc : r.rowid = rowid <;> simp [hc]) h.tbl

theorem updRow_inv {s : Cache} (rowid : Nat) (now : Int) (c : Cols) (h : TableInv s) :
    TableInv (s.updRow rowid now c) := by
  refine h.of_tbl ?_ rfl
  have hsum := sumSizes_updRow s.rows h.tbl.asc rowid
    (fun r => { r with storeT := now, expT := c.expT, accT := now, accN := 0, tag := c.tag,
                       size := c.size, mode := c.mode, file := c.file, val := c.val }) c.size
    (fun _ => rfl)
  refine tableOk_map _ (by intro r; by_cases hc : r.rowid = rowid <;> simp [hc]) (by intro r; by_cases hc : r.rowid = rowid <;> simp [hc])
    (by intro r; by_cases hc : r.rowid = rowid <;> simp [hc]) h.tbl ?_
  show (if s.rows.any (·.rowid == rowid) then s.size + c.size - rowSize s.rows rowid else s.size) = _
  rw [hsum, h.tbl.size]

/-! ### INSERT -/

theorem insRow_inv {s : Cache} (k : SqlVal) (raw : Bool) (now : Int) (c : Cols) (h : TableInv s)
    (hsel : s.selKey k raw = none) (hnn : k ≠ .null) : TableInv (s.insRow k raw now c) := by
  refine h.of_tbl ?_ rfl
  have hnone := List.find?_eq_none.mp hsel
  exact tableOk_append h.tbl _
    (fun x hx => by have := le_maxRowid s.rows x hx; show x.rowid < maxRowid s.rows + 1; omega)
    (Nat.succ_pos _)
    (fun x hx hc => by
      have := hnone x hx
      apply this
      simp only [keyMatch, Bool.and_eq_true, beq_iff_eq]
      exact hc)
    hnn

/-! ### DELETE -/

theorem delRowQuiet_inv {s : Cache} (rowid : Nat) (h : TableInv s) : TableInv (s.delRowQuiet rowid) := by
  unfold delRowQuiet
  split
  · rename_i r hf
    refine h.of_tbl ?_ rfl
    have hm := List.mem_of_find?_eq_some hf
    have hp : r.rowid = rowid := by simpa using List.find?_some hf
    subst hp
    exact tableOk_filter_rowid h.tbl r hm
  · exact h

theorem delRow_inv {s : Cache} (rowid : Nat) (h : TableInv s) : TableInv (s.delRow rowid) :=
  logSql_inv _ (delRowQuiet_inv rowid h)

theorem delIn_inv (ids : List Nat) : ∀ {s : Cache}, TableInv s → TableInv (s.delIn ids) := by
  induction ids with
  | nil => intro s h; exact h
  | cons a t ih => intro s h; exact ih (delRowQuiet_inv a h)

theorem cullW_inv {s : Cache} (now : Int) (limit : Option Nat) (h : TableInv s) :
    TableInv (s.cullW now limit).1 := by
  unfold cullW
  simp only
  repeat' first
    | assumption
    | apply logSql_inv
    | apply delIn_inv
    | apply volume_inv
    | split

/-! ### transactions -/

theorem selKey_congr {s t : Cache} (h : t.rows = s.rows) (k : SqlVal) (raw : Bool) :
    t.selKey k raw = s.selKey k raw := by unfold selKey; rw [h]

theorem selLive_congr {s t : Cache} (h : t.rows = s.rows) (k : SqlVal) (raw : Bool) (now : Int) :
    t.selLive k raw now = s.selLive k raw now := by unfold selLive; rw [h]

/-- if the body keeps the invariant (whether it succeeds or raises), so does the transaction -/
theorem transact_inv {s : Cache} (body : Cache → Body) (fresh : Option Nat) (h : TableInv s)
    (hb : ∀ t, TableInv t → t.rows = s.rows → TableInv (body t).s) :
    TableInv (s.transact body fresh).1 := by
  unfold transact
  split
  · cases fresh with
    | none =>
      simp only
      have hB := hb s h rfl
      split
      · exact hB.same rfl rfl rfl rfl
      · exact hB
    | some f =>
      simp only
      have hB := hb { s with created := s.created ++ [f] } (h.same rfl rfl rfl rfl) rfl
      split
      · exact hB.same rfl rfl rfl rfl
      · exact hB
  · have hB := hb (s.log .begin) (log_inv _ h) rfl
    simp only
    split
    · exact fremoveAll_inv _ (log_inv _ hB)
    · cases fresh with
      | none => exact ⟨h.tbl, hB.snap⟩
      | some f => exact ⟨h.tbl, hB.snap⟩

theorem transact_inv' {s s' : Cache} {o : Out} {body : Cache → Body} {fresh : Option Nat}
    (heq : s.transact body fresh = (s', o)) (h : TableInv s)
    (hb : ∀ t, TableInv t → t.rows = s.rows → TableInv (body t).s) : TableInv s' := by
  have := transact_inv body fresh h hb
  rw [heq] at this; exact this

theorem deletePage_inv {s : Cache} (page : List Row) (sel : String) (h : TableInv s) :
    TableInv (s.deletePage page sel) := by
  rw [deletePage_eq]
  apply transact_inv _ _ h
  intro t ht _
  unfold pageBody
  simp only
  split
  · exact logSql_inv _ ht
  · exact logSql_inv _ (delIn_inv _ (logSql_inv _ ht))

theorem tbegin_inv' {s : Cache} (h : TableInv s) : TableInv s.tbegin := by
  unfold tbegin
  split
  · refine ⟨h.tbl, ?_⟩
    intro p hp
    cases hp
    exact h.tbl
  · exact h.same rfl rfl rfl rfl

theorem tend_inv' {s : Cache} (h : TableInv s) : TableInv s.tend := by
  unfold tend
  split
  · simp only
    have h1 : TableInv { (s.log .commit) with depth := 0, snap := none } := ⟨h.tbl, nofun⟩
    exact (fremoveAll_inv _ h1).same rfl rfl rfl rfl
  · exact h.same rfl rfl rfl rfl

theorem traise_inv' {s : Cache} (n : Nat) (h : TableInv s) : TableInv (s.traise n) := by
  unfold traise
  split
  · split
    · rename_i p hp
      simp only
      have h1 : TableInv { ((s.restore p).log .rollback) with depth := 0, snap := none } :=
        ⟨h.snap p hp, nofun⟩
      exact (fremoveAll_inv _ h1).same rfl rfl rfl rfl
    · exact h.same rfl rfl rfl rfl
  · exact h.same rfl rfl rfl rfl

theorem put_ne_null' (E : Externals) (d : DiskKind) (k : PyVal) : (put E d k).1 ≠ .null := by
  cases d <;> cases k <;> simp [put, JSONDisk.put, Disk.put] <;> split <;> simp

theorem queueKey_ne_null (pfx : Option Str) (num : Int) : queueKey pfx num ≠ .null := by
  unfold queueKey
  cases pfx with
  | none => simp
  | some p => simp only; split <;> simp

theorem setMisses_inv {s : Cache} (m : Int) (h : TableInv s) : TableInv { s with misses := m } :=
  h.same rfl rfl rfl rfl
theorem setHits_inv {s : Cache} (m : Int) (h : TableInv s) : TableInv { s with hits := m } :=
  h.same rfl rfl rfl rfl

/-- close goals of the form `TableInv (f (g (… s)))` for unconditional statement functions -/
macro "inv_auto" : tactic => `(tactic| repeat' first
    | assumption
    | contradiction
    | with_reducible apply logSql_inv
    | with_reducible apply log_inv
    | with_reducible apply delIn_inv
    | with_reducible apply volume_inv
    | with_reducible apply cullW_inv
    | with_reducible apply updRow_inv
    | with_reducible apply updExp_inv
    | with_reducible apply updGet_inv
    | with_reducible apply updIncr_inv
    | with_reducible apply delRow_inv
    | with_reducible apply delRowQuiet_inv
    | with_reducible apply fetchRow_inv
    | with_reducible apply removeCommitted_inv
    | with_reducible apply fremoveAll_inv
    | with_reducible apply fremove_inv
    | with_reducible apply deletePage_inv
    | with_reducible refine transact_inv _ _ ?_ (fun _ _ _ => ?_)
    | split)

/-! ### loops -/

theorem pullLoop_inv (E : Externals) (now : Int) (pfx : Option Str) (front et tg : Bool) :
    ∀ (fuel : Nat) {s : Cache}, TableInv s → TableInv (pullLoop E now pfx front et tg fuel s).1 := by
  intro fuel
  induction fuel with
  | zero => intro s h; exact h
  | succ n ih =>
    intro s h
    simp only [pullLoop]
    split
    · inv_auto
    · split
      · apply ih; inv_auto
      · split
        · apply ih; inv_auto
        · inv_auto

theorem peekLoop_inv (E : Externals) (now : Int) (pfx : Option Str) (front et tg : Bool) :
    ∀ (fuel : Nat) {s : Cache}, TableInv s → TableInv (peekLoop E now pfx front et tg fuel s).1 := by
  intro fuel
  induction fuel with
  | zero => intro s h; exact h
  | succ n ih =>
    intro s h
    simp only [peekLoop]
    split
    · inv_auto
    · split
      · apply ih; inv_auto
      · split
        · apply ih; inv_auto
        · inv_auto

theorem peekitemLoop_inv (E : Externals) (now : Int) (last et tg : Bool) :
    ∀ (fuel : Nat) {s : Cache}, TableInv s → TableInv (peekitemLoop E now last et tg fuel s).1 := by
  intro fuel
  induction fuel with
  | zero => intro s h; exact h
  | succ n ih =>
    intro s h
    simp only [peekitemLoop]
    split
    · inv_auto
    · split
      · apply ih; inv_auto
      · split
        · apply ih; inv_auto
        · inv_auto

theorem clearLoop_inv : ∀ (fuel : Nat) {s : Cache} (cur n : Nat), TableInv s →
    TableInv (clearLoop fuel s cur n).1 := by
  intro fuel
  induction fuel with
  | zero => intro s cur n h; exact h
  | succ k ih =>
    intro s cur n h
    simp only [clearLoop]
    split
    · inv_auto
    · apply ih; inv_auto

theorem evictLoop_inv (tag : SqlVal) : ∀ (fuel : Nat) {s : Cache} (cur n : Nat), TableInv s →
    TableInv (evictLoop tag fuel s cur n).1 := by
  intro fuel
  induction fuel with
  | zero => intro s cur n h; exact h
  | succ k ih =>
    intro s cur n h
    simp only [evictLoop]
    split
    · inv_auto
    · apply ih; inv_auto

theorem expireLoop_inv (now : Int) : ∀ (fuel : Nat) {s : Cache} (lo : Option Int) (n : Nat), TableInv s →
    TableInv (expireLoop now fuel s lo n).1 := by
  intro fuel
  induction fuel with
  | zero => intro s lo n h; exact h
  | succ k ih =>
    intro s lo n h
    simp only [expireLoop]
    split
    · inv_auto
    · apply ih; inv_auto

theorem cullLoop_inv' : ∀ (fuel : Nat) {s : Cache} (n : Nat), TableInv s →
    TableInv (cullLoop fuel s n).1 := by
  intro fuel
  induction fuel with
  | zero => intro s n h; exact h
  | succ k ih =>
    intro s n h
    rw [cullLoop_succ]
    split
    · inv_auto
    · split
      · unfold cullEmpty; inv_auto
      · apply ih; unfold cullStep; inv_auto

theorem iterLoop_inv (asc : Bool) (bound : Nat) : ∀ (fuel : Nat) {s : Cache} (cur : Nat) (acc : List Row),
    TableInv s → TableInv (iterLoop asc bound fuel s cur acc).1 := by
  intro fuel
  induction fuel with
  | zero => intro s cur acc h; exact h
  | succ k ih =>
    intro s cur acc h
    simp only [iterLoop]
    split
    · inv_auto
    · apply ih; inv_auto

theorem iterkeysLoop_inv (rev : Bool) : ∀ (fuel : Nat) {s : Cache} (cur : Row) (acc : List Row),
    TableInv s → TableInv (iterkeysLoop rev fuel s cur acc).1 := by
  intro fuel
  induction fuel with
  | zero => intro s cur acc h; exact h
  | succ k ih =>
    intro s cur acc h
    simp only [iterkeysLoop]
    split
    · inv_auto
    · apply ih; inv_auto

/-! ### what a transaction does to the rows -/

theorem transact_rows_of {s : Cache} (body : Cache → Body) (fresh : Option Nat) (P : List Row → Prop)
    (hb : ∀ t, t.rows = s.rows → t.count = s.count → t.size = s.size → t.snap = s.snap →
      P (body t).s.rows ∧ ((body t).ok = false → P s.rows)) :
    P (s.transact body fresh).1.rows := by
  unfold transact
  split
  · cases fresh with
    | none =>
      simp only
      have hB := hb s rfl rfl rfl rfl
      split
      · exact hB.1
      · exact hB.1
    | some f =>
      simp only
      have hB := hb { s with created := s.created ++ [f] } rfl rfl rfl rfl
      split
      · exact hB.1
      · exact hB.1
  · have hB := hb (s.log .begin) rfl rfl rfl rfl
    simp only
    split
    · rw [fremoveAll_rows]; exact hB.1
    · rename_i hok
      cases fresh with
      | none => exact hB.2 (by simpa using hok)
      | some f => exact hB.2 (by simpa using hok)

theorem keysUnique_eq {rows : List Row} (hu : KeysUnique rows) {k : SqlVal} {raw : Bool} {r r' : Row}
    (hr : r ∈ rows) (hr' : r' ∈ rows) (hk : keyMatch k raw r = true) (hk' : keyMatch k raw r' = true) :
    r = r' := by
  simp only [keyMatch, Bool.and_eq_true, beq_iff_eq] at hk hk'
  have h1 : r.key.eqv r'.key = true := SqlVal.eqv_trans _ _ _ hk.1 (SqlVal.eqv_symm _ _ hk'.1)
  have h2 : r'.key.eqv r.key = true := SqlVal.eqv_symm _ _ h1
  induction rows with
  | nil => cases hr
  | cons x xs ih =>
    have hx := List.pairwise_cons.mp hu
    rcases List.mem_cons.mp hr with rfl | ha <;> rcases List.mem_cons.mp hr' with rfl | hb
    · rfl
    · exact absurd ⟨h1, hk.2.trans hk'.2.symm⟩ (hx.1 r' hb)
    · exact absurd ⟨h2, hk'.2.trans hk.2.symm⟩ (hx.1 r ha)
    · exact ih hx.2 ha hb

/-- the columns a read never changes -/
def readProj (r : Row) : Nat × SqlVal × Bool × SqlVal × Option Nat × Option Int × SqlVal :=
  (r.rowid, r.key, r.raw, r.val, r.file, r.expT, r.tag)

theorem updGet_readProj (s : Cache) (rowid : Nat) (now : Int) :
    (s.updGet rowid now).rows.map readProj = s.rows.map readProj := by
  show (s.rows.map _).map readProj = _
  rw [List.map_map]
  apply List.map_congr_left
  intro r _
  by_cases hc : r.rowid = rowid <;> simp [hc, readProj]

/-- a row of the table after `updRow` either is the updated row or was there before -/
theorem updRow_mem {s : Cache} (hasc : RowidsAsc s.rows) {r0 : Row} (hr0 : r0 ∈ s.rows) (now : Int)
    (c : Cols) {r : Row} (hr : r ∈ (s.updRow r0.rowid now c).rows) :
    (r.key = r0.key ∧ r.raw = r0.raw) ∨ r ∈ s.rows := by
  have hr' : r ∈ s.rows.map _ := hr
  obtain ⟨x, hx, rfl⟩ := List.mem_map.1 hr'
  by_cases hc : x.rowid = r0.rowid
  · have := rowidsAsc_eq_of_rowid hasc hx hr0 hc
    subst this
    left; simp
  · right; simp [hc]; exact hx

theorem insRow_mem {s : Cache} (k : SqlVal) (raw : Bool) (now : Int) (c : Cols) {r : Row}
    (hr : r ∈ (s.insRow k raw now c).rows) : (r.key = k ∧ r.raw = raw) ∨ r ∈ s.rows := by
  have hr' : r ∈ s.rows ++ [_] := hr
  rcases List.mem_append.1 hr' with h | h
  · right; exact h
  · left; simp at h; subst h; exact ⟨rfl, rfl⟩

end DC.Cache
