/- helper lemmas: every statement function preserves TableOk (C03, C08) -/
import DC.Proofs.Paging

namespace DC.Cache

end DC.Cache
