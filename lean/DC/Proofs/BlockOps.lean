/- every call keeps the in-block file invariant `BI` (depth > 0) -/
import DC.Proofs.BlockInv
import DC.Proofs.CheckObserve
import DC.Proofs.RefineWrite
import DC.Proofs.Queue

namespace DC.Cache

/-- an empty cleanup list has nothing to bound -/
macro "nobound" : tactic => `(tactic| (intro f hf; first | cases hf | (simp at hf)))

theorem touch_BI {x : Cache} (hd : 0 < x.depth) (h : BI x) (E : Externals) (now : Int) (k : PyVal)
    (ttl : Option Int) : BI (x.touch E now k ttl).1 := by
  obtain ⟨cl, hP, hS⟩ := h
  have h0 := Q4.refl x
  unfold touch
  simp only
  apply transact_BI' _ hd
  · q4_auto
  · left
    split
    · split
      · exact ⟨rfl, cl, by apply fPI_updExp; fcore_simp; simpa using hP, hS, by nobound⟩
      · exact ⟨rfl, cl, by fcore_simp; simpa using hP, hS, by nobound⟩
    · exact ⟨rfl, cl, by fcore_simp; simpa using hP, hS, by nobound⟩

theorem delitem_BI {x : Cache} (hd : 0 < x.depth) (h : BI x) (E : Externals) (now : Int) (k : PyVal) :
    BI (x.delitem E now k).1 := by
  obtain ⟨cl, hP, hS⟩ := h
  have h0 := Q4.refl x
  unfold delitem
  simp only
  apply transact_BI' _ hd
  · q4_auto
  · skip
    split
    · right
      exact ⟨rfl, cl, by fcore_simp; simpa using hP, hS⟩
    · rename_i r hr
      left
      refine ⟨rfl, cl, ?_, hS, ?_⟩
      · have := fPI_delRow (s := x.logSql "selLive") (cl := cl) (by fcore_simp; exact hP) r (selLive_mem hr)
        exact this.cl_congr (by intro f; simp [or_comm])
      · intro f hf
        have hf : r.file = some f := by
          have : some f ∈ [r.file] := hf
          exact (List.mem_singleton.1 this).symm
        exact hP.ref_lt (c := fcore x) (selLive_mem hr) hf

theorem delete_BI {x : Cache} (hd : 0 < x.depth) (h : BI x) (E : Externals) (now : Int) (k : PyVal) :
    BI (x.delete E now k).1 := by
  rw [delete_fst_fl]; exact delitem_BI hd h E now k

theorem contains_BI {x : Cache} (h : BI x) (E : Externals) (now : Int) (k : PyVal) :
    BI (x.contains E now k).1 := h.of_core rfl

theorem len_BI {x : Cache} (h : BI x) : BI (x.len).1 := h.of_core rfl

theorem iter_BI {x : Cache} (h : BI x) (E : Externals) (asc : Bool) : BI (x.iter E asc).1 :=
  h.of_core (iter_core x E asc)

theorem iterkeys_BI {x : Cache} (h : BI x) (E : Externals) (rev : Bool) : BI (x.iterkeys E rev).1 :=
  h.of_core (iterkeys_core x E rev)

theorem BI.same {x y : Cache} (h : BI x) (h1 : y.rows = x.rows) (h2 : y.files = x.files)
    (h3 : y.nfile = x.nfile) (h6 : y.pending = x.pending) (h7 : y.created = x.created) : BI y := by
  obtain ⟨cl, hP, hS⟩ := h
  refine ⟨cl, ?_, ?_⟩
  · have : fcore y = { fcore x with cfg := y.cfg, statistics := y.statistics } := by
      simp only [fcore, qz, core, h1, h2, h3]
    rw [this]
    exact ⟨hP.uid, hP.ref, hP.inj, hP.fresh, hP.nodup, hP.orphan, hP.depth, hP.snap, hP.pending, hP.created⟩
  · exact hS.of_eq h6 h7 h3

theorem stats_BI {x : Cache} (h : BI x) (enable reset : Bool) : BI (x.stats enable reset).1 := by
  refine h.same ?_ ?_ ?_ ?_ ?_ <;> (simp only [stats]; split <;> rfl)

theorem get_BI {x : Cache} (hd : 0 < x.depth) (h : BI x) (E : Externals) (now : Int) (k : PyVal)
    (read et tg : Bool) : BI (x.get E now k read et tg).1 := by
  unfold get
  simp only
  split
  · split
    · exact h.of_core rfl
    · split <;> exact h.of_core (by core_simp)
  · obtain ⟨cl, hP, hS⟩ := h
    have h0 := Q4.refl x
    apply transact_BI' _ hd
    · q4_auto
      all_goals (first | with_reducible apply Q4.setMisses | with_reducible apply Q4.setHits)
      all_goals q4_auto
    · left
      split
      · refine ⟨rfl, cl, ?_, hS, by nobound⟩
        split <;> (fcore_simp; simpa using hP)
      · split
        · refine ⟨rfl, cl, ?_, hS, by nobound⟩
          split <;> (fcore_simp; simpa using hP)
        · refine ⟨rfl, cl, ?_, hS, by nobound⟩
          simp only [List.nil_append]
          (repeat' split) <;> first | (fcore_simp; simpa using hP) | (apply fPI_updGet; fcore_simp; simpa using hP)

/-- inside a block `_remove_committed` defers the removal: the file joins `pending` -/
theorem removeCommitted_BI {t : Cache} {cl : List (Option Nat)} {f : Option Nat} (hd : 0 < t.depth)
    (hP : PI (fcore t) (cl ++ [f])) (hS : Sub cl t) (hlt : ∀ g, f = some g → g < t.nfile) :
    BI (t.removeCommitted f) := by
  unfold removeCommitted
  cases f with
  | none =>
    refine ⟨cl ++ [none], hP, ?_, ?_⟩
    · intro g hg
      simp only [List.mem_append, List.mem_singleton, reduceCtorEq, or_false] at hg
      exact hS.inn g hg
    · intro g hg
      exact ⟨List.mem_append_left _ (hS.pend g hg).1, (hS.pend g hg).2⟩
  | some f =>
    simp only [gt_iff_lt, hd, if_true]
    refine ⟨cl ++ [some f], hP, ?_, ?_⟩
    · intro g hg
      simp only [List.mem_append, List.mem_singleton, Option.some.injEq] at hg
      rcases hg with hg | rfl
      · rcases hS.inn g hg with h1 | h1
        · exact .inl (List.mem_append_left _ h1)
        · exact .inr h1
      · exact .inl (by simp)
    · intro g hg
      have hg : some g ∈ t.pending ++ [some f] := hg
      simp only [List.mem_append, List.mem_singleton, Option.some.injEq] at hg
      rcases hg with hg | rfl
      · exact ⟨List.mem_append_left _ (hS.pend g hg).1, (hS.pend g hg).2⟩
      · exact ⟨by simp, hlt g rfl⟩

theorem pop_BI {x : Cache} (hd : 0 < x.depth) (h : BI x) (E : Externals) (now : Int) (k : PyVal)
    (et tg : Bool) : BI (x.pop E now k et tg).1 := by
  obtain ⟨cl, hP, hS⟩ := h
  have h0 := Q4.refl x
  unfold pop
  simp only
  split
  · simp only
    apply transact_BI' _ hd
    · q4_auto
    · left
      exact ⟨rfl, cl, by fcore_simp; simpa using hP, hS, by nobound⟩
  · rename_i r hr
    simp only
    have hq : Q4 x ((fun s : Cache => ({ s := (s.logSql "selLive").delRow r.rowid, out := Out.none } : Body)) x).s := by
      q4_auto
    have hf := transact_inblock_fcore x hd (fun s => { s := (s.logSql "selLive").delRow r.rowid, out := Out.none }) none
    obtain ⟨q1, q2, q3, q4, -, q6⟩ := transact_inblock_q4 x hd
      (fun s => { s := (s.logSql "selLive").delRow r.rowid, out := Out.none }) none hq
    generalize (x.transact fun s => { s := (s.logSql "selLive").delRow r.rowid, out := Out.none }).1 = t at *
    have hPt : PI (fcore t) (cl ++ [r.file]) := by
      rw [hf]
      exact fPI_delRow (s := x.logSql "selLive") (cl := cl) (by fcore_simp; exact hP) r (selLive_mem hr)
    have hSt : Sub cl t := hS.of_eq (by rw [q4]; simp) q3 q6
    have hdt : 0 < t.depth := by rw [q1]; exact hd
    have key : BI ((t.fetchRow E r false).1.removeCommitted r.file) := by
      apply removeCommitted_BI (cl := cl)
      · have := (Q4.refl t).fetchRow E r false
        rw [this.depth]; exact hdt
      · fcore_simp; exact hPt
      · exact hSt.q4 ((Q4.refl t).fetchRow E r false)
      · intro g hg
        rw [((Q4.refl t).fetchRow E r false).nfile, q6]
        exact hP.ref_lt (c := fcore x) (selLive_mem hr) hg
    split <;> exact key

theorem reg_fields (x : Cache) (f : Option Nat) :
    (reg x f).pending = x.pending ∧ (reg x f).nfile = x.nfile ∧ ∀ g ∈ x.created, g ∈ (reg x f).created := by
  cases f with
  | none => exact ⟨rfl, rfl, fun _ h => h⟩
  | some f => exact ⟨rfl, rfl, fun _ h => List.mem_append_left _ h⟩

theorem setBody_q4 (dbk : SqlVal) (raw : Bool) (now : Int) (c : Cols) (y : Cache) :
    Q4 y (setBody dbk raw now c y).s := by
  have h0 := Q4.refl y
  unfold setBody
  q4_auto

theorem setBody_fPI (dbk : SqlVal) (raw : Bool) (now : Int) (c : Cols) (y : Cache) (cl : List (Option Nat))
    (hP : PI (fcore y) (c.file :: cl))
    (hfile : ∀ g, c.file = some g → ∃ ct, (g, ct) ∈ y.files ∧ ct.size = c.size) :
    ((setBody dbk raw now c y).ok = true ∧
      PI (fcore (setBody dbk raw now c y).s) ((setBody dbk raw now c y).cleanup ++ dropFile cl c.file) ∧
      ∀ f, some f ∈ (setBody dbk raw now c y).cleanup → f < y.nfile) ∨
    ((setBody dbk raw now c y).ok = false ∧ PI (fcore (setBody dbk raw now c y).s) (c.file :: cl)) := by
  unfold setBody
  split
  · right; exact ⟨rfl, by fcore_simp; exact hP⟩
  split
  · right; exact ⟨rfl, by fcore_simp; exact hP⟩
  left
  refine ⟨rfl, ?_⟩
  simp only
  split
  · rename_i r hr
    simp only
    have h1 := fPI_updRow (s := y.logSql "selKey") (cl := c.file :: cl) (cl2 := r.file :: dropFile cl c.file)
      (by fcore_simp; exact hP) r (selKey_mem hr) now c
      (by intro g hg; exact ⟨by simp [hg], hfile g hg⟩)
      (by intro f; simp [mem_dropFile]; grind)
    have h2 := fcullW_PI _ now _ h1
    refine ⟨h2.cl_congr (by intro f; simp; grind), ?_⟩
    intro f hf
    rcases List.mem_append.1 hf with hf | hf
    · have hf : r.file = some f := (List.mem_singleton.1 hf).symm
      exact hP.ref_lt (c := fcore y) (selKey_mem hr) hf
    · exact fcullW_lt _ now h1 f hf
  · simp only
    have h1 := fPI_insRow (s := y.logSql "selKey") (cl := c.file :: cl) (cl2 := dropFile cl c.file)
      (by fcore_simp; exact hP) dbk raw now c
      (by intro g hg; exact ⟨by simp [hg], hfile g hg⟩)
      (by intro f; simp [mem_dropFile]; grind)
    have h2 := fcullW_PI _ now _ h1
    refine ⟨h2.cl_congr (by intro f; simp; grind), ?_⟩
    intro f hf
    exact fcullW_lt _ now h1 f (by simpa using hf)

theorem set_BI {x : Cache} (hd : 0 < x.depth) (h : BI x) (E : Externals) (now : Int) (k v : PyVal)
    (ttl : Option Int) (read : Bool) (tag : SqlVal) : BI (x.set E now k v ttl read tag).1 := by
  obtain ⟨cl, hP, hS⟩ := h
  rw [set_eq]
  cases hst : x.store E v read with
  | error e => exact ⟨cl, hP, hS⟩
  | ok p =>
    obtain ⟨x1, c⟩ := p
    obtain ⟨hP1, hfile⟩ := fstore_PI hst hP
    obtain ⟨e1, -, e3, e4, -, e6, e7⟩ := store_fields hst
    have hd1 : 0 < x1.depth := by rw [e1]; exact hd
    obtain ⟨g1, g2, g3⟩ := reg_fields x1 c.file
    have hS1 : Sub (c.file :: cl) (reg x1 c.file) := (hS.grow e3 (fun f hf => e4 ▸ hf) e6).reg c.file
    have hSd : Sub (dropFile cl c.file) (reg x1 c.file) :=
      hS.dropGrow (g1.trans e3) (fun f hf => g3 f (e4 ▸ hf)) (by rw [g2]; exact e6) c.file e7
    have hPr : PI (fcore (reg x1 c.file)) (c.file :: cl) := by rw [fcore_reg]; exact hP1
    have hfile' : ∀ g, c.file = some g → ∃ ct, (g, ct) ∈ (reg x1 c.file).files ∧ ct.size = c.size := by
      intro g hg
      have : (reg x1 c.file).files = x1.files := by cases c.file <;> rfl
      rw [this]; exact hfile g hg
    simp only
    apply transact_BI _ hd1
    · exact setBody_q4 _ _ _ _ _
    · rcases setBody_fPI (DC.put E x.cfg.disk k).1 (DC.put E x.cfg.disk k).2 now
        { c with expT := ttl.map (now + ·), tag := tag } (reg x1 c.file) cl hPr hfile' with ⟨h1, h2⟩ | ⟨h1, h2⟩
      · exact .inl ⟨h1, _, h2.1, hSd, h2.2⟩
      · exact .inr ⟨h1, _, h2, hS1⟩

/-- the state `incr` builds after storing a fresh value: facts shared by its two branches -/
theorem incr_store_facts {x y s1 : Cache} {E : Externals} {v : PyVal} {c : Cols} {cl : List (Option Nat)}
    (_hd : 0 < y.depth) (hP : PI (fcore y) cl) (hS : Sub cl x) (hp : y.pending = x.pending)
    (hc : y.created = x.created) (hn : y.nfile = x.nfile) (hst : y.store E v false = .ok (s1, c)) :
    PI (fcore (s1.regCreated c.file)) (c.file :: cl) ∧
    (∀ g, c.file = some g → ∃ ct, (g, ct) ∈ (s1.regCreated c.file).files ∧ ct.size = c.size) ∧
    Sub (dropFile cl c.file) (s1.regCreated c.file) ∧ (s1.regCreated c.file).rows = y.rows := by
  obtain ⟨hP1, hfile⟩ := fstore_PI hst hP
  obtain ⟨e1, -, e3, e4, -, e6, e7⟩ := store_fields hst
  refine ⟨by rw [fcore_regCreated]; exact hP1, by simpa using hfile, ?_, by rw [regCreated_rows, (store_keep hst).1]⟩
  refine hS.dropGrow (by rw [regCreated_pending, e3, hp]) ?_ (by rw [regCreated_nfile, ← hn]; exact e6) c.file
    (by rw [← hn]; exact e7)
  intro f hf
  have hf1 : f ∈ s1.created := by rw [e4, hc]; exact hf
  rcases regCreated_cases s1 c.file with e | ⟨g, -, -, e⟩ <;> rw [e]
  · exact hf1
  · exact List.mem_append_left _ hf1

theorem incr_BI {x : Cache} (hd : 0 < x.depth) (h : BI x) (E : Externals) (now : Int) (k : PyVal)
    (delta : Int) (dflt : Option Int) : BI (x.incr E now k delta dflt).1 := by
  obtain ⟨cl, hP, hS⟩ := h
  have hP0 : PI (fcore (x.logSql "selKey")) cl := by fcore_simp; exact hP
  have hS0 : Sub cl (x.logSql "selKey") := hS.of_eq rfl rfl
  have hfail : ∃ cl, PI (fcore (x.logSql "selKey")) cl ∧ Sub cl (x.logSql "selKey") := ⟨cl, hP0, hS0⟩
  unfold incr
  simp only
  apply transact_BI_s _ hd
  split
  · split
    · right; exact ⟨rfl, hfail⟩
    · split
      · right; exact ⟨rfl, hfail⟩
      · rename_i s1 c hst
        obtain ⟨h1, h2, h3, h4⟩ := incr_store_facts (x := x) (y := x.logSql "selKey") hd hP0 hS rfl rfl rfl hst
        have h5 := fPI_insRow (cl2 := dropFile cl c.file) h1 (DC.put E x.cfg.disk k).1 (DC.put E x.cfg.disk k).2 now c
            (by intro g hg; exact ⟨by simp [hg], h2 g hg⟩) (by intro f; simp [mem_dropFile]; grind)
        have hq : Q4 (s1.regCreated c.file) (((s1.regCreated c.file).insRow (DC.put E x.cfg.disk k).1
            (DC.put E x.cfg.disk k).2 now c).cullW now).1 := by
          have h0 := Q4.refl (s1.regCreated c.file)
          q4_auto
        left
        refine ⟨rfl, dropFile cl c.file, ?_, h3.q4 hq, ?_⟩
        · have h6 := fcullW_PI _ now _ h5
          exact h6.cl_congr (by intro f; simp [or_comm])
        · intro f hf
          show f < _
          rw [hq.nfile]
          exact fcullW_lt _ now h5 f (by simpa using hf)
  · rename_i r hr
    split
    · split
      · right; exact ⟨rfl, hfail⟩
      · split
        · right; exact ⟨rfl, hfail⟩
        · rename_i s1 c hst
          obtain ⟨h1, h2, h3, h4⟩ := incr_store_facts (x := x) (y := x.logSql "selKey") hd hP0 hS rfl rfl rfl hst
          have hr1 : r ∈ (s1.regCreated c.file).rows := by rw [h4]; exact selKey_mem hr
          have h5 := fPI_updRow (cl2 := r.file :: dropFile cl c.file) h1 r hr1 now c
              (by intro g hg; exact ⟨by simp [hg], h2 g hg⟩) (by intro f; simp [mem_dropFile]; grind)
          have hq : Q4 (s1.regCreated c.file) (((s1.regCreated c.file).updRow r.rowid now c).cullW now).1 := by
            have h0 := Q4.refl (s1.regCreated c.file)
            q4_auto
          left
          refine ⟨rfl, dropFile cl c.file, ?_, h3.q4 hq, ?_⟩
          · have h6 := fcullW_PI _ now _ h5
            exact h6.cl_congr (by intro f; simp; grind)
          · intro f hf
            show f < _
            rw [hq.nfile]
            rcases List.mem_append.1 hf with hf | hf
            · exact fcullW_lt _ now h5 f hf
            · have hf : r.file = some f := (List.mem_singleton.1 hf).symm
              exact h1.ref_lt (c := fcore (s1.regCreated c.file)) hr1 hf
    · split
      · split
        · left
          exact ⟨rfl, cl, by apply fPI_updIncr; exact hP0, hS0.of_eq rfl rfl, by nobound⟩
        · right; exact ⟨rfl, cl, by fcore_simp; exact hP, hS.of_eq rfl rfl⟩
      · right; exact ⟨rfl, hfail⟩

/-! ### every file a covered call writes inside a block is registered (`Grow`) -/

theorem touch_grow {x : Cache} (hd : 0 < x.depth) (E : Externals) (now : Int) (k : PyVal)
    (ttl : Option Int) : Grow x (x.touch E now k ttl).1 := by
  have h0 := Q4.refl x
  unfold touch
  simp only
  refine transact_grow x hd _ none ?_
  change Q4 x _
  q4_auto

theorem delitem_grow {x : Cache} (hd : 0 < x.depth) (E : Externals) (now : Int) (k : PyVal) :
    Grow x (x.delitem E now k).1 := by
  have h0 := Q4.refl x
  unfold delitem
  simp only
  refine transact_grow x hd _ none ?_
  change Q4 x _
  q4_auto

theorem delete_grow {x : Cache} (hd : 0 < x.depth) (E : Externals) (now : Int) (k : PyVal) :
    Grow x (x.delete E now k).1 := by
  rw [delete_fst_fl]; exact delitem_grow hd E now k

theorem get_grow {x : Cache} (hd : 0 < x.depth) (E : Externals) (now : Int) (k : PyVal)
    (read et tg : Bool) : Grow x (x.get E now k read et tg).1 := by
  unfold get
  simp only
  split
  · split
    · exact Grow.of_core rfl
    · split <;> exact Grow.of_core (by core_simp)
  · have h0 := Q4.refl x
    refine transact_grow x hd _ none ?_
    change Q4 x _
    q4_auto
    all_goals (first | with_reducible apply Q4.setMisses | with_reducible apply Q4.setHits)
    all_goals q4_auto

theorem removeCommitted_grow (t : Cache) (f : Option Nat) (hd : 0 < t.depth) : Grow t (t.removeCommitted f) := by
  unfold removeCommitted
  cases f with
  | none => exact Grow.refl t
  | some f => simp only [gt_iff_lt, hd, if_true]; exact Grow.of_eq rfl rfl

theorem pop_grow {x : Cache} (hd : 0 < x.depth) (E : Externals) (now : Int) (k : PyVal)
    (et tg : Bool) : Grow x (x.pop E now k et tg).1 := by
  have h0 := Q4.refl x
  unfold pop
  simp only
  split
  · simp only
    refine transact_grow x hd _ none ?_
    change Q4 x _
    q4_auto
  · rename_i r hr
    simp only
    have hq : Q4 x ((fun s : Cache => ({ s := (s.logSql "selLive").delRow r.rowid, out := Out.none } : Body)) x).s := by
      q4_auto
    have hg := transact_grow x hd (fun s => { s := (s.logSql "selLive").delRow r.rowid, out := Out.none }) none hq
    obtain ⟨q1, -, -, -, -⟩ := transact_inblock_q4 x hd
      (fun s => { s := (s.logSql "selLive").delRow r.rowid, out := Out.none }) none hq
    generalize (x.transact fun s => { s := (s.logSql "selLive").delRow r.rowid, out := Out.none }).1 = t at *
    have hg' : Grow x t := hg
    have hf := (Q4.refl t).fetchRow E r false
    have key : Grow x ((t.fetchRow E r false).1.removeCommitted r.file) :=
      (hg'.trans (Grow.of_eq hf.files hf.created)).trans
        (removeCommitted_grow _ _ (by rw [hf.depth, q1]; exact hd))
    split <;> exact key

theorem set_grow {x : Cache} (hd : 0 < x.depth) (E : Externals) (now : Int) (k v : PyVal)
    (ttl : Option Int) (read : Bool) (tag : SqlVal) : Grow x (x.set E now k v ttl read tag).1 := by
  rw [set_eq]
  cases hst : x.store E v read with
  | error e => exact Grow.refl x
  | ok p =>
    obtain ⟨x1, c⟩ := p
    obtain ⟨e1, -, -, e4, e5, -, -⟩ := store_fields hst
    have hd1 : 0 < x1.depth := by rw [e1]; exact hd
    simp only
    have hg := transact_grow x1 hd1 (setBody (DC.put E x.cfg.disk k).1 (DC.put E x.cfg.disk k).2 now
      { c with expT := ttl.map (now + ·), tag := tag }) c.file (setBody_q4 _ _ _ _ _)
    have h1 : Grow x (reg x1 c.file) := by
      constructor
      · intro p hp
        have hp' : p ∈ x1.files := by cases hc : c.file <;> (rw [hc] at hp; exact hp)
        rcases e5 p hp' with h | h
        · exact .inl h
        · right; rw [h]; simp [reg]
      · intro f hf
        rw [← e4] at hf
        cases hc : c.file with
        | none => exact hf
        | some g => exact List.mem_append_left _ hf
    exact h1.trans hg

theorem incr_grow {x : Cache} (hd : 0 < x.depth) (E : Externals) (now : Int) (k : PyVal)
    (delta : Int) (dflt : Option Int) : Grow x (x.incr E now k delta dflt).1 := by
  have key : ∀ (v : PyVal) (s1 : Cache) (c : Cols), (x.logSql "selKey").store E v false = .ok (s1, c) →
      ∀ t, Q4 (s1.regCreated c.file) t → Grow x t := by
    intro v s1 c hst t hq
    obtain ⟨e1, -, -, e4, e5, -, -⟩ := store_fields hst
    constructor
    · intro p hp
      rw [hq.files, regCreated_files] at hp
      rcases e5 p hp with h | h
      · exact .inl h
      · right
        rw [hq.created, h, regCreated_pos s1 p.1 (by rw [e1]; exact hd)]
        simp
    · intro f hf
      rw [hq.created]
      have hf1 : f ∈ s1.created := by rw [e4]; exact hf
      rcases regCreated_cases s1 c.file with e | ⟨g, -, -, e⟩ <;> rw [e]
      · exact hf1
      · exact List.mem_append_left _ hf1
  have same : ∀ t, Q4 x t → Grow x t := fun t hq => Grow.of_eq hq.files hq.created
  have h0 := Q4.refl x
  unfold incr
  simp only
  rw [transact_inblock x hd]
  have fin : ∀ (b : Body), Grow x b.s →
      Grow x (if b.ok then ({ b.s with pending := b.s.pending ++ b.cleanup }, b.out) else (b.s, b.out) : Cache × Out).1 := by
    intro b hb
    split
    · exact hb.trans (Grow.of_eq rfl rfl)
    · exact hb
  apply fin
  change Grow x (_ : Body).s
  split
  · split
    · apply same; q4_auto
    · rename_i d
      split
      · apply same; q4_auto
      · rename_i s1 c hst
        apply key _ s1 c (by exact hst)
        have h1 := Q4.refl (s1.regCreated c.file)
        q4_auto
  · rename_i r hr
    split
    · split
      · apply same; q4_auto
      · rename_i d
        split
        · apply same; q4_auto
        · rename_i s1 c hst
          apply key _ s1 c (by exact hst)
          have h1 := Q4.refl (s1.regCreated c.file)
          q4_auto
    · apply same; q4_auto

/-! ### `add` and `push`: calls that store a value and then run one transaction with the file as `fresh` -/

/-- the common part of `set`, `add`, `push` inside a block: after `store`, the transaction runs
with the stored file registered; the body either attaches the file to a row (cleanup list
`dropFile cl c.file`), or hands it to cleanup (list `cl`), or fails (list `c.file :: cl`) -/
theorem fresh_transact_BI {x x1 : Cache} {E : Externals} {v : PyVal} {read : Bool} {c : Cols}
    {cl : List (Option Nat)} (hd : 0 < x.depth) (hP : PI (fcore x) cl) (hS : Sub cl x)
    (hst : x.store E v read = .ok (x1, c)) (B : Cache → Body) (hq : ∀ y, Q4 y (B y).s)
    (hb : ∀ y, PI (fcore y) (c.file :: cl) →
      (∀ g, c.file = some g → ∃ ct, (g, ct) ∈ y.files ∧ ct.size = c.size) →
      ((B y).ok = true ∧ PI (fcore (B y).s) ((B y).cleanup ++ dropFile cl c.file) ∧
        ∀ f, some f ∈ (B y).cleanup → f < y.nfile) ∨
      ((B y).ok = true ∧ PI (fcore (B y).s) ((B y).cleanup ++ cl) ∧
        ∀ f, some f ∈ (B y).cleanup → f < y.nfile) ∨
      ((B y).ok = false ∧ PI (fcore (B y).s) (c.file :: cl))) :
    BI (x1.transact B c.file).1 := by
  obtain ⟨hP1, hfile⟩ := fstore_PI hst hP
  obtain ⟨e1, -, e3, e4, -, e6, e7⟩ := store_fields hst
  have hd1 : 0 < x1.depth := by rw [e1]; exact hd
  obtain ⟨g1, g2, g3⟩ := reg_fields x1 c.file
  have hS0 : Sub cl (reg x1 c.file) :=
    hS.grow (g1.trans e3) (fun f hf => g3 f (e4 ▸ hf)) (by rw [g2]; exact e6)
  have hS1 : Sub (c.file :: cl) (reg x1 c.file) := (hS.grow e3 (fun f hf => e4 ▸ hf) e6).reg c.file
  have hSd : Sub (dropFile cl c.file) (reg x1 c.file) :=
    hS.dropGrow (g1.trans e3) (fun f hf => g3 f (e4 ▸ hf)) (by rw [g2]; exact e6) c.file e7
  have hPr : PI (fcore (reg x1 c.file)) (c.file :: cl) := by rw [fcore_reg]; exact hP1
  have hfile' : ∀ g, c.file = some g → ∃ ct, (g, ct) ∈ (reg x1 c.file).files ∧ ct.size = c.size := by
    intro g hg
    have : (reg x1 c.file).files = x1.files := by cases c.file <;> rfl
    rw [this]; exact hfile g hg
  apply transact_BI _ hd1
  · exact hq _
  · rcases hb (reg x1 c.file) hPr hfile' with ⟨h1, h2, h3⟩ | ⟨h1, h2, h3⟩ | ⟨h1, h2⟩
    · exact .inl ⟨h1, _, h2, hSd, h3⟩
    · exact .inl ⟨h1, _, h2, hS0, h3⟩
    · exact .inr ⟨h1, _, h2, hS1⟩

theorem fresh_transact_grow {x x1 : Cache} {E : Externals} {v : PyVal} {read : Bool} {c : Cols}
    (hd : 0 < x.depth) (hst : x.store E v read = .ok (x1, c)) (B : Cache → Body)
    (hq : ∀ y, Q4 y (B y).s) : Grow x (x1.transact B c.file).1 := by
  obtain ⟨e1, -, -, e4, e5, -, -⟩ := store_fields hst
  have hd1 : 0 < x1.depth := by rw [e1]; exact hd
  have hg := transact_grow x1 hd1 B c.file (hq _)
  have h1 : Grow x (reg x1 c.file) := by
    constructor
    · intro p hp
      have hp' : p ∈ x1.files := by cases hc : c.file <;> (rw [hc] at hp; exact hp)
      rcases e5 p hp' with h | h
      · exact .inl h
      · right; rw [h]; simp [reg]
    · intro f hf
      rw [← e4] at hf
      cases hc : c.file with
      | none => exact hf
      | some g => exact List.mem_append_left _ hf
  exact h1.trans hg

theorem addBody_q4 (dbk : SqlVal) (raw : Bool) (now : Int) (c : Cols) (y : Cache) :
    Q4 y (rf_addBody dbk raw now c y).s := by
  have h0 := Q4.refl y
  unfold rf_addBody
  split
  · q4_auto
  · simp only
    q4_auto

theorem addBody_fPI (dbk : SqlVal) (raw : Bool) (now : Int) (c : Cols) (y : Cache) (cl : List (Option Nat))
    (hP : PI (fcore y) (c.file :: cl))
    (hfile : ∀ g, c.file = some g → ∃ ct, (g, ct) ∈ y.files ∧ ct.size = c.size) :
    ((rf_addBody dbk raw now c y).ok = true ∧
      PI (fcore (rf_addBody dbk raw now c y).s) ((rf_addBody dbk raw now c y).cleanup ++ dropFile cl c.file) ∧
      ∀ f, some f ∈ (rf_addBody dbk raw now c y).cleanup → f < y.nfile) ∨
    ((rf_addBody dbk raw now c y).ok = true ∧
      PI (fcore (rf_addBody dbk raw now c y).s) ((rf_addBody dbk raw now c y).cleanup ++ cl) ∧
      ∀ f, some f ∈ (rf_addBody dbk raw now c y).cleanup → f < y.nfile) ∨
    ((rf_addBody dbk raw now c y).ok = false ∧ PI (fcore (rf_addBody dbk raw now c y).s) (c.file :: cl)) := by
  unfold rf_addBody
  split
  · right; right; exact ⟨rfl, by fcore_simp; exact hP⟩
  simp only
  split
  · rename_i r hr
    split
    · -- the key is live: the new file goes to cleanup
      right; left
      refine ⟨rfl, by fcore_simp; exact hP, ?_⟩
      intro f hf
      have hf : c.file = some f := (List.mem_singleton.1 hf).symm
      obtain ⟨ct, h1, -⟩ := hfile f hf
      exact hP.fresh (c := fcore y) _ h1
    split
    · right; right; exact ⟨rfl, by fcore_simp; exact hP⟩
    left
    simp only
    have h1 := fPI_updRow (s := y.logSql "selKey") (cl := c.file :: cl) (cl2 := r.file :: dropFile cl c.file)
      (by fcore_simp; exact hP) r (selKey_mem hr) now c
      (by intro g hg; exact ⟨by simp [hg], hfile g hg⟩)
      (by intro f; simp [mem_dropFile]; grind)
    have h2 := fcullW_PI _ now _ h1
    refine ⟨trivial, h2.cl_congr (by intro f; simp; grind), ?_⟩
    intro f hf
    rcases List.mem_append.1 hf with hf | hf
    · have hf : r.file = some f := (List.mem_singleton.1 hf).symm
      exact hP.ref_lt (c := fcore y) (selKey_mem hr) hf
    · exact fcullW_lt _ now h1 f hf
  · split
    · right; right; exact ⟨rfl, by fcore_simp; exact hP⟩
    left
    simp only
    have h1 := fPI_insRow (s := y.logSql "selKey") (cl := c.file :: cl) (cl2 := dropFile cl c.file)
      (by fcore_simp; exact hP) dbk raw now c
      (by intro g hg; exact ⟨by simp [hg], hfile g hg⟩)
      (by intro f; simp [mem_dropFile]; grind)
    have h2 := fcullW_PI _ now _ h1
    refine ⟨trivial, h2.cl_congr (by intro f; simp; grind), ?_⟩
    intro f hf
    exact fcullW_lt _ now h1 f (by simpa using hf)

theorem add_BI {x : Cache} (hd : 0 < x.depth) (h : BI x) (E : Externals) (now : Int) (k v : PyVal)
    (ttl : Option Int) (read : Bool) (tag : SqlVal) : BI (x.add E now k v ttl read tag).1 := by
  obtain ⟨cl, hP, hS⟩ := h
  rw [rf_add_eq]
  cases hst : x.store E v read with
  | error e => exact ⟨cl, hP, hS⟩
  | ok p =>
    obtain ⟨x1, c⟩ := p
    simp only
    exact fresh_transact_BI hd hP hS hst _ (addBody_q4 _ _ _ _)
      (fun y h1 h2 => addBody_fPI _ _ now { c with expT := ttl.map (now + ·), tag := tag } y cl h1 h2)

theorem add_grow {x : Cache} (hd : 0 < x.depth) (E : Externals) (now : Int) (k v : PyVal)
    (ttl : Option Int) (read : Bool) (tag : SqlVal) : Grow x (x.add E now k v ttl read tag).1 := by
  rw [rf_add_eq]
  cases hst : x.store E v read with
  | error e => exact Grow.refl x
  | ok p =>
    obtain ⟨x1, c⟩ := p
    simp only
    exact fresh_transact_grow hd hst _ (addBody_q4 _ _ _ _)

theorem pushBody_q4 (now : Int) (p : Option Str) (back : Bool) (c : Cols) (y : Cache) :
    Q4 y (pushBody now p back c y).s := by
  have h0 := Q4.refl y
  rcases pushBody_cases now p back c y with ⟨-, -⟩ | ⟨num, -, -, e⟩
  · unfold pushBody
    split
    · q4_auto
    · simp only
      q4_auto
  · rw [e]
    q4_auto

theorem pushBody_fPI (now : Int) (p : Option Str) (back : Bool) (c : Cols) (y : Cache) (cl : List (Option Nat))
    (hP : PI (fcore y) (c.file :: cl))
    (hfile : ∀ g, c.file = some g → ∃ ct, (g, ct) ∈ y.files ∧ ct.size = c.size) :
    ((pushBody now p back c y).ok = true ∧
      PI (fcore (pushBody now p back c y).s) ((pushBody now p back c y).cleanup ++ dropFile cl c.file) ∧
      ∀ f, some f ∈ (pushBody now p back c y).cleanup → f < y.nfile) ∨
    ((pushBody now p back c y).ok = true ∧
      PI (fcore (pushBody now p back c y).s) ((pushBody now p back c y).cleanup ++ cl) ∧
      ∀ f, some f ∈ (pushBody now p back c y).cleanup → f < y.nfile) ∨
    ((pushBody now p back c y).ok = false ∧ PI (fcore (pushBody now p back c y).s) (c.file :: cl)) := by
  by_cases hok : (pushBody now p back c y).ok = true
  · rcases pushBody_cases now p back c y with ⟨h1, -⟩ | ⟨num, -, -, e⟩
    · rw [h1] at hok; cases hok
    · left
      rw [e]
      have h1 := fPI_insRow (s := y.logSql "selQueueEnd") (cl := c.file :: cl) (cl2 := dropFile cl c.file)
        (by fcore_simp; exact hP) (queueKey p num) true now c
        (by intro g hg; exact ⟨by simp [hg], hfile g hg⟩)
        (by intro f; simp [mem_dropFile]; grind)
      have h2 := fcullW_PI _ now _ h1
      refine ⟨rfl, h2.cl_congr (by intro f; simp [or_comm]), ?_⟩
      intro f hf
      exact fcullW_lt _ now h1 f hf
  · right; right
    have hok' : (pushBody now p back c y).ok = false := by simpa using hok
    refine ⟨hok', ?_⟩
    have hc : fcore (pushBody now p back c y).s = fcore y := by
      rcases pushBody_cases now p back c y with ⟨-, -⟩ | ⟨num, -, -, e⟩
      · unfold pushBody
        split
        · rfl
        · simp only
          split
          · rfl
          · split
            · rfl
            · rename_i _ num hnum h1 h2
              exfalso
              have hsel : y.selKey (queueKey p num) true = none := by
                cases h : y.selKey (queueKey p num) true with
                | none => rfl
                | some r => exact absurd (by show (y.selKey (queueKey p num) true).isSome = true; rw [h]; rfl) h1
              have hb : c.bindable = true ∧ bindable (queueKey p num) = true := by
                cases h3 : c.bindable <;> cases h4 : bindable (queueKey p num) <;> simp_all
              have e := pushBody_some (now := now) (c := c) hnum hsel hb.1 hb.2
              rw [e] at hok'
              cases hok'
      · rw [e] at hok'; cases hok'
    rw [hc]; exact hP

theorem push_BI {x : Cache} (hd : 0 < x.depth) (h : BI x) (E : Externals) (now : Int) (v : PyVal)
    (pfx : Option Str) (back : Bool) (ttl : Option Int) (read : Bool) (tag : SqlVal) :
    BI (x.push E now v pfx back ttl read tag).1 := by
  obtain ⟨cl, hP, hS⟩ := h
  rw [push_eq]
  cases hst : x.store E v read with
  | error e => exact ⟨cl, hP, hS⟩
  | ok p =>
    obtain ⟨x1, c⟩ := p
    simp only
    exact fresh_transact_BI hd hP hS hst _ (pushBody_q4 _ _ _ _)
      (fun y h1 h2 => pushBody_fPI now pfx back { c with expT := ttl.map (now + ·), tag := tag } y cl h1 h2)

theorem push_grow {x : Cache} (hd : 0 < x.depth) (E : Externals) (now : Int) (v : PyVal)
    (pfx : Option Str) (back : Bool) (ttl : Option Int) (read : Bool) (tag : SqlVal) :
    Grow x (x.push E now v pfx back ttl read tag).1 := by
  rw [push_eq]
  cases hst : x.store E v read with
  | error e => exact Grow.refl x
  | ok p =>
    obtain ⟨x1, c⟩ := p
    simp only
    exact fresh_transact_grow hd hst _ (pushBody_q4 _ _ _ _)

/-! ### `pull`, `peek`, `peekitem`: loops of small transactions -/

/-- what the loops carry: still inside the block, invariant, and every new file registered -/
structure BG (a x : Cache) : Prop where
  pos : 0 < x.depth
  bi : BI x
  grow : Grow a x

theorem BG.tlog {a x : Cache} (h : BG a x) (sel : String) :
    BG a (x.transact fun s => { s := s.logSql sel, out := .none }).1 := by
  have hq : Q4 x ((fun s : Cache => ({ s := s.logSql sel, out := Out.none } : Body)) x).s := (Q4.refl x).logSql sel
  obtain ⟨q1, -⟩ := transact_inblock_q4 x h.pos (fun s => { s := s.logSql sel, out := Out.none }) none hq
  obtain ⟨cl, hP, hS⟩ := h.bi
  refine ⟨by rw [q1]; exact h.pos, ?_, h.grow.trans (transact_grow x h.pos _ none hq)⟩
  apply transact_BI' _ h.pos
  · exact hq
  · left; exact ⟨rfl, cl, by fcore_simp; simpa using hP, hS, by nobound⟩

theorem BG.tfail {a x : Cache} (h : BG a x) (sel : String) (o : Out) :
    BG a (x.transact fun s => { s := s.logSql sel, out := o, ok := false }).1 := by
  have hq : Q4 x ((fun s : Cache => ({ s := s.logSql sel, out := o, ok := false } : Body)) x).s :=
    (Q4.refl x).logSql sel
  obtain ⟨q1, -⟩ := transact_inblock_q4 x h.pos (fun s => { s := s.logSql sel, out := o, ok := false }) none hq
  obtain ⟨cl, hP, hS⟩ := h.bi
  refine ⟨by rw [q1]; exact h.pos, ?_, h.grow.trans (transact_grow x h.pos _ none hq)⟩
  apply transact_BI' _ h.pos
  · exact hq
  · right; exact ⟨rfl, cl, by fcore_simp; simpa using hP, hS⟩

theorem BG.tdelc {a x : Cache} (h : BG a x) (sel : String) (r : Row) (hr : r ∈ x.rows) :
    BG a (x.transact fun s => { s := (s.logSql sel).delRow r.rowid, out := .none, cleanup := [r.file] }).1 := by
  have hq : Q4 x ((fun s : Cache => ({ s := (s.logSql sel).delRow r.rowid, out := Out.none, cleanup := [r.file] } : Body)) x).s :=
    ((Q4.refl x).logSql sel).delRow r.rowid
  obtain ⟨q1, -⟩ := transact_inblock_q4 x h.pos
    (fun s => { s := (s.logSql sel).delRow r.rowid, out := Out.none, cleanup := [r.file] }) none hq
  obtain ⟨cl, hP, hS⟩ := h.bi
  refine ⟨by rw [q1]; exact h.pos, ?_, h.grow.trans (transact_grow x h.pos _ none hq)⟩
  apply transact_BI' _ h.pos
  · exact hq
  · left
    refine ⟨rfl, cl, ?_, hS, ?_⟩
    · have := fPI_delRow (s := x.logSql sel) (cl := cl) (by fcore_simp; exact hP) r hr
      exact this.cl_congr (by intro f; simp [or_comm])
    · intro f hf
      have hf : r.file = some f := by
        have : some f ∈ [r.file] := hf
        exact (List.mem_singleton.1 this).symm
      exact hP.ref_lt (c := fcore x) hr hf

theorem BG.fetch {a x : Cache} (h : BG a x) (E : Externals) (r : Row) (read : Bool) :
    BG a (x.fetchRow E r read).1 := by
  have hq := (Q4.refl x).fetchRow E r read
  exact ⟨by rw [hq.depth]; exact h.pos, h.bi.of_core (core_fetchRow x E r read),
    h.grow.trans (Grow.of_eq hq.files hq.created)⟩

/-- the tail of `pull` (and of `pop`): delete the row, read its file, defer the removal -/
theorem BG.tpop {a x : Cache} (h : BG a x) (sel : String) (E : Externals) (r : Row) (hr : r ∈ x.rows) :
    BG a (((x.transact fun s => { s := (s.logSql sel).delRow r.rowid, out := .none }).1.fetchRow E r false).1.removeCommitted
      r.file) := by
  have hd := h.pos
  obtain ⟨cl, hP, hS⟩ := h.bi
  have hq : Q4 x ((fun s : Cache => ({ s := (s.logSql sel).delRow r.rowid, out := Out.none } : Body)) x).s :=
    ((Q4.refl x).logSql sel).delRow r.rowid
  have hf := transact_inblock_fcore x hd (fun s => { s := (s.logSql sel).delRow r.rowid, out := Out.none }) none
  have hg := transact_grow x hd (fun s => { s := (s.logSql sel).delRow r.rowid, out := Out.none }) none hq
  obtain ⟨q1, q2, q3, q4, -, q6⟩ := transact_inblock_q4 x hd
    (fun s => { s := (s.logSql sel).delRow r.rowid, out := Out.none }) none hq
  generalize (x.transact fun s => { s := (s.logSql sel).delRow r.rowid, out := Out.none }).1 = t at *
  have hPt : PI (fcore t) (cl ++ [r.file]) := by
    rw [hf]
    exact fPI_delRow (s := x.logSql sel) (cl := cl) (by fcore_simp; exact hP) r hr
  have hSt : Sub cl t := hS.of_eq (by rw [q4]; simp) q3 q6
  have hdt : 0 < t.depth := by rw [q1]; exact hd
  have hfq := (Q4.refl t).fetchRow E r false
  have hg' : Grow x t := hg
  refine ⟨?_, ?_, ?_⟩
  · have hd' : 0 < (t.fetchRow E r false).1.depth := by rw [hfq.depth]; exact hdt
    have : ((t.fetchRow E r false).1.removeCommitted r.file).depth = (t.fetchRow E r false).1.depth := by
      unfold removeCommitted
      cases r.file with
      | none => rfl
      | some f => simp only [gt_iff_lt, hd', if_true]
    rw [this]; exact hd'
  · apply removeCommitted_BI (cl := cl)
    · rw [hfq.depth]; exact hdt
    · fcore_simp; exact hPt
    · exact hSt.q4 hfq
    · intro g hg
      rw [hfq.nfile, q6]
      exact hP.ref_lt (c := fcore x) hr hg
  · exact ((h.grow.trans hg').trans (Grow.of_eq hfq.files hfq.created)).trans
      (removeCommitted_grow _ _ (by rw [hfq.depth]; exact hdt))

theorem pullLoop_BG (E : Externals) (now : Int) (pfx : Option Str) (front et tg : Bool) {a : Cache} :
    ∀ (fuel : Nat) (s : Cache), BG a s → BG a (pullLoop E now pfx front et tg fuel s).1 := by
  intro fuel
  induction fuel with
  | zero => intro s h; exact h
  | succ k ih =>
    intro s h
    unfold pullLoop
    simp only
    split
    · exact h.tlog _
    · rename_i r hr
      have hmem := queueHead_mem hr
      split
      · exact ih _ (h.tdelc _ r hmem)
      · have h2 := h.tpop "selQueueHead" E r hmem
        split
        · exact ih _ h2
        · exact h2

theorem peekLoop_BG (E : Externals) (now : Int) (pfx : Option Str) (front et tg : Bool) {a : Cache} :
    ∀ (fuel : Nat) (s : Cache), BG a s → BG a (peekLoop E now pfx front et tg fuel s).1 := by
  intro fuel
  induction fuel with
  | zero => intro s h; exact h
  | succ k ih =>
    intro s h
    unfold peekLoop
    simp only
    split
    · exact h.tlog _
    · rename_i r hr
      have hmem := queueHead_mem hr
      split
      · exact ih _ (h.tdelc _ r hmem)
      · have h2 := (h.tlog "selQueueHead").fetch E r false
        split
        · exact ih _ h2
        · exact h2

theorem peekitemLoop_BG (E : Externals) (now : Int) (last et tg : Bool) {a : Cache} :
    ∀ (fuel : Nat) (s : Cache), BG a s → BG a (peekitemLoop E now last et tg fuel s).1 := by
  intro fuel
  induction fuel with
  | zero => intro s h; exact h
  | succ k ih =>
    intro s h
    unfold peekitemLoop
    simp only
    split
    · exact h.tfail _ _
    · rename_i r hr
      have hmem : r ∈ s.rows := by
        split at hr
        · exact lastRow?_mem hr
        · exact List.mem_of_head? hr
      split
      · exact ih _ (h.tdelc _ r hmem)
      · have h2 := (h.tlog "selEdge").fetch E r false
        split
        · exact ih _ h2
        · exact h2

theorem BG.start {x : Cache} (hd : 0 < x.depth) (h : BI x) : BG x x := ⟨hd, h, Grow.refl x⟩

theorem pull_BG {x : Cache} (hd : 0 < x.depth) (h : BI x) (E : Externals) (now : Int) (pfx : Option Str)
    (front et tg : Bool) : BG x (x.pull E now pfx front et tg).1 :=
  pullLoop_BG E now pfx front et tg _ x (BG.start hd h)

theorem peek_BG {x : Cache} (hd : 0 < x.depth) (h : BI x) (E : Externals) (now : Int) (pfx : Option Str)
    (front et tg : Bool) : BG x (x.peek E now pfx front et tg).1 :=
  peekLoop_BG E now pfx front et tg _ x (BG.start hd h)

theorem peekitem_BG {x : Cache} (hd : 0 < x.depth) (h : BI x) (E : Externals) (now : Int)
    (last et tg : Bool) : BG x (x.peekitem E now last et tg).1 :=
  peekitemLoop_BG E now last et tg _ x (BG.start hd h)

/-! the registration half alone (no invariant needed) -/

structure GG (a x : Cache) : Prop where
  pos : 0 < x.depth
  grow : Grow a x

theorem GG.tq {a x : Cache} (h : GG a x) (body : Cache → Body) (hq : Q4 x (body x).s) :
    GG a (x.transact body).1 := by
  obtain ⟨q1, -⟩ := transact_inblock_q4 x h.pos body none hq
  exact ⟨by rw [q1]; exact h.pos, h.grow.trans (transact_grow x h.pos body none hq)⟩

theorem GG.fetch {a x : Cache} (h : GG a x) (E : Externals) (r : Row) (read : Bool) :
    GG a (x.fetchRow E r read).1 := by
  have hq := (Q4.refl x).fetchRow E r read
  exact ⟨by rw [hq.depth]; exact h.pos, h.grow.trans (Grow.of_eq hq.files hq.created)⟩

theorem GG.rc {a x : Cache} (h : GG a x) (f : Option Nat) : GG a (x.removeCommitted f) := by
  refine ⟨?_, h.grow.trans (removeCommitted_grow _ _ h.pos)⟩
  have hd := h.pos
  unfold removeCommitted
  cases f with
  | none => exact hd
  | some f => simp only [gt_iff_lt, hd, if_true]

theorem pullLoop_GG (E : Externals) (now : Int) (pfx : Option Str) (front et tg : Bool) {a : Cache} :
    ∀ (fuel : Nat) (s : Cache), GG a s → GG a (pullLoop E now pfx front et tg fuel s).1 := by
  intro fuel
  induction fuel with
  | zero => intro s h; exact h
  | succ k ih =>
    intro s h
    unfold pullLoop
    simp only
    split
    · exact h.tq _ ((Q4.refl s).logSql _)
    · rename_i r hr
      split
      · exact ih _ (h.tq _ (((Q4.refl s).logSql _).delRow _))
      · have h2 := ((h.tq (fun s => { s := (s.logSql "selQueueHead").delRow r.rowid, out := Out.none })
          (((Q4.refl s).logSql _).delRow _)).fetch E r false).rc r.file
        split
        · exact ih _ h2
        · exact h2

theorem peekLoop_GG (E : Externals) (now : Int) (pfx : Option Str) (front et tg : Bool) {a : Cache} :
    ∀ (fuel : Nat) (s : Cache), GG a s → GG a (peekLoop E now pfx front et tg fuel s).1 := by
  intro fuel
  induction fuel with
  | zero => intro s h; exact h
  | succ k ih =>
    intro s h
    unfold peekLoop
    simp only
    split
    · exact h.tq _ ((Q4.refl s).logSql _)
    · rename_i r hr
      split
      · exact ih _ (h.tq _ (((Q4.refl s).logSql _).delRow _))
      · have h2 := (h.tq (fun s => { s := s.logSql "selQueueHead", out := Out.none })
          ((Q4.refl s).logSql _)).fetch E r false
        split
        · exact ih _ h2
        · exact h2

theorem peekitemLoop_GG (E : Externals) (now : Int) (last et tg : Bool) {a : Cache} :
    ∀ (fuel : Nat) (s : Cache), GG a s → GG a (peekitemLoop E now last et tg fuel s).1 := by
  intro fuel
  induction fuel with
  | zero => intro s h; exact h
  | succ k ih =>
    intro s h
    unfold peekitemLoop
    simp only
    split
    · exact h.tq _ ((Q4.refl s).logSql _)
    · rename_i r hr
      split
      · exact ih _ (h.tq _ (((Q4.refl s).logSql _).delRow _))
      · have h2 := (h.tq (fun s => { s := s.logSql "selEdge", out := Out.none })
          ((Q4.refl s).logSql _)).fetch E r false
        split
        · exact ih _ h2
        · exact h2

theorem pull_grow {x : Cache} (hd : 0 < x.depth) (E : Externals) (now : Int) (pfx : Option Str)
    (front et tg : Bool) : Grow x (x.pull E now pfx front et tg).1 :=
  (pullLoop_GG E now pfx front et tg _ x ⟨hd, Grow.refl x⟩).grow

theorem peek_grow {x : Cache} (hd : 0 < x.depth) (E : Externals) (now : Int) (pfx : Option Str)
    (front et tg : Bool) : Grow x (x.peek E now pfx front et tg).1 :=
  (peekLoop_GG E now pfx front et tg _ x ⟨hd, Grow.refl x⟩).grow

theorem peekitem_grow {x : Cache} (hd : 0 < x.depth) (E : Externals) (now : Int)
    (last et tg : Bool) : Grow x (x.peekitem E now last et tg).1 :=
  (peekitemLoop_GG E now last et tg _ x ⟨hd, Grow.refl x⟩).grow

/-! ### the bulk removals: paging loops over `deletePage` -/

theorem pageBody_q4 (page : List Row) (sel : String) (x : Cache) : Q4 x (pageBody page sel x).s := by
  have h0 := Q4.refl x
  unfold pageBody
  simp only
  q4_auto

/-- one page of `_select_delete` inside a block: the rows go, their files join `pending` -/
theorem BG.page {a x : Cache} (h : BG a x) (page : List Row) (sel : String)
    (hp : ∀ r ∈ page, r ∈ x.rows) : BG a (x.deletePage page sel) := by
  rw [deletePage_eq]
  have hq := pageBody_q4 page sel x
  obtain ⟨q1, -⟩ := transact_inblock_q4 x h.pos (pageBody page sel) none hq
  obtain ⟨cl, hP, hS⟩ := h.bi
  refine ⟨by rw [q1]; exact h.pos, ?_, h.grow.trans (transact_grow x h.pos _ none hq)⟩
  apply transact_BI' _ h.pos
  · exact hq
  · left
    refine ⟨pageBody_ok _ _ _, cl, ?_, hS, ?_⟩
    · rw [pageBody_cleanup]
      unfold pageBody
      simp only
      split
      · rename_i he
        have : page = [] := List.isEmpty_iff.1 he
        subst this
        simpa using hP
      · simp only [fcore_logSql]
        have := fPI_delIn (s := x.logSql sel) (cl := cl) (by fcore_simp; exact hP) page hp
        exact this.cl_congr (by intro f; simp [or_comm])
    · rw [pageBody_cleanup]
      intro f hf
      obtain ⟨r, hr, e⟩ := List.mem_map.1 hf
      exact hP.ref_lt (c := fcore x) (hp r hr) e

theorem GG.page {a x : Cache} (h : GG a x) (page : List Row) (sel : String) : GG a (x.deletePage page sel) := by
  rw [deletePage_eq]
  exact h.tq _ (pageBody_q4 page sel x)

theorem clearLoop_BG {a : Cache} : ∀ (fuel : Nat) (s : Cache) (cur n : Nat), BG a s →
    BG a (clearLoop fuel s cur n).1 := by
  intro fuel
  induction fuel with
  | zero => intro s cur n h; exact h
  | succ k ih =>
    intro s cur n h
    unfold clearLoop
    simp only
    have h1 := h.page ((s.rows.filter (fun r => r.rowid > cur)).take s.cfg.page) "pageRowid"
      (fun r hr => (List.mem_filter.1 (List.mem_of_mem_take hr)).1)
    split
    · exact h1
    · exact ih _ _ _ h1

theorem clearLoop_GG {a : Cache} : ∀ (fuel : Nat) (s : Cache) (cur n : Nat), GG a s →
    GG a (clearLoop fuel s cur n).1 := by
  intro fuel
  induction fuel with
  | zero => intro s cur n h; exact h
  | succ k ih =>
    intro s cur n h
    unfold clearLoop
    simp only
    have h1 := h.page ((s.rows.filter (fun r => r.rowid > cur)).take s.cfg.page) "pageRowid"
    split
    · exact h1
    · exact ih _ _ _ h1

theorem clear_BG {x : Cache} (hd : 0 < x.depth) (h : BI x) : BG x (x.clear).1 := by
  unfold clear; simp only
  exact clearLoop_BG _ _ _ _ (BG.start hd h)

theorem clear_grow {x : Cache} (hd : 0 < x.depth) : Grow x (x.clear).1 := by
  unfold clear; simp only
  exact (clearLoop_GG _ _ _ _ ⟨hd, Grow.refl x⟩).grow

theorem evictLoop_BG (tag : SqlVal) {a : Cache} : ∀ (fuel : Nat) (s : Cache) (cur n : Nat), BG a s →
    BG a (evictLoop tag fuel s cur n).1 := by
  intro fuel
  induction fuel with
  | zero => intro s cur n h; exact h
  | succ k ih =>
    intro s cur n h
    unfold evictLoop
    simp only
    have h1 := h.page ((s.rows.filter (fun r => r.tag.eqv tag && r.rowid > cur)).take s.cfg.page) "pageTag"
      (fun r hr => (List.mem_filter.1 (List.mem_of_mem_take hr)).1)
    split
    · exact h1
    · exact ih _ _ _ h1

theorem evictLoop_GG (tag : SqlVal) {a : Cache} : ∀ (fuel : Nat) (s : Cache) (cur n : Nat), GG a s →
    GG a (evictLoop tag fuel s cur n).1 := by
  intro fuel
  induction fuel with
  | zero => intro s cur n h; exact h
  | succ k ih =>
    intro s cur n h
    unfold evictLoop
    simp only
    have h1 := h.page ((s.rows.filter (fun r => r.tag.eqv tag && r.rowid > cur)).take s.cfg.page) "pageTag"
    split
    · exact h1
    · exact ih _ _ _ h1

theorem evict_BG {x : Cache} (hd : 0 < x.depth) (h : BI x) (tag : SqlVal) : BG x (x.evict tag).1 := by
  unfold evict; simp only
  exact evictLoop_BG tag _ _ _ _ (BG.start hd h)

theorem evict_grow {x : Cache} (hd : 0 < x.depth) (tag : SqlVal) : Grow x (x.evict tag).1 := by
  unfold evict; simp only
  exact (evictLoop_GG tag _ _ _ _ ⟨hd, Grow.refl x⟩).grow

theorem expireLoop_BG (now : Int) {a : Cache} : ∀ (fuel : Nat) (s : Cache) (lo : Option Int) (n : Nat), BG a s →
    BG a (expireLoop now fuel s lo n).1 := by
  intro fuel
  induction fuel with
  | zero => intro s lo n h; exact h
  | succ k ih =>
    intro s lo n h
    unfold expireLoop
    simp only
    split
    · apply h.page
      intro r hr
      exact (List.mem_filter.1 (mem_of_mem_take_isort hr)).1
    · apply ih
      apply h.page
      intro r hr
      exact (List.mem_filter.1 (mem_of_mem_take_isort hr)).1

theorem expireLoop_GG (now : Int) {a : Cache} : ∀ (fuel : Nat) (s : Cache) (lo : Option Int) (n : Nat), GG a s →
    GG a (expireLoop now fuel s lo n).1 := by
  intro fuel
  induction fuel with
  | zero => intro s lo n h; exact h
  | succ k ih =>
    intro s lo n h
    unfold expireLoop
    simp only
    split
    · exact h.page _ _
    · exact ih _ _ _ (h.page _ _)

theorem expire_BG {x : Cache} (hd : 0 < x.depth) (h : BI x) (now : Int) : BG x (x.expire now).1 := by
  unfold expire; simp only
  exact expireLoop_BG now _ _ _ _ (BG.start hd h)

theorem expire_grow {x : Cache} (hd : 0 < x.depth) (now : Int) : Grow x (x.expire now).1 := by
  unfold expire; simp only
  exact (expireLoop_GG now _ _ _ _ ⟨hd, Grow.refl x⟩).grow

theorem BG.volume {a x : Cache} (h : BG a x) : BG a x.volume.1 := by
  have hq := (Q4.refl x).volume
  exact ⟨by rw [hq.depth]; exact h.pos, h.bi.of_core (core_volume x),
    h.grow.trans (Grow.of_eq hq.files hq.created)⟩

theorem GG.volume {a x : Cache} (h : GG a x) : GG a x.volume.1 := by
  have hq := (Q4.refl x).volume
  exact ⟨by rw [hq.depth]; exact h.pos, h.grow.trans (Grow.of_eq hq.files hq.created)⟩

/-- the transaction body of one batch of the policy loop of `cull()` -/
def delInBody (sel sel2 : String) (rows : List Row) : Cache → Body := fun s =>
  { s := ((s.logSql sel).delIn (rows.map (·.rowid))).logSql sel2, out := .none, cleanup := rows.map (·.file) }

theorem delInBody_q4 (sel sel2 : String) (rows : List Row) (x : Cache) : Q4 x (delInBody sel sel2 rows x).s :=
  (((Q4.refl x).logSql sel).delIn _).logSql sel2

/-- one batch of the policy loop of `cull()` inside a block -/
theorem BG.tdelIn {a x : Cache} (h : BG a x) (sel sel2 : String) (rows : List Row)
    (hp : ∀ r ∈ rows, r ∈ x.rows) : BG a (x.transact (delInBody sel sel2 rows)).1 := by
  have hq := delInBody_q4 sel sel2 rows x
  obtain ⟨q1, -⟩ := transact_inblock_q4 x h.pos (delInBody sel sel2 rows) none hq
  obtain ⟨cl, hP, hS⟩ := h.bi
  refine ⟨by rw [q1]; exact h.pos, ?_, h.grow.trans (transact_grow x h.pos _ none hq)⟩
  apply transact_BI' _ h.pos
  · exact hq
  · left
    refine ⟨rfl, cl, ?_, hS, ?_⟩
    · show PI (fcore (((x.logSql sel).delIn (rows.map (·.rowid))).logSql sel2)) (rows.map (·.file) ++ cl)
      simp only [fcore_logSql]
      have := fPI_delIn (s := x.logSql sel) (cl := cl) (by fcore_simp; exact hP) rows hp
      exact this.cl_congr (by intro f; simp [or_comm])
    · intro f hf
      have hf : some f ∈ rows.map (·.file) := hf
      obtain ⟨r, hr, e⟩ := List.mem_map.1 hf
      exact hP.ref_lt (c := fcore x) (hp r hr) e

theorem cullLoop_BG {a : Cache} : ∀ (fuel : Nat) (s : Cache) (n : Nat), BG a s → BG a (cullLoop fuel s n).1 := by
  intro fuel
  induction fuel with
  | zero => intro s n h; exact h
  | succ k ih =>
    intro s n h
    unfold cullLoop
    simp only
    have hv := h.volume
    split
    · exact hv
    split
    · exact hv.tlog _
    · apply ih
      exact hv.tdelIn "selPolicy" "delPolicy" _ (fun r hr => selPolicy_mem hr)

theorem cullLoop_GG {a : Cache} : ∀ (fuel : Nat) (s : Cache) (n : Nat), GG a s → GG a (cullLoop fuel s n).1 := by
  intro fuel
  induction fuel with
  | zero => intro s n h; exact h
  | succ k ih =>
    intro s n h
    unfold cullLoop
    simp only
    have hv := h.volume
    split
    · exact hv
    split
    · exact hv.tq _ ((Q4.refl _).logSql _)
    · apply ih
      exact hv.tq (delInBody "selPolicy" "delPolicy" _) (delInBody_q4 _ _ _ _)

theorem cull_BG {x : Cache} (hd : 0 < x.depth) (h : BI x) (now : Int) : BG x (x.cull now).1 := by
  rw [cull_eq]
  split
  · exact expireLoop_BG now _ _ _ _ (BG.start hd h)
  · exact cullLoop_BG _ _ _ (expireLoop_BG now _ _ _ _ (BG.start hd h))

theorem cull_grow {x : Cache} (hd : 0 < x.depth) (now : Int) : Grow x (x.cull now).1 := by
  rw [cull_eq]
  split
  · exact (expireLoop_GG now _ _ _ _ ⟨hd, Grow.refl x⟩).grow
  · exact (cullLoop_GG _ _ _ (expireLoop_GG now _ _ _ _ ⟨hd, Grow.refl x⟩)).grow

end DC.Cache
