/-
C13_Lossy, generic part: one key-addressed call and one bulk removal of the sharded cache,
for a Cache call that may evict rows (`Cache.Lossy`).
-/
import DC.Proofs.FLossyLemmas

namespace DC.Fanout
open DC.Cache DC.Spec

/-! ### the invariant -/

theorem flz_fgood_of_all {f g : Fanout} (hg : FGoodAny f) (hlen : g.shards.length = f.shards.length)
    (hall : ∀ s' ∈ g.shards, Good s' ∧ s'.cfg = fcfg f) :
    FGoodAny g ∧ fcfg g = fcfg f ∧ g.shards.length = f.shards.length := by
  have hne : g.shards ≠ [] := by
    apply List.ne_nil_of_length_pos
    rw [hlen]
    exact List.length_pos_iff.2 hg.nonempty
  have hcfg : fcfg g = fcfg f := frf_fcfg_of_all hne (fun s hs => (hall s hs).2)
  refine ⟨⟨hne, fun s hs => (hall s hs).1, fun s hs => ?_, ?_⟩, hcfg, hlen⟩
  · rw [hcfg]; exact (hall s hs).2
  · rw [hcfg]; exact hg.page

theorem keyed_fgoodAny (f : Fanout) (E : Externals) (k : PyVal) (op : Cache → Cache × Out)
    (hg : FGoodAny f)
    (hop : ∀ c : Cache, Good c → c.cfg = fcfg f → Good (op c).1 ∧ (op c).1.cfg = fcfg f) :
    FGoodAny (f.keyed E k op).1 ∧ fcfg (f.keyed E k op).1 = fcfg f ∧
      (f.keyed E k op).1.shards.length = f.shards.length := by
  have hlen : (f.keyed E k op).1.shards.length = f.shards.length := onShard_length f _ op
  refine flz_fgood_of_all hg hlen ?_
  intro s' hs'
  obtain ⟨j, hj⟩ := List.mem_iff_getElem?.1 hs'
  by_cases hjr : j = f.route E k
  · subst hjr
    have hlt : f.route E k < f.shards.length := route_lt f E k hg.nonempty
    have hs := List.getElem?_eq_getElem hlt
    obtain ⟨-, hsh⟩ := keyed_is_shard_op f E k op _ hs
    rw [hsh] at hj
    rw [← Option.some.inj hj]
    have hmem := List.getElem_mem hlt
    exact hop _ (frf_prep_good (hg.good _ hmem) f.env) (hg.cfg (f.shards[f.route E k]) hmem)
  · rw [keyed_only_route f E k op j hjr] at hj
    have hmem := frf_mem_of_getElem? hj
    exact ⟨hg.good _ hmem, hg.cfg _ hmem⟩

theorem each_fgoodAny (f : Fanout) (op : Cache → Cache × Out) (hg : FGoodAny f)
    (hop : ∀ c : Cache, Good c → c.cfg = fcfg f → Good (op c).1 ∧ (op c).1.cfg = fcfg f) :
    FGoodAny (f.each op).1 ∧ fcfg (f.each op).1 = fcfg f ∧
      (f.each op).1.shards.length = f.shards.length := by
  obtain ⟨-, hlen, hpt⟩ := each_pointwise f op
  refine flz_fgood_of_all hg hlen ?_
  intro s' hs'
  obtain ⟨j, hj⟩ := List.mem_iff_getElem?.1 hs'
  have hlt : j < f.shards.length := by
    rw [← hlen]; exact (List.getElem?_eq_some_iff.1 hj).1
  obtain ⟨env, -, hsh⟩ := hpt j hlt
  rw [hsh] at hj
  rw [← Option.some.inj hj]
  have hmem := List.getElem_mem hlt
  exact hop _ (frf_prep_good (hg.good _ hmem) env) (hg.cfg (f.shards[j]) hmem)

/-! ### one key-addressed call that may evict -/

/-- **generic per-call theorem, every policy**: a key-addressed call of the fanout whose Cache
version refines the dictionary up to the rows `L` it evicted (`hop`, as `Cache.step_refines_lossy`)
and whose specification is local at the key refines the dictionary up to the same rows: the
shard of the key evicted `L` (`Ev`), the fanout represents the dictionary without the keys of `L`,
every row of `L` held an unexpired entry, and every row still sits in the shard of its key. -/
theorem keyed_frefines_lossy (V : Spec.Key → Prop) (f : Fanout) (m : Spec.Dict) (clock now : Int)
    (E : Externals) (k : PyVal) (op : Cache → Cache × Out) (sop : Spec.Dict → Spec.Dict × Out)
    (Ev : Cache → List Row → Prop)
    (hg : FGoodAny f) (hpl : FPlacedOn V f) (hr : FRefinesOn V f m clock) (hmono : clock ≤ now)
    (hV : V (keyOf E (fcfg f) k))
    (hroute : ∀ b, V b → sameKey (keyOf E (fcfg f) k) b = true →
      routeK f b = routeK f (keyOf E (fcfg f) k))
    (hop : ∀ (c : Cache) (m' : Spec.Dict), Good c → c.cfg = fcfg f → Refines c m' clock →
      (op c).2 = (sop m').2 ∧ Good (op c).1 ∧ ∃ L, Lossy (op c).1 (sop m').1 now L ∧ Ev c L)
    (hloc : frf_Local sop (keyOf E (fcfg f) k)) :
    (f.keyed E k op).2 = (sop m).2 ∧
    ∃ s L, f.shards[f.route E k]? = some s ∧
      (f.keyed E k op).1.shards[f.route E k]? = some (op (prep s f.env)).1 ∧ Ev (prep s f.env) L ∧
      FRefinesOn V (f.keyed E k op).1 (dropKeys (sop m).1 (L.map rowKey)) now ∧
      (∀ r ∈ L, V (rowKey r) →
        ∃ e, (sop m).1.get (rowKey r) = some e ∧ EntOf r e ∧ e.expired now = false) ∧
      FPlacedOn V (f.keyed E k op).1 := by
  have hrt := route_eq f E k hg.nonempty
  obtain ⟨s, hs, hsK⟩ := hr.2 _ hV
  rw [← hrt] at hs
  obtain ⟨ho, hsh⟩ := keyed_is_shard_op f E k op s hs
  have hmem := frf_mem_of_getElem? hs
  have hgc : Good (prep s f.env) := frf_prep_good (hg.good s hmem) _
  have hcc : (prep s f.env).cfg = fcfg f := hg.cfg s hmem
  have hlen : (f.keyed E k op).1.shards.length = f.shards.length := onShard_length f _ op
  rw [frf_refinesAt_iff] at hsK
  have hr1 : Refines (prep s f.env) (flz_local (prep s f.env) m (keyOf E (fcfg f) k)) clock :=
    flz_local_refines _ m _ clock hgc.tinv.tbl.uniq hsK
  obtain ⟨h1o, hgood', L, hL, hE⟩ := hop _ _ hgc hcc hr1
  have hm1K := flz_local_at_K (prep s f.env) m (keyOf E (fcfg f) k)
  have hR := (refines_iff _ _ _).1 hL.refines
  -- the old shard and the global dictionary, key by key
  have hold : ∀ k2, V k2 → routeK f k2 = f.route E k →
      rf_VRel (rf_view (prep s f.env) k2) (m.get k2) now := by
    intro k2 hk2 hj
    obtain ⟨s2, hs2, hs2k⟩ := hr.2 k2 hk2
    rw [hj, hs] at hs2
    rw [← Option.some.inj hs2, frf_refinesAt_iff] at hs2k
    exact rf_VRel_mono hs2k hmono
  -- a key held by the old shard is routed to it
  have hplaced : ∀ k2, V k2 → rf_view (prep s f.env) k2 ≠ none → routeK f k2 = f.route E k := by
    intro k2 hk2 hv
    obtain ⟨r0, hr0, hsk⟩ := flz_row_of_view hv
    exact hpl _ s hs r0 hr0 k2 hk2 hsk
  have hKroute : ∀ k2, V k2 → sameKey (keyOf E (fcfg f) k) k2 = true → routeK f k2 = f.route E k :=
    fun k2 hk2 h => (hroute k2 hk2 h).trans hrt.symm
  -- (A) the new shard and the global dictionary without the evicted keys
  have hA : ∀ k2, V k2 → routeK f k2 = f.route E k →
      rf_VRel (rf_view (op (prep s f.env)).1 k2) ((dropKeys (sop m).1 (L.map rowKey)).get k2) now := by
    intro k2 hk2 hj
    have h := hR.2 k2
    rw [rf_get_dropKeys] at h ⊢
    cases ha : (L.map rowKey).any (fun l => sameKey l k2) with
    | true => rw [ha] at h; exact h
    | false =>
      rw [ha] at h
      simp only [Bool.false_eq_true, if_false] at h ⊢
      rcases flz_local_step_get hloc _ m hm1K k2 with ⟨-, heq⟩ | ⟨hne, e1, e2⟩
      · rw [← heq]; exact h
      · rw [e1, flz_local_get, hne] at h
        rw [e2]
        exact rf_VRel_trans h (hold k2 hk2 hj)
  -- (B) a key of another shard is not the call's key and is not among the evicted keys
  have hB : ∀ k2, V k2 → routeK f k2 ≠ f.route E k →
      sameKey (keyOf E (fcfg f) k) k2 = false ∧ (L.map rowKey).any (fun l => sameKey l k2) = false := by
    intro k2 hk2 hj
    have hne : sameKey (keyOf E (fcfg f) k) k2 = false := by
      cases h : sameKey (keyOf E (fcfg f) k) k2 with
      | false => rfl
      | true => exact absurd (hKroute k2 hk2 h) hj
    refine ⟨hne, ?_⟩
    cases ha : (L.map rowKey).any (fun l => sameKey l k2) with
    | false => rfl
    | true =>
      exfalso
      obtain ⟨d, hd, hdk⟩ := List.any_eq_true.1 ha
      obtain ⟨r, hrL, rfl⟩ := List.mem_map.1 hd
      obtain ⟨e, he, -, -⟩ := hL.was r hrL
      have hKr : sameKey (keyOf E (fcfg f) k) (rowKey r) = false := by
        cases h : sameKey (keyOf E (fcfg f) k) (rowKey r) with
        | false => rfl
        | true => rw [rf_sameKey_trans h hdk] at hne; cases hne
      rw [frf_local_frame hloc _ _ hKr, flz_local_get, hKr] at he
      simp only [Bool.false_eq_true, if_false] at he
      have hv2 : rf_view (prep s f.env) k2 ≠ none := by
        rw [← rf_view_sameKey hdk, he]; exact fun h => nomatch h
      exact hj (hplaced k2 hk2 hv2)
  refine ⟨?_, s, L, hs, hsh, hE, ⟨rf_wf_dropKeys (frf_local_wf hloc hr.1) _, ?_⟩, ?_, ?_⟩
  · rw [ho]
    show (op (prep s f.env)).2 = _
    rw [h1o]
    exact frf_local_out hloc _ _ hm1K
  · intro k2 hk2
    rw [frf_routeK_length hlen]
    by_cases hj : routeK f k2 = f.route E k
    · rw [hj]
      exact ⟨_, hsh, (frf_refinesAt_iff _ _ _ _).2 (hA k2 hk2 hj)⟩
    · obtain ⟨s2, hs2, hs2k⟩ := hr.2 k2 hk2
      refine ⟨s2, by rw [keyed_only_route f E k op _ hj]; exact hs2, ?_⟩
      obtain ⟨hne, hany⟩ := hB k2 hk2 hj
      rw [frf_refinesAt_iff] at hs2k ⊢
      rw [rf_get_dropKeys, hany]
      simp only [Bool.false_eq_true, if_false]
      rw [frf_local_frame hloc m k2 hne]
      exact rf_VRel_mono hs2k hmono
  · intro r hrL hVr
    obtain ⟨e, he, hent, hx⟩ := hL.was r hrL
    rcases flz_local_step_get hloc _ m hm1K (rowKey r) with ⟨-, heq⟩ | ⟨hne, e1, e2⟩
    · exact ⟨e, heq ▸ he, hent, hx⟩
    · rw [e1, flz_local_get, hne] at he
      simp only [Bool.false_eq_true, if_false] at he
      have hj := hplaced (rowKey r) hVr (by rw [he]; exact fun h => nomatch h)
      refine ⟨e, ?_, hent, hx⟩
      rw [e2]
      exact rf_VRel_some (hold _ hVr hj) he
  · intro i s' hs' r' hr' k2 hk2 hsk
    rw [frf_routeK_length hlen]
    by_cases hi : i = f.route E k
    · subst hi
      rw [hsh] at hs'
      have hs'' := Option.some.inj hs'
      subst hs''
      have hv : rf_view (op (prep s f.env)).1 k2 ≠ none := by
        rw [← rf_view_sameKey hsk]
        exact flz_view_row hr' (hgood'.tinv.tbl.nonnull r' hr')
      have hd := (flz_dropKeys_ne_none (flz_VRel_ne_none (hR.2 k2) hv)).1
      rcases flz_local_step_get hloc _ m hm1K k2 with ⟨hsame, -⟩ | ⟨hne, e1, -⟩
      · exact hKroute k2 hk2 hsame
      · rw [e1, flz_local_get, hne] at hd
        simp only [Bool.false_eq_true, if_false] at hd
        exact hplaced k2 hk2 hd
    · rw [keyed_only_route f E k op i hi] at hs'
      exact hpl i s' hs' r' hr' k2 hk2 hsk

/-! ### one bulk removal that may evict (on every shard) -/

theorem flz_getD_lt {α} (LL : List (List α)) {i : Nat} (hi : i < LL.length) : LL.getD i [] = LL[i] := by
  rw [List.getD_eq_getElem?_getD, List.getElem?_eq_getElem hi, Option.getD_some]

theorem flz_getD_ge {α} (LL : List (List α)) {i : Nat} (hi : LL.length ≤ i) : LL.getD i [] = [] := by
  rw [List.getD_eq_getElem?_getD, List.getElem?_eq_none hi, Option.getD_none]

/-- the lists of a per-shard family, flattened, contain a key equal to `k2` only through the
list of the shard `k2` is routed to -/
theorem flz_any_flatten (LL : List (List Row)) (k2 : Spec.Key) (j : Nat)
    (h : ∀ i, i ≠ j → ∀ r ∈ LL.getD i [], sameKey (rowKey r) k2 = false) :
    (fdrops LL).any (fun l => sameKey l k2) = ((LL.getD j []).map rowKey).any (fun l => sameKey l k2) := by
  unfold fdrops
  rw [Bool.eq_iff_iff, List.any_eq_true, List.any_eq_true]
  constructor
  · rintro ⟨d, hd, hdk⟩
    obtain ⟨r, hr, rfl⟩ := List.mem_map.1 hd
    obtain ⟨L, hL, hrL⟩ := List.mem_flatten.1 hr
    obtain ⟨i, hi, rfl⟩ := List.getElem_of_mem hL
    by_cases hij : i = j
    · subst hij
      refine ⟨_, List.mem_map.2 ⟨r, ?_, rfl⟩, hdk⟩
      rw [flz_getD_lt _ hi]; exact hrL
    · have := h i hij r (by rw [flz_getD_lt _ hi]; exact hrL)
      rw [this] at hdk; cases hdk
  · rintro ⟨d, hd, hdk⟩
    obtain ⟨r, hr, rfl⟩ := List.mem_map.1 hd
    refine ⟨_, List.mem_map.2 ⟨r, List.mem_flatten.2 ⟨LL.getD j [], ?_, hr⟩, rfl⟩, hdk⟩
    by_cases hj : j < LL.length
    · rw [flz_getD_lt _ hj]; exact List.getElem_mem hj
    · rw [flz_getD_ge _ (by omega)] at hr; cases hr

theorem flz_choice {α β : Type} {r : α → β → Prop} (h : ∀ x, ∃ y, r x y) : ∃ f : α → β, ∀ x, r x (f x) :=
  ⟨fun x => (h x).choose, fun x => (h x).choose_spec⟩

/-- a table represents the dictionary it denotes -/
theorem flz_abs_refines (c : Cache) (hu : KeysUnique c.rows) (clock : Int) : Refines c (frf_abs c) clock := by
  rw [refines_iff]
  refine ⟨frf_abs_wf c hu, fun k => ?_⟩
  rw [frf_abs_get]
  exact rf_VRel_refl _ _

theorem flz_getD_map_range (F : Nat → List Row) (n i : Nat) (hi : i < n) :
    ((List.range n).map F).getD i [] = F i := by
  rw [flz_getD_lt _ (by simpa using hi)]
  simp

/-- **generic aggregate theorem, every policy**: a call run on every shard whose Cache version
refines the dictionary up to the rows it evicted and whose specification acts on every binding
separately refines the dictionary up to the rows evicted on all the shards together.  `LL` lists
them shard by shard; shard `i` evicted `LL[i]` (`Ev`, with the observations `env` that shard made). -/
theorem each_frefines_lossy (V : Spec.Key → Prop) (f : Fanout) (m : Spec.Dict) (clock now : Int)
    (op : Cache → Cache × Out) (sop : Spec.Dict → Spec.Dict × Out) (Ev : Cache → List Row → Prop)
    (hg : FGoodAny f) (hpl : FPlacedOn V f) (hr : FRefinesOn V f m clock) (hmono : clock ≤ now)
    (hop : ∀ (c : Cache) (m' : Spec.Dict), Good c → c.cfg = fcfg f → Refines c m' clock →
      Good (op c).1 ∧ ∃ L, Lossy (op c).1 (sop m').1 now L ∧ Ev c L)
    (hpw : flz_Pointwise sop now) :
    ∃ LL : List (List Row), LL.length = f.shards.length ∧
      (∀ i s, f.shards[i]? = some s → ∃ env,
        (f.each op).1.shards[i]? = some (op (prep s env)).1 ∧ Ev (prep s env) (LL.getD i [])) ∧
      FRefinesOn V (f.each op).1 (dropKeys (sop m).1 (fdrops LL)) now ∧
      (∀ L ∈ LL, ∀ r ∈ L, V (rowKey r) →
        ∃ e, (sop m).1.get (rowKey r) = some e ∧ EntOf r e ∧ e.expired now = false) ∧
      FPlacedOn V (f.each op).1 := by
  obtain ⟨P, hP, hPn, hPm⟩ := hpw
  obtain ⟨-, hlen, hpt⟩ := each_pointwise f op
  -- what shard `i` contributes
  have hQ : ∀ i : Nat, ∃ L : List Row, ∀ s : Cache, f.shards[i]? = some s → ∃ env, Ev (prep s env) L ∧
      Good (op (prep s env)).1 ∧ (f.each op).1.shards[i]? = some (op (prep s env)).1 ∧
      (∀ k2, rf_VRel (rf_view (op (prep s env)).1 k2)
        (if (L.map rowKey).any (fun l => sameKey l k2) then none else P (rf_view s k2)) now) ∧
      (∀ r ∈ L, ∃ e, P (rf_view s (rowKey r)) = some e ∧ EntOf r e ∧ e.expired now = false) := by
    intro i
    by_cases hi : i < f.shards.length
    · obtain ⟨env, -, hsh⟩ := hpt i hi
      have hmem := List.getElem_mem hi
      have hgc : Good (prep f.shards[i] env) := frf_prep_good (hg.good _ hmem) env
      have hr0 := flz_abs_refines (prep f.shards[i] env) hgc.tinv.tbl.uniq clock
      obtain ⟨hgood', L, hL, hE⟩ := hop _ _ hgc (hg.cfg f.shards[i] hmem) hr0
      have hw0 := ((refines_iff _ _ _).1 hr0).1
      have hget : ∀ k2, (sop (frf_abs (prep f.shards[i] env))).1.get k2 = P (rf_view f.shards[i] k2) := by
        intro k2
        rw [(hP _ hw0).2 k2, frf_abs_get]
        rfl
      refine ⟨L, fun s hs => ?_⟩
      rw [List.getElem?_eq_getElem hi] at hs
      have hs' := Option.some.inj hs
      subst hs'
      refine ⟨env, hE, hgood', hsh, fun k2 => ?_, fun r hrL => ?_⟩
      · have h := ((refines_iff _ _ _).1 hL.refines).2 k2
        rw [rf_get_dropKeys, hget] at h
        exact h
      · obtain ⟨e, he, hent, hx⟩ := hL.was r hrL
        rw [hget] at he
        exact ⟨e, he, hent, hx⟩
    · refine ⟨[], fun s hs => ?_⟩
      rw [List.getElem?_eq_none (by omega)] at hs
      cases hs
  obtain ⟨F, hF⟩ := flz_choice hQ
  have hgetD : ∀ i, i < f.shards.length → ((List.range f.shards.length).map F).getD i [] = F i :=
    fun i hi => flz_getD_map_range F _ i hi
  have hPsome : ∀ {a : Option Entry} {e : Entry}, P a = some e → a ≠ none := by
    intro a e h ha
    rw [ha, hPn] at h; cases h
  -- an evicted row of shard `i` has a key routed to `i`
  have hLroute : ∀ i s, f.shards[i]? = some s → ∀ r ∈ F i, ∀ k2, V k2 →
      sameKey (rowKey r) k2 = true → routeK f k2 = i := by
    intro i s hs r hrL k2 hk2 hsk
    obtain ⟨env, -, -, -, -, hwas⟩ := hF i s hs
    obtain ⟨e, he, -, -⟩ := hwas r hrL
    obtain ⟨r0, hr0, hsk0⟩ := flz_row_of_view (hPsome he)
    exact hpl i s hs r0 hr0 k2 hk2 (rf_sameKey_trans hsk0 hsk)
  refine ⟨(List.range f.shards.length).map F, by simp, ?_, ⟨rf_wf_dropKeys (hP m hr.1).1 _, ?_⟩, ?_, ?_⟩
  · intro i s hs
    have hi : i < f.shards.length := (List.getElem?_eq_some_iff.1 hs).1
    obtain ⟨env, hE, -, hsh, -⟩ := hF i s hs
    rw [hgetD i hi]
    exact ⟨env, hsh, hE⟩
  · intro k2 hk2
    obtain ⟨s, hs, hsk⟩ := hr.2 k2 hk2
    have hj : routeK f k2 < f.shards.length := (List.getElem?_eq_some_iff.1 hs).1
    obtain ⟨env, -, -, hsh, hrel, -⟩ := hF _ s hs
    rw [frf_routeK_length hlen]
    refine ⟨_, hsh, ?_⟩
    rw [frf_refinesAt_iff] at hsk ⊢
    rw [rf_get_dropKeys, flz_any_flatten _ k2 (routeK f k2), hgetD _ hj, (hP m hr.1).2 k2]
    · have h := hrel k2
      cases ha : ((F (routeK f k2)).map rowKey).any (fun l => sameKey l k2) with
      | true => rw [ha] at h; exact h
      | false =>
        rw [ha] at h
        simp only [Bool.false_eq_true, if_false] at h ⊢
        exact rf_VRel_trans h (hPm _ _ (rf_VRel_mono hsk hmono))
    · intro i hij r hrL
      by_cases hi : i < f.shards.length
      · rw [hgetD i hi] at hrL
        cases hsk2 : sameKey (rowKey r) k2 with
        | false => rfl
        | true =>
          exact absurd (hLroute i _ (List.getElem?_eq_getElem hi) r hrL k2 hk2 hsk2).symm hij
      · rw [flz_getD_ge _ (by simp; omega)] at hrL; cases hrL
  · intro L hL r hrL hVr
    obtain ⟨i, hi, rfl⟩ := List.mem_map.1 hL
    have hi : i < f.shards.length := List.mem_range.1 hi
    have hs := List.getElem?_eq_getElem hi
    obtain ⟨env, -, -, -, -, hwas⟩ := hF i _ hs
    obtain ⟨e, he, hent, hx⟩ := hwas r hrL
    have hrt : routeK f (rowKey r) = i := by
      obtain ⟨r0, hr0, hsk0⟩ := flz_row_of_view (hPsome he)
      exact hpl i _ hs r0 hr0 _ hVr hsk0
    obtain ⟨s2, hs2, hs2k⟩ := hr.2 _ hVr
    rw [hrt, hs] at hs2
    rw [← Option.some.inj hs2, frf_refinesAt_iff] at hs2k
    refine ⟨e, ?_, hent, hx⟩
    rw [(hP m hr.1).2]
    exact rf_VRel_some (hPm _ _ (rf_VRel_mono hs2k hmono)) he
  · intro i s' hs' r' hr' k2 hk2 hsk
    have hi : i < f.shards.length := by
      rw [← hlen]; exact (List.getElem?_eq_some_iff.1 hs').1
    have hs := List.getElem?_eq_getElem hi
    obtain ⟨env, -, hgood', hsh, hrel, -⟩ := hF i _ hs
    rw [hsh] at hs'
    have hs'' := Option.some.inj hs'
    subst hs''
    rw [frf_routeK_length hlen]
    have hv : rf_view (op (prep f.shards[i] env)).1 k2 ≠ none := by
      rw [← rf_view_sameKey hsk]
      exact flz_view_row hr' (hgood'.tinv.tbl.nonnull r' hr')
    have hd := flz_VRel_ne_none (hrel k2) hv
    have hd2 : P (rf_view f.shards[i] k2) ≠ none := by
      intro h
      rw [h] at hd
      simp at hd
    have hv0 : rf_view f.shards[i] k2 ≠ none := fun h => hd2 (by rw [h, hPn])
    obtain ⟨r0, hr0, hsk0⟩ := flz_row_of_view hv0
    exact hpl i _ hs r0 hr0 k2 hk2 hsk0

end DC.Fanout
