/-
Helper lemmas for C10_Refine, part 7: the row-level frame of `add`, `touch` and
`incr` — the rows of the other keys are neither created nor altered by the call,
and with `cull_limit = 0` none of them is removed (`add_other_rows`,
`add_keeps_rows`, … : what `set_other_rows` / `set_keeps_rows` say for `set`).
-/
import DC.Proofs.QRefineSet

namespace DC.Cache
open DC.Spec DC.QSpec

/-- the frame of a write to the key `(dbk, raw)` between the table `R` before and `R'` after:
every row of another key in `R'` is a row of `R`, and — when `lim = 0` — every row of another key
in `R` is still in `R'` -/
def Fr (dbk : SqlVal) (raw : Bool) (lim : Nat) (R R' : List Row) : Prop :=
  (∀ r ∈ R', keyMatch dbk raw r = false → r ∈ R) ∧
  (lim = 0 → ∀ r ∈ R, keyMatch dbk raw r = false → r ∈ R')

theorem Fr.refl (dbk : SqlVal) (raw : Bool) (lim : Nat) (R : List Row) : Fr dbk raw lim R R :=
  ⟨fun _ h _ => h, fun _ _ h _ => h⟩

theorem Fr.trans {dbk : SqlVal} {raw : Bool} {lim : Nat} {A B C : List Row}
    (h1 : Fr dbk raw lim A B) (h2 : Fr dbk raw lim B C) : Fr dbk raw lim A C :=
  ⟨fun r hr hk => h1.1 r (h2.1 r hr hk) hk, fun h0 r hr hk => h2.2 h0 r (h1.2 h0 r hr hk) hk⟩

/-- one row, the one of the key, is rewritten in place (key and raw flag kept) -/
theorem Fr.map {dbk : SqlVal} {raw : Bool} (lim : Nat) {R : List Row} (hasc : RowidsAsc R) {r0 : Row}
    (hr0 : r0 ∈ R) (hk0 : keyMatch dbk raw r0 = true) (f : Row → Row)
    (hf : ∀ r, (f r).key = r.key ∧ (f r).raw = r.raw) :
    Fr dbk raw lim R (R.map (fun r => if r.rowid == r0.rowid then f r else r)) := by
  constructor
  · intro r' hr' hk
    obtain ⟨r, hr, rfl⟩ := List.mem_map.1 hr'
    by_cases hid : r.rowid = r0.rowid
    · have := rowidsAsc_eq_of_rowid hasc hr hr0 hid
      subst this
      simp only [beq_self_eq_true, if_true] at hk
      simp only [keyMatch, (hf r).1, (hf r).2] at hk hk0
      rw [hk0] at hk; cases hk
    · simp [hid]; exact hr
  · intro _ r hr hk
    have hid : r.rowid ≠ r0.rowid := by
      intro hid
      have := rowidsAsc_eq_of_rowid hasc hr hr0 hid
      subst this
      rw [hk0] at hk; cases hk
    exact List.mem_map.2 ⟨r, hr, by simp [hid]⟩

/-- a row of the key is appended -/
theorem Fr.ins {dbk : SqlVal} {raw : Bool} (lim : Nat) (R : List Row) {new : Row}
    (hk : keyMatch dbk raw new = true) : Fr dbk raw lim R (R ++ [new]) := by
  constructor
  · intro r hr hkr
    rcases List.mem_append.1 hr with h | h
    · exact h
    · simp only [List.mem_singleton] at h; subst h; rw [hk] at hkr; cases hkr
  · intro _ r hr _
    exact List.mem_append_left _ hr

/-- the lazy cull: only removes, and nothing when `cull_limit = 0` -/
theorem Fr.cull (dbk : SqlVal) (raw : Bool) (t : Cache) (now : Int) (hasc : RowidsAsc t.rows) :
    Fr dbk raw t.cfg.cullLimit t.rows (t.cullW now).1.rows := by
  constructor
  · intro r hr _
    exact (cullW_sublist t now hasc).subset hr
  · intro h0 r hr _
    rw [(cull_zero t now h0).1]; exact hr

theorem keyMatch_self {dbk : SqlVal} (hnn : dbk ≠ .null) (raw : Bool) (r : Row) (h1 : r.key = dbk)
    (h2 : r.raw = raw) : keyMatch dbk raw r = true := by
  simp [keyMatch, h1, h2, eqv_self hnn]

/-- INSERT-or-UPDATE of the row of the key, then the lazy cull -/
theorem Fr.write {dbk : SqlVal} {raw : Bool} (hnn : dbk ≠ .null) (t : Cache) (hi : TableInv t) (now : Int)
    (c : Cols) :
    (∀ r0, t.selKey dbk raw = some r0 →
      Fr dbk raw t.cfg.cullLimit t.rows ((t.updRow r0.rowid now c).cullW now).1.rows) ∧
    (t.selKey dbk raw = none →
      Fr dbk raw t.cfg.cullLimit t.rows ((t.insRow dbk raw now c).cullW now).1.rows) := by
  constructor
  · intro r0 hs
    have hr0 : r0 ∈ t.rows := List.mem_of_find?_eq_some hs
    have hk0 : keyMatch dbk raw r0 = true := List.find?_some hs
    have hU := updRow_inv r0.rowid now c hi
    have h1 : Fr dbk raw t.cfg.cullLimit t.rows (t.updRow r0.rowid now c).rows :=
      Fr.map _ hi.tbl.asc hr0 hk0 _ (fun _ => ⟨rfl, rfl⟩)
    exact h1.trans (Fr.cull dbk raw (t.updRow r0.rowid now c) now hU.tbl.asc)
  · intro hs
    have hI := insRow_inv dbk raw now c hi hs hnn
    have h1 : Fr dbk raw t.cfg.cullLimit t.rows (t.insRow dbk raw now c).rows :=
      Fr.ins _ _ (keyMatch_self hnn raw _ rfl rfl)
    exact h1.trans (Fr.cull dbk raw (t.insRow dbk raw now c) now hI.tbl.asc)

/-! ### the bodies -/

theorem fr_addBody {dbk : SqlVal} {raw : Bool} (hnn : dbk ≠ .null) (now : Int) (c : Cols) (t : Cache)
    (hi : TableInv t) : Fr dbk raw t.cfg.cullLimit t.rows (rf_addBody dbk raw now c t).s.rows := by
  have hw := Fr.write (raw := raw) hnn (t.logSql "selKey") (logSql_inv _ hi) now c
  unfold rf_addBody
  split
  · exact Fr.refl _ _ _ _
  · cases hs : t.selKey dbk raw with
    | some r0 =>
      simp only
      split
      · exact Fr.refl _ _ _ _
      · split
        · exact Fr.refl _ _ _ _
        · exact hw.1 r0 hs
    | none =>
      simp only
      split
      · exact Fr.refl _ _ _ _
      · exact hw.2 hs

theorem fr_touchBody (dbk : SqlVal) (raw : Bool) (now : Int) (ttl : Option Int) (t : Cache)
    (hi : TableInv t) : Fr dbk raw t.cfg.cullLimit t.rows (rf_touchBody dbk raw now ttl t).s.rows := by
  unfold rf_touchBody
  cases hs : t.selKey dbk raw with
  | none => exact Fr.refl _ _ _ _
  | some r0 =>
    simp only
    split
    · exact Fr.map _ hi.tbl.asc (List.mem_of_find?_eq_some hs) (List.find?_some hs) _ (fun _ => ⟨rfl, rfl⟩)
    · exact Fr.refl _ _ _ _

theorem touchPolicy_keyraw (p : Policy) (now : Int) (r : Row) :
    (touchPolicy p now r).key = r.key ∧ (touchPolicy p now r).raw = r.raw := by
  cases p <;> exact ⟨rfl, rfl⟩

theorem fr_incrFresh {E : Externals} {dbk : SqlVal} {raw : Bool} (hnn : dbk ≠ .null) (now delta : Int)
    (dflt : Option Int) (t : Cache) (hi : TableInv t) (upd : Option Row)
    (hupd : t.selKey dbk raw = upd) :
    Fr dbk raw t.cfg.cullLimit t.rows (rf_incrFresh E dbk raw now delta dflt t upd).s.rows := by
  unfold rf_incrFresh
  cases dflt with
  | none => exact Fr.refl _ _ _ _
  | some d =>
    simp only
    cases hst : t.store E (.int (d + delta)) false with
    | error e => exact Fr.refl _ _ _ _
    | ok sc =>
      obtain ⟨t1, c⟩ := sc
      obtain ⟨hi1, hrows⟩ := store_inv hst hi
      have hcfg : t1.cfg = t.cfg := (store_keep hst).2.1
      have hw := Fr.write (raw := raw) hnn (t1.regCreated c.file) (regCreated_inv c.file hi1) now c
      rw [regCreated_rows, regCreated_cfg, hrows, hcfg] at hw
      have hsel : (t1.regCreated c.file).selKey dbk raw = upd := by
        rw [selKey_congr ((regCreated_rows t1 c.file).trans hrows)]; exact hupd
      cases upd with
      | none => exact hw.2 hsel
      | some r0 => exact hw.1 r0 hsel

theorem fr_incrBody {E : Externals} {dbk : SqlVal} {raw : Bool} (hnn : dbk ≠ .null) (now delta : Int)
    (dflt : Option Int) (t : Cache) (hi : TableInv t) :
    Fr dbk raw t.cfg.cullLimit t.rows (rf_incrBody E dbk raw now delta dflt t).s.rows := by
  unfold rf_incrBody
  cases hs : t.selKey dbk raw with
  | none => exact fr_incrFresh hnn now delta dflt (t.logSql "selKey") (logSql_inv _ hi) none hs
  | some r0 =>
    simp only
    split
    · exact fr_incrFresh hnn now delta dflt (t.logSql "selKey") (logSql_inv _ hi) (some r0) hs
    · split
      · split
        · exact Fr.map _ hi.tbl.asc (List.mem_of_find?_eq_some hs) (List.find?_some hs)
            (fun r => touchPolicy (t.logSql "selKey").cfg.policy now { r with storeT := now, val := _ })
            (fun r => touchPolicy_keyraw _ _ _)
        · exact Fr.refl _ _ _ _
      · exact Fr.refl _ _ _ _

/-! ### the calls -/

/-- a transaction at depth 0 whose body has the frame property -/
theorem fr_transact {dbk : SqlVal} {raw : Bool} (s : Cache) (body : Cache → Body) (fresh : Option Nat)
    (hd : s.depth = 0)
    (hb : Fr dbk raw s.cfg.cullLimit s.rows (body (s.log .begin)).s.rows) :
    Fr dbk raw s.cfg.cullLimit s.rows (s.transact body fresh).1.rows := by
  obtain ⟨hR, -, -, -⟩ := rf_transact s body fresh hd
  rw [hR]
  split
  · exact hb
  · exact Fr.refl _ _ _ _

theorem add_frame (s : Cache) (E : Externals) (now : Int) (k v : PyVal) (ttl : Option Int) (read : Bool)
    (tag : SqlVal) (hg : Good s) :
    Fr (keyOf E s.cfg k).1 (keyOf E s.cfg k).2 s.cfg.cullLimit s.rows (s.add E now k v ttl read tag).1.rows := by
  rw [rf_add_eq]
  cases hst : s.store E v read with
  | error e => exact Fr.refl _ _ _ _
  | ok sc =>
    obtain ⟨s1, c⟩ := sc
    obtain ⟨hi1, hrows⟩ := store_inv hst hg.tinv
    have hcfg : s1.cfg = s.cfg := (store_keep hst).2.1
    have hd1 : s1.depth = 0 := (store_spec hst).2.2.trans hg.depth
    have := fr_transact (dbk := (keyOf E s.cfg k).1) (raw := (keyOf E s.cfg k).2) s1
      (rf_addBody (keyOf E s.cfg k).1 (keyOf E s.cfg k).2 now { c with expT := ttl.map (now + ·), tag := tag })
      c.file hd1
      (fr_addBody (put_ne_null_fl E s.cfg.disk k) now _ (s1.log .begin) (log_inv _ hi1))
    rw [hrows, hcfg] at this
    exact this

theorem touch_frame (s : Cache) (E : Externals) (now : Int) (k : PyVal) (ttl : Option Int) (hg : Good s) :
    Fr (keyOf E s.cfg k).1 (keyOf E s.cfg k).2 s.cfg.cullLimit s.rows (s.touch E now k ttl).1.rows := by
  rw [rf_touch_eq]
  exact fr_transact s _ none hg.depth (fr_touchBody _ _ now ttl (s.log .begin) (log_inv _ hg.tinv))

theorem incr_frame (s : Cache) (E : Externals) (now : Int) (k : PyVal) (delta : Int) (dflt : Option Int)
    (hg : Good s) :
    Fr (keyOf E s.cfg k).1 (keyOf E s.cfg k).2 s.cfg.cullLimit s.rows (s.incr E now k delta dflt).1.rows := by
  rw [rf_incr_eq]
  exact fr_transact s _ none hg.depth
    (fr_incrBody (put_ne_null_fl E s.cfg.disk k) now delta dflt (s.log .begin) (log_inv _ hg.tinv))

end DC.Cache
