/-
File invariants INSIDE a transaction block (depth > 0).  `PI` (Proofs/Files.lean) is stated for
quiescent states (its last four clauses: depth 0, no snapshot, nothing pending, nothing created);
`fcore` blanks those four fields, so that every `Core`-level lemma about `PI` applies inside a
block: `BI x` = "the files are consistent once the files of some list `cl` are removed, and every
file of `cl` is pending removal or was created in this block".
-/
import DC.Proofs.Block

namespace DC.Cache

/-- a `Core` with the four transaction-bookkeeping fields blanked -/
def qz (c : Core) : Core := { c with depth := 0, snap := none, pending := [], created := [] }

def fcore (x : Cache) : Core := qz (core x)

theorem fcore_of_core {x y : Cache} (h : core y = core x) : fcore y = fcore x := by
  unfold fcore; rw [h]

theorem fcore_rows {x y : Cache} {R : List Row} (h : core y = { core x with rows := R }) :
    fcore y = { fcore x with rows := R } := by
  unfold fcore; rw [h]; rfl

@[simp] theorem fcore_files (s : Cache) : (fcore s).files = s.files := rfl
@[simp] theorem fcore_rows_eq (s : Cache) : (fcore s).rows = s.rows := rfl
@[simp] theorem fcore_nfile (s : Cache) : (fcore s).nfile = s.nfile := rfl

@[simp] theorem fcore_log (s : Cache) (a : Act) : fcore (s.log a) = fcore s := rfl
@[simp] theorem fcore_logSql (s : Cache) (a : String) : fcore (s.logSql a) = fcore s := rfl
@[simp] theorem fcore_volume (s : Cache) : fcore s.volume.1 = fcore s := fcore_of_core (core_volume s)
@[simp] theorem fcore_fetchRow (s : Cache) (E : Externals) (r : Row) (read : Bool) :
    fcore (s.fetchRow E r read).1 = fcore s := fcore_of_core (core_fetchRow s E r read)
@[simp] theorem fcore_setMisses (s : Cache) (m : Int) : fcore { s with misses := m } = fcore s := rfl
@[simp] theorem fcore_setHits (s : Cache) (m : Int) : fcore { s with hits := m } = fcore s := rfl
@[simp] theorem fcore_setPending (s : Cache) (p : List (Option Nat)) : fcore { s with pending := p } = fcore s := rfl
@[simp] theorem fcore_setCreated (s : Cache) (p : List Nat) : fcore { s with created := p } = fcore s := rfl

macro "fcore_simp" : tactic =>
  `(tactic| simp only [fcore_setMisses, fcore_setHits, fcore_logSql, fcore_log, fcore_fetchRow, fcore_volume,
      fcore_setPending, fcore_setCreated])

/-! ### the statement lemmas of Files.lean, inside a block -/

theorem fPI_insRow {s : Cache} {cl cl2 : List (Option Nat)} (h : PI (fcore s) cl)
    (k : SqlVal) (raw : Bool) (now : Int) (c : Cols)
    (hf : ∀ g, c.file = some g → some g ∈ cl ∧ ∃ ct, (g, ct) ∈ s.files ∧ ct.size = c.size)
    (hc : ∀ f, some f ∈ cl2 ↔ some f ∈ cl ∧ c.file ≠ some f) :
    PI (fcore (s.insRow k raw now c)) cl2 := by
  rw [fcore_rows (core_insRow s k raw now c)]
  refine h.ins (newRow s k raw now c) ?_ hf hc
  intro a ha
  have := le_maxRowid s.rows a ha
  show a.rowid ≠ maxRowid s.rows + 1
  omega

theorem fPI_updRow {s : Cache} {cl cl2 : List (Option Nat)} (h : PI (fcore s) cl)
    (old : Row) (hold : old ∈ s.rows) (now : Int) (c : Cols)
    (hf : ∀ g, c.file = some g → some g ∈ cl ∧ ∃ ct, (g, ct) ∈ s.files ∧ ct.size = c.size)
    (hc : ∀ f, some f ∈ cl2 ↔ (some f ∈ cl ∧ c.file ≠ some f) ∨ old.file = some f) :
    PI (fcore (s.updRow old.rowid now c)) cl2 := by
  rw [fcore_rows (core_updRow s old.rowid now c)]
  have hne : ∀ f, old.file = some f → c.file ≠ some f := by
    intro f h1 h2; exact (h.ref old hold f h1).1 (hf f h2).1
  have h1 := h.delIn [old] (by intro r hr; simp at hr; subst hr; exact hold)
  have h2 := h1.ins (cl2 := cl2) (updF old.rowid now c old) ?_ ?_ ?_
  · refine (h2.rows_congr ((core s).rows.map (updF old.rowid now c)) ?_)
    intro x
    simp only [List.mem_map, List.mem_append, List.mem_filter, List.mem_singleton]
    constructor
    · rintro ⟨r, hr, rfl⟩
      by_cases hid : r.rowid = old.rowid
      · right; rw [h.uid r hr old hold hid]
      · left
        have : updF old.rowid now c r = r := by simp [updF, hid]
        rw [this]; exact ⟨hr, by simpa using hid⟩
    · rintro (⟨hx, hid⟩ | rfl)
      · refine ⟨x, hx, ?_⟩
        have hid : x.rowid ≠ old.rowid := by simpa using hid
        simp [updF, hid]
      · exact ⟨old, hold, rfl⟩
  · intro a ha
    have := (List.mem_filter.1 ha).2
    simp only [updF, beq_self_eq_true, if_true]
    simpa using this
  · intro g hg
    have hg : c.file = some g := by simpa [updF] using hg
    obtain ⟨h3, h4⟩ := hf g hg
    refine ⟨by simp [h3], ?_⟩
    simpa [updF, fcore_files] using h4
  · intro f
    rw [hc f]
    simp [updF]
    grind

theorem fPI_updExp {s : Cache} {cl : List (Option Nat)} (h : PI (fcore s) cl) (id : Nat) (e : Option Int) :
    PI (fcore (s.updExp id e)) cl := by
  have : fcore (s.updExp id e) = { fcore s with rows := List.map (fun (r : Row) => if r.rowid == id then { r with expT := e } else r) (fcore s).rows } := rfl
  rw [this]
  apply h.map
  intro r; split <;> simp

theorem fPI_updGet {s : Cache} {cl : List (Option Nat)} (h : PI (fcore s) cl) (id : Nat) (now : Int) :
    PI (fcore (s.updGet id now)) cl := by
  have : fcore (s.updGet id now) = { fcore s with rows := List.map (fun (r : Row) => if r.rowid == id then touchPolicy s.cfg.policy now r else r) (fcore s).rows } := rfl
  rw [this]
  apply h.map
  intro r; split
  · exact touchPolicy_keep_fl _ _ _
  · simp

theorem fPI_updIncr {s : Cache} {cl : List (Option Nat)} (h : PI (fcore s) cl) (id : Nat) (now : Int)
    (v : SqlVal) : PI (fcore (s.updIncr id now v)) cl := by
  have : fcore (s.updIncr id now v) = { fcore s with rows := List.map (fun (r : Row) => if r.rowid == id then touchPolicy s.cfg.policy now { r with storeT := now, val := v } else r) (fcore s).rows } := rfl
  rw [this]
  apply h.map
  intro r; split
  · exact touchPolicy_keep_fl _ _ _
  · simp

theorem fPI_delIn {s : Cache} {cl : List (Option Nat)} (h : PI (fcore s) cl) (page : List Row)
    (hp : ∀ r ∈ page, r ∈ s.rows) :
    PI (fcore (s.delIn (page.map (·.rowid)))) (cl ++ page.map (·.file)) := by
  rw [fcore_rows (core_delIn _ s)]; exact h.delIn page hp

theorem fPI_delRow {s : Cache} {cl : List (Option Nat)} (h : PI (fcore s) cl) (r : Row)
    (hr : r ∈ s.rows) : PI (fcore (s.delRow r.rowid)) (cl ++ [r.file]) := by
  have := fPI_delIn h [r] (by intro x hx; simp at hx; subst hx; exact hr)
  exact this

theorem fcullTail_PI (t : Cache) (cl : List (Option Nat)) (n : Nat) (pre : List (Option Nat))
    (h : PI (fcore t) (pre ++ cl)) :
    PI (fcore (cullTail t cl n).1) (pre ++ (cullTail t cl n).2) := by
  unfold cullTail
  split
  · exact h
  split
  · exact h
  simp only
  split
  · simpa using h
  split
  · simpa using h
  · simp only [fcore_logSql]
    rw [← List.append_assoc]
    apply fPI_delIn
    · simpa using h
    · intro r hr
      have := selPolicy_mem hr
      simpa using this

theorem fcullW_PI (s : Cache) (now : Int) (pre : List (Option Nat)) (h : PI (fcore s) pre) :
    PI (fcore (s.cullW now).1) (pre ++ (s.cullW now).2) := by
  by_cases h0 : s.cfg.cullLimit = 0
  · have h1 : s.cullW now = (s, []) := by unfold cullW; simp [h0]
    rw [h1]; simpa using h
  · rw [cullW_eq s now h0]
    split
    · apply fcullTail_PI; simpa using h
    · apply fcullTail_PI
      simp only [fcore_logSql]
      apply fPI_delIn
      · simpa using h
      · intro r hr; exact (selExpired_mem hr).1

/-- writing a file, with any cleanup list -/
theorem PI.fwrite' {c : Core} {cl : List (Option Nat)} (h : PI c cl) (ct : Content) :
    PI { c with files := c.files ++ [(c.nfile, ct)], nfile := c.nfile + 1 } (some c.nfile :: cl) := by
  constructor
  · exact h.uid
  · intro r hr f hf
    obtain ⟨h0, ct', h1, h2⟩ := h.ref r hr f hf
    have := h.fresh _ h1
    refine ⟨?_, ct', List.mem_append_left _ h1, h2⟩
    simp only [List.mem_cons, Option.some.injEq, not_or]
    simp only at this
    exact ⟨by omega, h0⟩
  · exact h.inj
  · intro p hp
    simp only [List.mem_append, List.mem_singleton] at hp
    rcases hp with hp | rfl
    · have := h.fresh p hp; simp only at this ⊢; omega
    · simp
  · simp only [List.map_append, List.map_cons, List.map_nil]
    rw [List.nodup_append]
    refine ⟨h.nodup, by simp, ?_⟩
    intro a ha b hb
    simp only [List.mem_singleton] at hb
    obtain ⟨p, hp, rfl⟩ := List.mem_map.1 ha
    have := h.fresh p hp
    omega
  · intro p hp
    simp only [List.mem_append, List.mem_singleton] at hp
    rcases hp with hp | rfl
    · rcases h.orphan p hp with h1 | h2
      · exact .inl h1
      · exact .inr (List.mem_cons_of_mem _ h2)
    · right; simp
  · exact h.depth
  · exact h.snap
  · exact h.pending
  · exact h.created

theorem fstore_PI {s s1 : Cache} {E : Externals} {v : PyVal} {read : Bool} {c : Cols}
    {cl : List (Option Nat)} (hs : s.store E v read = .ok (s1, c)) (h : PI (fcore s) cl) :
    PI (fcore s1) (c.file :: cl) ∧
    (∀ g, c.file = some g → ∃ ct, (g, ct) ∈ s1.files ∧ ct.size = c.size) := by
  unfold store at hs
  split at hs
  · cases hs
  · cases hs
    exact ⟨h.cl_congr (by simp), by simp⟩
  · rename_i mode ct _
    cases hs
    refine ⟨?_, ?_⟩
    · exact h.fwrite' ct
    · intro g hg
      simp only [Option.some.injEq] at hg
      subst hg
      exact ⟨ct, by simp, rfl⟩

/-! ### the four bookkeeping fields are left alone by every statement -/

structure Q4 (a x : Cache) : Prop where
  depth : x.depth = a.depth
  snap : x.snap = a.snap
  pending : x.pending = a.pending
  created : x.created = a.created
  files : x.files = a.files
  nfile : x.nfile = a.nfile

theorem Q4.refl (s : Cache) : Q4 s s := ⟨rfl, rfl, rfl, rfl, rfl, rfl⟩

theorem Q4.same {a x y : Cache} (h : Q4 a x) (h1 : y.depth = x.depth) (h2 : y.snap = x.snap)
    (h3 : y.pending = x.pending) (h4 : y.created = x.created) (h5 : y.files = x.files := by rfl)
    (h6 : y.nfile = x.nfile := by rfl) : Q4 a y :=
  ⟨h1.trans h.depth, h2.trans h.snap, h3.trans h.pending, h4.trans h.created, h5.trans h.files,
    h6.trans h.nfile⟩

theorem Q4.core {a x y : Cache} (h : Q4 a x) (R : List Row)
    (hc : DC.Cache.core y = { DC.Cache.core x with rows := R }) : Q4 a y := by
  simp only [DC.Cache.core, Core.mk.injEq] at hc
  obtain ⟨-, hf, hn, hd, hs, hp, hcr, -, -⟩ := hc
  exact h.same hd hs hp hcr hf hn

theorem Q4.core' {a x y : Cache} (h : Q4 a x) (hc : DC.Cache.core y = DC.Cache.core x) : Q4 a y :=
  h.core x.rows (by rw [hc]; rfl)

theorem Q4.log {a x : Cache} (h : Q4 a x) (act : Act) : Q4 a (x.log act) := h.same rfl rfl rfl rfl
theorem Q4.logSql {a x : Cache} (h : Q4 a x) (id : String) : Q4 a (x.logSql id) := h.same rfl rfl rfl rfl
theorem Q4.setMisses {a x : Cache} (h : Q4 a x) (m : Int) : Q4 a { x with misses := m } := h.same rfl rfl rfl rfl
theorem Q4.setHits {a x : Cache} (h : Q4 a x) (m : Int) : Q4 a { x with hits := m } := h.same rfl rfl rfl rfl
theorem Q4.fetchRow {a x : Cache} (h : Q4 a x) (E : Externals) (r : Row) (read : Bool) :
    Q4 a (x.fetchRow E r read).1 := h.core' (core_fetchRow x E r read)
theorem Q4.volume {a x : Cache} (h : Q4 a x) : Q4 a x.volume.1 := h.core' (core_volume x)
theorem Q4.insRow {a x : Cache} (h : Q4 a x) (k : SqlVal) (raw : Bool) (now : Int) (c : Cols) :
    Q4 a (x.insRow k raw now c) := h.same rfl rfl rfl rfl
theorem Q4.updRow {a x : Cache} (h : Q4 a x) (rowid : Nat) (now : Int) (c : Cols) :
    Q4 a (x.updRow rowid now c) := h.same rfl rfl rfl rfl
theorem Q4.updExp {a x : Cache} (h : Q4 a x) (rowid : Nat) (e : Option Int) :
    Q4 a (x.updExp rowid e) := h.same rfl rfl rfl rfl
theorem Q4.updGet {a x : Cache} (h : Q4 a x) (rowid : Nat) (now : Int) :
    Q4 a (x.updGet rowid now) := h.same rfl rfl rfl rfl
theorem Q4.updIncr {a x : Cache} (h : Q4 a x) (rowid : Nat) (now : Int) (v : SqlVal) :
    Q4 a (x.updIncr rowid now v) := h.same rfl rfl rfl rfl
theorem Q4.delRowQuiet {a x : Cache} (h : Q4 a x) (rowid : Nat) : Q4 a (x.delRowQuiet rowid) :=
  h.core _ (core_delRowQuiet x rowid)
theorem Q4.delRow {a x : Cache} (h : Q4 a x) (rowid : Nat) : Q4 a (x.delRow rowid) :=
  h.core _ (core_delRow x rowid)
theorem Q4.delIn {a x : Cache} (h : Q4 a x) (ids : List Nat) : Q4 a (x.delIn ids) :=
  h.core _ (core_delIn ids x)
theorem Q4.cullW {a x : Cache} (h : Q4 a x) (now : Int) : Q4 a (x.cullW now).1 :=
  h.core _ (cullW_core x now).1

/-- `Disk.store` keeps the bookkeeping fields; the only new file is the one it reports -/
theorem store_fields {x x' : Cache} {E : Externals} {v : PyVal} {read : Bool} {c : Cols}
    (hst : x.store E v read = .ok (x', c)) :
    x'.depth = x.depth ∧ x'.snap = x.snap ∧ x'.pending = x.pending ∧ x'.created = x.created ∧
    (∀ p ∈ x'.files, p ∈ x.files ∨ c.file = some p.1) ∧
    x.nfile ≤ x'.nfile ∧ (∀ g, c.file = some g → x.nfile ≤ g) := by
  unfold DC.Cache.store at hst
  split at hst
  · cases hst
  · cases hst; exact ⟨rfl, rfl, rfl, rfl, fun p hp => .inl hp, Nat.le_refl _, by intro g hg; cases hg⟩
  · cases hst
    refine ⟨rfl, rfl, rfl, rfl, ?_, Nat.le_succ _, by intro g hg; cases hg; exact Nat.le_refl _⟩
    intro p hp
    have hp : p ∈ x.files ++ [(x.nfile, _)] := hp
    rcases List.mem_append.1 hp with hp | hp
    · exact .inl hp
    · simp only [List.mem_singleton] at hp
      subst hp
      exact .inr rfl

macro "q4_auto" : tactic => `(tactic| repeat' first
    | assumption
    | contradiction
    | with_reducible apply Q4.logSql
    | with_reducible apply Q4.log
    | with_reducible apply Q4.delIn
    | with_reducible apply Q4.volume
    | with_reducible apply Q4.cullW
    | with_reducible apply Q4.insRow
    | with_reducible apply Q4.updRow
    | with_reducible apply Q4.updExp
    | with_reducible apply Q4.updGet
    | with_reducible apply Q4.updIncr
    | with_reducible apply Q4.delRow
    | with_reducible apply Q4.delRowQuiet
    | with_reducible apply Q4.fetchRow
    | split)

/-! ### the invariant inside a block -/

/-- every file of the cleanup list is pending removal or was created in this block; and every
file pending removal is in the cleanup list and has a number already given out (so the next file
written cannot be one of them) -/
structure Sub (cl : List (Option Nat)) (x : Cache) : Prop where
  inn : ∀ f, some f ∈ cl → some f ∈ x.pending ∨ f ∈ x.created
  pend : ∀ f, some f ∈ x.pending → some f ∈ cl ∧ f < x.nfile

/-- inside a block: the files are consistent once those of some list `cl` are removed -/
def BI (x : Cache) : Prop := ∃ cl, PI (fcore x) cl ∧ Sub cl x

theorem Sub.of_eq {cl : List (Option Nat)} {a x : Cache} (h : Sub cl a) (hp : x.pending = a.pending)
    (hc : x.created = a.created) (hn : x.nfile = a.nfile := by rfl) : Sub cl x := by
  constructor
  · intro f hf; rw [hp, hc]; exact h.inn f hf
  · intro f hf; rw [hp] at hf; rw [hn]; exact h.pend f hf

theorem Sub.q4 {cl : List (Option Nat)} {a x : Cache} (h : Sub cl a) (hq : Q4 a x) : Sub cl x :=
  h.of_eq hq.pending hq.created hq.nfile

/-- the cleanup list after the file written for this call has been attached to its row -/
def dropFile (cl : List (Option Nat)) (f : Option Nat) : List (Option Nat) := cl.filter (· != f)

theorem mem_dropFile {cl : List (Option Nat)} {f g : Option Nat} : g ∈ dropFile cl f ↔ g ∈ cl ∧ g ≠ f := by
  simp [dropFile]

/-- a file written after `x` (its number is not below `x.nfile`) can be dropped from the list -/
theorem Sub.dropGrow {cl : List (Option Nat)} {x y : Cache} (h : Sub cl x) (hp : y.pending = x.pending)
    (hc : ∀ f ∈ x.created, f ∈ y.created) (hn : x.nfile ≤ y.nfile) (o : Option Nat)
    (ho : ∀ g, o = some g → x.nfile ≤ g) : Sub (dropFile cl o) y := by
  constructor
  · intro f hf
    rcases h.inn f (mem_dropFile.1 hf).1 with h1 | h1
    · exact .inl (hp ▸ h1)
    · exact .inr (hc f h1)
  · intro f hf
    rw [hp] at hf
    obtain ⟨h1, h2⟩ := h.pend f hf
    refine ⟨mem_dropFile.2 ⟨h1, ?_⟩, Nat.lt_of_lt_of_le h2 hn⟩
    intro e
    have := ho f e.symm
    omega

/-- a row's file has a number already given out -/
theorem PI.ref_lt {c : Core} {cl : List (Option Nat)} (h : PI c cl) {r : Row} (hr : r ∈ c.rows) {f : Nat}
    (hf : r.file = some f) : f < c.nfile := by
  obtain ⟨-, ct, h1, -⟩ := h.ref r hr f hf
  exact h.fresh _ h1

theorem cullTail_snd_mem (t : Cache) (cl : List (Option Nat)) (n : Nat) :
    ∀ o ∈ (cullTail t cl n).2, o ∈ cl ∨ ∃ r ∈ t.rows, r.file = o := by
  unfold cullTail
  intro o ho
  split at ho
  · exact .inl ho
  split at ho
  · exact .inl ho
  simp only at ho
  split at ho
  · exact .inl ho
  split at ho
  · exact .inl ho
  · rcases List.mem_append.1 ho with h | h
    · exact .inl h
    · obtain ⟨r, hr, rfl⟩ := List.mem_map.1 h
      have := selPolicy_mem hr
      exact .inr ⟨r, by simpa using this, rfl⟩

/-- the files `_cull` hands to cleanup are files of rows of the table it was given -/
theorem cullW_snd_mem (s : Cache) (now : Int) : ∀ o ∈ (s.cullW now).2, ∃ r ∈ s.rows, r.file = o := by
  by_cases h0 : s.cfg.cullLimit = 0
  · have h1 : s.cullW now = (s, []) := by unfold cullW; simp [h0]
    rw [h1]; intro o ho; cases ho
  · rw [cullW_eq s now h0]
    intro o ho
    split at ho
    · rcases cullTail_snd_mem _ _ _ o ho with h | ⟨r, hr, e⟩
      · cases h
      · exact ⟨r, by simpa using hr, e⟩
    · rcases cullTail_snd_mem _ _ _ o ho with h | ⟨r, hr, e⟩
      · obtain ⟨r, hr, rfl⟩ := List.mem_map.1 h
        exact ⟨r, (selExpired_mem hr).1, rfl⟩
      · simp only [logSql_rows, delIn_rows] at hr
        exact ⟨r, (List.mem_filter.1 hr).1, e⟩

theorem fcullW_lt (s : Cache) (now : Int) {cl : List (Option Nat)} (h : PI (fcore s) cl) :
    ∀ f, some f ∈ (s.cullW now).2 → f < s.nfile := by
  intro f hf
  obtain ⟨r, hr, e⟩ := cullW_snd_mem s now _ hf
  exact h.ref_lt (c := fcore s) hr e

/-- the files of `y` are files of `x` or were registered as created; nothing registered is
forgotten -/
structure Grow (x y : Cache) : Prop where
  files : ∀ p ∈ y.files, p ∈ x.files ∨ p.1 ∈ y.created
  created : ∀ f ∈ x.created, f ∈ y.created

theorem Grow.refl (x : Cache) : Grow x x := ⟨fun _ hp => .inl hp, fun _ hf => hf⟩

theorem Grow.trans {x y z : Cache} (h1 : Grow x y) (h2 : Grow y z) : Grow x z := by
  refine ⟨?_, fun f hf => h2.created f (h1.created f hf)⟩
  intro p hp
  rcases h2.files p hp with h | h
  · rcases h1.files p h with h' | h'
    · exact .inl h'
    · exact .inr (h2.created _ h')
  · exact .inr h

theorem Grow.of_eq {x y : Cache} (hf : y.files = x.files) (hc : y.created = x.created) : Grow x y :=
  ⟨fun _ hp => .inl (hf ▸ hp), fun _ h => hc ▸ h⟩

theorem Grow.of_core {x y : Cache} (hc : DC.Cache.core y = DC.Cache.core x) : Grow x y := by
  have := (Q4.refl x).core' hc
  exact Grow.of_eq this.files this.created

theorem BI.of_core {x y : Cache} (h : BI x) (hc : DC.Cache.core y = DC.Cache.core x) : BI y := by
  obtain ⟨cl, h1, h2⟩ := h
  refine ⟨cl, by rw [fcore_of_core hc]; exact h1, h2.q4 ((Q4.refl x).core' hc)⟩

/-- the state in which the body of a nested transaction runs: the file written for it is
registered -/
def reg (x : Cache) (fresh : Option Nat) : Cache :=
  match fresh with
  | some f => { x with created := x.created ++ [f] }
  | none => x

theorem transact_inblock (x : Cache) (hd : 0 < x.depth) (body : Cache → Body) (fresh : Option Nat) :
    x.transact body fresh =
      if (body (reg x fresh)).ok then
        ({ (body (reg x fresh)).s with pending := (body (reg x fresh)).s.pending ++ (body (reg x fresh)).cleanup },
          (body (reg x fresh)).out)
      else ((body (reg x fresh)).s, (body (reg x fresh)).out) := by
  unfold transact reg
  simp only [gt_iff_lt, hd, if_true]
  cases fresh <;> rfl

/-- a transaction inside a block: its body runs, its cleanup list is appended to `pending` -/
theorem transact_BI (x : Cache) (hd : 0 < x.depth) (body : Cache → Body) (fresh : Option Nat)
    (hq : Q4 (reg x fresh) (body (reg x fresh)).s)
    (hb : ((body (reg x fresh)).ok = true ∧
            ∃ cl, PI (fcore (body (reg x fresh)).s) ((body (reg x fresh)).cleanup ++ cl) ∧ Sub cl (reg x fresh) ∧
              ∀ f, some f ∈ (body (reg x fresh)).cleanup → f < (reg x fresh).nfile) ∨
          ((body (reg x fresh)).ok = false ∧
            ∃ cl, PI (fcore (body (reg x fresh)).s) cl ∧ Sub cl (reg x fresh))) :
    BI (x.transact body fresh).1 := by
  rw [transact_inblock x hd]
  rcases hb with ⟨hok, cl, h1, h2, h4⟩ | ⟨hok, cl, h1, h2⟩
  · rw [if_pos hok]
    have h2' := h2.q4 hq
    refine ⟨(body (reg x fresh)).cleanup ++ cl, h1, ?_, ?_⟩
    · intro f hf
      rcases List.mem_append.1 hf with hf | hf
      · exact .inl (List.mem_append_right _ hf)
      · rcases h2'.inn f hf with h3 | h3
        · exact .inl (List.mem_append_left _ h3)
        · exact .inr h3
    · intro f hf
      rcases List.mem_append.1 hf with hf | hf
      · exact ⟨List.mem_append_right _ (h2'.pend f hf).1, (h2'.pend f hf).2⟩
      · exact ⟨List.mem_append_left _ hf, by show f < (body (reg x fresh)).s.nfile; rw [hq.nfile]; exact h4 f hf⟩
  · rw [if_neg (by simp [hok])]
    exact ⟨cl, h1, h2.q4 hq⟩

theorem transact_inblock_fcore (x : Cache) (hd : 0 < x.depth) (body : Cache → Body) (fresh : Option Nat) :
    fcore (x.transact body fresh).1 = fcore (body (reg x fresh)).s := by
  rw [transact_inblock x hd]
  split <;> rfl

theorem reg_q4 (x : Cache) (fresh : Option Nat) :
    (reg x fresh).depth = x.depth ∧ (reg x fresh).snap = x.snap ∧ (reg x fresh).pending = x.pending := by
  cases fresh <;> exact ⟨rfl, rfl, rfl⟩

theorem transact_inblock_q4 (x : Cache) (hd : 0 < x.depth) (body : Cache → Body) (fresh : Option Nat)
    (hq : Q4 (reg x fresh) (body (reg x fresh)).s) :
    (x.transact body fresh).1.depth = x.depth ∧ (x.transact body fresh).1.snap = x.snap ∧
    (x.transact body fresh).1.created = (reg x fresh).created ∧
    (x.transact body fresh).1.pending =
      x.pending ++ (if (body (reg x fresh)).ok then (body (reg x fresh)).cleanup else []) ∧
    (x.transact body fresh).1.files = x.files ∧ (x.transact body fresh).1.nfile = x.nfile := by
  obtain ⟨r1, r2, r3⟩ := reg_q4 x fresh
  have r4 : (reg x fresh).files = x.files := by cases fresh <;> rfl
  have r5 : (reg x fresh).nfile = x.nfile := by cases fresh <;> rfl
  rw [transact_inblock x hd]
  split
  · exact ⟨hq.depth.trans r1, hq.snap.trans r2, hq.created, by show _ ++ _ = _; rw [hq.pending, r3],
      hq.files.trans r4, hq.nfile.trans r5⟩
  · exact ⟨hq.depth.trans r1, hq.snap.trans r2, hq.created, by rw [hq.pending, r3]; simp, hq.files.trans r4,
      hq.nfile.trans r5⟩

/-- a transaction inside a block whose body leaves files and bookkeeping alone -/
theorem transact_grow (x : Cache) (hd : 0 < x.depth) (body : Cache → Body) (fresh : Option Nat)
    (hq : Q4 (reg x fresh) (body (reg x fresh)).s) : Grow (reg x fresh) (x.transact body fresh).1 := by
  obtain ⟨-, -, h3, -, h5, -⟩ := transact_inblock_q4 x hd body fresh hq
  have r4 : (reg x fresh).files = x.files := by cases fresh <;> rfl
  exact Grow.of_eq (h5.trans r4.symm) h3

/-- the same for a transaction without a file of its own -/
theorem transact_BI' (x : Cache) (hd : 0 < x.depth) (body : Cache → Body)
    (hq : Q4 x (body x).s)
    (hb : ((body x).ok = true ∧ ∃ cl, PI (fcore (body x).s) ((body x).cleanup ++ cl) ∧ Sub cl x ∧
            ∀ f, some f ∈ (body x).cleanup → f < x.nfile) ∨
          ((body x).ok = false ∧ ∃ cl, PI (fcore (body x).s) cl ∧ Sub cl x)) :
    BI (x.transact body).1 := transact_BI x hd body none hq hb

/-- the same with the side condition stated on the state the body leaves -/
theorem transact_BI_s (x : Cache) (hd : 0 < x.depth) (body : Cache → Body)
    (hb : ((body x).ok = true ∧ ∃ cl, PI (fcore (body x).s) ((body x).cleanup ++ cl) ∧ Sub cl (body x).s ∧
            ∀ f, some f ∈ (body x).cleanup → f < (body x).s.nfile) ∨
          ((body x).ok = false ∧ ∃ cl, PI (fcore (body x).s) cl ∧ Sub cl (body x).s)) :
    BI (x.transact body).1 := by
  rw [transact_inblock x hd]
  change BI (if (body x).ok then ({ (body x).s with pending := (body x).s.pending ++ (body x).cleanup }, (body x).out)
    else ((body x).s, (body x).out) : Cache × Out).1
  rcases hb with ⟨hok, cl, h1, h2, h4⟩ | ⟨hok, cl, h1, h2⟩
  · rw [if_pos hok]
    refine ⟨(body x).cleanup ++ cl, h1, ?_, ?_⟩
    · intro f hf
      rcases List.mem_append.1 hf with hf | hf
      · exact .inl (List.mem_append_right _ hf)
      · rcases h2.inn f hf with h3 | h3
        · exact .inl (List.mem_append_left _ h3)
        · exact .inr h3
    · intro f hf
      rcases List.mem_append.1 hf with hf | hf
      · exact ⟨List.mem_append_right _ (h2.pend f hf).1, (h2.pend f hf).2⟩
      · exact ⟨List.mem_append_left _ hf, h4 f hf⟩
  · rw [if_neg (by simp [hok])]
    exact ⟨cl, h1, h2⟩

theorem regCreated_pos (s : Cache) (f : Nat) (hd : 0 < s.depth) :
    s.regCreated (some f) = { s with created := s.created ++ [f] } := by
  unfold regCreated; simp [hd]

@[simp] theorem fcore_regCreated (s : Cache) (f : Option Nat) : fcore (s.regCreated f) = fcore s := by
  rcases regCreated_cases s f with h | ⟨g, -, -, h⟩ <;> rw [h] <;> rfl

theorem Sub.grow {cl : List (Option Nat)} {a x : Cache} (h : Sub cl a) (hp : x.pending = a.pending)
    (hc : ∀ f ∈ a.created, f ∈ x.created) (hn : a.nfile ≤ x.nfile) : Sub cl x := by
  constructor
  · intro f hf
    rcases h.inn f hf with h1 | h1
    · exact .inl (hp ▸ h1)
    · exact .inr (hc f h1)
  · intro f hf
    rw [hp] at hf
    exact ⟨(h.pend f hf).1, Nat.lt_of_lt_of_le (h.pend f hf).2 hn⟩

theorem Sub.reg_none {cl : List (Option Nat)} {x : Cache} (h : Sub cl x) : Sub cl (reg x none) := h

theorem Sub.reg {cl : List (Option Nat)} {x : Cache} (h : Sub cl x) (fresh : Option Nat) :
    Sub (fresh :: cl) (reg x fresh) := by
  have hp : (DC.Cache.reg x fresh).pending = x.pending := by cases fresh <;> rfl
  have hn : (DC.Cache.reg x fresh).nfile = x.nfile := by cases fresh <;> rfl
  constructor
  · intro f hf
    cases fresh with
    | none =>
      simp only [List.mem_cons, reduceCtorEq, false_or] at hf
      exact h.inn f hf
    | some g =>
      simp only [List.mem_cons, Option.some.injEq] at hf
      rcases hf with rfl | hf
      · exact .inr (by simp [DC.Cache.reg])
      · rcases h.inn f hf with h1 | h1
        · exact .inl h1
        · exact .inr (by simp [DC.Cache.reg, h1])
  · intro f hf
    rw [hp] at hf
    rw [hn]
    exact ⟨List.mem_cons_of_mem _ (h.pend f hf).1, (h.pend f hf).2⟩

theorem fcore_reg (x : Cache) (fresh : Option Nat) : fcore (reg x fresh) = fcore x := by
  cases fresh <;> rfl

end DC.Cache
