/-
Helper lemmas for C13_Lossy: the generic per-call theorems of C13_Refine (`keyed_frefines`,
`each_frefines`) redone for a Cache call that may evict (`Cache.Lossy`).

The per-shard theorem (`Cache.step_refines_lossy`) yields the evicted rows under an
existential, so it is applied ONCE per shard, to one local dictionary: the dictionary the
shard denotes (`frf_abs`), overwritten at the call's key by what the global dictionary binds.
Keys of the same shard other than the call's key are then related to the global dictionary
through transitivity of `rf_VRel`.
-/
import DC.Proofs.FLossyDefs

namespace DC.Cache
open DC.Spec

theorem rf_VRel_trans {a b c : Option Entry} {now : Int} (h1 : rf_VRel a b now) (h2 : rf_VRel b c now) :
    rf_VRel a c now := by
  cases c with
  | none =>
    have hb : b = none := h2
    subst hb
    exact h1
  | some e =>
    rcases h2 with h2 | ⟨h2, hx⟩
    · subst h2; exact h1
    · subst h2
      have ha : a = none := h1
      exact .inr ⟨ha, hx⟩

/-- a row of a table is found under its own key -/
theorem flz_view_row {c : Cache} {r : Row} (hr : r ∈ c.rows) (hnn : r.key ≠ .null) :
    rf_view c (rowKey r) ≠ none := by
  unfold rf_view rf_look
  intro h
  rw [Option.map_eq_none_iff, List.find?_eq_none] at h
  exact h r hr (rf_keyMatch_self hnn)

/-- a key under which a table holds something is the key of one of its rows -/
theorem flz_row_of_view {c : Cache} {k : Key} (h : rf_view c k ≠ none) :
    ∃ r ∈ c.rows, sameKey (rowKey r) k = true := by
  unfold rf_view rf_look at h
  cases hf : c.rows.find? (keyMatch k.1 k.2) with
  | none => rw [hf] at h; exact absurd rfl h
  | some r =>
    have hk : keyMatch k.1 k.2 r = true := List.find?_some hf
    exact ⟨r, List.mem_of_find?_eq_some hf, hk⟩

theorem flz_VRel_ne_none {v d : Option Entry} {now : Int} (h : rf_VRel v d now) (hv : v ≠ none) :
    d ≠ none := by
  intro hd
  subst hd
  exact hv h

theorem flz_dropKeys_ne_none {m : Dict} {ks : List Key} {k : Key} (h : (dropKeys m ks).get k ≠ none) :
    m.get k ≠ none ∧ ks.any (fun l => sameKey l k) = false := by
  rw [rf_get_dropKeys] at h
  cases ha : ks.any (fun l => sameKey l k) with
  | true => rw [ha] at h; exact absurd rfl h
  | false => rw [ha] at h; exact ⟨h, rfl⟩

/-- the local dictionary of a shard for a call at key `K` -/
def flz_local (c : Cache) (m : Dict) (K : Key) : Dict := frf_localDict c m K K

theorem flz_local_get (c : Cache) (m : Dict) (K k' : Key) :
    (flz_local c m K).get k' = if sameKey K k' then m.get K else rf_view c k' := by
  unfold flz_local
  rw [frf_localDict_get]
  split <;> rfl

theorem flz_local_at_K (c : Cache) (m : Dict) (K : Key) : (flz_local c m K).get K = m.get K :=
  frf_localDict_at_K c m K K

theorem flz_local_refines (c : Cache) (m : Dict) (K : Key) (clock : Int) (hu : KeysUnique c.rows)
    (hK : rf_VRel (rf_view c K) (m.get K) clock) : Refines c (flz_local c m K) clock :=
  frf_localDict_refines c m K K clock hu hK hK

/-- the new binding of a key after a local call, on the local and on the global dictionary -/
theorem flz_local_step_get {sop : Dict → Dict × Out} {K : Key} (h : frf_Local sop K) (m1 m : Dict)
    (hK : m1.get K = m.get K) (k : Key) :
    (sameKey K k = true ∧ (sop m1).1.get k = (sop m).1.get k) ∨
    (sameKey K k = false ∧ (sop m1).1.get k = m1.get k ∧ (sop m).1.get k = m.get k) := by
  cases hs : sameKey K k with
  | true =>
    refine .inl ⟨rfl, ?_⟩
    obtain ⟨D, hD⟩ := h
    rw [hD m1, hD m, frf_apply_get, frf_apply_get, hs, hK]
    rfl
  | false =>
    exact .inr ⟨rfl, frf_local_frame h m1 k hs, frf_local_frame h m k hs⟩

/-! ### bulk removals: pointwise and monotone -/

/-- `sop` maps the binding of every key by `P`; `P` maps nothing to nothing and respects the
relation between what a cache holds and what the dictionary holds -/
def flz_Pointwise (sop : Dict → Dict × Out) (now : Int) : Prop :=
  ∃ P : Option Entry → Option Entry,
    (∀ m : Dict, m.WF → (sop m).1.WF ∧ ∀ k, (sop m).1.get k = P (m.get k)) ∧
    P none = none ∧ ∀ a d, rf_VRel a d now → rf_VRel (P a) (P d) now

theorem flz_clear_pointwise (now : Int) : flz_Pointwise Spec.clear now :=
  ⟨fun _ => none, fun _ _ => ⟨rf_wf_nil, fun _ => rfl⟩, rfl, fun _ _ _ => rfl⟩

theorem flz_filter_pointwise (p : Entry → Bool) (now : Int) :
    flz_Pointwise (fun m => (m.filter (fun x => p x.2), Out.none)) now :=
  ⟨fun d => d.filter p, fun _ hw => ⟨rf_wf_filter hw _, fun k => rf_get_filter hw p k⟩, rfl,
    fun _ _ h => rf_VRel_filter p h⟩

theorem flz_step_pointwise (cfg : Cfg) (op : Op) (now : Int) (h : frf_isBulk op = true) :
    flz_Pointwise (fun m => Spec.step m cfg op) now := by
  cases op <;> simp only [frf_isBulk, Bool.false_eq_true] at h
  · exact flz_clear_pointwise now
  · exact flz_filter_pointwise (fun e => !e.tag.eqv _) now
  · exact flz_filter_pointwise (fun e => !e.expired _) now
  · exact flz_filter_pointwise (fun e => !e.expired _) now

end DC.Cache
