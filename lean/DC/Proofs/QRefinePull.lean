/-
Helper lemmas for C10_Refine, part 2: the loops of `pull` and `peek` on a quiescent
state that satisfies `QOk`: expired rows at the addressed end are removed one by
one (each round is a `Shrunk` step), the first live row is returned (and, for
`pull`, removed).
-/
import DC.Proofs.QRefineLemmas

namespace DC.Cache
open DC.Spec DC.QSpec

theorem qhead_eq (s : Cache) (p : Option Str) (front : Bool) :
    qhead s p front = endOf front (s.queueRows p) := rfl

theorem good_pullLoop (E : Externals) (now : Int) (p : Option Str) (front et tg : Bool) (fuel : Nat)
    {s : Cache} (h : Good s) : Good (pullLoop E now p front et tg fuel s).1 :=
  good_of_pi (pullLoop_inv E now p front et tg fuel h.tinv) (pullLoop_PI _ _ _ _ _ _ _ _ h.pi)

theorem good_peekLoop (E : Externals) (now : Int) (p : Option Str) (front et tg : Bool) (fuel : Nat)
    {s : Cache} (h : Good s) : Good (peekLoop E now p front et tg fuel s).1 :=
  good_of_pi (peekLoop_inv E now p front et tg fuel h.tinv) (peekLoop_PI _ _ _ _ _ _ _ _ h.pi)

/-- the row at the addressed end of a queue differs in rowid from every other row -/
theorem qr_other_rowid {s : Cache} (hg : Good s) {r x : Row} (hr : r ∈ s.rows) (hx : x ∈ s.rows)
    (hne : x ≠ r) : (x.rowid != r.rowid) = true := by
  simp only [bne_iff_ne, ne_eq]
  intro e
  exact hne (hg.tinv.tbl.asc.inj x hx r hr e)

/-- one round on an expired end row -/
theorem shrunk_pullDel {s : Cache} (hg : Good s) {E : Externals} {now : Int} {p : Option Str}
    {front : Bool} {r : Row} (hh : qhead s p front = some r) (hx : expired now r = true) :
    Shrunk s (pullDel s r [r.file]) (fun x => x.rowid != r.rowid) := by
  have hgood : Good (pullDel s r [r.file]) := by
    have h1 := good_pullLoop E now p front false false 1 hg
    rw [pullLoop_succ] at h1
    simp only [hh, hx, if_true] at h1
    exact h1
  have hc : core (pullDel s r [r.file]) =
      { core s with rows := s.rows.filter (fun a => ![r.rowid].contains a.rowid),
                    files := s.files.filter (fun q => ![r.file].contains (some q.1)) } := by
    unfold pullDel
    rw [transact_ok_core s (delBody r [r.file]) none hg.depth rfl]
    unfold delBody
    simp only [core_delRow, core_logSql, core_log, core_files]
    rfl
  refine ⟨hgood, pullDel_rows s r _, congrArg Core.cfg hc, ?_⟩
  intro q hq
  have : (pullDel s r [r.file]).files = s.files.filter (fun q => ![r.file].contains (some q.1)) :=
    congrArg Core.files hc
  rw [this] at hq
  exact (List.mem_filter.1 hq).1

/-- one round on a live end row (`pull`) -/
theorem shrunk_pullTake {s : Cache} (hg : Good s) {E : Externals} {now : Int} {p : Option Str}
    {front : Bool} {r : Row} (hh : qhead s p front = some r) (hx : expired now r = false) :
    Shrunk s (pullTake s E r) (fun x => x.rowid != r.rowid) := by
  have hgood : Good (pullTake s E r) := by
    have h1 := good_pullLoop E now p front false false 1 hg
    rw [pullLoop_succ] at h1
    simp only [hh, hx, Bool.false_eq_true, if_false] at h1
    split at h1
    · exact h1
    · exact h1
  have hc := drf_pullTake_zero s E r hg.depth
  refine ⟨hgood, pullTake_rows s E r, congrArg Core.cfg hc, ?_⟩
  intro q hq
  have : (pullTake s E r).files = s.files.filter (fun q => ![r.file].contains (some q.1)) :=
    congrArg Core.files hc
  rw [this] at hq
  exact (List.mem_filter.1 hq).1

/-- the queue without its end row -/
theorem qr_queue_drop {s s' : Cache} (hg : Good s) {p : Option Str} {front : Bool} {r : Row}
    (hh : endOf front (s.queueRows p) = some r)
    (hs : s'.rows = s.rows.filter (·.rowid != r.rowid)) :
    s'.queueRows p = dropEnd front (s.queueRows p) := by
  have hsh := end_shape hh
  cases front with
  | true =>
    simp only [if_true] at hsh
    exact queue_del_head hg.tinv hsh hs
  | false =>
    simp only [Bool.false_eq_true, if_false] at hsh
    exact queue_del_last hg.tinv hsh hs

/-- what a readable queue row reads as -/
theorem qr_fetch {c : Cache} {n : Nat} (hok : QOkL c n) {p : Option Str} {r : Row} (hr : r ∈ c.queueRows p)
    (E : Externals) :
    (c.fetchRow E r false).2 ≠ .ioerror ∧
    fetchedOut (c.fetchRow E r false).2 = (rf_ent c r).out E c.cfg false false false := by
  have hrr : r ∈ c.rows := by rw [queueRows_eq] at hr; exact (mem_qrows.1 hr).1
  obtain ⟨h1, h2⟩ := drf_valueOf c E r (rf_good_ref hok.good hrr) (hok.readable p r hr)
  exact ⟨h1, h2.symm⟩

/-- what `pull` / `peek` return for the row `r` -/
def rowResult (c : Cache) (E : Externals) (et tg : Bool) (r : Row) : Out :=
  withFlags (.tup [.val (column r.key), (rf_ent c r).out E c.cfg false false false]) et tg r.expT r.tag

theorem rowResult_congr {c c' : Cache} (hc : c'.cfg = c.cfg) {r : Row} (he : rf_ent c' r = rf_ent c r)
    (E : Externals) (et tg : Bool) : rowResult c' E et tg r = rowResult c E et tg r := by
  unfold rowResult; rw [he, hc]

/-- **the loop of `pull`** on a state satisfying the invariant -/
theorem qr_pullLoop (E : Externals) (now : Int) (p : Option Str) (front et tg : Bool) (n : Nat) :
    ∀ (k : Nat) (c : Cache) (fuel : Nat), (c.queueRows p).length = k → k < fuel → QOkL c n →
      ∃ f, Shrunk c (pullLoop E now p front et tg fuel c).1 f ∧
        (∀ x ∈ c.rows, x ∉ c.queueRows p → f x = true) ∧
        (pullLoop E now p front et tg fuel c).1.queueRows p =
          (match endOf front (trimBy (expired now) front (c.queueRows p)) with
           | none => trimBy (expired now) front (c.queueRows p)
           | some _ => dropEnd front (trimBy (expired now) front (c.queueRows p))) ∧
        (pullLoop E now p front et tg fuel c).2 =
          (match endOf front (trimBy (expired now) front (c.queueRows p)) with
           | none => defaultFlags et tg
           | some r => rowResult c E et tg r) := by
  intro k
  induction k with
  | zero =>
    intro c fuel hl hf hok
    obtain ⟨fuel, rfl⟩ : ∃ m, fuel = m + 1 := ⟨fuel - 1, by omega⟩
    have hnil : c.queueRows p = [] := List.length_eq_zero_iff.1 hl
    have hh : qhead c p front = none := by rw [qhead_eq, hnil, endOf_nil]
    have hg' := good_pullLoop E now p front et tg (fuel + 1) hok.good
    rw [pullLoop_succ] at hg' ⊢
    simp only [hh] at hg' ⊢
    refine ⟨_, Shrunk.of_core hg' (drf_pullSel_core c hok.good.depth), fun _ _ _ => rfl, ?_, ?_⟩
    · rw [hnil, trimBy_nil, endOf_nil]
      rw [queueRows_eq, (pullSel_spec c).1, ← queueRows_eq, hnil]
    · rw [hnil, trimBy_nil, endOf_nil]
  | succ k ih =>
    intro c fuel hl hf hok
    obtain ⟨fuel, rfl⟩ : ∃ m, fuel = m + 1 := ⟨fuel - 1, by omega⟩
    have hg := hok.good
    cases hh : endOf front (c.queueRows p) with
    | none => rw [endOf_none hh] at hl; cases hl
    | some r =>
      have hrq : r ∈ c.queueRows p := endOf_mem hh
      have hrr : r ∈ c.rows := by rw [queueRows_eq] at hrq; exact (mem_qrows.1 hrq).1
      have hqh : qhead c p front = some r := by rw [qhead_eq]; exact hh
      have hout : ∀ x ∈ c.rows, x ∉ c.queueRows p → (x.rowid != r.rowid) = true :=
        fun x hx hnq => qr_other_rowid hg hrr hx (fun e => hnq (e ▸ hrq))
      rw [pullLoop_succ]
      simp only [hqh]
      rw [trimBy_step (expired now) hh]
      cases hx : expired now r with
      | true =>
        simp only [if_true]
        have hsh := shrunk_pullDel hg (E := E) hqh hx
        have hq1 : (pullDel c r [r.file]).queueRows p = dropEnd front (c.queueRows p) :=
          qr_queue_drop hg hh hsh.rows
        have hok1 := hok.shrunk hsh
        obtain ⟨f1, h1, h2, h3, h4⟩ := ih (pullDel c r [r.file]) fuel
          (by rw [hq1]; have := dropEnd_length hh; omega) (by omega) hok1
        rw [hq1] at h3 h4
        refine ⟨_, hsh.trans h1, ?_, h3, ?_⟩
        · intro x hx' hnq
          have ha := hout x hx' hnq
          simp only [ha, Bool.true_and]
          apply h2 x (by rw [hsh.rows]; exact List.mem_filter.2 ⟨hx', ha⟩)
          intro hc
          exact hnq (hsh.queue_sub hg p x hc)
        · rw [h4]
          split
          · rfl
          · rename_i r' hr'
            have hm : r' ∈ dropEnd front (c.queueRows p) := trimBy_sub _ _ _ _ (endOf_mem hr')
            rw [← hq1, queueRows_eq] at hm
            exact rowResult_congr hsh.cfg (hsh.ent hg r' (mem_qrows.1 hm).1) E et tg
      | false =>
        simp only [Bool.false_eq_true, if_false, hh]
        obtain ⟨hne, hval⟩ := qr_fetch hok hrq E
        have hsh := shrunk_pullTake hg (E := E) hqh hx
        rw [pullDel_fetch c E r]
        split
        · contradiction
        · refine ⟨_, hsh, hout, qr_queue_drop hg hh hsh.rows, ?_⟩
          unfold rowResult
          rw [hval]

/-- **the loop of `peek`** on a state satisfying the invariant -/
theorem qr_peekLoop (E : Externals) (now : Int) (p : Option Str) (front et tg : Bool) (n : Nat) :
    ∀ (k : Nat) (c : Cache) (fuel : Nat), (c.queueRows p).length = k → k < fuel → QOkL c n →
      ∃ f, Shrunk c (peekLoop E now p front et tg fuel c).1 f ∧
        (∀ x ∈ c.rows, x ∉ c.queueRows p → f x = true) ∧
        (peekLoop E now p front et tg fuel c).1.queueRows p = trimBy (expired now) front (c.queueRows p) ∧
        (peekLoop E now p front et tg fuel c).2 =
          (match endOf front (trimBy (expired now) front (c.queueRows p)) with
           | none => defaultFlags et tg
           | some r => rowResult c E et tg r) := by
  intro k
  induction k with
  | zero =>
    intro c fuel hl hf hok
    obtain ⟨fuel, rfl⟩ : ∃ m, fuel = m + 1 := ⟨fuel - 1, by omega⟩
    have hnil : c.queueRows p = [] := List.length_eq_zero_iff.1 hl
    have hh : qhead c p front = none := by rw [qhead_eq, hnil, endOf_nil]
    have hg' := good_peekLoop E now p front et tg (fuel + 1) hok.good
    rw [peekLoop_succ] at hg' ⊢
    simp only [hh] at hg' ⊢
    refine ⟨_, Shrunk.of_core hg' (drf_pullSel_core c hok.good.depth), fun _ _ _ => rfl, ?_, ?_⟩
    · rw [hnil, trimBy_nil]
      rw [queueRows_eq, (pullSel_spec c).1, ← queueRows_eq, hnil]
    · rw [hnil, trimBy_nil, endOf_nil]
  | succ k ih =>
    intro c fuel hl hf hok
    obtain ⟨fuel, rfl⟩ : ∃ m, fuel = m + 1 := ⟨fuel - 1, by omega⟩
    have hg := hok.good
    cases hh : endOf front (c.queueRows p) with
    | none => rw [endOf_none hh] at hl; cases hl
    | some r =>
      have hrq : r ∈ c.queueRows p := endOf_mem hh
      have hrr : r ∈ c.rows := by rw [queueRows_eq] at hrq; exact (mem_qrows.1 hrq).1
      have hqh : qhead c p front = some r := by rw [qhead_eq]; exact hh
      have hout : ∀ x ∈ c.rows, x ∉ c.queueRows p → (x.rowid != r.rowid) = true :=
        fun x hx hnq => qr_other_rowid hg hrr hx (fun e => hnq (e ▸ hrq))
      have hg' := good_peekLoop E now p front et tg (fuel + 1) hg
      rw [peekLoop_succ] at hg' ⊢
      simp only [hqh] at hg' ⊢
      rw [trimBy_step (expired now) hh]
      cases hx : expired now r with
      | true =>
        simp only [if_true]
        have hsh := shrunk_pullDel hg (E := E) hqh hx
        have hq1 : (pullDel c r [r.file]).queueRows p = dropEnd front (c.queueRows p) :=
          qr_queue_drop hg hh hsh.rows
        have hok1 := hok.shrunk hsh
        obtain ⟨f1, h1, h2, h3, h4⟩ := ih (pullDel c r [r.file]) fuel
          (by rw [hq1]; have := dropEnd_length hh; omega) (by omega) hok1
        rw [hq1] at h3 h4
        refine ⟨_, hsh.trans h1, ?_, h3, ?_⟩
        · intro x hx' hnq
          have ha := hout x hx' hnq
          simp only [ha, Bool.true_and]
          apply h2 x (by rw [hsh.rows]; exact List.mem_filter.2 ⟨hx', ha⟩)
          intro hc
          exact hnq (hsh.queue_sub hg p x hc)
        · rw [h4]
          split
          · rfl
          · rename_i r' hr'
            have hm : r' ∈ dropEnd front (c.queueRows p) := trimBy_sub _ _ _ _ (endOf_mem hr')
            rw [← hq1, queueRows_eq] at hm
            exact rowResult_congr hsh.cfg (hsh.ent hg r' (mem_qrows.1 hm).1) E et tg
      | false =>
        simp only [hx, Bool.false_eq_true, if_false, hh] at hg' ⊢
        obtain ⟨hne, hval⟩ := qr_fetch hok hrq E
        rw [pullSel_fetch c E r] at hg' ⊢
        split
        · contradiction
        · rename_i hfe
          have hg2 : Good ((pullSel c).fetchRow E r false).1 := by
            split at hg'
            · contradiction
            · exact hg'
          have hcore : core ((pullSel c).fetchRow E r false).1 = core c := by
            rw [core_fetchRow, drf_pullSel_core c hg.depth]
          refine ⟨_, Shrunk.of_core hg2 hcore, fun _ _ _ => rfl, ?_, ?_⟩
          · rw [queueRows_eq, fetchRow_rows, (pullSel_spec c).1, ← queueRows_eq]
          · unfold rowResult
            rw [hval]

end DC.Cache
