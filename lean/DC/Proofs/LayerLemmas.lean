/- helper lemmas for FanoutCache / DjangoCache / Deque / Index models (C11, C12, C13, C19) -/
import DC.Proofs.Queue
import DC.Model.Layers

namespace DC

end DC
