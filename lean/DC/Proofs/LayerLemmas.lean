/- helper lemmas for FanoutCache / DjangoCache / Deque / Index models (C11, C12, C13, C19) -/
import DC.Proofs.Queue
import DC.Model.Layers
import DC.Properties.C03_Paging

namespace DC

namespace Fanout

theorem onShard_getElem_ne (f : Fanout) (i j : Nat) (op : Cache → Cache × Out) (hj : j ≠ i) :
    (f.onShard i op).1.shards[j]? = f.shards[j]? := by
  unfold onShard
  split
  · rfl
  · simp only
    rw [List.getElem?_set_ne (Ne.symm hj)]

theorem onShard_some (f : Fanout) (i : Nat) (op : Cache → Cache × Out) (s : Cache)
    (hs : f.shards[i]? = some s) :
    (f.onShard i op).2 = (op { s with env := f.env, envMiss := false, trace := [] }).2 ∧
    (f.onShard i op).1.shards[i]? = some (op { s with env := f.env, envMiss := false, trace := [] }).1 := by
  unfold onShard
  rw [hs]
  simp only [true_and]
  have hi : i < f.shards.length := by
    rcases List.getElem?_eq_some_iff.1 hs with ⟨h, _⟩
    exact h
  rw [List.getElem?_set_self hi]

/-- the step of `each` -/
def eachStep (op : Cache → Cache × Out) (acc : Fanout × List Out) (i : Nat) : Fanout × List Out :=
  ((acc.1.onShard i op).1, acc.2 ++ [(acc.1.onShard i op).2])

theorem each_eq (f : Fanout) (op : Cache → Cache × Out) :
    f.each op = (List.range f.shards.length).foldl (eachStep op) (f, []) := rfl

/-- induction principle for `each`: shards are processed in order 0, 1, …, n-1 -/
theorem each_induct (f : Fanout) (op : Cache → Cache × Out) (P : Nat → Fanout × List Out → Prop)
    (h0 : P 0 (f, []))
    (hstep : ∀ k acc, k < f.shards.length → P k acc → P (k + 1) (eachStep op acc k)) :
    P f.shards.length (f.each op) := by
  rw [each_eq]
  have : ∀ k, k ≤ f.shards.length → P k ((List.range k).foldl (eachStep op) (f, [])) := by
    intro k
    induction k with
    | zero => intro _; exact h0
    | succ k ih =>
      intro hk
      rw [List.range_succ, List.foldl_append]
      exact hstep k _ (by omega) (ih (by omega))
  exact this _ (Nat.le_refl _)

theorem sumInts_aux (l : List Int) (a : Int) :
    (l.map Out.int).foldl (fun acc o => match o with | .int i => acc + i | _ => acc) a = a + l.sum := by
  induction l generalizing a with
  | nil => simp
  | cons x t ih => simp only [List.map_cons, List.foldl_cons, List.sum_cons, ih]; omega

theorem sumInts_ints (l : List Int) : sumInts (l.map Out.int) = .int l.sum := by
  unfold sumInts
  exact congrArg Out.int ((sumInts_aux l 0).trans (Int.zero_add _))

theorem each_len (f : Fanout) :
    (f.each (fun s => s.len)).2 = (f.shards.map (·.count)).map Out.int := by
  have h := each_induct f (fun s => s.len)
    (fun k acc => (∀ j : Nat, (acc.1.shards[j]?).map Cache.count = (f.shards[j]?).map Cache.count) ∧
      acc.2 = ((f.shards.take k).map Cache.count).map Out.int)
    ⟨fun _ => rfl, rfl⟩ ?_
  · rw [h.2, List.take_length]
  · intro k acc hk ⟨h1, h2⟩
    have hk1 := h1 k
    rw [List.getElem?_eq_getElem hk] at hk1
    cases hs : acc.1.shards[k]? with
    | none => rw [hs] at hk1; simp at hk1
    | some s =>
      rw [hs] at hk1
      simp only [Option.map_some, Option.some.injEq] at hk1
      obtain ⟨ho, hsh⟩ := onShard_some acc.1 k (fun s => s.len) s hs
      refine ⟨?_, ?_⟩
      · intro j
        by_cases hj : j = k
        · subst hj
          show Option.map _ (acc.1.onShard j _).1.shards[j]? = _
          rw [hsh, List.getElem?_eq_getElem hk]
          simp only [Option.map_some, Option.some.injEq]
          exact hk1
        · show Option.map _ (acc.1.onShard k _).1.shards[j]? = _
          rw [onShard_getElem_ne _ _ _ _ hj]; exact h1 j
      · show acc.2 ++ [(acc.1.onShard k _).2] = _
        rw [ho, h2, List.take_succ_eq_append_getElem hk]
        simp only [List.map_append, List.map_cons, List.map_nil]
        congr 2
        show Out.int s.count = _
        rw [hk1]

end Fanout

namespace Django

theorem intDigits_eq (n : Nat) : intDigits n = (Nat.toDigits 10 n).map Char.toNat := by
  simp [intDigits]

theorem intDigits_range (n : Nat) : ∀ c ∈ intDigits n, 48 ≤ c ∧ c ≤ 57 := by
  intro c hc
  rw [intDigits_eq, List.mem_map] at hc
  obtain ⟨ch, hch, rfl⟩ := hc
  have := Nat.isDigit_of_mem_toDigits (by decide) (by decide) hch
  simp only [Char.isDigit, Bool.and_eq_true, decide_eq_true_eq] at this
  have h1 : (48 : UInt32).toNat ≤ ch.val.toNat := UInt32.le_iff_toNat_le.1 this.1
  have h2 : ch.val.toNat ≤ (57 : UInt32).toNat := UInt32.le_iff_toNat_le.1 this.2
  exact ⟨h1, h2⟩

theorem intDigits_ne_nil (n : Nat) : intDigits n ≠ [] := by
  rw [intDigits_eq]; simp

theorem intDigits_inj (m n : Nat) (h : intDigits m = intDigits n) : m = n := by
  rw [intDigits_eq, intDigits_eq] at h
  have h' : Nat.toDigits 10 m = Nat.toDigits 10 n := by
    exact (List.map_inj_right (fun a b hab => Char.toNat_inj.1 hab)).1 h
  have := congrArg (fun l => Nat.ofDigitChars 10 l 0) h'
  simpa [Nat.ofDigitChars_toDigits] using this

theorem split_at_sep (sep : Nat) : ∀ (a b k₁ k₂ : List Nat), sep ∉ a → sep ∉ b →
    a ++ sep :: k₁ = b ++ sep :: k₂ → a = b ∧ k₁ = k₂ := by
  intro a
  induction a with
  | nil =>
    intro b k₁ k₂ _ hb h
    cases b with
    | nil => simpa using h
    | cons x t =>
      simp only [List.nil_append, List.cons_append, List.cons.injEq] at h
      exact absurd (h.1 ▸ List.mem_cons_self) hb
  | cons x t ih =>
    intro b k₁ k₂ ha hb h
    cases b with
    | nil =>
      simp only [List.nil_append, List.cons_append, List.cons.injEq] at h
      exact absurd (h.1 ▸ List.mem_cons_self) ha
    | cons y u =>
      simp only [List.cons_append, List.cons.injEq] at h
      have := ih u k₁ k₂ (fun hm => ha (List.mem_cons_of_mem _ hm))
        (fun hm => hb (List.mem_cons_of_mem _ hm)) h.2
      exact ⟨by rw [h.1, this.1], this.2⟩

/-- the rendered version number -/
def verStr (v : Int) : Str := if v < 0 then 45 :: intDigits (-v).toNat else intDigits v.toNat

theorem verStr_no_sep (v : Int) : 58 ∉ verStr v := by
  unfold verStr
  intro h
  split at h
  · rcases List.mem_cons.1 h with h | h
    · omega
    · have := intDigits_range _ _ h; omega
  · have := intDigits_range _ _ h; omega

theorem verStr_inj (v w : Int) (h : verStr v = verStr w) : v = w := by
  unfold verStr at h
  have hne : ∀ n l, 45 :: l ≠ intDigits n := by
    intro n l he
    have := intDigits_range n 45 (he ▸ List.mem_cons_self)
    omega
  split at h <;> split at h
  · have := intDigits_inj _ _ (List.cons.inj h).2
    omega
  · exact absurd h (hne _ _)
  · exact absurd h.symm (hne _ _)
  · have := intDigits_inj _ _ h
    omega

theorem makeKey_eq (d : Django) (k : Str) (v : Option Int) :
    d.makeKey k v = .str ((d.keyPrefix ++ [58]) ++ (verStr (v.getD d.version) ++ 58 :: k)) := by
  simp [makeKey, verStr]

/-- `incr` with `default=None` on a shard (outside a transaction block) in which every row
matching the key is expired raises KeyError -/
theorem cache_incr_dead (s : Cache) (E : Externals) (now : Int) (k : PyVal) (delta : Int)
    (hdead : ∀ r ∈ s.rows, Cache.keyMatch (put E s.cfg.disk k).1 (put E s.cfg.disk k).2 r = true →
      Cache.expired now r = true) (hdepth : s.depth = 0) :
    (s.incr E now k delta none).2 = .exc "KeyError" := by
  unfold Cache.incr Cache.transact
  simp only [hdepth, Nat.lt_irrefl, gt_iff_lt, if_false]
  cases hsel : (s.log .begin).selKey (put E s.cfg.disk k).1 (put E s.cfg.disk k).2 with
  | none => simp
  | some r =>
    have hmem : r ∈ s.rows := List.mem_of_find?_eq_some hsel
    have hm : Cache.keyMatch (put E s.cfg.disk k).1 (put E s.cfg.disk k).2 r = true :=
      List.find?_some hsel
    simp [hdead r hmem hm]

end Django

end DC
