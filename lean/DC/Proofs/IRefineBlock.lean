/-
C12_Refine, model side, the two compound methods of an Index: `popitem`
(tbegin, peekitem, delitem, tend) and `setdefault` (get; on a miss: tbegin, get,
add, get, tend).  Inside the block the nesting depth is 1, so the lemmas of
DC/Proofs/Refine*.lean (stated for quiescent states) do not apply directly; the
block is computed on `core` (DC/Proofs/Files.lean) and compared with a quiescent
state that is known to be `Good`.
-/
import DC.Proofs.IRefineOps
import DC.Proofs.Block
import DC.Properties.C04

namespace DC.Cache
open DC.Spec

/-! ### transactions at any depth -/

/-- a transaction that only logs a statement keeps `core`, whatever the depth and whether or
not it raises -/
theorem irf_transact_log (s : Cache) (id : String) (o : Out) (ok : Bool) :
    core (s.transact (fun s => ({ s := s.logSql id, out := o, ok := ok } : Body))).1 = core s ∧
    (s.transact (fun s => ({ s := s.logSql id, out := o, ok := ok } : Body))).2 = o := by
  unfold transact
  by_cases hd : s.depth > 0
  · simp only [hd, if_true]
    cases ok
    · exact ⟨rfl, rfl⟩
    · simp only [if_true, List.append_nil]; exact ⟨rfl, trivial⟩
  · simp only [hd, if_false]
    cases ok
    · exact ⟨rfl, rfl⟩
    · exact ⟨rfl, rfl⟩

/-! ### `peekitem` at any depth, on a table without expiry -/

/-- the first (`last = false`) or last row -/
def irf_edge (rows : List Row) (last : Bool) : Option Row := if last then rows.getLast? else rows.head?

theorem irf_edge_mem {rows : List Row} {last : Bool} {r : Row} (h : irf_edge rows last = some r) :
    r ∈ rows := by
  unfold irf_edge at h
  cases last
  · exact List.mem_of_mem_head? h
  · exact List.mem_of_getLast? h

/-- what `peekitem` returns -/
def irf_peekOut (E : Externals) (last : Bool) (s : Cache) : Out :=
  match irf_edge s.rows last with
  | none => .exc "KeyError"
  | some r =>
    match (s.fetchRow E r false).2 with
    | .ioerror => .exc "KeyError"
    | f => .tup [keyOut E s.cfg.disk r.key r.raw, fetchedOut f]

theorem irf_peekOut_congr {a b : Cache} (E : Externals) (last : Bool) (hr : a.rows = b.rows)
    (hf : a.files = b.files) (hc : a.cfg = b.cfg) : irf_peekOut E last a = irf_peekOut E last b := by
  unfold irf_peekOut
  rw [hr, hc]
  cases irf_edge b.rows last with
  | none => rfl
  | some r => simp only; rw [fetchRow_snd_congr a b E r false hc hf]

theorem irf_peekitemLoop (E : Externals) (now : Int) (last : Bool) : ∀ (fuel : Nat) (s : Cache),
    NoExp s.rows →
    core (peekitemLoop E now last false false fuel s).1 = core s ∧
    (peekitemLoop E now last false false fuel s).2 =
      (match fuel with | 0 => .exc "KeyError" | _ + 1 => irf_peekOut E last s) := by
  intro fuel
  induction fuel with
  | zero => intro s _; exact ⟨rfl, rfl⟩
  | succ n ih =>
    intro s hne
    rw [peekitemLoop]
    simp only [lastRow?]
    cases he : irf_edge s.rows last with
    | none =>
      have he' : (if last = true then s.rows.getLast? else s.rows.head?) = none := he
      simp only [he']
      have := irf_transact_log s "selEdge" (.exc "KeyError") false
      refine ⟨this.1, ?_⟩
      rw [this.2]
      unfold irf_peekOut
      rw [he]
    | some r =>
      have he' : (if last = true then s.rows.getLast? else s.rows.head?) = some r := he
      have hx : expired now r = false := expired_of_noexp (hne r (irf_edge_mem he)) now
      simp only [he', hx, Bool.false_eq_true, if_false]
      obtain ⟨tc, -⟩ := irf_transact_log s "selEdge" .none true
      generalize (s.transact (fun s => ({ s := s.logSql "selEdge", out := .none } : Body))).1 = t at tc ⊢
      have hft : (t.fetchRow E r false).2 = (s.fetchRow E r false).2 :=
        fetchRow_snd_congr t s E r false (congrArg Core.cfg tc) (congrArg Core.files tc)
      have hc2 : core (t.fetchRow E r false).1 = core s := by rw [core_fetchRow]; exact tc
      have hs : irf_peekOut E last s =
          match (s.fetchRow E r false).2 with
          | .ioerror => .exc "KeyError"
          | f => .tup [keyOut E s.cfg.disk r.key r.raw, fetchedOut f] := by
        unfold irf_peekOut; rw [he]
      rw [hs, ← hft]
      have hcfg : (t.fetchRow E r false).1.cfg = s.cfg := congrArg Core.cfg hc2
      cases hfr : t.fetchRow E r false with
      | mk t2 f =>
        rw [hfr] at hc2 hcfg
        simp only at hc2 hcfg ⊢
        cases f with
        | ioerror =>
          simp only
          have ih' := ih t2 (by rw [show t2.rows = s.rows from congrArg Core.rows hc2]; exact hne)
          refine ⟨ih'.1.trans hc2, ?_⟩
          rw [ih'.2]
          cases n with
          | zero => rfl
          | succ n' =>
            simp only
            rw [irf_peekOut_congr E last (congrArg Core.rows hc2) (congrArg Core.files hc2) hcfg, hs,
              ← hft, hfr]
        | val v =>
          simp only [withFlags, Bool.false_and, Bool.false_eq_true, if_false]
          exact ⟨hc2, by rw [hcfg]⟩
        | handle b =>
          simp only [withFlags, Bool.false_and, Bool.false_eq_true, if_false]
          exact ⟨hc2, by rw [hcfg]⟩

theorem irf_peekitem (s : Cache) (E : Externals) (now : Int) (last : Bool) (hne : NoExp s.rows) :
    core (s.peekitem E now last false false).1 = core s ∧
    (s.peekitem E now last false false).2 = irf_peekOut E last s :=
  irf_peekitemLoop E now last (s.rows.length + 1) s hne

/-! ### `peekitem` and the ordered dictionary -/

theorem irf_edge_abs (c : Cache) (last : Bool) :
    (irf_abs c).edge last = (irf_edge c.rows last).map (fun r => (irf_key r, rf_ent c r)) := by
  unfold ODict.edge irf_edge irf_abs
  cases last
  · simp only [Bool.false_eq_true, if_false, List.head?_map]
  · simp only [if_true, List.getLast?_map]

/-- the result of a row read is `default` exactly when the value file cannot be read -/
theorem irf_out_cases (s : Cache) (E : Externals) (r : Row) (hg : Good s) (hr : r ∈ s.rows) :
    (rf_ent s r).out E s.cfg false false false =
      match (s.fetchRow E r false).2 with
      | .ioerror => .default
      | f => fetchedOut f := by
  rw [← rf_out s E r false false false (rf_good_ref hg hr)]
  cases (s.fetchRow E r false).2 <;> rfl

theorem irf_peekOut_spec (s : Cache) (E : Externals) (last : Bool) (hg : Good s) :
    irf_peekOut E last s = (OSpec.peekitem (irf_abs s) E s.cfg last).2 ∧
    (OSpec.peekitem (irf_abs s) E s.cfg last).1 = irf_abs s := by
  unfold irf_peekOut OSpec.peekitem
  rw [irf_edge_abs]
  cases he : irf_edge s.rows last with
  | none => exact ⟨rfl, rfl⟩
  | some r =>
    simp only [Option.map_some]
    rw [irf_out_cases s E r hg (irf_edge_mem he)]
    cases (s.fetchRow E r false).2 <;> exact ⟨rfl, rfl⟩

/-! ### block brackets on `core` -/

theorem irf_tbegin_core (s : Cache) (hg : Good s) :
    core s.tbegin = { core s with depth := 1, snap := some s.takeSnap } := by
  unfold tbegin
  simp only [hg.depth, beq_self_eq_true, if_true]
  simp [core, hg.pending, hg.created]
  exact ⟨rfl, rfl⟩

theorem irf_tend_core (s : Cache) (hd : s.depth = 1) :
    core s.tend =
      { core s with
        files := s.files.filter (fun p => !s.pending.contains (some p.1)),
        depth := 0, snap := none, pending := [], created := [] } := by
  rw [tend_one s hd]
  have h := core_fremoveAll s.pending ({ (s.log .commit) with depth := 0, snap := none })
  simp only [core, Core.mk.injEq] at h ⊢
  obtain ⟨h1, h2, h3, h4, h5, -, -, h8, h9⟩ := h
  exact ⟨h1, h2, h3, h4, h5, trivial, trivial, h8, h9⟩

theorem irf_traise_core (s : Cache) (p : Snap) (hd : s.depth = 1) (hs : s.snap = some p) :
    core (s.traise 1) =
      { core s with
        rows := p.rows,
        files := s.files.filter (fun q => !(s.created.map some).contains (some q.1)),
        depth := 0, snap := none, pending := [], created := [] } := by
  rw [traise_outer s 1 p (by omega) (by omega) hs]
  have h := core_fremoveAll (s.created.map some)
    ({ ((s.restore p).log .rollback) with depth := 0, snap := none })
  simp only [core, Core.mk.injEq] at h ⊢
  obtain ⟨h1, h2, h3, h4, h5, -, -, h8, h9⟩ := h
  exact ⟨h1, h2, h3, h4, h5, trivial, trivial, h8, h9⟩

/-! ### `delitem` on `core` -/

theorem irf_delitem_pos_core (s : Cache) (E : Externals) (now : Int) (k : PyVal) (r : Row)
    (hd : 0 < s.depth)
    (hsel : s.selLive (keyOf E s.cfg k).1 (keyOf E s.cfg k).2 now = some r) :
    core (s.delitem E now k).1 =
      { core s with
        rows := s.rows.filter (fun x => ![r.rowid].contains x.rowid),
        pending := s.pending ++ [r.file] } := by
  rw [rf_delitem_eq]
  unfold transact
  simp only [gt_iff_lt, hd, if_true, rf_delBody_some hsel]
  have h := core_delRow (s.logSql "selLive") r.rowid
  simp only [core, Core.mk.injEq] at h ⊢
  obtain ⟨h1, h2, h3, h4, h5, h6, h7, h8, h9⟩ := h
  exact ⟨h1, h2, h3, h4, h5, by rw [h6]; rfl, h7, h8, h9⟩

theorem irf_delitem_zero_core (s : Cache) (E : Externals) (now : Int) (k : PyVal) (r : Row)
    (hd : s.depth = 0)
    (hsel : s.selLive (keyOf E s.cfg k).1 (keyOf E s.cfg k).2 now = some r) :
    core (s.delitem E now k).1 =
      { core s with
        rows := s.rows.filter (fun x => ![r.rowid].contains x.rowid),
        files := s.files.filter (fun p => ![r.file].contains (some p.1)) } := by
  have hsel' : (s.log .begin).selLive (keyOf E s.cfg k).1 (keyOf E s.cfg k).2 now = some r := hsel
  rw [rf_delitem_eq, transact_ok_core s _ none hd (by rw [rf_delBody_some hsel']), rf_delBody_some hsel']
  simp only [core_delRow, core_logSql, core_log]
  rfl

/-! ### `popitem` -/

theorem irf_spec_delitem_fst (m : ODict) (E : Externals) (cfg : Cfg) (k : PyVal) :
    (OSpec.delitem m E cfg k).1 = m.del (keyOf E cfg k) := by
  unfold OSpec.delitem
  split
  · rfl
  · rename_i hh
    simp only
    rw [irf_del_absent]
    rw [irf_has_eq] at hh
    cases hg : m.get (keyOf E cfg k) with
    | none => rfl
    | some e => rw [hg] at hh; exact absurd rfl hh

/-- what `peekitem` finds, on both sides: nothing to return (empty, or the value file of the edge
item cannot be read), or the edge item -/
theorem irf_peek_cases (s : Cache) (E : Externals) (last : Bool) (hg : Good s) :
    (irf_peekOut E last s = .exc "KeyError" ∧
      OSpec.popitem (irf_abs s) E s.cfg last = (irf_abs s, .exc "KeyError")) ∨
    (∃ r o, irf_edge s.rows last = some r ∧
      irf_peekOut E last s = .tup [.val (DC.get E s.cfg.disk r.key r.raw), o] ∧
      OSpec.popitem (irf_abs s) E s.cfg last =
        ((irf_abs s).del (irf_key r), .tup [.val (DC.get E s.cfg.disk r.key r.raw), o])) := by
  unfold irf_peekOut OSpec.popitem
  rw [irf_edge_abs]
  cases he : irf_edge s.rows last with
  | none => exact .inl ⟨rfl, rfl⟩
  | some r =>
    simp only [Option.map_some]
    rw [irf_out_cases s E r hg (irf_edge_mem he)]
    cases (s.fetchRow E r false).2 with
    | ioerror => exact .inl ⟨rfl, rfl⟩
    | val v => exact .inr ⟨r, .val v, rfl, rfl, rfl⟩
    | handle b => exact .inr ⟨r, .handle b, rfl, rfl, rfl⟩

/-- leaving the block of `popitem` by the exception: nothing happened -/
theorem irf_block_abort (s c1 : Cache) (hg : Good s) (hc1 : core c1 = core s.tbegin) :
    core (c1.traise 1) = core s := by
  have hc0 := irf_tbegin_core s hg
  rw [hc0] at hc1
  have hd : c1.depth = 1 := congrArg Core.depth hc1
  have hs : c1.snap = some s.takeSnap := congrArg Core.snap hc1
  have hcr : c1.created = [] := (congrArg Core.created hc1).trans hg.created
  have hfl : c1.files = s.files := congrArg Core.files hc1
  have hnf : c1.nfile = s.nfile := congrArg Core.nfile hc1
  have hcf : c1.cfg = s.cfg := congrArg Core.cfg hc1
  have hst : c1.statistics = s.statistics := congrArg Core.statistics hc1
  rw [irf_traise_core c1 s.takeSnap hd hs]
  have hnil : ∀ l : List (Nat × Content),
      l.filter (fun q => !(([] : List Nat).map some).contains (some q.1)) = l := by
    intro l; rw [List.filter_eq_self]; intros; rfl
  simp only [core, Core.mk.injEq, hcr, hnil]
  exact ⟨rfl, hfl, hnf, hg.depth.symm, hg.snap.symm, hg.pending.symm, hg.created.symm, hcf, hst⟩

/-- `popitem`, with the key-codec round trip asked of the edge row only (the row it pops) -/
theorem irf_popitem_edge (x : Index) (E : Externals) (now : Int) (last : Bool) (h : irf_Inv x.cache)
    (hcodec : ∀ r, irf_edge x.cache.rows last = some r →
      DC.put E x.cache.cfg.disk (DC.get E x.cache.cfg.disk r.key r.raw) = (r.key, r.raw)) :
    (x.popitem E now last).2 = (OSpec.popitem (irf_abs x.cache) E x.cache.cfg last).2 ∧
    irf_abs (x.popitem E now last).1.cache = (OSpec.popitem (irf_abs x.cache) E x.cache.cfg last).1 ∧
    (x.popitem E now last).1.cache.cfg = x.cache.cfg ∧ irf_Inv (x.popitem E now last).1.cache := by
  obtain ⟨s⟩ := x
  simp only at h hcodec ⊢
  have hg := h.good
  have hc0 := irf_tbegin_core s hg
  have hr0 : s.tbegin.rows = s.rows := congrArg Core.rows hc0
  have hcfg0 : s.tbegin.cfg = s.cfg := congrArg Core.cfg hc0
  have hf0 : s.tbegin.files = s.files := congrArg Core.files hc0
  obtain ⟨hc1, ho⟩ := irf_peekitem s.tbegin E now last (by rw [hr0]; exact h.noexp)
  rw [irf_peekOut_congr E last hr0 hf0 hcfg0] at ho
  have hti1 : TableInv (s.tbegin.peekitem E now last false false).1 :=
    peekitem_inv _ _ _ _ _ _ (tbegin_inv _ hg.tinv)
  have hp : s.tbegin.peekitem E now last false false =
      ((s.tbegin.peekitem E now last false false).1, irf_peekOut E last s) := by rw [← ho]
  generalize (s.tbegin.peekitem E now last false false).1 = c1 at hc1 hti1 hp
  rcases irf_peek_cases s E last hg with ⟨hpo, hspec⟩ | ⟨r, o, he, hpo, hspec⟩
  · rw [hpo] at hp
    rw [hspec]
    unfold Index.popitem
    simp only [hp]
    have hcore := irf_block_abort s c1 hg hc1
    exact ⟨trivial, irf_abs_core hcore, congrArg Core.cfg hcore,
      irf_inv_core h hcore (traise_inv _ _ hti1)⟩
  · rw [hpo] at hp
    rw [hspec]
    unfold Index.popitem
    simp only [hp]
    have hrm : r ∈ s.rows := irf_edge_mem he
    rw [hc0] at hc1
    have hd1 : c1.depth = 1 := congrArg Core.depth hc1
    have hcf1 : c1.cfg = s.cfg := congrArg Core.cfg hc1
    have hr1 : c1.rows = s.rows := congrArg Core.rows hc1
    have hk : keyOf E s.cfg (DC.get E s.cfg.disk r.key r.raw) = (r.key, r.raw) := hcodec r he
    have hsel0 : s.selLive (keyOf E s.cfg (DC.get E s.cfg.disk r.key r.raw)).1
        (keyOf E s.cfg (DC.get E s.cfg.disk r.key r.raw)).2 now = some r := by
      rw [hk]
      exact live_visible_partial s hg.tinv.tbl.uniq r hrm (hg.tinv.tbl.nonnull r hrm) now
        (live_of_noexp (h.noexp r hrm) now)
    have hsel1 : c1.selLive (keyOf E c1.cfg (DC.get E s.cfg.disk r.key r.raw)).1
        (keyOf E c1.cfg (DC.get E s.cfg.disk r.key r.raw)).2 now = some r := by
      rw [hcf1, hk]
      exact live_visible_partial c1 (by rw [hr1]; exact hg.tinv.tbl.uniq) r (by rw [hr1]; exact hrm)
        (hg.tinv.tbl.nonnull r hrm) now (live_of_noexp (h.noexp r hrm) now)
    have hc2 := irf_delitem_pos_core c1 E now (DC.get E s.cfg.disk r.key r.raw) r (by omega) hsel1
    have hti2 : TableInv (c1.delitem E now (DC.get E s.cfg.disk r.key r.raw)).1 :=
      delitem_inv _ _ _ _ hti1
    have hdo : (c1.delitem E now (DC.get E s.cfg.disk r.key r.raw)).2 = .bool true :=
      (delitem_some c1 E now _ r hsel1).1
    cases hdd : c1.delitem E now (DC.get E s.cfg.disk r.key r.raw) with
    | mk c2 o2 =>
    rw [hdd] at hc2 hti2 hdo
    simp only at hc2 hti2 hdo ⊢
    subst hdo
    simp only
    rw [hc1] at hc2
    have hd2 : c2.depth = 1 := congrArg Core.depth hc2
    have e1 : c2.rows = s.rows.filter (fun x => ![r.rowid].contains x.rowid) := by
      have := congrArg Core.rows hc2
      simp only [core_rows] at this
      rw [this, hr1]
    have e2 : c2.files = s.files := congrArg Core.files hc2
    have e3 : c2.nfile = s.nfile := congrArg Core.nfile hc2
    have e4 : c2.pending = [r.file] := by
      have : c2.pending = c1.pending ++ [r.file] := congrArg Core.pending hc2
      rw [this, show c1.pending = s.pending from congrArg Core.pending hc1, hg.pending]; rfl
    have e5 : c2.cfg = s.cfg := congrArg Core.cfg hc2
    have e6 : c2.statistics = s.statistics := congrArg Core.statistics hc2
    have hcore : core c2.tend = core (s.delitem E now (DC.get E s.cfg.disk r.key r.raw)).1 := by
      rw [irf_tend_core c2 hd2, irf_delitem_zero_core s E now _ r hg.depth hsel0]
      simp only [core, Core.mk.injEq, e1, e2, e3, e4, e5, e6]
      exact ⟨trivial, trivial, trivial, hg.depth.symm, hg.snap.symm, hg.pending.symm, hg.created.symm,
        trivial, trivial⟩
    obtain ⟨-, hA, hC, hI⟩ := irf_delitem s E now (DC.get E s.cfg.disk r.key r.raw) h
    refine ⟨trivial, ?_, ?_, irf_inv_core hI hcore (tend_inv _ hti2)⟩
    · show irf_abs c2.tend = _
      rw [irf_abs_core hcore, hA, irf_spec_delitem_fst, hk]
      rfl
    · show c2.tend.cfg = s.cfg
      rw [show c2.tend.cfg = (s.delitem E now (DC.get E s.cfg.disk r.key r.raw)).1.cfg from
        congrArg Core.cfg hcore, hC]

theorem irf_popitem (x : Index) (E : Externals) (now : Int) (last : Bool) (h : irf_Inv x.cache)
    (hcodec : ∀ r ∈ x.cache.rows,
      DC.put E x.cache.cfg.disk (DC.get E x.cache.cfg.disk r.key r.raw) = (r.key, r.raw)) :
    (x.popitem E now last).2 = (OSpec.popitem (irf_abs x.cache) E x.cache.cfg last).2 ∧
    irf_abs (x.popitem E now last).1.cache = (OSpec.popitem (irf_abs x.cache) E x.cache.cfg last).1 ∧
    (x.popitem E now last).1.cache.cfg = x.cache.cfg ∧ irf_Inv (x.popitem E now last).1.cache :=
  irf_popitem_edge x E now last h (fun r he => hcodec r (irf_edge_mem he))

end DC.Cache
