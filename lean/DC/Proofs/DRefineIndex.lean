/-
C11_Refine, helper lemmas for the calls that address an item by position or by value
(`deque[i] = v`, `del deque[i]`, `remove`): statistics flag, the queue as a sorted view of the
ordered abstraction `irf_abs` (DC/Proofs/IRefineLemmas.lean), list facts.
-/
import DC.Proofs.DRefineLemmas
import DC.Proofs.IRefineOps

namespace DC.Cache
open DC.Spec

/-! ### the statistics flag is not touched by `set` / `delitem` outside a block -/

@[simp] theorem drf_fremove_stats (s : Cache) (f : Nat) : (s.fremove f).statistics = s.statistics := rfl

theorem drf_fremoveAll_stats (s : Cache) (fs : List (Option Nat)) :
    (s.fremoveAll fs).statistics = s.statistics := by
  unfold fremoveAll
  induction fs generalizing s with
  | nil => rfl
  | cons f fs ih => cases f <;> simp [List.foldl_cons, ih]

theorem drf_transact_zero_stats (s : Cache) (body : Cache → Body) (fresh : Option Nat) (hd : s.depth = 0) :
    (s.transact body fresh).1.statistics = (body (s.log .begin)).s.statistics := by
  unfold transact
  simp only [hd, Nat.lt_irrefl, if_false]
  split
  · rw [drf_fremoveAll_stats]; rfl
  · cases fresh <;> rfl

theorem drf_cullW_stats (t : Cache) (now : Int) : (t.cullW now).1.statistics = t.statistics :=
  congrArg Core.statistics (cullW_core t now).1

theorem drf_setBody_stats (dbk : SqlVal) (raw : Bool) (now : Int) (c : Cols) (t : Cache) :
    (setBody dbk raw now c t).s.statistics = t.statistics := by
  unfold setBody
  split
  · rfl
  simp only
  split
  · rfl
  cases t.selKey dbk raw with
  | none => simp only; rw [drf_cullW_stats]; rfl
  | some r => simp only; rw [drf_cullW_stats]; rfl

theorem drf_store_stats {s s1 : Cache} {E : Externals} {v : PyVal} {rd : Bool} {c : Cols}
    (hst : s.store E v rd = .ok (s1, c)) : s1.statistics = s.statistics := by
  unfold store at hst
  split at hst
  · cases hst
  · cases hst; rfl
  · cases hst; rfl

theorem drf_set_stats (s : Cache) (E : Externals) (now : Int) (k v : PyVal) (tag : SqlVal) (hd : s.depth = 0) :
    (s.set E now k v none false tag).1.statistics = s.statistics := by
  rw [set_eq]
  cases hst : s.store E v false with
  | error e => rfl
  | ok p =>
    obtain ⟨s1, c⟩ := p
    simp only
    rw [drf_transact_zero_stats _ _ _ ((store_spec hst).2.2.trans hd), drf_setBody_stats]
    exact (drf_store_stats hst : s1.statistics = s.statistics)

theorem drf_delRowQuiet_stats (s : Cache) (id : Nat) : (s.delRowQuiet id).statistics = s.statistics := by
  unfold delRowQuiet; split <;> rfl

theorem drf_delitem_stats (s : Cache) (E : Externals) (now : Int) (k : PyVal) (hd : s.depth = 0) :
    (s.delitem E now k).1.statistics = s.statistics := by
  unfold delitem
  simp only
  rw [drf_transact_zero_stats _ _ _ hd]
  split
  · rfl
  · show ((_ : Cache).delRowQuiet _).statistics = _
    rw [drf_delRowQuiet_stats]; rfl

/-! ### insertion sort and maps that respect the order -/

theorem drf_insertBy_map {α β} (f : α → β) (lt : α → α → Bool) (lt' : β → β → Bool)
    (h : ∀ a b, lt' (f a) (f b) = lt a b) (x : α) (l : List α) :
    (insertBy lt x l).map f = insertBy lt' (f x) (l.map f) := by
  induction l with
  | nil => rfl
  | cons y ys ih =>
    simp only [insertBy, List.map_cons, h]
    split
    · simp only [List.map_cons, ih]
    · rfl

theorem drf_isort_map {α β} (f : α → β) (lt : α → α → Bool) (lt' : β → β → Bool)
    (h : ∀ a b, lt' (f a) (f b) = lt a b) (l : List α) :
    (isort lt l).map f = isort lt' (l.map f) := by
  induction l with
  | nil => rfl
  | cons x xs ih => simp only [isort, List.map_cons, drf_insertBy_map f lt lt' h, ih]

/-- the queue filter as a function of the key columns -/
def drf_qfKey (K : Key) : Bool :=
  ((queueRange none).1.lt K.1 && K.1.lt (queueRange none).2) && K.2 && sameLength none K.1

theorem drf_qfilter_key (r : Row) : qfilter none r = drf_qfKey (irf_key r) := rfl

/-- the queue view of an ordered dictionary: the bindings with queue keys, in key order -/
def drf_Q (a : ODict) : ODict := isort (fun x y => x.1.1.lt y.1.1) (a.filter (fun p => drf_qfKey p.1))

/-- the items of the queue, as bindings, are the queue view of the ordered abstraction -/
theorem drf_items_abs (c : Cache) :
    (c.queueRows none).map (fun r => (irf_key r, rf_ent c r)) = drf_Q (irf_abs c) := by
  rw [queueRows_eq]
  unfold qrows drf_Q irf_abs
  rw [drf_isort_map (fun r => (irf_key r, rf_ent c r)) klt (fun x y => x.1.1.lt y.1.1) (fun _ _ => rfl)]
  congr 1
  rw [List.filter_map]
  rfl

/-- a map that keeps the keys commutes with the queue view -/
theorem drf_Q_map (g : Key × Entry → Key × Entry) (hg : ∀ p, (g p).1 = p.1) (a : ODict) :
    drf_Q (a.map g) = (drf_Q a).map g := by
  unfold drf_Q
  rw [drf_isort_map g (fun x y => x.1.1.lt y.1.1) (fun x y => x.1.1.lt y.1.1)
    (fun x y => by simp only [hg])]
  congr 1
  rw [List.filter_map]
  congr 1
  apply List.filter_congr
  intro x _
  simp only [Function.comp, hg]

/-! ### list facts -/

theorem drf_sameKey_symm (a b : Key) : sameKey a b = sameKey b a := by
  unfold sameKey
  have h1 : a.1.eqv b.1 = b.1.eqv a.1 := by
    cases h : a.1.eqv b.1 with
    | true => exact (SqlVal.eqv_symm _ _ h).symm
    | false =>
      cases h' : b.1.eqv a.1 with
      | false => rfl
      | true => rw [SqlVal.eqv_symm _ _ h'] at h; cases h
  rw [h1]
  cases a.2 <;> cases b.2 <;> rfl

/-- replacing the entry under the key of position `i` replaces position `i` -/
theorem drf_map_replace (e : Entry) : ∀ (L : ODict) (i : Nat) (K : Key) (x : Entry),
    L.Pairwise (fun a b => sameKey a.1 b.1 = false) → (∀ p ∈ L, sameKey p.1 p.1 = true) →
    L[i]? = some (K, x) →
    (L.map (fun p => if sameKey p.1 K then (p.1, e) else p)).map (·.2) = (L.map (·.2)).set i e
  | [], _, _, _, _, _, h => by cases h
  | p :: t, 0, K, x, hp, hs, h => by
    simp only [List.getElem?_cons_zero, Option.some.injEq] at h
    subst h
    have hsk := hs (K, x) List.mem_cons_self
    simp only [List.map_cons, hsk, if_true, List.set_cons_zero, List.cons.injEq, true_and]
    have := (List.pairwise_cons.1 hp).1
    rw [List.map_map]
    apply List.map_congr_left
    intro q hq
    have h1 := this q hq
    simp only at h1
    rw [drf_sameKey_symm] at h1
    simp only [Function.comp, h1, Bool.false_eq_true, if_false]
  | p :: t, i + 1, K, x, hp, hs, h => by
    simp only [List.getElem?_cons_succ] at h
    have hmem : (K, x) ∈ t := List.mem_of_getElem? h
    have h1 := (List.pairwise_cons.1 hp).1 (K, x) hmem
    simp only at h1
    simp only [List.map_cons, h1, Bool.false_eq_true, if_false, List.set_cons_succ, List.cons.injEq, true_and]
    exact drf_map_replace e t i K x (List.pairwise_cons.1 hp).2 (fun q hq => hs q (List.mem_cons_of_mem _ hq)) h

/-- removing the row of position `i` by its rowid removes position `i` -/
theorem drf_filter_erase : ∀ (L : List Row) (i : Nat) (r : Row),
    L.Pairwise (fun a b => a.rowid ≠ b.rowid) → L[i]? = some r →
    L.filter (fun x => x.rowid != r.rowid) = L.eraseIdx i
  | [], _, _, _, h => by cases h
  | p :: t, 0, r, hp, h => by
    simp only [List.getElem?_cons_zero, Option.some.injEq] at h
    subst h
    simp only [List.filter_cons, bne_self_eq_false, Bool.false_eq_true, if_false, List.eraseIdx_cons_zero]
    rw [List.filter_eq_self]
    intro q hq
    have := (List.pairwise_cons.1 hp).1 q hq
    simp only [bne_iff_ne, ne_eq]
    exact fun h => this h.symm
  | p :: t, i + 1, r, hp, h => by
    simp only [List.getElem?_cons_succ] at h
    have hmem : r ∈ t := List.mem_of_getElem? h
    have h1 := (List.pairwise_cons.1 hp).1 r hmem
    have : (p.rowid != r.rowid) = true := by simpa using h1
    simp only [List.filter_cons, this, if_true, List.eraseIdx_cons_succ, List.cons.injEq, true_and]
    exact drf_filter_erase t i r (List.pairwise_cons.1 hp).2 h

theorem drf_map_eraseIdx {α β} (f : α → β) (l : List α) (p : Nat) :
    (l.eraseIdx p).map f = (l.map f).eraseIdx p := by
  rw [List.eraseIdx_eq_take_drop_succ, List.eraseIdx_eq_take_drop_succ, List.map_append, List.map_take,
    List.map_drop]

/-! ### Python indexing, searching, rotating: facts about the list functions of DC/Model/DSpec.lean -/

open DC.DSpec

theorem position_lt {len : Nat} {i : Int} {p : Nat} (h : position len i = some p) : p < len := by
  unfold position at h
  split at h
  · split at h
    · cases h; omega
    · cases h
  · split at h
    · cases h; omega
    · cases h

/-- Python indexing is: find the position, take the item there -/
theorem index_position {α} (l : List α) (i : Int) :
    DSpec.index l i = (position l.length i).bind (fun p => l[p]?) := by
  unfold DSpec.index position
  by_cases h0 : 0 ≤ i
  · rw [if_pos h0, if_pos h0]
    by_cases h1 : i < (l.length : Int)
    · rw [if_pos h1]; rfl
    · rw [if_neg h1]
      simp only [Option.bind_none, List.getElem?_eq_none_iff]
      omega
  · rw [if_neg h0, if_neg h0]
    split <;> rfl

theorem position_none_index {α} (l : List α) (i : Int) (h : position l.length i = none) :
    DSpec.index l i = none := by rw [index_position, h]; rfl

theorem position_some_index {α} (l : List α) (i : Int) (p : Nat) (h : position l.length i = some p) :
    ∃ x, l[p]? = some x ∧ DSpec.index l i = some x := by
  have hp := position_lt h
  refine ⟨l[p], List.getElem?_eq_getElem hp, ?_⟩
  rw [index_position, h]
  exact List.getElem?_eq_getElem hp

theorem find_congr {α} {P Q : α → Bool} : ∀ (l : List α), (∀ a ∈ l, P a = Q a) → l.find? P = l.find? Q
  | [], _ => rfl
  | a :: t, h => by
    simp only [List.find?_cons, h a List.mem_cons_self]
    rw [find_congr t (fun b hb => h b (List.mem_cons_of_mem _ hb))]

theorem find_idx {α} (P : α → Bool) : ∀ (l : List α),
    (l.findIdx? P = none ∧ l.find? P = none) ∨
    ∃ p r, l.findIdx? P = some p ∧ l.find? P = some r ∧ l[p]? = some r
  | [] => .inl ⟨rfl, rfl⟩
  | a :: t => by
    simp only [List.findIdx?_cons, List.find?_cons]
    cases hP : P a with
    | true => exact .inr ⟨0, a, rfl, rfl, rfl⟩
    | false =>
      rcases find_idx P t with ⟨h1, h2⟩ | ⟨p, r, h1, h2, h3⟩
      · exact .inl ⟨by simp [h1], h2⟩
      · exact .inr ⟨p + 1, r, by simp [h1], h2, by simpa using h3⟩

theorem findIdx_map {α β} (f : α → β) (Q : β → Bool) : ∀ (l : List α),
    (l.map f).findIdx? Q = l.findIdx? (fun a => Q (f a))
  | [] => rfl
  | a :: t => by
    simp only [List.map_cons, List.findIdx?_cons, findIdx_map f Q t]

/-- with different lengths `==` is False and `!=` True whatever the values are (the shortcut of
`_make_compare`) -/
theorem cmpSeq_len_ne (n k : Nat) (hne : n ≠ k) : ∀ (xs ys : List PyVal),
    cmpSeq .eq n k xs ys = some false ∧ cmpSeq .ne n k xs ys = some true
  | [], ys => by cases ys <;> simp [cmpSeq, CmpOp.onNats, hne]
  | a :: as, [] => by simp [cmpSeq, CmpOp.onNats, hne]
  | a :: as, b :: bs => by
    simp only [cmpSeq, CmpOp.onVals]
    cases hab : pyEq a b
    · simp
    · simpa using cmpSeq_len_ne n k hne as bs

theorem rotr_mem {α} (l : List α) : ∀ x ∈ rotr l, x ∈ l := by
  intro x hx
  unfold rotr at hx
  cases hl : l.getLast? with
  | none => rw [hl] at hx; exact hx
  | some y =>
    rw [hl] at hx
    rcases List.mem_cons.1 hx with h | h
    · rw [h]; exact List.mem_of_getLast? hl
    · exact List.dropLast_subset l h

theorem rotl_mem {α} (l : List α) : ∀ x ∈ rotl l, x ∈ l := by
  intro x hx
  cases l with
  | nil => exact hx
  | cons a t =>
    simp only [rotl, List.mem_append, List.mem_singleton] at hx
    rcases hx with h | h
    · exact List.mem_cons_of_mem _ h
    · rw [h]; exact List.mem_cons_self

theorem iter_mem {α} (f : List α → List α) (hf : ∀ l, ∀ x ∈ f l, x ∈ l) : ∀ (k : Nat) (l : List α),
    ∀ x ∈ iter_ f k l, x ∈ l
  | 0, _, _, hx => hx
  | k + 1, l, x, hx => hf l x (iter_mem f hf k (f l) x hx)

end DC.Cache
