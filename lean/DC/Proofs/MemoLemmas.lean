/- helper lemmas for args_to_key and the memoize wrapper (C16) -/
import DC.Model.Memo

namespace DC.Memo

end DC.Memo
