/- helper lemmas for args_to_key and the memoize wrapper (C16) -/
import DC.Model.Memo
import DC.Proofs.Keys

namespace DC.Memo

/-! ### splitting a key at the first separator -/

theorem split_at_none : ∀ (l₁ l₂ r₁ r₂ : List Tok), Tok.none ∉ l₁ → Tok.none ∉ l₂ →
    l₁ ++ Tok.none :: r₁ = l₂ ++ Tok.none :: r₂ → l₁ = l₂ ∧ r₁ = r₂
  | [], [], _, _, _, _, h => by simpa using h
  | [], b :: l₂, _, _, _, h2, h => by
    simp only [List.nil_append, List.cons_append, List.cons.injEq] at h
    exact absurd (h.1 ▸ List.mem_cons_self) h2
  | a :: l₁, [], _, _, h1, _, h => by
    simp only [List.nil_append, List.cons_append, List.cons.injEq] at h
    exact absurd (h.1 ▸ List.mem_cons_self) h1
  | a :: l₁, b :: l₂, r₁, r₂, h1, h2, h => by
    simp only [List.cons_append, List.cons.injEq] at h
    have := split_at_none l₁ l₂ r₁ r₂ (fun hm => h1 (List.mem_cons_of_mem _ hm))
      (fun hm => h2 (List.mem_cons_of_mem _ hm)) h.2
    exact ⟨by rw [h.1, this.1], this.2⟩

/-! ### enumFrom / keepArgs / keepKw with nothing ignored -/

theorem filter_true' {α} : ∀ (l : List α), l.filter (fun _ => true) = l
  | [] => rfl
  | x :: xs => by simp

theorem enumFrom_map_snd {α} : ∀ (i : Nat) (l : List α), (enumFrom i l).map (·.2) = l
  | _, [] => rfl
  | i, x :: xs => by simp [enumFrom, enumFrom_map_snd (i + 1) xs]

theorem keepArgs_nil (args : List Arg) : keepArgs args [] = args := by
  simp [keepArgs, filter_true', enumFrom_map_snd]

theorem keepKw_nil (kw : Kwargs) : keepKw kw [] = isort (fun a b => a.1 < b.1) kw := by
  have : (fun p : Nat × Arg => !([] : List Nat).contains p.1) = fun _ => true := by funext p; simp
  rw [keepKw, this, filter_true']

theorem keepKw_filter (kw : Kwargs) (ign : List Nat) :
    keepKw (kw.filter (fun p => !ign.contains p.1)) [] = keepKw kw ign := by
  simp [keepKw]

/-! ### the flattened keyword part -/

abbrev kwflat (k : Kwargs) : List Tok := k.flatMap (fun p => [Tok.val p.1, p.2.tok])

theorem kwflat_length (k : Kwargs) : (kwflat k).length = 2 * k.length := by
  induction k with
  | nil => rfl
  | cons x xs ih => simp only [kwflat, List.flatMap_cons, List.length_append, List.length_cons,
      List.length_nil] at ih ⊢; omega

theorem kwflat_inj : ∀ (k₁ k₂ : Kwargs), kwflat k₁ = kwflat k₂ →
    k₁.map (fun p => (p.1, p.2.tok)) = k₂.map (fun p => (p.1, p.2.tok))
  | [], [], _ => rfl
  | [], b :: k₂, h => by simp [kwflat] at h
  | a :: k₁, [], h => by simp [kwflat] at h
  | a :: k₁, b :: k₂, h => by
    simp only [kwflat, List.flatMap_cons, List.cons_append, List.nil_append, List.cons.injEq,
      Tok.val.injEq] at h
    have := kwflat_inj k₁ k₂ h.2.2
    simp [h.1, h.2.1, this]

/-- the key of a call with nothing ignored, in terms of the sorted keyword list -/
theorem argsToKey_nil (base : List Tok) (a : List Arg) (k : Kwargs) (typed : Bool) :
    argsToKey base a k typed [] [] =
      (base ++ a.map (·.tok)) ++ Tok.none :: (kwflat (keepKw k []) ++
        (if typed then a.map (fun x => Tok.ty x.ty) ++ (keepKw k []).map (fun p => Tok.ty p.2.ty) else [])) := by
  simp [argsToKey, keepArgs_nil, kwflat]

theorem map_ty_inj {α} (g : α → Nat) : ∀ (l₁ l₂ : List α),
    l₁.map (fun x => Tok.ty (g x)) = l₂.map (fun x => Tok.ty (g x)) → l₁.map g = l₂.map g
  | [], [], _ => rfl
  | [], _ :: _, h => by simp at h
  | _ :: _, [], h => by simp at h
  | a :: l₁, b :: l₂, h => by
    simp only [List.map_cons, List.cons.injEq, Tok.ty.injEq] at h
    simp [h.1, map_ty_inj g l₁ l₂ h.2]

/-- everything a key determines, when no positional token is the separator -/
theorem key_parts (base : List Tok) (a₁ a₂ : List Arg) (k₁ k₂ : Kwargs) (typed : Bool)
    (hb : ∀ t ∈ base, t ≠ Tok.none) (h₁ : ∀ a ∈ a₁, a.tok ≠ Tok.none) (h₂ : ∀ a ∈ a₂, a.tok ≠ Tok.none)
    (h : argsToKey base a₁ k₁ typed [] [] = argsToKey base a₂ k₂ typed [] []) :
    a₁.map (·.tok) = a₂.map (·.tok) ∧
    (keepKw k₁ []).map (fun p => (p.1, p.2.tok)) = (keepKw k₂ []).map (fun p => (p.1, p.2.tok)) ∧
    (typed = true → a₁.map (·.ty) = a₂.map (·.ty) ∧
      (keepKw k₁ []).map (fun p => p.2.ty) = (keepKw k₂ []).map (fun p => p.2.ty)) := by
  rw [argsToKey_nil, argsToKey_nil] at h
  have hn : ∀ (a : List Arg), (∀ x ∈ a, x.tok ≠ Tok.none) → Tok.none ∉ base ++ a.map (·.tok) := by
    intro a ha hm
    rcases List.mem_append.1 hm with hm | hm
    · exact hb _ hm rfl
    · obtain ⟨x, hx, hxe⟩ := List.mem_map.1 hm
      exact ha x hx hxe
  obtain ⟨hl, hr⟩ := split_at_none _ _ _ _ (hn a₁ h₁) (hn a₂ h₂) h
  have hA : a₁.map (·.tok) = a₂.map (·.tok) := List.append_cancel_left hl
  have hlen : a₁.length = a₂.length := by simpa using congrArg List.length hA
  generalize keepKw k₁ [] = K₁ at hr ⊢
  generalize keepKw k₂ [] = K₂ at hr ⊢
  cases typed with
  | false =>
    simp only [Bool.false_eq_true, if_false, List.append_nil] at hr
    exact ⟨hA, kwflat_inj _ _ hr, by simp⟩
  | true =>
    simp only [if_true] at hr
    have hL := congrArg List.length hr
    simp only [List.length_append, kwflat_length, List.length_map] at hL
    have hm : K₁.length = K₂.length := by omega
    obtain ⟨hf, ht⟩ := List.append_inj hr (by rw [kwflat_length, kwflat_length, hm])
    obtain ⟨hta, htk⟩ := List.append_inj ht (by simp [hlen])
    exact ⟨hA, kwflat_inj _ _ hf, fun _ => ⟨map_ty_inj (fun x : Arg => x.ty) _ _ hta, map_ty_inj (fun p : Nat × Arg => p.2.ty) _ _ htk⟩⟩

/-! ### keyword order -/

theorem isort_kw_perm (k₁ k₂ : Kwargs) (hd : (k₁.map (·.1)).Nodup) (hp : k₁.Perm k₂) :
    isort (fun (a b : Nat × Arg) => decide (a.1 < b.1)) k₁ = isort (fun a b => decide (a.1 < b.1)) k₂ := by
  have hirr : ∀ a : Nat × Arg, decide (a.1 < a.1) = false := by simp
  have htr : ∀ a b c : Nat × Arg, decide (a.1 < b.1) = true → decide (b.1 < c.1) = true →
      decide (a.1 < c.1) = true := by
    intro a b c; simp only [decide_eq_true_eq]; omega
  have hc : ∀ k : Kwargs, (k.map (·.1)).Nodup →
      k.Pairwise (fun a b => decide (a.1 < b.1) = true ∨ decide (b.1 < a.1) = true) := by
    intro k hk
    have := List.pairwise_map.1 hk
    refine this.imp ?_
    intro a b hne
    simp only [decide_eq_true_eq]
    omega
  have hd₂ : (k₂.map (·.1)).Nodup := (hp.map _).nodup_iff.1 hd
  apply sorted_ext _ hirr htr _ _ (isort_sorted_strict _ htr _ (hc _ hd)) (isort_sorted_strict _ htr _ (hc _ hd₂))
  intro x
  rw [mem_isort, mem_isort]
  exact hp.mem_iff

/-! ### the store -/

theorem get_set_self {R} (c : Store R) (k : List Tok) (r : R) (e : Option Int) (now : Int) :
    (c.set k r e).get k now = match e with
      | none => some r
      | some t => if t > now then some r else none := by
  simp only [Store.get, Store.set, List.find?_cons, beq_self_eq_true]
  cases e <;> rfl

theorem get_set_other {R} (c : Store R) (k k' : List Tok) (r : R) (e : Option Int) (now : Int)
    (hne : k' ≠ k) : (c.set k r e).get k' now = c.get k' now := by
  have hf : ((k, r, e) :: c.filter (fun x => x.1 != k)).find? (fun x => x.1 == k') =
      c.find? (fun x => x.1 == k') := by
    rw [List.find?_cons]
    have : ((k, r, e).1 == k') = false := by
      simp only [beq_eq_false_iff_ne]; exact fun h => hne h.symm
    rw [this]
    simp only [List.find?_filter]
    congr 1
    funext x
    by_cases hx : x.1 = k'
    · simp [hx, hne]
    · simp [hx]
  simp only [Store.get, Store.set, hf]

end DC.Memo
