/-
Helper lemmas for C12_Refine (the Index model refines the insertion-ordered
dictionary of DC/Model/OSpec.lean).

 * the ordered dictionary: look-up after `set` / `del`, the key list after
   `set` / `del`, and extensionality — two dictionaries with the same key list
   and the same look-ups are equal (`irf_ext`);
 * the abstraction of a cache state: its rows in order, each with the entry it
   denotes (`irf_abs`); its look-ups are the *view* of C03_Refine (`rf_view`),
   so that the per-key lemmas of DC/Proofs/Refine*.lean can be reused: an
   ordered step is "the key list changes like this" + "the view changes like
   that" (`irf_abs_of`).
-/
import DC.Model.OSpec
import DC.Proofs.RefineOps
import DC.Proofs.RefineWrite
import DC.Proofs.RefineDel
import DC.Proofs.IndexLemmas

namespace DC.Cache
open DC.Spec

/-! ### the ordered dictionary -/

theorem irf_get_eq (m : ODict) (k : Key) : ODict.get m k = Dict.get m k := rfl

theorem irf_del_eq (m : ODict) (k : Key) : ODict.del m k = Dict.del m k := rfl

theorem irf_has_eq (m : ODict) (k : Key) : m.has k = (m.get k).isSome := rfl

theorem irf_get_sameKey {K k' : Key} (h : sameKey K k' = true) (m : ODict) : m.get K = m.get k' :=
  rf_get_sameKey h m

theorem irf_get_del (m : ODict) (k k' : Key) :
    (m.del k).get k' = if sameKey k k' then none else m.get k' := rf_get_del m k k'

theorem irf_keys_del (m : ODict) (k : Key) : (m.del k).keys = m.keys.filter (fun q => !sameKey q k) := by
  unfold ODict.del ODict.keys
  rw [List.filter_map]
  rfl

theorem irf_get_none_of_keys (m : ODict) (k : Key) (h : ∀ q ∈ m.keys, sameKey q k = false) :
    m.get k = none := by
  unfold ODict.get
  rw [Option.map_eq_none_iff, List.find?_eq_none]
  intro p hp
  rw [h p.1 (List.mem_map.2 ⟨p, hp, rfl⟩)]
  exact Bool.false_ne_true

theorem irf_get_some_mem {m : ODict} {k : Key} {e : Entry} (h : m.get k = some e) :
    ∃ q, (q, e) ∈ m ∧ sameKey q k = true := by
  unfold ODict.get at h
  rw [Option.map_eq_some_iff] at h
  obtain ⟨p, hp, rfl⟩ := h
  exact ⟨p.1, List.mem_of_find?_eq_some hp, List.find?_some (p := fun p : Key × Entry => sameKey p.1 k) hp⟩

theorem irf_del_absent {m : ODict} {k : Key} (h : m.get k = none) : m.del k = m := by
  unfold ODict.del
  rw [List.filter_eq_self]
  intro p hp
  unfold ODict.get at h
  rw [Option.map_eq_none_iff, List.find?_eq_none] at h
  have := h p hp
  simpa using this

theorem irf_get_append (m : ODict) (k : Key) (e : Entry) (k' : Key) :
    ODict.get (m ++ [(k, e)]) k' = (m.get k').or (if sameKey k k' then some e else none) := by
  unfold ODict.get
  rw [List.find?_append]
  cases m.find? (fun p => sameKey p.1 k') with
  | some x => simp
  | none =>
    simp only [Option.none_or, Option.map_none, List.find?_cons]
    cases sameKey k k' <;> simp

theorem irf_get_set (m : ODict) (k : Key) (e : Entry) (k' : Key) :
    (m.set k e).get k' = if sameKey k k' then some e else m.get k' := by
  unfold ODict.set
  cases hh : m.has k with
  | false =>
    simp only [Bool.false_eq_true, if_false]
    rw [irf_get_append]
    have hn : m.get k = none := by
      rw [irf_has_eq] at hh
      cases hg : m.get k with
      | none => rfl
      | some x => rw [hg] at hh; cases hh
    cases hs : sameKey k k' with
    | true => rw [← irf_get_sameKey hs m, hn]; rfl
    | false => simp
  | true =>
    simp only [if_true]
    unfold ODict.get
    rw [List.find?_map]
    have hf : ((fun p : Key × Entry => sameKey p.1 k') ∘
        fun p : Key × Entry => if sameKey p.1 k = true then (p.1, e) else p) =
        fun p => sameKey p.1 k' := by
      funext p
      simp only [Function.comp]
      split <;> rfl
    rw [hf]
    cases hs : sameKey k k' with
    | true =>
      simp only [if_true]
      have hsome : (m.get k').isSome = true := by rw [← irf_get_sameKey hs m]; exact hh
      unfold ODict.get at hsome
      cases hfind : m.find? (fun p => sameKey p.1 k') with
      | none => rw [hfind] at hsome; cases hsome
      | some p =>
        have hp : sameKey p.1 k' = true := List.find?_some (p := fun p : Key × Entry => sameKey p.1 k') hfind
        have hpk : sameKey p.1 k = true := rf_sameKey_trans hp (rf_sameKey_symm hs)
        simp [hpk]
    | false =>
      simp only [Bool.false_eq_true, if_false]
      cases hfind : m.find? (fun p => sameKey p.1 k') with
      | none => rfl
      | some p =>
        have hp : sameKey p.1 k' = true := List.find?_some (p := fun p : Key × Entry => sameKey p.1 k') hfind
        have hpk : sameKey p.1 k = false := by
          cases hpk : sameKey p.1 k with
          | false => rfl
          | true => rw [rf_sameKey_trans (rf_sameKey_symm hpk) hp] at hs; cases hs
        simp [hpk]

theorem irf_keys_set (m : ODict) (k : Key) (e : Entry) :
    (m.set k e).keys = if m.has k then m.keys else m.keys ++ [k] := by
  unfold ODict.set ODict.keys
  split
  · rw [List.map_map]
    apply List.map_congr_left
    intro p _
    simp only [Function.comp]
    split <;> rfl
  · simp

theorem irf_wf_nil : ODict.WF [] := ⟨List.Pairwise.nil, nofun⟩

/-- extensionality: the key list and the look-ups determine an ordered dictionary -/
theorem irf_ext : ∀ (a b : ODict), a.WF → a.keys = b.keys → (∀ k, a.get k = b.get k) → a = b
  | [], [], _, _, _ => rfl
  | [], _ :: _, _, hk, _ => by simp [ODict.keys] at hk
  | _ :: _, [], _, hk, _ => by simp [ODict.keys] at hk
  | (ka, ea) :: ta, (kb, eb) :: tb, hw, hk, hg => by
    have hk' : ka = kb ∧ ODict.keys ta = ODict.keys tb := by
      simpa [ODict.keys] using hk
    obtain ⟨rfl, hkt⟩ := hk'
    have hself : sameKey ka ka = true := hw.2 _ (List.mem_cons_self ..)
    have he : ea = eb := by
      have := hg ka
      simp only [ODict.get, List.find?_cons, hself, Option.map_some, Option.some.injEq] at this
      exact this
    subst he
    have hpw := List.pairwise_cons.1 hw.1
    have hwt : ODict.WF ta := ⟨hpw.2, fun p hp => hw.2 p (List.mem_cons_of_mem _ hp)⟩
    have hdiff : ∀ k, sameKey ka k = true → ∀ q ∈ ODict.keys ta, sameKey q k = false := by
      intro k hs q hq
      obtain ⟨p, hp, rfl⟩ := List.mem_map.1 hq
      cases hqk : sameKey p.1 k with
      | false => rfl
      | true =>
        have := hpw.1 p hp
        rw [rf_sameKey_trans hs (rf_sameKey_symm hqk)] at this
        cases this
    have : ta = tb := irf_ext ta tb hwt hkt (fun k => by
      cases hs : sameKey ka k with
      | false =>
        have h := hg k
        simpa only [ODict.get, List.find?_cons, hs] using h
      | true =>
        rw [irf_get_none_of_keys ta k (hdiff k hs),
          irf_get_none_of_keys tb k (by rw [← hkt]; exact hdiff k hs)])
    rw [this]

/-! ### the abstraction of a cache state -/

/-- the stored key of a row -/
def irf_key (r : Row) : Key := (r.key, r.raw)

/-- the rows in order, each with the entry it denotes -/
def irf_abs (c : Cache) : ODict := c.rows.map (fun r => (irf_key r, rf_ent c r))

theorem irf_abs_keys (c : Cache) : (irf_abs c).keys = c.rows.map irf_key := by
  unfold irf_abs ODict.keys
  rw [List.map_map]
  rfl

theorem irf_abs_length (c : Cache) : (irf_abs c).length = c.rows.length := by
  unfold irf_abs; rw [List.length_map]

/-- the look-ups of the abstraction are the view of C03_Refine -/
theorem irf_abs_get (c : Cache) (k : Key) : (irf_abs c).get k = rf_view c k := by
  unfold irf_abs ODict.get rf_view rf_look
  rw [List.find?_map, Option.map_map]
  have : ((fun p : Key × Entry => sameKey p.1 k) ∘ fun r => (irf_key r, rf_ent c r)) =
      keyMatch k.1 k.2 := by
    funext r; rfl
  rw [this]
  cases c.rows.find? (keyMatch k.1 k.2) <;> rfl

theorem irf_abs_has (c : Cache) (k : Key) :
    (irf_abs c).has k = c.rows.any (keyMatch k.1 k.2) := by
  rw [irf_has_eq, irf_abs_get]
  unfold rf_view rf_look
  rw [Option.isSome_map, Bool.eq_iff_iff, List.find?_isSome, List.any_eq_true]

theorem irf_abs_wf {c : Cache} (h : TableInv c) : (irf_abs c).WF := by
  unfold irf_abs ODict.WF
  refine ⟨?_, ?_⟩
  · rw [List.pairwise_map]
    refine List.Pairwise.imp ?_ h.tbl.uniq
    intro a b hab
    simp only [irf_key, sameKey]
    cases h1 : a.key.eqv b.key with
    | false => rfl
    | true =>
      cases h2 : (a.raw == b.raw) with
      | false => rfl
      | true => exact absurd ⟨h1, by simpa using h2⟩ hab
  · intro p hp
    obtain ⟨r, hr, rfl⟩ := List.mem_map.1 hp
    simp only [irf_key, sameKey, Bool.and_eq_true, beq_self_eq_true, and_true]
    exact eqv_self (h.tbl.nonnull r hr)

theorem irf_abs_core {a b : Cache} (h : core a = core b) : irf_abs a = irf_abs b := by
  have hr : a.rows = b.rows := congrArg Core.rows h
  have hf : a.files = b.files := congrArg Core.files h
  unfold irf_abs
  rw [hr]
  apply List.map_congr_left
  intro r _
  unfold rf_ent fileGet
  rw [hf]

/-- an ordered step: the key list and the view determine the abstraction -/
theorem irf_abs_of {c : Cache} {m : ODict} (ht : TableInv c)
    (hk : c.rows.map irf_key = m.keys) (hv : ∀ k, rf_view c k = m.get k) : irf_abs c = m :=
  irf_ext _ _ (irf_abs_wf ht) (by rw [irf_abs_keys, hk]) (fun k => by rw [irf_abs_get, hv])

/-! ### `Good` from `core` -/

theorem irf_good_core {a b : Cache} (hb : Good b) (hc : core a = core b) (ht : TableInv a) : Good a :=
  good_of_pi ht (by rw [hc]; exact hb.pi)

/-- a state that only allocated file names -/
theorem irf_good_nfile {a b : Cache} (hb : Good b) (n : Nat) (hn : b.nfile ≤ n)
    (hc : core a = { core b with nfile := n }) (ht : TableInv a) : Good a := by
  apply good_of_pi ht
  rw [hc]
  have hP := hb.pi
  exact ⟨hP.uid, hP.ref, hP.inj, fun p hp => Nat.lt_of_lt_of_le (hP.fresh p hp) hn, hP.nodup,
    hP.orphan, hP.depth, hP.snap, hP.pending, hP.created⟩

/-- without expiry "culled" is "equal" -/
theorem irf_culled_eq {now : Int} {v1 v2 : Key → Option Entry} (hc : rf_Culled now v1 v2)
    (hne : ∀ k e, v1 k = some e → e.expT = none) (k : Key) : v2 k = v1 k := by
  rcases hc k with h | ⟨-, e, he, hx⟩
  · exact h
  · have := hne k e he
    simp [Entry.expired, this] at hx

theorem irf_view_noexp {c : Cache} (h : NoExp c.rows) {k : Key} {e : Entry}
    (hv : rf_view c k = some e) : e.expT = none := by
  unfold rf_view rf_look at hv
  rw [Option.map_eq_some_iff] at hv
  obtain ⟨r, hr, rfl⟩ := hv
  exact h r (List.mem_of_find?_eq_some hr)

theorem irf_live_noexp {e : Entry} (h : e.expT = none) (now : Int) : e.live now = true := by
  simp [Entry.live, h]

end DC.Cache
