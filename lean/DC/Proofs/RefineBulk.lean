/-
C03_Refine, model side, the bulk removals: `clear`, `evict`, `expire`, `cull`
(policy `none`).  The row sets come from the paging theorems (C03_Paging, C04,
C09); here: the files that remain are files of the state before, and what a
filtered table denotes.
-/
import DC.Proofs.RefineOps

namespace DC.Cache
open DC.Spec

theorem rf_deletePage_files (s : Cache) (page : List Row) (sel : String) :
    ∀ p ∈ (s.deletePage page sel).files, p ∈ s.files := by
  intro p hp
  rw [deletePage_eq] at hp
  by_cases hd : s.depth > 0
  · have ht := transact_pos s (pageBody page sel) hd
    have hb := pageBody_keep page sel s
    rw [ht.2.2.2.2.2, hb.2.2.2.2.2] at hp
    exact hp
  · have hd0 : s.depth = 0 := by omega
    rw [transact_zero s _ hd0 (pageBody_ok _ _ _)] at hp
    have h2 := mem_of_fremoveAll hp
    have hb := pageBody_keep page sel (s.log .begin)
    rw [log_files, hb.2.2.2.2.2] at h2
    exact h2

theorem rf_evictLoop_files (tag : SqlVal) : ∀ (fuel : Nat) (s : Cache) (cur n : Nat),
    ∀ p ∈ (evictLoop tag fuel s cur n).1.files, p ∈ s.files := by
  intro fuel
  induction fuel with
  | zero => intro s cur n p hp; exact hp
  | succ f ih =>
    intro s cur n p hp
    unfold evictLoop at hp
    simp only at hp
    split at hp
    · exact rf_deletePage_files _ _ _ p hp
    · exact rf_deletePage_files _ _ _ p (ih _ _ _ p hp)

theorem rf_expireLoop_files (now : Int) : ∀ (fuel : Nat) (s : Cache) (lo : Option Int) (n : Nat),
    ∀ p ∈ (expireLoop now fuel s lo n).1.files, p ∈ s.files := by
  intro fuel
  induction fuel with
  | zero => intro s lo n p hp; exact hp
  | succ f ih =>
    intro s lo n p hp
    unfold expireLoop at hp
    simp only at hp
    split at hp
    · exact rf_deletePage_files _ _ _ p hp
    · exact rf_deletePage_files _ _ _ p (ih _ _ _ p hp)

theorem rf_evict_files (s : Cache) (tag : SqlVal) : ∀ p ∈ (s.evict tag).1.files, p ∈ s.files := by
  unfold evict
  have := rf_evictLoop_files tag (s.rows.length + 1) s 0 0
  generalize evictLoop tag (s.rows.length + 1) s 0 0 = r at this
  rcases r with ⟨s1, n1⟩
  exact this

theorem rf_expire_files (s : Cache) (now : Int) : ∀ p ∈ (s.expire now).1.files, p ∈ s.files := by
  unfold expire
  have := rf_expireLoop_files now (s.rows.length + 1) s none 0
  generalize expireLoop now (s.rows.length + 1) s none 0 = r at this
  rcases r with ⟨s1, n1⟩
  exact this

theorem rf_cull_files (s : Cache) (now : Int) (hasc : RowidsAsc s.rows) (hpg : 0 < s.cfg.page)
    (hp : s.cfg.policy = .none) : ∀ p ∈ (s.cull now).1.files, p ∈ s.files := by
  rw [cull_eq]
  have h3 := (expire_spec s now hasc hpg).2.2
  have := rf_expireLoop_files now (s.rows.length + 1) s none 0
  generalize expireLoop now (s.rows.length + 1) s none 0 = r at this h3
  rcases r with ⟨s1, n1⟩
  simp only at h3 this ⊢
  rw [h3, hp]
  exact this

/-- what the table denotes after the rows failing a test on the entry are gone -/
theorem rf_view_filter {c c' : Cache} (hg : Good c) (hg' : Good c') (p : Row → Bool) (pE : Entry → Bool)
    (hpe : ∀ r, p r = pE (rf_ent c r))
    (hrows : c'.rows = c.rows.filter p) (hfiles : ∀ q ∈ c'.files, q ∈ c.files) (k' : Key) :
    rf_view c' k' = (rf_view c k').filter pE := by
  rw [rf_same hg' (b := c) hfiles hg.finv.nodup, hrows, rf_look_filter hg.tinv.tbl.uniq]
  unfold rf_view rf_look
  cases c.rows.find? (keyMatch k'.1 k'.2) with
  | none => rfl
  | some x =>
    simp only [Option.filter, Option.map_some, hpe x]
    split <;> rfl

theorem rf_VRel_filter {v d : Option Entry} {now : Int} (pE : Entry → Bool) (h : rf_VRel v d now) :
    rf_VRel (v.filter pE) (d.filter pE) now := by
  rcases rf_VRel_cases h with h1 | ⟨h1, e, hd, he, -⟩
  · rw [h1]; exact rf_VRel_refl _ _
  · rw [h1, hd]
    simp only [Option.filter]
    split
    · exact .inr ⟨rfl, he⟩
    · rfl

/-- the dictionary and the cache drop the entries failing the same test -/
theorem rf_filter_refines {c c' : Cache} {m : Dict} {now : Int} (pE : Entry → Bool)
    (hr : m.WF ∧ ∀ k, rf_VRel (rf_view c k) (m.get k) now)
    (hV : ∀ k', rf_view c' k' = (rf_view c k').filter pE) :
    Dict.WF (m.filter (fun x => pE x.2)) ∧
    ∀ k, rf_VRel (rf_view c' k) (Dict.get (m.filter (fun x => pE x.2)) k) now := by
  refine ⟨rf_wf_filter hr.1 _, fun k => ?_⟩
  rw [hV k, rf_get_filter hr.1]
  exact rf_VRel_filter pE (hr.2 k)

theorem rf_view_nil {c : Cache} (h : c.rows = []) (k : Key) : rf_view c k = none := by
  unfold rf_view rf_look; rw [h]; rfl

end DC.Cache
