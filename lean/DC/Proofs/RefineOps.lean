/-
C03_Refine, model side: what every key-addressed method of the Cache model does
to the *view* of the state (`rf_view`, DC/Proofs/RefineLemmas.lean), for a
quiescent state (`Good`) with eviction policy `none`.
-/
import DC.Proofs.RefineLemmas
import DC.Proofs.Block

namespace DC.Cache
open DC.Spec

/-! ### generic facts -/

theorem rf_view_core {a b : Cache} (h : core a = core b) (k : Key) : rf_view a k = rf_view b k := by
  have hr : a.rows = b.rows := congrArg Core.rows h
  have hf : a.files = b.files := congrArg Core.files h
  unfold rf_view rf_look
  rw [hr]
  congr 1
  funext r
  unfold rf_ent fileGet
  rw [hf]

theorem rf_find_and {X : List Row} (hu : KeysUnique X) (k : SqlVal) (raw : Bool) (p : Row → Bool) :
    X.find? (fun r => keyMatch k raw r && p r) = (X.find? (keyMatch k raw)).filter p := by
  cases hf : X.find? (keyMatch k raw) with
  | none =>
    simp only [Option.filter_none, List.find?_eq_none]
    intro x hx hc
    rw [Bool.and_eq_true] at hc
    exact List.find?_eq_none.1 hf x hx hc.1
  | some x =>
    have hx := List.mem_of_find?_eq_some hf
    have hkx : keyMatch k raw x = true := List.find?_some hf
    cases hp : p x with
    | true =>
      simp only [Option.filter, hp, if_true]
      cases h2 : X.find? (fun r => keyMatch k raw r && p r) with
      | none =>
        have := List.find?_eq_none.1 h2 x hx
        simp [hkx, hp] at this
      | some y =>
        have hy := List.mem_of_find?_eq_some h2
        have hky := List.find?_some h2
        rw [Bool.and_eq_true] at hky
        rw [keysUnique_eq hu hy hx hky.1 hkx]
    | false =>
      simp only [Option.filter, hp, Bool.false_eq_true, if_false, List.find?_eq_none]
      intro y hy hky
      rw [Bool.and_eq_true] at hky
      have := keysUnique_eq hu hy hx hky.1 hkx
      subst this
      rw [hp] at hky; exact Bool.false_ne_true hky.2

theorem rf_selLive {s : Cache} (hu : KeysUnique s.rows) (k : SqlVal) (raw : Bool) (now : Int) :
    s.selLive k raw now = (s.selKey k raw).filter (live now) := rf_find_and hu k raw _

/-- a transaction at depth 0 -/
theorem rf_transact (s : Cache) (body : Cache → Body) (fresh : Option Nat) (hd : s.depth = 0) :
    (s.transact body fresh).1.rows =
      (if (body (s.log .begin)).ok then (body (s.log .begin)).s.rows else s.rows) ∧
    (∀ p ∈ (s.transact body fresh).1.files, p ∈ (body (s.log .begin)).s.files) ∧
    (s.transact body fresh).1.cfg = (body (s.log .begin)).s.cfg ∧
    (s.transact body fresh).2 = (body (s.log .begin)).out := by
  unfold transact
  simp only [hd, Nat.lt_irrefl, if_false]
  cases hok : (body (s.log .begin)).ok with
  | true =>
    simp only [if_true, fremoveAll_rows, fremoveAll_cfg, log_rows, log_cfg]
    refine ⟨trivial, ?_, trivial, trivial⟩
    intro p hp
    exact mem_of_fremoveAll (s := (body (s.log .begin)).s.log .commit) hp
  | false =>
    simp only [Bool.false_eq_true, if_false]
    cases fresh with
    | none => exact ⟨rfl, fun p hp => hp, rfl, trivial⟩
    | some f =>
      refine ⟨rfl, ?_, rfl, trivial⟩
      intro p hp
      exact (List.mem_filter.1 hp).1

/-- `Disk.fetch` of a row is `fetch` of the entry it denotes -/
theorem rf_fetchRow (s : Cache) (E : Externals) (r : Row) (read : Bool)
    (href : ∀ f, r.file = some f → ∃ ct, s.fileGet f = some ct) :
    (s.fetchRow E r read).2 =
      fetch E s.cfg.disk (rf_ent s r).mode (rf_ent s r).content (rf_ent s r).content.isSome
        (rf_ent s r).val read := by
  unfold fetchRow rf_ent
  cases hf : r.file with
  | none => rfl
  | some f =>
    obtain ⟨ct, hct⟩ := href f hf
    simp only [Option.bind_some, hct, Option.isSome_some]
    split <;> simp [hct]

/-- the result shape of `get` / `pop` is `Entry.out` -/
theorem rf_out (s : Cache) (E : Externals) (r : Row) (read et tg : Bool)
    (href : ∀ f, r.file = some f → ∃ ct, s.fileGet f = some ct) :
    (match (s.fetchRow E r read).2 with
      | .ioerror => defaultFlags et tg
      | f => withFlags (fetchedOut f) et tg r.expT r.tag) = (rf_ent s r).out E s.cfg read et tg := by
  rw [rf_fetchRow s E r read href]
  rfl

/-- a committed transaction that changes neither rows nor files -/
theorem rf_transact_core_same (s : Cache) (body : Cache → Body) (fresh : Option Nat) (hd : s.depth = 0)
    (hb : (body (s.log .begin)).ok = true ∧ (body (s.log .begin)).cleanup = [] ∧
      core (body (s.log .begin)).s = core s) :
    core (s.transact body fresh).1 = core s := by
  rw [transact_ok_core s body fresh hd hb.1, hb.2.1, hb.2.2]
  have : ∀ l : List (Nat × Content),
      l.filter (fun p => !([] : List (Option Nat)).contains (some p.1)) = l := by
    intro l; rw [List.filter_eq_self]; intros; rfl
  simp only [core_files, this]
  rfl

/-! ### `get`, `contains` -/

theorem rf_get_core (s : Cache) (E : Externals) (now : Int) (k : PyVal) (read et tg : Bool)
    (hd : s.depth = 0) (hp : s.cfg.policy = .none) :
    core (s.get E now k read et tg).1 = core s := by
  unfold get
  rcases DC.put E s.cfg.disk k with ⟨dbk, raw⟩
  simp only
  split
  · split
    · rfl
    · split <;> simp
  · apply rf_transact_core_same _ _ _ hd
    simp only [selLive_log]
    split
    · refine ⟨rfl, rfl, ?_⟩
      split <;> core_simp
    · split
      · refine ⟨rfl, rfl, ?_⟩
        split <;> core_simp
      · refine ⟨rfl, rfl, ?_⟩
        have hpu : ∀ t : Cache, core t = core s → policyUpdates t.cfg.policy = false := by
          intro t ht
          have : t.cfg = s.cfg := congrArg Core.cfg ht
          rw [this, hp]; rfl
        split <;> split
        all_goals first
          | (core_simp; done)
          | (rename_i hc; rw [hpu _ (by core_simp)] at hc; cases hc)

theorem rf_get_out (s : Cache) (E : Externals) (now : Int) (k : PyVal) (read et tg : Bool)
    (hg : Good s) :
    (s.get E now k read et tg).2 =
      match s.selLive (DC.put E s.cfg.disk k).1 (DC.put E s.cfg.disk k).2 now with
      | none => defaultFlags et tg
      | some r => (rf_ent s r).out E s.cfg read et tg := by
  unfold get
  rcases DC.put E s.cfg.disk k with ⟨dbk, raw⟩
  simp only
  split
  · cases hsel : s.selLive dbk raw now with
    | none => rfl
    | some r =>
      simp only
      have := rf_out s E r read et tg (rf_good_ref hg (selLive_mem hsel))
      rw [← this, fetchRow_snd_congr (s.logSql "selLive") s E r read rfl rfl]
      split <;> simp_all
  · rw [transact_snd _ _ _ hg.depth]
    simp only [selLive_log]
    cases hsel : s.selLive dbk raw now with
    | none => rfl
    | some r =>
      simp only
      have := rf_out s E r read et tg (rf_good_ref hg (selLive_mem hsel))
      rw [← this, fetchRow_snd_congr ((s.log .begin).logSql "selLive") s E r read rfl rfl]
      split <;> simp_all

theorem rf_selLive_view {s : Cache} (hu : KeysUnique s.rows) (E : Externals) (k : PyVal) (now : Int) :
    (s.selLive (DC.put E s.cfg.disk k).1 (DC.put E s.cfg.disk k).2 now).map (rf_ent s) =
      (rf_view s (keyOf E s.cfg k)).filter (fun e => e.live now) := by
  rw [rf_selLive hu]
  unfold rf_view rf_look keyOf selKey
  cases hf : s.rows.find? (keyMatch (DC.put E s.cfg.disk k).1 (DC.put E s.cfg.disk k).2) with
  | none => rfl
  | some r =>
    simp only [Option.filter, Option.map_some, rf_ent_live]
    by_cases hl : live now r = true <;> simp [hl]

theorem rf_get_out' (s : Cache) (E : Externals) (now : Int) (k : PyVal) (read et tg : Bool)
    (hg : Good s) :
    (s.get E now k read et tg).2 =
      match rf_view s (keyOf E s.cfg k) with
      | some e => if e.live now then e.out E s.cfg read et tg else defaultFlags et tg
      | none => defaultFlags et tg := by
  rw [rf_get_out _ _ _ _ _ _ _ hg]
  have := rf_selLive_view hg.tinv.tbl.uniq E k now
  cases hv : rf_view s (keyOf E s.cfg k) with
  | none =>
    rw [hv] at this
    simp only [Option.filter_none, Option.map_eq_none_iff] at this
    rw [this]
  | some e =>
    rw [hv] at this
    cases hl : e.live now with
    | true =>
      simp only [Option.filter, hl, if_true, Option.map_eq_some_iff] at this
      obtain ⟨r, hr, rfl⟩ := this
      rw [hr]; simp [hl]
    | false =>
      simp only [Option.filter, hl, Bool.false_eq_true, if_false, Option.map_eq_none_iff] at this
      rw [this]; simp [hl]

theorem rf_contains_out (s : Cache) (E : Externals) (now : Int) (k : PyVal) (hg : Good s) :
    (s.contains E now k).2 =
      .bool (match rf_view s (keyOf E s.cfg k) with
        | some e => e.live now
        | none => false) := by
  have := rf_selLive_view hg.tinv.tbl.uniq E k now
  unfold contains
  simp only
  congr 1
  cases hv : rf_view s (keyOf E s.cfg k) with
  | none =>
    rw [hv] at this
    simp only [Option.filter_none, Option.map_eq_none_iff] at this
    rw [this]; rfl
  | some e =>
    rw [hv] at this
    cases hl : e.live now with
    | true =>
      simp only [Option.filter, hl, if_true, Option.map_eq_some_iff] at this
      obtain ⟨r, hr, rfl⟩ := this
      rw [hr]; simp [hl]
    | false =>
      simp only [Option.filter, hl, Bool.false_eq_true, if_false, Option.map_eq_none_iff] at this
      rw [this]; simp [hl]

theorem rf_contains_core (s : Cache) (E : Externals) (now : Int) (k : PyVal) :
    core (s.contains E now k).1 = core s := rfl

end DC.Cache
