/-
`Cache.check(fix)` (core.py:1890-2020, after fix D7) on a possibly damaged
directory.  Only what `check` reads is modelled: the rows' (rowid, size,
filename), the two Settings counters, the files `os.walk(directory)` finds with
their real sizes -- in the two-level value tree `xx/yy/`, directly in a
first-level directory `xx/`, or directly in the cache directory -- and the
directories themselves (two levels).  Each file carries the outcome of the test
`DBNAME in full_path` (core.py, file pass), a SUBSTRING test on the full path.
`PRAGMA integrity_check` / `VACUUM` are SQLite-internal and not modelled.
-/
import DC.Model.Value

namespace DC.Check

structure CRow where
  rowid : Nat
  size : Nat
  file : Option Nat        -- file id, if the value is kept in a file
  deriving DecidableEq, Repr

/-- where `os.walk` finds a file -/
inductive Level where
  | top                    -- directly in the cache directory (`d1`, `d2` unused)
  | first                  -- directly in the first-level directory `d1` (`d2` unused)
  | leaf                   -- in `d1/d2/`: the value tree
  deriving DecidableEq, Repr

structure FsFile where
  id : Nat
  d1 : Nat                 -- first-level directory
  d2 : Nat                 -- second-level directory (inside d1)
  size : Nat               -- real size on disk
  level : Level := .leaf   -- where the file lies (default: in the value tree)
  db : Bool := false       -- the full path contains the text `cache.db` (`DBNAME in full_path`)
  deriving DecidableEq, Repr

/-- the file lies in the second-level directory `d` -/
def FsFile.inDir2 (f : FsFile) (d : Nat × Nat) : Bool := f.level == .leaf && (f.d1 == d.1 && f.d2 == d.2)

/-- the file lies in or below the first-level directory `d` -/
def FsFile.under (f : FsFile) (d : Nat) : Bool := f.level != .top && f.d1 == d

structure St where
  rows : List CRow
  count : Int              -- Settings.count
  size : Int               -- Settings.size
  files : List FsFile
  dirs1 : List Nat                 -- existing first-level directories
  dirs2 : List (Nat × Nat)         -- existing second-level directories
  deriving DecidableEq, Repr

inductive Warn where
  | wrongSize (rowid : Nat) (real recorded : Nat)
  | notFound (rowid : Nat)
  | unknown (file : Nat)
  | emptyDir2 (d1 d2 : Nat)
  | emptyDir1 (d1 : Nat)
  | count (settings actual : Int)
  | size (settings actual : Int)
  deriving DecidableEq, Repr

def fileOf (s : St) (f : Nat) : Option FsFile := s.files.find? (·.id == f)

def sumSizes (rows : List CRow) : Int := (rows.map (fun r => (r.size : Int))).sum

/-- rows against files: a wrong size is corrected, a missing file drops the row.  The size /
count triggers keep the Settings counters in step with each UPDATE / DELETE. -/
def rowPass (fix : Bool) (s : St) : List CRow → St × List Warn
  | [] => (s, [])
  | r :: rest =>
    match r.file with
    | none => rowPass fix s rest
    | some f =>
      match fileOf s f with
      | some ff =>
        if ff.size != r.size then
          let s' := if fix then
            { s with rows := s.rows.map (fun x => if x.rowid == r.rowid then { x with size := ff.size } else x),
                     size := s.size + ff.size - r.size } else s
          let (s'', w) := rowPass fix s' rest
          (s'', .wrongSize r.rowid ff.size r.size :: w)
        else rowPass fix s rest
      | none =>
        let s' := if fix then
          { s with rows := s.rows.filter (·.rowid != r.rowid), count := s.count - 1, size := s.size - r.size }
          else s
        let (s'', w) := rowPass fix s' rest
        (s'', .notFound r.rowid :: w)

/-- files against rows: a file no row (of the table as it was read) names is unknown, at
whatever level `os.walk` finds it -- unless its full path contains the text `cache.db`
(`if DBNAME in full_path: continue`), in which case it is passed over in silence -/
def filePass (fix : Bool) (named : List Nat) (s : St) : St × List Warn :=
  let unk := s.files.filter (fun f => !named.contains f.id && !f.db)
  let s' := if fix then { s with files := s.files.filter (fun f => named.contains f.id || f.db) } else s
  (s', unk.map (fun f => .unknown f.id))

def dir2Empty (s : St) (d : Nat × Nat) : Bool := !s.files.any (·.inDir2 d)

/-- bottom-up: second-level directories first, then first-level ones; a directory is empty
when it currently has no entry (files or subdirectories) -/
def dirPass (fix : Bool) (s : St) : St × List Warn :=
  let e2 := s.dirs2.filter (dir2Empty s)
  let s2 := if fix then { s with dirs2 := s.dirs2.filter (fun d => !dir2Empty s d) } else s
  let e1 := s2.dirs1.filter (fun d => !s2.dirs2.any (·.1 == d) && !s2.files.any (·.under d))
  let s1 := if fix then { s2 with dirs1 := s2.dirs1.filter (fun d => !e1.contains d) } else s2
  (s1, e2.map (fun d => .emptyDir2 d.1 d.2) ++ e1.map .emptyDir1)

def counterPass (fix : Bool) (s : St) : St × List Warn :=
  let n : Int := s.rows.length
  let (s1, w1) := if s.count != n then ((if fix then { s with count := n } else s), [Warn.count s.count n]) else (s, [])
  let z := sumSizes s1.rows
  let (s2, w2) := if s1.size != z then ((if fix then { s1 with size := z } else s1), [Warn.size s1.size z]) else (s1, [])
  (s2, w1 ++ w2)

/-- `Cache.check(fix)`: the warnings in the order the passes produce them, and the state left -/
def check (fix : Bool) (s : St) : St × List Warn :=
  let named := s.rows.filterMap (·.file)
  let (s1, w1) := rowPass fix s s.rows
  let (s2, w2) := filePass fix named s1
  let (s3, w3) := dirPass fix s2
  let (s4, w4) := counterPass fix s3
  (s4, w1 ++ w2 ++ w3 ++ w4)

end DC.Check
