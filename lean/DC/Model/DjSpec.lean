/-
The Django-level specification of C19: the Django cache-backend contract as a thin layer
over the reference dictionary of `DC/Model/Spec.lean`.  No shards, no routing, no rows:

 * the dictionary key of `(key, version)` is the stored form of the text
   `"<prefix>:<version>:<key>"` (`version = None` means the configured version);
 * the `timeout` argument: `None` ↦ the item never expires, `DEFAULT_TIMEOUT` ↦ the configured
   default, a number `t` ↦ the item expires at `now + t`, where `0` stands for "already expired"
   (expiry time `now - 1`);
 * `incr` / `decr` on a key that has no item, or whose item expired, raise `ValueError`;
   `decr(key, delta)` is `incr(key, -delta)`.

`DC/Properties/C19_Refine.lean` proves that the DjangoCache model of `DC/Model/Layers.lean`
(namespaced keys → FanoutCache → shard → Cache) refines it for every history of the calls below.
-/
import DC.Model.Layers
import DC.Model.Spec

namespace DC.DjSpec
open DC.Cache

/-- one call of a Django cache history: `key : Str`, `version : Option Int` (`None` = the
configured version), `t : Timeout` -/
inductive DOp where
  | set (E : Externals) (now : Int) (key : Str) (v : PyVal) (t : Timeout) (version : Option Int)
      (tag : SqlVal)
  | add (E : Externals) (now : Int) (key : Str) (v : PyVal) (t : Timeout) (version : Option Int)
      (tag : SqlVal)
  | get (E : Externals) (now : Int) (key : Str) (version : Option Int)
  | touch (E : Externals) (now : Int) (key : Str) (t : Timeout) (version : Option Int)
  | delete (E : Externals) (now : Int) (key : Str) (version : Option Int)
  | pop (E : Externals) (now : Int) (key : Str) (version : Option Int)
  | hasKey (E : Externals) (now : Int) (key : Str) (version : Option Int)
  | incr (E : Externals) (now : Int) (key : Str) (delta : Int) (version : Option Int)
  | decr (E : Externals) (now : Int) (key : Str) (delta : Int) (version : Option Int)
  | clear

/-- what a Django cache is configured with: KEY_PREFIX, VERSION, TIMEOUT -/
structure Conf where
  keyPrefix : Str := []
  version : Int := 1
  defaultTimeout : Option Int := some 300
  deriving Repr, Inhabited

/-- decimal digits of a natural number -/
def digits (n : Nat) : Str := (Nat.toDigits 10 n).map Char.toNat

/-- a version number as text -/
def verText (v : Int) : Str := if v < 0 then 45 :: digits (-v).toNat else digits v.toNat

/-- the text `"<prefix>:<version>:<key>"` -/
def key (C : Conf) (k : Str) (version : Option Int) : PyVal :=
  .str (C.keyPrefix ++ [58] ++ verText (version.getD C.version) ++ [58] ++ k)

/-- seconds to live; `none` = for ever -/
def ttl (C : Conf) : Timeout → Option Int
  | .forever => none
  | .dflt => C.defaultTimeout
  | .secs t => some (if t = 0 then -1 else t)

/-- `incr`: add `delta` to the integer stored under the key; ValueError if there is no item or
the item expired -/
def incr (m : Spec.Dict) (C : Conf) (cfg : Cfg) (E : Externals) (now : Int) (k : Str) (delta : Int)
    (version : Option Int) : Spec.Dict × Out :=
  match m.get (Spec.keyOf E cfg (key C k version)) with
  | none => (m, .exc "ValueError")
  | some e =>
    if e.expired now then (m, .exc "ValueError")
    else Spec.incr m E cfg now (key C k version) delta none

/-- one call -/
def step (m : Spec.Dict) (C : Conf) (cfg : Cfg) : DOp → Spec.Dict × Out
  | .set E now k v t ver tag => Spec.set m E cfg now (key C k ver) v (ttl C t) false tag
  | .add E now k v t ver tag => Spec.add m E cfg now (key C k ver) v (ttl C t) false tag
  | .get E now k ver => Spec.get m E cfg now (key C k ver) false false false
  | .touch E now k t ver => Spec.touch m E cfg now (key C k ver) (ttl C t)
  | .delete E now k ver => Spec.delete m E cfg now (key C k ver)
  | .pop E now k ver => Spec.pop m E cfg now (key C k ver) false false
  | .hasKey E now k ver => Spec.contains m E cfg now (key C k ver)
  | .incr E now k delta ver => incr m C cfg E now k delta ver
  | .decr E now k delta ver => incr m C cfg E now k (-delta) ver
  | .clear => Spec.clear m

/-- the dictionary after a history -/
def run (m : Spec.Dict) (C : Conf) (cfg : Cfg) (ops : List DOp) : Spec.Dict :=
  ops.foldl (fun m op => (step m C cfg op).1) m

/-- the results of a history (`clear` returns the number of rows removed, which the dictionary does
not determine: `Spec.clear` returns `.none`) -/
def outs (m : Spec.Dict) (C : Conf) (cfg : Cfg) : List DOp → List Out
  | [] => []
  | op :: ops => (step m C cfg op).2 :: outs (step m C cfg op).1 C cfg ops

end DC.DjSpec
