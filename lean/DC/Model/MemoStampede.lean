/-
`memoize_stampede` (recipes.py:358-488): memoization with probabilistic early recomputation.

    key = args_to_key(base, args, kwargs, typed, ignore)
    pair, expire_time = cache.get(key, default=ENOVAL, expire_time=True)
    if pair is not ENOVAL:
        result, delta = pair                                   # TypeError if the value is not a pair
        ttl = expire_time - now                                # TypeError if expire_time is None
        if -delta * beta * log(random()) < ttl: return result  # hit
        if cache.add(key + (ENOVAL,), None, expire=delta):     # marker: "a recomputation is running"
            start a thread:  cache.set(key, timer(*args), expire=expire)
        return result                                          # the OLD value, at once
    pair = timer(*args); cache.set(key, pair, expire=expire); return pair[0]

The cache is an abstract map from keys to (entry, expiry); an entry is a (result, delta) pair or a
marker.  Only the OUTCOME of the random test matters, so it is an argument (`hit`); so are the
measured running times (`delta`).  The sentinel appended to make the marker key is a parameter
`sentinel : Tok` of the configuration: the real code uses ENOVAL, a value no key built by
`args_to_key` contains; the seeded defect is `sentinel := Tok.none` (Python `None`, the separator
that EVERY call key contains).  A result `none` stands for the TypeError of the two marked lines.
-/
import DC.Model.Memo

namespace DC.Memo

inductive Entry (R : Type) where
  | pair (r : R) (delta : Int)     -- what the wrapper stores under the key of a call
  | marker                         -- `None` stored under key + (sentinel,)
  deriving DecidableEq, Repr

/-- the cache as the recipe sees it: key ↦ (entry, expire time) -/
abbrev SCache (R : Type) := List Tok → Option (Entry R × Option Int)

def SCache.empty {R} : SCache R := fun _ => none

/-- `cache.get(key, expire_time=True)`: entries whose time has come are not seen -/
def SCache.look {R} (c : SCache R) (k : List Tok) (now : Int) : Option (Entry R × Option Int) :=
  match c k with
  | some (v, some t) => if t > now then some (v, some t) else none
  | x => x

/-- `cache.set(key, value, expire)` -/
def SCache.put {R} (c : SCache R) (k : List Tok) (v : Entry R) (e : Option Int) : SCache R :=
  fun k' => if k' = k then some (v, e) else c k'

/-- eviction, culling, `del cache[key]`, `cache.clear()` one key at a time -/
def SCache.drop {R} (c : SCache R) (k : List Tok) : SCache R :=
  fun k' => if k' = k then none else c k'

/-- the decorator's parameters -/
structure Conf where
  base : List Tok
  typed : Bool := false
  ignPos : List Nat := []
  ignKw : List Nat := []
  expire : Option Int          -- `expire` has no default but `None` is accepted
  sentinel : Tok               -- ENOVAL in the real code

def Conf.key (cf : Conf) (args : List Arg) (kw : Kwargs) : List Tok :=
  argsToKey cf.base args kw cf.typed cf.ignPos cf.ignKw

def Conf.markerKey (cf : Conf) (args : List Arg) (kw : Kwargs) : List Tok :=
  cf.key args kw ++ [cf.sentinel]

/-- a started recomputation thread: it will run `f` on these arguments and store the result -/
abbrev Job := List Arg × Kwargs

/-- what one call of the wrapper yields -/
structure Outcome (R : Type) where
  result : Option R        -- `none` = TypeError
  cache : SCache R
  runs : Nat               -- how often `f` ran inside this call
  job : Option Job         -- the recomputation thread started by this call

/-- one call at clock `now`; `hit` is the outcome of `-delta*beta*log(u) < ttl`, `delta` the time
`f` takes if it runs -/
def scall {R} (cf : Conf) (f : List Arg → Kwargs → R) (now : Int) (hit : Bool) (delta : Int)
    (c : SCache R) (args : List Arg) (kw : Kwargs) : Outcome R :=
  match c.look (cf.key args kw) now with
  | none =>
    let r := f args kw
    ⟨some r, c.put (cf.key args kw) (.pair r delta) (cf.expire.map (now + ·)), 1, none⟩
  | some (.marker, _) => ⟨none, c, 0, none⟩            -- `result, delta = None`
  | some (.pair _ _, none) => ⟨none, c, 0, none⟩        -- `ttl = None - now`
  | some (.pair r d, some _) =>
    if hit then ⟨some r, c, 0, none⟩
    else match c.look (cf.markerKey args kw) now with
      | some _ => ⟨some r, c, 0, none⟩                  -- `cache.add` fails: somebody is recomputing
      | none => ⟨some r, c.put (cf.markerKey args kw) .marker (some (now + d)), 0, some (args, kw)⟩

/-- the recomputation thread, finishing at clock `now` after `delta`: one run of `f`, one `set`;
the marker is left to expire -/
def runJob {R} (cf : Conf) (f : List Arg → Kwargs → R) (now : Int) (delta : Int)
    (c : SCache R) (j : Job) : SCache R :=
  c.put (cf.key j.1 j.2) (.pair (f j.1 j.2) delta) (cf.expire.map (now + ·))

/-- the states the cache can be in: calls of the wrapper of ONE function on arguments of `dom`,
recomputation threads finishing at any time (for any arguments of `dom` — more than can really
happen), and entries disappearing (eviction, cull, deletion) -/
inductive Reach {R} (cf : Conf) (f : List Arg → Kwargs → R) (dom : List (List Arg × Kwargs)) :
    SCache R → Prop where
  | empty : Reach cf f dom SCache.empty
  | call {c} (now : Int) (hit : Bool) (delta : Int) (args : List Arg) (kw : Kwargs) :
      Reach cf f dom c → (args, kw) ∈ dom → Reach cf f dom (scall cf f now hit delta c args kw).cache
  | job {c} (now : Int) (delta : Int) (j : Job) :
      Reach cf f dom c → j ∈ dom → Reach cf f dom (runJob cf f now delta c j)
  | drop {c} (k : List Tok) : Reach cf f dom c → Reach cf f dom (c.drop k)

end DC.Memo
