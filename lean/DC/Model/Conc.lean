/-
L3 — the locking protocol of `Cache._transact` for any number of concurrent
clients (threads with their own connection, or processes), generic in the
database type and in the bodies of the operations.

Every mutating method of core.py has the three-phase shape (validated against
the real code by the K2 trace check):

    [FWRITE fresh]  BEGIN IMMEDIATE  body-on-private-copy  COMMIT | ROLLBACK  [FREMOVE …]

and the lock-free look-ups are one SELECT on the committed state.  A client is
a program of such calls; a schedule (list of client ids) interleaves their
micro-steps.  What SQLite contributes is the shape of `step`: between a
successful BEGIN IMMEDIATE and COMMIT/ROLLBACK no other BEGIN IMMEDIATE
succeeds, readers see only committed state, COMMIT publishes atomically,
ROLLBACK and a crash discard the private copy and release the lock.
-/
namespace DC.Conc

abbrev FName := Nat

/-- what the body of a call does inside its transaction, given the private copy of the
database and the fresh value file written for this call (if any): new database, result,
ok (false = the body raised: ROLLBACK), and the files handed to `cleanup` (removed after
COMMIT) -/
structure Body (DB Res : Type) where
  run : DB → Option FName → DB × Res × Bool × List FName

inductive Op (DB Res : Type) where
  /-- a mutating call; `fresh`: it writes a value file first; `retry`: wait for the lock -/
  | txn (fresh : Bool) (retry : Bool) (b : Body DB Res)
  /-- a lock-free look-up: one SELECT on the committed state -/
  | read (g : DB → Res)

/-- where a client is inside its current call -/
inductive Pc (DB Res : Type) where
  | idle
  | wrote (f : FName)                                   -- fresh file written, before BEGIN
  | begun (f : Option FName) (work : DB)                -- holds the write lock; private copy
  | ran (f : Option FName) (work : DB) (r : Res) (ok : Bool) (cl : List FName)  -- body done
  | cleaning (r : Res) (cl : List FName)                -- committed; removing files
  | undo (r : Option Res) (f : Option FName)            -- rolled back / timed out; removing the fresh file

structure Client (DB Res : Type) where
  prog : List (Op DB Res)
  pc : Pc DB Res := .idle
  results : List (Option Res) := []      -- results of completed calls; none = Timeout

/-- entry of the ghost linearization log: which client completed which call with what result -/
structure Entry (DB Res : Type) where
  cid : Nat
  op : Op DB Res
  fresh : Option FName
  res : Res

structure Sys (DB Res : Type) where
  db : DB                          -- the committed database
  lock : Option Nat := none        -- holder of the write lock
  clients : List (Client DB Res)
  files : List FName := []         -- value files that exist
  nextFile : FName := 0            -- fresh names never repeat (os.urandom)
  log : List (Entry DB Res) := []  -- ghost

variable {DB Res : Type}

def setClient (s : Sys DB Res) (cid : Nat) (c : Client DB Res) : Sys DB Res :=
  { s with clients := s.clients.set cid c }

def finish (c : Client DB Res) (r : Option Res) : Client DB Res :=
  { c with prog := c.prog.tail, pc := .idle, results := c.results ++ [r] }

/-- one micro-step of client `cid` (no-op if it has nothing to do) -/
def step (s : Sys DB Res) (cid : Nat) : Sys DB Res :=
  match s.clients[cid]? with
  | none => s
  | some c =>
    match c.pc, c.prog with
    | .idle, [] => s
    | .idle, .read g :: _ =>
      let r := g s.db
      { (setClient s cid (finish c (some r))) with log := s.log ++ [⟨cid, .read g, none, r⟩] }
    | .idle, .txn true _ _ :: _ =>
      -- Disk.store: write the value into a fresh, exclusively created file
      let f := s.nextFile
      { (setClient s cid { c with pc := .wrote f }) with files := f :: s.files, nextFile := f + 1 }
    | .idle, .txn false retry _ :: _ =>
      match s.lock with
      | none => { (setClient s cid { c with pc := .begun none s.db }) with lock := some cid }
      | some _ => if retry then s else setClient s cid (finish c none)          -- Timeout, no effect
    | .wrote f, .txn _ retry _ :: _ =>
      match s.lock with
      | none => { (setClient s cid { c with pc := .begun (some f) s.db }) with lock := some cid }
      | some _ => if retry then s else setClient s cid { c with pc := .undo none (some f) }
    | .begun f w, .txn _ _ b :: _ =>
      let (w', r, ok, cl) := b.run w f
      setClient s cid { c with pc := .ran f w' r ok cl }
    | .ran f w r true cl, op :: _ =>
      -- COMMIT: publish atomically, release the lock
      { (setClient s cid { c with pc := .cleaning r cl }) with
        db := w, lock := none, log := s.log ++ [⟨cid, op, f, r⟩] }
    | .ran f _ r false _, op :: _ =>
      -- ROLLBACK: discard the private copy, release the lock
      { (setClient s cid { c with pc := .undo (some r) f }) with
        lock := none, log := s.log ++ [⟨cid, op, f, r⟩] }
    | .cleaning r (x :: cl), _ =>
      { (setClient s cid { c with pc := .cleaning r cl }) with files := s.files.filter (· != x) }
    | .cleaning r [], _ => setClient s cid (finish c (some r))
    | .undo r (some f), _ =>
      { (setClient s cid { c with pc := .undo r none }) with files := s.files.filter (· != f) }
    | .undo r none, _ => setClient s cid (finish c r)
    | _, _ => s

def run (s : Sys DB Res) (sched : List Nat) : Sys DB Res := sched.foldl step s

/-- a process killed at any instant: its private copy is discarded and its lock released
(SQLite/OS behaviour, assumed); files stay as they are -/
def crash (s : Sys DB Res) (cid : Nat) : Sys DB Res :=
  match s.clients[cid]? with
  | none => s
  | some c =>
    { (setClient s cid { c with prog := [], pc := .idle }) with
      lock := if s.lock = some cid then none else s.lock }

/-- the sequential meaning of a log: apply the logged calls one at a time -/
def applyEntry (db : DB) (e : Entry DB Res) : DB × Res :=
  match e.op with
  | .read g => (db, g db)
  | .txn _ _ b =>
    let (w, r, ok, _) := b.run db e.fresh
    (if ok then w else db, r)

def replay (db0 : DB) (log : List (Entry DB Res)) : DB :=
  log.foldl (fun db e => (applyEntry db e).1) db0

/-- results a sequential execution of the log gives, in log order -/
def replayRes (db0 : DB) : List (Entry DB Res) → List Res
  | [] => []
  | e :: es => (applyEntry db0 e).2 :: replayRes (applyEntry db0 e).1 es

end DC.Conc
