/-
L4–L6 — what is built on `Cache`: FanoutCache (fanout.py), Deque and Index
(persistent.py), DjangoCache (djangocache.py).  Each method is the composition
of Cache-model calls that the Python performs, in the same order.
-/
import DC.Model.Cache

namespace DC

/-! ### FanoutCache -/

structure Fanout where
  shards : List Cache
  env : List Nat := []
  envMiss : Bool := false
  deriving Inhabited

namespace Fanout

/-- `FanoutCache.__init__`: `shards` caches, each with `size_limit / shards` (fanout.py:37-52) -/
def init (n : Nat) (c : Cfg) (stats : Bool) : Fanout :=
  { shards := List.replicate n { cfg := { c with limD := c.limD * n }, statistics := stats } }

/-- `index = hash(key) % shards` -/
def route (f : Fanout) (E : Externals) (k : PyVal) : Nat :=
  match f.shards.head? with
  | some s => diskHash E s.cfg.disk k % f.shards.length
  | none => 0

/-- run a Cache call on shard `i`, threading the observation list -/
def onShard (f : Fanout) (i : Nat) (op : Cache → Cache × Out) : Fanout × Out :=
  match f.shards[i]? with
  | none => (f, .exc "IndexError")
  | some s =>
    let (s', out) := op { s with env := f.env, envMiss := false, trace := [] }
    ({ f with shards := f.shards.set i s', env := s'.env, envMiss := f.envMiss || s'.envMiss }, out)

/-- key-addressed methods: route, then the Cache method (fanout.py:102-386) -/
def keyed (f : Fanout) (E : Externals) (k : PyVal) (op : Cache → Cache × Out) : Fanout × Out :=
  f.onShard (f.route E k) op

def sumInts (outs : List Out) : Out :=
  .int (outs.foldl (fun acc o => match o with | .int i => acc + i | _ => acc) 0)

/-- run a Cache call on every shard in order and collect the results -/
def each (f : Fanout) (op : Cache → Cache × Out) : Fanout × List Out :=
  (List.range f.shards.length).foldl (fun (acc : Fanout × List Out) i =>
    let (f', o) := acc.1.onShard i op
    (f', acc.2 ++ [o])) (f, [])

/-- `_remove`: total over all shards (fanout.py:480-492) -/
def remove (f : Fanout) (op : Cache → Cache × Out) : Fanout × Out :=
  let (f', outs) := f.each op
  (f', sumInts outs)

def len (f : Fanout) : Fanout × Out := f.remove (fun s => s.len)
def volume (f : Fanout) : Fanout × Out := f.remove (fun s => s.volumeOp)
def clear (f : Fanout) : Fanout × Out := f.remove (fun s => s.clear)
def expire (f : Fanout) (now : Int) : Fanout × Out := f.remove (fun s => s.expire now)
def evict (f : Fanout) (tag : SqlVal) : Fanout × Out := f.remove (fun s => s.evict tag)
def cull (f : Fanout) (now : Int) : Fanout × Out := f.remove (fun s => s.cull now)

def outList : Out → List Out
  | .list xs => xs
  | _ => []

/-- `__iter__`: shards in order; `__reversed__`: shards reversed, each reversed -/
def iter (f : Fanout) (E : Externals) (asc : Bool) : Fanout × Out :=
  let (f', outs) := f.each (fun s => s.iter E asc)
  let outs := if asc then outs else outs.reverse
  (f', .list (outs.flatMap outList))

/-- `transact()`: one block on every shard, entered in shard order (fanout.py:78-100) -/
def tbegin (f : Fanout) : Fanout × Out := ((f.each (fun s => (s.tbegin, .none))).1, .none)
def tend (f : Fanout) : Fanout × Out := ((f.each (fun s => (s.tend, .none))).1, .none)
def traise (f : Fanout) (n : Nat) : Fanout × Out := ((f.each (fun s => (s.traise n, .none))).1, .none)

def stats (f : Fanout) (enable reset : Bool) : Fanout × Out :=
  let (f', outs) := f.each (fun s => s.stats enable reset)
  let hits := outs.foldl (fun a o => match o with | .tup [.int h, _] => a + h | _ => a) (0 : Int)
  let misses := outs.foldl (fun a o => match o with | .tup [_, .int m] => a + m | _ => a) (0 : Int)
  (f', .tup [.int hits, .int misses])

end Fanout


/-! ### Python `==` and ordering on values (what `count`, `remove`, the Deque comparisons and
`Index.__eq__` evaluate).  Numbers compare by value across int/float, NaN is unequal to
everything and unordered; text and bytes compare by code point / byte; `None` and opaque
objects are equal to themselves only (an opaque object is identified by its serialised form:
assumption on the values the correspondence runs use) and have no order (TypeError). -/

def pyNum : PyVal → Option Num
  | .int i => some (intNum i)
  | .float f => if floatIsNaN f then none else some (floatNum f)
  | _ => none

def pyIsNumber : PyVal → Bool
  | .int _ => true
  | .float _ => true
  | _ => false

def pyEq (a b : PyVal) : Bool :=
  match pyNum a, pyNum b with
  | some x, some y => x == y
  | _, _ => if pyIsNumber a || pyIsNumber b then false else a == b

/-- `a < b`; `none` = TypeError -/
def pyLt (a b : PyVal) : Option Bool :=
  match a, b with
  | .str x, .str y => some (lexLt x y)
  | .bytes x, .bytes y => some (lexLt x y)
  | a, b =>
    if pyIsNumber a && pyIsNumber b then
      match pyNum a, pyNum b with
      | some x, some y => some (x.lt y)
      | _, _ => some false
    else none

/-- `a <= b`; `none` = TypeError -/
def pyLe (a b : PyVal) : Option Bool :=
  match a, b with
  | .str x, .str y => some (!lexLt y x)
  | .bytes x, .bytes y => some (!lexLt y x)
  | a, b =>
    if pyIsNumber a && pyIsNumber b then
      match pyNum a, pyNum b with
      | some x, some y => some (x.lt y || x == y)
      | _, _ => some false
    else none

inductive CmpOp where
  | eq | ne | lt | gt | le | ge
  deriving DecidableEq, Repr, Inhabited

def CmpOp.onVals (op : CmpOp) (a b : PyVal) : Option Bool :=
  match op with
  | .eq => some (pyEq a b)
  | .ne => some (!pyEq a b)
  | .lt => pyLt a b
  | .gt => pyLt b a
  | .le => pyLe a b
  | .ge => pyLe b a

def CmpOp.onNats (op : CmpOp) (a b : Nat) : Bool :=
  match op with
  | .eq => a == b
  | .ne => a != b
  | .lt => a < b
  | .gt => b < a
  | .le => a ≤ b
  | .ge => b ≤ a

/-- `_make_compare` (persistent.py:19-46) after the length shortcut: the first differing pair
decides, otherwise the lengths do -/
def cmpSeq (op : CmpOp) (lenA lenB : Nat) : List PyVal → List PyVal → Option Bool
  | a :: as, b :: bs => if !pyEq a b then op.onVals a b else cmpSeq op lenA lenB as bs
  | _, _ => some (op.onNats lenA lenB)

def outVals (outs : List Out) : List PyVal :=
  outs.filterMap (fun o => match o with | .val v => some v | _ => none)

/-! ### Deque (persistent.py:49-672): a Cache with policy 'none' used through push/pull/peek -/

structure Deque where
  cache : Cache
  maxlen : Option Nat := none       -- None = unbounded
  deriving Inhabited

namespace Deque

def tooLong (d : Deque) (c : Cache) : Bool :=
  match d.maxlen with
  | none => false
  | some m => c.count > (m : Int)

def indexErr (o : Out) (msg : Out := .exc "IndexError") : Out :=
  match o with
  | .default => msg
  | .tup [_, v] => v
  | o => o

/-- `append` / `appendleft`: push, then trim from the other end, in one transaction; a push that
raises leaves the `with transact()` block through the exception: the block is rolled back and the
exception propagates -/
def append (d : Deque) (E : Externals) (now : Int) (v : PyVal) (left : Bool) : Deque × Out :=
  let c := d.cache.tbegin
  let (c, o) := c.push E now v none (!left) none false .null
  match o with
  | .exc e => ({ d with cache := c.traise 1 }, .exc e)
  | _ =>
    let c := if d.tooLong c then (c.pull E now none (!left) false false).1 else c
    ({ d with cache := c.tend }, .none)

/-- `pop` / `popleft` -/
def pop (d : Deque) (E : Externals) (now : Int) (left : Bool) : Deque × Out :=
  let (c, o) := d.cache.pull E now none left false false
  ({ d with cache := c }, indexErr o)

/-- `peek` / `peekleft` -/
def peek (d : Deque) (E : Externals) (now : Int) (left : Bool) : Deque × Out :=
  let (c, o) := d.cache.peek E now none left false false
  ({ d with cache := c }, indexErr o)

def len (d : Deque) : Deque × Out :=
  let (c, o) := d.cache.len
  ({ d with cache := c }, o)

/-- rows in key order (what `iterkeys` walks) -/
def sortedRows (c : Cache) : List Row := isort Cache.keyRawLtRow c.rows

/-- `_index`: the row at position `i` (negative from the end), or IndexError -/
def rowAt (d : Deque) (i : Int) : Option Row :=
  let n : Int := d.cache.count
  let rows := sortedRows d.cache
  if i ≥ 0 then (if i ≥ n then none else rows[i.toNat]?)
  else (if i < -n then none else rows.reverse[(-i - 1).toNat]?)

def keyOfRow (E : Externals) (c : Cache) (r : Row) : PyVal := DC.get E c.cfg.disk r.key r.raw

/-- `__getitem__(index)` -/
def getitem (d : Deque) (E : Externals) (now : Int) (i : Int) : Deque × Out :=
  match d.rowAt i with
  | none => (d, .exc "IndexError")
  | some r =>
    let (c, o) := d.cache.get E now (keyOfRow E d.cache r) false false false
    ({ d with cache := c }, match o with | .default => .exc "IndexError" | o => o)

/-- `__setitem__(index, value)`: `self._cache.__setitem__(key, value)`; a value that cannot be
stored raises (and changes nothing) -/
def setitem (d : Deque) (E : Externals) (now : Int) (i : Int) (v : PyVal) : Deque × Out :=
  match d.rowAt i with
  | none => (d, .exc "IndexError")
  | some r =>
    let (c, o) := d.cache.set E now (keyOfRow E d.cache r) v none false .null
    ({ d with cache := c }, match o with | .exc e => .exc e | _ => .none)

/-- `__delitem__(index)` -/
def delitem (d : Deque) (E : Externals) (now : Int) (i : Int) : Deque × Out :=
  match d.rowAt i with
  | none => (d, .exc "IndexError")
  | some r =>
    let (c, o) := d.cache.delitem E now (keyOfRow E d.cache r)
    ({ d with cache := c }, match o with | .exc "KeyError" => .exc "IndexError" | _ => .none)

/-- `__iter__` / `__reversed__`: values in key order -/
def iterVals (d : Deque) (E : Externals) (now : Int) (rev : Bool) : Deque × Out :=
  let rows := if rev then (sortedRows d.cache).reverse else sortedRows d.cache
  let (c, outs) := rows.foldl (fun (acc : Cache × List Out) r =>
    let (c, o) := acc.1.get E now (keyOfRow E acc.1 r) false false false
    (c, match o with | .default => acc.2 | o => acc.2 ++ [o])) (d.cache, [])
  ({ d with cache := c }, .list outs)

def clear (d : Deque) : Deque × Out :=
  let (c, _) := d.cache.clear
  ({ d with cache := c }, .none)

/-- `maxlen` setter: trim from the left inside one transaction -/
def trimLoop (E : Externals) (now : Int) (m : Nat) : Nat → Cache → Cache
  | 0, c => c
  | fuel + 1, c => if c.count > (m : Int) then trimLoop E now m fuel (c.pull E now none true false false).1 else c

def setMaxlen (d : Deque) (E : Externals) (now : Int) (m : Nat) : Deque × Out :=
  let c := d.cache.tbegin
  let c := trimLoop E now m (c.rows.length + 1) c
  ({ cache := c.tend, maxlen := some m }, .none)

/-- `rotate(steps)`: pop from one end, push to the other, `steps mod len` times
(persistent.py:598-644).  `except IndexError: return` ends the loop on an empty deque; an exception
of the re-append (`self._appendleft(value)` / `self._append(value)`) propagates out of `rotate` —
the popped item is lost.  A pop result that is not a value cannot occur (`read=False`); there is
nothing to append then and the loop goes on. -/
def rotateLoop (E : Externals) (now : Int) (right : Bool) : Nat → Deque → Deque × Out
  | 0, d => (d, .none)
  | n + 1, d =>
    let (d1, o) := d.pop E now (!right)
    match o with
    | .val v =>
      match d1.append E now v right with
      | (d2, .exc e) => (d2, .exc e)
      | (d2, _) => rotateLoop E now right n d2
    | .exc e => if e == "IndexError" then (d1, .none) else (d1, .exc e)
    | _ => rotateLoop E now right n d1

def rotate (d : Deque) (E : Externals) (now : Int) (steps : Int) : Deque × Out :=
  let n : Int := d.cache.count
  if n == 0 then (d, .none)
  else if steps ≥ 0 then rotateLoop E now true (steps % n).toNat d
  else rotateLoop E now false ((-steps) % n).toNat d

/-- `extend` / `+=` (left = false) and `extendleft`: `for value in iterable: self._append(value)` —
one `append` per value, in order, stopping at the first one that raises (the values before it
stay appended, the exception propagates) -/
def extend (d : Deque) (E : Externals) (now : Int) (vs : List PyVal) (left : Bool) : Deque × Out :=
  match vs with
  | [] => (d, .none)
  | v :: vs =>
    match d.append E now v left with
    | (d1, .exc e) => (d1, .exc e)
    | (d1, _) => extend d1 E now vs left

/-- can the temporary Deque of `reverse` (a fresh `Cache()`: pickle `Disk`, default
`disk_min_file_size`) store the value?  (`Disk.store` must succeed and `sqlite3` must bind the cell) -/
def tempStorable (E : Externals) (v : PyVal) : Bool :=
  match place E ({} : Cfg).disk ({} : Cfg).minFileSize v false with
  | .error _ => false
  | .ok (.inline _ sv) => Cache.bindable sv
  | .ok (.file _ _) => true

/-- `reverse()` (persistent.py:574-596): `temp = Deque(iterable=reversed(self))` copies the values
out, back to front, into a temporary Deque — a value the temporary Deque cannot store raises there,
BEFORE anything is changed —; then `self._clear()` and `self._extend(temp)` (one `append` per value,
stopping at the first one that raises).  Of the temporary Deque only this is modelled: whether it
can store each value (`tempStorable`), and that it gives the values back as they were put in. -/
def reverse (d : Deque) (E : Externals) (now : Int) : Deque × Out :=
  let (d1, vals) := d.iterVals E now true
  let vs := outVals (Fanout.outList vals)
  if vs.all (tempStorable E) then
    let (d2, _) := d1.clear
    d2.extend E now vs false
  else (d1, .exc "UnicodeEncodeError")

/-- `count(value)`: walk the deque, `value == item` -/
def countOf (d : Deque) (E : Externals) (now : Int) (v : PyVal) : Deque × Out :=
  let (d1, o) := d.iterVals E now false
  (d1, .int ((outVals (Fanout.outList o)).filter (pyEq v)).length)

/-- does the row hold a value equal to `v`? (`_cache[key]`, then `value == item`) -/
def rowHolds (d : Deque) (E : Externals) (now : Int) (v : PyVal) (r : Row) : Bool :=
  match (d.cache.get E now (keyOfRow E d.cache r) false false false).2 with
  | .val x => pyEq v x
  | _ => false

/-- `remove(value)`: delete the first item equal to `value`, else ValueError -/
def remove (d : Deque) (E : Externals) (now : Int) (v : PyVal) : Deque × Out :=
  match (sortedRows d.cache).find? (d.rowHolds E now v) with
  | none => (d, .exc "ValueError")
  | some r =>
    let (c, _) := d.cache.delitem E now (keyOfRow E d.cache r)
    ({ d with cache := c }, .none)

/-- `deque <op> that` for a sequence `that` (persistent.py:19-46) -/
def compare (d : Deque) (E : Externals) (now : Int) (op : CmpOp) (that : List PyVal) : Deque × Out :=
  let n := d.cache.count.toNat
  if n != that.length && op == .eq then (d, .bool false)
  else if n != that.length && op == .ne then (d, .bool true)
  else
    let (d1, o) := d.iterVals E now false
    match cmpSeq op n that.length (outVals (Fanout.outList o)) that with
    | some b => (d1, .bool b)
    | none => (d1, .exc "TypeError")

/-- `copy()`, pickling and re-opening give a handle on the same directory with the same maxlen:
the state is the directory, nothing lives in the object -/
def rehandle (d : Deque) : Deque × Out := (d, .none)

end Deque

/-! ### Index (persistent.py:675-1245): a Cache with policy 'none' used as a mapping -/

structure Index where
  cache : Cache
  deriving Inhabited

namespace Index

def keyErr (o : Out) : Out := match o with | .default => .exc "KeyError" | o => o

def getitem (x : Index) (E : Externals) (now : Int) (k : PyVal) : Index × Out :=
  let (c, o) := x.cache.get E now k false false false
  ({ cache := c }, keyErr o)

/-- `index[key] = value`: `self._cache[key] = value`; a key or value that cannot be stored raises
(and changes nothing) -/
def setitem (x : Index) (E : Externals) (now : Int) (k v : PyVal) : Index × Out :=
  let (c, o) := x.cache.set E now k v none false .null
  ({ cache := c }, match o with | .exc e => .exc e | _ => .none)

def delitem (x : Index) (E : Externals) (now : Int) (k : PyVal) : Index × Out :=
  let (c, o) := x.cache.delitem E now k
  ({ cache := c }, match o with | .bool true => .none | o => o)

/-- `setdefault`: lock-free look-up; on KeyError look up again, `add` and look up once more inside
one transaction block, so that the default is added at most once.  An `add` that raises (default
that cannot be stored, key that cannot be bound) leaves the block through the exception: the block
is rolled back and the exception propagates -/
def setdefault (x : Index) (E : Externals) (now : Int) (k v : PyVal) : Index × Out :=
  let (c, o) := x.cache.get E now k false false false
  match o with
  | .default =>
    let c := c.tbegin
    let (c, o) := c.get E now k false false false
    match o with
    | .default =>
      let (c, oa) := c.add E now k v none false .null
      match oa with
      | .exc e => ({ cache := c.traise 1 }, .exc e)
      | _ =>
        let (c, o) := c.get E now k false false false
        match o with
        | .default => ({ cache := c.traise 1 }, .exc "KeyError")
        | o => ({ cache := c.tend }, o)
    | o => ({ cache := c.tend }, o)
  | o => ({ cache := c }, o)

/-- `pop(key[, default])`; `hasDefault = false` raises KeyError -/
def pop (x : Index) (E : Externals) (now : Int) (k : PyVal) (hasDefault : Bool) : Index × Out :=
  let (c, o) := x.cache.pop E now k false false
  ({ cache := c }, if hasDefault then o else keyErr o)

/-- `popitem(last)`: peekitem + `del _cache[key]` inside one transaction; when the key read back is
not found again the KeyError leaves the block (rolled back) and propagates -/
def popitem (x : Index) (E : Externals) (now : Int) (last : Bool) : Index × Out :=
  let c := x.cache.tbegin
  let (c, o) := c.peekitem E now last false false
  match o with
  | .tup [.val k, v] =>
    let (c, o2) := c.delitem E now k
    match o2 with
    | .exc e => ({ cache := c.traise 1 }, .exc e)
    | _ => ({ cache := c.tend }, .tup [.val k, v])
  | o => ({ cache := c.traise 1 }, o)

def peekitem (x : Index) (E : Externals) (now : Int) (last : Bool) : Index × Out :=
  let (c, o) := x.cache.peekitem E now last false false
  ({ cache := c }, o)

def len (x : Index) : Index × Out :=
  let (c, o) := x.cache.len
  ({ cache := c }, o)

def iter (x : Index) (E : Externals) (asc : Bool) : Index × Out :=
  let (c, o) := x.cache.iter E asc
  ({ cache := c }, o)

def clear (x : Index) : Index × Out :=
  let (c, _) := x.cache.clear
  ({ cache := c }, .none)

/-- the walk of the item view (`ItemsView.__iter__`: `for key in mapping: yield (key, mapping[key])`):
the rows in iteration order, every key looked up again.  A look-up that misses raises KeyError
(`Cache.__getitem__`), which ends the walk: the result is the state after that look-up, the items
produced so far, and `true` -/
def itemsWalk (E : Externals) (now : Int) : List Row → Cache → List Out → Cache × List Out × Bool
  | [], c, acc => (c, acc, false)
  | r :: rows, c, acc =>
    let k := DC.get E c.cfg.disk r.key r.raw
    let (c, o) := c.get E now k false false false
    match o with
    | .default => (c, acc, true)
    | o => itemsWalk E now rows c (acc ++ [.tup [.val k, o]])

/-- `list(index.items())`: iteration order, each value looked up; KeyError at the first key whose
look-up misses (nothing after it is produced: the exception propagates out of the iteration) -/
def items (x : Index) (E : Externals) (now : Int) : Index × Out :=
  let (c, outs, miss) := itemsWalk E now x.cache.rows x.cache []
  ({ cache := c }, if miss then .exc "KeyError" else .list outs)


/-- `update(pairs)` (MutableMapping): one assignment per pair, in order, stopping at the first one
that raises (the pairs before it stay assigned, the exception propagates) -/
def update (x : Index) (E : Externals) (now : Int) (kvs : List (PyVal × PyVal)) : Index × Out :=
  match kvs with
  | [] => (x, .none)
  | kv :: kvs =>
    match x.setitem E now kv.1 kv.2 with
    | (x1, .exc e) => (x1, .exc e)
    | (x1, _) => update x1 E now kvs

/-- `list(index.values())`: iteration order, each value looked up; KeyError at the first key whose
look-up misses -/
def values (x : Index) (E : Externals) (now : Int) : Index × Out :=
  let (x1, o) := x.items E now
  match o with
  | .exc e => (x1, .exc e)
  | o => (x1, .list ((Fanout.outList o).filterMap (fun t => match t with | .tup [_, v] => some v | _ => none)))

def pairsOf (outs : List Out) : List (PyVal × PyVal) :=
  outs.filterMap (fun t => match t with | .tup [.val k, .val v] => some (k, v) | _ => none)

/-- `index == other` (persistent.py:1098-1136): lengths first; against an Index or OrderedDict
pairwise in order, against any other mapping key by key.  Both comparisons walk the items lazily
(`any` / `all` over a generator that evaluates `self[key]`): the first unequal pair decides
(`False`); a look-up that misses before any unequal pair raises KeyError -/
def eqTo (x : Index) (E : Externals) (now : Int) (ordered : Bool) (other : List (PyVal × PyVal)) : Index × Out :=
  if x.cache.count != (other.length : Int) then (x, .bool false)
  else
    let (c, outs, miss) := itemsWalk E now x.cache.rows x.cache []
    let mine := pairsOf outs
    let b :=
      if ordered then !(mine.zip other).any (fun p => !pyEq p.1.1 p.2.1 || !pyEq p.1.2 p.2.2)
      else mine.all (fun kv => match other.find? (fun p => pyEq kv.1 p.1) with
        | some p => pyEq kv.2 p.2
        | none => false)
    ({ cache := c }, if miss && b then .exc "KeyError" else .bool b)

/-- `index != other`: `not self == other` (a KeyError of `==` propagates) -/
def neTo (x : Index) (E : Externals) (now : Int) (ordered : Bool) (other : List (PyVal × PyVal)) : Index × Out :=
  match x.eqTo E now ordered other with
  | (x1, .bool b) => (x1, .bool (!b))
  | r => r

/-- pickling and re-opening give a handle on the same directory -/
def rehandle (x : Index) : Index × Out := (x, .none)

end Index

/-! ### DjangoCache (djangocache.py): key namespacing and timeout classes over FanoutCache -/

structure Django where
  fan : Fanout
  keyPrefix : Str := []
  version : Int := 1
  defaultTimeout : Option Int := some 300
  deriving Inhabited

/-- the `timeout` argument of a Django cache call -/
inductive Timeout where
  | dflt            -- DEFAULT_TIMEOUT
  | forever         -- None
  | secs (t : Int)
  deriving DecidableEq, Repr

namespace Django

def intDigits (n : Nat) : Str := (toString n).toList.map (·.toNat)

/-- `'%s:%s:%s' % (key_prefix, version, key)` (BaseCache.make_key, default key function) -/
def makeKey (d : Django) (k : Str) (version : Option Int) : PyVal :=
  let v := version.getD d.version
  let vs := if v < 0 then 45 :: intDigits (-v).toNat else intDigits v.toNat
  .str (d.keyPrefix ++ [58] ++ vs ++ [58] ++ k)

/-- `get_backend_timeout` (djangocache.py:356-368): seconds until expiry; `none` = never -/
def backendTimeout (d : Django) : Timeout → Option Int
  | .dflt => d.defaultTimeout
  | .forever => none
  | .secs t => if t == 0 then some (-1) else some t

def set (d : Django) (E : Externals) (now : Int) (k : Str) (v : PyVal) (t : Timeout) (version : Option Int)
    (tag : SqlVal := .null) : Django × Out :=
  let key := d.makeKey k version
  let (f, o) := d.fan.keyed E key (fun s => s.set E now key v (d.backendTimeout t) false tag)
  ({ d with fan := f }, o)

def add (d : Django) (E : Externals) (now : Int) (k : Str) (v : PyVal) (t : Timeout) (version : Option Int)
    (tag : SqlVal := .null) : Django × Out :=
  let key := d.makeKey k version
  let (f, o) := d.fan.keyed E key (fun s => s.add E now key v (d.backendTimeout t) false tag)
  ({ d with fan := f }, o)

def get (d : Django) (E : Externals) (now : Int) (k : Str) (version : Option Int) : Django × Out :=
  let key := d.makeKey k version
  let (f, o) := d.fan.keyed E key (fun s => s.get E now key false false false)
  ({ d with fan := f }, o)

def touch (d : Django) (E : Externals) (now : Int) (k : Str) (t : Timeout) (version : Option Int) : Django × Out :=
  let key := d.makeKey k version
  let (f, o) := d.fan.keyed E key (fun s => s.touch E now key (d.backendTimeout t))
  ({ d with fan := f }, o)

def delete (d : Django) (E : Externals) (now : Int) (k : Str) (version : Option Int) : Django × Out :=
  let key := d.makeKey k version
  let (f, o) := d.fan.keyed E key (fun s => s.delete E now key)
  ({ d with fan := f }, o)

def pop (d : Django) (E : Externals) (now : Int) (k : Str) (version : Option Int) : Django × Out :=
  let key := d.makeKey k version
  let (f, o) := d.fan.keyed E key (fun s => s.pop E now key false false)
  ({ d with fan := f }, o)

def hasKey (d : Django) (E : Externals) (now : Int) (k : Str) (version : Option Int) : Django × Out :=
  let key := d.makeKey k version
  let (f, o) := d.fan.keyed E key (fun s => s.contains E now key)
  ({ d with fan := f }, o)

/-- `incr`/`decr`: default=None, so a missing or expired key raises — KeyError becomes ValueError -/
def incr (d : Django) (E : Externals) (now : Int) (k : Str) (delta : Int) (version : Option Int) : Django × Out :=
  let key := d.makeKey k version
  let (f, o) := d.fan.keyed E key (fun s => s.incr E now key delta none)
  ({ d with fan := f }, match o with | .exc "KeyError" => .exc "ValueError" | o => o)

/-- `decr(key, delta)` is `incr(key, -delta)` on the shard (core.py `decr`) -/
def decr (d : Django) (E : Externals) (now : Int) (k : Str) (delta : Int) (version : Option Int) : Django × Out :=
  d.incr E now k (-delta) version

/-- `read(key, version)`: a handle on the value file, KeyError when missing -/
def read (d : Django) (E : Externals) (now : Int) (k : Str) (version : Option Int) : Django × Out :=
  let key := d.makeKey k version
  let (f, o) := d.fan.keyed E key (fun s => s.get E now key true false false)
  ({ d with fan := f }, match o with | .default => .exc "KeyError" | o => o)

def clear (d : Django) : Django × Out :=
  let (f, o) := d.fan.clear
  ({ d with fan := f }, o)

def expire (d : Django) (now : Int) : Django × Out :=
  let (f, o) := d.fan.expire now
  ({ d with fan := f }, o)

def cull (d : Django) (now : Int) : Django × Out :=
  let (f, o) := d.fan.cull now
  ({ d with fan := f }, o)

def evict (d : Django) (tag : SqlVal) : Django × Out :=
  let (f, o) := d.fan.evict tag
  ({ d with fan := f }, o)

def stats (d : Django) (enable reset : Bool) : Django × Out :=
  let (f, o) := d.fan.stats enable reset
  ({ d with fan := f }, o)

end Django
end DC
