/-
L1/L2 — `diskcache.Cache` as a sequential state machine (core.py:417-2455).

Every SQL statement of core.py is one function on the row list with the
statement's name; every public method is composed from them in the order the
Python executes them.  Each function also appends the abstract action it
performs to the ghost field `trace` (L2 micro-steps: FWRITE, BEGIN, SQL id,
COMMIT/ROLLBACK, FREAD, FREMOVE), which the K2 check compares with the
statement/file-operation log of the real call.
-/
import DC.Model.Disk

namespace DC

inductive Policy where
  | none | lrs | lru | lfu
  deriving DecidableEq, Repr, Inhabited

structure Cfg where
  policy : Policy := .lrs
  cullLimit : Nat := 10
  /-- size_limit = limN / limD (FanoutCache divides by the shard count) -/
  limN : Int := 1073741824
  limD : Nat := 1
  minFileSize : Nat := 32768
  disk : DiskKind := .pickle
  /-- page size of iteration and bulk removal (100 in core.py) -/
  page : Nat := 100
  /-- batch size of `cull()` (10 in core.py) -/
  batch : Nat := 10
  /-- first queue number (500000000000000 in core.py) -/
  qorigin : Nat := 500000000000000
  deriving Repr, Inhabited

structure Row where
  rowid : Nat
  key : SqlVal
  raw : Bool
  storeT : Int
  expT : Option Int
  accT : Int
  accN : Int
  tag : SqlVal
  size : Nat
  mode : Nat
  file : Option Nat
  val : SqlVal
  deriving DecidableEq, Repr, Inhabited

inductive Act where
  | fw (f : Nat)        -- value file created, written, closed
  | begin               -- BEGIN IMMEDIATE
  | commit
  | rollback
  | sql (id : String)   -- one statement of the statement table
  | sqlFail (id : String) -- a statement that raised (e.g. OverflowError at bind)
  | fr (f : Nat)        -- value file opened for reading
  | frm (f : Nat)       -- Disk.remove
  deriving DecidableEq, Repr

structure Snap where
  rows : List Row
  count : Int
  size : Int
  hits : Int
  misses : Int
  deriving Repr, Inhabited

structure Cache where
  rows : List Row := []          -- ascending rowid
  count : Int := 0               -- Settings.count (maintained by triggers)
  size : Int := 0                -- Settings.size
  hits : Int := 0
  misses : Int := 0
  statistics : Bool := false
  files : List (Nat × Content) := []
  nfile : Nat := 0
  cfg : Cfg := {}
  trace : List Act := []         -- ghost: micro-steps of the current call
  env : List Nat := []           -- observations: page_size*page_count per volume() call
  envMiss : Bool := false        -- the model wanted an observation the run did not make
  depth : Nat := 0               -- nesting depth of open transaction blocks
  snap : Option Snap := none     -- state at the outermost BEGIN
  pending : List (Option Nat) := []  -- files to remove after the outermost COMMIT
  created : List Nat := []       -- files written for the open block (removed on ROLLBACK)
  deriving Repr, Inhabited

inductive Out where
  | none
  | default                       -- the caller's `default`
  | bool (b : Bool)
  | int (i : Int)
  | val (v : PyVal)
  | handle (b : Bytes)
  | time (t : Option Int)
  | sql (v : SqlVal)
  | tup (xs : List Out)
  | list (xs : List Out)
  | exc (name : String)
  | timeout (n : Option Int)
  deriving Repr, Inhabited

namespace Cache

def log (s : Cache) (a : Act) : Cache := { s with trace := s.trace ++ [a] }
def logSql (s : Cache) (id : String) : Cache := s.log (.sql id)

/-! ### files -/

def fileGet (s : Cache) (f : Nat) : Option Content := (s.files.find? (·.1 == f)).map (·.2)

/-- `Disk._write` into a fresh exclusively-created file. -/
def fwrite (s : Cache) (c : Content) : Cache × Nat :=
  let f := s.nfile
  ({ s with files := s.files ++ [(f, c)], nfile := f + 1 }.log (.fw f), f)

/-- `Disk.remove` (OSError suppressed). -/
def fremove (s : Cache) (f : Nat) : Cache :=
  { s with files := s.files.filter (·.1 != f) }.log (.frm f)

def fremoveAll (s : Cache) (fs : List (Option Nat)) : Cache :=
  fs.foldl (fun s f => match f with | some f => s.fremove f | none => s) s

/-! ### statements on the Cache table -/

def live (now : Int) (r : Row) : Bool :=
  match r.expT with
  | none => true
  | some t => t > now

def expired (now : Int) (r : Row) : Bool :=
  match r.expT with
  | none => false
  | some t => t < now

def keyMatch (k : SqlVal) (raw : Bool) (r : Row) : Bool := r.key.eqv k && r.raw == raw

/-- `SELECT … FROM Cache WHERE key = ? AND raw = ?` -/
def selKey (s : Cache) (k : SqlVal) (raw : Bool) : Option Row := s.rows.find? (keyMatch k raw)

/-- `… AND (expire_time IS NULL OR expire_time > ?)` -/
def selLive (s : Cache) (k : SqlVal) (raw : Bool) (now : Int) : Option Row :=
  s.rows.find? (fun r => keyMatch k raw r && live now r)

def maxRowid (rows : List Row) : Nat := rows.foldl (fun m r => max m r.rowid) 0

structure Cols where
  expT : Option Int
  tag : SqlVal
  size : Nat
  mode : Nat
  file : Option Nat
  val : SqlVal
  deriving Repr, Inhabited

/-- can `sqlite3` bind this parameter?  A str with a lone surrogate raises
UnicodeEncodeError, an int outside int64 raises OverflowError. -/
def bindable : SqlVal → Bool
  | .text s => (utf8enc s).isSome
  | .int i => inI64 i
  | _ => true

def Cols.bindable (c : Cols) : Bool := DC.Cache.bindable c.tag && DC.Cache.bindable c.val

/-- `INSERT INTO Cache(…)` + count/size insert triggers; rowid = max(rowid)+1. -/
def insRow (s : Cache) (k : SqlVal) (raw : Bool) (now : Int) (c : Cols) : Cache :=
  let r : Row := { rowid := maxRowid s.rows + 1, key := k, raw := raw, storeT := now,
                   expT := c.expT, accT := now, accN := 0, tag := c.tag, size := c.size,
                   mode := c.mode, file := c.file, val := c.val }
  { s with rows := s.rows ++ [r], count := s.count + 1, size := s.size + c.size }.logSql "insRow"

def rowSize (rows : List Row) (rowid : Nat) : Int :=
  match rows.find? (·.rowid == rowid) with
  | some r => r.size
  | none => 0

/-- `UPDATE Cache SET store_time…value WHERE rowid = ?` + size update trigger. -/
def updRow (s : Cache) (rowid : Nat) (now : Int) (c : Cols) : Cache :=
  let old := rowSize s.rows rowid
  { s with
    rows := s.rows.map (fun (r : Row) => if r.rowid == rowid then
      { r with storeT := now, expT := c.expT, accT := now, accN := 0, tag := c.tag,
               size := c.size, mode := c.mode, file := c.file, val := c.val } else r),
    size := if s.rows.any (·.rowid == rowid) then s.size + c.size - old else s.size }.logSql "updRow"

/-- `DELETE FROM Cache WHERE rowid = ?` + count/size delete triggers. -/
def delRowQuiet (s : Cache) (rowid : Nat) : Cache :=
  match s.rows.find? (·.rowid == rowid) with
  | some r => { s with rows := s.rows.filter (·.rowid != rowid), count := s.count - 1,
                       size := s.size - r.size }
  | none => s

def delRow (s : Cache) (rowid : Nat) : Cache := (s.delRowQuiet rowid).logSql "delRow"

/-- `DELETE FROM Cache WHERE rowid IN (…)` -/
def delIn (s : Cache) (ids : List Nat) : Cache := ids.foldl delRowQuiet s

/-- `UPDATE Cache SET expire_time = ? WHERE rowid = ?` -/
def updExp (s : Cache) (rowid : Nat) (e : Option Int) : Cache :=
  { s with rows := s.rows.map (fun (r : Row) => if r.rowid == rowid then { r with expT := e } else r) }.logSql "updExp"

/-- policy column updated by a read (EVICTION_POLICY[..]['get']) -/
def touchPolicy (p : Policy) (now : Int) (r : Row) : Row :=
  match p with
  | .lru => { r with accT := now }
  | .lfu => { r with accN := r.accN + 1 }
  | _ => r

def policyUpdates (p : Policy) : Bool := p == .lru || p == .lfu

/-- `UPDATE Cache SET access_time = now | access_count = access_count + 1 WHERE rowid = ?` -/
def updGet (s : Cache) (rowid : Nat) (now : Int) : Cache :=
  { s with rows := s.rows.map (fun (r : Row) => if r.rowid == rowid then touchPolicy s.cfg.policy now r else r) }.logSql "updGet"

/-- `UPDATE Cache SET store_time = ?, value = ?[, policy column] WHERE rowid = ?` -/
def updIncr (s : Cache) (rowid : Nat) (now : Int) (v : SqlVal) : Cache :=
  { s with rows := s.rows.map (fun (r : Row) => if r.rowid == rowid then
      touchPolicy s.cfg.policy now { r with storeT := now, val := v } else r) }.logSql "updIncr"

def ltOptInt (a b : Option Int) : Bool :=
  match a, b with
  | some x, some y => x < y
  | none, some _ => true
  | _, _ => false

/-- `SELECT … WHERE expire_time IS NOT NULL AND expire_time < ? ORDER BY expire_time LIMIT ?`
(index order: ties by rowid). -/
def selExpired (s : Cache) (now : Int) (n : Nat) : List Row :=
  (isort (fun a b => ltOptInt a.expT b.expT) (s.rows.filter (expired now))).take n

def policyLt (p : Policy) (a b : Row) : Bool :=
  match p with
  | .lrs => a.storeT < b.storeT
  | .lru => a.accT < b.accT
  | .lfu => a.accN < b.accN
  | .none => false

/-- `SELECT … FROM Cache ORDER BY store_time|access_time|access_count LIMIT ?` -/
def selPolicy (s : Cache) (n : Nat) : List Row :=
  (isort (policyLt s.cfg.policy) s.rows).take n

/-- `PRAGMA page_count` × page_size + `SELECT value FROM Settings WHERE key = 'size'`.
The database part is an observation of the real run. -/
def volume (s : Cache) : Cache × Int :=
  let s := (s.logSql "pageCount").logSql "getSize"
  match s.env with
  | pb :: rest => ({ s with env := rest }, (pb : Int) + s.size)
  | [] => ({ s with envMiss := true }, s.size)

/-- `volume() < size_limit` with size_limit = limN/limD -/
def belowLimit (c : Cfg) (vol : Int) : Bool := vol * c.limD < c.limN
/-- `volume() > size_limit` -/
def aboveLimit (c : Cfg) (vol : Int) : Bool := vol * c.limD > c.limN

/-- `Cache._cull` (core.py:877-925).  Returns the files handed to `cleanup`. -/
def cullW (s : Cache) (now : Int) (limit : Option Nat := none) : Cache × List (Option Nat) :=
  let cullLimit := limit.getD s.cfg.cullLimit
  if cullLimit == 0 then (s, [])
  else
    let rows := s.selExpired now cullLimit
    let s := s.logSql "selExpired"
    let (s, cl, cullLimit) :=
      if rows.isEmpty then (s, [], cullLimit)
      else ((s.delIn (rows.map (·.rowid))).logSql "delExpired", rows.map (·.file), cullLimit - rows.length)
    if cullLimit == 0 then (s, cl)
    else if s.cfg.policy == .none then (s, cl)
    else
      let (s, vol) := s.volume
      if belowLimit s.cfg vol then (s, cl)
      else
        let rows := s.selPolicy cullLimit
        let s := s.logSql "selPolicy"
        if rows.isEmpty then (s, cl)
        else ((s.delIn (rows.map (·.rowid))).logSql "delPolicy", cl ++ rows.map (·.file))

/-! ### transactions (sequential: BEGIN IMMEDIATE always succeeds) -/

def takeSnap (s : Cache) : Snap :=
  { rows := s.rows, count := s.count, size := s.size, hits := s.hits, misses := s.misses }

def restore (s : Cache) (p : Snap) : Cache :=
  { s with rows := p.rows, count := p.count, size := p.size, hits := p.hits, misses := p.misses }

/-- result of a transaction body -/
structure Body where
  s : Cache
  out : Out
  ok : Bool := true                     -- false: the body raised
  cleanup : List (Option Nat) := []     -- filenames passed to `cleanup`
  deriving Inhabited

/-- `Cache._transact` (core.py:708-747) for one method call.  `fresh` is the
value file written before the transaction (removed if the body raises and this
call began the transaction). -/
def transact (s : Cache) (body : Cache → Body) (fresh : Option Nat := none) : Cache × Out :=
  if s.depth > 0 then
    -- inside a transaction block owned by this thread: no BEGIN, no COMMIT;
    -- file removal is left to the outermost transaction
    let s := match fresh with | some f => { s with created := s.created ++ [f] } | none => s
    let b := body s
    if b.ok then ({ b.s with pending := b.s.pending ++ b.cleanup }, b.out) else (b.s, b.out)
  else
    let p := s.takeSnap
    let b := body (s.log .begin)
    if b.ok then
      ((b.s.log .commit).fremoveAll b.cleanup, b.out)
    else
      let s := (b.s.restore p).log .rollback
      let s := match fresh with | some f => s.fremove f | none => s
      (s, b.out)

/-- `Cache._remove_committed`: the file of a row deleted by pop/pull -/
def removeCommitted (s : Cache) (f : Option Nat) : Cache :=
  match f with
  | none => s
  | some f => if s.depth > 0 then { s with pending := s.pending ++ [some f] } else s.fremove f

/-- `with cache.transact():` entered -/
def tbegin (s : Cache) : Cache :=
  if s.depth == 0 then { (s.log .begin) with depth := 1, snap := some s.takeSnap, pending := [], created := [] }
  else { s with depth := s.depth + 1 }

/-- block left normally -/
def tend (s : Cache) : Cache :=
  if s.depth == 1 then
    let s := { (s.log .commit) with depth := 0, snap := none }
    { (s.fremoveAll s.pending) with pending := [], created := [] }
  else { s with depth := s.depth - 1 }

/-- an exception leaves `n` nested blocks -/
def traise (s : Cache) (n : Nat) : Cache :=
  if n ≥ s.depth && s.depth > 0 then
    match s.snap with
    | some p =>
      let s := { ((s.restore p).log .rollback) with depth := 0, snap := none }
      { (s.fremoveAll (s.created.map some)) with pending := [], created := [] }
    | none => { s with depth := 0 }
  else { s with depth := s.depth - n }

/-- a value file written INSIDE a transaction body (by `incr`) is recorded as created by the
enclosing transaction block (core.py `incr`: `self._txn_created.append(columns[4])`, fix D24), so
that a rollback of the block removes it.  Outside a block the list belongs to the call's own
transaction, whose body cannot fail after the store: nothing to record.  A Python-side list
append: not part of the statement trace. -/
def regCreated (s : Cache) (f : Option Nat) : Cache :=
  match f with
  | some f => if s.depth > 0 then { s with created := s.created ++ [f] } else s
  | none => s

/-! ### store / fetch against the file set -/

/-- `Disk.store`: decide the placement and write the file (before BEGIN). -/
def store (s : Cache) (E : Externals) (v : PyVal) (read : Bool) : Except StoreErr (Cache × Cols) :=
  match place E s.cfg.disk s.cfg.minFileSize v read with
  | .error e => .error e
  | .ok (.inline mode sv) => .ok (s, { expT := none, tag := .null, size := 0, mode := mode, file := none, val := sv })
  | .ok (.file mode c) =>
    let (s, f) := s.fwrite c
    .ok (s, { expT := none, tag := .null, size := c.size, mode := mode, file := some f, val := .null })

/-- `Disk.fetch` of a row; logs the file read. -/
def fetchRow (s : Cache) (E : Externals) (r : Row) (read : Bool) : Cache × Fetched :=
  match r.file with
  | some f =>
    let s := if r.mode == MODE_RAW then s else s.log (.fr f)
    (s, fetch E s.cfg.disk r.mode (s.fileGet f) true r.val read)
  | none => (s, fetch E s.cfg.disk r.mode none false r.val read)

def fetchedOut : Fetched → Out
  | .val v => .val v
  | .handle b => .handle b
  | .ioerror => .exc "IOError"

/-- shape of a result with the `expire_time` / `tag` flags -/
def withFlags (o : Out) (et tg : Bool) (e : Option Int) (t : SqlVal) : Out :=
  if et && tg then .tup [o, .time e, .sql t]
  else if et then .tup [o, .time e]
  else if tg then .tup [o, .sql t]
  else o

def defaultFlags (et tg : Bool) : Out :=
  if et && tg then .tup [.default, .none, .none]
  else if et || tg then .tup [.default, .none]
  else .default

/-! ### public methods -/

/-- `Cache.set` (core.py:749-812). -/
def set (s : Cache) (E : Externals) (now : Int) (k v : PyVal) (ttl : Option Int) (read : Bool)
    (tag : SqlVal) : Cache × Out :=
  let (dbk, raw) := DC.put E s.cfg.disk k
  match s.store E v read with
  | .error _ => (s, .exc "UnicodeEncodeError")
  | .ok (s, c) =>
    let c := { c with expT := ttl.map (now + ·), tag := tag }
    s.transact (fresh := c.file) fun s =>
      if !bindable dbk then { s := s.log (.sqlFail "selKey"), out := .exc "UnicodeEncodeError", ok := false } else
      let old := s.selKey dbk raw
      let s := s.logSql "selKey"
      if !c.bindable then
        { s := s.log (.sqlFail (if old.isSome then "updRow" else "insRow")), out := .exc "UnicodeEncodeError", ok := false }
      else
      let (s, cl) := match old with
        | some r => (s.updRow r.rowid now c, [r.file])
        | none => (s.insRow dbk raw now c, [])
      let (s, cl2) := s.cullW now
      { s := s, out := .bool true, cleanup := cl ++ cl2 }

/-- `Cache.touch` (core.py:927-962). -/
def touch (s : Cache) (E : Externals) (now : Int) (k : PyVal) (ttl : Option Int) : Cache × Out :=
  let (dbk, raw) := DC.put E s.cfg.disk k
  s.transact fun s =>
    let old := s.selKey dbk raw
    let s := s.logSql "selKey"
    match old with
    | some r => if live now r then { s := s.updExp r.rowid (ttl.map (now + ·)), out := .bool true }
                else { s := s, out := .bool false }
    | none => { s := s, out := .bool false }

/-- `Cache.add` (core.py:964-1016). -/
def add (s : Cache) (E : Externals) (now : Int) (k v : PyVal) (ttl : Option Int) (read : Bool)
    (tag : SqlVal) : Cache × Out :=
  let (dbk, raw) := DC.put E s.cfg.disk k
  match s.store E v read with
  | .error _ => (s, .exc "UnicodeEncodeError")
  | .ok (s, c) =>
    let c := { c with expT := ttl.map (now + ·), tag := tag }
    s.transact (fresh := c.file) fun s =>
      if !bindable dbk then { s := s.log (.sqlFail "selKey"), out := .exc "UnicodeEncodeError", ok := false } else
      let old := s.selKey dbk raw
      let s := s.logSql "selKey"
      match old with
      | some r =>
        if live now r then { s := s, out := .bool false, cleanup := [c.file] }
        else if !c.bindable then
          { s := s.log (.sqlFail "updRow"), out := .exc "UnicodeEncodeError", ok := false }
        else
          let s := s.updRow r.rowid now c
          let (s, cl2) := s.cullW now
          { s := s, out := .bool true, cleanup := [r.file] ++ cl2 }
      | none =>
        if !c.bindable then
          { s := s.log (.sqlFail "insRow"), out := .exc "UnicodeEncodeError", ok := false }
        else
        let s := s.insRow dbk raw now c
        let (s, cl2) := s.cullW now
        { s := s, out := .bool true, cleanup := cl2 }

/-- `Cache.incr` (core.py:1018-1091) for integer values and deltas.
`dflt = none` is `default=None`. -/
def incr (s : Cache) (E : Externals) (now : Int) (k : PyVal) (delta : Int) (dflt : Option Int) :
    Cache × Out :=
  let (dbk, raw) := DC.put E s.cfg.disk k
  s.transact fun s =>
    let old := s.selKey dbk raw
    let s := s.logSql "selKey"
    let fresh (s : Cache) (upd : Option Row) : Body :=
      match dflt with
      | none => { s := s, out := .exc "KeyError", ok := false }
      | some d =>
        let value := d + delta
        match s.store E (.int value) false with
        | .error _ => { s := s, out := .exc "UnicodeEncodeError", ok := false }
        | .ok (s, c) =>
          let s := s.regCreated c.file
          match upd with
          | none =>
            let s := s.insRow dbk raw now c
            let (s, cl) := s.cullW now
            { s := s, out := .int value, cleanup := cl }
          | some r =>
            let s := s.updRow r.rowid now c
            let (s, cl) := s.cullW now
            { s := s, out := .int value, cleanup := cl ++ [r.file] }
    match old with
    | none => fresh s none
    | some r =>
      if expired now r then fresh s (some r)
      else
        match r.val with
        | .int i =>
          if inI64 (i + delta) then
            { s := s.updIncr r.rowid now (.int (i + delta)), out := .int (i + delta) }
          else { s := s.log (.sqlFail "updIncr"), out := .exc "OverflowError", ok := false }
        | _ => { s := s, out := .exc "TypeError", ok := false }

/-- `Cache.get` (core.py:1123-1222); `getitem`/`read` are wrappers. -/
def get (s : Cache) (E : Externals) (now : Int) (k : PyVal) (read et tg : Bool) : Cache × Out :=
  let (dbk, raw) := DC.put E s.cfg.disk k
  if !s.statistics && !policyUpdates s.cfg.policy then
    -- fast path: one SELECT, no transaction
    let hit := s.selLive dbk raw now
    let s := s.logSql "selLive"
    match hit with
    | none => (s, defaultFlags et tg)
    | some r =>
      let (s, f) := s.fetchRow E r read
      match f with
      | .ioerror => (s, defaultFlags et tg)
      | f => (s, withFlags (fetchedOut f) et tg r.expT r.tag)
  else
    s.transact fun s =>
      let hit := s.selLive dbk raw now
      let s := s.logSql "selLive"
      match hit with
      | none =>
        let s := if s.statistics then { s with misses := s.misses + 1 }.logSql "miss" else s
        { s := s, out := defaultFlags et tg }
      | some r =>
        let (s, f) := s.fetchRow E r read
        match f with
        | .ioerror =>
          let s := if s.statistics then { s with misses := s.misses + 1 }.logSql "miss" else s
          { s := s, out := defaultFlags et tg }
        | f =>
          let s := if s.statistics then { s with hits := s.hits + 1 }.logSql "hit" else s
          let s := if policyUpdates s.cfg.policy then s.updGet r.rowid now else s
          { s := s, out := withFlags (fetchedOut f) et tg r.expT r.tag }

/-- `Cache.__contains__` (core.py:1255-1272). -/
def contains (s : Cache) (E : Externals) (now : Int) (k : PyVal) : Cache × Out :=
  let (dbk, raw) := DC.put E s.cfg.disk k
  ((s.logSql "selLive"), .bool (s.selLive dbk raw now).isSome)

/-- `Cache.pop` (core.py:1274-1334). -/
def pop (s : Cache) (E : Externals) (now : Int) (k : PyVal) (et tg : Bool) : Cache × Out :=
  let (dbk, raw) := DC.put E s.cfg.disk k
  let hit := s.selLive dbk raw now
  let (s, _) := s.transact fun s =>
    let s := s.logSql "selLive"
    match hit with
    | none => { s := s, out := .none }
    | some r => { s := s.delRow r.rowid, out := .none }
  match hit with
  | none => (s, defaultFlags et tg)
  | some r =>
    let (s, f) := s.fetchRow E r false
    let s := s.removeCommitted r.file
    match f with
    | .ioerror => (s, defaultFlags et tg)
    | f => (s, withFlags (fetchedOut f) et tg r.expT r.tag)

/-- `Cache.__delitem__` (core.py:1336-1365). -/
def delitem (s : Cache) (E : Externals) (now : Int) (k : PyVal) : Cache × Out :=
  let (dbk, raw) := DC.put E s.cfg.disk k
  s.transact fun s =>
    let hit := s.selLive dbk raw now
    let s := s.logSql "selLive"
    match hit with
    | none => { s := s, out := .exc "KeyError", ok := false }
    | some r => { s := s.delRow r.rowid, out := .bool true, cleanup := [r.file] }

/-- `Cache.delete` (core.py:1367-1385). -/
def delete (s : Cache) (E : Externals) (now : Int) (k : PyVal) : Cache × Out :=
  match s.delitem E now k with
  | (s, .exc "KeyError") => (s, .bool false)
  | r => r

/-! ### queues -/

def natDigits15 (n : Nat) : Str :=
  let rec go (fuel : Nat) (n : Nat) (acc : Str) : Str :=
    match fuel with
    | 0 => acc
    | fuel + 1 => go fuel (n / 10) ((48 + n % 10) :: acc)
  -- '{:015d}': at least 15 digits
  let base := go 15 n []
  if n < 10^15 then base else
    -- more than 15 digits: plain decimal
    (toString n).toList.map (·.toNat)

/-- queue key range for a prefix: (min_key, max_key) -/
def queueRange (prefix_ : Option Str) : SqlVal × SqlVal :=
  match prefix_ with
  | none => (.int 0, .int 999999999999999)
  | some p => (.text (p ++ 45 :: List.replicate 15 48), .text (p ++ 45 :: List.replicate 15 57))

def inRange (lo hi : SqlVal) (r : Row) : Bool := lo.lt r.key && r.key.lt hi

/-- `AND length(key) = len(prefix) + 16` for a text prefix (keys of a queue whose prefix
extends this one lie in the same range but are longer); no such clause for integer keys -/
def sameLength (prefix_ : Option Str) (k : SqlVal) : Bool :=
  match prefix_, k with
  | none, _ => true
  | some p, .text cs => cs.length == p.length + 16
  | some _, _ => false

/-- rows of the queue range ordered by key -/
def queueRows (s : Cache) (prefix_ : Option Str) : List Row :=
  let (lo, hi) := queueRange prefix_
  isort (fun a b => a.key.lt b.key)
    (s.rows.filter (fun r => inRange lo hi r && r.raw && sameLength prefix_ r.key))

def lastRow? (rows : List Row) : Option Row := rows.getLast?

/-- parse the digits after the last '-' (`int(key[key.rfind('-')+1:])`) -/
def parseNum (cs : Str) : Option Nat :=
  if cs.isEmpty then none else
  cs.foldl (fun acc c => match acc with
    | none => none
    | some n => if 48 ≤ c && c ≤ 57 then some (n * 10 + (c - 48)) else none) (some 0)

def afterLastDash (cs : Str) : Str :=
  let rec go : Str → Str → Str
    | [], acc => acc
    | c :: cs, acc => if c == 45 then go cs [] else go cs (acc ++ [c])
  go cs []

def queueNum (k : SqlVal) : Option Int :=
  match k with
  | .int i => some i
  | .text cs => (parseNum (afterLastDash cs)).map (fun n => (n : Int))
  | _ => none

def queueKey (prefix_ : Option Str) (num : Int) : SqlVal :=
  match prefix_ with
  | none => .int num
  | some p =>
    if num < 0 then .text (p ++ 45 :: 45 :: natDigits15 (-num).toNat |>.drop 0)  -- '{:015d}' of a negative
    else .text (p ++ 45 :: natDigits15 num.toNat)

def keyOut (E : Externals) (d : DiskKind) (k : SqlVal) (raw : Bool) : Out := .val (DC.get E d k raw)

/-- `Cache.push` (core.py:1387-1485).  `back = true` is side='back'. -/
def push (s : Cache) (E : Externals) (now : Int) (v : PyVal) (prefix_ : Option Str) (back : Bool)
    (ttl : Option Int) (read : Bool) (tag : SqlVal) : Cache × Out :=
  match s.store E v read with
  | .error _ => (s, .exc "UnicodeEncodeError")
  | .ok (s, c) =>
    let c := { c with expT := ttl.map (now + ·), tag := tag }
    s.transact (fresh := c.file) fun s =>
      let q := s.queueRows prefix_
      let s := s.logSql "selQueueEnd"
      let ext := if back then lastRow? q else q.head?
      let num : Option Int := match ext with
        | none => some (s.cfg.qorigin : Int)
        | some r => (queueNum r.key).map (fun n => if back then n + 1 else n - 1)
      match num with
      | none => { s := s, out := .exc "ValueError", ok := false }
      | some num =>
        let dbk := queueKey prefix_ num
        if (s.selKey dbk true).isSome then
          -- UNIQUE index Cache_key_raw: an ordinary key sits just outside the queue range
          { s := s.log (.sqlFail "insRow"), out := .exc "IntegrityError", ok := false }
        else if !c.bindable || !bindable dbk then
          { s := s.log (.sqlFail "insRow"), out := .exc "UnicodeEncodeError", ok := false }
        else
        let s := s.insRow dbk true now c
        let (s, cl) := s.cullW now
        { s := s, out := .val (column dbk), cleanup := cl }

/-- one round of `pull`'s inner loop: select the head, delete it; if it was
expired hand its file to cleanup and go round again. -/
def pullLoop (E : Externals) (now : Int) (prefix_ : Option Str) (front : Bool) (et tg : Bool) :
    Nat → Cache → Cache × Out
  | 0, s => (s, defaultFlags et tg)
  | fuel + 1, s =>
    let q := s.queueRows prefix_
    let head := if front then q.head? else lastRow? q
    match head with
    | none =>
      let (s, _) := s.transact fun s => { s := s.logSql "selQueueHead", out := .none }
      (s, defaultFlags et tg)
    | some r =>
      if expired now r then
        let (s, _) := s.transact fun s =>
          { s := (s.logSql "selQueueHead").delRow r.rowid, out := .none, cleanup := [r.file] }
        pullLoop E now prefix_ front et tg fuel s
      else
        let (s, _) := s.transact fun s =>
          { s := (s.logSql "selQueueHead").delRow r.rowid, out := .none }
        let (s, f) := s.fetchRow E r false
        let s := s.removeCommitted r.file
        match f with
        | .ioerror => pullLoop E now prefix_ front et tg fuel s
        | f => (s, withFlags (.tup [.val (column r.key), fetchedOut f]) et tg r.expT r.tag)

/-- `Cache.pull` (core.py:1487-1604). -/
def pull (s : Cache) (E : Externals) (now : Int) (prefix_ : Option Str) (front : Bool)
    (et tg : Bool) : Cache × Out :=
  pullLoop E now prefix_ front et tg (s.rows.length + 1) s

def peekLoop (E : Externals) (now : Int) (prefix_ : Option Str) (front : Bool) (et tg : Bool) :
    Nat → Cache → Cache × Out
  | 0, s => (s, defaultFlags et tg)
  | fuel + 1, s =>
    let q := s.queueRows prefix_
    let head := if front then q.head? else lastRow? q
    match head with
    | none =>
      let (s, _) := s.transact fun s => { s := s.logSql "selQueueHead", out := .none }
      (s, defaultFlags et tg)
    | some r =>
      if expired now r then
        let (s, _) := s.transact fun s =>
          { s := (s.logSql "selQueueHead").delRow r.rowid, out := .none, cleanup := [r.file] }
        peekLoop E now prefix_ front et tg fuel s
      else
        let (s, _) := s.transact fun s => { s := s.logSql "selQueueHead", out := .none }
        let (s, f) := s.fetchRow E r false
        match f with
        | .ioerror => peekLoop E now prefix_ front et tg fuel s
        | f => (s, withFlags (.tup [.val (column r.key), fetchedOut f]) et tg r.expT r.tag)

/-- `Cache.peek` (core.py:1606-1715). -/
def peek (s : Cache) (E : Externals) (now : Int) (prefix_ : Option Str) (front : Bool)
    (et tg : Bool) : Cache × Out :=
  peekLoop E now prefix_ front et tg (s.rows.length + 1) s

def peekitemLoop (E : Externals) (now : Int) (last : Bool) (et tg : Bool) :
    Nat → Cache → Cache × Out
  | 0, s => (s, .exc "KeyError")
  | fuel + 1, s =>
    let edge := if last then lastRow? s.rows else s.rows.head?
    match edge with
    | none =>
      s.transact fun s => { s := s.logSql "selEdge", out := .exc "KeyError", ok := false }
    | some r =>
      if expired now r then
        let (s, _) := s.transact fun s =>
          { s := (s.logSql "selEdge").delRow r.rowid, out := .none, cleanup := [r.file] }
        peekitemLoop E now last et tg fuel s
      else
        let (s, _) := s.transact fun s => { s := s.logSql "selEdge", out := .none }
        let (s, f) := s.fetchRow E r false
        match f with
        | .ioerror => peekitemLoop E now last et tg fuel s
        | f => (s, withFlags (.tup [keyOut E s.cfg.disk r.key r.raw, fetchedOut f]) et tg r.expT r.tag)

/-- `Cache.peekitem` (core.py:1717-1793). -/
def peekitem (s : Cache) (E : Externals) (now : Int) (last : Bool) (et tg : Bool) : Cache × Out :=
  peekitemLoop E now last et tg (s.rows.length + 1) s

/-! ### bulk removal: `_select_delete` paging loops (core.py:2047-2206) -/

/-- one transaction of `_select_delete`: the page, then DELETE … IN (ids), then file removal -/
def deletePage (s : Cache) (page : List Row) (sel : String) : Cache :=
  let (s, _) := s.transact fun s =>
    let s := s.logSql sel
    if page.isEmpty then { s := s, out := .none }
    else { s := (s.delIn (page.map (·.rowid))).logSql "delList", out := .none,
           cleanup := page.map (·.file) }
  s

/-- `clear`: pages `WHERE rowid > ? ORDER BY rowid LIMIT ?`, cursor = last rowid removed. -/
def clearLoop : Nat → Cache → Nat → Nat → Cache × Nat
  | 0, s, _, n => (s, n)
  | fuel + 1, s, cur, n =>
    let page := (s.rows.filter (fun r => r.rowid > cur)).take s.cfg.page
    let s := s.deletePage page "pageRowid"
    match lastRow? page with
    | none => (s, n)
    | some r => clearLoop fuel s r.rowid (n + page.length)

def clear (s : Cache) : Cache × Out :=
  let (s, n) := clearLoop (s.rows.length + 1) s 0 0
  (s, .int n)

/-- `evict(tag)`: pages `WHERE tag = ? AND rowid > ? ORDER BY rowid LIMIT ?`. -/
def evictLoop (tag : SqlVal) : Nat → Cache → Nat → Nat → Cache × Nat
  | 0, s, _, n => (s, n)
  | fuel + 1, s, cur, n =>
    let page := (s.rows.filter (fun r => r.tag.eqv tag && r.rowid > cur)).take s.cfg.page
    let s := s.deletePage page "pageTag"
    match lastRow? page with
    | none => (s, n)
    | some r => evictLoop tag fuel s r.rowid (n + page.length)

def evict (s : Cache) (tag : SqlVal) : Cache × Out :=
  let (s, n) := evictLoop tag (s.rows.length + 1) s 0 0
  (s, .int n)

/-- `expire(now)`: pages `WHERE ? <= expire_time AND expire_time < ? ORDER BY expire_time LIMIT ?`,
lower bound = last expire_time removed (initially -inf). -/
def expireLoop (now : Int) : Nat → Cache → Option Int → Nat → Cache × Nat
  | 0, s, _, n => (s, n)
  | fuel + 1, s, lo, n =>
    let sel := s.rows.filter (fun r => expired now r &&
      (match lo, r.expT with | some l, some t => l ≤ t | none, _ => true | _, none => false))
    let page := (isort (fun a b => ltOptInt a.expT b.expT) sel).take s.cfg.page
    let s := s.deletePage page "pageExpire"
    match lastRow? page with
    | none => (s, n)
    | some r => expireLoop now fuel s r.expT (n + page.length)

def expire (s : Cache) (now : Int) : Cache × Out :=
  let (s, n) := expireLoop now (s.rows.length + 1) s none 0
  (s, .int n)

/-- the policy loop of `cull()` (core.py:2134-2154): batches of `batch` while volume > limit -/
def cullLoop : Nat → Cache → Nat → Cache × Nat
  | 0, s, n => (s, n)
  | fuel + 1, s, n =>
    let (s, vol) := s.volume
    if !aboveLimit s.cfg vol then (s, n)
    else
      let rows := s.selPolicy s.cfg.batch
      if rows.isEmpty then
        let (s, _) := s.transact fun s => { s := s.logSql "selPolicy", out := .none }
        (s, n)
      else
        let (s, _) := s.transact fun s =>
          { s := ((s.logSql "selPolicy").delIn (rows.map (·.rowid))).logSql "delPolicy", out := .none,
            cleanup := rows.map (·.file) }
        cullLoop fuel s (n + rows.length)

/-- `Cache.cull` (core.py:2101-2154). -/
def cull (s : Cache) (now : Int) : Cache × Out :=
  let (s, n) := expireLoop now (s.rows.length + 1) s none 0
  if s.cfg.policy == .none then (s, .int n)
  else
    let (s, n) := cullLoop (s.rows.length + 1) s n
    (s, .int n)

/-! ### iteration (core.py:2208-2309) -/

/-- `_iter`: `SELECT MAX(rowid)`, then pages `WHERE ? < rowid AND rowid < ? ORDER BY rowid`. -/
def iterLoop (asc : Bool) (bound : Nat) : Nat → Cache → Nat → List Row → Cache × List Row
  | 0, s, _, acc => (s, acc)
  | fuel + 1, s, cur, acc =>
    let page :=
      if asc then (s.rows.filter (fun r => cur < r.rowid && r.rowid < bound)).take s.cfg.page
      else ((s.rows.filter (fun r => 0 < r.rowid && r.rowid < cur)).reverse).take s.cfg.page
    let s := s.logSql "pageIter"
    match lastRow? page with
    | none => (s, acc)
    | some r => iterLoop asc bound fuel s r.rowid (acc ++ page)

def iter (s : Cache) (E : Externals) (asc : Bool) : Cache × Out :=
  let s := s.logSql "maxRowid"
  if s.rows.isEmpty then (s, .list [])
  else
    let bound := maxRowid s.rows + 1
    let (s, rows) := iterLoop asc bound (s.rows.length + 1) s (if asc then 0 else bound) []
    (s, .list (rows.map (fun r => keyOut E s.cfg.disk r.key r.raw)))

def keyRawLtRow (a b : Row) : Bool := keyRawLt (a.key, a.raw) (b.key, b.raw)

/-- `iterkeys`: first key, then pages `WHERE key = ? AND raw > ? OR key > ? ORDER BY key, raw`. -/
def iterkeysLoop (rev : Bool) : Nat → Cache → Row → List Row → Cache × List Row
  | 0, s, _, acc => (s, acc)
  | fuel + 1, s, cur, acc =>
    let sel := s.rows.filter (fun r => if rev then keyRawLtRow r cur else keyRawLtRow cur r)
    let sorted := isort (fun a b => if rev then keyRawLtRow b a else keyRawLtRow a b) sel
    let page := sorted.take s.cfg.page
    let s := s.logSql "pageKey"
    match lastRow? page with
    | none => (s, acc)
    | some r => iterkeysLoop rev fuel s r (acc ++ page)

def iterkeys (s : Cache) (E : Externals) (rev : Bool) : Cache × Out :=
  let sorted := isort (fun a b => if rev then keyRawLtRow b a else keyRawLtRow a b) s.rows
  let s := s.logSql "firstKey"
  match sorted.head? with
  | none => (s, .list [])
  | some r0 =>
    let (s, rows) := iterkeysLoop rev (s.rows.length + 1) s r0 [r0]
    (s, .list (rows.map (fun r => keyOut E s.cfg.disk r.key r.raw)))

/-! ### counters and settings -/

def len (s : Cache) : Cache × Out := (s.logSql "getCount", .int s.count)

def volumeOp (s : Cache) : Cache × Out :=
  let (s, v) := s.volume
  (s, .int v)

/-- `stats(enable, reset)` (core.py:2311-2328) -/
def stats (s : Cache) (enable reset : Bool) : Cache × Out :=
  let out := Out.tup [.int s.hits, .int s.misses]
  let s := (s.logSql "getHits").logSql "getMisses"
  let s := if reset then ({ s with hits := 0, misses := 0 }.logSql "setHits").logSql "setMisses" else s
  ({ s with statistics := enable }.logSql "setStatistics", out)

/-- Σ row sizes (executable twin of `sumSizes` in Proofs/Defs) -/
def sumSizesB (rows : List Row) : Int := (rows.map (fun r => (r.size : Int))).sum

end Cache
end DC
