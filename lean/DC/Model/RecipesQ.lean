/-
throttle (recipes.py:254-315) with a count that is any positive rational p/q.

`DC.Recipes.Bucket` (DC/Model/Recipes.lean) covers whole-number counts only.  The real decorator
never requires that: `count` only ever appears in arithmetic

    rate = count / float(seconds)                     # recipes.py:285
    cache.set(key, (now, count), ...)                 # :288   a full bucket
    tally += (now - last) * rate                      # :296
    if tally > count:   set(key, (now, count - 1))    # :299-300
    elif tally >= 1:    set(key, (now, tally - 1))    # :301-302
    else:               delay = (1 - tally) / rate    # :303-304

so `throttle(cache, 0.5, 1)` (one call every two seconds) or `throttle(cache, 2.5, 1)` are legal.

Choice of units (no floats, no rationals carried around).  Write count = p/q and let `seconds` be
the period in some time unit u (u = 1 s, or u = 1/den s when instants are given as multiples of
1/den s: then `seconds` here is `seconds * den`, see `answerTq` in DC/Driver.lean).

  * time is counted in TICKS of u/p            (so now - last in ticks is p·Δ/u)
  * the tally is scaled by q·seconds:          T = tally · q · seconds

With rate = p / (q·seconds) tokens per u, one tick adds rate·u/p = 1/(q·seconds) tokens, i.e.
exactly ONE unit of T.  Hence, all in integers:

    tally += (now - last) * rate        T += Δticks
    count        (the cap)              p · seconds        (`cap`)
    1            (one token)            q · seconds        (`token`)
    count - 1                           p·seconds - q·seconds      (negative when count < 1 !)
    delay = (1 - tally) / rate          (token - T) ticks  — a WHOLE number of ticks

The last line is the reason for the tick u/p: the delay of the real code, (1 - tally)·q·seconds/p
time units, is in general not a whole multiple of the unit in which the instants are given, but it
is always a whole number of ticks of u/p.  So the model stays closed under "sleep the delay you
were told" (the liveness half of C20) without carrying a fraction; the driver converts the delay
back to the exact fraction d / (p·den) of a second.

With q = 1 this is literally `Bucket` (ticks of 1/count, tally scaled by seconds): see
`DC.Recipes.qbucket_of_nat` in DC/Properties/C20_Rational.lean.
-/
import DC.Model.Recipes

namespace DC.Recipes

structure QBucket where
  p : Nat            -- count = p / q
  q : Nat
  seconds : Nat      -- period (time units u)
  last : Int         -- instant of the last pass (ticks of u/p)
  tally : Int        -- scaled tally T = tally·q·seconds at `last`; may be negative when p < q
  deriving DecidableEq, Repr, Inhabited

/-- `count` in scaled units: the cap of the bucket -/
def QBucket.cap (b : QBucket) : Int := (b.p : Int) * b.seconds

/-- one token in scaled units: what a call spends -/
def QBucket.token (b : QBucket) : Int := (b.q : Int) * b.seconds

/-- `throttle(...)` at decoration time (recipes.py:287-288): tally = count -/
def QBucket.init (p q seconds : Nat) (now : Int) : QBucket :=
  { p := p, q := q, seconds := seconds, last := now, tally := (p : Int) * seconds }

/-- one attempt at instant `now` (recipes.py:294-304): either the call is let through, or the
delay to sleep, in ticks -/
def QBucket.attempt (b : QBucket) (now : Int) : QBucket × Option Int :=
  let t := b.tally + (now - b.last)
  if t > b.cap then ({ b with last := now, tally := b.cap - b.token }, none)
  else if t ≥ b.token then ({ b with last := now, tally := t - b.token }, none)
  else (b, some (b.token - t))

/-- attempts at the given instants; the instants at which a call passed -/
def QBucket.passes (b : QBucket) : List Int → List Int
  | [] => []
  | now :: rest =>
    match b.attempt now with
    | (b', none) => now :: QBucket.passes b' rest
    | (b', some _) => QBucket.passes b' rest

/-- the state after the attempts at the given instants -/
def QBucket.run (b : QBucket) (times : List Int) : QBucket :=
  times.foldl (fun b t => (b.attempt t).1) b

/-- The seeded defect: cap first (`tally = min(tally + (now - last) * rate, count)`), then the
single test `if tally >= 1`.  Indistinguishable from `attempt` when count ≥ 1, never passes
when count < 1 (`capped_eq_of_ge`, `capped_never_passes`). -/
def QBucket.attemptCapped (b : QBucket) (now : Int) : QBucket × Option Int :=
  let t := min (b.tally + (now - b.last)) b.cap
  if t ≥ b.token then ({ b with last := now, tally := t - b.token }, none)
  else (b, some (b.token - t))

def QBucket.passesCapped (b : QBucket) : List Int → List Int
  | [] => []
  | now :: rest =>
    match b.attemptCapped now with
    | (b', none) => now :: QBucket.passesCapped b' rest
    | (b', some _) => QBucket.passesCapped b' rest

/-- the embedding of the whole-number model: count = count/1 -/
def QBucket.ofBucket (b : Bucket) : QBucket :=
  { p := b.count, q := 1, seconds := b.seconds, last := b.last, tally := b.tally }

/-! ### several callers sharing one throttle

The wrapper (recipes.py:291-311) is `while True: attempt; if delay: sleep_func(delay) else: break`.
A call that has not been let through yet is represented by the earliest instant of its next
attempt (its arrival instant, or the instant at which its sleep ends).  A schedule is a list of
picks `(i, late)`: the call at position `i` (modulo the number of waiting calls, so that every
pick is meaningful) makes its next attempt `late` ticks after that earliest instant (the OS may
wake a sleeper late; a scheduler that keeps the shared clock monotone is one particular choice
of `late`s).  The attempt itself is atomic (`with cache.transact(retry=True)`). -/

structure QSys where
  b : QBucket
  waiting : List Int       -- earliest instant of the next attempt of every call not yet let through
  log : List Int := []     -- instants of all attempts so far, most recent first
  deriving DecidableEq, Repr, Inhabited

def QSys.step (s : QSys) (pick : Nat × Nat) : QSys :=
  match s.waiting with
  | [] => s
  | w0 :: ws =>
    let i := pick.1 % (ws.length + 1)
    let now := (w0 :: ws).getD i w0 + (pick.2 : Int)
    match s.b.attempt now with
    | (b', none) => { b := b', waiting := (w0 :: ws).eraseIdx i, log := now :: s.log }
    | (_, some d) => { s with waiting := (w0 :: ws).set i (now + d), log := now :: s.log }

def QSys.run (s : QSys) (sched : List (Nat × Nat)) : QSys := sched.foldl QSys.step s

/-- n(n+1)/2, without division -/
def tri : Nat → Nat
  | 0 => 0
  | n + 1 => tri n + (n + 1)

end DC.Recipes
