/-
The reference bounded list of C11: "a `collections.deque(maxlen=…)` whose items
are stored values".  No rows, rowids, queue keys, counters, transactions or
value-file names — only the list of entries (front first) and the bound.
`DC/Properties/C11_Refine.lean` proves that the Deque model of
`DC/Model/Layers.lean` refines it for every history of the calls below.

Reading guide: `DList` is the state; an item is a `Spec.Entry` (the stored
representation of a value, as in `DC/Model/Spec.lean`: mode, database cell,
content of the value file if there is one; a Deque item never carries an
expiry time or a tag); every call is one function `DList → … → DList × Out`
written as the documentation of `collections.deque` reads.
-/
import DC.Model.Layers
import DC.Model.Spec

namespace DC.DSpec
open DC.Cache

/-- the bounded list: items front first; `maxlen = none` is unbounded -/
structure DList where
  items : List Spec.Entry := []
  maxlen : Option Nat := none
  deriving Repr, Inhabited

/-- is a list of this length longer than the bound? -/
def DList.over (m : DList) (l : List Spec.Entry) : Bool :=
  match m.maxlen with
  | none => false
  | some k => decide (k < l.length)

/-- the entry `append` / `appendleft` store for a value, if it can be stored: `Disk.store` must
be able to write it (a text value file needs valid UTF-8) and `sqlite3` must be able to bind the
database cell (no lone surrogate in an inline text) -/
def entryFor (E : Externals) (cfg : Cfg) (v : PyVal) : Option Spec.Entry :=
  match place E cfg.disk cfg.minFileSize v false with
  | .error _ => none
  | .ok p => if bindable (Spec.entryOf p none .null).val then some (Spec.entryOf p none .null) else none

/-- the value can be stored -/
def storable (E : Externals) (cfg : Cfg) (v : PyVal) : Bool := (entryFor E cfg v).isSome

/-- what reading an item returns (`Disk.fetch` of the stored representation; every entry made by
`entryFor` can be read back, so the `default` that `Entry.out` gives for an unreadable one never
shows) -/
def valueOf (e : Spec.Entry) (E : Externals) (cfg : Cfg) : Out := e.out E cfg false false false

/-! ### the calls -/

/-- `append(v)` (`left = false`): add at the back; if that makes the list longer than `maxlen`
the FRONT item is discarded (with `maxlen = 0` nothing is kept).  `appendleft(v)`
(`left = true`): symmetrically, add at the front and discard the BACK item.  A value that cannot
be stored raises UnicodeEncodeError and changes nothing. -/
def append (m : DList) (E : Externals) (cfg : Cfg) (v : PyVal) (left : Bool) : DList × Out :=
  match entryFor E cfg v with
  | none => (m, .exc "UnicodeEncodeError")
  | some e =>
    if left then
      let l := e :: m.items
      ({ m with items := if m.over l then l.dropLast else l }, .none)
    else
      let l := m.items ++ [e]
      ({ m with items := if m.over l then l.tail else l }, .none)

/-- `pop()` (`left = false`) removes and returns the back item, `popleft()` (`left = true`) the
front item; IndexError when the list is empty -/
def pop (m : DList) (E : Externals) (cfg : Cfg) (left : Bool) : DList × Out :=
  match (if left then m.items.head? else m.items.getLast?) with
  | none => (m, .exc "IndexError")
  | some e => ({ m with items := if left then m.items.tail else m.items.dropLast }, valueOf e E cfg)

/-- `peek()` / `peekleft()`: the back / front item without removing it; IndexError when empty -/
def peek (m : DList) (E : Externals) (cfg : Cfg) (left : Bool) : DList × Out :=
  match (if left then m.items.head? else m.items.getLast?) with
  | none => (m, .exc "IndexError")
  | some e => (m, valueOf e E cfg)

/-- `len(deque)` -/
def len (m : DList) : DList × Out := (m, .int m.items.length)

/-- `clear()` -/
def clear (m : DList) : DList × Out := ({ m with items := [] }, .none)

/-- Python indexing: `l[i]` for `0 ≤ i < len`, `l[len + i]` for `-len ≤ i < 0`, else nothing -/
def index {α} (l : List α) (i : Int) : Option α :=
  if 0 ≤ i then l[i.toNat]?
  else if -(l.length : Int) ≤ i then l[((l.length : Int) + i).toNat]?
  else none

/-- `deque[i]`: negative indices count from the back; IndexError out of range -/
def getitem (m : DList) (E : Externals) (cfg : Cfg) (i : Int) : DList × Out :=
  match index m.items i with
  | none => (m, .exc "IndexError")
  | some e => (m, valueOf e E cfg)

/-- `list(deque)` (`rev = false`) / `list(reversed(deque))` (`rev = true`) -/
def iter (m : DList) (E : Externals) (cfg : Cfg) (rev : Bool) : DList × Out :=
  (m, .list ((if rev then m.items.reverse else m.items).map (fun e => valueOf e E cfg)))

end DC.DSpec

namespace DC

/-- one call of a Deque history, with the codec observations and the clock value of that call -/
inductive DOp where
  | append (E : Externals) (now : Int) (v : PyVal)
  | appendleft (E : Externals) (now : Int) (v : PyVal)
  | pop (E : Externals) (now : Int)
  | popleft (E : Externals) (now : Int)
  | peek (E : Externals) (now : Int)
  | peekleft (E : Externals) (now : Int)
  | len
  | clear
  | getitem (E : Externals) (now : Int) (i : Int)
  | iter (E : Externals) (now : Int) (rev : Bool)

namespace Deque

/-- one call on the Deque model: new state and result -/
def step (d : Deque) : DOp → Deque × Out
  | .append E now v => d.append E now v false
  | .appendleft E now v => d.append E now v true
  | .pop E now => d.pop E now false
  | .popleft E now => d.pop E now true
  | .peek E now => d.peek E now false
  | .peekleft E now => d.peek E now true
  | .len => d.len
  | .clear => d.clear
  | .getitem E now i => d.getitem E now i
  | .iter E now rev => d.iterVals E now rev

/-- the Deque after a finite history -/
def run (d : Deque) (ops : List DOp) : Deque := ops.foldl (fun d op => (d.step op).1) d

/-- the results of a history -/
def outs (d : Deque) : List DOp → List Out
  | [] => []
  | op :: ops => (d.step op).2 :: outs (d.step op).1 ops

end Deque

namespace DSpec

/-- one call on the bounded list (the clock value plays no role: items never expire) -/
def step (m : DList) (cfg : Cfg) : DOp → DList × Out
  | .append E _ v => append m E cfg v false
  | .appendleft E _ v => append m E cfg v true
  | .pop E _ => pop m E cfg false
  | .popleft E _ => pop m E cfg true
  | .peek E _ => peek m E cfg false
  | .peekleft E _ => peek m E cfg true
  | .len => len m
  | .clear => clear m
  | .getitem E _ i => getitem m E cfg i
  | .iter E _ rev => iter m E cfg rev

/-- the bounded list after a history -/
def run (m : DList) (cfg : Cfg) (ops : List DOp) : DList := ops.foldl (fun m op => (step m cfg op).1) m

/-- the results of a history -/
def outs (m : DList) (cfg : Cfg) : List DOp → List Out
  | [] => []
  | op :: ops => (step m cfg op).2 :: outs (step m cfg op).1 cfg ops

end DSpec

/-- the calls that look an item up again by its key (`deque[i]`, iteration) -/
def DOp.byKey : DOp → Bool
  | .getitem .. | .iter .. => true
  | _ => false

end DC
