/-
The reference bounded list of C11: "a `collections.deque(maxlen=…)` whose items
are stored values".  No rows, rowids, queue keys, counters, transactions or
value-file names — only the list of entries (front first) and the bound.
`DC/Properties/C11_Refine.lean` proves that the Deque model of
`DC/Model/Layers.lean` refines it for every history of the calls below
(`DOp`: append, appendleft, extend, extendleft, pop, popleft, peek, peekleft, len, clear,
indexing, assignment and deletion by index, iteration, count, remove, comparison with a list,
rotate, reverse, the maxlen setter).

Reading guide: `DList` is the state; an item is a `Spec.Entry` (the stored
representation of a value, as in `DC/Model/Spec.lean`: mode, database cell,
content of the value file if there is one; a Deque item never carries an
expiry time or a tag); every call is one function `DList → … → DList × Out`
written as the documentation of `collections.deque` reads.
-/
import DC.Model.Layers
import DC.Model.Spec

namespace DC.DSpec
open DC.Cache

/-- the bounded list: items front first; `maxlen = none` is unbounded -/
structure DList where
  items : List Spec.Entry := []
  maxlen : Option Nat := none
  deriving Repr, Inhabited

/-- is a list of this length longer than the bound? -/
def DList.over (m : DList) (l : List Spec.Entry) : Bool :=
  match m.maxlen with
  | none => false
  | some k => decide (k < l.length)

/-- the entry `append` / `appendleft` store for a value, if it can be stored: `Disk.store` must
be able to write it (a text value file needs valid UTF-8) and `sqlite3` must be able to bind the
database cell (no lone surrogate in an inline text) -/
def entryFor (E : Externals) (cfg : Cfg) (v : PyVal) : Option Spec.Entry :=
  match place E cfg.disk cfg.minFileSize v false with
  | .error _ => none
  | .ok p => if bindable (Spec.entryOf p none .null).val then some (Spec.entryOf p none .null) else none

/-- the value can be stored -/
def storable (E : Externals) (cfg : Cfg) (v : PyVal) : Bool := (entryFor E cfg v).isSome

/-- what reading an item returns (`Disk.fetch` of the stored representation; every entry made by
`entryFor` can be read back, so the `default` that `Entry.out` gives for an unreadable one never
shows) -/
def valueOf (e : Spec.Entry) (E : Externals) (cfg : Cfg) : Out := e.out E cfg false false false

/-! ### the calls -/

/-- `append(v)` (`left = false`): add at the back; if that makes the list longer than `maxlen`
the FRONT item is discarded (with `maxlen = 0` nothing is kept).  `appendleft(v)`
(`left = true`): symmetrically, add at the front and discard the BACK item.  A value that cannot
be stored raises UnicodeEncodeError and changes nothing. -/
def append (m : DList) (E : Externals) (cfg : Cfg) (v : PyVal) (left : Bool) : DList × Out :=
  match entryFor E cfg v with
  | none => (m, .exc "UnicodeEncodeError")
  | some e =>
    if left then
      let l := e :: m.items
      ({ m with items := if m.over l then l.dropLast else l }, .none)
    else
      let l := m.items ++ [e]
      ({ m with items := if m.over l then l.tail else l }, .none)

/-- `pop()` (`left = false`) removes and returns the back item, `popleft()` (`left = true`) the
front item; IndexError when the list is empty -/
def pop (m : DList) (E : Externals) (cfg : Cfg) (left : Bool) : DList × Out :=
  match (if left then m.items.head? else m.items.getLast?) with
  | none => (m, .exc "IndexError")
  | some e => ({ m with items := if left then m.items.tail else m.items.dropLast }, valueOf e E cfg)

/-- `peek()` / `peekleft()`: the back / front item without removing it; IndexError when empty -/
def peek (m : DList) (E : Externals) (cfg : Cfg) (left : Bool) : DList × Out :=
  match (if left then m.items.head? else m.items.getLast?) with
  | none => (m, .exc "IndexError")
  | some e => (m, valueOf e E cfg)

/-- `len(deque)` -/
def len (m : DList) : DList × Out := (m, .int m.items.length)

/-- `clear()` -/
def clear (m : DList) : DList × Out := ({ m with items := [] }, .none)

/-- Python indexing: `l[i]` for `0 ≤ i < len`, `l[len + i]` for `-len ≤ i < 0`, else nothing -/
def index {α} (l : List α) (i : Int) : Option α :=
  if 0 ≤ i then l[i.toNat]?
  else if -(l.length : Int) ≤ i then l[((l.length : Int) + i).toNat]?
  else none

/-- `deque[i]`: negative indices count from the back; IndexError out of range -/
def getitem (m : DList) (E : Externals) (cfg : Cfg) (i : Int) : DList × Out :=
  match index m.items i with
  | none => (m, .exc "IndexError")
  | some e => (m, valueOf e E cfg)

/-- `list(deque)` (`rev = false`) / `list(reversed(deque))` (`rev = true`) -/
def iter (m : DList) (E : Externals) (cfg : Cfg) (rev : Bool) : DList × Out :=
  (m, .list ((if rev then m.items.reverse else m.items).map (fun e => valueOf e E cfg)))

/-- `extend(vs)` and `deque += vs` (`left = false`) / `extendleft(vs)` (`left = true`): one
`append` / `appendleft` per value, in the order given (so `extendleft` leaves the values in reverse
order at the front, and on a full deque every value pushes one out at the other end).  The first
value that cannot be stored raises UnicodeEncodeError: the values before it stay, the ones after it
are not looked at. -/
def extend (m : DList) (E : Externals) (cfg : Cfg) (vs : List PyVal) (left : Bool) : DList × Out :=
  match vs with
  | [] => (m, .none)
  | v :: vs =>
    if storable E cfg v then extend (append m E cfg v left).1 E cfg vs left
    else (m, .exc "UnicodeEncodeError")

/-- the position a Python index denotes in a list of `len` items: `i` itself for `0 ≤ i < len`,
`len + i` for `-len ≤ i < 0`, nothing otherwise (IndexError) -/
def position (len : Nat) (i : Int) : Option Nat :=
  if 0 ≤ i then (if i < (len : Int) then some i.toNat else none)
  else if -(len : Int) ≤ i then some ((len : Int) + i).toNat
  else none

/-- `deque[i] = v`: IndexError when `i` is out of range; otherwise the item at that position is
replaced (UnicodeEncodeError, and nothing changes, when the value cannot be stored) -/
def setitem (m : DList) (E : Externals) (cfg : Cfg) (i : Int) (v : PyVal) : DList × Out :=
  match position m.items.length i with
  | none => (m, .exc "IndexError")
  | some p =>
    match entryFor E cfg v with
    | none => (m, .exc "UnicodeEncodeError")
    | some e => ({ m with items := m.items.set p e }, .none)

/-- `del deque[i]`: IndexError when `i` is out of range; otherwise the item at that position is
removed, the others keep their order -/
def delitem (m : DList) (i : Int) : DList × Out :=
  match position m.items.length i with
  | none => (m, .exc "IndexError")
  | some p => ({ m with items := m.items.eraseIdx p }, .none)

/-- is the item equal to `v`?  Python's `v == item` on the value of the item (`pyEq`: numbers
compare by value across int and float, NaN equals nothing, text and bytes by content) -/
def holds (E : Externals) (cfg : Cfg) (v : PyVal) (e : Spec.Entry) : Bool :=
  match valueOf e E cfg with
  | .val x => pyEq v x
  | _ => false

/-- `deque.count(v)`: the number of items equal to `v` -/
def count (m : DList) (E : Externals) (cfg : Cfg) (v : PyVal) : DList × Out :=
  (m, .int (m.items.filter (holds E cfg v)).length)

/-- `deque.remove(v)`: the first item equal to `v` is removed; ValueError when there is none -/
def remove (m : DList) (E : Externals) (cfg : Cfg) (v : PyVal) : DList × Out :=
  match m.items.findIdx? (holds E cfg v) with
  | none => (m, .exc "ValueError")
  | some p => ({ m with items := m.items.eraseIdx p }, .none)

/-- the values of the items, front first -/
def values (m : DList) (E : Externals) (cfg : Cfg) : List PyVal :=
  outVals (m.items.map (fun e => valueOf e E cfg))

/-- `deque == that`, `!=`, `<`, `<=`, `>`, `>=` for a sequence `that`, as Python compares
sequences (`DC.cmpSeq`, DC/Model/Layers.lean): the first pair of values that are not equal decides
— `==` is False, `!=` is True, an ordering is the ordering of that pair, TypeError when the two
values have no order —, and when there is no such pair the lengths are compared -/
def compare (m : DList) (E : Externals) (cfg : Cfg) (op : CmpOp) (that : List PyVal) : DList × Out :=
  match cmpSeq op m.items.length that.length (values m E cfg) that with
  | some b => (m, .bool b)
  | none => (m, .exc "TypeError")

/-- one step to the right: the last item moves to the front (`d.appendleft(d.pop())`) -/
def rotr {α} (l : List α) : List α :=
  match l.getLast? with
  | none => l
  | some x => x :: l.dropLast

/-- one step to the left: the first item moves to the back (`d.append(d.popleft())`) -/
def rotl {α} (l : List α) : List α :=
  match l with
  | [] => []
  | x :: t => t ++ [x]

/-- `f` applied `k` times -/
def iter_ {α} (f : α → α) : Nat → α → α
  | 0, a => a
  | k + 1, a => iter_ f k (f a)

/-- `deque.rotate(steps)`: `steps` single steps to the right, for negative `steps` `-steps` single
steps to the left; `len` steps give the same list again, so `steps mod len` of them are made;
nothing happens on an empty deque -/
def rotate (m : DList) (steps : Int) : DList × Out :=
  if m.items.length = 0 then (m, .none)
  else if 0 ≤ steps then
    ({ m with items := iter_ rotr (steps % (m.items.length : Int)).toNat m.items }, .none)
  else
    ({ m with items := iter_ rotl ((-steps) % (m.items.length : Int)).toNat m.items }, .none)

/-- `deque.reverse()`: the items in reverse order -/
def reverse (m : DList) : DList × Out := ({ m with items := m.items.reverse }, .none)

/-- `deque.maxlen = k`: the bound becomes `k`; a longer list loses items at the FRONT until it
fits — it keeps its last `k` items, as `collections.deque(d, maxlen=k)` does -/
def setMaxlen (m : DList) (k : Nat) : DList × Out :=
  ({ items := m.items.drop (m.items.length - k), maxlen := some k }, .none)

/-- storing the value of the item again gives the same stored representation: true of every item
when the serializer is deterministic and `loads` inverts it; `rotate` and `reverse` move items by
reading their value and storing it again -/
def restores (E : Externals) (cfg : Cfg) (e : Spec.Entry) : Bool :=
  match valueOf e E cfg with
  | .val v => decide (entryFor E cfg v = some e)
  | _ => false

end DC.DSpec

namespace DC

/-- one call of a Deque history, with the codec observations and the clock value of that call -/
inductive DOp where
  | append (E : Externals) (now : Int) (v : PyVal)
  | appendleft (E : Externals) (now : Int) (v : PyVal)
  | pop (E : Externals) (now : Int)
  | popleft (E : Externals) (now : Int)
  | peek (E : Externals) (now : Int)
  | peekleft (E : Externals) (now : Int)
  | len
  | clear
  | getitem (E : Externals) (now : Int) (i : Int)
  | iter (E : Externals) (now : Int) (rev : Bool)
  | extend (E : Externals) (now : Int) (vs : List PyVal)
  | extendleft (E : Externals) (now : Int) (vs : List PyVal)
  | setitem (E : Externals) (now : Int) (i : Int) (v : PyVal)
  | delitem (E : Externals) (now : Int) (i : Int)
  | count (E : Externals) (now : Int) (v : PyVal)
  | remove (E : Externals) (now : Int) (v : PyVal)
  | compare (E : Externals) (now : Int) (op : CmpOp) (that : List PyVal)
  | rotate (E : Externals) (now : Int) (steps : Int)
  | reverse (E : Externals) (now : Int)
  | setMaxlen (E : Externals) (now : Int) (k : Nat)

namespace Deque

/-- one call on the Deque model: new state and result -/
def step (d : Deque) : DOp → Deque × Out
  | .append E now v => d.append E now v false
  | .appendleft E now v => d.append E now v true
  | .pop E now => d.pop E now false
  | .popleft E now => d.pop E now true
  | .peek E now => d.peek E now false
  | .peekleft E now => d.peek E now true
  | .len => d.len
  | .clear => d.clear
  | .getitem E now i => d.getitem E now i
  | .iter E now rev => d.iterVals E now rev
  | .extend E now vs => d.extend E now vs false
  | .extendleft E now vs => d.extend E now vs true
  | .setitem E now i v => d.setitem E now i v
  | .delitem E now i => d.delitem E now i
  | .count E now v => d.countOf E now v
  | .remove E now v => d.remove E now v
  | .compare E now op that => d.compare E now op that
  | .rotate E now steps => d.rotate E now steps
  | .reverse E now => d.reverse E now
  | .setMaxlen E now k => d.setMaxlen E now k

/-- the Deque after a finite history -/
def run (d : Deque) (ops : List DOp) : Deque := ops.foldl (fun d op => (d.step op).1) d

/-- the results of a history -/
def outs (d : Deque) : List DOp → List Out
  | [] => []
  | op :: ops => (d.step op).2 :: outs (d.step op).1 ops

end Deque

namespace DSpec

/-- one call on the bounded list (the clock value plays no role: items never expire) -/
def step (m : DList) (cfg : Cfg) : DOp → DList × Out
  | .append E _ v => append m E cfg v false
  | .appendleft E _ v => append m E cfg v true
  | .pop E _ => pop m E cfg false
  | .popleft E _ => pop m E cfg true
  | .peek E _ => peek m E cfg false
  | .peekleft E _ => peek m E cfg true
  | .len => len m
  | .clear => clear m
  | .getitem E _ i => getitem m E cfg i
  | .iter E _ rev => iter m E cfg rev
  | .extend E _ vs => extend m E cfg vs false
  | .extendleft E _ vs => extend m E cfg vs true
  | .setitem E _ i v => setitem m E cfg i v
  | .delitem _ _ i => delitem m i
  | .count E _ v => count m E cfg v
  | .remove E _ v => remove m E cfg v
  | .compare E _ op that => compare m E cfg op that
  | .rotate _ _ steps => rotate m steps
  | .reverse _ _ => reverse m
  | .setMaxlen _ _ k => setMaxlen m k

/-- the bounded list after a history -/
def run (m : DList) (cfg : Cfg) (ops : List DOp) : DList := ops.foldl (fun m op => (step m cfg op).1) m

/-- the results of a history -/
def outs (m : DList) (cfg : Cfg) : List DOp → List Out
  | [] => []
  | op :: ops => (step m cfg op).2 :: outs (step m cfg op).1 cfg ops

end DSpec

/-- the calls of the first refinement theorem (one queue key at most per call) -/
def DOp.basic : DOp → Bool
  | .append .. | .appendleft .. | .pop .. | .popleft .. | .peek .. | .peekleft .. | .len | .clear
  | .getitem .. | .iter .. => true
  | _ => false

/-- how many units of the key budget a call may use on a deque of `len` items: the number of
`append` / `appendleft` steps it performs (every one of them hands out a new queue key); one unit
for every call of the first refinement theorem, as there -/
def DOp.cost (len : Nat) : DOp → Nat
  | .extend _ _ vs | .extendleft _ _ vs => vs.length
  | .rotate _ _ steps =>
    if len = 0 then 0 else if 0 ≤ steps then (steps % (len : Int)).toNat else ((-steps) % (len : Int)).toNat
  | .reverse _ _ => len
  | _ => 1

namespace DSpec

/-- the budget a history uses, from the bounded list `m` on -/
def costs (m : DList) (cfg : Cfg) : List DOp → Nat
  | [] => 0
  | op :: ops => op.cost m.items.length + costs (step m cfg op).1 cfg ops

end DSpec

/-- the calls that look an item up again by its key (`deque[i]`, iteration, assignment and
deletion by index, `count`, `remove`, the comparisons, `reverse`) -/
def DOp.byKey : DOp → Bool
  | .getitem .. | .iter .. | .setitem .. | .delitem .. | .count .. | .remove .. | .compare ..
  | .reverse .. => true
  | _ => false

/-- the calls that move items by reading their value and storing it again (`rotate`, `reverse`)
ask that every item of the list `m` they are applied to is stored again as it was
(`DSpec.restores`, with the codec observations of that call) -/
def DOp.restoreOk (m : DSpec.DList) (cfg : Cfg) : DOp → Bool
  | .rotate E _ _ | .reverse E _ => m.items.all (DSpec.restores E cfg)
  | _ => true

/-- the codec observations of a call (`len` and `clear` have none) -/
def DOp.codec : DOp → Option Externals
  | .append E .. | .appendleft E .. | .pop E .. | .popleft E .. | .peek E .. | .peekleft E ..
  | .getitem E .. | .iter E .. | .extend E .. | .extendleft E .. | .setitem E .. | .delitem E ..
  | .count E .. | .remove E .. | .compare E .. | .rotate E .. | .reverse E .. | .setMaxlen E .. => some E
  | .len | .clear => none

namespace DSpec

/-- `DOp.restoreOk` for every call of a history, from the bounded list `m` on -/
def restorable (m : DList) (cfg : Cfg) : List DOp → Bool
  | [] => true
  | op :: ops => op.restoreOk m cfg && restorable (step m cfg op).1 cfg ops

end DSpec

end DC
