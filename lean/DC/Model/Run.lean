/-
Finite call histories of one client: `Op` is one public call with all its
arguments (including the codec observations, the clock value and the
database-size observations of that call), `run` executes a history.
-/
import DC.Model.Cache

namespace DC.Cache

inductive Op where
  | set (E : Externals) (now : Int) (k v : PyVal) (ttl : Option Int) (read : Bool) (tag : SqlVal)
  | add (E : Externals) (now : Int) (k v : PyVal) (ttl : Option Int) (read : Bool) (tag : SqlVal)
  | touch (E : Externals) (now : Int) (k : PyVal) (ttl : Option Int)
  | incr (E : Externals) (now : Int) (k : PyVal) (delta : Int) (dflt : Option Int)
  | get (E : Externals) (now : Int) (k : PyVal) (read et tg : Bool)
  | contains (E : Externals) (now : Int) (k : PyVal)
  | pop (E : Externals) (now : Int) (k : PyVal) (et tg : Bool)
  | delitem (E : Externals) (now : Int) (k : PyVal)
  | delete (E : Externals) (now : Int) (k : PyVal)
  | push (E : Externals) (now : Int) (v : PyVal) (pfx : Option Str) (back : Bool) (ttl : Option Int)
      (read : Bool) (tag : SqlVal)
  | pull (E : Externals) (now : Int) (pfx : Option Str) (front et tg : Bool)
  | peek (E : Externals) (now : Int) (pfx : Option Str) (front et tg : Bool)
  | peekitem (E : Externals) (now : Int) (last et tg : Bool)
  | clear
  | evict (tag : SqlVal)
  | expire (now : Int)
  | cull (now : Int)
  | iter (E : Externals) (asc : Bool)
  | iterkeys (E : Externals) (rev : Bool)
  | len
  | stats (enable reset : Bool)
  | tbegin
  | tend
  | traise (n : Nat)
  | observe (env : List Nat)     -- the database-size observations of the next call

/-- one call: new state and result -/
def step (s : Cache) : Op → Cache × Out
  | .set E now k v ttl read tag => s.set E now k v ttl read tag
  | .add E now k v ttl read tag => s.add E now k v ttl read tag
  | .touch E now k ttl => s.touch E now k ttl
  | .incr E now k delta dflt => s.incr E now k delta dflt
  | .get E now k read et tg => s.get E now k read et tg
  | .contains E now k => s.contains E now k
  | .pop E now k et tg => s.pop E now k et tg
  | .delitem E now k => s.delitem E now k
  | .delete E now k => s.delete E now k
  | .push E now v pfx back ttl read tag => s.push E now v pfx back ttl read tag
  | .pull E now pfx front et tg => s.pull E now pfx front et tg
  | .peek E now pfx front et tg => s.peek E now pfx front et tg
  | .peekitem E now last et tg => s.peekitem E now last et tg
  | .clear => s.clear
  | .evict tag => s.evict tag
  | .expire now => s.expire now
  | .cull now => s.cull now
  | .iter E asc => s.iter E asc
  | .iterkeys E rev => s.iterkeys E rev
  | .len => s.len
  | .stats enable reset => s.stats enable reset
  | .tbegin => (s.tbegin, .none)
  | .tend => (s.tend, .none)
  | .traise n => (s.traise n, .none)
  | .observe env => ({ s with env := env, envMiss := false }, .none)

/-- the state after a finite history -/
def run (s : Cache) (ops : List Op) : Cache := ops.foldl (fun s op => (s.step op).1) s

end DC.Cache
