/-
The reference of C10: "a family of double-ended queues, one per prefix, next to a
dictionary".  No rows, rowids, key ranges, transactions or value files — a queue
is the list of its items, front first; an item is the number its key was made
from and what was stored (`Spec.Entry`: stored representation, expiry time, tag).
`DC/Properties/C10_Refine.lean` proves that the Cache model refines it for every
history of push / pull / peek on any prefixes and sides, mixed with the
key-addressed calls of `DC/Model/Spec.lean` on keys that are not queue keys.

Reading guide.
 * `Queues` is a finite map prefix ↦ list of items (`get` / `put`).
 * `push` gives the new item the number after the last one (back) or before the first one
   (front) of that queue, `cfg.qorigin` (500000000000000) when the queue is empty, and returns
   the key made from it (`queueKey`: the number itself for `prefix=None`, the text
   `"<prefix>-<15 digits>"` otherwise).
 * `pull` discards the expired items it meets at that end and removes and returns the first
   one that is not expired: `((key, value)[, expire_time][, tag])`, the default when nothing is
   left.  `peek` is `pull` without removing the item it returns — it DOES discard the expired
   items it meets (core.py:1690-1697).
 * The key-addressed calls act on the dictionary; `clear`, `evict`, `expire`, `cull` remove
   items from the queues as they remove them from the dictionary.
 * An item whose expiry time has passed stays in its queue until a `pull` / `peek` meets it or
   `expire` / `cull` drops it.
-/
import DC.Model.Spec

namespace DC.QSpec
open DC.Cache

/-- one queued item: the number its key was made from, and what was stored -/
structure Item where
  num : Int
  ent : Spec.Entry
  deriving DecidableEq, Repr, Inhabited

/-- prefix ↦ items, front first (at most one binding per prefix; no binding = empty queue) -/
abbrev Queues := List (Option Str × List Item)

def Queues.get (qs : Queues) (p : Option Str) : List Item :=
  match qs.find? (fun x => x.1 == p) with
  | some x => x.2
  | none => []

def Queues.put (qs : Queues) (p : Option Str) (l : List Item) : Queues :=
  (p, l) :: qs.filter (fun x => !(x.1 == p))

/-- keep the items whose entry satisfies `keep`, in every queue -/
def Queues.keep (qs : Queues) (keep : Spec.Entry → Bool) : Queues :=
  qs.map (fun x => (x.1, x.2.filter (fun it => keep it.ent)))

structure State where
  queues : Queues := []
  dict : Spec.Dict := []
  deriving Repr, Inhabited

/-! ### the key range of the queues: what an "ordinary" key must stay out of -/

/-- `k` lies in the key range of the queue of prefix `p`: strictly between `0` and
`999999999999999` (any number, also a float) for `prefix=None`; for a text prefix a text of
`len(prefix) + 16` code points strictly between `"<prefix>-000000000000000"` and
`"<prefix>-999999999999999"` -/
def inQueue (p : Option Str) (k : SqlVal) : Bool :=
  (queueRange p).1.lt k && k.lt (queueRange p).2 && sameLength p k

/-- the key (database cell, raw flag) lies in the key range of some queue: for a text the only
candidate prefix is the text without its last 16 code points -/
def isQueueKey (k : Spec.Key) : Bool :=
  k.2 && match k.1 with
    | .text cs => decide (16 ≤ cs.length) && inQueue (some (cs.take (cs.length - 16))) k.1
    | c => inQueue none c

/-! ### push / pull / peek -/

/-- the element at the end a call addresses (front or back) -/
def endOf {α} (front : Bool) (l : List α) : Option α := if front then l.head? else l.getLast?

/-- the list without that element -/
def dropEnd {α} (front : Bool) (l : List α) : List α := if front then l.tail else l.dropLast

/-- the list without the `dead` elements at that end -/
def trimBy {α} (dead : α → Bool) (front : Bool) (l : List α) : List α :=
  if front then l.dropWhile dead else (l.reverse.dropWhile dead).reverse

/-- the queue without the expired items at that end -/
def trim (now : Int) (front : Bool) (l : List Item) : List Item :=
  trimBy (fun it => it.ent.expired now) front l

/-- the number `push` gives the new item -/
def nextNum (cfg : Cfg) (back : Bool) (l : List Item) : Int :=
  match endOf (!back) l with
  | none => cfg.qorigin
  | some it => if back then it.num + 1 else it.num - 1

/-- `push(value, prefix, side, expire, read, tag)`: store the value at that end of the queue
and return its key.  A value that cannot be written, or a tag, value cell or key the database
cannot bind (a lone surrogate in the prefix), raises UnicodeEncodeError and changes nothing. -/
def push (q : State) (E : Externals) (cfg : Cfg) (now : Int) (v : PyVal) (p : Option Str)
    (back : Bool) (ttl : Option Int) (read : Bool) (tag : SqlVal) : State × Out :=
  match place E cfg.disk cfg.minFileSize v read with
  | .error _ => (q, .exc "UnicodeEncodeError")
  | .ok pl =>
    let e := Spec.entryOf pl (ttl.map (now + ·)) tag
    let l := q.queues.get p
    let num := nextNum cfg back l
    if bindable e.tag && bindable e.val && bindable (queueKey p num) then
      ({ q with queues := q.queues.put p (if back then l ++ [⟨num, e⟩] else ⟨num, e⟩ :: l) },
       .val (column (queueKey p num)))
    else (q, .exc "UnicodeEncodeError")

/-- what `pull` / `peek` return for an item: `(key, value)` with the flags -/
def result (E : Externals) (cfg : Cfg) (p : Option Str) (et tg : Bool) (it : Item) : Out :=
  withFlags (.tup [.val (column (queueKey p it.num)), it.ent.out E cfg false false false]) et tg
    it.ent.expT it.ent.tag

/-- `pull(prefix, side, expire_time, tag)` -/
def pull (q : State) (E : Externals) (cfg : Cfg) (now : Int) (p : Option Str) (front et tg : Bool) :
    State × Out :=
  let l := trim now front (q.queues.get p)
  match endOf front l with
  | none => ({ q with queues := q.queues.put p l }, defaultFlags et tg)
  | some it => ({ q with queues := q.queues.put p (dropEnd front l) }, result E cfg p et tg it)

/-- `peek(prefix, side, expire_time, tag)` -/
def peek (q : State) (E : Externals) (cfg : Cfg) (now : Int) (p : Option Str) (front et tg : Bool) :
    State × Out :=
  let l := trim now front (q.queues.get p)
  match endOf front l with
  | none => ({ q with queues := q.queues.put p l }, defaultFlags et tg)
  | some it => ({ q with queues := q.queues.put p l }, result E cfg p et tg it)

/-! ### histories -/

/-- one call.  The key-addressed calls are those of the reference dictionary; the four bulk
removals also remove from the queues (their integer results are not specified, as in `Spec`). -/
def step (q : State) (cfg : Cfg) : Cache.Op → State × Out
  | .push E now v p back ttl read tag => push q E cfg now v p back ttl read tag
  | .pull E now p front et tg => pull q E cfg now p front et tg
  | .peek E now p front et tg => peek q E cfg now p front et tg
  | .clear => ({}, .none)
  | .evict tag =>
    ({ queues := q.queues.keep (fun e => !e.tag.eqv tag), dict := (Spec.evict q.dict tag).1 }, .none)
  | .expire now =>
    ({ queues := q.queues.keep (fun e => !e.expired now), dict := (Spec.expire q.dict now).1 }, .none)
  | .cull now =>
    ({ queues := q.queues.keep (fun e => !e.expired now), dict := (Spec.cull q.dict now).1 }, .none)
  | op => ({ q with dict := (Spec.step q.dict cfg op).1 }, (Spec.step q.dict cfg op).2)

/-- the calls the specification covers: push / pull / peek and the calls of `Spec.Keyed` -/
def Covered : Cache.Op → Bool
  | .push .. | .pull .. | .peek .. => true
  | op => Spec.Keyed op

/-- the key a key-addressed call addresses is not a queue key ("ordinary keys outside the queue
key range"); true of the other calls -/
def Ordinary (cfg : Cfg) : Cache.Op → Bool
  | .set E _ k .. | .add E _ k .. | .touch E _ k .. | .incr E _ k .. | .get E _ k ..
  | .contains E _ k | .pop E _ k .. | .delitem E _ k | .delete E _ k => !isQueueKey (Spec.keyOf E cfg k)
  | _ => true

/-- the state after a history -/
def run (q : State) (cfg : Cfg) (ops : List Cache.Op) : State := ops.foldl (fun q op => (step q cfg op).1) q

/-- the results of a history -/
def outs (q : State) (cfg : Cfg) : List Cache.Op → List Out
  | [] => []
  | op :: ops => (step q cfg op).2 :: outs (step q cfg op).1 cfg ops

end DC.QSpec
