/-
`args_to_key` (core.py:387-414) and the memoizing wrapper (core.py:1864-1888,
djangocache.py:420-456).  Key-tuple elements are tokens: the `None` separator,
a value (argument values and keyword names live in the same space — a string
argument can equal a keyword name), or a type object.
-/
import DC.Model.Value

namespace DC.Memo

inductive Tok where
  | none
  | val (v : Nat)
  | ty (t : Nat)
  deriving DecidableEq, Repr, Inhabited

/-- an argument: its value token and its type -/
structure Arg where
  tok : Tok
  ty : Nat
  deriving DecidableEq, Repr, Inhabited

/-- keyword arguments: (name, argument); a dict, so names are distinct -/
abbrev Kwargs := List (Nat × Arg)

def enumFrom {α} : Nat → List α → List (Nat × α)
  | _, [] => []
  | i, x :: xs => (i, x) :: enumFrom (i + 1) xs

/-- positional arguments whose index is not ignored -/
def keepArgs (args : List Arg) (ignPos : List Nat) : List Arg :=
  ((enumFrom 0 args).filter (fun p => !ignPos.contains p.1)).map (·.2)

/-- keyword arguments whose name is not ignored, sorted by name -/
def keepKw (kw : Kwargs) (ignKw : List Nat) : Kwargs :=
  isort (fun a b => a.1 < b.1) (kw.filter (fun p => !ignKw.contains p.1))

/-- `args_to_key(base, args, kwargs, typed, ignore)` -/
def argsToKey (base : List Tok) (args : List Arg) (kw : Kwargs) (typed : Bool)
    (ignPos ignKw : List Nat) : List Tok :=
  let a := keepArgs args ignPos
  let k := keepKw kw ignKw
  base ++ a.map (·.tok) ++ [Tok.none] ++ k.flatMap (fun p => [Tok.val p.1, p.2.tok]) ++
    (if typed then a.map (fun x => Tok.ty x.ty) ++ k.map (fun p => Tok.ty p.2.ty) else [])

/-! ### the wrapper over an abstract dictionary with expiry -/

/-- a cache as the wrapper sees it: key ↦ (result, expire time) -/
abbrev Store (R : Type) := List (List Tok × R × Option Int)

def Store.get {R} (c : Store R) (k : List Tok) (now : Int) : Option R :=
  match c.find? (fun e => e.1 == k) with
  | some (_, r, none) => some r
  | some (_, r, some t) => if t > now then some r else none
  | none => none

def Store.set {R} (c : Store R) (k : List Tok) (r : R) (e : Option Int) : Store R :=
  (k, r, e) :: c.filter (fun x => x.1 != k)

/-- one call of the wrapper: result, new cache, and whether the function ran.
`expire = some 0` (or negative) stores nothing. -/
def call {R} (f : List Arg → Kwargs → R) (base : List Tok) (typed : Bool) (ignPos ignKw : List Nat)
    (expire : Option Int) (now : Int) (c : Store R) (args : List Arg) (kw : Kwargs) : R × Store R × Bool :=
  let key := argsToKey base args kw typed ignPos ignKw
  match c.get key now with
  | some r => (r, c, false)
  | none =>
    let r := f args kw
    match expire with
    | none => (r, c.set key r none, true)
    | some e => if e > 0 then (r, c.set key r (some (now + e)), true) else (r, c, true)

end DC.Memo
