/-
L0 — `Disk` / `JSONDisk` (core.py:103-372): key and value codecs.

Python objects are `PyVal`.  Everything that is not a native SQLite type goes
through pickle (or json+zlib); those codecs are *parameters* (`Externals`)
whose laws (`Lawful`) are hypotheses of the theorems, shown satisfiable by
`Externals.toy`, and validated against CPython by the K6 check.  The driver
instantiates them with the bytes observed in the real run.
-/
import DC.Model.Value

namespace DC

inductive PyVal where
  | none
  | int (i : Int)
  | float (bits : Nat)
  | str (s : Str)
  | bytes (b : Bytes)
  | obj (o : Bytes)          -- any other object, identified by an opaque token
  deriving DecidableEq, Repr, Inhabited

structure Externals where
  /-- `pickletools.optimize(pickle.dumps(key, protocol))` -/
  dumpsK : PyVal → Bytes
  /-- `pickle.dumps(value, protocol)` -/
  dumpsV : PyVal → Bytes
  /-- `pickle.load` -/
  loads : Bytes → PyVal
  /-- `zlib.compress(json.dumps(x).encode('utf-8'), level)` -/
  jsonz : PyVal → Bytes
  /-- `json.loads(zlib.decompress(data).decode('utf-8'))` -/
  unjsonz : Bytes → PyVal

inductive DiskKind where
  | pickle | json
  deriving DecidableEq, Repr, Inhabited

def MODE_RAW : Nat := 1
def MODE_BINARY : Nat := 2
def MODE_TEXT : Nat := 3
def MODE_PICKLE : Nat := 4

def inI64 (i : Int) : Bool := -9223372036854775808 ≤ i && i ≤ 9223372036854775807

/-- `Disk.put` (core.py:139-163): Python key ↦ (database key, raw flag). -/
def Disk.put (E : Externals) : PyVal → SqlVal × Bool
  | .bytes b => (.blob b, true)
  | .str s => (.text s, true)
  | .int i => if inI64 i then (.int i, true) else (.blob (E.dumpsK (.int i)), false)
  | .float f => (.real f, true)
  | k => (.blob (E.dumpsK k), false)

/-- a column read back by `sqlite3` -/
def column : SqlVal → PyVal
  | .null => .none
  | .int i => .int i
  | .real f => .float f
  | .text s => .str s
  | .blob b => .bytes b

/-- `Disk.get` (core.py:165-177). -/
def Disk.get (E : Externals) (k : SqlVal) (raw : Bool) : PyVal :=
  if raw then column k
  else match k with
    | .blob b => E.loads b
    | _ => .none

def JSONDisk.put (E : Externals) (k : PyVal) : SqlVal × Bool :=
  Disk.put E (.bytes (E.jsonz k))

def JSONDisk.get (E : Externals) (k : SqlVal) (raw : Bool) : PyVal :=
  match Disk.get E k raw with
  | .bytes b => E.unjsonz b
  | _ => .none

def put (E : Externals) (d : DiskKind) (k : PyVal) : SqlVal × Bool :=
  match d with
  | .pickle => Disk.put E k
  | .json => JSONDisk.put E k

def get (E : Externals) (d : DiskKind) (k : SqlVal) (raw : Bool) : PyVal :=
  match d with
  | .pickle => Disk.get E k raw
  | .json => JSONDisk.get E k raw

/-- `Disk.hash` (core.py:118-137): portable shard hash of a key. -/
def hashDb : SqlVal → Nat
  | .blob b => adler32 b
  | .text s => adler32 ((utf8enc s).getD [])
  | .int i => (i % 4294967295).toNat
  | .real f => adler32 (be64 f)
  | .null => 0

def diskHash (E : Externals) (d : DiskKind) (k : PyVal) : Nat := hashDb (put E d k).1

/-- what a value file holds.  Text files are kept as the code points that were
written: "a UTF-8 text file written from `s` reads back as `s`" is a
modelling assumption about CPython's codec (validated by K1/K6), so the model
needs no decoder; `Content.bytes` gives the on-disk bytes for sizes/digests. -/
inductive Content where
  | bin (b : Bytes)
  | text (s : Str)
  deriving DecidableEq, Repr, Inhabited

def Content.bytes : Content → Bytes
  | .bin b => b
  | .text s => (utf8enc s).getD []

def Content.size (c : Content) : Nat := c.bytes.length

/-- Where `Disk.store` puts a value. -/
inductive Placement where
  | inline (mode : Nat) (v : SqlVal)
  | file (mode : Nat) (c : Content)
  deriving DecidableEq, Repr

inductive StoreErr where
  | unicode      -- text file: str with a lone surrogate
  deriving DecidableEq, Repr

/-- bind a float cell: `sqlite3` binds NaN as NULL. -/
def bindFloat (f : Nat) : SqlVal := if floatIsNaN f then .null else .real f

/-- `Disk.store` (core.py:179-228), the decision part.  `read` means the value
is a binary stream whose content is given as `.bytes`. -/
def Disk.place (E : Externals) (mfs : Nat) (v : PyVal) (read : Bool) : Except StoreErr Placement :=
  if read then
    match v with
    | .bytes b => .ok (.file MODE_BINARY (.bin b))
    | _ => .ok (.file MODE_BINARY (.bin []))
  else match v with
  | .str s =>
    if s.length < mfs then .ok (.inline MODE_RAW (.text s))
    else if (utf8enc s).isSome then .ok (.file MODE_TEXT (.text s)) else .error .unicode
  | .int i =>
    if inI64 i then .ok (.inline MODE_RAW (.int i))
    else
      let pk := E.dumpsV v
      if pk.length < mfs then .ok (.inline MODE_PICKLE (.blob pk)) else .ok (.file MODE_PICKLE (.bin pk))
  | .float f =>
    if floatIsNaN f then
      -- NaN is pickled (fix D2): sqlite3 would bind it as NULL.
      let pk := E.dumpsV v
      if pk.length < mfs then .ok (.inline MODE_PICKLE (.blob pk)) else .ok (.file MODE_PICKLE (.bin pk))
    else .ok (.inline MODE_RAW (.real f))
  | .bytes b =>
    if b.length < mfs then .ok (.inline MODE_RAW (.blob b)) else .ok (.file MODE_BINARY (.bin b))
  | v =>
    let pk := E.dumpsV v
    if pk.length < mfs then .ok (.inline MODE_PICKLE (.blob pk)) else .ok (.file MODE_PICKLE (.bin pk))

def place (E : Externals) (d : DiskKind) (mfs : Nat) (v : PyVal) (read : Bool) :
    Except StoreErr Placement :=
  match d with
  | .pickle => Disk.place E mfs v read
  | .json => if read then Disk.place E mfs v read else Disk.place E mfs (.bytes (E.jsonz v)) false

/-- What a fetch returns: a value, an open handle (read=True), or IOError. -/
inductive Fetched where
  | val (v : PyVal)
  | handle (b : Bytes)
  | ioerror
  deriving DecidableEq, Repr

/-- `Disk.fetch` (core.py:254-284) given the file content (if the file exists). -/
def Disk.fetch (E : Externals) (mode : Nat) (file : Option Content) (hasFile : Bool)
    (v : SqlVal) (read : Bool) : Fetched :=
  if mode == MODE_RAW then .val (column v)
  else if mode == MODE_BINARY then
    match file with
    | some c => if read then .handle c.bytes else .val (.bytes c.bytes)
    | none => .ioerror
  else if mode == MODE_TEXT then
    match file with
    | some (.text s) => .val (.str s)
    | some (.bin _) => .ioerror
    | none => .ioerror
  else if mode == MODE_PICKLE then
    if hasFile then
      match file with
      | some c => .val (E.loads c.bytes)
      | none => .ioerror
    else match v with
      | .blob b => .val (E.loads b)
      | _ => .ioerror
  else .val .none

def fetch (E : Externals) (d : DiskKind) (mode : Nat) (file : Option Content) (hasFile : Bool)
    (v : SqlVal) (read : Bool) : Fetched :=
  match d with
  | .pickle => Disk.fetch E mode file hasFile v read
  | .json =>
    match Disk.fetch E mode file hasFile v read with
    | .val (.bytes b) => if read then .val (.bytes b) else .val (E.unjsonz b)
    | r => r

end DC
