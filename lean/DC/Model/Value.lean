/-
L0 — values as SQLite sees them.

No imports: this file (and everything under DC/Model) is core Lean only, so
the line-protocol driver can run with `lake env lean --run`.

* `Bytes` / `Str` are `List Nat` (bytes, Unicode code points incl. surrogates).
* `SqlVal` is a cell of the Cache table.  `real` carries the IEEE-754 binary64
  bit pattern, never a `Float`.
* Numeric comparison is exact: every int64 and every finite double is an
  integer multiple of 2^-1074, so `scaled v = v * 2^1074` is an `Int` and
  comparing those integers is comparing the mathematical values.  This is
  what SQLite (sqlite3IntFloatCompare) and Python (`1 == 1.0`) both do.
-/
namespace DC

abbrev Bytes := List Nat
abbrev Str := List Nat

/-- Extended number: what a numeric SQLite cell denotes, scaled by 2^1074. -/
inductive Num where
  | ninf
  | fin (z : Int)
  | pinf
  deriving DecidableEq, Repr

def Num.rank : Num → Int
  | .ninf => -1
  | .fin _ => 0
  | .pinf => 1

def Num.lt : Num → Num → Bool
  | .fin a, .fin b => a < b
  | a, b => a.rank < b.rank

def floatSign (bits : Nat) : Bool := bits / 2^63 % 2 == 1
def floatExp (bits : Nat) : Nat := bits / 2^52 % 2048
def floatFrac (bits : Nat) : Nat := bits % 2^52

def floatIsNaN (bits : Nat) : Bool := floatExp bits == 2047 && floatFrac bits != 0
def floatIsInf (bits : Nat) : Bool := floatExp bits == 2047 && floatFrac bits == 0

/-- magnitude of a finite double times 2^1074 -/
def floatMag (bits : Nat) : Nat :=
  if floatExp bits == 0 then floatFrac bits
  else (2^52 + floatFrac bits) * 2^(floatExp bits - 1)

/-- Denotation of a non-NaN double. (NaN never reaches a cell: sqlite3 binds it as NULL.) -/
def floatNum (bits : Nat) : Num :=
  if floatExp bits == 2047 then (if floatSign bits then .ninf else .pinf)
  else if floatSign bits then .fin (-(floatMag bits : Int)) else .fin (floatMag bits)

def intNum (i : Int) : Num := .fin (i * 2^1074)

inductive SqlVal where
  | null
  | int (i : Int)
  | real (bits : Nat)
  | text (s : Str)
  | blob (b : Bytes)
  deriving DecidableEq, Repr, Inhabited

/-- SQLite storage-class rank: NULL < numeric < TEXT < BLOB. -/
def SqlVal.cls : SqlVal → Nat
  | .null => 0
  | .int _ => 1
  | .real _ => 1
  | .text _ => 2
  | .blob _ => 3

def SqlVal.num : SqlVal → Num
  | .int i => intNum i
  | .real b => floatNum b
  | _ => .fin 0

/-- lexicographic `<` on lists of naturals (memcmp for blobs; for TEXT the
UTF-8 encoding preserves code point order, so this is memcmp of the UTF-8
bytes as well — validated against SQLite by the K6 check). -/
def lexLt : List Nat → List Nat → Bool
  | [], [] => false
  | [], _ :: _ => true
  | _ :: _, [] => false
  | a :: as, b :: bs => if a < b then true else if b < a then false else lexLt as bs

/-- SQL `a < b` for non-NULL operands with no affinity conversion (the key
column is BLOB, so none applies). -/
def SqlVal.lt (a b : SqlVal) : Bool :=
  if a.cls < b.cls then true
  else if b.cls < a.cls then false
  else match a, b with
    | .text x, .text y => lexLt x y
    | .blob x, .blob y => lexLt x y
    | .null, _ => false
    | _, .null => false
    | x, y => x.num.lt y.num

/-- SQL `a = b` (false when either side is NULL). -/
def SqlVal.eqv (a b : SqlVal) : Bool :=
  match a, b with
  | .null, _ => false
  | _, .null => false
  | .text x, .text y => x == y
  | .blob x, .blob y => x == y
  | .text _, _ => false
  | _, .text _ => false
  | .blob _, _ => false
  | _, .blob _ => false
  | x, y => x.num == y.num

/-- (key, raw) ordering used by `ORDER BY key, raw`. -/
def keyRawLt (a : SqlVal × Bool) (b : SqlVal × Bool) : Bool :=
  a.1.lt b.1 || (a.1.eqv b.1 && (!a.2 && b.2))

/-- Stable insertion sort (structural recursion, so the kernel can evaluate
it; `List.mergeSort` is well-founded and blocks `decide`).  `insertBy lt x`
puts `x` before the first element that is not `lt x`, i.e. before its equals;
inserting the head into the sorted tail therefore keeps earlier positions
earlier among equals — the order an index scan (ties by rowid) produces. -/
def insertBy {α} (lt : α → α → Bool) (x : α) : List α → List α
  | [] => [x]
  | y :: ys => if lt y x then y :: insertBy lt x ys else x :: y :: ys

def isort {α} (lt : α → α → Bool) : List α → List α
  | [] => []
  | x :: xs => insertBy lt x (isort lt xs)

/-! ### UTF-8 and Adler-32 (used by text files and by shard routing) -/

def isSurrogate (c : Nat) : Bool := 0xD800 ≤ c && c ≤ 0xDFFF

def utf8Char (c : Nat) : Bytes :=
  if c < 0x80 then [c]
  else if c < 0x800 then [0xC0 + c / 64, 0x80 + c % 64]
  else if c < 0x10000 then [0xE0 + c / 4096, 0x80 + c / 64 % 64, 0x80 + c % 64]
  else [0xF0 + c / 262144, 0x80 + c / 4096 % 64, 0x80 + c / 64 % 64, 0x80 + c % 64]

/-- strict UTF-8 encoder: `none` on a surrogate (CPython raises UnicodeEncodeError). -/
def utf8enc : Str → Option Bytes
  | [] => some []
  | c :: cs =>
    if isSurrogate c || c ≥ 0x110000 then none
    else match utf8enc cs with
      | none => none
      | some r => some (utf8Char c ++ r)

def adlerStep (ab : Nat × Nat) (x : Nat) : Nat × Nat :=
  let a := (ab.1 + x) % 65521
  (a, (ab.2 + a) % 65521)

def adler32 (bs : Bytes) : Nat :=
  let ab := bs.foldl adlerStep (1, 0)
  ab.2 * 65536 + ab.1

/-- big-endian 8 bytes of a 64-bit pattern (struct.pack('!d', x)). -/
def be64 (bits : Nat) : Bytes :=
  [bits / 2^56 % 256, bits / 2^48 % 256, bits / 2^40 % 256, bits / 2^32 % 256,
   bits / 2^24 % 256, bits / 2^16 % 256, bits / 2^8 % 256, bits % 256]

end DC
