/-
L6 — recipes.py: Lock, RLock, BoundedSemaphore, barrier, Averager, throttle.

Every acquire attempt / release / add / pop of the recipes is ONE atomic cache
operation or ONE transaction block (C05/C06), so the recipes are modelled as
sequences of atomic events by contenders.
-/
namespace DC.Recipes

/-! ### Lock (recipes.py:68-116): acquire = spin on atomic `add`, release = `delete` -/

structure LockSt where
  held : Bool := false
  deriving DecidableEq, Repr, Inhabited

/-- one `cache.add(key, None)` attempt: succeeds iff the key is absent -/
def LockSt.tryAcquire (s : LockSt) : LockSt × Bool :=
  if s.held then (s, false) else ({ held := true }, true)

/-- `cache.delete(key)` -/
def LockSt.release (_ : LockSt) : LockSt := { held := false }

/-! ### RLock (recipes.py:119-187): value = (owner, count) read-modify-written in a transaction -/

structure RLockSt where
  owner : Option Nat := none
  count : Nat := 0
  deriving DecidableEq, Repr, Inhabited

/-- one attempt of `acquire` by `who`: succeeds iff `who` owns it or the count is 0 -/
def RLockSt.tryAcquire (s : RLockSt) (who : Nat) : RLockSt × Bool :=
  if s.owner = some who || s.count == 0 then ({ owner := some who, count := s.count + 1 }, true)
  else (s, false)

/-- `release` by `who`: refused (AssertionError, nothing changes) unless `who` owns it with count > 0 -/
def RLockSt.release (s : RLockSt) (who : Nat) : RLockSt × Bool :=
  if s.owner = some who && s.count > 0 then ({ s with count := s.count - 1 }, true) else (s, false)

/-! ### BoundedSemaphore (recipes.py:190-251): value = remaining permits -/

structure SemSt where
  limit : Nat
  free : Nat
  deriving DecidableEq, Repr, Inhabited

def SemSt.tryAcquire (s : SemSt) : SemSt × Bool :=
  if s.free > 0 then ({ s with free := s.free - 1 }, true) else (s, false)

/-- refused (AssertionError) when nothing is held -/
def SemSt.release (s : SemSt) : SemSt × Bool :=
  if s.limit > s.free then ({ s with free := s.free + 1 }, true) else (s, false)

/-! ### contenders: each client alternates acquire … release; `depth` = how many times it holds -/

inductive Ev where
  | acquire (who : Nat)     -- one attempt
  | release (who : Nat)
  deriving DecidableEq, Repr

/-- Lock with well-behaved clients (a client releases only what it holds; barrier/`with`) -/
structure LockSys where
  st : LockSt := {}
  holding : List Nat := []       -- clients inside the critical section

def LockSys.step (s : LockSys) : Ev → LockSys × Bool
  | .acquire who =>
    let (st, ok) := s.st.tryAcquire
    (if ok then { st := st, holding := who :: s.holding } else { s with st := st }, ok)
  | .release who =>
    if s.holding.contains who then ({ st := s.st.release, holding := s.holding.erase who }, true)
    else (s, false)       -- a well-behaved client does not release what it does not hold

def LockSys.run (s : LockSys) (evs : List Ev) : LockSys := evs.foldl (fun s e => (s.step e).1) s

structure RLockSys where
  st : RLockSt := {}
  depth : Nat → Nat := fun _ => 0      -- how many times each client holds it

def RLockSys.step (s : RLockSys) : Ev → RLockSys × Bool
  | .acquire who =>
    let (st, ok) := s.st.tryAcquire who
    (if ok then { st := st, depth := fun c => if c = who then s.depth c + 1 else s.depth c } else s, ok)
  | .release who =>
    let (st, ok) := s.st.release who
    (if ok then { st := st, depth := fun c => if c = who then s.depth c - 1 else s.depth c } else s, ok)

def RLockSys.run (s : RLockSys) (evs : List Ev) : RLockSys := evs.foldl (fun s e => (s.step e).1) s

structure SemSys where
  st : SemSt
  holding : List Nat := []

def SemSys.step (s : SemSys) : Ev → SemSys × Bool
  | .acquire who =>
    let (st, ok) := s.st.tryAcquire
    (if ok then { st := st, holding := who :: s.holding } else s, ok)
  | .release who =>
    if s.holding.contains who then
      let (st, ok) := s.st.release
      (if ok then { st := st, holding := s.holding.erase who } else s, ok)
    else (s, false)

def SemSys.run (s : SemSys) (evs : List Ev) : SemSys := evs.foldl (fun s e => (s.step e).1) s

/-! ### Averager (recipes.py:14-65): (total, count) read-modify-written in a transaction -/

structure AvgSt where
  total : Int := 0
  count : Nat := 0
  deriving DecidableEq, Repr, Inhabited

inductive AvgEv where
  | add (v : Int)
  | pop
  deriving DecidableEq, Repr

def AvgSt.step (s : AvgSt) : AvgEv → AvgSt
  | .add v => { total := s.total + v, count := s.count + 1 }
  | .pop => {}

def AvgSt.run (s : AvgSt) (evs : List AvgEv) : AvgSt := evs.foldl AvgSt.step s

/-! ### throttle (recipes.py:254-315): token bucket.

Time is counted in ticks of 1/count seconds, the tally in units of 1/seconds
tokens, so that `tally += (now - last) * rate` is `T += Δticks` and everything
stays an integer: `T = tally * seconds`.  (The harness uses powers of two for
`count` and dyadic instants, for which the float arithmetic of the real code is
exact and coincides with this model.) -/

structure Bucket where
  count : Nat        -- burst size
  seconds : Nat      -- period
  last : Int         -- instant of the last pass (ticks)
  tally : Int        -- scaled tally T at `last`
  deriving DecidableEq, Repr, Inhabited

/-- `throttle(...)` at decoration time: a full bucket -/
def Bucket.init (count seconds : Nat) (now : Int) : Bucket :=
  { count := count, seconds := seconds, last := now, tally := count * seconds }

/-- one attempt at instant `now`: either the call is let through, or the delay to sleep (ticks) -/
def Bucket.attempt (b : Bucket) (now : Int) : Bucket × Option Int :=
  let t := b.tally + (now - b.last)
  if t > (b.count : Int) * b.seconds then ({ b with last := now, tally := ((b.count : Int) - 1) * b.seconds }, none)
  else if t ≥ b.seconds then ({ b with last := now, tally := t - b.seconds }, none)
  else (b, some ((b.seconds : Int) - t))

/-- attempts at the given instants (nondecreasing); the instants at which a call passed -/
def Bucket.passes (b : Bucket) : List Int → List Int
  | [] => []
  | now :: rest =>
    match b.attempt now with
    | (b', none) => now :: Bucket.passes b' rest
    | (b', some _) => Bucket.passes b' rest

end DC.Recipes
