/-
The reference dictionary of C12: "an insertion-ordered dictionary" — what
`diskcache.Index` promises to be.  No rows, rowids, counters, transactions or
value-file names: a list of (key, entry) bindings, OLDEST FIRST, at most one
binding per key.  `DC/Properties/C12_Refine.lean` proves that the Index model
(DC/Model/Layers.lean, and through the correspondence checks the code) refines
it for every history of mapping calls.

Reading guide.  Keys and entries are those of the reference dictionary of the
plain cache (DC/Model/Spec.lean): a key is the database key `Disk.put` produces
(`Spec.keyOf`), an entry the stored representation of a value (`Spec.entryOf`);
`Spec.Entry.out` is what a look-up returns for an entry.  An Index never gives
an item an expiry time or a tag, so there is no clock anywhere in this file.

 * `ODict.set`: assignment to an existing key replaces the value IN PLACE (the
   position — and the stored key — are kept), assignment to a new key appends
   the binding at the end;
 * `ODict.del`: removes the binding of the key, the others keep their order;
 * every call of the Index is one function `ODict → arguments → ODict × Out`,
   returning the same `Out` values as the model of the call (`Index.*`);
 * `OSpec.items` / `OSpec.values`: the (key, value) pairs / the values in
   insertion order; `OSpec.eqTo` / `OSpec.neTo`: `==` / `!=` with another mapping
   given by its pairs — order-sensitive against an ordered mapping, key by key
   against any other; keys and values compared with Python `==` (`pyEq`);
   `OSpec.rehandle`: a new handle (pickle round trip, re-opening) is the same
   dictionary.
-/
import DC.Model.Spec
import DC.Model.Layers

namespace DC

/-- the ordered dictionary: oldest binding first, at most one binding per key -/
abbrev ODict := List (Spec.Key × Spec.Entry)

namespace ODict
open Spec

/-- the entry bound to a key -/
def get (m : ODict) (k : Key) : Option Entry := (m.find? (fun p => sameKey p.1 k)).map (·.2)

/-- is the key bound? -/
def has (m : ODict) (k : Key) : Bool := (m.get k).isSome

/-- assignment: an existing key keeps its position (and its stored key), the value is replaced
in place; a new key is appended at the end -/
def set (m : ODict) (k : Key) (e : Entry) : ODict :=
  if m.has k then m.map (fun p => if sameKey p.1 k then (p.1, e) else p) else m ++ [(k, e)]

/-- removal of the binding of a key; the other bindings keep their order -/
def del (m : ODict) (k : Key) : ODict := m.filter (fun p => !sameKey p.1 k)

/-- the keys in order -/
def keys (m : ODict) : List Key := m.map (·.1)

/-- "at most one binding per key" (and every bound key is equal to itself: no NULL key) -/
def WF (m : ODict) : Prop :=
  m.Pairwise (fun a b => sameKey a.1 b.1 = false) ∧ ∀ p ∈ m, sameKey p.1 p.1 = true

/-- the first (`last = false`) or last binding -/
def edge (m : ODict) (last : Bool) : Option (Key × Entry) := if last then m.getLast? else m.head?

end ODict

namespace OSpec
open Spec Cache

/-- what a look-up of the key returns: the value of its entry, `default` when the key is unbound
(or the value file of the entry cannot be read) -/
def look (m : ODict) (E : Externals) (cfg : Cfg) (K : Key) : Out :=
  match m.get K with
  | some e => e.out E cfg false false false
  | none => .default

/-- `index[key]`: the value, KeyError when there is none -/
def getitem (m : ODict) (E : Externals) (cfg : Cfg) (k : PyVal) : ODict × Out :=
  (m, Index.keyErr (look m E cfg (keyOf E cfg k)))

/-- `index[key] = value`.  A value that cannot be written (text with a lone surrogate) or a key or
value cell the database cannot bind raises UnicodeEncodeError and changes nothing. -/
def setitem (m : ODict) (E : Externals) (cfg : Cfg) (k v : PyVal) : ODict × Out :=
  match place E cfg.disk cfg.minFileSize v false with
  | .error _ => (m, .exc "UnicodeEncodeError")
  | .ok p =>
    let e := entryOf p none .null
    if bindable (keyOf E cfg k).1 && bindable e.val then (m.set (keyOf E cfg k) e, .none)
    else (m, .exc "UnicodeEncodeError")

/-- `del index[key]`: KeyError when the key is unbound -/
def delitem (m : ODict) (E : Externals) (cfg : Cfg) (k : PyVal) : ODict × Out :=
  if m.has (keyOf E cfg k) then (m.del (keyOf E cfg k), .none) else (m, .exc "KeyError")

/-- `add`: bind the value unless the key is bound (`False` then).  A value that cannot be written,
or a key or value cell the database cannot bind, raises UnicodeEncodeError and changes nothing. -/
def add (m : ODict) (E : Externals) (cfg : Cfg) (k v : PyVal) : ODict × Out :=
  match place E cfg.disk cfg.minFileSize v false with
  | .error _ => (m, .exc "UnicodeEncodeError")
  | .ok p =>
    let e := entryOf p none .null
    if !bindable (keyOf E cfg k).1 then (m, .exc "UnicodeEncodeError")
    else if m.has (keyOf E cfg k) then (m, .bool false)
    else if bindable e.val then (m.set (keyOf E cfg k) e, .bool true)
    else (m, .exc "UnicodeEncodeError")

/-- `index.setdefault(key, default)`: the value of the key if there is one; otherwise — as one
transaction — `add` the default and look again.  An `add` that raises propagates and the
dictionary is unchanged; with still nothing to return the transaction is rolled back and KeyError
raised -/
def setdefault (m : ODict) (E : Externals) (cfg : Cfg) (k v : PyVal) : ODict × Out :=
  match look m E cfg (keyOf E cfg k) with
  | .default =>
    match add m E cfg k v with
    | (_, .exc e) => (m, .exc e)
    | (m', _) =>
      match look m' E cfg (keyOf E cfg k) with
      | .default => (m, .exc "KeyError")
      | o => (m', o)
  | o => (m, o)

/-- `index.pop(key[, default])`: remove the binding and return its value; for an unbound key the
default, or KeyError without one -/
def pop (m : ODict) (E : Externals) (cfg : Cfg) (k : PyVal) (hasDefault : Bool) : ODict × Out :=
  (m.del (keyOf E cfg k),
    if hasDefault then look m E cfg (keyOf E cfg k) else Index.keyErr (look m E cfg (keyOf E cfg k)))

/-- `index.peekitem(last)`: the last (first) item as a (key, value) pair; KeyError when empty -/
def peekitem (m : ODict) (E : Externals) (cfg : Cfg) (last : Bool) : ODict × Out :=
  match m.edge last with
  | none => (m, .exc "KeyError")
  | some (K, e) =>
    match e.out E cfg false false false with
    | .default => (m, .exc "KeyError")
    | o => (m, .tup [keyOut E cfg.disk K.1 K.2, o])

/-- `index.popitem(last)`: remove and return the last (first) item; KeyError when empty (the
dictionary is unchanged then) -/
def popitem (m : ODict) (E : Externals) (cfg : Cfg) (last : Bool) : ODict × Out :=
  match m.edge last with
  | none => (m, .exc "KeyError")
  | some (K, e) =>
    match e.out E cfg false false false with
    | .default => (m, .exc "KeyError")
    | o => (m.del K, .tup [keyOut E cfg.disk K.1 K.2, o])

/-- `len(index)` -/
def len (m : ODict) : ODict × Out := (m, .int m.length)

/-- `list(index)` / `list(reversed(index))`: the keys in insertion order / reversed -/
def iter (m : ODict) (E : Externals) (cfg : Cfg) (asc : Bool) : ODict × Out :=
  (m, .list ((if asc then m else m.reverse).map (fun p => keyOut E cfg.disk p.1.1 p.1.2)))

/-- `index.clear()` -/
def clear (_ : ODict) : ODict × Out := ([], .none)

/-- `index.update(pairs)`: one assignment per pair, in order, stopping at the first one that raises:
the pairs before it stay assigned, the exception propagates -/
def update (m : ODict) (E : Externals) (cfg : Cfg) (kvs : List (PyVal × PyVal)) : ODict × Out :=
  match kvs with
  | [] => (m, .none)
  | kv :: kvs =>
    match setitem m E cfg kv.1 kv.2 with
    | (m1, .exc e) => (m1, .exc e)
    | (m1, _) => update m1 E cfg kvs

/-! #### the views and equality

What the value, item and equality calls show is Python-level: the key of a binding as the Python
object it decodes to (`pyKey`), its value as the Python object a look-up returns (`valueOf`).
At an entry whose value cannot be read (`Entry.out` gives `default`: only a malformed entry, never one
the calls of this file create — `OSpec.step_readable` in C12_Views.lean) the look-up of the view
raises KeyError, which ends the call (persistent.py: `ItemsView.__iter__` evaluates `index[key]`). -/

/-- the Python key of a stored key -/
def pyKey (E : Externals) (cfg : Cfg) (K : Key) : PyVal := DC.get E cfg.disk K.1 K.2

/-- the Python value of an entry, `none` when it cannot be read -/
def valueOf (E : Externals) (cfg : Cfg) (e : Entry) : Option PyVal :=
  match e.out E cfg false false false with
  | .val v => some v
  | _ => none

/-- the walk of the views (`for key in d: yield (key, d[key])`): the (key, value) pairs in insertion
order up to the first entry whose value cannot be read, and whether the walk ended at such an entry
(the look-up `d[key]` raises KeyError there) -/
def walk (E : Externals) (cfg : Cfg) : ODict → List (PyVal × PyVal) × Bool
  | [] => ([], false)
  | p :: m =>
    match valueOf E cfg p.2 with
    | none => ([], true)
    | some v => ((pyKey E cfg p.1, v) :: (walk E cfg m).1, (walk E cfg m).2)

/-- the (key, value) pairs of the dictionary, in insertion order (up to the first entry whose value
cannot be read: all of them in a readable dictionary, `OSpec.pairs_readable`) -/
def pairs (m : ODict) (E : Externals) (cfg : Cfg) : List (PyVal × PyVal) := (walk E cfg m).1

/-- is there an entry whose value cannot be read? (never after a history on an empty dictionary:
`OSpec.missing_readable`, `OSpec.run_readable`) -/
def missing (m : ODict) (E : Externals) (cfg : Cfg) : Bool := (walk E cfg m).2

/-- `list(index.items())`: the (key, value) pairs in insertion order; KeyError when the walk meets
an entry whose value cannot be read -/
def items (m : ODict) (E : Externals) (cfg : Cfg) : ODict × Out :=
  (m, if missing m E cfg then .exc "KeyError"
      else .list ((pairs m E cfg).map (fun kv => .tup [.val kv.1, .val kv.2])))

/-- `list(index.values())`: the values in insertion order; KeyError likewise -/
def values (m : ODict) (E : Externals) (cfg : Cfg) : ODict × Out :=
  (m, if missing m E cfg then .exc "KeyError" else .list ((pairs m E cfg).map (fun kv => .val kv.2)))

/-- `dictionary == other`, `other` given as its (key, value) pairs in its own order.  Keys and values
are compared with Python `==` (`pyEq`), as `OrderedDict.__eq__` does.
 * `ordered` (the other mapping is an ordered dictionary): the same number of pairs, and the pairs
   are equal one by one, in order;
 * otherwise: the same number of pairs, and every pair of the dictionary has its key in `other`
   with an equal value (the first pair of `other` with an equal key: a mapping has one). -/
def eqB (m : ODict) (E : Externals) (cfg : Cfg) (ordered : Bool) (other : List (PyVal × PyVal)) : Bool :=
  m.length == other.length &&
    if ordered then ((pairs m E cfg).zip other).all (fun p => pyEq p.1.1 p.2.1 && pyEq p.1.2 p.2.2)
    else (pairs m E cfg).all (fun kv =>
      match other.find? (fun p => pyEq kv.1 p.1) with
      | some p => pyEq kv.2 p.2
      | none => false)

/-- the outcome of `==`: the comparison walks the pairs and stops at the first unequal one
(`False`); when it meets an entry whose value cannot be read before any unequal pair, KeyError -/
def eqOut (m : ODict) (E : Externals) (cfg : Cfg) (ordered : Bool) (other : List (PyVal × PyVal)) : Out :=
  if missing m E cfg && eqB m E cfg ordered other then .exc "KeyError" else .bool (eqB m E cfg ordered other)

/-- `index == other` -/
def eqTo (m : ODict) (E : Externals) (cfg : Cfg) (ordered : Bool) (other : List (PyVal × PyVal)) :
    ODict × Out := (m, eqOut m E cfg ordered other)

/-- `index != other`: `not (index == other)` — a KeyError of `==` propagates -/
def neTo (m : ODict) (E : Externals) (cfg : Cfg) (ordered : Bool) (other : List (PyVal × PyVal)) :
    ODict × Out :=
  (m, match eqOut m E cfg ordered other with | .bool b => .bool (!b) | o => o)

/-- a new handle on the same dictionary (pickle round trip, re-opening the directory, `copy` of
the handle): the dictionary is the same, nothing is returned -/
def rehandle (m : ODict) : ODict × Out := (m, .none)

end OSpec

/-! ### histories -/

/-- one call on an Index, with all its arguments (codec observations and clock value included) -/
inductive IOp where
  | getitem (E : Externals) (now : Int) (k : PyVal)
  | setitem (E : Externals) (now : Int) (k v : PyVal)
  | delitem (E : Externals) (now : Int) (k : PyVal)
  | setdefault (E : Externals) (now : Int) (k v : PyVal)
  | pop (E : Externals) (now : Int) (k : PyVal) (hasDefault : Bool)
  | popitem (E : Externals) (now : Int) (last : Bool)
  | peekitem (E : Externals) (now : Int) (last : Bool)
  | len
  | iter (E : Externals) (asc : Bool)
  | clear
  | update (E : Externals) (now : Int) (kvs : List (PyVal × PyVal))
  | items (E : Externals) (now : Int)
  | values (E : Externals) (now : Int)
  | eqTo (E : Externals) (now : Int) (ordered : Bool) (other : List (PyVal × PyVal))
  | neTo (E : Externals) (now : Int) (ordered : Bool) (other : List (PyVal × PyVal))
  | rehandle

namespace Index

/-- one call on the model: new state and result -/
def step (x : Index) : IOp → Index × Out
  | .getitem E now k => x.getitem E now k
  | .setitem E now k v => x.setitem E now k v
  | .delitem E now k => x.delitem E now k
  | .setdefault E now k v => x.setdefault E now k v
  | .pop E now k d => x.pop E now k d
  | .popitem E now last => x.popitem E now last
  | .peekitem E now last => x.peekitem E now last
  | .len => x.len
  | .iter E asc => x.iter E asc
  | .clear => x.clear
  | .update E now kvs => x.update E now kvs
  | .items E now => x.items E now
  | .values E now => x.values E now
  | .eqTo E now ordered other => x.eqTo E now ordered other
  | .neTo E now ordered other => x.neTo E now ordered other
  | .rehandle => x.rehandle

/-- the state after a finite history -/
def run (x : Index) (ops : List IOp) : Index := ops.foldl (fun x op => (x.step op).1) x

/-- the results of a history -/
def outs (x : Index) : List IOp → List Out
  | [] => []
  | op :: ops => (x.step op).2 :: outs (x.step op).1 ops

end Index

namespace OSpec

/-- one call on the ordered dictionary (the clock value of the call plays no role) -/
def step (m : ODict) (cfg : Cfg) : IOp → ODict × Out
  | .getitem E _ k => getitem m E cfg k
  | .setitem E _ k v => setitem m E cfg k v
  | .delitem E _ k => delitem m E cfg k
  | .setdefault E _ k v => setdefault m E cfg k v
  | .pop E _ k d => pop m E cfg k d
  | .popitem E _ last => popitem m E cfg last
  | .peekitem E _ last => peekitem m E cfg last
  | .len => len m
  | .iter E asc => iter m E cfg asc
  | .clear => clear m
  | .update E _ kvs => update m E cfg kvs
  | .items E _ => items m E cfg
  | .values E _ => values m E cfg
  | .eqTo E _ ordered other => eqTo m E cfg ordered other
  | .neTo E _ ordered other => neTo m E cfg ordered other
  | .rehandle => rehandle m

/-- the dictionary after a history -/
def run (m : ODict) (cfg : Cfg) (ops : List IOp) : ODict := ops.foldl (fun m op => (step m cfg op).1) m

/-- the results of a history -/
def outs (m : ODict) (cfg : Cfg) : List IOp → List Out
  | [] => []
  | op :: ops => (step m cfg op).2 :: outs (step m cfg op).1 cfg ops

end OSpec
end DC
