/-
The reference dictionary of C03: "a dictionary whose items carry an expiry time
and a tag".  No rows, rowids, counters, transactions, value-file names or lazy
removal — only keys and entries.  `DC/Properties/C03_Refine.lean` proves that
the Cache model (and through the correspondence checks the code) refines it for
every history of key-addressed calls.

Reading guide: `Dict` is an association list with `get` / `put` / `del`; an
`Entry` is what is stored under a key; every public call of the cache that
addresses a key (or removes items in bulk) is one function
`Dict → arguments → Dict × Out` below, written as the documentation of the
call reads.  An item whose expiry time has passed stays in the dictionary
until a call replaces or removes it, or `expire` drops it — it is just not
*visible* (`Entry.live`).
-/
import DC.Model.Run

namespace DC.Spec
open DC.Cache

/-- what is stored under a key: the stored representation of the value (what `Disk.store`
produced: mode, database cell, content of the value file if there is one), expiry time, tag -/
structure Entry where
  mode : Nat
  val : SqlVal
  content : Option Content
  expT : Option Int
  tag : SqlVal
  deriving DecidableEq, Repr, Inhabited

/-- a database key: (cell, raw flag) as produced by `Disk.put` -/
abbrev Key := SqlVal × Bool

/-- the key equality of the table: SQL `=` on the cell and the same raw flag -/
def sameKey (a b : Key) : Bool := a.1.eqv b.1 && a.2 == b.2

/-- the dictionary: newest binding first, at most one binding per key -/
abbrev Dict := List (Key × Entry)

def Dict.get (m : Dict) (k : Key) : Option Entry := (m.find? (fun p => sameKey p.1 k)).map (·.2)
def Dict.del (m : Dict) (k : Key) : Dict := m.filter (fun p => !sameKey p.1 k)
def Dict.put (m : Dict) (k : Key) (e : Entry) : Dict := (k, e) :: m.del k

/-- "at most one binding per key" (kept by `put`, `del` and by removing bindings) -/
def Dict.WF (m : Dict) : Prop := m.Pairwise (fun a b => sameKey a.1 b.1 = false)

def Entry.live (now : Int) (e : Entry) : Bool := match e.expT with | none => true | some t => t > now
def Entry.expired (now : Int) (e : Entry) : Bool := match e.expT with | none => false | some t => t < now

/-- the entry `set`/`add` store for a value -/
def entryOf (p : Placement) (expT : Option Int) (tag : SqlVal) : Entry :=
  match p with
  | .inline mode sv => { mode := mode, val := sv, content := none, expT := expT, tag := tag }
  | .file mode c => { mode := mode, val := .null, content := some c, expT := expT, tag := tag }

/-- what a look-up returns for an entry (`Disk.fetch`) -/
def Entry.out (e : Entry) (E : Externals) (cfg : Cfg) (read et tg : Bool) : Out :=
  match fetch E cfg.disk e.mode e.content e.content.isSome e.val read with
  | .ioerror => defaultFlags et tg
  | f => withFlags (fetchedOut f) et tg e.expT e.tag

/-! ### the calls -/

/-- the dictionary key of a Python key -/
def keyOf (E : Externals) (cfg : Cfg) (k : PyVal) : Key := DC.put E cfg.disk k

/-- is the item under `k` present and not expired? -/
def Dict.has (m : Dict) (k : Key) (now : Int) : Bool :=
  match m.get k with
  | some e => e.live now
  | none => false

/-- `set`: store the value under the key with expiry time `now + ttl` and the tag, replacing
whatever was there.  A value that cannot be written (text with a lone surrogate) or a key,
tag or value cell the database cannot bind raises UnicodeEncodeError and changes nothing. -/
def set (m : Dict) (E : Externals) (cfg : Cfg) (now : Int) (k v : PyVal) (ttl : Option Int)
    (read : Bool) (tag : SqlVal) : Dict × Out :=
  match place E cfg.disk cfg.minFileSize v read with
  | .error _ => (m, .exc "UnicodeEncodeError")
  | .ok p =>
    let e := entryOf p (ttl.map (now + ·)) tag
    if bindable (keyOf E cfg k).1 && bindable e.tag && bindable e.val then
      (m.put (keyOf E cfg k) e, .bool true)
    else (m, .exc "UnicodeEncodeError")

/-- `add`: like `set`, but only if the key is absent or its item is no longer live
(expiry time ≤ now); otherwise nothing is stored and the result is `False`. -/
def add (m : Dict) (E : Externals) (cfg : Cfg) (now : Int) (k v : PyVal) (ttl : Option Int)
    (read : Bool) (tag : SqlVal) : Dict × Out :=
  match place E cfg.disk cfg.minFileSize v read with
  | .error _ => (m, .exc "UnicodeEncodeError")
  | .ok p =>
    let e := entryOf p (ttl.map (now + ·)) tag
    if !bindable (keyOf E cfg k).1 then (m, .exc "UnicodeEncodeError")
    else if m.has (keyOf E cfg k) now then (m, .bool false)
    else if bindable e.tag && bindable e.val then (m.put (keyOf E cfg k) e, .bool true)
    else (m, .exc "UnicodeEncodeError")

/-- `touch`: give a live item the expiry time `now + ttl`; `False` if there is no live item. -/
def touch (m : Dict) (E : Externals) (cfg : Cfg) (now : Int) (k : PyVal) (ttl : Option Int) :
    Dict × Out :=
  match m.get (keyOf E cfg k) with
  | some e =>
    if e.live now then (m.put (keyOf E cfg k) { e with expT := ttl.map (now + ·) }, .bool true)
    else (m, .bool false)
  | none => (m, .bool false)

/-- `incr`: add `delta` to the integer stored under the key.  An absent key, or an item whose
expiry time lies strictly before `now`, is (re)created from `default` without expiry time and
tag — KeyError if `default` is None.  A stored cell that is not an integer raises TypeError, a
result outside int64 OverflowError; both change nothing. -/
def incr (m : Dict) (E : Externals) (cfg : Cfg) (now : Int) (k : PyVal) (delta : Int)
    (dflt : Option Int) : Dict × Out :=
  let fresh : Dict × Out :=
    match dflt with
    | none => (m, .exc "KeyError")
    | some d =>
      match place E cfg.disk cfg.minFileSize (.int (d + delta)) false with
      | .error _ => (m, .exc "UnicodeEncodeError")
      | .ok p => (m.put (keyOf E cfg k) (entryOf p none .null), .int (d + delta))
  match m.get (keyOf E cfg k) with
  | none => fresh
  | some e =>
    if e.expired now then fresh
    else match e.val with
      | .int i =>
        if inI64 (i + delta) then (m.put (keyOf E cfg k) { e with val := .int (i + delta) }, .int (i + delta))
        else (m, .exc "OverflowError")
      | _ => (m, .exc "TypeError")

/-- `get`: the value of a live item (with its expiry time / tag if asked for), else `default`. -/
def get (m : Dict) (E : Externals) (cfg : Cfg) (now : Int) (k : PyVal) (read et tg : Bool) :
    Dict × Out :=
  match m.get (keyOf E cfg k) with
  | some e => if e.live now then (m, e.out E cfg read et tg) else (m, defaultFlags et tg)
  | none => (m, defaultFlags et tg)

/-- `key in cache` -/
def contains (m : Dict) (E : Externals) (cfg : Cfg) (now : Int) (k : PyVal) : Dict × Out :=
  (m, .bool (m.has (keyOf E cfg k) now))

/-- `pop`: remove a live item and return its value, else `default`. -/
def pop (m : Dict) (E : Externals) (cfg : Cfg) (now : Int) (k : PyVal) (et tg : Bool) : Dict × Out :=
  match m.get (keyOf E cfg k) with
  | some e =>
    if e.live now then (m.del (keyOf E cfg k), e.out E cfg false et tg) else (m, defaultFlags et tg)
  | none => (m, defaultFlags et tg)

/-- `del cache[key]`: remove a live item, KeyError if there is none. -/
def delitem (m : Dict) (E : Externals) (cfg : Cfg) (now : Int) (k : PyVal) : Dict × Out :=
  if m.has (keyOf E cfg k) now then (m.del (keyOf E cfg k), .bool true) else (m, .exc "KeyError")

/-- `delete`: remove a live item; `False` if there is none. -/
def delete (m : Dict) (E : Externals) (cfg : Cfg) (now : Int) (k : PyVal) : Dict × Out :=
  if m.has (keyOf E cfg k) now then (m.del (keyOf E cfg k), .bool true) else (m, .bool false)

/-- `clear`: remove everything.  (The integer results of the four bulk calls count stored
rows, which the dictionary does not determine; they are not part of the specification.) -/
def clear (_ : Dict) : Dict × Out := ([], .none)

/-- `evict(tag)`: remove every item carrying the tag. -/
def evict (m : Dict) (tag : SqlVal) : Dict × Out := (m.filter (fun p => !p.2.tag.eqv tag), .none)

/-- `expire(now)`: remove every item whose expiry time lies strictly before `now`. -/
def expire (m : Dict) (now : Int) : Dict × Out := (m.filter (fun p => !p.2.expired now), .none)

/-- `cull(now)` without a size limit is `expire(now)`. -/
def cull (m : Dict) (now : Int) : Dict × Out := expire m now

/-! ### histories -/

/-- one call of a history.  Calls outside the specification (queues, iteration, counters,
transaction blocks) leave the dictionary alone; `Keyed` excludes them from the theorems. -/
def step (m : Dict) (cfg : Cfg) : Cache.Op → Dict × Out
  | .set E now k v ttl read tag => set m E cfg now k v ttl read tag
  | .add E now k v ttl read tag => add m E cfg now k v ttl read tag
  | .touch E now k ttl => touch m E cfg now k ttl
  | .incr E now k delta dflt => incr m E cfg now k delta dflt
  | .get E now k read et tg => get m E cfg now k read et tg
  | .contains E now k => contains m E cfg now k
  | .pop E now k et tg => pop m E cfg now k et tg
  | .delitem E now k => delitem m E cfg now k
  | .delete E now k => delete m E cfg now k
  | .clear => clear m
  | .evict tag => evict m tag
  | .expire now => expire m now
  | .cull now => cull m now
  | _ => (m, .none)

/-- the calls the specification covers -/
def Keyed : Cache.Op → Bool
  | .set .. | .add .. | .touch .. | .incr .. | .get .. | .contains .. | .pop .. | .delitem ..
  | .delete .. | .clear | .evict .. | .expire .. | .cull .. => true
  | _ => false

/-- the calls whose result the dictionary determines (all but the four bulk removals, whose
integer result counts stored rows) -/
def Determined : Cache.Op → Bool
  | .clear | .evict .. | .expire .. | .cull .. => false
  | _ => true

/-- the dictionary after a history -/
def run (m : Dict) (cfg : Cfg) (ops : List Cache.Op) : Dict := ops.foldl (fun m op => (step m cfg op).1) m

/-- the results of a history -/
def outs (m : Dict) (cfg : Cfg) : List Cache.Op → List Out
  | [] => []
  | op :: ops => (step m cfg op).2 :: outs (step m cfg op).1 cfg ops

end DC.Spec
