/-
C06 — transaction blocks are all-or-nothing, isolated, nestable and thread-owned.

Isolation and atomic publication are the protocol theorems of C05 with the whole
block as one transaction body (`DC.Conc.serializable_db`, `isolated`).  This file
adds what is specific to blocks in the sequential model: nesting (only the
outermost block commits or rolls back) and the abort guarantee — after a block
that raises, keys, values (their files included), expiry, tags and counters are
exactly as before, for EVERY body (fix D9a: the pinned tree deleted replaced and
popped value files before the outermost COMMIT).
-/
import DC.Proofs.Block

namespace DC.Cache

/-- calls that may appear in the body of a block (block brackets are handled by `depth`) -/
def Op.flat : Op → Bool
  | .tbegin => false
  | .tend => false
  | .traise _ => false
  | _ => true

/-- `nest_outermost`: entering a nested block neither begins a transaction nor touches the
table, the snapshot or the files; leaving it normally neither commits nor rolls back -/
theorem nest_outermost (s : Cache) (hd : 0 < s.depth) :
    s.tbegin = { s with depth := s.depth + 1 } ∧
    (1 < s.depth → s.tend = { s with depth := s.depth - 1 }) ∧
    (∀ n, n < s.depth → s.traise n = { s with depth := s.depth - n }) := by
  refine ⟨?_, ?_, ?_⟩
  · unfold tbegin
    have : (s.depth == 0) = false := by simp; omega
    simp [this]
  · intro h1
    unfold tend
    have : (s.depth == 1) = false := by simp; omega
    simp [this]
  · intro n hn
    exact traise_inner s n hn

/-- the outermost block begins the transaction and remembers the state to restore -/
theorem outermost_begins (s : Cache) (hd : s.depth = 0) :
    s.tbegin.depth = 1 ∧ s.tbegin.snap = some s.takeSnap ∧ s.tbegin.rows = s.rows ∧
    s.tbegin.files = s.files ∧ s.tbegin.trace = s.trace ++ [.begin] := by
  unfold tbegin
  rw [if_pos (by simp [hd])]
  exact ⟨rfl, rfl, rfl, rfl, rfl⟩

/-- every call other than a block bracket extends the block state -/
theorem step_blk {a s : Cache} (h : Blk a s) (op : Op) (hf : op.flat = true) : Blk a (s.step op).1 := by
  cases op with
  | set E now k v ttl read tag => exact set_blk h E now k v ttl read tag
  | add E now k v ttl read tag => exact add_blk h E now k v ttl read tag
  | touch E now k ttl => exact touch_blk h E now k ttl
  | incr E now k delta dflt => exact incr_blk h E now k delta dflt
  | get E now k read et tg => exact get_blk h E now k read et tg
  | contains E now k => exact contains_blk h E now k
  | pop E now k et tg => exact pop_blk h E now k et tg
  | delitem E now k => exact delitem_blk h E now k
  | delete E now k => exact delete_blk h E now k
  | push E now v pfx back ttl read tag => exact push_blk h E now v pfx back ttl read tag
  | pull E now pfx front et tg => exact pullLoop_blk E now pfx front et tg _ h
  | peek E now pfx front et tg => exact peekLoop_blk E now pfx front et tg _ h
  | peekitem E now last et tg => exact peekitemLoop_blk E now last et tg _ h
  | clear =>
    show Blk a (clearLoop (s.rows.length + 1) s 0 0).1
    exact clearLoop_blk _ _ _ h
  | evict tag =>
    show Blk a (evictLoop tag (s.rows.length + 1) s 0 0).1
    exact evictLoop_blk tag _ _ _ h
  | expire now =>
    show Blk a (expireLoop now (s.rows.length + 1) s none 0).1
    exact expireLoop_blk now _ _ _ h
  | cull now => exact cull_blk h now
  | iter E asc => exact iter_blk h E asc
  | iterkeys E rev => exact iterkeys_blk h E rev
  | len => exact h.logSql _
  | stats enable reset => exact stats_blk h enable reset
  | tbegin => cases hf
  | tend => cases hf
  | traise n => cases hf
  | observe env => exact h.same rfl rfl rfl rfl rfl

theorem run_blk {a s : Cache} (h : Blk a s) (ops : List Op) (hflat : ∀ op ∈ ops, op.flat = true) :
    Blk a (s.run ops) := by
  induction ops generalizing s with
  | nil => exact h
  | cons op ops ih =>
    exact ih (step_blk h op (hflat op (List.mem_cons_self ..)))
      (fun o ho => hflat o (List.mem_cons_of_mem _ ho))

/-- inside a block every call leaves the nesting depth and the snapshot alone and removes no
file that existed before it (removals are deferred to the outermost COMMIT) -/
theorem step_in_block (s : Cache) (op : Op) (hd : 0 < s.depth) (hf : op.flat = true) :
    (s.step op).1.depth = s.depth ∧ (s.step op).1.snap = s.snap ∧
    (∀ p ∈ s.files, p ∈ (s.step op).1.files) ∧ s.nfile ≤ (s.step op).1.nfile ∧
    (∀ f ∈ (s.step op).1.created, f ∈ s.created ∨ s.nfile ≤ f) := by
  have h := step_blk (Blk.refl hd) op hf
  exact ⟨h.depth, h.snap, h.files, h.nfile, h.created⟩

/-- `abort_restores`: a block that raises — after ANY sequence of calls, at any point — leaves
rows (keys, values, expiry, tags, store/access metadata), Settings counters and statistics
exactly as they were before the block, every value file that existed before the block still
exists with its content, and no transaction stays open -/
theorem abort_restores (s : Cache) (ops : List Op) (hd : s.depth = 0)
    (hflat : ∀ op ∈ ops, op.flat = true) (hfresh : ∀ p ∈ s.files, p.1 < s.nfile) :
    let s' := (s.tbegin.run ops).traise 1
    s'.rows = s.rows ∧ s'.count = s.count ∧ s'.size = s.size ∧ s'.hits = s.hits ∧
    s'.misses = s.misses ∧ (∀ p ∈ s.files, p ∈ s'.files) ∧
    s'.depth = 0 ∧ s'.snap = none ∧ s'.pending = [] ∧ s'.created = [] := by
  have h0 : Blk s.tbegin s.tbegin := Blk.refl (by rw [(outermost_begins s hd).1]; exact Nat.one_pos)
  have h := run_blk h0 ops hflat
  have hb : s.tbegin = { (s.log .begin) with depth := 1, snap := some s.takeSnap, pending := [], created := [] } := by
    unfold tbegin
    rw [if_pos (by simp [hd])]
  have hdep : (s.tbegin.run ops).depth = 1 := by rw [h.depth, hb]
  have hsnap : (s.tbegin.run ops).snap = some s.takeSnap := by rw [h.snap, hb]
  have hfiles : ∀ p ∈ s.files, p ∈ (s.tbegin.run ops).files := by
    intro p hp; apply h.files; rw [hb]; exact hp
  have hcr : ∀ f ∈ (s.tbegin.run ops).created, s.nfile ≤ f := by
    intro f hf
    rcases h.created f hf with h1 | h1
    · rw [hb] at h1; cases h1
    · rw [hb] at h1; exact h1
  intro s'
  have hs' : s' = _ := traise_outer (s.tbegin.run ops) 1 s.takeSnap (by omega) (by omega) hsnap
  generalize s.tbegin.run ops = t at *
  rw [hs']
  refine ⟨?_, ?_, ?_, ?_, ?_, ?_, ?_, ?_, rfl, rfl⟩
  · show (Cache.fremoveAll _ _).rows = s.rows
    rw [fremoveAll_rows]; rfl
  · show (Cache.fremoveAll _ _).count = s.count
    rw [(fremoveAll_keep _ _).2.1]; rfl
  · show (Cache.fremoveAll _ _).size = s.size
    rw [(fremoveAll_keep _ _).2.2.1]; rfl
  · show (Cache.fremoveAll _ _).hits = s.hits
    rw [(fremoveAll_stats _ _).1]; rfl
  · show (Cache.fremoveAll _ _).misses = s.misses
    rw [(fremoveAll_stats _ _).2]; rfl
  · intro p hp
    refine mem_fremoveAll (s := { ((t.restore s.takeSnap).log .rollback) with depth := 0, snap := none })
      (hfiles p hp) ?_
    intro hm
    obtain ⟨f, hf, hfe⟩ := List.mem_map.1 hm
    simp only [Option.some.injEq] at hfe
    have h1 := hcr f hf
    have h2 := hfresh p hp
    omega
  · show (Cache.fremoveAll _ _).depth = 0
    rw [fremoveAll_depth]
  · show (Cache.fremoveAll _ _).snap = none
    rw [fremoveAll_snap]

/-- an exception that leaves only inner blocks (caught before the outermost) rolls nothing back -/
theorem inner_raise_keeps (s : Cache) (n : Nat) (hn : n < s.depth) :
    (s.traise n).rows = s.rows ∧ (s.traise n).files = s.files ∧ (s.traise n).snap = s.snap := by
  rw [traise_inner s n hn]
  exact ⟨rfl, rfl, rfl⟩

/-- `commit_atomic` (sequential face): leaving the outermost block normally publishes with one
COMMIT and only then removes the files the block replaced or popped -/
theorem outermost_commits (s : Cache) (hd : s.depth = 1) :
    s.tend.depth = 0 ∧ s.tend.snap = none ∧ s.tend.rows = s.rows ∧ s.tend.pending = [] ∧
    (∀ p ∈ s.tend.files, p ∈ s.files) ∧
    (∀ p ∈ s.files, some p.1 ∉ s.pending → p ∈ s.tend.files) := by
  rw [tend_one s hd]
  refine ⟨?_, ?_, ?_, rfl, ?_, ?_⟩
  · show (Cache.fremoveAll _ _).depth = 0
    rw [fremoveAll_depth]
  · show (Cache.fremoveAll _ _).snap = none
    rw [fremoveAll_snap]
  · show (Cache.fremoveAll _ _).rows = s.rows
    rw [fremoveAll_rows]; rfl
  · intro p hp
    exact mem_of_fremoveAll (s := { (s.log .commit) with depth := 0, snap := none }) hp
  · intro p hp hn
    exact mem_fremoveAll (s := { (s.log .commit) with depth := 0, snap := none }) hp hn

/-- non-vacuity: replace a file-backed value and pop another inside a block, then abort -/
def exE6 : Externals :=
  { dumpsK := fun _ => [], dumpsV := fun _ => [], loads := fun _ => .none, jsonz := fun _ => [], unjsonz := fun _ => .none }

def exBlockStart : Cache :=
  (({ cfg := { minFileSize := 2, cullLimit := 0 } } : Cache).run
    [.set exE6 0 (.str [97]) (.bytes [1, 2, 3]) none false .null,
     .set exE6 0 (.str [98]) (.bytes [4, 5, 6, 7]) none false .null])

example :
    let s := exBlockStart
    let s' := (s.tbegin.run [.set exE6 1 (.str [97]) (.bytes [9, 9, 9, 9, 9]) none false .null,
                             .pop exE6 1 (.str [98]) false false]).traise 1
    s.files.length = 2 ∧ s'.rows = s.rows ∧ (∀ p ∈ s.files, p ∈ s'.files) ∧ s'.files.length = 2 := by
  decide +kernel

end DC.Cache
