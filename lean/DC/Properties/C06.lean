/-
C06 — transaction blocks are all-or-nothing, isolated, nestable and thread-owned.

Isolation and atomic publication are the protocol theorems of C05 with the whole
block as one transaction body (`DC.Conc.serializable_db`, `isolated`).  This file
adds what is specific to blocks in the sequential model: nesting (only the
outermost block commits or rolls back) and the abort guarantee — after a block
that raises, keys, values (their files included), expiry, tags and counters are
exactly as before, for EVERY body (fix D9a: the pinned tree deleted replaced and
popped value files before the outermost COMMIT).
-/
import DC.Proofs.Block

namespace DC.Cache

/-- calls that may appear in the body of a block (block brackets are handled by `depth`) -/
def Op.flat : Op → Bool
  | .tbegin => false
  | .tend => false
  | .traise _ => false
  | _ => true

/-- `nest_outermost`: entering a nested block neither begins a transaction nor touches the
table, the snapshot or the files; leaving it normally neither commits nor rolls back -/
theorem nest_outermost (s : Cache) (hd : 0 < s.depth) :
    s.tbegin = { s with depth := s.depth + 1 } ∧
    (1 < s.depth → s.tend = { s with depth := s.depth - 1 }) ∧
    (∀ n, n < s.depth → s.traise n = { s with depth := s.depth - n }) := by
  sorry

/-- the outermost block begins the transaction and remembers the state to restore -/
theorem outermost_begins (s : Cache) (hd : s.depth = 0) :
    s.tbegin.depth = 1 ∧ s.tbegin.snap = some s.takeSnap ∧ s.tbegin.rows = s.rows ∧
    s.tbegin.files = s.files ∧ s.tbegin.trace = s.trace ++ [.begin] := by
  sorry

/-- inside a block every call leaves the nesting depth and the snapshot alone and removes no
file that existed before it (removals are deferred to the outermost COMMIT) -/
theorem step_in_block (s : Cache) (op : Op) (hd : 0 < s.depth) (hf : op.flat = true) :
    (s.step op).1.depth = s.depth ∧ (s.step op).1.snap = s.snap ∧
    (∀ p ∈ s.files, p ∈ (s.step op).1.files) ∧ s.nfile ≤ (s.step op).1.nfile ∧
    (∀ f ∈ (s.step op).1.created, f ∈ s.created ∨ s.nfile ≤ f) := by
  sorry

/-- `abort_restores`: a block that raises — after ANY sequence of calls, at any point — leaves
rows (keys, values, expiry, tags, store/access metadata), Settings counters and statistics
exactly as they were before the block, every value file that existed before the block still
exists with its content, and no transaction stays open -/
theorem abort_restores (s : Cache) (ops : List Op) (hd : s.depth = 0)
    (hflat : ∀ op ∈ ops, op.flat = true) (hfresh : ∀ p ∈ s.files, p.1 < s.nfile) :
    let s' := (s.tbegin.run ops).traise 1
    s'.rows = s.rows ∧ s'.count = s.count ∧ s'.size = s.size ∧ s'.hits = s.hits ∧
    s'.misses = s.misses ∧ (∀ p ∈ s.files, p ∈ s'.files) ∧
    s'.depth = 0 ∧ s'.snap = none ∧ s'.pending = [] ∧ s'.created = [] := by
  sorry

/-- an exception that leaves only inner blocks (caught before the outermost) rolls nothing back -/
theorem inner_raise_keeps (s : Cache) (n : Nat) (hn : n < s.depth) :
    (s.traise n).rows = s.rows ∧ (s.traise n).files = s.files ∧ (s.traise n).snap = s.snap := by
  sorry

/-- `commit_atomic` (sequential face): leaving the outermost block normally publishes with one
COMMIT and only then removes the files the block replaced or popped -/
theorem outermost_commits (s : Cache) (hd : s.depth = 1) :
    s.tend.depth = 0 ∧ s.tend.snap = none ∧ s.tend.rows = s.rows ∧ s.tend.pending = [] ∧
    (∀ p ∈ s.tend.files, p ∈ s.files) ∧
    (∀ p ∈ s.files, some p.1 ∉ s.pending → p ∈ s.tend.files) := by
  sorry

/-- non-vacuity: replace a file-backed value and pop another inside a block, then abort -/
def exE6 : Externals :=
  { dumpsK := fun _ => [], dumpsV := fun _ => [], loads := fun _ => .none, jsonz := fun _ => [], unjsonz := fun _ => .none }

def exBlockStart : Cache :=
  (({ cfg := { minFileSize := 2, cullLimit := 0 } } : Cache).run
    [.set exE6 0 (.str [97]) (.bytes [1, 2, 3]) none false .null,
     .set exE6 0 (.str [98]) (.bytes [4, 5, 6, 7]) none false .null])

example :
    let s := exBlockStart
    let s' := (s.tbegin.run [.set exE6 1 (.str [97]) (.bytes [9, 9, 9, 9, 9]) none false .null,
                             .pop exE6 1 (.str [98]) false false]).traise 1
    s.files.length = 2 ∧ s'.rows = s.rows ∧ (∀ p ∈ s.files, p ∈ s'.files) ∧ s'.files.length = 2 := by
  decide +kernel

end DC.Cache
