/-
C11 (refinement, continued) — the `maxlen` setter: the bound is replaced and, inside one
transaction block, items are popped from the front while the deque is longer than the bound.
-/
import DC.Properties.C11_RefineBase

namespace DC.Deque
open DC.Cache DC.Spec DC.DSpec

theorem trimLoop_zero (E : Externals) (now : Int) (m : Nat) (X : Cache) : trimLoop E now m 0 X = X := rfl

theorem trimLoop_succ (E : Externals) (now : Int) (m : Nat) (fuel : Nat) (X : Cache) :
    trimLoop E now m (fuel + 1) X =
      if X.count > (m : Int) then trimLoop E now m fuel (X.pull E now none true false false).1 else X := rfl

/-- the trimming loop inside the block: the queue keeps its last `m` rows -/
theorem trimLoop_all (E : Externals) (now : Int) (m : Nat) : ∀ (fuel : Nat) (X : Cache), drf_BI X →
    (∀ a ∈ X.rows, drf_Readable (rf_ent X a)) → (∀ a ∈ X.rows, a.expT = none) →
    (∀ a ∈ X.rows, qfilter none a = true) → X.rows.length ≤ fuel + m →
    drf_BI (trimLoop E now m fuel X) ∧ (trimLoop E now m fuel X).cfg = X.cfg ∧
    (trimLoop E now m fuel X).statistics = X.statistics ∧ (trimLoop E now m fuel X).files = X.files ∧
    (trimLoop E now m fuel X).queueRows none =
      (X.queueRows none).drop ((X.queueRows none).length - m) ∧
    (∀ a ∈ (trimLoop E now m fuel X).rows, a ∈ X.rows) := by
  intro fuel
  induction fuel with
  | zero =>
    intro X hBI _ _ hq hlen
    have hql : (X.queueRows none).length = X.rows.length := by
      rw [queueRows_eq]
      exact qrows_length_all (fun r hr => mem_qrows.2 ⟨hr, hq r hr⟩)
    rw [trimLoop_zero]
    refine ⟨hBI, rfl, rfl, rfl, ?_, fun a ha => ha⟩
    rw [show (X.queueRows none).length - m = 0 by omega]; rfl
  | succ fuel ih =>
    intro X hBI hrd hexp hq hlen
    have hql : (X.queueRows none).length = X.rows.length := by
      rw [queueRows_eq]
      exact qrows_length_all (fun r hr => mem_qrows.2 ⟨hr, hq r hr⟩)
    have hcount : X.count = (X.rows.length : Int) := hBI.tinv.tbl.count
    rw [trimLoop_succ]
    by_cases hgt : X.count > (m : Int)
    · rw [if_pos hgt]
      have hlt : m < X.rows.length := by rw [hcount] at hgt; omega
      cases hQ : X.queueRows none with
      | nil => rw [hQ] at hql; simp only [List.length_nil] at hql; omega
      | cons r0 T =>
        have hh : (if true then (X.queueRows none).head? else (X.queueRows none).getLast?) = some r0 := by
          rw [hQ]; rfl
        have hqh : qhead X none true = some r0 := by unfold qhead; rw [hQ]; rfl
        have hr0 : r0 ∈ X.rows := (mem_qrows.1 (qhead_mem hqh)).1
        have hlive : expired now r0 = false := by unfold expired; rw [hexp r0 hr0]
        have hf : (X.fetchRow E r0 false).2 ≠ .ioerror :=
          (drf_valueOf X E r0 (drf_BI_href hBI hr0) (hrd r0 hr0)).1
        obtain ⟨hBI2, hr2, hc2, hs2, hf2⟩ := drf_stage_pull X E now true r0 hBI hqh hlive hf
        have hp2 := (pull_end X E now none true hBI.tinv r0 hh hlive hf).2
        rw [hQ] at hp2
        simp only [if_true, List.tail_cons] at hp2
        generalize (X.pull E now none true false false).1 = Y at hBI2 hr2 hc2 hs2 hf2 hp2 ⊢
        have hsub : ∀ a ∈ Y.rows, a ∈ X.rows := by
          intro a ha; rw [hr2] at ha; exact (List.mem_filter.1 ha).1
        have hqY : ∀ a ∈ Y.rows, qfilter none a = true := fun a ha => hq a (hsub a ha)
        have hqlY : (Y.queueRows none).length = Y.rows.length := by
          rw [queueRows_eq]
          exact qrows_length_all (fun r hr => mem_qrows.2 ⟨hr, hqY r hr⟩)
        have hlenY : Y.rows.length ≤ fuel + m := by
          rw [← hqlY, hp2]
          rw [hQ] at hql
          simp only [List.length_cons] at hql
          omega
        obtain ⟨g1, g2, g3, g4, g5, g6⟩ := ih Y hBI2
          (fun a ha => by rw [drf_ent_files hf2 a]; exact hrd a (hsub a ha))
          (fun a ha => hexp a (hsub a ha)) hqY hlenY
        refine ⟨g1, g2.trans hc2, g3.trans hs2, g4.trans hf2, ?_, fun a ha => hsub a (g6 a ha)⟩
        rw [g5, hp2]
        rw [hQ] at hql
        simp only [List.length_cons] at hql ⊢
        rw [show T.length + 1 - m = (T.length - m) + 1 by omega]
        rfl
    · rw [if_neg hgt]
      refine ⟨hBI, rfl, rfl, rfl, ?_, fun a ha => ha⟩
      have : X.rows.length ≤ m := by rw [hcount] at hgt; omega
      rw [show (X.queueRows none).length - m = 0 by omega]; rfl

theorem setMaxlen_eq (d : Deque) (E : Externals) (now : Int) (k : Nat) :
    d.setMaxlen E now k =
      ({ cache := (trimLoop E now k (d.cache.tbegin.rows.length + 1) d.cache.tbegin).tend, maxlen := some k },
        .none) := rfl

/-- everything the `maxlen` setter does to the state -/
theorem setMaxlen_state (d : Deque) (n : Nat) (E : Externals) (now : Int) (k : Nat) (hok : OkN d n) :
    let d' := (d.setMaxlen E now k).1
    Cache.Good d'.cache ∧ d'.cache.cfg = d.cache.cfg ∧ d'.cache.statistics = d.cache.statistics ∧
    d'.maxlen = some k ∧
    items d' = (items d).drop ((items d).length - k) ∧
    (∀ a ∈ d'.cache.rows, a ∈ d.cache.rows ∧ rf_ent d'.cache a = rf_ent d.cache a) := by
  intro d'
  obtain ⟨hBI0, -⟩ := drf_BI_tbegin d.cache hok.good
  obtain ⟨hcore0, -, -⟩ := drf_tbegin_core d.cache hok.good
  have hrows0 : d.cache.tbegin.rows = d.cache.rows := congrArg Core.rows hcore0
  have hfiles0 : d.cache.tbegin.files = d.cache.files := congrArg Core.files hcore0
  have hcfg0 : d.cache.tbegin.cfg = d.cache.cfg := congrArg Core.cfg hcore0
  have hst0 : d.cache.tbegin.statistics = d.cache.statistics := congrArg Core.statistics hcore0
  have hent0 : ∀ a, rf_ent d.cache.tbegin a = rf_ent d.cache a := drf_ent_files hfiles0
  obtain ⟨g1, g2, g3, g4, g5, g6⟩ := trimLoop_all E now k (d.cache.tbegin.rows.length + 1) d.cache.tbegin hBI0
    (fun a ha => by rw [hent0]; exact hok.readable a (by rw [← hrows0]; exact ha))
    (fun a ha => hok.noexp a (by rw [← hrows0]; exact ha))
    (fun a ha => (mem_qrows.1 (hok.allq' a (by rw [← hrows0]; exact ha))).2)
    (by omega)
  have hd' : d'.cache = (trimLoop E now k (d.cache.tbegin.rows.length + 1) d.cache.tbegin).tend := rfl
  generalize trimLoop E now k (d.cache.tbegin.rows.length + 1) d.cache.tbegin = Y at g1 g2 g3 g4 g5 g6 hd'
  obtain ⟨hg', hr', hc', hs', hq', -, he'⟩ := drf_stage_tend Y g1
  refine ⟨by rw [hd']; exact hg', by rw [hd', hc', g2, hcfg0], by rw [hd', hs', g3, hst0], rfl, ?_, ?_⟩
  · show d'.cache.queueRows none = _
    rw [hd', hq', g5, tbegin_queueRows]
    rfl
  · intro a ha
    rw [hd'] at ha ⊢
    have haY : a ∈ Y.rows := by rw [← hr']; exact ha
    refine ⟨by rw [← hrows0]; exact g6 a haY, ?_⟩
    rw [he' a ha, drf_ent_files g4 a, hent0]

theorem setMaxlen_drefines (d : Deque) (m : DList) (n : Nat) (E : Externals) (now : Int) (k : Nat)
    (hok : OkN d n) (hr : DRefines d m) :
    (d.setMaxlen E now k).2 = (DSpec.setMaxlen m k).2 ∧
    DRefines (d.setMaxlen E now k).1 (DSpec.setMaxlen m k).1 := by
  obtain ⟨-, -, -, hml, hitems, hent⟩ := setMaxlen_state d n E now k hok
  refine ⟨rfl, ?_, hml⟩
  show (items (d.setMaxlen E now k).1).map (entryOfRow (d.setMaxlen E now k).1.cache) =
    m.items.drop (m.items.length - k)
  have hmap : (items (d.setMaxlen E now k).1).map (entryOfRow (d.setMaxlen E now k).1.cache) =
      (items (d.setMaxlen E now k).1).map (entryOfRow d.cache) := by
    apply List.map_congr_left
    intro a ha
    exact (hent a (Ok.mem_rows ha)).2
  rw [hmap, hitems, List.map_drop, hr.1, ← hr.1, List.length_map]

theorem setMaxlen_okN (d : Deque) (n : Nat) (E : Externals) (now : Int) (k : Nat) (hok : OkN d n) :
    OkN (d.setMaxlen E now k).1 n := by
  obtain ⟨hg, hcfg, hst, hml, hitems, hent⟩ := setMaxlen_state d n E now k hok
  have h1 : OkN { cache := (d.setMaxlen E now k).1.cache, maxlen := d.maxlen } n :=
    hok.shrink hg hcfg hst rfl (fun a ha => (hent a ha).1) (fun a ha => (hent a ha).2)
      (by
        show (items (d.setMaxlen E now k).1).length ≤ _
        rw [hitems, List.length_drop]; omega)
  exact { h1 with
    bounded := by
      intro j hj
      rw [hml] at hj
      cases hj
      rw [hitems, List.length_drop]
      omega }

theorem setMaxlen_cfg (d : Deque) (n : Nat) (E : Externals) (now : Int) (k : Nat) (hok : OkN d n) :
    (d.setMaxlen E now k).1.cache.cfg = d.cache.cfg := (setMaxlen_state d n E now k hok).2.1

end DC.Deque
