/-
C03 (refinement) — the Cache model refines the reference dictionary of
DC/Model/Spec.lean: for every history of key-addressed calls with a clock that
never goes backwards, on a cache without a size limit (eviction policy `none`;
the size-limit regime is C09), every call returns what the dictionary returns
and the final states correspond.

The dictionary has no lazy removal: an item whose expiry time has passed just
stops being visible.  The cache physically removes such rows whenever it likes
(`_cull` inside every write, `expire`, `cull`); the relation `Refines` allows
exactly that.

Statement notes.
 * `Refines` carries `m.WF` ("the bindings of `m` have pairwise different keys"): `Spec.evict` /
   `Spec.expire` drop bindings, which is only the per-key removal it looks like when a key is
   bound once.  Every dictionary built by the calls from `[]` is `WF`.
 * The per-call theorems are stated for a quiescent state (`Good c`: table and file
   invariants, no open transaction block), statistics on or off, any codec `E`
   (no codec law is needed: the dictionary stores the *stored representation*), and
   `now ≥ clock`.  Eviction policy `none` is needed only where `_cull` or a policy column
   could interfere (`set`, `add`, `incr`, `get`, `cull`).
 * `-- added:` `0 < c.cfg.page` for the four bulk removals (and therefore for histories): the
   model's page size is a `Cfg` field (the constant 100 in core.py); with page size 0 the
   `_select_delete` loops remove nothing — `clear_refines_needs_page` is the counterexample.
 * The integer results of clear / evict / expire / cull count physically stored rows, which the
   dictionary does not determine; `Spec.step` returns `.none` for them and `outs` masks them by
   `.none` on the model side (`Spec.Determined`).
-/
import DC.Proofs.RefineOps
import DC.Proofs.RefineWrite
import DC.Proofs.RefineDel
import DC.Proofs.RefineIncr
import DC.Proofs.RefineBulk
import DC.Proofs.RefineCfg
import DC.Properties.C01

namespace DC.Cache
open DC.Spec

/-- the entry a row denotes in state `c` -/
def entryOfRow (c : Cache) (r : Row) : Spec.Entry :=
  { mode := r.mode, val := r.val, content := r.file.bind c.fileGet, expT := r.expT, tag := r.tag }

/-- `c` represents `m` at clock `clock`: every binding of `m` is a row of `c` denoting the same
entry, or has been physically removed after it expired (strictly before `clock`); and `c` has no
row for keys unbound in `m`.  (`m.WF`: the bindings of `m` have pairwise different keys.) -/
def Refines (c : Cache) (m : Spec.Dict) (clock : Int) : Prop :=
  m.WF ∧ ∀ k : Spec.Key,
    match m.get k with
    | some e => (∃ r, c.selKey k.1 k.2 = some r ∧ entryOfRow c r = e) ∨
                (c.selKey k.1 k.2 = none ∧ e.expired clock = true)
    | none => c.selKey k.1 k.2 = none

/-- `Refines` in terms of the view of the state (DC/Proofs/RefineLemmas.lean) -/
theorem refines_iff (c : Cache) (m : Spec.Dict) (clock : Int) :
    Refines c m clock ↔ m.WF ∧ ∀ k, rf_VRel (rf_view c k) (m.get k) clock := by
  unfold Refines
  apply and_congr Iff.rfl
  apply forall_congr'
  intro k
  have hv : rf_view c k = (c.selKey k.1 k.2).map (entryOfRow c) := rfl
  rw [hv]
  unfold rf_VRel
  cases m.get k with
  | none => cases c.selKey k.1 k.2 <;> simp
  | some e => cases c.selKey k.1 k.2 <;> simp

/-- the empty cache represents the empty dictionary (at every clock) -/
theorem refines_init' (cf : Cfg) (st : Bool) (clock : Int) :
    Refines ({ cfg := cf, statistics := st } : Cache) [] clock :=
  ⟨rf_wf_nil, fun _ => rfl⟩

theorem refines_init : Refines {} [] 0 := refines_init' {} false 0

/-! ### read-only calls -/

theorem get_refines (c : Cache) (m : Spec.Dict) (clock now : Int) (E : Externals) (k : PyVal)
    (read et tg : Bool)
    (hg : Good c) (hp : c.cfg.policy = .none) (hr : Refines c m clock) (hn : clock ≤ now) :
    (c.get E now k read et tg).2 = (Spec.get m E c.cfg now k read et tg).2 ∧
    Refines (c.get E now k read et tg).1 (Spec.get m E c.cfg now k read et tg).1 now := by
  rw [refines_iff] at hr ⊢
  have hK := rf_VRel_mono (hr.2 (keyOf E c.cfg k)) hn
  have hm : (Spec.get m E c.cfg now k read et tg).1 = m := by
    unfold Spec.get; split
    · split <;> rfl
    · rfl
  refine ⟨?_, ?_⟩
  · rw [rf_get_out' _ _ _ _ _ _ _ hg]
    unfold Spec.get
    rcases rf_VRel_cases hK with h | ⟨h, e, hd, -, hl⟩
    · rw [h]; cases m.get (keyOf E c.cfg k) with
      | none => rfl
      | some e => simp only; split <;> rfl
    · rw [h, hd]; simp [hl]
  · rw [hm]
    refine ⟨hr.1, fun k' => ?_⟩
    rw [rf_view_core (rf_get_core c E now k read et tg hg.depth hp)]
    exact rf_VRel_mono (hr.2 k') hn

theorem contains_refines (c : Cache) (m : Spec.Dict) (clock now : Int) (E : Externals) (k : PyVal)
    (hg : Good c) (hr : Refines c m clock) (hn : clock ≤ now) :
    (c.contains E now k).2 = (Spec.contains m E c.cfg now k).2 ∧
    Refines (c.contains E now k).1 (Spec.contains m E c.cfg now k).1 now := by
  rw [refines_iff] at hr ⊢
  have hK := rf_VRel_mono (hr.2 (keyOf E c.cfg k)) hn
  refine ⟨?_, ?_⟩
  · rw [rf_contains_out _ _ _ _ hg]
    unfold Spec.contains Dict.has
    rcases rf_VRel_cases hK with h | ⟨h, e, hd, -, hl⟩
    · rw [h]; rfl
    · rw [h, hd]; simp [hl]
  · refine ⟨hr.1, fun k' => ?_⟩
    rw [rf_view_core (rf_contains_core c E now k)]
    exact rf_VRel_mono (hr.2 k') hn

/-! ### `set` -/

theorem set_refines (c : Cache) (m : Spec.Dict) (clock now : Int) (E : Externals) (k v : PyVal)
    (ttl : Option Int) (read : Bool) (tag : SqlVal)
    (hg : Good c) (hp : c.cfg.policy = .none) (hr : Refines c m clock) (hn : clock ≤ now) :
    (c.set E now k v ttl read tag).2 = (Spec.set m E c.cfg now k v ttl read tag).2 ∧
    Refines (c.set E now k v ttl read tag).1 (Spec.set m E c.cfg now k v ttl read tag).1 now := by
  rw [refines_iff] at hr ⊢
  have hA := rf_set_view c E now k v ttl read tag hg hp
  unfold Spec.set
  cases hpl : place E c.cfg.disk c.cfg.minFileSize v read with
  | error e =>
    rw [hpl] at hA
    simp only at hA ⊢
    rw [hA]
    exact ⟨rfl, hr.1, fun k' => rf_VRel_mono (hr.2 k') hn⟩
  | ok p =>
    rw [hpl] at hA
    simp only at hA ⊢
    split
    · rename_i hb
      rw [if_pos hb] at hA
      refine ⟨hA.1, rf_wf_put hr.1 _ _, ?_⟩
      exact rf_assemble (upd := fun _ => some (entryOf p (ttl.map (now + ·)) tag)) hr.2 hn hA.2
        (fun k' => rf_get_put _ _ _ _) (fun _ _ _ => rf_VRel_refl _ _)
    · rename_i hb
      rw [if_neg hb] at hA
      refine ⟨hA.1, hr.1, fun k' => ?_⟩
      rw [hA.2 k']
      exact rf_VRel_mono (hr.2 k') hn

/-! ### `add` -/

theorem add_refines (c : Cache) (m : Spec.Dict) (clock now : Int) (E : Externals) (k v : PyVal)
    (ttl : Option Int) (read : Bool) (tag : SqlVal)
    (hg : Good c) (hp : c.cfg.policy = .none) (hr : Refines c m clock) (hn : clock ≤ now) :
    (c.add E now k v ttl read tag).2 = (Spec.add m E c.cfg now k v ttl read tag).2 ∧
    Refines (c.add E now k v ttl read tag).1 (Spec.add m E c.cfg now k v ttl read tag).1 now := by
  rw [refines_iff] at hr ⊢
  have hA := rf_add_view c E now k v ttl read tag hg hp
  have hK := rf_VRel_mono (hr.2 (keyOf E c.cfg k)) hn
  have hsame : ∀ c' : Cache, (∀ k', rf_view c' k' = rf_view c k') →
      m.WF ∧ ∀ k', rf_VRel (rf_view c' k') (m.get k') now := by
    intro c' h
    refine ⟨hr.1, fun k' => ?_⟩
    rw [h k']
    exact rf_VRel_mono (hr.2 k') hn
  unfold Spec.add
  cases hpl : place E c.cfg.disk c.cfg.minFileSize v read with
  | error e =>
    rw [hpl] at hA
    simp only at hA ⊢
    rw [hA]
    exact ⟨rfl, hr.1, fun k' => rf_VRel_mono (hr.2 k') hn⟩
  | ok p =>
    rw [hpl] at hA
    simp only at hA ⊢
    rw [rf_has_dict, ← rf_has_rel hK]
    split
    · rename_i hb
      rw [if_pos hb] at hA
      exact ⟨hA.1, hsame _ hA.2⟩
    · rename_i hb
      rw [if_neg hb] at hA
      split
      · rename_i hh
        rw [if_pos hh] at hA
        exact ⟨hA.1, hsame _ hA.2⟩
      · rename_i hh
        rw [if_neg hh] at hA
        split
        · rename_i hcb
          rw [if_pos hcb] at hA
          refine ⟨hA.1, rf_wf_put hr.1 _ _, ?_⟩
          exact rf_assemble (upd := fun _ => some (entryOf p (ttl.map (now + ·)) tag)) hr.2 hn hA.2
            (fun k' => rf_get_put _ _ _ _) (fun _ _ _ => rf_VRel_refl _ _)
        · rename_i hcb
          rw [if_neg hcb] at hA
          exact ⟨hA.1, hsame _ hA.2⟩

/-! ### `incr` -/

/-- the (re)creation branch of `Spec.incr` -/
def specIncrFresh (m : Spec.Dict) (E : Externals) (cfg : Cfg) (k : PyVal) (delta : Int)
    (dflt : Option Int) : Spec.Dict × Out :=
  match dflt with
  | none => (m, .exc "KeyError")
  | some d =>
    match place E cfg.disk cfg.minFileSize (.int (d + delta)) false with
    | .error _ => (m, .exc "UnicodeEncodeError")
    | .ok p => (m.put (keyOf E cfg k) (entryOf p none .null), .int (d + delta))

theorem specIncr_eq (m : Spec.Dict) (E : Externals) (cfg : Cfg) (now : Int) (k : PyVal) (delta : Int)
    (dflt : Option Int) :
    Spec.incr m E cfg now k delta dflt =
      match m.get (keyOf E cfg k) with
      | none => specIncrFresh m E cfg k delta dflt
      | some e =>
        if e.expired now then specIncrFresh m E cfg k delta dflt
        else match e.val with
          | .int i =>
            if inI64 (i + delta) then
              (m.put (keyOf E cfg k) { e with val := .int (i + delta) }, .int (i + delta))
            else (m, .exc "OverflowError")
          | _ => (m, .exc "TypeError") := rfl

theorem incr_fresh_refines {c c' : Cache} {m : Spec.Dict} {clock now : Int} {o : Out} {E : Externals}
    {k : PyVal} {delta : Int} {dflt : Option Int}
    (hr : m.WF ∧ ∀ k, rf_VRel (rf_view c k) (m.get k) clock) (hn : clock ≤ now)
    (hF : rf_IncrFresh c c' o E (keyOf E c.cfg k) now delta dflt) :
    o = (specIncrFresh m E c.cfg k delta dflt).2 ∧ (specIncrFresh m E c.cfg k delta dflt).1.WF ∧
    ∀ k', rf_VRel (rf_view c' k') ((specIncrFresh m E c.cfg k delta dflt).1.get k') now := by
  unfold rf_IncrFresh at hF
  unfold specIncrFresh
  have hsame : (∀ k', rf_view c' k' = rf_view c k') → ∀ k', rf_VRel (rf_view c' k') (m.get k') now := by
    intro h k'
    rw [h k']
    exact rf_VRel_mono (hr.2 k') hn
  cases dflt with
  | none => exact ⟨hF.1, hr.1, hsame hF.2⟩
  | some d =>
    simp only at hF ⊢
    cases hpl : place E c.cfg.disk c.cfg.minFileSize (.int (d + delta)) false with
    | error e =>
      rw [hpl] at hF
      exact ⟨hF.1, hr.1, hsame hF.2⟩
    | ok p =>
      rw [hpl] at hF
      refine ⟨hF.1, rf_wf_put hr.1 _ _, ?_⟩
      exact rf_assemble (upd := fun _ => some (entryOf p none .null)) hr.2 hn hF.2
        (fun k' => rf_get_put _ _ _ _) (fun _ _ _ => rf_VRel_refl _ _)

theorem incr_refines (c : Cache) (m : Spec.Dict) (clock now : Int) (E : Externals) (k : PyVal)
    (delta : Int) (dflt : Option Int)
    (hg : Good c) (hp : c.cfg.policy = .none) (hr : Refines c m clock) (hn : clock ≤ now) :
    (c.incr E now k delta dflt).2 = (Spec.incr m E c.cfg now k delta dflt).2 ∧
    Refines (c.incr E now k delta dflt).1 (Spec.incr m E c.cfg now k delta dflt).1 now := by
  rw [refines_iff] at hr ⊢
  have hA := rf_incr_view c E now k delta dflt hg hp
  have hK := rf_VRel_mono (hr.2 (keyOf E c.cfg k)) hn
  have hsame : (∀ k', rf_view (c.incr E now k delta dflt).1 k' = rf_view c k') →
      ∀ k', rf_VRel (rf_view (c.incr E now k delta dflt).1 k') (m.get k') now := by
    intro h k'
    rw [h k']
    exact rf_VRel_mono (hr.2 k') hn
  rw [specIncr_eq]
  rcases rf_VRel_cases hK with h | ⟨h, e, hd, he, -⟩
  · rw [h] at hA
    cases hd : m.get (keyOf E c.cfg k) with
    | none =>
      rw [hd] at hA
      exact incr_fresh_refines hr hn hA
    | some e =>
      rw [hd] at hA
      simp only at hA ⊢
      by_cases hx : e.expired now = true
      · rw [if_pos hx] at hA ⊢
        exact incr_fresh_refines hr hn hA
      · rw [if_neg hx] at hA ⊢
        cases hval : e.val with
        | int i =>
          rw [hval] at hA
          simp only at hA ⊢
          by_cases hin : inI64 (i + delta) = true
          · rw [if_pos hin] at hA ⊢
            refine ⟨hA.1, rf_wf_put hr.1 _ _, ?_⟩
            refine rf_assemble (upd := fun _ => some { e with val := .int (i + delta) }) hr.2 hn
              (fun k' => .inl ?_) (fun k' => rf_get_put _ _ _ _) (fun _ _ _ => rf_VRel_refl _ _)
            exact hA.2 k'
          · rw [if_neg hin] at hA ⊢
            exact ⟨hA.1, hr.1, hsame hA.2⟩
        | null => rw [hval] at hA; exact ⟨hA.1, hr.1, hsame hA.2⟩
        | real b => rw [hval] at hA; exact ⟨hA.1, hr.1, hsame hA.2⟩
        | text b => rw [hval] at hA; exact ⟨hA.1, hr.1, hsame hA.2⟩
        | blob b => rw [hval] at hA; exact ⟨hA.1, hr.1, hsame hA.2⟩
  · rw [h] at hA
    rw [hd]
    simp only at hA ⊢
    rw [if_pos he]
    exact incr_fresh_refines hr hn hA

/-! ### `touch` -/

theorem touch_refines (c : Cache) (m : Spec.Dict) (clock now : Int) (E : Externals) (k : PyVal)
    (ttl : Option Int)
    (hg : Good c) (hr : Refines c m clock) (hn : clock ≤ now) :
    (c.touch E now k ttl).2 = (Spec.touch m E c.cfg now k ttl).2 ∧
    Refines (c.touch E now k ttl).1 (Spec.touch m E c.cfg now k ttl).1 now := by
  rw [refines_iff] at hr ⊢
  obtain ⟨hO, hV⟩ := rf_touch_view c E now k ttl hg
  have hK := rf_VRel_mono (hr.2 (keyOf E c.cfg k)) hn
  have hspec : (Spec.touch m E c.cfg now k ttl).2 = .bool (rf_has now (m.get (keyOf E c.cfg k))) ∧
      (Spec.touch m E c.cfg now k ttl).1.WF ∧
      ∀ k', (Spec.touch m E c.cfg now k ttl).1.get k' =
        rf_at (keyOf E c.cfg k) (rf_touchU now (ttl.map (now + ·)) (m.get (keyOf E c.cfg k))) m.get k' := by
    unfold Spec.touch rf_has rf_touchU
    cases hd : m.get (keyOf E c.cfg k) with
    | none =>
      refine ⟨rfl, hr.1, fun k' => ?_⟩
      simp only
      rw [← hd, rf_at_self (fun k'' h => rf_get_sameKey h m)]
    | some e =>
      simp only
      cases hl : e.live now with
      | true =>
        simp only [if_true]
        exact ⟨trivial, rf_wf_put hr.1 _ _, fun k' => rf_get_put _ _ _ _⟩
      | false =>
        simp only [Bool.false_eq_true, if_false]
        refine ⟨trivial, hr.1, fun k' => ?_⟩
        rw [← hd, rf_at_self (fun k'' h => rf_get_sameKey h m)]
  refine ⟨?_, hspec.2.1, ?_⟩
  · rw [hO, hspec.1, rf_has_rel hK]
  · exact rf_assemble (upd := rf_touchU now (ttl.map (now + ·))) hr.2 hn (fun k' => .inl (hV k'))
      hspec.2.2 (fun _ _ h => rf_touchU_rel _ h)

/-! ### `delitem`, `delete`, `pop` -/

theorem delitem_refines (c : Cache) (m : Spec.Dict) (clock now : Int) (E : Externals) (k : PyVal)
    (hg : Good c) (hr : Refines c m clock) (hn : clock ≤ now) :
    (c.delitem E now k).2 = (Spec.delitem m E c.cfg now k).2 ∧
    Refines (c.delitem E now k).1 (Spec.delitem m E c.cfg now k).1 now := by
  rw [refines_iff] at hr ⊢
  obtain ⟨hO, hV⟩ := rf_delitem_view c E now k hg
  have hK := rf_VRel_mono (hr.2 (keyOf E c.cfg k)) hn
  have hm : (Spec.delitem m E c.cfg now k).1 =
      if rf_has now (m.get (keyOf E c.cfg k)) then m.del (keyOf E c.cfg k) else m := by
    unfold Spec.delitem; rw [rf_has_dict]; split <;> rfl
  refine ⟨?_, ?_, ?_⟩
  · rw [hO, rf_has_rel hK]
    unfold Spec.delitem; rw [rf_has_dict]; split <;> rfl
  · rw [hm]; exact rf_del_wf hr.1 _ _
  · rw [hm]
    exact rf_assemble (upd := rf_delU now) hr.2 hn (fun k' => .inl (hV k'))
      (fun k' => rf_del_spec m _ now k') (fun _ _ h => rf_delU_rel h)

theorem delete_refines (c : Cache) (m : Spec.Dict) (clock now : Int) (E : Externals) (k : PyVal)
    (hg : Good c) (hr : Refines c m clock) (hn : clock ≤ now) :
    (c.delete E now k).2 = (Spec.delete m E c.cfg now k).2 ∧
    Refines (c.delete E now k).1 (Spec.delete m E c.cfg now k).1 now := by
  rw [refines_iff] at hr ⊢
  obtain ⟨hO, hV⟩ := rf_delete_view c E now k hg
  have hK := rf_VRel_mono (hr.2 (keyOf E c.cfg k)) hn
  have hm : (Spec.delete m E c.cfg now k).1 =
      if rf_has now (m.get (keyOf E c.cfg k)) then m.del (keyOf E c.cfg k) else m := by
    unfold Spec.delete; rw [rf_has_dict]; split <;> rfl
  refine ⟨?_, ?_, ?_⟩
  · rw [hO, rf_has_rel hK]
    unfold Spec.delete; rw [rf_has_dict]; split <;> simp_all
  · rw [hm]; exact rf_del_wf hr.1 _ _
  · rw [hm]
    exact rf_assemble (upd := rf_delU now) hr.2 hn (fun k' => .inl (hV k'))
      (fun k' => rf_del_spec m _ now k') (fun _ _ h => rf_delU_rel h)

theorem pop_refines (c : Cache) (m : Spec.Dict) (clock now : Int) (E : Externals) (k : PyVal)
    (et tg : Bool)
    (hg : Good c) (hr : Refines c m clock) (hn : clock ≤ now) :
    (c.pop E now k et tg).2 = (Spec.pop m E c.cfg now k et tg).2 ∧
    Refines (c.pop E now k et tg).1 (Spec.pop m E c.cfg now k et tg).1 now := by
  rw [refines_iff] at hr ⊢
  obtain ⟨hO, hV⟩ := rf_pop_view c E now k et tg hg
  have hK := rf_VRel_mono (hr.2 (keyOf E c.cfg k)) hn
  have hm : (Spec.pop m E c.cfg now k et tg).1 =
      if rf_has now (m.get (keyOf E c.cfg k)) then m.del (keyOf E c.cfg k) else m := by
    unfold Spec.pop rf_has
    cases m.get (keyOf E c.cfg k) with
    | none => rfl
    | some e => simp only; split <;> simp_all
  refine ⟨?_, ?_, ?_⟩
  · rw [hO]
    unfold Spec.pop
    rcases rf_VRel_cases hK with h | ⟨h, e, hd, -, hl⟩
    · rw [h]; cases m.get (keyOf E c.cfg k) with
      | none => rfl
      | some e => simp only; split <;> rfl
    · rw [h, hd]; simp [hl]
  · rw [hm]; exact rf_del_wf hr.1 _ _
  · rw [hm]
    exact rf_assemble (upd := rf_delU now) hr.2 hn (fun k' => .inl (hV k'))
      (fun k' => rf_del_spec m _ now k') (fun _ _ h => rf_delU_rel h)

/-! ### bulk removal: `clear`, `evict`, `expire`, `cull`

Only the state half: the integer these calls return counts the rows physically present, which
the dictionary does not determine (an expired item may or may not have been removed already).
-- added: `0 < c.cfg.page` — the page size of the `_select_delete` loops (100 in core.py, never
changed by a call).  With page size 0 the loops remove nothing (first page empty), so the
hypothesis is necessary; every cache created by `Cache(...)` satisfies it. -/

/-- the added hypothesis is necessary: with page size 0 `clear` removes nothing, so the statement
without `0 < c.cfg.page` is false (not a finding about the code — core.py pages by the
constant 100, and no call changes it) -/
theorem clear_refines_needs_page :
    ∃ (c : Cache) (m : Spec.Dict), Good c ∧ c.cfg.policy = .none ∧ Refines c m 0 ∧
      ¬ Refines (c.clear).1 (Spec.clear m).1 0 := by
  let c0 : Cache := { cfg := { policy := .none, page := 0 } }
  have hg0 : Good c0 := good_init _ _
  have hr0 : Refines c0 [] 0 := refines_init' _ _ 0
  refine ⟨(c0.set toyV 0 (.str [97]) (.int 1) none false .null).1,
    (Spec.set [] toyV c0.cfg 0 (.str [97]) (.int 1) none false .null).1,
    set_good _ _ _ _ _ _ _ _ hg0, by decide +kernel,
    (set_refines c0 [] 0 0 toyV (.str [97]) (.int 1) none false .null hg0 rfl hr0 (Int.le_refl _)).2, ?_⟩
  intro h
  have h1 := h.2 (.text [97], true)
  have h2 : ((c0.set toyV 0 (.str [97]) (.int 1) none false .null).1.clear).1.selKey (.text [97]) true ≠ none := by
    decide +kernel
  exact h2 h1

theorem clear_refines (c : Cache) (m : Spec.Dict) (clock : Int)
    (hg : Good c)
    (hpg : 0 < c.cfg.page) -- added: page size of the removal loop (counterexample above)
    (_hr : Refines c m clock) :
    Refines (c.clear).1 (Spec.clear m).1 clock := by
  rw [refines_iff]
  have h := (clear_all c hg.tinv.tbl.asc hg.tinv.tbl.pos hpg).1
  refine ⟨rf_wf_nil, fun k => ?_⟩
  rw [rf_view_nil h]
  exact rf_VRel_refl _ _

theorem evict_refines (c : Cache) (m : Spec.Dict) (clock : Int) (tag : SqlVal)
    (hg : Good c)
    (hpg : 0 < c.cfg.page) -- added: page size of the removal loop
    (hr : Refines c m clock) :
    Refines (c.evict tag).1 (Spec.evict m tag).1 clock := by
  rw [refines_iff] at hr ⊢
  have h := (evict_exact c tag hg.tinv.tbl.asc hg.tinv.tbl.pos hpg).1
  exact rf_filter_refines (fun e => !e.tag.eqv tag) hr
    (rf_view_filter hg (evict_good c tag hg) _ _ (fun _ => rfl) h (rf_evict_files c tag))

theorem expire_refines (c : Cache) (m : Spec.Dict) (clock now : Int)
    (hg : Good c)
    (hpg : 0 < c.cfg.page) -- added: page size of the removal loop
    (hr : Refines c m clock) (hn : clock ≤ now) :
    Refines (c.expire now).1 (Spec.expire m now).1 now := by
  rw [refines_iff] at hr ⊢
  have h := (expire_exact c now hg.tinv.tbl.asc hpg).1
  exact rf_filter_refines (fun e => !e.expired now) ⟨hr.1, fun k => rf_VRel_mono (hr.2 k) hn⟩
    (rf_view_filter hg (expire_good c now hg) _ _ (fun _ => rfl) h (rf_expire_files c now))

theorem cull_refines (c : Cache) (m : Spec.Dict) (clock now : Int)
    (hg : Good c) (hp : c.cfg.policy = .none)
    (hpg : 0 < c.cfg.page) -- added: page size of the removal loop
    (hr : Refines c m clock) (hn : clock ≤ now) :
    Refines (c.cull now).1 (Spec.cull m now).1 now := by
  rw [refines_iff] at hr ⊢
  have h := (cull_none c now hg.tinv.tbl.asc hpg hp).1
  exact rf_filter_refines (fun e => !e.expired now) ⟨hr.1, fun k => rf_VRel_mono (hr.2 k) hn⟩
    (rf_view_filter hg (cull_good c now hg) _ _ (fun _ => rfl) h
      (rf_cull_files c now hg.tinv.tbl.asc hpg hp))

/-! ### histories -/

/-- the clock value a call is made with (`clear` and `evict` have none) -/
def opClock : Op → Option Int
  | .set _ now .. | .add _ now .. | .touch _ now .. | .incr _ now .. | .get _ now ..
  | .contains _ now .. | .pop _ now .. | .delitem _ now .. | .delete _ now ..
  | .push _ now .. | .pull _ now .. | .peek _ now .. | .peekitem _ now ..
  | .expire now | .cull now => some now
  | _ => none

/-- `Monotone` as a boolean function -/
def monotoneB : Int → List Op → Bool
  | _, [] => true
  | t, op :: ops =>
    match opClock op with
    | some n => decide (t ≤ n) && monotoneB n ops
    | none => monotoneB t ops

/-- clocks of a history never go backwards: each call's `now` is ≥ the previous clock (calls
without a clock keep it) -/
def Monotone (t : Int) (ops : List Op) : Prop := monotoneB t ops = true

instance (t : Int) (ops : List Op) : Decidable (Monotone t ops) :=
  inferInstanceAs (Decidable (monotoneB t ops = true))

theorem monotone_cons (t : Int) (op : Op) (ops : List Op) :
    Monotone t (op :: ops) ↔
      (∀ n, opClock op = some n → t ≤ n) ∧ Monotone ((opClock op).getD t) ops := by
  unfold Monotone
  rw [monotoneB]
  cases opClock op with
  | none => simp
  | some n => simp

/-- the clock after a history that starts at clock `t` -/
def lastClock (t : Int) (ops : List Op) : Int := ops.foldl (fun t op => (opClock op).getD t) t

theorem monotone_append (t : Int) (ops : List Op) (op : Op) (h : Monotone t (ops ++ [op])) :
    Monotone t ops ∧ ∀ n, opClock op = some n → lastClock t ops ≤ n := by
  induction ops generalizing t with
  | nil =>
    have := (monotone_cons t op []).1 h
    exact ⟨rfl, this.1⟩
  | cons o os ih =>
    have h' := (monotone_cons t o (os ++ [op])).1 h
    obtain ⟨h1, h2⟩ := ih _ h'.2
    exact ⟨(monotone_cons t o os).2 ⟨h'.1, h1⟩, h2⟩

/-- the results of a history; the integer results of the four bulk removals (which count
physically stored rows) are masked by `.none`, as in `Spec.step` -/
def outs (c : Cache) : List Op → List Out
  | [] => []
  | op :: ops => (if Determined op then (c.step op).2 else .none) :: outs (c.step op).1 ops

theorem step_good (c : Cache) (op : Op) (hk : Keyed op = true) (hg : Good c) : Good (c.step op).1 := by
  cases op <;> simp only [Keyed, Bool.false_eq_true] at hk <;> simp only [step]
  · exact set_good _ _ _ _ _ _ _ _ hg
  · exact add_good _ _ _ _ _ _ _ _ hg
  · exact touch_good _ _ _ _ _ hg
  · exact incr_good _ _ _ _ _ _ hg
  · exact get_good _ _ _ _ _ _ _ hg
  · exact ⟨hg.tinv.same rfl rfl rfl rfl, ⟨hg.finv.ref, hg.finv.inj, hg.finv.fresh, hg.finv.nodup⟩,
      hg.noOrphan, hg.depth, hg.snap, hg.pending, hg.created⟩
  · exact pop_good _ _ _ _ _ _ hg
  · exact delitem_good _ _ _ _ hg
  · exact delete_good _ _ _ _ hg
  · exact clear_good _ hg
  · exact evict_good _ _ hg
  · exact expire_good _ _ hg
  · exact cull_good _ _ hg

/-- one call: its result is the dictionary's result, and the states correspond at the call's
clock -/
theorem step_refines (c : Cache) (m : Spec.Dict) (clock : Int) (op : Op)
    (hg : Good c) (hp : c.cfg.policy = .none)
    (hpg : 0 < c.cfg.page) -- added: page size of the bulk-removal loops, see `clear_refines`
    (hr : Refines c m clock) (hk : Keyed op = true)
    (hm : ∀ n, opClock op = some n → clock ≤ n) :
    (if Determined op then (c.step op).2 else .none) = (Spec.step m c.cfg op).2 ∧
    Refines (c.step op).1 (Spec.step m c.cfg op).1 ((opClock op).getD clock) := by
  cases op <;> simp only [Keyed, Bool.false_eq_true] at hk <;>
    simp only [step, Spec.step, Determined, opClock, Option.getD_some, Option.getD_none, if_true,
      Bool.false_eq_true, if_false]
  · exact set_refines c m clock _ _ _ _ _ _ _ hg hp hr (hm _ rfl)
  · exact add_refines c m clock _ _ _ _ _ _ _ hg hp hr (hm _ rfl)
  · exact touch_refines c m clock _ _ _ _ hg hr (hm _ rfl)
  · exact incr_refines c m clock _ _ _ _ _ hg hp hr (hm _ rfl)
  · exact get_refines c m clock _ _ _ _ _ _ hg hp hr (hm _ rfl)
  · exact contains_refines c m clock _ _ _ hg hr (hm _ rfl)
  · exact pop_refines c m clock _ _ _ _ _ hg hr (hm _ rfl)
  · exact delitem_refines c m clock _ _ _ hg hr (hm _ rfl)
  · exact delete_refines c m clock _ _ _ hg hr (hm _ rfl)
  · exact ⟨rfl, clear_refines c m clock hg hpg hr⟩
  · exact ⟨rfl, evict_refines c m clock _ hg hpg hr⟩
  · exact ⟨rfl, expire_refines c m clock _ hg hpg hr (hm _ rfl)⟩
  · exact ⟨rfl, cull_refines c m clock _ hg hp hpg hr (hm _ rfl)⟩

/-- no call of the specification changes the configuration: the eviction policy stays `none`,
the page size stays positive -/
theorem step_cfg (c : Cache) (op : Op) (hk : Keyed op = true) (hp : c.cfg.policy = .none) :
    (c.step op).1.cfg = c.cfg := rf_step_cfg c op hk hp

theorem step_policy (c : Cache) (op : Op) (hk : Keyed op = true) (hp : c.cfg.policy = .none) :
    (c.step op).1.cfg.policy = .none := by rw [step_cfg c op hk hp]; exact hp

theorem run_cons (c : Cache) (op : Op) (ops : List Op) : c.run (op :: ops) = (c.step op).1.run ops := rfl

theorem spec_run_cons (m : Spec.Dict) (cfg : Cfg) (op : Op) (ops : List Op) :
    Spec.run m cfg (op :: ops) = Spec.run (Spec.step m cfg op).1 cfg ops := rfl

/-- the history theorem, with everything the induction carries: the results agree, the final
states correspond at the clock of the last call, the final state is quiescent and has
the configuration of the initial one -/
theorem run_refines_strong (c : Cache) (m : Spec.Dict) (clock : Int) (ops : List Op)
    (hg : Good c) (hp : c.cfg.policy = .none) (hpg : 0 < c.cfg.page)
    (hr : Refines c m clock) (hk : ∀ op ∈ ops, Keyed op = true) (hm : Monotone clock ops) :
    outs c ops = Spec.outs m c.cfg ops ∧
    Refines (c.run ops) (Spec.run m c.cfg ops) (lastClock clock ops) ∧
      Good (c.run ops) ∧ (c.run ops).cfg = c.cfg := by
  induction ops generalizing c m clock with
  | nil => exact ⟨rfl, hr, hg, rfl⟩
  | cons op ops ih =>
    have hkop := hk op (List.mem_cons_self)
    have hcfg := rf_step_cfg c op hkop hp
    obtain ⟨hm1, hm'⟩ := (monotone_cons clock op ops).1 hm
    have hstep := step_refines c m clock op hg hp hpg hr hkop hm1
    obtain ⟨h1, h3, h4, h5⟩ := ih (c.step op).1 (Spec.step m c.cfg op).1
      ((opClock op).getD clock) (step_good c op hkop hg) (by rw [hcfg]; exact hp)
      (by rw [hcfg]; exact hpg) hstep.2 (fun o ho => hk o (List.mem_cons_of_mem _ ho)) hm'
    rw [hcfg] at h1 h3 h5
    refine ⟨?_, ?_, h4, h5⟩
    · show _ :: _ = _ :: _
      rw [hstep.1, h1]
    · rw [run_cons, spec_run_cons]; exact h3

/-- **the history theorem**: on a cache without size limit, every call of a history of
key-addressed calls with a non-decreasing clock returns what the reference dictionary returns,
and the final states correspond.
(`outs`/`Spec.outs` mask the integer results of clear/evict/expire/cull by `.none` on both
sides: they count physically stored rows, which the dictionary does not determine.) -/
theorem run_refines (c : Cache) (m : Spec.Dict) (clock : Int) (ops : List Op)
    (hg : Good c) (hp : c.cfg.policy = .none)
    (hpg : 0 < c.cfg.page) -- added: page size of the bulk-removal loops, see `clear_refines`
    (hr : Refines c m clock) (hk : ∀ op ∈ ops, Keyed op = true) (hm : Monotone clock ops) :
    outs c ops = Spec.outs m c.cfg ops ∧
    ∃ clock', Refines (c.run ops) (Spec.run m c.cfg ops) clock' := by
  obtain ⟨h1, h2, -⟩ := run_refines_strong c m clock ops hg hp hpg hr hk hm
  exact ⟨h1, _, h2⟩

/-! ### the empty cache, the user-level corollary, non-vacuity -/

/-- **what a user sees**: after any history of key-addressed calls with a non-decreasing clock
on a fresh cache without size limit, `get` returns exactly what `get` on the dictionary built
by that history returns — the stored value (with expiry time / tag if asked for) if the key
was set and neither removed nor expired at `now`, the default otherwise. -/
theorem get_after_history (cf : Cfg) (st : Bool) (ops : List Op) (E : Externals) (now : Int)
    (k : PyVal) (read et tg : Bool)
    (hp : cf.policy = .none) (hpg : 0 < cf.page)
    (hk : ∀ op ∈ ops, Keyed op = true)
    (hm : Monotone 0 (ops ++ [.get E now k read et tg])) :
    ((({ cfg := cf, statistics := st } : Cache).run ops).get E now k read et tg).2 =
      (Spec.get (Spec.run [] cf ops) E cf now k read et tg).2 := by
  obtain ⟨hm1, hm2⟩ := monotone_append 0 ops _ hm
  obtain ⟨-, h2, h3, h4⟩ := run_refines_strong ({ cfg := cf, statistics := st } : Cache) [] 0 ops
    (good_init cf st) hp hpg (refines_init' cf st 0) hk hm1
  have := (get_refines _ _ _ now E k read et tg h3 (by rw [h4]; exact hp) h2 (hm2 now rfl)).1
  rw [h4] at this
  exact this

/-- non-vacuity: a concrete history on a fresh cache without size limit.  `a` is set with a
ttl, incremented, read with its expiry time, re-added after it expired (with a tag), a missing
key is read, expired items are dropped, `a` is popped, everything is cleared. -/
def exCache : Cache := { cfg := { policy := .none } }

def exOps : List Op :=
  [ .set toyV 10 (.str [97]) (.int 7) (some 5) false .null,
    .incr toyV 12 (.str [97]) 1 none,
    .get toyV 14 (.str [97]) false true false,
    .add toyV 14 (.str [97]) (.int 1) none false (.text [116]),
    .add toyV 20 (.str [97]) (.int 1) (some 3) false (.text [116]),
    .get toyV 20 (.str [98]) false false false,
    .touch toyV 21 (.str [97]) none,
    .expire 30,
    .pop toyV 31 (.str [97]) false true,
    .delete toyV 31 (.str [97]),
    .clear ]

example : outs exCache exOps = Spec.outs [] exCache.cfg exOps ∧
    ∃ clock', Refines (exCache.run exOps) (Spec.run [] exCache.cfg exOps) clock' :=
  run_refines exCache [] 0 exOps (good_init _ _) rfl (by decide) (refines_init' _ _ 0)
    (by decide) (by decide +kernel)

/-- what the cache (and the dictionary) returns along that history -/
example : outs exCache exOps =
    [.bool true, .int 8, .tup [.val (.int 8), .time (some 15)], .bool false, .bool true, .default,
     .bool true, .none, .tup [.val (.int 1), .sql (.text [116])], .bool false, .none] :=
  (run_refines exCache [] 0 exOps (good_init _ _) rfl (by decide) (refines_init' _ _ 0)
    (by decide) (by decide +kernel)).1.trans (by rfl)

/-- what the dictionary returns along that history -/
example : Spec.outs [] exCache.cfg exOps =
    [.bool true, .int 8, .tup [.val (.int 8), .time (some 15)], .bool false, .bool true, .default,
     .bool true, .none, .tup [.val (.int 1), .sql (.text [116])], .bool false, .none] := by
  rfl

end DC.Cache
