/-
C11 — Deque is a persistent collections.deque (sequential part).

A Deque is a Cache with eviction policy 'none' whose rows are exactly the items
of the integer-keyed queue (prefix None), never expire, and have room on both
sides.  Its abstraction is `items d` = the queue rows in key order.  append /
appendleft add at an end and trim the other end to maxlen inside one
transaction; pop / popleft / peek take or look at an end; positional access
walks the keys in order.  Concurrency: every method is one transaction (C05/C06),
exactly-once delivery is C10.
-/
import DC.Proofs.DequeLemmas

namespace DC.Deque
open DC.Cache

structure Ok (d : Deque) : Prop where
  inv : Cache.TableInv d.cache
  pol : d.cache.cfg.policy = .none
  noexp : ∀ r ∈ d.cache.rows, r.expT = none
  allq : ∀ r ∈ d.cache.rows, r ∈ d.cache.queueRows none
  qok : Cache.QueueOk d.cache none
  room : Cache.Room d.cache none
  origin : Cache.OriginOk d.cache
  depth : d.cache.depth = 0
  stats : d.cache.statistics = false

/-- the items front to back -/
def items (d : Deque) : List Row := d.cache.queueRows none

theorem Ok.allq' {d : Deque} (h : Ok d) : ∀ r ∈ d.cache.rows, r ∈ qrows d.cache.rows none := h.allq

theorem Ok.items_length {d : Deque} (h : Ok d) : (items d).length = d.cache.rows.length :=
  qrows_length_all h.allq'

theorem Ok.mem_rows {d : Deque} {r : Row} (hr : r ∈ items d) : r ∈ d.cache.rows :=
  (mem_qrows (rows := d.cache.rows) (p := none)).1 hr |>.1

theorem Ok.unexpired {d : Deque} (h : Ok d) {r : Row} (hr : r ∈ items d) (now : Int) :
    Cache.expired now r = false := by
  unfold Cache.expired; rw [h.noexp r (Ok.mem_rows hr)]

/-- `len(deque)` -/
theorem len_exact (d : Deque) (h : Ok d) : (d.len).2 = .int (items d).length := by
  show Out.int d.cache.count = _
  rw [h.inv.tbl.count, h.items_length]

/-- nothing is ever lost to eviction or expiry -/
theorem never_loses (d : Deque) (now : Int) (h : Ok d) : (d.cache.cullW now).1.rows = d.cache.rows :=
  cullW_quiet d.cache now (Or.inr ⟨h.pol, fun r hr => by unfold Cache.expired; rw [h.noexp r hr]⟩)

/-- `append` with room left (no maxlen, or fewer than maxlen items): the new item goes to the
back, everything else stays -/
theorem append_grows (d : Deque) (E : Externals) (now : Int) (v : PyVal) (h : Ok d)
    (hroom : ∀ m, d.maxlen = some m → (items d).length < m)
    (s1 : Cache) (c : Cache.Cols) (hst : d.cache.tbegin.store E v false = .ok (s1, c)) (hcb : c.bindable = true) :
    ∃ r : Row, items (d.append E now v false).1 = items d ++ [r] ∧
      r.mode = c.mode ∧ r.val = c.val ∧ r.file = c.file := by
  obtain ⟨r, h1, h2, h3, h4, h5, hinv1, -, -⟩ :=
    pushed_spec d E now v false h.inv h.pol h.noexp h.qok h.room h.origin hst hcb
  obtain ⟨k, hk⟩ := pushed_out d E now v false h.inv h.pol h.noexp h.qok h.room h.origin hst hcb
  have hcount : (pushed d E now v false).count = ((items d).length : Int) + 1 := by
    rw [hinv1.tbl.count, h1, h.items_length]; simp
  have htl : d.tooLong (pushed d E now v false) = false := by
    unfold tooLong
    cases hm : d.maxlen with
    | none => rfl
    | some m =>
      have := hroom m hm
      simp only [hcount, gt_iff_lt, decide_eq_false_iff_not]
      omega
  refine ⟨r, ?_, h3, h4, h5⟩
  show (d.append E now v false).1.cache.queueRows none = _
  rw [append_cache d E now v false k hk, htl]
  simp only [Bool.false_eq_true, if_false]
  rw [tend_queueRows, h2]
  rfl

/-- `appendleft` with room left: the new item goes to the front -/
theorem appendleft_grows (d : Deque) (E : Externals) (now : Int) (v : PyVal) (h : Ok d)
    (hroom : ∀ m, d.maxlen = some m → (items d).length < m)
    (s1 : Cache) (c : Cache.Cols) (hst : d.cache.tbegin.store E v false = .ok (s1, c)) (hcb : c.bindable = true) :
    ∃ r : Row, items (d.append E now v true).1 = r :: items d ∧
      r.mode = c.mode ∧ r.val = c.val ∧ r.file = c.file := by
  obtain ⟨r, h1, h2, h3, h4, h5, hinv1, -, -⟩ :=
    pushed_spec d E now v true h.inv h.pol h.noexp h.qok h.room h.origin hst hcb
  obtain ⟨k, hk⟩ := pushed_out d E now v true h.inv h.pol h.noexp h.qok h.room h.origin hst hcb
  have hcount : (pushed d E now v true).count = ((items d).length : Int) + 1 := by
    rw [hinv1.tbl.count, h1, h.items_length]; simp
  have htl : d.tooLong (pushed d E now v true) = false := by
    unfold tooLong
    cases hm : d.maxlen with
    | none => rfl
    | some m =>
      have := hroom m hm
      simp only [hcount, gt_iff_lt, decide_eq_false_iff_not]
      omega
  refine ⟨r, ?_, h3, h4, h5⟩
  show (d.append E now v true).1.cache.queueRows none = _
  rw [append_cache d E now v true k hk, htl]
  simp only [Bool.false_eq_true, if_false]
  rw [tend_queueRows, h2]
  rfl

/-- `append` on a full deque (maxlen items, maxlen ≥ 1) discards the FRONT item and adds at the
back — the length stays maxlen, exactly like collections.deque -/
theorem append_full (d : Deque) (E : Externals) (now : Int) (v : PyVal) (h : Ok d) (m : Nat)
    (hm : d.maxlen = some m) (hfull : (items d).length = m) (hpos : 0 < m)
    (s1 : Cache) (c : Cache.Cols) (hst : d.cache.tbegin.store E v false = .ok (s1, c)) (hcb : c.bindable = true)
    (hfile : ∀ r ∈ items d, (d.cache.fetchRow E r false).2 ≠ .ioerror) :
    ∃ r : Row, items (d.append E now v false).1 = (items d).tail ++ [r] ∧
      r.mode = c.mode ∧ r.val = c.val ∧ r.file = c.file := by
  obtain ⟨r, h1, h2, h3, h4, h5, hinv1, hcfg, hfiles⟩ :=
    pushed_spec d E now v false h.inv h.pol h.noexp h.qok h.room h.origin hst hcb
  obtain ⟨k, hk⟩ := pushed_out d E now v false h.inv h.pol h.noexp h.qok h.room h.origin hst hcb
  have hcount : (pushed d E now v false).count = ((items d).length : Int) + 1 := by
    rw [hinv1.tbl.count, h1, h.items_length]; simp
  have htl : d.tooLong (pushed d E now v false) = true := by
    unfold tooLong
    rw [hm]
    simp only [hcount, hfull, gt_iff_lt, decide_eq_true_eq]
    omega
  cases hit : items d with
  | nil => rw [hit] at hfull; simp at hfull; omega
  | cons x rest =>
    have hx : x ∈ items d := by rw [hit]; exact List.mem_cons_self
    have hq : (pushed d E now v false).queueRows none = x :: (rest ++ [r]) := by
      rw [h2]
      show items d ++ [r] = _
      rw [hit]; rfl
    have hfx := fetchRow_snd_mono d.cache (pushed d E now v false) E x false hcfg hfiles (hfile x hx)
    obtain ⟨-, hp⟩ := pull_front (pushed d E now v false) E now none hinv1 x (rest ++ [r]) hq
      (h.unexpired hx now) (by rw [hfx]; exact hfile x hx)
    refine ⟨r, ?_, h3, h4, h5⟩
    show (d.append E now v false).1.cache.queueRows none = _
    rw [append_cache d E now v false k hk, htl]
    simp only [if_true, Bool.not_false]
    rw [tend_queueRows, hp]
    rfl

/-- `pop()` removes and returns the back item, `popleft()` the front item; an empty deque
raises IndexError and stays empty -/
theorem pop_end (d : Deque) (E : Externals) (now : Int) (left : Bool) (h : Ok d) :
    (items d = [] → (d.pop E now left).2 = .exc "IndexError" ∧ items (d.pop E now left).1 = []) ∧
    (∀ r, (if left then (items d).head? else (items d).getLast?) = some r →
      (d.cache.fetchRow E r false).2 ≠ .ioerror →
      (d.pop E now left).2 = Cache.fetchedOut (d.cache.fetchRow E r false).2 ∧
      items (d.pop E now left).1 = (if left then (items d).tail else (items d).dropLast)) := by
  have hpop : (d.pop E now left).2 = indexErr (d.cache.pull E now none left false false).2 ∧
      items (d.pop E now left).1 = (d.cache.pull E now none left false false).1.queueRows none :=
    ⟨rfl, rfl⟩
  constructor
  · intro he
    obtain ⟨h1, h2⟩ := pull_empty d.cache E now none left false false he
    refine ⟨by rw [hpop.1, h1]; rfl, ?_⟩
    rw [hpop.2, queueRows_eq, h2]
    exact he
  · intro r hr hf
    have hmem : r ∈ items d := by
      cases left with
      | true => exact List.mem_of_head? hr
      | false => exact List.mem_of_getLast? hr
    obtain ⟨p1, p2⟩ := pull_end d.cache E now none left h.inv r hr (h.unexpired hmem now) hf
    exact ⟨by rw [hpop.1, p1]; rfl, by rw [hpop.2, p2]; rfl⟩

/-- `peek()` / `peekleft()` return the end item without removing it -/
theorem peek_end (d : Deque) (E : Externals) (now : Int) (left : Bool) (h : Ok d) :
    (items d = [] → (d.peek E now left).2 = .exc "IndexError") ∧
    (∀ r, (if left then (items d).head? else (items d).getLast?) = some r →
      (d.cache.fetchRow E r false).2 ≠ .ioerror →
      (d.peek E now left).2 = Cache.fetchedOut (d.cache.fetchRow E r false).2 ∧
      (d.peek E now left).1.cache.rows = d.cache.rows) := by
  have hpk : (d.peek E now left).2 = indexErr (d.cache.peek E now none left false false).2 ∧
      (d.peek E now left).1.cache = (d.cache.peek E now none left false false).1 := ⟨rfl, rfl⟩
  constructor
  · intro he
    rw [hpk.1, (peek_empty d.cache E now none left false false he).1]
    rfl
  · intro r hr hf
    have hmem : r ∈ items d := by
      cases left with
      | true => exact List.mem_of_head? hr
      | false => exact List.mem_of_getLast? hr
    have hlive := h.unexpired hmem now
    obtain ⟨q1, q2⟩ := peek_is_next_pull d.cache E now none left h.inv r hr hlive hf
    obtain ⟨p1, -⟩ := pull_end d.cache E now none left h.inv r hr hlive hf
    exact ⟨by rw [hpk.1, q1, p1]; rfl, by rw [hpk.2, q2]⟩

/-- positional access: index i (negative from the back) addresses `items[i]`, out of range is
IndexError — over the whole integer range -/
theorem rowAt_spec (d : Deque) (i : Int) (h : Ok d) :
    let n : Int := (items d).length
    (0 ≤ i ∧ i < n → d.rowAt i = (items d)[i.toNat]?) ∧
    (-n ≤ i ∧ i < 0 → d.rowAt i = (items d)[(n + i).toNat]?) ∧
    (i ≥ n ∨ i < -n → d.rowAt i = none) := by
  intro n
  have hL : sortedRows d.cache = items d :=
    isort_keyRaw_eq_qrows h.inv.tbl.uniq h.inv.tbl.nonnull h.allq'
  have hc : d.cache.count = ((items d).length : Int) := by rw [h.inv.tbl.count, h.items_length]
  exact rowAt_eq d (items d) hL hc i

set_option linter.unusedVariables false in  -- `hE` is not needed
/-- `deque[i]` returns the value of `items[i]`.

The statement without `hdisk`,
  `theorem getitem_spec (d) (E) (now) (i) (h : Ok d) (hE : ∀ k, E.loads (E.dumpsK k) = k) : …`,
is false: `getitem` looks the row up again through `Disk.get` / `Disk.put` of the configured disk,
and `JSONDisk.get` of a raw integer queue key is not that key (the model gives `None`, CPython
raises TypeError in `json.loads(zlib.decompress(500000000000000))`), so the second look-up misses
and `deque[i]` raises IndexError although `items[i]` exists and its value can be fetched —
`exDqJson_getitem` below. -/
theorem getitem_spec (d : Deque) (E : Externals) (now : Int) (i : Int) (h : Ok d) (hE : ∀ k, E.loads (E.dumpsK k) = k)
    -- added: the keys are read back by the pickle `Disk` (false for `JSONDisk`, see `exDqJson_getitem`)
    (hdisk : d.cache.cfg.disk = .pickle) :
    (d.rowAt i = none → (d.getitem E now i).2 = .exc "IndexError") ∧
    (∀ r, d.rowAt i = some r → (d.cache.fetchRow E r false).2 ≠ .ioerror →
      (d.getitem E now i).2 = Cache.fetchedOut (d.cache.fetchRow E r false).2) := by
  refine ⟨getitem_none d E now i, ?_⟩
  intro r hr hf
  have hmem := rowAt_mem d i r hr
  obtain ⟨n, -, hn2, hn3, hn4⟩ := h.qok r (h.allq r hmem)
  have hk : r.key = .int n := hn2.symm
  have hraw := qfilter_raw (mem_qrows.1 (h.allq' r hmem)).2
  have hi : inI64 n = true := by
    unfold inI64
    simp only [Bool.and_eq_true, decide_eq_true_eq]
    omega
  exact getitem_some d E now i r hr _
    (get_int_row d.cache E now r n h.inv hmem hk hraw hi (h.noexp r hmem) h.stats h.pol hdisk hf)

/-- `clear()` empties the deque -/
theorem clear_empties (d : Deque) (h : Ok d) (hp : 0 < d.cache.cfg.page) : items (d.clear).1 = [] := by
  show (d.cache.clear).1.queueRows none = []
  rw [queueRows_eq, (clear_all d.cache h.inv.tbl.asc h.inv.tbl.pos hp).1]
  rfl

/-- non-vacuity: maxlen 2, three appends: the first item is gone, order kept -/
def exE11 : Externals :=
  { dumpsK := fun _ => [], dumpsV := fun _ => [], loads := fun _ => .none, jsonz := fun _ => [], unjsonz := fun _ => .none }

def exDq : Deque := { cache := { cfg := { policy := .none, cullLimit := 10 } }, maxlen := some 2 }

example :
    let d := ((exDq.append exE11 0 (.int 1) false).1.append exE11 0 (.int 2) false).1
    let d3 := (d.append exE11 0 (.int 3) false).1
    (items d).map (·.val) = [.int 1, .int 2] ∧ (items d3).map (·.val) = [.int 2, .int 3] ∧
    (match (d3.pop exE11 0 true).2 with | .val (.int 2) => true | _ => false) = true := by
  decide +kernel

/-! why `getitem_spec` needs `hdisk`: a one-item deque on a JSONDisk cache (the table one `append`
produces), a codec satisfying `hE`; `Ok` holds, `rowAt 0` is the item, its value can be fetched,
yet `deque[0]` raises IndexError -/
def exL : Externals :=
  { dumpsK := fun v => match v with
      | .none => [0] | .int i => [1, i.toNat, (-i).toNat] | .float f => [2, f]
      | .str s => 3 :: s | .bytes b => 4 :: b | .obj o => 5 :: o,
    dumpsV := fun _ => [],
    loads := fun b => match b with
      | [0] => .none | [1, p, n] => .int ((p : Int) - n) | [2, f] => .float f
      | 3 :: s => .str s | 4 :: b => .bytes b | 5 :: o => .obj o | _ => .none,
    jsonz := fun _ => [], unjsonz := fun _ => .none }

theorem exL_lawful : ∀ k, exL.loads (exL.dumpsK k) = k := by
  intro k
  cases k <;> simp [exL]
  omega

def exJsonRow : Row :=
  { rowid := 1, key := .int 500000000000000, raw := true, storeT := 0, expT := none, accT := 0, accN := 0,
    tag := .null, size := 0, mode := 1, file := none, val := .blob [] }

def exDqJson : Deque := { cache := { rows := [exJsonRow], count := 1, cfg := { policy := .none, disk := .json } } }

example : (({ cache := { cfg := { policy := .none, disk := .json } } } : Deque).append exL 0 (.int 1) false).1.cache.rows
    = exDqJson.cache.rows := by decide +kernel

theorem exDqJson_items : exDqJson.cache.queueRows none = [exJsonRow] := by decide +kernel

theorem exDqJson_ok : Ok exDqJson where
  inv := ⟨⟨by simp [RowidsAsc, exDqJson], by decide +kernel, by simp [KeysUnique, exDqJson],
    by decide +kernel, rfl, rfl⟩, by intro p hp; cases hp⟩
  pol := rfl
  noexp := by decide +kernel
  allq := by
    intro r hr
    rw [exDqJson_items]
    exact hr
  qok := by
    intro r hr
    rw [exDqJson_items] at hr
    simp only [List.mem_singleton] at hr
    subst hr
    exact ⟨500000000000000, rfl, rfl, by omega, by omega⟩
  room := by
    intro r hr n hn
    rw [exDqJson_items] at hr
    simp only [List.mem_singleton] at hr
    subst hr
    cases hn
    omega
  origin := by unfold OriginOk; decide +kernel
  depth := rfl
  stats := rfl

theorem exDqJson_getitem : Ok exDqJson ∧ (∀ k, exL.loads (exL.dumpsK k) = k) ∧
    exDqJson.rowAt 0 = some exJsonRow ∧ (exDqJson.cache.fetchRow exL exJsonRow false).2 = .val .none ∧
    (match (exDqJson.getitem exL 0 0).2 with | .exc "IndexError" => true | _ => false) = true :=
  ⟨exDqJson_ok, exL_lawful, by decide +kernel, by decide +kernel, by decide +kernel⟩

end DC.Deque
