/-
C11 — Deque is a persistent collections.deque (sequential part).

A Deque is a Cache with eviction policy 'none' whose rows are exactly the items
of the integer-keyed queue (prefix None), never expire, and have room on both
sides.  Its abstraction is `items d` = the queue rows in key order.  append /
appendleft add at an end and trim the other end to maxlen inside one
transaction; pop / popleft / peek take or look at an end; positional access
walks the keys in order.  Concurrency: every method is one transaction (C05/C06),
exactly-once delivery is C10.
-/
import DC.Proofs.DequeLemmas

namespace DC.Deque

structure Ok (d : Deque) : Prop where
  inv : Cache.TableInv d.cache
  pol : d.cache.cfg.policy = .none
  noexp : ∀ r ∈ d.cache.rows, r.expT = none
  allq : ∀ r ∈ d.cache.rows, r ∈ d.cache.queueRows none
  qok : Cache.QueueOk d.cache none
  room : Cache.Room d.cache none
  origin : Cache.OriginOk d.cache
  depth : d.cache.depth = 0
  stats : d.cache.statistics = false

/-- the items front to back -/
def items (d : Deque) : List Row := d.cache.queueRows none

/-- `len(deque)` -/
theorem len_exact (d : Deque) (h : Ok d) : (d.len).2 = .int (items d).length := by
  sorry

/-- nothing is ever lost to eviction or expiry -/
theorem never_loses (d : Deque) (now : Int) (h : Ok d) : (d.cache.cullW now).1.rows = d.cache.rows := by
  sorry

/-- `append` with room left (no maxlen, or fewer than maxlen items): the new item goes to the
back, everything else stays -/
theorem append_grows (d : Deque) (E : Externals) (now : Int) (v : PyVal) (h : Ok d)
    (hroom : ∀ m, d.maxlen = some m → (items d).length < m)
    (s1 : Cache) (c : Cache.Cols) (hst : d.cache.tbegin.store E v false = .ok (s1, c)) (hcb : c.bindable = true) :
    ∃ r : Row, items (d.append E now v false).1 = items d ++ [r] ∧
      r.mode = c.mode ∧ r.val = c.val ∧ r.file = c.file := by
  sorry

/-- `appendleft` with room left: the new item goes to the front -/
theorem appendleft_grows (d : Deque) (E : Externals) (now : Int) (v : PyVal) (h : Ok d)
    (hroom : ∀ m, d.maxlen = some m → (items d).length < m)
    (s1 : Cache) (c : Cache.Cols) (hst : d.cache.tbegin.store E v false = .ok (s1, c)) (hcb : c.bindable = true) :
    ∃ r : Row, items (d.append E now v true).1 = r :: items d ∧
      r.mode = c.mode ∧ r.val = c.val ∧ r.file = c.file := by
  sorry

/-- `append` on a full deque (maxlen items, maxlen ≥ 1) discards the FRONT item and adds at the
back — the length stays maxlen, exactly like collections.deque -/
theorem append_full (d : Deque) (E : Externals) (now : Int) (v : PyVal) (h : Ok d) (m : Nat)
    (hm : d.maxlen = some m) (hfull : (items d).length = m) (hpos : 0 < m)
    (s1 : Cache) (c : Cache.Cols) (hst : d.cache.tbegin.store E v false = .ok (s1, c)) (hcb : c.bindable = true)
    (hfile : ∀ r ∈ items d, (d.cache.fetchRow E r false).2 ≠ .ioerror) :
    ∃ r : Row, items (d.append E now v false).1 = (items d).tail ++ [r] ∧
      r.mode = c.mode ∧ r.val = c.val ∧ r.file = c.file := by
  sorry

/-- `pop()` removes and returns the back item, `popleft()` the front item; an empty deque
raises IndexError and stays empty -/
theorem pop_end (d : Deque) (E : Externals) (now : Int) (left : Bool) (h : Ok d) :
    (items d = [] → (d.pop E now left).2 = .exc "IndexError" ∧ items (d.pop E now left).1 = []) ∧
    (∀ r, (if left then (items d).head? else (items d).getLast?) = some r →
      (d.cache.fetchRow E r false).2 ≠ .ioerror →
      (d.pop E now left).2 = Cache.fetchedOut (d.cache.fetchRow E r false).2 ∧
      items (d.pop E now left).1 = (if left then (items d).tail else (items d).dropLast)) := by
  sorry

/-- `peek()` / `peekleft()` return the end item without removing it -/
theorem peek_end (d : Deque) (E : Externals) (now : Int) (left : Bool) (h : Ok d) :
    (items d = [] → (d.peek E now left).2 = .exc "IndexError") ∧
    (∀ r, (if left then (items d).head? else (items d).getLast?) = some r →
      (d.cache.fetchRow E r false).2 ≠ .ioerror →
      (d.peek E now left).2 = Cache.fetchedOut (d.cache.fetchRow E r false).2 ∧
      (d.peek E now left).1.cache.rows = d.cache.rows) := by
  sorry

/-- positional access: index i (negative from the back) addresses `items[i]`, out of range is
IndexError — over the whole integer range -/
theorem rowAt_spec (d : Deque) (i : Int) (h : Ok d) :
    let n : Int := (items d).length
    (0 ≤ i ∧ i < n → d.rowAt i = (items d)[i.toNat]?) ∧
    (-n ≤ i ∧ i < 0 → d.rowAt i = (items d)[(n + i).toNat]?) ∧
    (i ≥ n ∨ i < -n → d.rowAt i = none) := by
  sorry

/-- `deque[i]` returns the value of `items[i]` -/
theorem getitem_spec (d : Deque) (E : Externals) (now : Int) (i : Int) (h : Ok d) (hE : ∀ k, E.loads (E.dumpsK k) = k) :
    (d.rowAt i = none → (d.getitem E now i).2 = .exc "IndexError") ∧
    (∀ r, d.rowAt i = some r → (d.cache.fetchRow E r false).2 ≠ .ioerror →
      (d.getitem E now i).2 = Cache.fetchedOut (d.cache.fetchRow E r false).2) := by
  sorry

/-- `clear()` empties the deque -/
theorem clear_empties (d : Deque) (h : Ok d) (hp : 0 < d.cache.cfg.page) : items (d.clear).1 = [] := by
  sorry

/-- non-vacuity: maxlen 2, three appends: the first item is gone, order kept -/
def exE11 : Externals :=
  { dumpsK := fun _ => [], dumpsV := fun _ => [], loads := fun _ => .none, jsonz := fun _ => [], unjsonz := fun _ => .none }

def exDq : Deque := { cache := { cfg := { policy := .none, cullLimit := 10 } }, maxlen := some 2 }

example :
    let d := ((exDq.append exE11 0 (.int 1) false).1.append exE11 0 (.int 2) false).1
    let d3 := (d.append exE11 0 (.int 3) false).1
    (items d).map (·.val) = [.int 1, .int 2] ∧ (items d3).map (·.val) = [.int 2, .int 3] ∧
    (match (d3.pop exE11 0 true).2 with | .val (.int 2) => true | _ => false) = true := by
  decide +kernel

end DC.Deque
