/-
C17 — check(fix=True) repairs any out-of-band damage; plain check() only reports.
All statements are for EVERY combination of damage: any rows/files/directories/counters
whatever (subject only to the shape a file system imposes: `WellShaped`).
-/
import DC.Proofs.CheckLemmas

namespace DC.Check

/-- what a file system guarantees: a file lives in an existing second-level directory, that
directory in an existing first-level one; names are unique; rowids are unique -/
structure WellShaped (s : St) : Prop where
  fileDir : ∀ f ∈ s.files, (f.d1, f.d2) ∈ s.dirs2
  dirDir : ∀ d ∈ s.dirs2, d.1 ∈ s.dirs1
  fileIds : (s.files.map (·.id)).Nodup
  rowIds : (s.rows.map (·.rowid)).Nodup
  dirs1 : s.dirs1.Nodup
  dirs2 : s.dirs2.Nodup

/-- the directory is consistent: what C08 demands -/
structure Clean (s : St) : Prop where
  ref : ∀ r ∈ s.rows, ∀ f, r.file = some f → ∃ ff ∈ s.files, ff.id = f ∧ ff.size = r.size
  known : ∀ ff ∈ s.files, ∃ r ∈ s.rows, r.file = some ff.id
  noEmpty2 : ∀ d ∈ s.dirs2, ∃ ff ∈ s.files, ff.d1 = d.1 ∧ ff.d2 = d.2
  noEmpty1 : ∀ d ∈ s.dirs1, ∃ d2 ∈ s.dirs2, d2.1 = d
  count : s.count = s.rows.length
  size : s.size = sumSizes s.rows

/-- plain `check()` changes nothing, whatever the damage -/
theorem check_nofix_pure (s : St) : (check false s).1 = s := by
  sorry

/-- `check()` is silent exactly on consistent directories: it reports every inconsistency
and nothing else -/
theorem check_silent_iff (s : St) (h : WellShaped s) : (check false s).2 = [] ↔ Clean s := by
  sorry

/-- after `check(fix=True)` a second check reports nothing, whatever the damage
(fix D7: the pinned tree left directories emptied by its own repairs) -/
theorem fix_converges (s : St) (h : WellShaped s) : (check false (check true s).1).2 = [] := by
  sorry

/-- ... so the repaired directory is consistent -/
theorem fix_clean (s : St) (h : WellShaped s) : Clean (check true s).1 := by
  sorry

/-- the repair keeps the file-system shape (so it can be repeated) -/
theorem fix_wellShaped (s : St) (h : WellShaped s) : WellShaped (check true s).1 := by
  sorry

/-- undamaged items are untouched: a row with no file, or whose file exists with the recorded
size, is still there, unchanged, and so is its file -/
theorem fix_preserves_undamaged (s : St) (h : WellShaped s) (r : CRow) (hr : r ∈ s.rows)
    (hu : ∀ f, r.file = some f → ∃ ff ∈ s.files, ff.id = f ∧ ff.size = r.size) :
    r ∈ (check true s).1.rows ∧
    (∀ f, r.file = some f → ∀ ff ∈ s.files, ff.id = f → ff ∈ (check true s).1.files) := by
  sorry

/-- `check()` and `check(fix=True)` report the same row/file inconsistencies; fix mode may
additionally report directories emptied by its own repairs, and counter warnings agree in kind -/
theorem check_same_warnings (s : St) (h : WellShaped s) :
    (∀ w ∈ (check false s).2, (∀ a b, w ≠ .count a b ∧ w ≠ .size a b) → w ∈ (check true s).2) ∧
    (∀ w ∈ (check true s).2, (∀ a b, w ≠ .count a b ∧ w ≠ .size a b) →
        (∀ a b, w ≠ .emptyDir2 a b) → (∀ a, w ≠ .emptyDir1 a) → w ∈ (check false s).2) ∧
    ((∃ a b, Warn.count a b ∈ (check false s).2) ↔ (∃ a b, Warn.count a b ∈ (check true s).2)) ∧
    ((∃ a b, Warn.size a b ∈ (check false s).2) ↔ (∃ a b, Warn.size a b ∈ (check true s).2)) := by
  sorry

/-- non-vacuity: a directory with every kind of damage at once; the repair converges -/
def exDamaged : St :=
  { rows := [⟨1, 5, some 0⟩, ⟨2, 7, some 1⟩, ⟨3, 0, none⟩, ⟨4, 9, some 3⟩], count := 7, size := 1,
    files := [⟨0, 1, 1, 5⟩, ⟨2, 1, 1, 9⟩, ⟨3, 2, 1, 4⟩, ⟨5, 3, 1, 0⟩],
    dirs1 := [1, 2, 3, 4, 6], dirs2 := [(1, 1), (2, 1), (3, 1), (4, 2), (4, 3)] }

example : (check false exDamaged).2 =
    [.notFound 2, .wrongSize 4 4 9, .unknown 2, .unknown 5, .emptyDir2 4 2, .emptyDir2 4 3, .emptyDir1 6,
     .count 7 4, .size 1 21] ∧
    (check false (check true exDamaged).1).2 = [] := by
  decide +kernel

end DC.Check
