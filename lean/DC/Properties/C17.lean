/-
C17 — check(fix=True) repairs any out-of-band damage; plain check() only reports.
All statements are for EVERY combination of damage: any rows/files/directories/counters
whatever (subject only to the shape a file system imposes: `WellShaped`).
-/
import DC.Proofs.CheckLemmas

namespace DC.Check

/-- what a file system guarantees: a file of the value tree lives in an existing second-level
directory, that directory in an existing first-level one; names are unique; rowids are unique.
(Nothing is asked of the files lying directly in the cache directory or directly in a first-level
directory, nor of the `cache.db` mark: no theorem needs it.) -/
structure WellShaped (s : St) : Prop where
  fileDir : ∀ f ∈ s.files, f.level = .leaf → (f.d1, f.d2) ∈ s.dirs2
  dirDir : ∀ d ∈ s.dirs2, d.1 ∈ s.dirs1
  fileIds : (s.files.map (·.id)).Nodup
  rowIds : (s.rows.map (·.rowid)).Nodup
  dirs1 : s.dirs1.Nodup
  dirs2 : s.dirs2.Nodup

/-- the directory is consistent: what C08 demands.  `known` covers the files at every level
(value tree, first-level directory, cache directory) except those whose path contains the text
`cache.db`, which `check` passes over (see `C17_Top.dbnamed_never_reported`); a first-level
directory may also be kept non-empty by a file lying directly in it.  On a directory whose files
are all in the value tree and unmarked this is the earlier definition word for word
(`C17_Top.clean_tree_iff`). -/
structure Clean (s : St) : Prop where
  ref : ∀ r ∈ s.rows, ∀ f, r.file = some f → ∃ ff ∈ s.files, ff.id = f ∧ ff.size = r.size
  known : ∀ ff ∈ s.files, ff.db = false → ∃ r ∈ s.rows, r.file = some ff.id
  noEmpty2 : ∀ d ∈ s.dirs2, ∃ ff ∈ s.files, ff.level = .leaf ∧ ff.d1 = d.1 ∧ ff.d2 = d.2
  noEmpty1 : ∀ d ∈ s.dirs1, (∃ d2 ∈ s.dirs2, d2.1 = d) ∨ ∃ ff ∈ s.files, ff.level = .first ∧ ff.d1 = d
  count : s.count = s.rows.length
  size : s.size = sumSizes s.rows

/-- plain `check()` changes nothing, whatever the damage -/
theorem check_nofix_pure (s : St) : (check false s).1 = s := by
  rw [check_eq]
  simp only [counterPass_fst_false, dirPass_fst_false, filePass_fst_false, rowPass_nofix]

/-- `check()` is silent exactly on consistent directories: it reports every inconsistency
and nothing else -/
theorem check_silent_iff (s : St) (h : WellShaped s) : (check false s).2 = [] ↔ Clean s := by
  rw [check_false_snd']
  simp only [List.append_eq_nil_iff, rowWarns_nil_iff, filePass_nil_iff, dirPass_false_nil_iff,
    counterWarns_nil_iff]
  constructor
  · rintro ⟨⟨⟨hrow, hfile⟩, hd2, hd1⟩, hc, hz⟩
    refine ⟨?_, hfile, hd2, ?_, hc, hz⟩
    · intro r hr f hf
      obtain ⟨ff, hff, hsz⟩ := hrow r hr f hf
      obtain ⟨hm, hid⟩ := find_id_some hff
      exact ⟨ff, hm, hid, hsz⟩
    · intro d hd
      rcases hd1 d hd with h' | ⟨ff, hff, hl, e⟩
      · exact Or.inl h'
      · cases hlv : ff.level with
        | top => exact absurd hlv hl
        | first => exact Or.inr ⟨ff, hff, hlv, e⟩
        | leaf => exact Or.inl ⟨(ff.d1, ff.d2), h.fileDir ff hff hlv, e⟩
  · intro c
    refine ⟨⟨⟨?_, c.known⟩, c.noEmpty2, fun d hd => ?_⟩, c.count, c.size⟩
    rotate_left
    · rcases c.noEmpty1 d hd with h' | ⟨ff, hff, hl, e⟩
      · exact Or.inl h'
      · exact Or.inr ⟨ff, hff, by simp [hl], e⟩
    intro r hr f hf
    obtain ⟨ff, hm, hid, hsz⟩ := c.ref r hr f hf
    have := find_id_of_mem h.fileIds hm
    rw [hid] at this
    exact ⟨ff, this, hsz⟩

theorem fix_clean_aux (s : St) (h : WellShaped s) : Clean (check true s).1 := by
  have nd := h.rowIds
  constructor
  · -- ref
    rw [check_true_rows s nd, check_true_files s nd]
    intro r' hr' f hf
    obtain ⟨r, hr, e⟩ := mem_rows'.1 hr'
    obtain ⟨_, hfile, hsz⟩ := fixRow_some e
    rw [hfile] at hf
    obtain ⟨ff, hff, hs⟩ := hsz f hf
    obtain ⟨hm, hid⟩ := find_id_some hff
    exact ⟨ff, mem_files'.2 ⟨hm, Or.inl ⟨r, hr, by rw [hid]; exact hf⟩⟩, hid, hs.symm⟩
  · -- known
    rw [check_true_rows s nd, check_true_files s nd]
    intro ff hff hdb
    obtain ⟨hm, ⟨r, hr, hf⟩ | hdb'⟩ := mem_files'.1 hff
    · obtain ⟨ff', hff'⟩ := find_id_isSome_of_mem hm
      exact ⟨{ r with size := ff'.size }, mem_rows'.2 ⟨r, hr, fixRow_found hf hff'⟩, hf⟩
    · rw [hdb] at hdb'; cases hdb'
  · -- noEmpty2
    rw [check_true_dirs2 s nd, check_true_files s nd]
    intro d hd
    exact (mem_dirs2'.1 hd).2
  · -- noEmpty1
    rw [check_true_dirs1 s nd, check_true_dirs2 s nd, check_true_files s nd]
    intro d hd
    obtain ⟨_, ⟨d2, hd2, e⟩ | ⟨ff, hff, hl, e⟩⟩ := mem_dirs1'.1 hd
    · exact Or.inl ⟨d2, hd2, e⟩
    · cases hlv : ff.level with
      | top => exact absurd hlv hl
      | first => exact Or.inr ⟨ff, hff, hlv, e⟩
      | leaf =>
        exact Or.inl ⟨(ff.d1, ff.d2),
          mem_dirs2'.2 ⟨h.fileDir ff (mem_files'.1 hff).1 hlv, ff, hff, hlv, rfl, rfl⟩, e⟩
  · rw [check_true_rows s nd, check_true_count s nd]
  · rw [check_true_rows s nd, check_true_size s nd]

theorem fix_wellShaped_aux (s : St) (h : WellShaped s) : WellShaped (check true s).1 := by
  have nd := h.rowIds
  constructor
  · rw [check_true_dirs2 s nd, check_true_files s nd]
    intro ff hff hlv
    exact mem_dirs2'.2 ⟨h.fileDir ff (mem_files'.1 hff).1 hlv, ff, hff, hlv, rfl, rfl⟩
  · rw [check_true_dirs1 s nd, check_true_dirs2 s nd]
    intro d hd
    exact mem_dirs1'.2 ⟨h.dirDir d (mem_dirs2'.1 hd).1, Or.inl ⟨d, hd, rfl⟩⟩
  · rw [check_true_files s nd]
    exact h.fileIds.sublist ((List.filter_sublist).map _)
  · rw [check_true_rows s nd]
    exact h.rowIds.sublist (map_rowid_filterMap_sublist _ _)
  · rw [check_true_dirs1 s nd]
    exact h.dirs1.sublist List.filter_sublist
  · rw [check_true_dirs2 s nd]
    exact h.dirs2.sublist List.filter_sublist

/-- after `check(fix=True)` a second check reports nothing, whatever the damage
(fix D7: the pinned tree left directories emptied by its own repairs) -/
theorem fix_converges (s : St) (h : WellShaped s) : (check false (check true s).1).2 = [] :=
  (check_silent_iff _ (fix_wellShaped_aux s h)).2 (fix_clean_aux s h)

/-- ... so the repaired directory is consistent -/
theorem fix_clean (s : St) (h : WellShaped s) : Clean (check true s).1 := fix_clean_aux s h

/-- the repair keeps the file-system shape (so it can be repeated) -/
theorem fix_wellShaped (s : St) (h : WellShaped s) : WellShaped (check true s).1 := fix_wellShaped_aux s h

/-- undamaged items are untouched: a row with no file, or whose file exists with the recorded
size, is still there, unchanged, and so is its file -/
theorem fix_preserves_undamaged (s : St) (h : WellShaped s) (r : CRow) (hr : r ∈ s.rows)
    (hu : ∀ f, r.file = some f → ∃ ff ∈ s.files, ff.id = f ∧ ff.size = r.size) :
    r ∈ (check true s).1.rows ∧
    (∀ f, r.file = some f → ∀ ff ∈ s.files, ff.id = f → ff ∈ (check true s).1.files) := by
  rw [check_true_rows s h.rowIds, check_true_files s h.rowIds]
  constructor
  · refine mem_rows'.2 ⟨r, hr, ?_⟩
    cases hf : r.file with
    | none => exact fixRow_none hf
    | some f =>
      obtain ⟨ff, hm, hid, hsz⟩ := hu f hf
      have := find_id_of_mem h.fileIds hm
      rw [hid] at this
      rw [fixRow_found hf this, hsz]
  · intro f hf ff hm hid
    exact mem_files'.2 ⟨hm, Or.inl ⟨r, hr, by rw [hid]; exact hf⟩⟩

/-- `check()` and `check(fix=True)` report the same row/file inconsistencies; fix mode may
additionally report directories emptied by its own repairs, and counter warnings agree in kind -/
theorem check_same_warnings (s : St) (h : WellShaped s) :
    (∀ w ∈ (check false s).2, (∀ a b, w ≠ .count a b ∧ w ≠ .size a b) → w ∈ (check true s).2) ∧
    (∀ w ∈ (check true s).2, (∀ a b, w ≠ .count a b ∧ w ≠ .size a b) →
        (∀ a b, w ≠ .emptyDir2 a b) → (∀ a, w ≠ .emptyDir1 a) → w ∈ (check false s).2) ∧
    ((∃ a b, Warn.count a b ∈ (check false s).2) ↔ (∃ a b, Warn.count a b ∈ (check true s).2)) ∧
    ((∃ a b, Warn.size a b ∈ (check false s).2) ↔ (∃ a b, Warn.size a b ∈ (check true s).2)) := by
  obtain ⟨c, z, hc, hz, e⟩ := check_true_snd s h.rowIds
  rw [e, check_false_snd']
  have k0 := rowWarns_kind s.files s.rows
  have k1 := filePass_kind false (s.rows.filterMap (·.file)) s
  have k2 := dirPass_kind false s
  have k2' := dirPass_kind true { s with files := files' s }
  have k3 := @counterWarns_kind s.count s.size s.rows
  have k3' := @counterWarns_kind c z (rows' s)
  have mono := dirPass_mono s (files' s) (fun f hf => (mem_files'.1 hf).1)
  refine ⟨?_, ?_, ?_, ?_⟩
  · intro w hw hk
    have hk := kind_lt3 hk
    simp only [List.mem_append] at hw ⊢
    rcases hw with ((hw | hw) | hw) | hw
    · exact Or.inl (Or.inl (Or.inl hw))
    · exact Or.inl (Or.inl (Or.inr hw))
    · exact Or.inl (Or.inr (mono w hw))
    · have := k3 w hw; omega
  · intro w hw hk hk2 hk1
    have hk := kind_lt3 hk
    have hk' := kind_ne2 hk2 hk1
    simp only [List.mem_append] at hw ⊢
    rcases hw with ((hw | hw) | hw) | hw
    · exact Or.inl (Or.inl (Or.inl hw))
    · exact Or.inl (Or.inl (Or.inr hw))
    · exact absurd (k2' w hw) hk'
    · have := k3' w hw; omega
  · have l : ∀ (c z : Int) (rows : List CRow) (D : List Warn), (∀ w ∈ D, w.kind = 2) →
        ((∃ a b, Warn.count a b ∈ rowWarns s.files s.rows ++
          (filePass false (s.rows.filterMap (·.file)) s).2 ++ D ++ counterWarns c z rows) ↔
         c ≠ rows.length) := by
      intro c z rows D kD
      rw [← count_mem_counterWarns (z := z)]
      constructor
      · rintro ⟨a, b, hw⟩
        simp only [List.mem_append] at hw
        rcases hw with ((hw | hw) | hw) | hw
        · exact absurd (k0 _ hw) (by simp [Warn.kind])
        · exact absurd (k1 _ hw) (by simp [Warn.kind])
        · exact absurd (kD _ hw) (by simp [Warn.kind])
        · exact ⟨a, b, hw⟩
      · rintro ⟨a, b, hw⟩
        exact ⟨a, b, List.mem_append_right _ hw⟩
    rw [l _ _ _ _ k2, l _ _ _ _ k2']
    exact not_congr hc.symm
  · have l : ∀ (c z : Int) (rows : List CRow) (D : List Warn), (∀ w ∈ D, w.kind = 2) →
        ((∃ a b, Warn.size a b ∈ rowWarns s.files s.rows ++
          (filePass false (s.rows.filterMap (·.file)) s).2 ++ D ++ counterWarns c z rows) ↔
         z ≠ sumSizes rows) := by
      intro c z rows D kD
      rw [← size_mem_counterWarns (c := c)]
      constructor
      · rintro ⟨a, b, hw⟩
        simp only [List.mem_append] at hw
        rcases hw with ((hw | hw) | hw) | hw
        · exact absurd (k0 _ hw) (by simp [Warn.kind])
        · exact absurd (k1 _ hw) (by simp [Warn.kind])
        · exact absurd (kD _ hw) (by simp [Warn.kind])
        · exact ⟨a, b, hw⟩
      · rintro ⟨a, b, hw⟩
        exact ⟨a, b, List.mem_append_right _ hw⟩
    rw [l _ _ _ _ k2, l _ _ _ _ k2']
    exact not_congr hz.symm

/-- non-vacuity: a directory with every kind of damage at once; the repair converges -/
def exDamaged : St :=
  { rows := [⟨1, 5, some 0⟩, ⟨2, 7, some 1⟩, ⟨3, 0, none⟩, ⟨4, 9, some 3⟩], count := 7, size := 1,
    files := [⟨0, 1, 1, 5, .leaf, false⟩, ⟨2, 1, 1, 9, .leaf, false⟩, ⟨3, 2, 1, 4, .leaf, false⟩,
      ⟨5, 3, 1, 0, .leaf, false⟩],
    dirs1 := [1, 2, 3, 4, 6], dirs2 := [(1, 1), (2, 1), (3, 1), (4, 2), (4, 3)] }

example : (check false exDamaged).2 =
    [.notFound 2, .wrongSize 4 4 9, .unknown 2, .unknown 5, .emptyDir2 4 2, .emptyDir2 4 3, .emptyDir1 6,
     .count 7 4, .size 1 21] ∧
    (check false (check true exDamaged).1).2 = [] := by
  decide +kernel

end DC.Check
