/-
C11 (refinement, continued) — the calls that compare values: `count`, `remove`
(Python's `==` on the values: `DC.pyEq`) and the comparisons of a deque with a list
(`DC.cmpSeq`).  All of them walk the deque by key, hence `-- added: d.cache.cfg.disk = .pickle`
as for iteration.
-/
import DC.Properties.C11_RefineIndex
import DC.Properties.C11_Seq

namespace DC.Deque
open DC.Cache DC.Spec DC.DSpec

/-! ### `count` -/

theorem countOf_fst (d : Deque) (E : Externals) (now : Int) (v : PyVal) :
    (d.countOf E now v).1 = (d.iterVals E now false).1 := rfl

theorem countOf_snd (d : Deque) (E : Externals) (now : Int) (v : PyVal) :
    (d.countOf E now v).2 =
      .int ((outVals (Fanout.outList (d.iterVals E now false).2)).filter (pyEq v)).length := rfl

/-- counting among the yielded values is counting the items that hold an equal value -/
theorem count_values (E : Externals) (cfg : Cfg) (v : PyVal) (l : List Spec.Entry) :
    ((outVals (l.map (fun e => valueOf e E cfg))).filter (pyEq v)).length =
      (l.filter (holds E cfg v)).length := by
  induction l with
  | nil => rfl
  | cons e t ih =>
    have hh : holds E cfg v e = (match valueOf e E cfg with | .val x => pyEq v x | _ => false) := rfl
    rw [List.map_cons, List.filter_cons, hh]
    generalize valueOf e E cfg = o
    have hnv : ∀ rest, (∀ x, o ≠ .val x) → outVals (o :: rest) = outVals rest := by
      intro rest h
      cases o <;> first | rfl | exact absurd rfl (h _)
    cases o with
    | val x =>
      show ((x :: outVals _).filter (pyEq v)).length = _
      rw [List.filter_cons]
      simp only
      split
      · simp only [List.length_cons, ih]
      · exact ih
    | _ =>
      rw [hnv _ (fun x h => by cases h)]
      simpa using ih

theorem count_drefines (d : Deque) (m : DList) (n : Nat) (E : Externals) (now : Int) (v : PyVal)
    (hok : OkN d n) (hr : DRefines d m)
    (hdisk : d.cache.cfg.disk = .pickle) -- added: the keys are read back by the pickle `Disk`
    : (d.countOf E now v).2 = (DSpec.count m E d.cache.cfg v).2 ∧
    DRefines (d.countOf E now v).1 (DSpec.count m E d.cache.cfg v).1 := by
  obtain ⟨h1, h2⟩ := iter_drefines d m n E now false hok hr hdisk
  refine ⟨?_, h2⟩
  rw [countOf_snd, h1]
  show Out.int _ = Out.int _
  have := count_values E d.cache.cfg v m.items
  simp only [DSpec.iter, Bool.false_eq_true, if_false, Fanout.outList]
  rw [this]

theorem count_okN (d : Deque) (n : Nat) (E : Externals) (now : Int) (v : PyVal) (hok : OkN d n) :
    OkN (d.countOf E now v).1 n := iter_okN d n E now false hok

theorem count_cfg (d : Deque) (n : Nat) (E : Externals) (now : Int) (v : PyVal) (hok : OkN d n) :
    (d.countOf E now v).1.cache.cfg = d.cache.cfg := by
  rw [countOf_fst, iterVals_eq]
  exact congrArg Core.cfg (iter_fold_core d n E now hok _ d.cache [] hok.good rfl).1

/-! ### `remove` -/

/-- "the row holds a value equal to `v`" is "the item is equal to `v`" -/
theorem rowHolds_eq (d : Deque) (n : Nat) (E : Externals) (now : Int) (v : PyVal) (r : Row) (hok : OkN d n)
    (hdisk : d.cache.cfg.disk = .pickle) (hr : r ∈ d.cache.rows) :
    d.rowHolds E now v r = holds E d.cache.cfg v (entryOfRow d.cache r) := by
  unfold rowHolds holds
  rw [(get_item d n E now r hok hdisk hr).1]
  rfl

theorem remove_drefines (d : Deque) (m : DList) (n : Nat) (E : Externals) (now : Int) (v : PyVal)
    (hok : OkN d n) (hr : DRefines d m)
    (hdisk : d.cache.cfg.disk = .pickle) -- added: the keys are read back by the pickle `Disk`
    : (d.remove E now v).2 = (DSpec.remove m E d.cache.cfg v).2 ∧
    DRefines (d.remove E now v).1 (DSpec.remove m E d.cache.cfg v).1 := by
  have hL : sortedRows d.cache = items d :=
    isort_keyRaw_eq_qrows hok.good.tinv.tbl.uniq hok.good.tinv.tbl.nonnull hok.allq'
  have hfind : (sortedRows d.cache).find? (d.rowHolds E now v) =
      (items d).find? (fun r => holds E d.cache.cfg v (entryOfRow d.cache r)) := by
    rw [hL]
    exact find_congr _ (fun a ha => rowHolds_eq d n E now v a hok hdisk (Ok.mem_rows ha))
  unfold DSpec.remove remove
  rw [hfind, ← hr.1, findIdx_map]
  rcases find_idx (fun r => holds E d.cache.cfg v (entryOfRow d.cache r)) (items d) with
    ⟨h1, h2⟩ | ⟨p, r, h1, h2, h3⟩
  · rw [h1, h2]
    exact ⟨rfl, hr⟩
  · rw [h1, h2]
    obtain ⟨-, -, -, -, -, hent, hitems⟩ := delrow_state d n E now r p hok hdisk h3
    simp only
    refine ⟨trivial, ?_, hr.2⟩
    show (items _).map (entryOfRow _) = ((items d).map (entryOfRow d.cache)).eraseIdx p
    rw [hitems, ← drf_map_eraseIdx]
    apply List.map_congr_left
    intro a ha
    apply hent
    have : a ∈ items { d with cache := (d.cache.delitem E now (keyOfRow E d.cache r)).1 } := by
      rw [hitems]; exact ha
    exact Ok.mem_rows this

theorem remove_okN (d : Deque) (n : Nat) (E : Externals) (now : Int) (v : PyVal)
    (hok : OkN d n) (hdisk : d.cache.cfg.disk = .pickle) : OkN (d.remove E now v).1 n := by
  have hL : sortedRows d.cache = items d :=
    isort_keyRaw_eq_qrows hok.good.tinv.tbl.uniq hok.good.tinv.tbl.nonnull hok.allq'
  unfold remove
  rw [hL]
  rcases find_idx (d.rowHolds E now v) (items d) with ⟨-, h2⟩ | ⟨p, r, -, h2, h3⟩
  · rw [h2]; exact hok
  · rw [h2]
    exact delrow_okN d n E now r p hok hdisk h3

theorem remove_cfg (d : Deque) (n : Nat) (E : Externals) (now : Int) (v : PyVal) (hok : OkN d n) :
    (d.remove E now v).1.cache.cfg = d.cache.cfg := by
  unfold remove
  cases (sortedRows d.cache).find? (d.rowHolds E now v) with
  | none => rfl
  | some r => exact (irf_del_rows d.cache E now (keyOfRow E d.cache r) hok.irf).2

/-! ### comparisons with a list -/

theorem compare_all (d : Deque) (m : DList) (n : Nat) (E : Externals) (now : Int) (op : CmpOp)
    (that : List PyVal) (hok : OkN d n) (hr : DRefines d m) (hdisk : d.cache.cfg.disk = .pickle) :
    (d.compare E now op that).2 = (DSpec.compare m E d.cache.cfg op that).2 ∧
    DRefines (d.compare E now op that).1 (DSpec.compare m E d.cache.cfg op that).1 ∧
    OkN (d.compare E now op that).1 n ∧ (d.compare E now op that).1.cache.cfg = d.cache.cfg := by
  have hcount : d.cache.count.toNat = m.items.length := by
    rw [hok.good.tinv.tbl.count, hr.length, hok.items_length]; rfl
  have hm : (DSpec.compare m E d.cache.cfg op that).1 = m := by
    unfold DSpec.compare; split <;> rfl
  obtain ⟨h1, h2⟩ := iter_drefines d m n E now false hok hr hdisk
  have hvals : outVals (Fanout.outList (d.iterVals E now false).2) = values m E d.cache.cfg := by
    rw [h1]; rfl
  have hcfgI : (d.iterVals E now false).1.cache.cfg = d.cache.cfg := by
    rw [iterVals_eq]
    exact congrArg Core.cfg (iter_fold_core d n E now hok _ d.cache [] hok.good rfl).1
  rw [hm]
  unfold compare DSpec.compare
  rw [hcount]
  by_cases hlen : m.items.length = that.length
  · have hb : (m.items.length != that.length) = false := by simp [hlen]
    simp only [hb, Bool.false_and, Bool.false_eq_true, if_false]
    rw [hvals]
    cases cmpSeq op m.items.length that.length (values m E d.cache.cfg) that with
    | none => exact ⟨rfl, h2, iter_okN d n E now false hok, hcfgI⟩
    | some b => exact ⟨rfl, h2, iter_okN d n E now false hok, hcfgI⟩
  · have hb : (m.items.length != that.length) = true := by simp [hlen]
    obtain ⟨e1, e2⟩ := cmpSeq_len_ne _ _ hlen (values m E d.cache.cfg) that
    simp only [hb, Bool.true_and]
    by_cases hop1 : op = .eq
    · subst hop1
      simp only [beq_self_eq_true, if_true, e1]
      exact ⟨trivial, hr, hok, trivial⟩
    · have hq1 : (op == CmpOp.eq) = false := by simpa using hop1
      simp only [hq1, Bool.false_eq_true, if_false]
      by_cases hop2 : op = .ne
      · subst hop2
        simp only [beq_self_eq_true, if_true, e2]
        exact ⟨trivial, hr, hok, trivial⟩
      · have hq2 : (op == CmpOp.ne) = false := by simpa using hop2
        simp only [hq2, Bool.false_eq_true, if_false]
        rw [hvals]
        cases cmpSeq op m.items.length that.length (values m E d.cache.cfg) that with
        | none => exact ⟨rfl, h2, iter_okN d n E now false hok, hcfgI⟩
        | some b => exact ⟨rfl, h2, iter_okN d n E now false hok, hcfgI⟩

/-- `deque <op> list`: the result Python's sequence comparison gives on the values (a Boolean, or
TypeError for an ordering of values that have no order); nothing changes -/
theorem compare_drefines (d : Deque) (m : DList) (n : Nat) (E : Externals) (now : Int) (op : CmpOp)
    (that : List PyVal) (hok : OkN d n) (hr : DRefines d m)
    (hdisk : d.cache.cfg.disk = .pickle) -- added: the keys are read back by the pickle `Disk`
    : (d.compare E now op that).2 = (DSpec.compare m E d.cache.cfg op that).2 ∧
    DRefines (d.compare E now op that).1 (DSpec.compare m E d.cache.cfg op that).1 :=
  ⟨(compare_all d m n E now op that hok hr hdisk).1, (compare_all d m n E now op that hok hr hdisk).2.1⟩

theorem compare_okN (d : Deque) (n : Nat) (E : Externals) (now : Int) (op : CmpOp) (that : List PyVal)
    (hok : OkN d n) (hdisk : d.cache.cfg.disk = .pickle) : OkN (d.compare E now op that).1 n :=
  (compare_all d { items := (items d).map (entryOfRow d.cache), maxlen := d.maxlen } n E now op that hok ⟨rfl, rfl⟩ hdisk).2.2.1

theorem compare_cfg (d : Deque) (n : Nat) (E : Externals) (now : Int) (op : CmpOp) (that : List PyVal)
    (hok : OkN d n) (hdisk : d.cache.cfg.disk = .pickle) :
    (d.compare E now op that).1.cache.cfg = d.cache.cfg :=
  (compare_all d { items := (items d).map (entryOfRow d.cache), maxlen := d.maxlen } n E now op that hok ⟨rfl, rfl⟩ hdisk).2.2.2

end DC.Deque
