/-
C17, continued — the directory as `os.walk` sees it: files lying directly in the cache directory
or directly in a first-level directory `xx/` are part of the observation (`FsFile.level`), and so is
the outcome of the substring test `DBNAME in full_path` (`FsFile.db`).  The theorems of
`DC.Properties.C17` (`check_silent_iff`, `fix_converges`, `fix_clean`, `fix_wellShaped`, ...) are
stated over this wider observation; here:

* the wider model and the wider `Clean` / `WellShaped` are the earlier ones on the earlier domain;
* stray files outside the value tree are reported once and removed; files whose path contains the
  text `cache.db` never are;
* undamaged items are untouched (row, file, its directories, uniqueness, counters), the repair
  invents nothing, and it is idempotent;
* plain check and check(fix=True) give the same warnings in the same order, fix mode adding only
  empty-directory warnings for directories its own repairs emptied, counter numbers aside.
-/
import DC.Properties.C17
import DC.Proofs.CheckTop
import DC.Proofs.CheckOld

namespace DC.Check

/-! ### nothing moved on the earlier domain -/

/-- `Clean` as it was defined before files outside the value tree were observed (verbatim) -/
structure CleanTree (s : St) : Prop where
  ref : ∀ r ∈ s.rows, ∀ f, r.file = some f → ∃ ff ∈ s.files, ff.id = f ∧ ff.size = r.size
  known : ∀ ff ∈ s.files, ∃ r ∈ s.rows, r.file = some ff.id
  noEmpty2 : ∀ d ∈ s.dirs2, ∃ ff ∈ s.files, ff.d1 = d.1 ∧ ff.d2 = d.2
  noEmpty1 : ∀ d ∈ s.dirs1, ∃ d2 ∈ s.dirs2, d2.1 = d
  count : s.count = s.rows.length
  size : s.size = sumSizes s.rows

/-- `WellShaped` as it was defined before (verbatim) -/
structure WellShapedTree (s : St) : Prop where
  fileDir : ∀ f ∈ s.files, (f.d1, f.d2) ∈ s.dirs2
  dirDir : ∀ d ∈ s.dirs2, d.1 ∈ s.dirs1
  fileIds : (s.files.map (·.id)).Nodup
  rowIds : (s.rows.map (·.rowid)).Nodup
  dirs1 : s.dirs1.Nodup
  dirs2 : s.dirs2.Nodup

/-- on a directory whose files all lie in the value tree and carry no `cache.db` in their path
(`TreeOnly`), the extended model computes what the earlier model (`Tree.check`, kept verbatim in
`DC/Proofs/CheckOld.lean`) computed -/
theorem check_tree_unchanged (fix : Bool) (s : St) (h : TreeOnly s) : check fix s = Tree.check fix s :=
  check_tree fix s h

theorem clean_tree_iff (s : St) (h : TreeOnly s) : Clean s ↔ CleanTree s := by
  constructor
  · intro c
    refine ⟨c.ref, fun ff hff => c.known ff hff (h ff hff).2, ?_, ?_, c.count, c.size⟩
    · intro d hd
      obtain ⟨ff, hff, _, e⟩ := c.noEmpty2 d hd
      exact ⟨ff, hff, e⟩
    · intro d hd
      rcases c.noEmpty1 d hd with h' | ⟨ff, hff, hl, _⟩
      · exact h'
      · rw [(h ff hff).1] at hl; cases hl
  · intro c
    refine ⟨c.ref, fun ff hff _ => c.known ff hff, ?_, fun d hd => Or.inl (c.noEmpty1 d hd), c.count, c.size⟩
    intro d hd
    obtain ⟨ff, hff, e⟩ := c.noEmpty2 d hd
    exact ⟨ff, hff, (h ff hff).1, e⟩

theorem wellShaped_tree_iff (s : St) (h : TreeOnly s) : WellShaped s ↔ WellShapedTree s := by
  constructor
  · intro w
    exact ⟨fun f hf => w.fileDir f hf (h f hf).1, w.dirDir, w.fileIds, w.rowIds, w.dirs1, w.dirs2⟩
  · intro w
    exact ⟨fun f hf _ => w.fileDir f hf, w.dirDir, w.fileIds, w.rowIds, w.dirs1, w.dirs2⟩

/-- the repair keeps a tree-only directory tree-only -/
theorem fix_treeOnly (s : St) (h : WellShaped s) (ht : TreeOnly s) : TreeOnly (check true s).1 := by
  intro f hf
  rw [check_true_files s h.rowIds] at hf
  exact ht f (mem_files'.1 hf).1

/-! ### stray files -/

/-- which files are reported unknown, in either mode: exactly those no row refers to and whose
path does not contain the text `cache.db` — at any level -/
theorem unknown_reported_iff (fix : Bool) (s : St) (h : WellShaped s) (i : Nat) :
    Warn.unknown i ∈ (check fix s).2 ↔
      ∃ f ∈ s.files, f.id = i ∧ f.db = false ∧ ∀ r ∈ s.rows, r.file ≠ some i := by
  obtain ⟨D, C, e, kD, kC⟩ := check_snd_blocks fix s h.rowIds
  rw [e, ← unknown_mem_filePass false s i]
  simp only [List.mem_append]
  constructor
  · rintro (((hw | hw) | hw) | hw)
    · exact absurd (rowWarns_kind _ _ _ hw) (by simp [Warn.kind])
    · exact hw
    · exact absurd (kD _ hw) (by simp [Warn.kind])
    · have := kC _ hw; simp [Warn.kind] at this
  · exact fun hw => Or.inl (Or.inl (Or.inr hw))

/-- an unknown file is reported exactly once, in either mode -/
theorem unknown_reported_once (fix : Bool) (s : St) (h : WellShaped s) (f : FsFile) (hf : f ∈ s.files)
    (hdb : f.db = false) (hn : ∀ r ∈ s.rows, r.file ≠ some f.id) :
    (check fix s).2.count (.unknown f.id) = 1 := by
  obtain ⟨D, C, e, kD, kC⟩ := check_snd_blocks fix s h.rowIds
  have hm : Warn.unknown f.id ∈ (filePass false (s.rows.filterMap (·.file)) s).2 :=
    (unknown_mem_filePass false s f.id).2 ⟨f, hf, rfl, hdb, hn⟩
  have h0 : (rowWarns s.files s.rows).count (.unknown f.id) = 0 :=
    List.count_eq_zero.2 (fun hw => absurd (rowWarns_kind _ _ _ hw) (by simp [Warn.kind]))
  have h2 : D.count (.unknown f.id) = 0 :=
    List.count_eq_zero.2 (fun hw => absurd (kD _ hw) (by simp [Warn.kind]))
  have h3 : C.count (.unknown f.id) = 0 :=
    List.count_eq_zero.2 (fun hw => by have := kC _ hw; simp [Warn.kind] at this)
  have h1 := (unknown_nodup false (s.rows.filterMap (·.file)) s h.fileIds).count (a := Warn.unknown f.id)
  rw [if_pos hm] at h1
  rw [e]
  simp only [List.count_append, h0, h1, h2, h3]

/-- ... and is gone after `check(fix=True)` -/
theorem unknown_removed (s : St) (h : WellShaped s) (f : FsFile) (hf : f ∈ s.files)
    (hdb : f.db = false) (hn : ∀ r ∈ s.rows, r.file ≠ some f.id) :
    ∀ g ∈ (check true s).1.files, g.id ≠ f.id := by
  rw [check_true_files s h.rowIds]
  intro g hg e
  obtain ⟨hm, ⟨r, hr, hrf⟩ | hdb'⟩ := mem_files'.1 hg
  · exact hn r hr (by rw [hrf, e])
  · have := find_id_of_mem h.fileIds hm
    rw [e, find_id_of_mem h.fileIds hf] at this
    cases this
    rw [hdb] at hdb'; cases hdb'

/-- a file lying directly in the cache directory or directly in a first-level directory, to which
no row refers (and whose path does not contain the text `cache.db`), yields exactly one
unknown-file warning, with or without fix; plain check leaves it, check(fix=True) removes it -/
theorem stray_top_reported (s : St) (h : WellShaped s) (f : FsFile) (hf : f ∈ s.files)
    (_hl : f.level = .top ∨ f.level = .first) (hdb : f.db = false)
    (hn : ∀ r ∈ s.rows, r.file ≠ some f.id) :
    (check false s).2.count (.unknown f.id) = 1 ∧ (check true s).2.count (.unknown f.id) = 1 ∧
    f ∈ (check false s).1.files ∧ ∀ g ∈ (check true s).1.files, g.id ≠ f.id :=
  ⟨unknown_reported_once false s h f hf hdb hn, unknown_reported_once true s h f hf hdb hn,
   by rw [check_nofix_pure]; exact hf, unknown_removed s h f hf hdb hn⟩

/-- the substring test `DBNAME in full_path`: a file whose path contains the text `cache.db` is
never reported and never removed, whether or not a row refers to it, at any level (so also a value
file, and every file of a cache whose directory path contains `cache.db`) -/
theorem dbnamed_never_reported (fix : Bool) (s : St) (h : WellShaped s) (f : FsFile) (hf : f ∈ s.files)
    (hdb : f.db = true) :
    Warn.unknown f.id ∉ (check fix s).2 ∧ f ∈ (check true s).1.files := by
  constructor
  · rw [unknown_reported_iff fix s h]
    rintro ⟨g, hg, e, hdb', _⟩
    have := find_id_of_mem h.fileIds hg
    rw [e, find_id_of_mem h.fileIds hf] at this
    cases this
    rw [hdb] at hdb'; cases hdb'
  · rw [check_true_files s h.rowIds]
    exact mem_files'.2 ⟨hf, Or.inr hdb⟩

/-! ### every row inconsistency is reported, in either mode -/

/-- `file not found` is reported for exactly the rows whose file is not on disk (at any level) -/
theorem notFound_reported_iff (fix : Bool) (s : St) (h : WellShaped s) (k : Nat) :
    Warn.notFound k ∈ (check fix s).2 ↔
      ∃ r ∈ s.rows, r.rowid = k ∧ ∃ f, r.file = some f ∧ ∀ ff ∈ s.files, ff.id ≠ f := by
  obtain ⟨D, C, e, kD, kC⟩ := check_snd_blocks fix s h.rowIds
  have key : Warn.notFound k ∈ (check fix s).2 ↔ Warn.notFound k ∈ rowWarns s.files s.rows := by
    rw [e]
    simp only [List.mem_append]
    constructor
    · rintro (((hw | hw) | hw) | hw)
      · exact hw
      · exact absurd (filePass_kind _ _ _ _ hw) (by simp [Warn.kind])
      · exact absurd (kD _ hw) (by simp [Warn.kind])
      · have := kC _ hw; simp [Warn.kind] at this
    · exact fun hw => Or.inl (Or.inl (Or.inl hw))
  rw [key, notFound_mem_rowWarns]
  simp only [List.find?_eq_none, beq_iff_eq]

/-- `wrong file size: real != recorded` is reported for exactly the rows whose file is on disk
with a size other than the recorded one, and with those two numbers -/
theorem wrongSize_reported_iff (fix : Bool) (s : St) (h : WellShaped s) (k a b : Nat) :
    Warn.wrongSize k a b ∈ (check fix s).2 ↔
      ∃ r ∈ s.rows, r.rowid = k ∧ r.size = b ∧ ∃ f, r.file = some f ∧
        ∃ ff ∈ s.files, ff.id = f ∧ ff.size = a ∧ a ≠ b := by
  obtain ⟨D, C, e, kD, kC⟩ := check_snd_blocks fix s h.rowIds
  have key : Warn.wrongSize k a b ∈ (check fix s).2 ↔ Warn.wrongSize k a b ∈ rowWarns s.files s.rows := by
    rw [e]
    simp only [List.mem_append]
    constructor
    · rintro (((hw | hw) | hw) | hw)
      · exact hw
      · exact absurd (filePass_kind _ _ _ _ hw) (by simp [Warn.kind])
      · exact absurd (kD _ hw) (by simp [Warn.kind])
      · have := kC _ hw; simp [Warn.kind] at this
    · exact fun hw => Or.inl (Or.inl (Or.inl hw))
  rw [key, wrongSize_mem_rowWarns]
  constructor
  · rintro ⟨r, hr, h1, h2, f, ff, hf, hff, h3, h4⟩
    obtain ⟨hm, hid⟩ := find_id_some hff
    exact ⟨r, hr, h1, h2, f, hf, ff, hm, hid, h3, h4⟩
  · rintro ⟨r, hr, h1, h2, f, hf, ff, hm, hid, h3, h4⟩
    have := find_id_of_mem h.fileIds hm
    rw [hid] at this
    exact ⟨r, hr, h1, h2, f, ff, hf, this, h3, h4⟩

/-- the rows `check(fix=True)` deletes are exactly those it reports as `file not found` -/
theorem fix_removes_iff_notFound (s : St) (h : WellShaped s) (r : CRow) (hr : r ∈ s.rows) :
    (∀ r' ∈ (check true s).1.rows, r'.rowid ≠ r.rowid) ↔ Warn.notFound r.rowid ∈ (check true s).2 := by
  rw [notFound_reported_iff true s h, check_true_rows s h.rowIds]
  constructor
  · intro hgone
    cases hf : r.file with
    | none => exact absurd rfl (hgone r (mem_rows'.2 ⟨r, hr, fixRow_none hf⟩))
    | some f =>
      cases hff : s.files.find? (·.id == f) with
      | some ff =>
        exact absurd rfl (hgone { r with size := ff.size } (mem_rows'.2 ⟨r, hr, fixRow_found hf hff⟩))
      | none =>
        refine ⟨r, hr, rfl, f, hf, ?_⟩
        simpa using hff
  · rintro ⟨r0, hr0, e, f, hf, hno⟩ r' hr' e'
    obtain ⟨r1, hr1, e1⟩ := mem_rows'.1 hr'
    have h1 := (fixRow_some e1).1
    have : r1 = r0 := eq_of_mem_nodup_map (·.rowid) h.rowIds hr1 hr0 (by rw [← h1, e', e])
    subst this
    obtain ⟨ff, hff, _⟩ := (fixRow_some e1).2.2 f hf
    obtain ⟨hm, hid⟩ := find_id_some hff
    exact hno ff hm hid

/-- plain check reports as empty exactly the second-level directories holding no file, and the
first-level directories holding neither a directory nor a file (a file lying directly in `xx/`
counts) -/
theorem emptyDir_reported_iff (s : St) :
    (∀ a b, Warn.emptyDir2 a b ∈ (check false s).2 ↔
      (a, b) ∈ s.dirs2 ∧ ∀ f ∈ s.files, ¬ (f.level = .leaf ∧ f.d1 = a ∧ f.d2 = b)) ∧
    (∀ a, Warn.emptyDir1 a ∈ (check false s).2 ↔
      a ∈ s.dirs1 ∧ (∀ d ∈ s.dirs2, d.1 ≠ a) ∧ ∀ f ∈ s.files, ¬ (f.level ≠ .top ∧ f.d1 = a)) := by
  have kR := rowWarns_kind s.files s.rows
  have kU := filePass_kind false (s.rows.filterMap (·.file)) s
  have kC := @counterWarns_kind s.count s.size s.rows
  have key : ∀ w : Warn, w.kind = 2 → (w ∈ (check false s).2 ↔ w ∈ (dirPass false s).2) := by
    intro w hk
    rw [check_false_snd']
    simp only [List.mem_append]
    constructor
    · rintro (((hw | hw) | hw) | hw)
      · have := kR _ hw; omega
      · have := kU _ hw; omega
      · exact hw
      · have := kC _ hw; omega
    · exact fun hw => Or.inl (Or.inr hw)
  constructor
  · intro a b
    rw [key _ rfl, dirPass_snd_false]
    simp only [List.mem_append, List.mem_map, List.mem_filter, dir2Empty, FsFile.inDir2, reduceCtorEq, and_false,
      exists_false, or_false, Warn.emptyDir2.injEq]
    constructor
    · rintro ⟨d, ⟨hd, he⟩, rfl, rfl⟩
      refine ⟨hd, ?_⟩
      simpa using he
    · rintro ⟨hd, he⟩
      exact ⟨(a, b), ⟨hd, by simpa using he⟩, rfl, rfl⟩
  · intro a
    rw [key _ rfl, dirPass_snd_false]
    simp only [List.mem_append, List.mem_map, List.mem_filter, FsFile.under, reduceCtorEq, and_false,
      exists_false, false_or, Warn.emptyDir1.injEq, exists_eq_right]
    constructor
    · rintro ⟨hd, he⟩
      refine ⟨hd, ?_⟩
      simpa using he
    · rintro ⟨hd, he⟩
      exact ⟨hd, by simpa using he⟩

/-! ### undamaged items are untouched -/

/-- "undamaged items are untouched", in full: an item whose row, file and recorded size were
consistent before `check(fix=True)` has afterwards the same row (and it is the only row with that
rowid), the same file (same id, place and size, and the only file with that id) in directories that
still exist; and the counters afterwards are the number of rows and the sum of their sizes -/
theorem fix_untouched (s : St) (h : WellShaped s) (r : CRow) (hr : r ∈ s.rows)
    (hu : ∀ f, r.file = some f → ∃ ff ∈ s.files, ff.id = f ∧ ff.size = r.size) :
    r ∈ (check true s).1.rows ∧
    (∀ r' ∈ (check true s).1.rows, r'.rowid = r.rowid → r' = r) ∧
    (∀ f, r.file = some f → ∀ ff ∈ s.files, ff.id = f →
      ff ∈ (check true s).1.files ∧
      (∀ g ∈ (check true s).1.files, g.id = f → g = ff) ∧
      (ff.level = .leaf → (ff.d1, ff.d2) ∈ (check true s).1.dirs2 ∧ ff.d1 ∈ (check true s).1.dirs1) ∧
      (ff.level = .first → ff.d1 ∈ s.dirs1 → ff.d1 ∈ (check true s).1.dirs1)) ∧
    (check true s).1.count = (check true s).1.rows.length ∧
    (check true s).1.size = sumSizes (check true s).1.rows := by
  have hp := fix_preserves_undamaged s h r hr hu
  have hw := fix_wellShaped s h
  have hc := fix_clean s h
  refine ⟨hp.1, ?_, ?_, hc.count, hc.size⟩
  · intro r' hr' e
    exact eq_of_mem_nodup_map (·.rowid) hw.rowIds hr' hp.1 e
  · intro f hf ff hff hid
    have hm := hp.2 f hf ff hff hid
    refine ⟨hm, ?_, ?_, ?_⟩
    · intro g hg e
      exact eq_of_mem_nodup_map (·.id) hw.fileIds hg hm (by rw [e, hid])
    · intro hl
      have := hw.fileDir ff hm hl
      exact ⟨this, hw.dirDir _ this⟩
    · intro hl hd
      rw [check_true_dirs1 s h.rowIds]
      rw [check_true_files s h.rowIds] at hm
      exact mem_dirs1'.2 ⟨hd, Or.inr ⟨ff, hm, by simp [hl], rfl⟩⟩

/-- the repair invents nothing and every remaining item has its file: a row left by
`check(fix=True)` is a row that was there (same rowid, same file; unchanged if it has no file,
otherwise its size is now the real size of its file, which is still there); files and directories
left are files and directories that were there, unchanged -/
theorem fix_no_invention (s : St) (h : WellShaped s) :
    (∀ r' ∈ (check true s).1.rows, ∃ r ∈ s.rows, r'.rowid = r.rowid ∧ r'.file = r.file ∧
      (r.file = none → r' = r) ∧
      ∀ f, r.file = some f → ∃ ff ∈ (check true s).1.files, ff ∈ s.files ∧ ff.id = f ∧ r'.size = ff.size) ∧
    (∀ f ∈ (check true s).1.files, f ∈ s.files) ∧
    (∀ d ∈ (check true s).1.dirs1, d ∈ s.dirs1) ∧ (∀ d ∈ (check true s).1.dirs2, d ∈ s.dirs2) := by
  have nd := h.rowIds
  rw [check_true_rows s nd, check_true_files s nd, check_true_dirs1 s nd, check_true_dirs2 s nd]
  refine ⟨?_, fun f hf => (mem_files'.1 hf).1, fun d hd => (mem_dirs1'.1 hd).1,
    fun d hd => (mem_dirs2'.1 hd).1⟩
  intro r' hr'
  obtain ⟨r, hr, e⟩ := mem_rows'.1 hr'
  obtain ⟨h1, h2, h3⟩ := fixRow_some e
  refine ⟨r, hr, h1, h2, ?_, ?_⟩
  · intro hn
    rw [fixRow_none hn] at e
    cases e; rfl
  · intro f hf
    obtain ⟨ff, hff, hs⟩ := h3 f hf
    obtain ⟨hm, hid⟩ := find_id_some hff
    exact ⟨ff, mem_files'.2 ⟨hm, Or.inl ⟨r, hr, by rw [hid]; exact hf⟩⟩, hm, hid, hs⟩

/-! ### idempotence -/

/-- on a consistent directory `check(fix=True)` does nothing and says nothing -/
theorem fix_on_clean (s : St) (h : WellShaped s) (c : Clean s) : check true s = (s, []) := by
  have nd := h.rowIds
  have er : rows' s = s.rows := by
    apply filterMap_eq_self
    intro r hr
    cases hf : r.file with
    | none => exact fixRow_none hf
    | some f =>
      obtain ⟨ff, hm, hid, hsz⟩ := c.ref r hr f hf
      have := find_id_of_mem h.fileIds hm
      rw [hid] at this
      rw [fixRow_found hf this, hsz]
  have ef : files' s = s.files := by
    apply filter_eq_self'
    intro f hf
    cases hdb : f.db with
    | true => simp
    | false =>
      obtain ⟨r, hr, e⟩ := c.known f hf hdb
      simp only [Bool.or_false, List.contains_eq_mem, List.mem_filterMap, decide_eq_true_eq]
      exact ⟨r, hr, e⟩
  have hsil := (check_silent_iff s h).2 c
  rw [check_false_snd'] at hsil
  simp only [List.append_eq_nil_iff] at hsil
  obtain ⟨⟨⟨hR, hU⟩, hD⟩, hC⟩ := hsil
  have hD' := dirPass_true_of_false_nil s hD
  apply Prod.ext
  · show (check true s).1 = s
    have e2 : dirs2' s = s.dirs2 := by
      apply filter_eq_self'
      intro d hd
      obtain ⟨ff, hff, hl, e1, e2⟩ := c.noEmpty2 d hd
      rw [ef]
      simp only [List.any_eq_true, FsFile.inDir2]
      exact ⟨ff, hff, by simp [hl, e1, e2]⟩
    have e1 : dirs1' s = s.dirs1 := by
      apply filter_eq_self'
      intro d hd
      rw [e2, ef]
      rcases c.noEmpty1 d hd with ⟨d2, hd2, e⟩ | ⟨ff, hff, hl, e⟩
      · simp only [Bool.or_eq_true, List.any_eq_true]
        exact Or.inl ⟨d2, hd2, by simp [e]⟩
      · simp only [Bool.or_eq_true, List.any_eq_true, FsFile.under]
        exact Or.inr ⟨ff, hff, by simp [hl, e]⟩
    rw [check_true_fst' s nd, er, ef, e1, e2, ← c.count, ← c.size]
  · show (check true s).2 = []
    obtain ⟨c', z', hc', hz', e⟩ := check_true_snd_exact s nd
    have es : ({ s with files := files' s } : St) = s := by rw [ef]
    rw [e, hR, hU, es, hD'.1, er] at *
    have : counterWarns c' z' s.rows = [] := by
      rw [counterWarns_nil_iff]
      have := c.count; have := c.size
      constructor <;> omega
    simp [this]

/-- running `check(fix=True)` twice is running it once: the second run changes nothing (and
reports nothing) -/
theorem fix_idempotent (s : St) (h : WellShaped s) :
    check true (check true s).1 = ((check true s).1, []) :=
  fix_on_clean _ (fix_wellShaped s h) (fix_clean s h)

/-! ### the order of the warnings -/

def Warn.isEmptyDir : Warn → Bool
  | .emptyDir2 .. => true
  | .emptyDir1 _ => true
  | _ => false

/-- a warning without the numbers of a counter warning (which move with the repairs made before
the counters are compared) -/
def Warn.shape : Warn → Warn
  | .count _ _ => .count 0 0
  | .size _ _ => .size 0 0
  | w => w

/-- plain check and check(fix=True) give the same warnings IN THE SAME ORDER, counter numbers
aside, except that fix mode may insert further empty-directory warnings (for directories its own
repairs emptied):
* plain check's list is a sublist (order kept) of fix mode's list;
* with the empty-directory warnings left out the two lists are equal;
* the counter warnings differ at most in their numbers, and the discrepancy
  `Settings value - actual value` they show is the same in both modes. -/
theorem check_same_order (s : St) (h : WellShaped s) :
    ((check false s).2.map Warn.shape).Sublist ((check true s).2.map Warn.shape) ∧
    ((check false s).2.filter (!·.isEmptyDir)).map Warn.shape =
      ((check true s).2.filter (!·.isEmptyDir)).map Warn.shape ∧
    (∀ a b, Warn.count a b ∈ (check true s).2 → ∃ a' b', Warn.count a' b' ∈ (check false s).2 ∧ a - b = a' - b') ∧
    (∀ a b, Warn.size a b ∈ (check true s).2 → ∃ a' b', Warn.size a' b' ∈ (check false s).2 ∧ a - b = a' - b') := by
  obtain ⟨c, z, hc, hz, e⟩ := check_true_snd_exact s h.rowIds
  rw [e, check_false_snd']
  have kR := rowWarns_kind s.files s.rows
  have kU := filePass_kind false (s.rows.filterMap (·.file)) s
  have kD := dirPass_kind false s
  have kD' := dirPass_kind true { s with files := files' s }
  have sub := dirPass_sublist s (files' s) (fun f hf => (mem_files'.1 hf).1)
  have eC : (counterWarns s.count s.size s.rows).map Warn.shape = (counterWarns c z (rows' s)).map Warn.shape := by
    unfold counterWarns
    have i1 : c = (rows' s).length ↔ s.count = s.rows.length := by omega
    have i2 : z = sumSizes (rows' s) ↔ s.size = sumSizes s.rows := by omega
    by_cases h1 : s.count = s.rows.length <;> by_cases h2 : s.size = sumSizes s.rows <;>
      simp [h1, h2, i1.2, i2.2, mt i1.1, mt i2.1, Warn.shape]
  have fA : ∀ l : List Warn, (∀ w ∈ l, w.kind ≠ 2) → l.filter (!·.isEmptyDir) = l := by
    intro l hl
    apply filter_eq_self'
    intro w hw
    have := hl w hw
    cases w <;> simp_all [Warn.isEmptyDir, Warn.kind]
  have fD : ∀ l : List Warn, (∀ w ∈ l, w.kind = 2) → l.filter (!·.isEmptyDir) = [] := by
    intro l hl
    apply List.filter_eq_nil_iff.2
    intro w hw
    have := hl w hw
    cases w <;> simp_all [Warn.isEmptyDir, Warn.kind]
  have nC : ∀ c z rows, ∀ w ∈ counterWarns c z rows, w.kind ≠ 2 := by
    intro c z rows w hw; have := counterWarns_kind w hw; omega
  refine ⟨?_, ?_, ?_, ?_⟩
  · simp only [List.map_append, eC]
    exact ((List.Sublist.refl _).append (sub.map _)).append (List.Sublist.refl _)
  · simp only [List.filter_append, List.map_append]
    rw [fA _ (fun w hw => by rw [kR w hw]; decide), fA _ (fun w hw => by rw [kU w hw]; decide),
      fD _ kD, fD _ kD', fA _ (nC _ _ _), fA _ (nC _ _ _), eC]
  · intro a b hw
    simp only [List.mem_append] at hw
    rcases hw with ((hw | hw) | hw) | hw
    · exact absurd (kR _ hw) (by simp [Warn.kind])
    · exact absurd (kU _ hw) (by simp [Warn.kind])
    · exact absurd (kD' _ hw) (by simp [Warn.kind])
    · unfold counterWarns at hw
      rcases List.mem_append.1 hw with hw | hw <;> split at hw <;> simp at hw
      obtain ⟨rfl, rfl⟩ := hw
      refine ⟨s.count, s.rows.length, ?_, hc⟩
      apply List.mem_append_right
      unfold counterWarns
      have : ¬ s.count = s.rows.length := by omega
      simp [this]
  · intro a b hw
    simp only [List.mem_append] at hw
    rcases hw with ((hw | hw) | hw) | hw
    · exact absurd (kR _ hw) (by simp [Warn.kind])
    · exact absurd (kU _ hw) (by simp [Warn.kind])
    · exact absurd (kD' _ hw) (by simp [Warn.kind])
    · unfold counterWarns at hw
      rcases List.mem_append.1 hw with hw | hw <;> split at hw <;> simp at hw
      obtain ⟨rfl, rfl⟩ := hw
      refine ⟨s.size, sumSizes s.rows, ?_, hz⟩
      apply List.mem_append_right
      unfold counterWarns
      have : ¬ s.size = sumSizes s.rows := by omega
      simp [this]

/-! ### concrete directories: non-vacuity and counterexamples -/

/-- every kind of damage at once, with files outside the value tree: the database files
themselves (ids 10-11, path contains `cache.db`), a stray file in the cache directory (12), a value
file kept directly in the cache directory to which row 5 refers, with a wrong size (13), a stray
file directly in `1/` (14), a stray file alone in the otherwise empty `7/` (15), and a file that
row 6 refers to alone in `8/` (16) -/
def exDamagedTop : St :=
  { rows := [⟨1, 5, some 0⟩, ⟨2, 7, some 1⟩, ⟨3, 0, none⟩, ⟨4, 9, some 3⟩, ⟨5, 6, some 13⟩, ⟨6, 2, some 16⟩],
    count := 7, size := 1,
    files := [⟨10, 0, 0, 4096, .top, true⟩, ⟨11, 0, 0, 32768, .top, true⟩, ⟨12, 0, 0, 5, .top, false⟩,
      ⟨13, 0, 0, 3, .top, false⟩, ⟨14, 1, 0, 8, .first, false⟩, ⟨15, 7, 0, 1, .first, false⟩,
      ⟨16, 8, 0, 2, .first, false⟩,
      ⟨0, 1, 1, 5, .leaf, false⟩, ⟨2, 1, 1, 9, .leaf, false⟩, ⟨3, 2, 1, 4, .leaf, false⟩,
      ⟨5, 3, 1, 0, .leaf, false⟩],
    dirs1 := [1, 2, 3, 4, 6, 7, 8], dirs2 := [(1, 1), (2, 1), (3, 1), (4, 2), (4, 3)] }

theorem exDamagedTop_wellShaped : WellShaped exDamagedTop :=
  ⟨by decide, by decide, by decide, by decide, by decide, by decide⟩

example : (check false exDamagedTop).2 =
    [.notFound 2, .wrongSize 4 4 9, .wrongSize 5 3 6, .unknown 12, .unknown 14, .unknown 15, .unknown 2, .unknown 5,
     .emptyDir2 4 2, .emptyDir2 4 3, .emptyDir1 6, .count 7 6, .size 1 29] ∧
    (check true exDamagedTop).2 =
    [.notFound 2, .wrongSize 4 4 9, .wrongSize 5 3 6, .unknown 12, .unknown 14, .unknown 15, .unknown 2, .unknown 5,
     .emptyDir2 3 1, .emptyDir2 4 2, .emptyDir2 4 3, .emptyDir1 3, .emptyDir1 4, .emptyDir1 6, .emptyDir1 7,
     .count 6 5, .size (-14) 14] ∧
    (check true exDamagedTop).1.files.map (·.id) = [10, 11, 13, 16, 0, 3] ∧
    (check true exDamagedTop).1.dirs1 = [1, 2, 8] ∧
    (check false (check true exDamagedTop).1).2 = [] := by
  decide +kernel

/-- the hypotheses of `stray_top_reported` are satisfiable: file 12 (cache directory) and file 14
(directly in `1/`) of `exDamagedTop` -/
example : (check false exDamagedTop).2.count (.unknown 12) = 1 ∧ (check true exDamagedTop).2.count (.unknown 12) = 1 ∧
    (⟨12, 0, 0, 5, .top, false⟩ : FsFile) ∈ (check false exDamagedTop).1.files ∧
    ∀ g ∈ (check true exDamagedTop).1.files, g.id ≠ 12 :=
  stray_top_reported exDamagedTop exDamagedTop_wellShaped ⟨12, 0, 0, 5, .top, false⟩ (by decide) (Or.inl rfl) rfl
    (by decide)

example : (check false exDamagedTop).2.count (.unknown 14) = 1 ∧ (check true exDamagedTop).2.count (.unknown 14) = 1 ∧
    (⟨14, 1, 0, 8, .first, false⟩ : FsFile) ∈ (check false exDamagedTop).1.files ∧
    ∀ g ∈ (check true exDamagedTop).1.files, g.id ≠ 14 :=
  stray_top_reported exDamagedTop exDamagedTop_wellShaped ⟨14, 1, 0, 8, .first, false⟩ (by decide) (Or.inr rfl) rfl
    (by decide)

/-- ... and so is the hypothesis of `fix_untouched`: item 1 of `exDamagedTop` (row, file 0 in `1/1/`) -/
example := fix_untouched exDamagedTop exDamagedTop_wellShaped ⟨1, 5, some 0⟩ (by decide) (by decide)

/-- strict equality of the two lists fails, even with the counter numbers left out: fix mode
reports the directories its own repairs emptied (here `3/1`, `3`, `4`) -/
theorem check_same_order_not_equal :
    (check false exDamaged).2.map Warn.shape ≠ (check true exDamaged).2.map Warn.shape := by
  decide +kernel

/-- `stray_top_reported` needs `f.db = false`: a stray file in the cache directory whose name
contains `cache.db` (here: `cache.db.bak`, say) is not reported and survives the repair -/
def exStrayMarked : St :=
  { rows := [], count := 0, size := 0, files := [⟨0, 0, 0, 77, .top, true⟩], dirs1 := [], dirs2 := [] }

theorem stray_top_needs_unmarked :
    let s := exStrayMarked
    WellShaped s ∧ (check false s).2 = [] ∧ (check true s).2 = [] ∧ (check true s).1 = s := by
  refine ⟨⟨by decide, by decide, by decide, by decide, by decide, by decide⟩, ?_⟩
  decide +kernel

/-- `stray_top_reported` needs "no row refers to it": a file in the cache directory that a row
names is an item's value like any other: silent when the size agrees, kept by the repair -/
def exTopValue : St :=
  { rows := [⟨1, 77, some 0⟩], count := 1, size := 77, files := [⟨0, 0, 0, 77, .top, false⟩],
    dirs1 := [], dirs2 := [] }

theorem stray_top_needs_unreferenced :
    let s := exTopValue
    WellShaped s ∧ (check false s).2 = [] ∧ check true s = (s, []) := by
  refine ⟨⟨by decide, by decide, by decide, by decide, by decide, by decide⟩, ?_⟩
  decide +kernel

/-- what the substring test costs: an orphaned VALUE file whose path contains `cache.db` (all of
them do when the cache directory itself is called, say, `/var/tmp/cache.db.d`) is never reported
and never removed, and its directories are never found empty: the directory is not consistent in
the earlier sense (`CleanTree`), yet check is silent and check(fix=True) leaves it alone -/
def exMarkedValue : St :=
  { rows := [], count := 0, size := 0, files := [⟨0, 1, 1, 9, .leaf, true⟩], dirs1 := [1], dirs2 := [(1, 1)] }

theorem dbnamed_value_file_kept :
    let s := exMarkedValue
    WellShaped s ∧ ¬ CleanTree s ∧ (check false s).2 = [] ∧ check true s = (s, []) := by
  refine ⟨⟨by decide, by decide, by decide, by decide, by decide, by decide⟩, ?_, ?_⟩
  · intro c
    obtain ⟨r, hr, _⟩ := c.known ⟨0, 1, 1, 9, .leaf, true⟩ (by simp [exMarkedValue])
    cases hr
  · decide +kernel

end DC.Check
