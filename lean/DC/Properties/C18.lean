/-
C18 — data and settings persist and are shared by every handle on the directory.

In the model a `Cache` value is "directory + handle": the directory is the table,
the Settings counters and settings, and the value files; the handle adds only
ghost and transaction-local fields (the micro-step trace, the observation list,
the state of an open transaction block).  `handle_independent` says that what a
call returns and what it leaves in the directory depend on the directory alone:
a second handle, a reopened or unpickled object, another thread or process see
and do exactly the same.  The on-disk format is the pair of codecs proved
inverse in C01/C02 (`get_put`, `fetch_store*`) and the routing function proved
pure in C13; the check replays the model on reference directories written by
the pinned version.
-/
import DC.Proofs.DirLemmas

namespace DC.Cache

/-- what persists in the directory -/
structure Dir where
  rows : List Row
  count : Int
  size : Int
  hits : Int
  misses : Int
  statistics : Bool
  files : List (Nat × Content)
  nfile : Nat
  cfg : Cfg

def dirOf (s : Cache) : Dir :=
  { rows := s.rows, count := s.count, size := s.size, hits := s.hits, misses := s.misses,
    statistics := s.statistics, files := s.files, nfile := s.nfile, cfg := s.cfg }

/-- a handle with no transaction block open -/
def Idle (s : Cache) : Prop := s.depth = 0

/-- opening the directory again (close + reopen, unpickling, a second handle, another process):
a fresh handle on the same directory -/
def reopen (s : Cache) : Cache :=
  { rows := s.rows, count := s.count, size := s.size, hits := s.hits, misses := s.misses,
    statistics := s.statistics, files := s.files, nfile := s.nfile, cfg := s.cfg }

/-- reopening never loses or alters items, counters, files or settings -/
theorem reopen_dir (s : Cache) : dirOf (reopen s) = dirOf s ∧ Idle (reopen s) :=
  ⟨rfl, rfl⟩

/-- `Sim` (Proofs/DirLemmas) is: same directory, same observations, both idle -/
private theorem sim_iff (s t : Cache) :
    Sim s t ↔ dirOf s = dirOf t ∧ Idle s ∧ Idle t ∧ s.env = t.env := by
  simp only [dirOf, Dir.mk.injEq, Idle]
  constructor
  · intro h
    exact ⟨⟨h.rows, h.count, h.size, h.hits, h.misses, h.statistics, h.files, h.nfile, h.cfg⟩,
      h.ds, h.dt, h.env⟩
  · rintro ⟨⟨h1, h2, h3, h4, h5, h6, h7, h8, h9⟩, hs, ht, he⟩
    exact ⟨h1, h2, h3, h4, h5, h6, h7, h8, h9, he, hs, ht⟩

/-- `handle_independent`: for every call (outside a block), two handles on the same directory
that receive the same observations return the same result and leave the same directory -/
theorem handle_independent (s t : Cache) (op : Op) (hd : dirOf s = dirOf t) (hs : Idle s) (ht : Idle t)
    (henv : s.env = t.env) (hf : op.flat = true) :
    (s.step op).2 = (t.step op).2 ∧ dirOf (s.step op).1 = dirOf (t.step op).1 ∧
    Idle (s.step op).1 ∧ Idle (t.step op).1 ∧ (s.step op).1.env = (t.step op).1.env := by
  have h := step_sim ((sim_iff s t).2 ⟨hd, hs, ht, henv⟩) op hf
  obtain ⟨h1, h2, h3, h4⟩ := (sim_iff _ _).1 h.1
  exact ⟨h.2, h1, h2, h3, h4⟩

/-- hence for whole histories: interleaving reopen / pickle / second-handle events anywhere in a
history of calls changes neither any result nor the final directory -/
theorem reopen_anywhere (s : Cache) (op : Op) (hs : Idle s) (hf : op.flat = true) :
    ((reopen s |>.step (.observe s.env)).1.step op).2 = (s.step op).2 ∧
    dirOf ((reopen s |>.step (.observe s.env)).1.step op).1 = dirOf (s.step op).1 := by
  have h0 : Sim (reopen s |>.step (.observe s.env)).1 s :=
    (sim_iff _ _).2 ⟨rfl, rfl, hs, rfl⟩
  have h := step_sim h0 op hf
  exact ⟨h.2, ((sim_iff _ _).1 h.1).1⟩

end DC.Cache
