/-
C12 (refinement, continued) — which hypotheses of the refinement theorems are
necessary.  Every theorem here is a concrete counterexample: a state (or a
history) satisfying all hypotheses of a theorem of C12_Refine.lean /
C12_Views.lean but one, on which the conclusion fails.

 * the clauses of the invariant `IOk` (`iok_iff`): table invariant (`count`,
   unique keys), policy 'none', no expiry times, file invariant (fresh file
   names) — `*_needs_count`, `*_needs_unique`, `*_needs_policy`, `*_needs_noexp`,
   `*_needs_fresh`;
 * the page size: `clear_irefines_needs_page`, `irun_refines_needs_page`,
   `iter_after_history_needs_page` (`iter_irefines_needs_page` is in C12_Refine.lean);
 * the key codec: `irun_refines_needs_keys` (`hkeys`), `iter_after_history_needs_codec`,
   `items_after_history_needs_codec`, `iter_after_history_needs_policy`
   (`popitem_irefines_needs_codec`, `items_irefines_needs_codec`, `values_irefines_needs_codec`,
   `eqTo_irefines_needs_codec`, `hist_codec_needs_agreement` are in C12_Refine.lean);
 * `odel_head_needs_wf`, `odel_last_needs_wf`; `odel_set_keys` needs no hypothesis
   (`odel_set_keys'`).
Not shown necessary (see REPORT.md): the quiescence clauses of `IOk` (no open block, nothing
pending), `NoOrphan`, and `disk = pickle`.
-/
import DC.Properties.C12_Views

namespace DC.Index
open DC.Spec DC.Cache

/-! ### the clauses of `IOk` -/

/-- the file part of the invariant -/
def FilesOk (c : Cache) : Prop := FileInv c ∧ NoOrphan c

/-- no open transaction block, nothing pending -/
def Quiescent (c : Cache) : Prop := c.depth = 0 ∧ c.snap = none ∧ c.pending = [] ∧ c.created = []

theorem iok_iff (x : Index) :
    IOk x ↔ TableInv x.cache ∧ x.cache.cfg.policy = .none ∧ (∀ r ∈ x.cache.rows, r.expT = none) ∧
      x.cache.cfg.disk = .pickle ∧ FilesOk x.cache ∧ Quiescent x.cache := by
  constructor
  · intro h
    exact ⟨h.ok.inv, h.ok.pol, h.ok.noexp, h.ok.disk, ⟨h.good.finv, h.good.noOrphan⟩,
      h.good.depth, h.good.snap, h.good.pending, h.good.created⟩
  · rintro ⟨h1, h2, h3, h4, ⟨h5, h6⟩, h7, h8, h9, h10⟩
    exact ⟨⟨h1, h2, h3, h7, h4⟩, ⟨h1, h5, h6, h7, h8, h9, h10⟩⟩

private theorem pw_nofile : ∀ rows : List Row, (∀ r ∈ rows, r.file = none) →
    rows.Pairwise (fun a b => ∀ f, a.file = some f → b.file ≠ some f) := by
  intro rows
  induction rows with
  | nil => intro _; exact List.Pairwise.nil
  | cons a t ih =>
    intro h
    refine List.pairwise_cons.2 ⟨?_, ih (fun r hr => h r (List.mem_cons_of_mem _ hr))⟩
    intro b _ f hf
    rw [h a (List.mem_cons_self ..)] at hf
    cases hf

/-- a state without value files satisfies the file invariant -/
theorem filesOk_nofiles (c : Cache) (h1 : ∀ r ∈ c.rows, r.file = none) (h2 : c.files = []) :
    FilesOk c := by
  refine ⟨⟨?_, pw_nofile _ h1, ?_, ?_⟩, ?_⟩
  · intro r hr f hf
    rw [h1 r hr] at hf
    cases hf
  · intro p hp; rw [h2] at hp; cases hp
  · rw [h2]; exact List.nodup_nil
  · intro p hp; rw [h2] at hp; cases hp

/-- the dictionary a state denotes -/
def absOf (x : Index) : ODict := x.cache.rows.map (fun r => ((r.key, r.raw), entryOfRow x.cache r))

theorem irefines_absOf (x : Index) : IRefines x (absOf x) := rfl

/-- a row under key `'a'` holding a small integer -/
def exRowA (id : Nat) (v : Int) (exp : Option Int) : Row :=
  { rowid := id, key := .text [97], raw := true, storeT := 0, expT := exp, accT := 0,
    accN := 0, tag := .null, size := 0, mode := 1, file := none, val := .int v }

/-! #### no expiry times -/

def exExp : Index := { cache := { rows := [exRowA 1 7 (some 0)], count := 1, cfg := { policy := .none } } }

/-- "no row has an expiry time" is necessary: everything else holds, the row is a binding of the
dictionary, but at time 10 the look-up misses it (the ordered dictionary has no clock) -/
theorem getitem_irefines_needs_noexp :
    ∃ (x : Index) (m : ODict), TableInv x.cache ∧ x.cache.cfg.policy = .none ∧
      x.cache.cfg.disk = .pickle ∧ FilesOk x.cache ∧ Quiescent x.cache ∧ IRefines x m ∧
      (x.getitem exEI 10 (.str [97])).2 ≠ (OSpec.getitem m exEI x.cache.cfg (.str [97])).2 := by
  refine ⟨exExp, absOf exExp, ⟨⟨?_, ?_, ?_, ?_, rfl, rfl⟩, nofun⟩, rfl, rfl,
    filesOk_nofiles _ ?_ rfl, ⟨rfl, rfl, rfl, rfl⟩, rfl, ?_⟩
  · simp [exExp, Cache.RowidsAsc]
  · simp [exExp, exRowA]
  · simp [exExp, Cache.KeysUnique]
  · simp [exExp, exRowA]
  · simp [exExp, exRowA]
  · have h1 : (exExp.getitem exEI 10 (.str [97])).2 = .exc "KeyError" := by rfl
    have h2 : (OSpec.getitem (absOf exExp) exEI exExp.cache.cfg (.str [97])).2 = .val (.int 7) := by rfl
    intro h
    rw [h1, h2] at h
    cases h

/-! #### policy 'none' -/

def exPol : Index := { cache := { cfg := { policy := .lrs, limN := 0 } } }

/-- "eviction policy none" is necessary: an empty cache with the default policy and size limit 0
satisfies everything else; the assignment stores the item and the cull that follows evicts it -/
theorem setitem_irefines_needs_policy :
    ∃ (x : Index) (m : ODict), TableInv x.cache ∧ (∀ r ∈ x.cache.rows, r.expT = none) ∧
      x.cache.cfg.disk = .pickle ∧ FilesOk x.cache ∧ Quiescent x.cache ∧ IRefines x m ∧
      ¬ IRefines (x.setitem exEI 0 (.str [97]) (.int 1)).1
        (OSpec.setitem m exEI x.cache.cfg (.str [97]) (.int 1)).1 := by
  have hn : ∀ r ∈ exPol.cache.rows, r.file = none ∧ r.expT = none := fun r hr => absurd hr List.not_mem_nil
  refine ⟨exPol, [], inv_init { policy := .lrs, limN := 0 } false, fun r hr => (hn r hr).2, rfl,
    filesOk_nofiles _ (fun r hr => (hn r hr).1) rfl, ⟨rfl, rfl, rfl, rfl⟩, rfl, ?_⟩
  show ¬ (List.map _ _ = _)
  decide +kernel

/-! #### the table invariant -/

def exCnt : Index := { cache := { count := 5, cfg := { policy := .none } } }

/-- the row counter of the table invariant is necessary: `len` reads `Settings.count` -/
theorem len_irefines_needs_count :
    ∃ (x : Index) (m : ODict), x.cache.cfg.policy = .none ∧ (∀ r ∈ x.cache.rows, r.expT = none) ∧
      x.cache.cfg.disk = .pickle ∧ FilesOk x.cache ∧ Quiescent x.cache ∧ IRefines x m ∧
      (x.len).2 ≠ (OSpec.len m).2 := by
  have hn : ∀ r ∈ exCnt.cache.rows, r.file = none ∧ r.expT = none := fun r hr => absurd hr List.not_mem_nil
  refine ⟨exCnt, [], rfl, fun r hr => (hn r hr).2, rfl, filesOk_nofiles _ (fun r hr => (hn r hr).1) rfl,
    ⟨rfl, rfl, rfl, rfl⟩, rfl, ?_⟩
  have h1 : (exCnt.len).2 = .int 5 := rfl
  have h2 : (OSpec.len []).2 = .int 0 := rfl
  intro h
  rw [h1, h2] at h
  injection h with h
  cases h

def exDup : Index :=
  { cache := { rows := [exRowA 1 1 none, exRowA 2 2 none], count := 2, cfg := { policy := .none } } }

/-- "at most one row per key" (the UNIQUE index) is necessary: with two rows under one key the
deletion removes the first only, the dictionary has no binding left -/
theorem delitem_irefines_needs_unique :
    ∃ (x : Index) (m : ODict), Cache.RowidsAsc x.cache.rows ∧ x.cache.count = x.cache.rows.length ∧
      x.cache.cfg.policy = .none ∧ (∀ r ∈ x.cache.rows, r.expT = none) ∧
      x.cache.cfg.disk = .pickle ∧ FilesOk x.cache ∧ Quiescent x.cache ∧ IRefines x m ∧
      ¬ IRefines (x.delitem exEI 0 (.str [97])).1 (OSpec.delitem m exEI x.cache.cfg (.str [97])).1 := by
  refine ⟨exDup, absOf exDup, ?_, rfl, rfl, ?_, rfl, filesOk_nofiles _ ?_ rfl, ⟨rfl, rfl, rfl, rfl⟩, rfl, ?_⟩
  · simp [exDup, Cache.RowidsAsc, exRowA]
  · simp [exDup, exRowA]
  · simp [exDup, exRowA]
  · show ¬ (List.map _ _ = _)
    decide +kernel

/-! #### the file invariant -/

def exRowF : Row :=
  { rowid := 1, key := .text [97], raw := true, storeT := 0, expT := none, accT := 0,
    accN := 0, tag := .null, size := 2, mode := 2, file := some 0, val := .null }

/-- `'a'` is bound to a two-byte value kept in file 0, but the file-name counter still stands at 0 -/
def exStale : Index :=
  { cache := { rows := [exRowF], count := 1, size := 2, files := [(0, .bin [1, 2])], nfile := 0,
               cfg := { policy := .none, minFileSize := 1 } } }

/-- "file names in use are below the allocation counter" (`FileInv.fresh`) is necessary: everything
else holds (the only file is the one the only row refers to), but the value file of the next
assignment gets the name of the existing one, and the new item reads the old content -/
theorem setitem_irefines_needs_fresh :
    ∃ (x : Index) (m : ODict), TableInv x.cache ∧ x.cache.cfg.policy = .none ∧
      (∀ r ∈ x.cache.rows, r.expT = none) ∧ x.cache.cfg.disk = .pickle ∧ NoOrphan x.cache ∧
      (∀ r ∈ x.cache.rows, ∀ f, r.file = some f → ∃ c, x.cache.fileGet f = some c ∧ c.size = r.size) ∧
      Quiescent x.cache ∧ IRefines x m ∧
      ¬ IRefines (x.setitem exEI 0 (.str [98]) (.bytes [5, 6, 7])).1
        (OSpec.setitem m exEI x.cache.cfg (.str [98]) (.bytes [5, 6, 7])).1 := by
  refine ⟨exStale, absOf exStale, ⟨⟨?_, ?_, ?_, ?_, rfl, rfl⟩, nofun⟩, rfl, ?_, rfl, ?_, ?_,
    ⟨rfl, rfl, rfl, rfl⟩, rfl, ?_⟩
  · simp [exStale, Cache.RowidsAsc]
  · simp [exStale, exRowF]
  · simp [exStale, Cache.KeysUnique]
  · simp [exStale, exRowF]
  · simp [exStale, exRowF]
  · intro p hp
    simp only [exStale, List.mem_singleton] at hp
    subst hp
    exact ⟨exRowF, List.mem_singleton.2 rfl, rfl⟩
  · intro r hr f hf
    simp only [exStale, List.mem_singleton] at hr
    subst hr
    simp only [exRowF, Option.some.injEq] at hf
    subst hf
    exact ⟨.bin [1, 2], rfl, rfl⟩
  · show ¬ (List.map _ _ = _)
    decide +kernel

/-! ### the page size -/

/-- an Index with page size 0 holding one item -/
def exPage0 : Index := (({ cache := { cfg := { policy := .none, page := 0 } } } : Index).setitem exEI 0
  (.str [97]) (.int 1)).1

def exPage0Dict : ODict :=
  (OSpec.setitem [] exEI ({ policy := .none, page := 0 } : Cfg) (.str [97]) (.int 1)).1

theorem exPage0_ok : IOk exPage0 ∧ IRefines exPage0 exPage0Dict := by
  obtain ⟨hok0, hr0⟩ := irefines_init { policy := .none, page := 0 } false rfl rfl
  have hs := setitem_step _ [] exEI 0 (.str [97]) (.int 1) hok0 hr0
  exact ⟨hs.ok, hs.rel⟩

/-- `hpg` is necessary for `clear`: with page size 0 the removal loop removes nothing -/
theorem clear_irefines_needs_page :
    ∃ (x : Index) (m : ODict), IOk x ∧ IRefines x m ∧ ¬ IRefines (x.clear).1 (OSpec.clear m).1 := by
  refine ⟨exPage0, exPage0Dict, exPage0_ok.1, exPage0_ok.2, ?_⟩
  show ¬ (List.map _ _ = _)
  decide +kernel

/-- `hpg` is necessary in the history theorem (history: one `clear`) -/
theorem irun_refines_needs_page :
    ∃ (x : Index) (m : ODict) (ops : List IOp) (D : PyVal → Bytes),
      IOk x ∧ IRefines x m ∧ HistCodec D ops ∧ KeysRT D m ∧
      ¬ (Index.outs x ops = OSpec.outs m x.cache.cfg ops ∧
         IRefines (Index.run x ops) (OSpec.run m x.cache.cfg ops)) := by
  refine ⟨exPage0, exPage0Dict, [.clear], exEI.dumpsK, exPage0_ok.1, exPage0_ok.2, ?_, ?_, ?_⟩
  · intro op hop E hE
    rw [List.mem_singleton.1 hop] at hE
    cases hE
  · intro E hE K hK
    have hK' : K = keyOf exEI ({ policy := .none, page := 0 } : Cfg) (.str [97]) := by
      have : ODict.keys exPage0Dict = [keyOf exEI ({ policy := .none, page := 0 } : Cfg) (.str [97])] := by
        decide +kernel
      rw [this] at hK
      exact List.mem_singleton.1 hK
    rw [hK']
    exact put_get_put2 exEI.dumpsK exEI E exEI_codec hE (.str [97])
  · rintro ⟨-, h⟩
    revert h
    show ¬ (List.map _ _ = _)
    decide +kernel

/-- `hpg` is necessary in `iter_after_history` -/
theorem iter_after_history_needs_page :
    ∃ (cf : Cfg) (ops : List IOp) (D : PyVal → Bytes),
      cf.policy = .none ∧ cf.disk = .pickle ∧ HistCodec D ops ∧
      ((Index.run { cache := { cfg := cf, statistics := false } } ops).iter exEI true).2 ≠
        .list ((OSpec.run [] cf ops).keys.map (fun K => Cache.keyOut exEI cf.disk K.1 K.2)) := by
  refine ⟨{ policy := .none, page := 0 }, [.setitem exEI 0 (.str [97]) (.int 1)], exEI.dumpsK, rfl, rfl, ?_, ?_⟩
  · intro op hop E hE
    rw [List.mem_singleton.1 hop] at hE
    cases hE
    exact exEI_codec
  · have h1 : ((Index.run { cache := { cfg := { policy := .none, page := 0 }, statistics := false } }
        [.setitem exEI 0 (.str [97]) (.int 1)]).iter exEI true).2 = .list [] := by rfl
    have h2 : Out.list ((OSpec.run [] ({ policy := .none, page := 0 } : Cfg)
        [.setitem exEI 0 (.str [97]) (.int 1)]).keys.map
        (fun K => Cache.keyOut exEI ({ policy := .none, page := 0 } : Cfg).disk K.1 K.2)) =
        .list [.val (.str [97])] := by rfl
    intro h
    rw [h1, h2] at h
    injection h with h
    cases h

/-! ### the key codec, the policy: histories -/

/-- `hkeys` (the keys already stored round-trip) is necessary in the history theorem: the Index of
`popitem_end_needs_codec`, the history `popitem()`, under a lawful codec -/
theorem irun_refines_needs_keys :
    ∃ (x : Index) (m : ODict) (ops : List IOp) (D : PyVal → Bytes),
      IOk x ∧ IRefines x m ∧ 0 < x.cache.cfg.page ∧ HistCodec D ops ∧
      ¬ (Index.outs x ops = OSpec.outs m x.cache.cfg ops ∧
         IRefines (Index.run x ops) (OSpec.run m x.cache.cfg ops)) := by
  refine ⟨exIx, exIxDict, [.popitem exEI 0 true], exEI.dumpsK, exIx_iok, rfl, by decide, ?_, ?_⟩
  · intro op hop E hE
    rw [List.mem_singleton.1 hop] at hE
    cases hE
    exact exEI_codec
  · rintro ⟨-, h⟩
    revert h
    show ¬ (List.map _ _ = _)
    decide +kernel

/-- `hD` (the calls agree on the key codec) is necessary in `iter_after_history`
(`hist_codec_needs_agreement` as the user sees it): after `index[obj] = 1` under one codec and
`popitem()` under another, the key is still listed -/
theorem iter_after_history_needs_codec :
    ∃ (cf : Cfg) (ops : List IOp),
      cf.policy = .none ∧ cf.disk = .pickle ∧ 0 < cf.page ∧
      (∀ op ∈ ops, ∀ E, opE op = some E → ∀ k, E.loads (E.dumpsK k) = k) ∧
      ((Index.run { cache := { cfg := cf, statistics := false } } ops).iter exEI true).2 ≠
        .list ((OSpec.run [] cf ops).keys.map (fun K => Cache.keyOut exEI cf.disk K.1 K.2)) := by
  refine ⟨{ policy := .none }, [.setitem exEI 0 (.obj [7]) (.int 1), .popitem exEI2 0 true],
    rfl, rfl, by decide, ?_, ?_⟩
  · intro op hop E hE
    simp only [List.mem_cons, List.not_mem_nil, or_false] at hop
    rcases hop with rfl | rfl
    · cases hE; exact exEI_codec.2
    · cases hE; exact fun k => exEI_codec.2 k
  · have h1 : ((Index.run { cache := { cfg := { policy := .none }, statistics := false } }
        [.setitem exEI 0 (.obj [7]) (.int 1), .popitem exEI2 0 true]).iter exEI true).2 =
        .list [.val (.obj [7])] := by rfl
    have h2 : Out.list ((OSpec.run [] ({ policy := .none } : Cfg)
        [.setitem exEI 0 (.obj [7]) (.int 1), .popitem exEI2 0 true]).keys.map
        (fun K => Cache.keyOut exEI ({ policy := .none } : Cfg).disk K.1 K.2)) = .list [] := by rfl
    intro h
    rw [h1, h2] at h
    injection h with h
    cases h

/-- `hp` (policy none) is necessary in `iter_after_history`: with the default policy and size
limit 0 the assigned item is evicted at once -/
theorem iter_after_history_needs_policy :
    ∃ (cf : Cfg) (ops : List IOp) (D : PyVal → Bytes),
      cf.disk = .pickle ∧ 0 < cf.page ∧ HistCodec D ops ∧
      ((Index.run { cache := { cfg := cf, statistics := false } } ops).iter exEI true).2 ≠
        .list ((OSpec.run [] cf ops).keys.map (fun K => Cache.keyOut exEI cf.disk K.1 K.2)) := by
  refine ⟨{ policy := .lrs, limN := 0 }, [.setitem exEI 0 (.str [97]) (.int 1)], exEI.dumpsK, rfl,
    by decide, ?_, ?_⟩
  · intro op hop E hE
    rw [List.mem_singleton.1 hop] at hE
    cases hE
    exact exEI_codec
  · have h1 : ((Index.run { cache := { cfg := { policy := .lrs, limN := 0 }, statistics := false } }
        [.setitem exEI 0 (.str [97]) (.int 1)]).iter exEI true).2 = .list [] := by rfl
    have h2 : Out.list ((OSpec.run [] ({ policy := .lrs, limN := 0 } : Cfg)
        [.setitem exEI 0 (.str [97]) (.int 1)]).keys.map
        (fun K => Cache.keyOut exEI ({ policy := .lrs, limN := 0 } : Cfg).disk K.1 K.2)) =
        .list [.val (.str [97])] := by rfl
    intro h
    rw [h1, h2] at h
    injection h with h
    cases h

/-- `hE` (the view is read under the key codec of the history) is necessary in
`items_after_history`: read under another — by itself lawful — codec, the first look-up misses
(KeyError) -/
theorem items_after_history_needs_codec :
    ∃ (cf : Cfg) (ops : List IOp) (D : PyVal → Bytes) (E : Externals),
      cf.policy = .none ∧ cf.disk = .pickle ∧ 0 < cf.page ∧ HistCodec D ops ∧
      (∀ k, E.loads (E.dumpsK k) = k) ∧
      ((Index.run { cache := { cfg := cf, statistics := false } } ops).items E 0).2 ≠
        .list ((OSpec.run [] cf ops).map (fun p =>
          .tup [Cache.keyOut E cf.disk p.1.1 p.1.2, p.2.out E cf false false false])) := by
  refine ⟨{ policy := .none }, [.setitem exEI 0 (.obj [7]) (.int 1)], exEI.dumpsK, exEI2,
    rfl, rfl, by decide, ?_, fun k => exEI_codec.2 k, ?_⟩
  · intro op hop E hE
    rw [List.mem_singleton.1 hop] at hE
    cases hE
    exact exEI_codec
  · have h1 : ((Index.run { cache := { cfg := { policy := .none }, statistics := false } }
        [.setitem exEI 0 (.obj [7]) (.int 1)]).items exEI2 0).2 = .exc "KeyError" := by rfl
    have h2 : Out.list ((OSpec.run [] ({ policy := .none } : Cfg)
        [.setitem exEI 0 (.obj [7]) (.int 1)]).map (fun p =>
          .tup [Cache.keyOut exEI2 ({ policy := .none } : Cfg).disk p.1.1 p.1.2,
            p.2.out exEI2 ({ policy := .none } : Cfg) false false false])) =
        .list [.tup [.val .none, .val (.int 1)]] := by rfl
    intro h
    rw [h1, h2] at h
    cases h

/-! ### the key-list lemmas -/

/-- `odel_set_keys` needs no hypothesis on the key: a key that is not equal to itself (NULL) is
bound nowhere, so that deletion is the identity -/
theorem odel_set_keys' (m : ODict) (k : Key) (e : Entry) :
    ((m.del k).set k e).keys = m.keys.filter (fun q => !sameKey q k) ++ [k] := by
  have h : (m.del k).has k = false := by
    rw [irf_has_eq, irf_get_del]
    cases hk : sameKey k k with
    | true => rfl
    | false =>
      simp only [Bool.false_eq_true, if_false]
      cases hg : m.get k with
      | none => rfl
      | some e' =>
        obtain ⟨q, -, hq⟩ := irf_get_some_mem hg
        rw [rf_sameKey_trans (rf_sameKey_symm hq) hq] at hk
        cases hk
  rw [oset_keys_new _ _ _ h, irf_keys_del]

/-- `WF` (at most one binding per key) is necessary in `odel_head` and `odel_last` -/
theorem odel_head_needs_wf :
    ∃ (m : ODict) (K : Key) (e : Entry), m.head? = some (K, e) ∧ m.del K ≠ m.tail := by
  refine ⟨[((.text [97], true), default), ((.text [97], true), default)], (.text [97], true), default, rfl, ?_⟩
  decide +kernel

theorem odel_last_needs_wf :
    ∃ (m : ODict) (K : Key) (e : Entry), m.getLast? = some (K, e) ∧ m.del K ≠ m.dropLast := by
  refine ⟨[((.text [97], true), default), ((.text [97], true), default)], (.text [97], true), default, rfl, ?_⟩
  decide +kernel

end DC.Index
