/-
C10 — push/pull/peek form FIFO queues per prefix (sequential part).

`queueRows s p` is the abstract queue of prefix `p`: the rows whose key lies in
the key range of `p` (and, for a text prefix, has the queue's key length), in
key order.  The theorems say push appends at the chosen end with a key that
identifies the item, pull removes the chosen end and returns it, peek returns
what pull would without removing, and different prefixes (including prefixes
that extend one another — fix D6) and ordinary keys do not interfere.

`Quiet` is the side condition "the lazy cull of this write removes nothing"
(always true for Deque/Index: policy 'none' and no expiry).
-/
import DC.Proofs.Queue

namespace DC.Cache

/-- the lazy cull of a write at `now` removes nothing: cull_limit is 0, or the policy is
'none' (Deque, Index) and no stored row is expired -/
def Quiet (s : Cache) (now : Int) : Prop :=
  s.cfg.cullLimit = 0 ∨ (s.cfg.policy = .none ∧ ∀ r ∈ s.rows, expired now r = false)

/-- the pushed item itself is not already expired -/
def TtlOk (ttl : Option Int) : Prop := ∀ t, ttl = some t → 0 ≤ t

/-- the first queue number lies inside the queue key range -/
def OriginOk (s : Cache) : Prop := 1 ≤ s.cfg.qorigin ∧ s.cfg.qorigin ≤ 999999999999998

/-- there is room on both sides of the queue -/
def Room (s : Cache) (p : Option Str) : Prop :=
  ∀ r ∈ s.queueRows p, ∀ n, queueNum r.key = some n → 2 ≤ n ∧ n ≤ 999999999999997

/-- the keys of queue `p` are well formed: they decode to a number that re-encodes to the key,
and leave room on both sides -/
def QueueOk (s : Cache) (p : Option Str) : Prop :=
  ∀ r ∈ s.queueRows p, ∃ n : Int, queueNum r.key = some n ∧ queueKey p n = r.key ∧ 1 ≤ n ∧ n ≤ 999999999999998

/-- where `store` puts the value: the columns of the new row -/
def colsOf (c : Cols) (ttl : Option Int) (now : Int) (tag : SqlVal) : Cols :=
  { c with expT := ttl.map (now + ·), tag := tag }

/-- a row stored with a non-negative ttl is not expired at the time of the write -/
theorem colsOf_live (c : Cols) {ttl : Option Int} (now : Int) (tag : SqlVal) (httl : TtlOk ttl) :
    ∀ e, (colsOf c ttl now tag).expT = some e → ¬ e < now := by
  intro e he
  cases ht : ttl with
  | none => rw [ht] at he; cases he
  | some d =>
    have := httl d ht
    rw [ht] at he
    simp only [colsOf, Option.map_some, Option.some.injEq] at he
    omega

set_option linter.unusedVariables false in  -- some hypotheses of the statement are not needed
/-- push to the back appends: the queue grows by exactly one row at its end, carrying the
stored value; the returned key is that row's key -/
theorem push_back (s : Cache) (E : Externals) (now : Int) (v : PyVal) (p : Option Str)
    (ttl : Option Int) (tag : SqlVal) (hinv : TableInv s) (hq : QueueOk s p) (hd : s.depth = 0)
    (s1 : Cache) (c : Cols) (hst : s.store E v false = .ok (s1, c))
    (hb : (colsOf c ttl now tag).bindable = true) (hnc : Quiet s now) (httl : TtlOk ttl)
    (hor : OriginOk s) (hroom : Room s p)
    -- added: the prefix can be bound (no lone surrogate); otherwise push raises UnicodeEncodeError
    (hp : ∀ q, p = some q → (utf8enc q).isSome = true) :
    ∃ r : Row, ((s.push E now v p true ttl false tag).1.queueRows p) = s.queueRows p ++ [r] ∧
      (s.push E now v p true ttl false tag).2 = .val (column r.key) ∧
      r.mode = c.mode ∧ r.val = c.val ∧ r.file = c.file ∧ r.expT = ttl.map (now + ·) ∧ r.tag = tag := by
  obtain ⟨num, hnum, hfit, hrm, hord⟩ := pushNum_spec s p true hinv hq hor
  obtain ⟨hn1, hn2⟩ := hrm hroom
  have hsel := selKey_new_none s p num hn1 hn2 true hord
  have hbk := bindable_queueKey p num hfit hp
  obtain ⟨t, ht1, ht2, hrows, hout⟩ := push_ok s E now v p true ttl tag hst hnum hsel hb hbk
  have hcull := insRow_cullW_quiet ht1 ht2 now (queueKey p num) (colsOf c ttl now tag) hnc
    (colsOf_live c now tag httl)
  have hinv' := insRow_inv (queueKey p num) true now (colsOf c ttl now tag) hinv hsel
    (queueKey_ne_null p num)
  refine ⟨mkRow s.rows (queueKey p num) now (colsOf c ttl now tag), ?_, hout, rfl, rfl, rfl, rfl, rfl⟩
  rw [queueRows_eq, hrows]
  show qrows ((t.insRow (queueKey p num) true now (colsOf c ttl now tag)).cullW now).1.rows p = _
  rw [hcull, queueRows_eq]
  apply qrows_append_back (rows := s.rows) _ hinv'.tbl.uniq hinv'.tbl.nonnull
  · exact qfilter_iff.2 ⟨kfilter_queueKey p num hn1 hn2, rfl⟩
  · intro x hx
    rw [← queueRows_eq] at hx
    have := hord x hx
    simp only [if_true] at this
    exact this

set_option linter.unusedVariables false in  -- some hypotheses of the statement are not needed
/-- push to the front prepends -/
theorem push_front (s : Cache) (E : Externals) (now : Int) (v : PyVal) (p : Option Str)
    (ttl : Option Int) (tag : SqlVal) (hinv : TableInv s) (hq : QueueOk s p) (hd : s.depth = 0)
    (s1 : Cache) (c : Cols) (hst : s.store E v false = .ok (s1, c))
    (hb : (colsOf c ttl now tag).bindable = true) (hnc : Quiet s now) (httl : TtlOk ttl)
    (hor : OriginOk s) (hroom : Room s p)
    -- added: the prefix can be bound (no lone surrogate); otherwise push raises UnicodeEncodeError
    (hp : ∀ q, p = some q → (utf8enc q).isSome = true) :
    ∃ r : Row, ((s.push E now v p false ttl false tag).1.queueRows p) = r :: s.queueRows p ∧
      (s.push E now v p false ttl false tag).2 = .val (column r.key) ∧
      r.mode = c.mode ∧ r.val = c.val ∧ r.file = c.file := by
  obtain ⟨num, hnum, hfit, hrm, hord⟩ := pushNum_spec s p false hinv hq hor
  obtain ⟨hn1, hn2⟩ := hrm hroom
  have hsel := selKey_new_none s p num hn1 hn2 false hord
  have hbk := bindable_queueKey p num hfit hp
  obtain ⟨t, ht1, ht2, hrows, hout⟩ := push_ok s E now v p false ttl tag hst hnum hsel hb hbk
  have hcull := insRow_cullW_quiet ht1 ht2 now (queueKey p num) (colsOf c ttl now tag) hnc
    (colsOf_live c now tag httl)
  have hinv' := insRow_inv (queueKey p num) true now (colsOf c ttl now tag) hinv hsel
    (queueKey_ne_null p num)
  refine ⟨mkRow s.rows (queueKey p num) now (colsOf c ttl now tag), ?_, hout, rfl, rfl, rfl⟩
  rw [queueRows_eq, hrows]
  show qrows ((t.insRow (queueKey p num) true now (colsOf c ttl now tag)).cullW now).1.rows p = _
  rw [hcull, queueRows_eq]
  apply qrows_append_front (rows := s.rows) _ hinv'.tbl.uniq hinv'.tbl.nonnull
  · exact qfilter_iff.2 ⟨kfilter_queueKey p num hn1 hn2, rfl⟩
  · intro x hx
    rw [← queueRows_eq] at hx
    have := hord x hx
    simp only [Bool.false_eq_true, if_false] at this
    exact this

/-- the queue stays well formed under push (so the theorems compose over histories) -/
theorem push_queueOk (s : Cache) (E : Externals) (now : Int) (v : PyVal) (p : Option Str) (back : Bool)
    (ttl : Option Int) (tag : SqlVal) (hinv : TableInv s) (hq : QueueOk s p) (hor : OriginOk s)
    (hroom : Room s p) :
    QueueOk (s.push E now v p back ttl false tag).1 p := by
  intro r hr
  rcases push_cases s E now v p back ttl tag with
    h | ⟨s1, c, num, t, hst, hnum, hsel, ht1, ht2, hrows, -⟩
  · rw [queueRows_eq, h, ← queueRows_eq] at hr; exact hq r hr
  · obtain ⟨num', hnum', hfit, hrm, -⟩ := pushNum_spec s p back hinv hq hor
    rw [hnum] at hnum'; cases hnum'
    obtain ⟨hn1, hn2⟩ := hrm hroom
    rw [queueRows_eq, hrows] at hr
    obtain ⟨hr1, hr2⟩ := mem_qrows.1 hr
    have hasc := insRow_asc t (queueKey p num) true now (colsOf c ttl now tag)
      (by rw [ht1]; exact hinv.tbl.asc)
    rcases insRow_mem _ _ _ _ ((cullW_sublist _ now hasc).subset hr1) with ⟨hk, -⟩ | hmem
    · exact ⟨num, by rw [hk]; exact queueNum_queueKey p num hfit, hk.symm, hn1, hn2⟩
    · rw [ht1] at hmem
      exact hq r (by rw [queueRows_eq]; exact mem_qrows.2 ⟨hmem, hr2⟩)

/-- pull from the front removes and returns the first unexpired item; expired heads are
dropped on the way -/
theorem pull_front (s : Cache) (E : Externals) (now : Int) (p : Option Str) (hinv : TableInv s)
    (r : Row) (rest : List Row) (hq : s.queueRows p = r :: rest) (hlive : expired now r = false)
    (hfile : (s.fetchRow E r false).2 ≠ .ioerror) :
    (s.pull E now p true false false).2 = .tup [.val (column r.key), fetchedOut (s.fetchRow E r false).2] ∧
    (s.pull E now p true false false).1.queueRows p = rest := by
  have hh : qhead s p true = some r := by unfold qhead; rw [hq]; rfl
  have hf := pullDel_fetch s E r
  unfold pull
  rw [pullLoop_succ]
  simp only [hh, hlive, Bool.false_eq_true, if_false]
  rw [hf]
  split
  · contradiction
  · exact ⟨by simp [withFlags], queue_del_head hinv hq (pullTake_rows s E r)⟩

/-- pull from the back removes and returns the last item -/
theorem pull_back (s : Cache) (E : Externals) (now : Int) (p : Option Str) (hinv : TableInv s)
    (r : Row) (front : List Row) (hq : s.queueRows p = front ++ [r]) (hlive : expired now r = false)
    (hfile : (s.fetchRow E r false).2 ≠ .ioerror) :
    (s.pull E now p false false false).2 = .tup [.val (column r.key), fetchedOut (s.fetchRow E r false).2] ∧
    (s.pull E now p false false false).1.queueRows p = front := by
  have hh : qhead s p false = some r := by unfold qhead lastRow?; rw [hq]; simp
  have hf := pullDel_fetch s E r
  unfold pull
  rw [pullLoop_succ]
  simp only [hh, hlive, Bool.false_eq_true, if_false]
  rw [hf]
  split
  · contradiction
  · exact ⟨by simp [withFlags], queue_del_last hinv hq (pullTake_rows s E r)⟩

/-- pull on an empty queue returns the default and changes nothing -/
theorem pull_empty (s : Cache) (E : Externals) (now : Int) (p : Option Str) (front et tg : Bool)
    (hq : s.queueRows p = []) :
    (s.pull E now p front et tg).2 = defaultFlags et tg ∧ (s.pull E now p front et tg).1.rows = s.rows := by
  have hh : qhead s p front = none := by unfold qhead; rw [hq]; cases front <;> rfl
  unfold pull
  rw [pullLoop_succ]
  simp only [hh]
  exact ⟨trivial, (pullSel_spec s).1⟩

set_option linter.unusedVariables false in  -- some hypotheses of the statement are not needed
/-- peek returns what the next pull from that side would return, and removes nothing
when the head is not expired -/
theorem peek_is_next_pull (s : Cache) (E : Externals) (now : Int) (p : Option Str) (front : Bool)
    (hinv : TableInv s) (r : Row)
    (hhead : (if front then (s.queueRows p).head? else (s.queueRows p).getLast?) = some r)
    (hlive : expired now r = false) (hfile : (s.fetchRow E r false).2 ≠ .ioerror) :
    (s.peek E now p front false false).2 = (s.pull E now p front false false).2 ∧
    (s.peek E now p front false false).1.rows = s.rows := by
  have hh : qhead s p front = some r := by
    unfold qhead lastRow?; cases front <;> simpa using hhead
  unfold peek pull
  rw [peekLoop_succ, pullLoop_succ]
  simp only [hh, hlive, Bool.false_eq_true, if_false]
  rw [pullDel_fetch s E r, pullSel_fetch s E r]
  split
  · contradiction
  · exact ⟨rfl, by rw [fetchRow_rows, (pullSel_spec s).1]⟩

/-- queues with different prefixes do not interfere: a push on `p` leaves the queue of every
other prefix `q` unchanged — also when one prefix extends the other ('a' and 'a-5') -/
theorem prefix_isolation_push (s : Cache) (E : Externals) (now : Int) (v : PyVal) (p q : Option Str)
    (back : Bool) (ttl : Option Int) (tag : SqlVal) (hinv : TableInv s) (hpq : p ≠ q)
    (hq : QueueOk s p) (hnc : Quiet s now) (httl : TtlOk ttl) (hor : OriginOk s) :
    (s.push E now v p back ttl false tag).1.queueRows q = s.queueRows q := by
  rcases push_cases s E now v p back ttl tag with
    h | ⟨s1, c, num, t, hst, hnum, hsel, ht1, ht2, hrows, -⟩
  · rw [queueRows_eq, h, ← queueRows_eq]
  · obtain ⟨num', hnum', hfit, -, -⟩ := pushNum_spec s p back hinv hq hor
    rw [hnum] at hnum'; cases hnum'
    have hcull := insRow_cullW_quiet ht1 ht2 now (queueKey p num) (colsOf c ttl now tag) hnc
      (colsOf_live c now tag httl)
    rw [queueRows_eq, hrows]
    show qrows ((t.insRow (queueKey p num) true now (colsOf c ttl now tag)).cullW now).1.rows q = _
    rw [hcull, queueRows_eq]
    exact qrows_append_notin _ _ _ (qfilter_other hpq num hfit _ rfl)

set_option linter.unusedVariables false in  -- some hypotheses of the statement are not needed
/-- ... and a pull on `p` leaves every other queue unchanged -/
theorem prefix_isolation_pull (s : Cache) (E : Externals) (now : Int) (p q : Option Str)
    (front et tg : Bool) (hinv : TableInv s) (hpq : p ≠ q) (hq : QueueOk s p) (hq' : QueueOk s q) :
    (s.pull E now p front et tg).1.queueRows q = s.queueRows q := by
  obtain ⟨f, hf1, hf2⟩ := pullLoop_rows E now p front et tg (s.rows.length + 1) s hinv.tbl.asc
  unfold pull
  rw [queueRows_eq, hf1, queueRows_eq]
  apply qrows_filter_id hinv.tbl.uniq hinv.tbl.nonnull
  intro x hx
  apply hf2 x (mem_qrows.1 hx).1
  intro hxp
  rw [queueRows_eq] at hxp
  exact qrows_disjoint hpq hxp hx

/-- ordinary keys outside the queue key range are untouched by pull: every row that is not a
member of queue `p` survives a pull on `p` -/
theorem pull_ordinary_untouched (s : Cache) (E : Externals) (now : Int) (p : Option Str)
    (front et tg : Bool) (hinv : TableInv s) :
    ∀ r ∈ s.rows, r ∉ s.queueRows p → r ∈ (s.pull E now p front et tg).1.rows := by
  obtain ⟨f, hf1, hf2⟩ := pullLoop_rows E now p front et tg (s.rows.length + 1) s hinv.tbl.asc
  intro r hr hnq
  unfold pull
  rw [hf1]
  exact List.mem_filter.2 ⟨hr, hf2 r hr hnq⟩

/-- non-vacuity: two queues whose prefixes extend one another, and an ordinary key -/
def exQRow (i : Nat) (k : SqlVal) (v : Int) : Row :=
  { rowid := i, key := k, raw := true, storeT := 0, expT := none, accT := 0, accN := 0,
    tag := .null, size := 0, mode := 1, file := none, val := .int v }

def qk (p : Str) (n : Nat) : SqlVal := queueKey (some p) n

def exQ : Cache :=
  { rows := [exQRow 1 (qk [97] 500000000000000) 10, exQRow 2 (qk [97, 45, 53] 500000000000000) 20,
             exQRow 3 (.text [97, 45, 49]) 30, exQRow 4 (qk [97] 500000000000001) 11], count := 4,
    cfg := { policy := .none } }

example : (exQ.queueRows (some [97])).map (·.rowid) = [1, 4] ∧
    (exQ.queueRows (some [97, 45, 53])).map (·.rowid) = [2] := by decide +kernel

/-- why `push_back` / `push_front` need `hp`: with a lone surrogate in the prefix the key cannot
be bound, push raises UnicodeEncodeError and the (empty, well-formed) queue stays empty, although
the value itself is storable and every other hypothesis holds -/
def exE : Externals :=
  { dumpsK := fun _ => [], dumpsV := fun _ => [], loads := fun _ => .none, jsonz := fun _ => [],
    unjsonz := fun _ => .none }

example : let s : Cache := { cfg := { policy := .none } }
    (s.store exE (.int 1) false).toOption.isSome = true ∧ s.queueRows (some [0xD800]) = [] ∧
    (s.push exE 0 (.int 1) (some [0xD800]) true none false .null).1.queueRows (some [0xD800]) = [] ∧
    (s.push exE 0 (.int 1) (some [0xD800]) false none false .null).1.queueRows (some [0xD800]) = [] := by
  decide +kernel

end DC.Cache
