/-
C10 — push/pull/peek form FIFO queues per prefix (sequential part).

`queueRows s p` is the abstract queue of prefix `p`: the rows whose key lies in
the key range of `p` (and, for a text prefix, has the queue's key length), in
key order.  The theorems say push appends at the chosen end with a key that
identifies the item, pull removes the chosen end and returns it, peek returns
what pull would without removing, and different prefixes (including prefixes
that extend one another — fix D6) and ordinary keys do not interfere.

`Quiet` is the side condition "the lazy cull of this write removes nothing"
(always true for Deque/Index: policy 'none' and no expiry).
-/
import DC.Proofs.Queue

namespace DC.Cache

/-- the lazy cull of a write at `now` removes nothing: cull_limit is 0, or the policy is
'none' (Deque, Index) and no stored row is expired -/
def Quiet (s : Cache) (now : Int) : Prop :=
  s.cfg.cullLimit = 0 ∨ (s.cfg.policy = .none ∧ ∀ r ∈ s.rows, expired now r = false)

/-- the pushed item itself is not already expired -/
def TtlOk (ttl : Option Int) : Prop := ∀ t, ttl = some t → 0 ≤ t

/-- the first queue number lies inside the queue key range -/
def OriginOk (s : Cache) : Prop := 1 ≤ s.cfg.qorigin ∧ s.cfg.qorigin ≤ 999999999999998

/-- there is room on both sides of the queue -/
def Room (s : Cache) (p : Option Str) : Prop :=
  ∀ r ∈ s.queueRows p, ∀ n, queueNum r.key = some n → 2 ≤ n ∧ n ≤ 999999999999997

/-- the keys of queue `p` are well formed: they decode to a number that re-encodes to the key,
and leave room on both sides -/
def QueueOk (s : Cache) (p : Option Str) : Prop :=
  ∀ r ∈ s.queueRows p, ∃ n : Int, queueNum r.key = some n ∧ queueKey p n = r.key ∧ 1 ≤ n ∧ n ≤ 999999999999998

/-- where `store` puts the value: the columns of the new row -/
def colsOf (c : Cols) (ttl : Option Int) (now : Int) (tag : SqlVal) : Cols :=
  { c with expT := ttl.map (now + ·), tag := tag }

/-- push to the back appends: the queue grows by exactly one row at its end, carrying the
stored value; the returned key is that row's key -/
theorem push_back (s : Cache) (E : Externals) (now : Int) (v : PyVal) (p : Option Str)
    (ttl : Option Int) (tag : SqlVal) (hinv : TableInv s) (hq : QueueOk s p) (hd : s.depth = 0)
    (s1 : Cache) (c : Cols) (hst : s.store E v false = .ok (s1, c))
    (hb : (colsOf c ttl now tag).bindable = true) (hnc : Quiet s now) (httl : TtlOk ttl)
    (hor : OriginOk s) (hroom : Room s p) :
    ∃ r : Row, ((s.push E now v p true ttl false tag).1.queueRows p) = s.queueRows p ++ [r] ∧
      (s.push E now v p true ttl false tag).2 = .val (column r.key) ∧
      r.mode = c.mode ∧ r.val = c.val ∧ r.file = c.file ∧ r.expT = ttl.map (now + ·) ∧ r.tag = tag := by
  sorry

/-- push to the front prepends -/
theorem push_front (s : Cache) (E : Externals) (now : Int) (v : PyVal) (p : Option Str)
    (ttl : Option Int) (tag : SqlVal) (hinv : TableInv s) (hq : QueueOk s p) (hd : s.depth = 0)
    (s1 : Cache) (c : Cols) (hst : s.store E v false = .ok (s1, c))
    (hb : (colsOf c ttl now tag).bindable = true) (hnc : Quiet s now) (httl : TtlOk ttl)
    (hor : OriginOk s) (hroom : Room s p) :
    ∃ r : Row, ((s.push E now v p false ttl false tag).1.queueRows p) = r :: s.queueRows p ∧
      (s.push E now v p false ttl false tag).2 = .val (column r.key) ∧
      r.mode = c.mode ∧ r.val = c.val ∧ r.file = c.file := by
  sorry

/-- the queue stays well formed under push (so the theorems compose over histories) -/
theorem push_queueOk (s : Cache) (E : Externals) (now : Int) (v : PyVal) (p : Option Str) (back : Bool)
    (ttl : Option Int) (tag : SqlVal) (hinv : TableInv s) (hq : QueueOk s p) (hor : OriginOk s)
    (hroom : Room s p) :
    QueueOk (s.push E now v p back ttl false tag).1 p := by
  sorry

/-- pull from the front removes and returns the first unexpired item; expired heads are
dropped on the way -/
theorem pull_front (s : Cache) (E : Externals) (now : Int) (p : Option Str) (hinv : TableInv s)
    (r : Row) (rest : List Row) (hq : s.queueRows p = r :: rest) (hlive : expired now r = false)
    (hfile : (s.fetchRow E r false).2 ≠ .ioerror) :
    (s.pull E now p true false false).2 = .tup [.val (column r.key), fetchedOut (s.fetchRow E r false).2] ∧
    (s.pull E now p true false false).1.queueRows p = rest := by
  sorry

/-- pull from the back removes and returns the last item -/
theorem pull_back (s : Cache) (E : Externals) (now : Int) (p : Option Str) (hinv : TableInv s)
    (r : Row) (front : List Row) (hq : s.queueRows p = front ++ [r]) (hlive : expired now r = false)
    (hfile : (s.fetchRow E r false).2 ≠ .ioerror) :
    (s.pull E now p false false false).2 = .tup [.val (column r.key), fetchedOut (s.fetchRow E r false).2] ∧
    (s.pull E now p false false false).1.queueRows p = front := by
  sorry

/-- pull on an empty queue returns the default and changes nothing -/
theorem pull_empty (s : Cache) (E : Externals) (now : Int) (p : Option Str) (front et tg : Bool)
    (hq : s.queueRows p = []) :
    (s.pull E now p front et tg).2 = defaultFlags et tg ∧ (s.pull E now p front et tg).1.rows = s.rows := by
  sorry

/-- peek returns what the next pull from that side would return, and removes nothing
when the head is not expired -/
theorem peek_is_next_pull (s : Cache) (E : Externals) (now : Int) (p : Option Str) (front : Bool)
    (hinv : TableInv s) (r : Row)
    (hhead : (if front then (s.queueRows p).head? else (s.queueRows p).getLast?) = some r)
    (hlive : expired now r = false) (hfile : (s.fetchRow E r false).2 ≠ .ioerror) :
    (s.peek E now p front false false).2 = (s.pull E now p front false false).2 ∧
    (s.peek E now p front false false).1.rows = s.rows := by
  sorry

/-- queues with different prefixes do not interfere: a push on `p` leaves the queue of every
other prefix `q` unchanged — also when one prefix extends the other ('a' and 'a-5') -/
theorem prefix_isolation_push (s : Cache) (E : Externals) (now : Int) (v : PyVal) (p q : Option Str)
    (back : Bool) (ttl : Option Int) (tag : SqlVal) (hinv : TableInv s) (hpq : p ≠ q)
    (hq : QueueOk s p) (hnc : Quiet s now) (httl : TtlOk ttl) (hor : OriginOk s) :
    (s.push E now v p back ttl false tag).1.queueRows q = s.queueRows q := by
  sorry

/-- ... and a pull on `p` leaves every other queue unchanged -/
theorem prefix_isolation_pull (s : Cache) (E : Externals) (now : Int) (p q : Option Str)
    (front et tg : Bool) (hinv : TableInv s) (hpq : p ≠ q) (hq : QueueOk s p) (hq' : QueueOk s q) :
    (s.pull E now p front et tg).1.queueRows q = s.queueRows q := by
  sorry

/-- ordinary keys outside the queue key range are untouched by pull: every row that is not a
member of queue `p` survives a pull on `p` -/
theorem pull_ordinary_untouched (s : Cache) (E : Externals) (now : Int) (p : Option Str)
    (front et tg : Bool) (hinv : TableInv s) :
    ∀ r ∈ s.rows, r ∉ s.queueRows p → r ∈ (s.pull E now p front et tg).1.rows := by
  sorry

/-- non-vacuity: two queues whose prefixes extend one another, and an ordinary key -/
def exQRow (i : Nat) (k : SqlVal) (v : Int) : Row :=
  { rowid := i, key := k, raw := true, storeT := 0, expT := none, accT := 0, accN := 0,
    tag := .null, size := 0, mode := 1, file := none, val := .int v }

def qk (p : Str) (n : Nat) : SqlVal := queueKey (some p) n

def exQ : Cache :=
  { rows := [exQRow 1 (qk [97] 500000000000000) 10, exQRow 2 (qk [97, 45, 53] 500000000000000) 20,
             exQRow 3 (.text [97, 45, 49]) 30, exQRow 4 (qk [97] 500000000000001) 11], count := 4,
    cfg := { policy := .none } }

example : (exQ.queueRows (some [97])).map (·.rowid) = [1, 4] ∧
    (exQ.queueRows (some [97, 45, 53])).map (·.rowid) = [2] := by decide +kernel

end DC.Cache
