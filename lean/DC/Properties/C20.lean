/-
C20 — Averager counts every add once; throttle never exceeds its rate.
-/
import DC.Proofs.RecipeLemmas

namespace DC.Recipes

/-- the adds after the last pop -/
def sincePop : List AvgEv → List Int
  | [] => []
  | .add v :: rest => if rest.any (· == .pop) then sincePop rest else v :: sincePop rest
  | .pop :: rest => sincePop rest

/-- `averager_exact`: after ANY sequence of completed adds and pops (each one atomic, in any
interleaving of any number of threads and processes), total and count are exactly the sum and
the number of the adds since the last pop — so the reported mean is total / count -/
theorem averager_exact (evs : List AvgEv) :
    (AvgSt.run {} evs).total = (sincePop evs).sum ∧ (AvgSt.run {} evs).count = (sincePop evs).length := by
  sorry

/-! ### token bucket: `b.tally` = tokens × seconds at instant `b.last`, time in ticks of 1/count s -/

/-- bucket invariant: the stored tally never exceeds count - 1 tokens after a pass and is never
negative -/
def Bucket.Ok (b : Bucket) : Prop := 0 ≤ b.tally ∧ b.tally ≤ (b.count : Int) * b.seconds ∧ 0 < b.count ∧ 0 < b.seconds

theorem init_ok (count seconds : Nat) (now : Int) (hc : 0 < count) (hs : 0 < seconds) :
    (Bucket.init count seconds now).Ok := by
  sorry

/-- `tally_le_count`: the invariant is kept by every attempt at a later instant -/
theorem attempt_ok (b : Bucket) (now : Int) (h : b.Ok) (hn : b.last ≤ now) :
    (b.attempt now).1.Ok ∧ b.last ≤ (b.attempt now).1.last ∧ (b.attempt now).1.count = b.count ∧
    (b.attempt now).1.seconds = b.seconds := by
  sorry

/-- `single_sleep_suffices`: after sleeping the delay it was told, a caller that nobody overtook
is let through -/
theorem single_sleep_suffices (b : Bucket) (now d : Int) (h : b.Ok) (hn : b.last ≤ now)
    (hd : (b.attempt now).2 = some d) :
    0 < d ∧ ((b.attempt now).1.attempt (now + d)).2 = none := by
  sorry

/-- `window_bound`: for every arrival pattern (attempt instants in nondecreasing order, by any
number of callers sharing the cache), the calls let through in ANY time window of width w ticks
number at most count + rate·w: in integers, passes·seconds ≤ count·seconds + w.
Stated for the window that starts at the first pass considered and ends at the last. -/
theorem window_bound (b : Bucket) (times : List Int) (h : b.Ok) (hsorted : times.Pairwise (· ≤ ·))
    (hfirst : ∀ t ∈ times, b.last ≤ t) (first last : Int)
    (hf : (b.passes times).head? = some first) (hl : (b.passes times).getLast? = some last) :
    ((b.passes times).length : Int) * b.seconds ≤ (b.count : Int) * b.seconds + (last - first) := by
  sorry

/-- every sub-window too: dropping attempts before some instant leaves a run of the same bucket
from a later state that still satisfies the invariant (so `window_bound` applies to it) -/
theorem passes_suffix_ok (b : Bucket) (now : Int) (rest : List Int) (h : b.Ok) (hn : b.last ≤ now) :
    (b.attempt now).1.Ok ∧
    b.passes (now :: rest) = (if (b.attempt now).2 = none then [now] else []) ++ (b.attempt now).1.passes rest := by
  sorry

/-- non-vacuity: a burst of 4, then the steady rate -/
example : (Bucket.init 4 2 0).passes [0, 0, 0, 0, 0, 1, 2, 2, 3, 4, 8] = [0, 0, 0, 0, 2, 4, 8] := by decide

end DC.Recipes
