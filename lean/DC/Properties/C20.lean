/-
C20 — Averager counts every add once; throttle never exceeds its rate.
-/
import DC.Proofs.RecipeLemmas

namespace DC.Recipes

/-- the adds after the last pop -/
def sincePop : List AvgEv → List Int
  | [] => []
  | .add v :: rest => if rest.any (· == .pop) then sincePop rest else v :: sincePop rest
  | .pop :: rest => sincePop rest

/-- generalisation of `averager_exact` to an arbitrary start state -/
theorem averager_run (evs : List AvgEv) (s : AvgSt) :
    AvgSt.run s evs = if evs.any (· == .pop) then ⟨(sincePop evs).sum, (sincePop evs).length⟩
      else ⟨s.total + (sincePop evs).sum, s.count + (sincePop evs).length⟩ := by
  induction evs generalizing s with
  | nil => simp [AvgSt.run, sincePop]
  | cons e es ih =>
    rw [AvgSt.run_cons, ih]
    cases e with
    | add v =>
      have hany : ((AvgEv.add v :: es).any (· == .pop)) = es.any (· == .pop) := by
        rw [List.any_cons]; simp
      rw [hany]
      by_cases hp : es.any (· == .pop) = true
      · simp only [hp, if_true, sincePop]
      · simp only [hp, if_false, sincePop, AvgSt.step, List.sum_cons, List.length_cons,
          Bool.false_eq_true]
        congr 1
        · omega
        · omega
    | pop =>
      have hany : ((AvgEv.pop :: es).any (· == .pop)) = true := by
        rw [List.any_cons]; simp
      rw [hany]
      by_cases hp : es.any (· == .pop) = true
      · simp only [hp, if_true, sincePop]
      · simp [hp, sincePop, AvgSt.step]

/-- `averager_exact`: after ANY sequence of completed adds and pops (each one atomic, in any
interleaving of any number of threads and processes), total and count are exactly the sum and
the number of the adds since the last pop — so the reported mean is total / count -/
theorem averager_exact (evs : List AvgEv) :
    (AvgSt.run {} evs).total = (sincePop evs).sum ∧ (AvgSt.run {} evs).count = (sincePop evs).length := by
  rw [averager_run]
  split <;> simp

/-! ### token bucket: `b.tally` = tokens × seconds at instant `b.last`, time in ticks of 1/count s -/

/-- bucket invariant: the stored tally never exceeds count - 1 tokens after a pass and is never
negative -/
def Bucket.Ok (b : Bucket) : Prop := 0 ≤ b.tally ∧ b.tally ≤ (b.count : Int) * b.seconds ∧ 0 < b.count ∧ 0 < b.seconds

theorem init_ok (count seconds : Nat) (now : Int) (hc : 0 < count) (hs : 0 < seconds) :
    (Bucket.init count seconds now).Ok := by
  refine ⟨?_, Int.le_refl _, hc, hs⟩
  exact Int.mul_nonneg (Int.natCast_nonneg _) (Int.natCast_nonneg _)

/-- `tally_le_count`: the invariant is kept by every attempt at a later instant -/
theorem attempt_ok (b : Bucket) (now : Int) (h : b.Ok) (hn : b.last ≤ now) :
    (b.attempt now).1.Ok ∧ b.last ≤ (b.attempt now).1.last ∧ (b.attempt now).1.count = b.count ∧
    (b.attempt now).1.seconds = b.seconds := by
  obtain ⟨h0, h1, hc, hs⟩ := h
  have hsec := Bucket.sec_le b.count b.seconds hc
  rcases Bucket.attempt_cases b now with ⟨ht, he⟩ | ⟨ht1, ht2, he⟩ | ⟨ht1, ht2, he⟩ <;> rw [he]
  · refine ⟨⟨?_, ?_, hc, hs⟩, hn, rfl, rfl⟩ <;> simp only <;> omega
  · refine ⟨⟨?_, ?_, hc, hs⟩, hn, rfl, rfl⟩ <;> simp only <;> omega
  · exact ⟨⟨h0, h1, hc, hs⟩, Int.le_refl _, rfl, rfl⟩

/-- `single_sleep_suffices`: after sleeping the delay it was told, a caller that nobody overtook
is let through -/
theorem single_sleep_suffices (b : Bucket) (now d : Int) (h : b.Ok) (hn : b.last ≤ now)
    (hd : (b.attempt now).2 = some d) :
    0 < d ∧ ((b.attempt now).1.attempt (now + d)).2 = none := by
  have _ := hn  -- not needed: the delay is exact whatever the elapsed time
  obtain ⟨h0, h1, hc, hs⟩ := h
  rcases Bucket.attempt_cases b now with ⟨ht, he⟩ | ⟨ht1, ht2, he⟩ | ⟨ht1, ht2, he⟩ <;> rw [he] at hd ⊢
  · simp at hd
  · simp at hd
  · simp only [Option.some.injEq] at hd
    refine ⟨by omega, ?_⟩
    rcases Bucket.attempt_cases b (now + d) with ⟨_, he'⟩ | ⟨_, _, he'⟩ | ⟨_, ht2', _⟩
    · rw [he']
    · rw [he']
    · omega

/-- `window_bound`: for every arrival pattern (attempt instants in nondecreasing order, by any
number of callers sharing the cache), the calls let through in ANY time window of width w ticks
number at most count + rate·w: in integers, passes·seconds ≤ count·seconds + w.
Stated for the window that starts at the first pass considered and ends at the last. -/
theorem window_bound_aux (times : List Int) : ∀ (b : Bucket), b.Ok → times.Pairwise (· ≤ ·) →
    (∀ t ∈ times, b.last ≤ t) → ∀ (p : Int) (ps : List Int) (l : Int),
    b.passes times = p :: ps → (p :: ps).getLast? = some l →
    ((ps.length : Int) + 1) * b.seconds ≤ b.tally + (l - b.last) ∧
    ((ps.length : Int) + 1) * b.seconds ≤ (b.count : Int) * b.seconds + (l - p) := by
  induction times with
  | nil => intro b _ _ _ p ps l hp; simp [Bucket.passes] at hp
  | cons now rest ih =>
    intro b hok hsorted hfirst p ps l hp hl
    have hn : b.last ≤ now := hfirst now (List.mem_cons_self ..)
    obtain ⟨hok', hlast', hcount', hsec'⟩ := attempt_ok b now hok hn
    obtain ⟨h0, h1, hc, hs⟩ := hok
    have hsec := Bucket.sec_le b.count b.seconds hc
    rw [List.pairwise_cons] at hsorted
    obtain ⟨hnow_le, hsorted'⟩ := hsorted
    rw [Bucket.passes_cons] at hp
    -- the two passing cases share the continuation
    have pass : ∀ (tl : Int), (b.attempt now).2 = none → (b.attempt now).1.last = now →
        (b.attempt now).1.tally = tl → tl + b.seconds ≤ b.tally + (now - b.last) →
        tl + b.seconds ≤ (b.count : Int) * b.seconds →
        ((ps.length : Int) + 1) * b.seconds ≤ b.tally + (l - b.last) ∧
        ((ps.length : Int) + 1) * b.seconds ≤ (b.count : Int) * b.seconds + (l - p) := by
      intro tl hnone hlast htl ht1 ht2
      have htl0 : 0 ≤ tl := htl ▸ hok'.1
      rw [if_pos hnone] at hp
      simp only [List.cons_append, List.nil_append, List.cons.injEq] at hp
      obtain ⟨hpn, hps⟩ := hp
      subst hpn
      cases ps with
      | nil =>
        simp only [List.getLast?_singleton, Option.some.injEq] at hl
        subst hl
        simp only [List.length_nil, Int.natCast_zero, Int.zero_add, Int.one_mul]
        omega
      | cons p2 ps2 =>
        rw [List.getLast?_cons_cons] at hl
        have hfirst' : ∀ t ∈ rest, (b.attempt now).1.last ≤ t := by
          intro t ht; rw [hlast]; exact hnow_le t ht
        obtain ⟨ih1, _⟩ := ih _ hok' hsorted' hfirst' p2 ps2 l hps hl
        rw [hsec', htl, hlast] at ih1
        have hlen : (((p2 :: ps2).length : Nat) : Int) + 1 = ((ps2.length : Int) + 1) + 1 := by
          simp
        rw [hlen, Int.add_mul _ 1, Int.one_mul]
        omega
    rcases Bucket.attempt_cases b now with ⟨ht, he⟩ | ⟨ht1, ht2, he⟩ | ⟨ht1, ht2, he⟩
    · exact pass ((b.count : Int) * b.seconds - b.seconds) (by rw [he]) (by rw [he]) (by rw [he])
        (by omega) (by omega)
    · exact pass (b.tally + (now - b.last) - b.seconds) (by rw [he]) (by rw [he]) (by rw [he])
        (by omega) (by omega)
    · have hb : (b.attempt now).1 = b := by rw [he]
      have hsome : ¬ (b.attempt now).2 = none := by rw [he]; simp
      rw [if_neg hsome, hb, List.nil_append] at hp
      exact ih b ⟨h0, h1, hc, hs⟩ hsorted' (fun t ht => hfirst t (List.mem_cons_of_mem _ ht)) p ps l hp hl

theorem window_bound (b : Bucket) (times : List Int) (h : b.Ok) (hsorted : times.Pairwise (· ≤ ·))
    (hfirst : ∀ t ∈ times, b.last ≤ t) (first last : Int)
    (hf : (b.passes times).head? = some first) (hl : (b.passes times).getLast? = some last) :
    ((b.passes times).length : Int) * b.seconds ≤ (b.count : Int) * b.seconds + (last - first) := by
  cases hps : b.passes times with
  | nil => rw [hps] at hf; simp at hf
  | cons p ps =>
    rw [hps] at hf hl
    simp only [List.head?_cons, Option.some.injEq] at hf
    subst hf
    have := (window_bound_aux times b h hsorted hfirst p ps last hps hl).2
    simpa using this

/-- every sub-window too: dropping attempts before some instant leaves a run of the same bucket
from a later state that still satisfies the invariant (so `window_bound` applies to it) -/
theorem passes_suffix_ok (b : Bucket) (now : Int) (rest : List Int) (h : b.Ok) (hn : b.last ≤ now) :
    (b.attempt now).1.Ok ∧
    b.passes (now :: rest) = (if (b.attempt now).2 = none then [now] else []) ++ (b.attempt now).1.passes rest :=
  ⟨(attempt_ok b now h hn).1, Bucket.passes_cons b now rest⟩

/-- non-vacuity: a burst of 4, then the steady rate -/
example : (Bucket.init 4 2 0).passes [0, 0, 0, 0, 0, 1, 2, 2, 3, 4, 8] = [0, 0, 0, 0, 2, 4, 8] := by decide

end DC.Recipes
