/-
C10 (refinement) — the Cache model refines the reference of DC/Model/QSpec.lean, "a
family of double-ended queues, one per prefix, next to a dictionary": for every
history of push / pull / peek calls on any prefixes and sides, mixed with
key-addressed calls on keys outside the queue key ranges and with the bulk
removals, every call returns what the reference returns, and the final states
correspond (`qrun_refines`; `qrun_refines_partial` is the first version, without
add / touch / incr, kept as a corollary).

Definitions used in the statements (DC/Proofs/QRefineDefs.lean):
 * `QRefines c q clock`: for EVERY prefix the rows of `c.queueRows p` denote, in key order, exactly
   the items of the specification's queue; the dictionary part is related as in C03_Refine
   (`Refines`) on the keys that are not queue keys.
 * `QOk c n`: the budgeted invariant.  `n` bounds the number of further `push` calls: the queue
   keys have 15 digits and every push moves one step away from the origin, so every queue key
   (and the origin) must leave room for `n` steps on both sides.  `step` uses one unit per push
   (`pushCost`), nothing for the other calls.  The empty cache satisfies `QOk _ 499999999999999`
   (`qok_init`).

Hypotheses of the history theorem, and why.
 * `policy = none` (in `QOk`): no size-based eviction (that regime is C09 / C03_Lossy).
 * Expiry IS allowed, in the dictionary part without restriction; `pull` / `peek` discard expired
   items at the addressed end exactly as the code does (`peek` deletes them, too), `expire` / `cull`
   remove expired items from the queues.  But the key `push` returns depends on which expired
   rows are still physically there (`last key + 1`), so the lazy cull of the writes (`_cull`,
   up to `cull_limit` expired rows per `set` / `push`) must not remove queue rows:
   `cull_limit = 0`, or no push gives an expiry time (`hq`, and `QOk.quiet` for the rows already
   there).  `qrun_needs_quiet` is the counterexample: with `cull_limit = 10`, push(ttl) — time
   passes — set — push returns the first key again, the reference the next one.
 * `QSpec.Ordinary`: the keys of the key-addressed calls are not queue keys
   (`QSpec.isQueueKey`, decidable).  `qrun_needs_ordinary`: `set(7, 70)` and then `peek()` returns
   `(7, 70)` — an ordinary key that looks like a queue key does interfere.
 * the key budget (`QOk c (n + pushCosts ops)`); `qrun_needs_budget` shows a push beyond it.
 * `Monotone`: the clock never goes backwards (as in C03_Refine).
 * The integer results of clear / evict / expire / cull are masked on both sides (as in
   C03_Refine: they count physically stored rows).

All calls of `QSpec.Covered` are covered.  The key-addressed writes (set, add, touch, incr) leave
the queues alone by a row-level frame (`set_other_rows` / `set_keeps_rows`, `add_frame`,
`touch_frame`, `incr_frame`: the rows of the other keys are neither created nor altered, and not
removed when `cull_limit = 0`) combined with the view of the state (`qr_frame`); the dictionary part
is the argument of C03_Refine restricted to the ordinary keys (`rf_assemble_ord`).
-/
import DC.Proofs.QRefineWrite

namespace DC.Cache
open DC.Spec DC.QSpec

/-! ### one call -/

/-- `push`: the cache returns the key the reference returns, the states correspond afterwards,
and one unit of the key budget is used.
`hq`: the lazy cull of this write cannot remove the pushed item. -/
theorem push_qrefines (c : Cache) (q : QSpec.State) (n : Nat) (clock now : Int) (E : Externals)
    (v : PyVal) (p : Option Str) (back : Bool) (ttl : Option Int) (read : Bool) (tag : SqlVal)
    (hok : QOk c (n + 1)) (hr : QRefines c q clock) (hn : clock ≤ now)
    (hq : c.cfg.cullLimit = 0 ∨ ttl = none) :
    (c.push E now v p back ttl read tag).2 = (QSpec.push q E c.cfg now v p back ttl read tag).2 ∧
    QRefines (c.push E now v p back ttl read tag).1 (QSpec.push q E c.cfg now v p back ttl read tag).1 now ∧
    QOk (c.push E now v p back ttl read tag).1 n :=
  let h := qr_push_step c q n clock now E v p back ttl read tag hok hr hn hq
  ⟨h.1, h.2.1, h.2.2.1⟩

/-- `pull`: expired items at the addressed end are discarded, the first live one is removed and
returned — on both sides alike -/
theorem pull_qrefines (c : Cache) (q : QSpec.State) (n : Nat) (clock now : Int) (E : Externals)
    (p : Option Str) (front et tg : Bool)
    (hok : QOk c n) (hr : QRefines c q clock) (hn : clock ≤ now) :
    (c.pull E now p front et tg).2 = (QSpec.pull q E c.cfg now p front et tg).2 ∧
    QRefines (c.pull E now p front et tg).1 (QSpec.pull q E c.cfg now p front et tg).1 now ∧
    QOk (c.pull E now p front et tg).1 n :=
  let h := qr_pull_step c q n clock now E p front et tg hok hr hn
  ⟨h.1, h.2.1, h.2.2.1⟩

/-- `peek`: as `pull`, but the item returned stays (the expired ones met on the way do not) -/
theorem peek_qrefines (c : Cache) (q : QSpec.State) (n : Nat) (clock now : Int) (E : Externals)
    (p : Option Str) (front et tg : Bool)
    (hok : QOk c n) (hr : QRefines c q clock) (hn : clock ≤ now) :
    (c.peek E now p front et tg).2 = (QSpec.peek q E c.cfg now p front et tg).2 ∧
    QRefines (c.peek E now p front et tg).1 (QSpec.peek q E c.cfg now p front et tg).1 now ∧
    QOk (c.peek E now p front et tg).1 n :=
  let h := qr_peek_step c q n clock now E p front et tg hok hr hn
  ⟨h.1, h.2.1, h.2.2.1⟩

/-! ### histories -/

/-- the calls covered by the history theorem so far: `QSpec.Covered` without add, touch, incr -/
def QProved : Op → Bool
  | .push .. | .pull .. | .peek .. | .set .. | .get .. | .contains .. | .pop .. | .delitem ..
  | .delete .. | .clear | .evict .. | .expire .. | .cull .. => true
  | _ => false

/-- units of the key budget a call uses -/
def pushCost : Op → Nat
  | .push .. => 1
  | _ => 0

def pushCosts (ops : List Op) : Nat := (ops.map pushCost).sum

/-- the call is not a `push` with an expiry time -/
def PushNoTtl : Op → Bool
  | .push _ _ _ _ _ ttl _ _ => ttl.isNone
  | _ => true

theorem qproved_covered (op : Op) (h : QProved op = true) : QSpec.Covered op = true := by
  cases op <;> first | rfl | cases h

/-- one call of a history: its result is the reference's result, the states correspond at the
call's clock, the invariant holds with the budget the call did not use, and the configuration is
unchanged -/
theorem qstep_refines_covered (c : Cache) (q : QSpec.State) (n : Nat) (clock : Int) (op : Op)
    (hok : QOk c (n + pushCost op)) (hr : QRefines c q clock)
    (hk : QSpec.Covered op = true) (ho : QSpec.Ordinary c.cfg op = true)
    (hq : c.cfg.cullLimit = 0 ∨ PushNoTtl op = true)
    (hm : ∀ t, opClock op = some t → clock ≤ t) :
    (if Determined op then (c.step op).2 else .none) = (QSpec.step q c.cfg op).2 ∧
    QRefines (c.step op).1 (QSpec.step q c.cfg op).1 ((opClock op).getD clock) ∧
    QOk (c.step op).1 n ∧ (c.step op).1.cfg = c.cfg := by
  cases op with
  | set E now k v ttl read tag =>
    simp only [QSpec.Ordinary, Bool.not_eq_true'] at ho
    have h := qr_set_step c q n clock now E k v ttl read tag hok hr (hm _ rfl) ho
    exact ⟨h.1, h.2.1, h.2.2, rf_set_cfg _ _ _ _ _ _ _ _⟩
  | add E now k v ttl read tag =>
    simp only [QSpec.Ordinary, Bool.not_eq_true'] at ho
    have h := qr_add_step c q n clock now E k v ttl read tag hok hr (hm _ rfl) ho
    exact ⟨h.1, h.2.1, h.2.2, rf_add_cfg _ _ _ _ _ _ _ _⟩
  | touch E now k ttl =>
    simp only [QSpec.Ordinary, Bool.not_eq_true'] at ho
    have h := qr_touch_step c q n clock now E k ttl hok hr (hm _ rfl) ho
    exact ⟨h.1, h.2.1, h.2.2, rf_touch_cfg _ _ _ _ _⟩
  | incr E now k delta dflt =>
    simp only [QSpec.Ordinary, Bool.not_eq_true'] at ho
    have h := qr_incr_step c q n clock now E k delta dflt hok hr (hm _ rfl) ho
    exact ⟨h.1, h.2.1, h.2.2, rf_incr_cfg _ _ _ _ _ _⟩
  | get E now k read et tg =>
    simp only [QSpec.Ordinary, Bool.not_eq_true'] at ho
    have h := qr_get_step c q n clock now E k read et tg hok hr (hm _ rfl) ho
    exact ⟨h.1, h.2.1, h.2.2, rf_get_cfg _ _ _ _ _ _ _⟩
  | contains E now k =>
    simp only [QSpec.Ordinary, Bool.not_eq_true'] at ho
    have h := qr_contains_step c q n clock now E k hok hr (hm _ rfl) ho
    exact ⟨h.1, h.2.1, h.2.2, rfl⟩
  | pop E now k et tg =>
    simp only [QSpec.Ordinary, Bool.not_eq_true'] at ho
    have h := qr_pop_step c q n clock now E k et tg hok hr (hm _ rfl) ho
    exact ⟨h.1, h.2.1, h.2.2, rf_pop_cfg _ _ _ _ _ _⟩
  | delitem E now k =>
    simp only [QSpec.Ordinary, Bool.not_eq_true'] at ho
    have h := qr_delitem_step c q n clock now E k hok hr (hm _ rfl) ho
    exact ⟨h.1, h.2.1, h.2.2, rf_delitem_cfg _ _ _ _⟩
  | delete E now k =>
    simp only [QSpec.Ordinary, Bool.not_eq_true'] at ho
    have h := qr_delete_step c q n clock now E k hok hr (hm _ rfl) ho
    exact ⟨h.1, h.2.1, h.2.2, rf_delete_cfg _ _ _ _⟩
  | push E now v p back ttl read tag =>
    have hq' : c.cfg.cullLimit = 0 ∨ ttl = none := by
      rcases hq with h | h
      · exact .inl h
      · right
        simp only [PushNoTtl, Option.isNone_iff_eq_none] at h
        exact h
    exact qr_push_step c q n clock now E v p back ttl read tag hok hr (hm _ rfl) hq'
  | pull E now p front et tg => exact qr_pull_step c q n clock now E p front et tg hok hr (hm _ rfl)
  | peek E now p front et tg => exact qr_peek_step c q n clock now E p front et tg hok hr (hm _ rfl)
  | clear =>
    have h := qr_clear_step c q n clock hok hr
    exact ⟨rfl, h.1, h.2, rf_clear_cfg c⟩
  | evict tag =>
    have h := qr_evict_step c q n clock tag hok hr
    exact ⟨rfl, h.1, h.2, rf_evict_cfg c _⟩
  | expire now =>
    have h := qr_expire_step c q n clock now hok hr (hm _ rfl)
    exact ⟨rfl, h.1, h.2, rf_expire_cfg c _⟩
  | cull now =>
    have h := qr_cull_step c q n clock now hok hr (hm _ rfl)
    exact ⟨rfl, h.1, h.2, rf_cull_cfg c _ hok.pol⟩
  | _ => cases hk

/-- the first version's statement (`QProved`: without add / touch / incr) -/
theorem qstep_refines (c : Cache) (q : QSpec.State) (n : Nat) (clock : Int) (op : Op)
    (hok : QOk c (n + pushCost op)) (hr : QRefines c q clock)
    (hk : QProved op = true) (ho : QSpec.Ordinary c.cfg op = true)
    (hq : c.cfg.cullLimit = 0 ∨ PushNoTtl op = true)
    (hm : ∀ t, opClock op = some t → clock ≤ t) :
    (if Determined op then (c.step op).2 else .none) = (QSpec.step q c.cfg op).2 ∧
    QRefines (c.step op).1 (QSpec.step q c.cfg op).1 ((opClock op).getD clock) ∧
    QOk (c.step op).1 n ∧ (c.step op).1.cfg = c.cfg :=
  qstep_refines_covered c q n clock op hok hr (qproved_covered op hk) ho hq hm

theorem qspec_run_cons (q : QSpec.State) (cfg : Cfg) (op : Op) (ops : List Op) :
    QSpec.run q cfg (op :: ops) = QSpec.run (QSpec.step q cfg op).1 cfg ops := rfl

theorem QOk.weaken {c : Cache} {n m : Nat} (h : QOk c (n + m)) : QOk c n := by
  induction m with
  | zero => exact h
  | succ m ih => exact ih (QOk.mono (by rw [← Nat.add_assoc] at h; exact h))

/-- the history theorem with everything the induction carries -/
theorem qrun_refines_covered_strong (c : Cache) (q : QSpec.State) (n : Nat) (clock : Int) (ops : List Op)
    (hok : QOk c (n + pushCosts ops)) (hr : QRefines c q clock)
    (hk : ∀ op ∈ ops, QSpec.Covered op = true) (ho : ∀ op ∈ ops, QSpec.Ordinary c.cfg op = true)
    (hq : c.cfg.cullLimit = 0 ∨ ∀ op ∈ ops, PushNoTtl op = true) (hm : Monotone clock ops) :
    outs c ops = QSpec.outs q c.cfg ops ∧
    QRefines (c.run ops) (QSpec.run q c.cfg ops) (lastClock clock ops) ∧
    QOk (c.run ops) n ∧ (c.run ops).cfg = c.cfg := by
  induction ops generalizing c q clock with
  | nil => exact ⟨rfl, hr, hok, rfl⟩
  | cons op ops ih =>
    have hcost : pushCosts (op :: ops) = pushCost op + pushCosts ops := by
      simp [pushCosts]
    rw [hcost, ← Nat.add_assoc, Nat.add_right_comm] at hok
    obtain ⟨hm1, hm'⟩ := (monotone_cons clock op ops).1 hm
    have hq1 : c.cfg.cullLimit = 0 ∨ PushNoTtl op = true := by
      rcases hq with h | h
      · exact .inl h
      · exact .inr (h op List.mem_cons_self)
    obtain ⟨s1, s2, s3, s4⟩ := qstep_refines_covered c q (n + pushCosts ops) clock op hok hr
      (hk op List.mem_cons_self) (ho op List.mem_cons_self) hq1 hm1
    obtain ⟨h1, h2, h3, h4⟩ := ih (c.step op).1 (QSpec.step q c.cfg op).1 ((opClock op).getD clock) s3 s2
      (fun o h => hk o (List.mem_cons_of_mem _ h))
      (fun o h => by rw [s4]; exact ho o (List.mem_cons_of_mem _ h))
      (by rw [s4]; rcases hq with h | h
          · exact .inl h
          · exact .inr (fun o ho' => h o (List.mem_cons_of_mem _ ho')))
      hm'
    rw [s4] at h1 h2 h4
    refine ⟨?_, ?_, h3, h4⟩
    · show _ :: _ = _ :: _
      rw [s1, h1]
    · rw [run_cons, qspec_run_cons]; exact h2

/-- **the history theorem**.
For every history of push / pull / peek calls on any prefixes and sides, mixed with the
key-addressed calls (set / add / touch / incr / get / contains / pop / del / delete) on keys that
are not queue keys and with clear / evict / expire / cull, made with a clock that never goes
backwards on a cache without size limit whose queue keys leave room for the pushes of the history:
every call returns what the family of double-ended queues next to a dictionary returns, and the
final states correspond. -/
theorem qrun_refines (c : Cache) (q : QSpec.State) (n : Nat) (clock : Int) (ops : List Op)
    (hok : QOk c (n + pushCosts ops)) (hr : QRefines c q clock)
    (hk : ∀ op ∈ ops, QSpec.Covered op = true) (ho : ∀ op ∈ ops, QSpec.Ordinary c.cfg op = true)
    (hq : c.cfg.cullLimit = 0 ∨ ∀ op ∈ ops, PushNoTtl op = true) (hm : Monotone clock ops) :
    outs c ops = QSpec.outs q c.cfg ops ∧
    ∃ clock', QRefines (c.run ops) (QSpec.run q c.cfg ops) clock' := by
  obtain ⟨h1, h2, -⟩ := qrun_refines_covered_strong c q n clock ops hok hr hk ho hq hm
  exact ⟨h1, _, h2⟩

/-- the first version's statement, with everything the induction carries -/
theorem qrun_refines_strong (c : Cache) (q : QSpec.State) (n : Nat) (clock : Int) (ops : List Op)
    (hok : QOk c (n + pushCosts ops)) (hr : QRefines c q clock)
    (hk : ∀ op ∈ ops, QProved op = true) (ho : ∀ op ∈ ops, QSpec.Ordinary c.cfg op = true)
    (hq : c.cfg.cullLimit = 0 ∨ ∀ op ∈ ops, PushNoTtl op = true) (hm : Monotone clock ops) :
    outs c ops = QSpec.outs q c.cfg ops ∧
    QRefines (c.run ops) (QSpec.run q c.cfg ops) (lastClock clock ops) ∧
    QOk (c.run ops) n ∧ (c.run ops).cfg = c.cfg :=
  qrun_refines_covered_strong c q n clock ops hok hr (fun op h => qproved_covered op (hk op h)) ho hq hm

/-- the first version of the history theorem (without add / touch / incr): a corollary of
`qrun_refines` -/
theorem qrun_refines_partial (c : Cache) (q : QSpec.State) (n : Nat) (clock : Int) (ops : List Op)
    (hok : QOk c (n + pushCosts ops)) (hr : QRefines c q clock)
    (hk : ∀ op ∈ ops, QProved op = true) (ho : ∀ op ∈ ops, QSpec.Ordinary c.cfg op = true)
    (hq : c.cfg.cullLimit = 0 ∨ ∀ op ∈ ops, PushNoTtl op = true) (hm : Monotone clock ops) :
    outs c ops = QSpec.outs q c.cfg ops ∧
    ∃ clock', QRefines (c.run ops) (QSpec.run q c.cfg ops) clock' :=
  qrun_refines c q n clock ops hok hr (fun op h => qproved_covered op (hk op h)) ho hq hm

/-! ### the empty cache -/

theorem queueRows_nil (c : Cache) (h : c.rows = []) (p : Option Str) : c.queueRows p = [] := by
  rw [queueRows_eq, h]; rfl

/-- the empty cache represents the empty specification state -/
theorem qrefines_init (cf : Cfg) (st : Bool) (clock : Int) :
    QRefines ({ cfg := cf, statistics := st } : Cache) {} clock :=
  ⟨fun _ => rfl, rf_wf_nil, (fun _ h => by cases h), fun _ _ => rfl⟩

/-- the empty cache satisfies the invariant with every budget the origin leaves room for: with
the origin of core.py (500000000000000), `n ≤ 499999999999999` -/
theorem qok_init (cf : Cfg) (st : Bool) (n : Nat) (hp : cf.policy = .none) (hpg : 0 < cf.page)
    (ho : 1 ≤ cf.qorigin ∧ cf.qorigin ≤ 999999999999998)
    (hn : n ≤ cf.qorigin ∧ cf.qorigin + n ≤ 999999999999999) :
    QOk ({ cfg := cf, statistics := st } : Cache) n :=
  ⟨good_init cf st, hp, hpg, (fun _ _ h => by cases h), (fun _ _ h => by cases h), ho, hn,
    (fun _ _ h => by cases h), .inr (fun _ _ h => by cases h)⟩

/-- **what a user sees** on a fresh cache without size limit (default origin): any history of the
covered calls with at most 499999999999999 pushes returns, call by call, what the family of
queues next to a dictionary returns -/
theorem queues_after_history_covered (cf : Cfg) (st : Bool) (ops : List Op)
    (hp : cf.policy = .none) (hpg : 0 < cf.page) (hor : cf.qorigin = 500000000000000)
    (hb : pushCosts ops ≤ 499999999999999)
    (hk : ∀ op ∈ ops, QSpec.Covered op = true) (ho : ∀ op ∈ ops, QSpec.Ordinary cf op = true)
    (hq : cf.cullLimit = 0 ∨ ∀ op ∈ ops, PushNoTtl op = true) (hm : Monotone 0 ops) :
    outs ({ cfg := cf, statistics := st } : Cache) ops = QSpec.outs {} cf ops :=
  (qrun_refines _ {} 0 0 ops
    (by rw [Nat.zero_add]; exact qok_init cf st _ hp hpg (by omega) (by omega))
    (qrefines_init cf st 0) hk ho hq hm).1

/-- the first version's statement -/
theorem queues_after_history (cf : Cfg) (st : Bool) (ops : List Op)
    (hp : cf.policy = .none) (hpg : 0 < cf.page) (hor : cf.qorigin = 500000000000000)
    (hb : pushCosts ops ≤ 499999999999999)
    (hk : ∀ op ∈ ops, QProved op = true) (ho : ∀ op ∈ ops, QSpec.Ordinary cf op = true)
    (hq : cf.cullLimit = 0 ∨ ∀ op ∈ ops, PushNoTtl op = true) (hm : Monotone 0 ops) :
    outs ({ cfg := cf, statistics := st } : Cache) ops = QSpec.outs {} cf ops :=
  queues_after_history_covered cf st ops hp hpg hor hb (fun op h => qproved_covered op (hk op h)) ho hq hm

/-! ### user-level corollaries -/

/-- `peek` returns what the next `pull` from that side would return — after any history -/
theorem peek_is_next_pull_after_history (c : Cache) (q : QSpec.State) (n : Nat) (clock now : Int)
    (E : Externals) (p : Option Str) (front et tg : Bool)
    (hok : QOk c n) (hr : QRefines c q clock) (hn : clock ≤ now) :
    (c.peek E now p front et tg).2 = (c.pull E now p front et tg).2 := by
  rw [(peek_qrefines c q n clock now E p front et tg hok hr hn).1,
    (pull_qrefines c q n clock now E p front et tg hok hr hn).1]
  unfold QSpec.peek QSpec.pull
  simp only
  split <;> rfl

/-- … and a `pull` right after the `peek` (same clock) returns that item: `peek` removes
nothing but expired items -/
theorem pull_after_peek (c : Cache) (q : QSpec.State) (n : Nat) (clock now : Int)
    (E : Externals) (p : Option Str) (front et tg : Bool)
    (hok : QOk c n) (hr : QRefines c q clock) (hn : clock ≤ now) :
    ((c.peek E now p front et tg).1.pull E now p front et tg).2 = (c.peek E now p front et tg).2 := by
  obtain ⟨h1, h2, h3⟩ := peek_qrefines c q n clock now E p front et tg hok hr hn
  have hcfg := (qr_peek_step c q n clock now E p front et tg hok hr hn).2.2.2
  rw [(pull_qrefines _ _ n now now E p front et tg h3 h2 (Int.le_refl _)).1, hcfg, h1]
  unfold QSpec.peek QSpec.pull
  simp only
  have htrim : ∀ l : List Item, trim now front (trim now front l) = trim now front l := by
    intro l
    unfold trim
    have key : ∀ (k : Nat) (l : List Item), l.length = k →
        trimBy (fun it => it.ent.expired now) front (trimBy (fun it => it.ent.expired now) front l) =
          trimBy (fun it => it.ent.expired now) front l := by
      intro k
      induction k with
      | zero =>
        intro l hl
        rw [List.length_eq_zero_iff.1 hl, trimBy_nil, trimBy_nil]
      | succ k ih =>
        intro l hl
        cases he : endOf front l with
        | none => rw [endOf_none he, trimBy_nil, trimBy_nil]
        | some a =>
          rw [trimBy_step _ he]
          split
          · exact ih _ (by have := dropEnd_length he; omega)
          · rename_i hd
            rw [trimBy_step _ he, if_neg hd]
    exact key _ l rfl
  cases he : endOf front (trim now front (q.queues.get p)) with
  | none => simp only [get_put, if_true, htrim, he]
  | some it => simp only [get_put, if_true, htrim, he]

/-! ### non-vacuity and the counterexamples for the hypotheses -/

def exQCache : Cache := { cfg := { policy := .none, cullLimit := 0 } }

/-- two queues whose prefixes extend one another (`"u"` and `"u-5"`), the integer queue, an
ordinary key with an expiry time, items with expiry times discarded by `peek` / `pull` / `expire`,
pulls from both sides -/
def exQOps : List Op :=
  [ .push toyV 10 (.int 1) none true none false .null,
    .push toyV 10 (.int 2) none true (some 3) false .null,
    .push toyV 11 (.str [97]) none false none false (.text [116]),
    .push toyV 11 (.int 7) (some [117]) true none false .null,
    .push toyV 12 (.int 8) (some [117, 45, 53]) false none false .null,
    .set toyV 12 (.str [120]) (.int 100) (some 3) false .null,
    .peek toyV 13 none true false false,
    .peek toyV 13 none false true true,
    .pull toyV 14 none false false false,
    .pull toyV 14 none true false true,
    .get toyV 14 (.str [120]) false false false,
    .pull toyV 14 (some [117]) true false false,
    .pull toyV 14 (some [117]) true false false,
    .peek toyV 15 (some [117, 45, 53]) false false false,
    .get toyV 16 (.str [120]) false false false,
    .push toyV 17 (.int 3) none true (some 1) false .null,
    .expire 20,
    .push toyV 20 (.int 4) none true none false .null,
    .pull toyV 21 none true false false,
    .pull toyV 21 none true false false,
    .clear ]

example : outs exQCache exQOps = QSpec.outs {} exQCache.cfg exQOps ∧
    ∃ clock', QRefines (exQCache.run exQOps) (QSpec.run {} exQCache.cfg exQOps) clock' :=
  qrun_refines_partial exQCache {} 0 0 exQOps
    (qok_init _ _ _ rfl (by decide) (by decide) (by decide)) (qrefines_init _ _ 0)
    (by decide) (by decide +kernel) (.inl rfl) (by decide +kernel)

/-- what the reference returns along that history -/
example : (match (QSpec.outs {} exQCache.cfg exQOps).take 6 with
    | [.val (.int 500000000000000), .val (.int 500000000000001), .val (.int 499999999999999),
       .val (.str [117, 45, 53, 48, 48, 48, 48, 48, 48, 48, 48, 48, 48, 48, 48, 48, 48]),
       .val (.str [117, 45, 53, 45, 53, 48, 48, 48, 48, 48, 48, 48, 48, 48, 48, 48, 48, 48, 48]),
       .bool true] => true
    | _ => false) = true := by
  decide +kernel

example : (match ((QSpec.outs {} exQCache.cfg exQOps).drop 6).take 5 with
    | [.tup [.val (.int 499999999999999), .val (.str [97])],
       .tup [.tup [.val (.int 500000000000001), .val (.int 2)], .time (some 13), .sql .null],
       .tup [.val (.int 500000000000000), .val (.int 1)],
       .tup [.tup [.val (.int 499999999999999), .val (.str [97])], .sql (.text [116])],
       .val (.int 100)] => true
    | _ => false) = true := by
  decide +kernel

example : (match ((QSpec.outs {} exQCache.cfg exQOps).drop 11).take 4 with
    | [.tup [.val (.str [117, 45, 53, 48, 48, 48, 48, 48, 48, 48, 48, 48, 48, 48, 48, 48, 48]), .val (.int 7)],
       .default,
       .tup [.val (.str [117, 45, 53, 45, 53, 48, 48, 48, 48, 48, 48, 48, 48, 48, 48, 48, 48, 48, 48]), .val (.int 8)],
       .default] => true
    | _ => false) = true := by
  decide +kernel

example : (match (QSpec.outs {} exQCache.cfg exQOps).drop 15 with
    | [.val (.int 500000000000000), .none, .val (.int 500000000000000),
       .tup [.val (.int 500000000000000), .val (.int 4)], .default, .none] => true
    | _ => false) = true := by
  decide +kernel

/-- a history with `add`, `incr`, `touch` between the queue calls -/
def exQOps2 : List Op :=
  [ .push toyV 1 (.int 1) none true none false .null,
    .add toyV 2 (.str [121]) (.int 5) none false .null,
    .add toyV 2 (.str [121]) (.int 6) none false .null,
    .incr toyV 3 (.str [121]) 2 none,
    .incr toyV 3 (.str [122]) 1 (some 0),
    .touch toyV 4 (.str [121]) (some 5),
    .touch toyV 4 (.str [119]) none,
    .push toyV 5 (.int 2) (some [117]) false (some 1) false .null,
    .pull toyV 6 none true false false,
    .get toyV 6 (.str [121]) false true false,
    .peek toyV 7 (some [117]) true false false,
    .get toyV 10 (.str [121]) false false false ]

example : outs exQCache exQOps2 = QSpec.outs {} exQCache.cfg exQOps2 ∧
    ∃ clock', QRefines (exQCache.run exQOps2) (QSpec.run {} exQCache.cfg exQOps2) clock' :=
  qrun_refines exQCache {} 0 0 exQOps2
    (qok_init _ _ _ rfl (by decide) (by decide) (by decide)) (qrefines_init _ _ 0)
    (by decide) (by decide +kernel) (.inl rfl) (by decide +kernel)

example : (match QSpec.outs {} exQCache.cfg exQOps2 with
    | [.val (.int 500000000000000), .bool true, .bool false, .int 7, .int 1, .bool true, .bool false,
       .val (.str [117, 45, 53, 48, 48, 48, 48, 48, 48, 48, 48, 48, 48, 48, 48, 48, 48]),
       .tup [.val (.int 500000000000000), .val (.int 1)],
       .tup [.val (.int 7), .time (some 9)],
       .default, .default] => true
    | _ => false) = true := by
  decide +kernel

theorem ne_of_test {α} (d : α → Bool) {a b : α} (ha : d a = false) (hb : d b = true) : a ≠ b :=
  fun h => by rw [h] at ha; rw [ha] at hb; cases hb

/-- `Ordinary` is needed: an ordinary key in the key range of the integer queue is taken for a
queue item — `set(7, 70)`, then `peek()` returns `(7, 70)` where the reference has an empty queue -/
theorem qrun_needs_ordinary :
    ∃ (c : Cache) (ops : List Op), QOk c (0 + pushCosts ops) ∧ QRefines c {} 0 ∧
      (∀ op ∈ ops, QProved op = true) ∧ c.cfg.cullLimit = 0 ∧ Monotone 0 ops ∧
      outs c ops ≠ QSpec.outs {} c.cfg ops := by
  refine ⟨exQCache, [.set toyV 1 (.int 7) (.int 70) none false .null, .peek toyV 2 none true false false],
    qok_init _ _ _ rfl (by decide) (by decide) (by decide), qrefines_init _ _ 0, by decide, rfl,
    by decide +kernel, ?_⟩
  -- the cache answers `(7, 70)`, the reference the default
  exact ne_of_test (fun l => match l with | [_, .default] => true | _ => false)
    (by decide +kernel) (by decide +kernel)

/-- … with the key outside the range (`-7`) the same history agrees -/
example : (match outs exQCache [.set toyV 1 (.int (-7)) (.int 70) none false .null, .peek toyV 2 none true false false],
      QSpec.outs {} exQCache.cfg [.set toyV 1 (.int (-7)) (.int 70) none false .null, .peek toyV 2 none true false false] with
    | [.bool true, .default], [.bool true, .default] => true
    | _, _ => false) = true := by decide +kernel

/-- `hq` is needed: with `cull_limit = 10` the `set` at time 5 culls the expired item pushed at
time 0, and the next `push` gets the first key again — the reference (which keeps an expired item
until a `pull` / `peek` / `expire` meets it) gives the next key -/
theorem qrun_needs_quiet :
    ∃ (c : Cache) (ops : List Op), QOk c (0 + pushCosts ops) ∧ QRefines c {} 0 ∧
      (∀ op ∈ ops, QProved op = true) ∧ (∀ op ∈ ops, QSpec.Ordinary c.cfg op = true) ∧ Monotone 0 ops ∧
      outs c ops ≠ QSpec.outs {} c.cfg ops := by
  refine ⟨{ cfg := { policy := .none, cullLimit := 10 } },
    [.push toyV 0 (.int 1) none true (some 1) false .null,
     .set toyV 5 (.str [120]) (.int 0) none false .null,
     .push toyV 5 (.int 2) none true none false .null],
    qok_init _ _ _ rfl (by decide) (by decide) (by decide), qrefines_init _ _ 0, by decide,
    by decide +kernel, by decide +kernel, ?_⟩
  -- the cache answers 500000000000000 again, the reference 500000000000001
  exact ne_of_test (fun l => match l with | [_, _, .val (.int 500000000000001)] => true | _ => false)
    (by decide +kernel) (by decide +kernel)

/-- the budget is needed: with the origin at the upper end of the key range the first pushed key
(999999999999999) lies outside the (open) range, so the item is never found again — `pull`
returns the default where the reference returns the item -/
theorem qrun_needs_budget :
    ∃ (c : Cache) (ops : List Op), Good c ∧ c.cfg.policy = .none ∧ c.cfg.cullLimit = 0 ∧ QRefines c {} 0 ∧
      (∀ op ∈ ops, QProved op = true) ∧ Monotone 0 ops ∧
      outs c ops ≠ QSpec.outs {} c.cfg ops := by
  refine ⟨{ cfg := { policy := .none, cullLimit := 0, qorigin := 999999999999999 } },
    [.push toyV 0 (.int 1) none true none false .null, .pull toyV 0 none true false false],
    good_init _ _, rfl, rfl, qrefines_init _ _ 0, by decide, by decide +kernel, ?_⟩
  exact ne_of_test (fun l => match l with | [_, .tup _] => true | _ => false)
    (by decide +kernel) (by decide +kernel)

end DC.Cache
